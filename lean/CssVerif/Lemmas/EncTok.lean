import CssVerif.Model.EncTok
import CssVerif.Lemmas.EncEscape
import CssVerif.Lemmas.TokDet
import CssVerif.Lemmas.EncTokTable
/-!
# `escapecss` against the tokenizer's productions: helper lemmas for T8.4b of `Props/C08.lean`

* position map `elen`, the guard, `Good` texts;
* `asciiPos r` (syntactic): every class of `r` is a positive class of ASCII characters without the backslash — then `r`
  matches the escaped text exactly as the original (`asciiPos_sound`);
* combinators for "the first match is kept" (`FirstPres`): sequence after an `asciiPos` head, sequence with a tail
  that always matches, alternative, greedy star;
* the atoms `{nmstart}` / `{nmchar}` of the regenerated IDENT production (`nonascii | escape`), proved by hand;
* `firstPres r` (syntactic checker over these rules) and its soundness.
-/
namespace CssVerif.EncTok
open CssVerif CssVerif.Tok CssVerif.Gen.C05
open CssVerif.EncEscape (escape escChar hexDigits maxUnicode escape_append)

/-! ## the position map -/

/-- every ASCII character is representable in the target encoding -/
def AsciiRep (rep : Nat → Bool) : Prop := ∀ c, c < 128 → rep c = true

theorem elen_zero (rep : Nat → Bool) (s : Cps) : elen rep s 0 = 0 := by simp [elen, escape]

theorem escape_split (rep : Nat → Bool) (s : Cps) (l : Nat) :
    escape rep s = escape rep (s.take l) ++ escape rep (s.drop l) := by
  rw [← escape_append, List.take_append_drop]

theorem drop_elen (rep : Nat → Bool) (s : Cps) (l : Nat) :
    (escape rep s).drop (elen rep s l) = escape rep (s.drop l) := by
  rw [escape_split rep s l, elen]; simp

theorem take_elen (rep : Nat → Bool) (s : Cps) (l : Nat) :
    (escape rep s).take (elen rep s l) = escape rep (s.take l) := by
  rw [escape_split rep s l, elen]; simp

theorem elen_add (rep : Nat → Bool) (s : Cps) (l1 l2 : Nat) :
    elen rep s (l1 + l2) = elen rep s l1 + elen rep (s.drop l1) l2 := by
  simp only [elen, List.take_add, escape_append, List.length_append]

theorem escape_length_ge (rep : Nat → Bool) (s : Cps) : s.length ≤ (escape rep s).length := by
  induction s with
  | nil => simp [escape]
  | cons c t ih =>
    simp only [escape]
    split
    · simp; omega
    · simp [escChar]; omega

theorem elen_ge (rep : Nat → Bool) (s : Cps) (l : Nat) (h : l ≤ s.length) : l ≤ elen rep s l := by
  have := escape_length_ge rep (s.take l)
  simp only [List.length_take] at this
  unfold elen; omega

theorem escape_id' (rep : Nat → Bool) (t : Cps) (h : ∀ c ∈ t, rep c = true) : escape rep t = t :=
  EncEscape.escape_id rep t h

theorem elen_id (rep : Nat → Bool) (s : Cps) (l : Nat) (h : l ≤ s.length) (hr : ∀ c ∈ s.take l, rep c = true) :
    elen rep s l = l := by
  simp [elen, escape_id' rep _ hr, h]

theorem elen_length (rep : Nat → Bool) (s : Cps) : elen rep s s.length = (escape rep s).length := by
  simp [elen]

/-- a prefix of representable characters is left alone, the rest is escaped on its own -/
theorem drop_escape_of_rep (rep : Nat → Bool) (s : Cps) (l : Nat) (h : l ≤ s.length)
    (hr : ∀ c ∈ s.take l, rep c = true) : (escape rep s).drop l = escape rep (s.drop l) := by
  have := drop_elen rep s l
  rwa [elen_id rep s l h hr] at this

/-! ## the guard -/

theorem guardFrom_weaken (rep : Nat → Bool) (s : Cps) (pb : Bool) (h : guardFrom rep pb s = true) :
    guardFrom rep false s = true := by
  cases s with
  | nil => rfl
  | cons c t =>
    simp only [guardFrom, Bool.and_eq_true] at h ⊢
    exact ⟨by simp, h.2⟩

theorem guardFrom_drop (rep : Nat → Bool) : ∀ (l : Nat) (s : Cps) (pb : Bool), guardFrom rep pb s = true →
    guardFrom rep false (s.drop l) = true := by
  intro l
  induction l with
  | zero => intro s pb h; exact guardFrom_weaken rep s pb h
  | succ l ih =>
    intro s pb h
    cases s with
    | nil => rfl
    | cons c t =>
      simp only [guardFrom, Bool.and_eq_true] at h
      exact ih t _ h.2

/-- the texts the theorems speak about: guarded, and every code point is one (`≤ sys.maxunicode`) -/
structure Good (rep : Nat → Bool) (s : Cps) : Prop where
  g : guard rep s = true
  m : ∀ c ∈ s, c ≤ maxUnicode

theorem Good.drop {rep : Nat → Bool} {s : Cps} (h : Good rep s) (l : Nat) : Good rep (s.drop l) :=
  ⟨guardFrom_drop rep l s false h.g, fun c hc => h.m c (List.mem_of_mem_drop hc)⟩

theorem Good.tail {rep : Nat → Bool} {c : Nat} {t : Cps} (h : Good rep (c :: t)) : Good rep t := h.drop 1

/-- after a backslash the next character (if any) is representable -/
theorem Good.after_bs {rep : Nat → Bool} {d : Nat} {u : Cps} (h : Good rep (92 :: d :: u)) : rep d = true := by
  have := h.g
  simp only [guard, guardFrom, Bool.and_eq_true] at this
  simpa using this.2.1

/-! ## positive ASCII patterns without the backslash see the same text -/

/-- syntactic: all classes are positive, inside ASCII, and do not contain the backslash; no `$` -/
def asciiPos : Re → Bool
  | .eps => true
  | .cls neg rs => !neg && rs.all fun p => decide (p.2 < 128) && !(decide (p.1 ≤ 92) && decide (92 ≤ p.2))
  | .seq a b => asciiPos a && asciiPos b
  | .alt a b => asciiPos a && asciiPos b
  | .star a _ => asciiPos a
  | .rep a _ _ _ => asciiPos a
  | .eol => false

/-- what `asciiPos` gives: same successes on the escaped text, all of them inside the representable prefix -/
def Same (rep : Nat → Bool) (f : Cps → List Nat) : Prop :=
  ∀ s, f (escape rep s) = f s ∧ ∀ l ∈ f s, ∀ c ∈ s.take l, rep c = true

theorem inCls_asciiPos_unrep (rs : List (Nat × Nat)) (c : Nat) (hc : 128 ≤ c)
    (h : (rs.all fun p => decide (p.2 < 128) && !(decide (p.1 ≤ 92) && decide (92 ≤ p.2))) = true) :
    Re.inCls false rs c = false := by
  have : (rs.any fun p => decide (p.1 ≤ c) && decide (c ≤ p.2)) = false := by
    induction rs with
    | nil => rfl
    | cons p ps ih =>
      simp only [List.all_cons, Bool.and_eq_true, decide_eq_true_eq] at h
      simp only [List.any_cons, ih h.2, Bool.or_false, Bool.and_eq_false_iff, decide_eq_false_iff_not]
      right; omega
  simp [Re.inCls, this]

theorem inCls_asciiPos_bs (rs : List (Nat × Nat))
    (h : (rs.all fun p => decide (p.2 < 128) && !(decide (p.1 ≤ 92) && decide (92 ≤ p.2))) = true) :
    Re.inCls false rs 92 = false := by
  have : (rs.any fun p => decide (p.1 ≤ 92) && decide (92 ≤ p.2)) = false := by
    induction rs with
    | nil => rfl
    | cons p ps ih =>
      simp only [List.all_cons, Bool.and_eq_true, decide_eq_true_eq, Bool.not_eq_true', Bool.and_eq_false_iff,
        decide_eq_false_iff_not] at h
      simp only [List.any_cons, ih h.2, Bool.or_false, Bool.and_eq_false_iff, decide_eq_false_iff_not]
      exact h.1.2
  simp [Re.inCls, this]

theorem same_flatMap {rep : Nat → Bool} {f : Cps → List Nat} (hf : Same rep f) (hbf : Re.Bounded f)
    (s : Cps) (G G' : Nat → Cps → List Nat)
    (hG : ∀ l1 ∈ f s, G' l1 (escape rep (s.drop l1)) = G l1 (s.drop l1)) :
    ((f (escape rep s)).flatMap fun l1 => (G' l1 ((escape rep s).drop l1)).map (l1 + ·)) =
      ((f s).flatMap fun l1 => (G l1 (s.drop l1)).map (l1 + ·)) := by
  rw [(hf s).1]
  apply flatMap_congr'
  intro l1 hl1
  rw [drop_escape_of_rep rep s l1 (hbf s l1 hl1) ((hf s).2 l1 hl1), hG l1 hl1]

theorem mem_take_add {s : Cps} {l1 l2 c : Nat} (h : c ∈ s.take (l1 + l2)) :
    c ∈ s.take l1 ∨ c ∈ (s.drop l1).take l2 := by
  rw [List.take_add, List.mem_append] at h; exact h

theorem same_seq {rep : Nat → Bool} {f g : Cps → List Nat} (hf : Same rep f) (hbf : Re.Bounded f)
    (hg : Same rep g) :
    Same rep (fun s => (f s).flatMap fun l1 => (g (s.drop l1)).map (l1 + ·)) := by
  intro s
  refine ⟨?_, ?_⟩
  · exact same_flatMap hf hbf s (fun _ => g) (fun _ => g) (fun l1 _ => (hg _).1)
  · intro l hl c hc
    simp only [List.mem_flatMap, List.mem_map] at hl
    obtain ⟨l1, h1, l2, h2, rfl⟩ := hl
    rcases mem_take_add hc with h | h
    · exact (hf s).2 l1 h1 c h
    · exact (hg _).2 l2 h2 c h

theorem escape_length_drop (rep : Nat → Bool) (s : Cps) (l : Nat) (h : l ≤ s.length) (hl : 0 < l)
    (hr : ∀ c ∈ s.take l, rep c = true) : (escape rep (s.drop l)).length < (escape rep s).length := by
  have := drop_escape_of_rep rep s l h hr
  have h2 : ((escape rep s).drop l).length = (escape rep (s.drop l)).length := by rw [this]
  simp only [List.length_drop] at h2
  have := escape_length_ge rep s
  omega

theorem same_star {rep : Nat → Bool} {f : Cps → List Nat} (hf : Same rep f) (hbf : Re.Bounded f) (g : Bool) :
    ∀ (n m : Nat) (s : Cps), s.length < n → (escape rep s).length < m →
      Re.starMs f g m (escape rep s) = Re.starMs f g n s ∧
        ∀ l ∈ Re.starMs f g n s, ∀ c ∈ s.take l, rep c = true := by
  intro n
  induction n with
  | zero => intro m s h; omega
  | succ n ih =>
    intro m s hn hm
    obtain ⟨m, rfl⟩ : ∃ k, m = k + 1 := ⟨m - 1, by omega⟩
    have hmore : ∀ l1 ∈ (f s).filter (· > 0), (s.drop l1).length < n ∧ (escape rep (s.drop l1)).length < m := by
      intro l1 hl1
      simp only [List.mem_filter, decide_eq_true_eq] at hl1
      have hb := hbf s l1 hl1.1
      have := escape_length_drop rep s l1 hb hl1.2 ((hf s).2 l1 hl1.1)
      simp only [List.length_drop]
      omega
    have e1 : (((f (escape rep s)).filter (· > 0)).flatMap fun l1 =>
          (Re.starMs f g m ((escape rep s).drop l1)).map (l1 + ·)) =
        (((f s).filter (· > 0)).flatMap fun l1 => (Re.starMs f g n (s.drop l1)).map (l1 + ·)) := by
      rw [(hf s).1]
      apply flatMap_congr'
      intro l1 hl1
      have hl1' := hl1
      simp only [List.mem_filter, decide_eq_true_eq] at hl1'
      rw [drop_escape_of_rep rep s l1 (hbf s l1 hl1'.1) ((hf s).2 l1 hl1'.1),
        (ih m (s.drop l1) (hmore l1 hl1).1 (hmore l1 hl1).2).1]
    have e2 : ∀ l ∈ (((f s).filter (· > 0)).flatMap fun l1 => (Re.starMs f g n (s.drop l1)).map (l1 + ·)),
        ∀ c ∈ s.take l, rep c = true := by
      intro l hl c hc
      simp only [List.mem_flatMap, List.mem_map] at hl
      obtain ⟨l1, h1, l2, h2, rfl⟩ := hl
      have h1' := h1
      simp only [List.mem_filter, decide_eq_true_eq] at h1'
      rcases mem_take_add hc with h | h
      · exact (hf s).2 l1 h1'.1 c h
      · exact (ih m (s.drop l1) (hmore l1 h1).1 (hmore l1 h1).2).2 l2 h2 c h
    refine ⟨?_, ?_⟩
    · simp only [Re.starMs, e1]
    · intro l hl c hc
      simp only [Re.starMs] at hl
      split at hl
      · simp only [List.mem_append, List.mem_singleton] at hl
        rcases hl with hl | rfl
        · exact e2 l hl c hc
        · simp at hc
      · simp only [List.mem_cons] at hl
        rcases hl with rfl | hl
        · simp at hc
        · exact e2 l hl c hc

theorem same_rep {rep : Nat → Bool} {f : Cps → List Nat} (hf : Same rep f) (hbf : Re.Bounded f) (g : Bool) :
    ∀ (n m : Nat), Same rep (Re.repMs f g m n) := by
  intro n
  induction n with
  | zero =>
    intro m s
    refine ⟨by simp [Re.repMs], ?_⟩
    intro l hl c hc
    simp only [Re.repMs] at hl
    split at hl
    · simp at hl; subst hl; simp at hc
    · simp at hl
  | succ n ih =>
    intro m s
    have hS := same_seq hf hbf (ih (m - 1))
    have e2 := (hS s).2
    have e1 := (hS s).1
    simp only at e1 e2
    refine ⟨?_, ?_⟩
    · simp only [Re.repMs, e1]
    · intro l hl c hc
      simp only [Re.repMs] at hl
      split at hl
      · split at hl
        · simp only [List.mem_append, List.mem_singleton] at hl
          rcases hl with hl | rfl
          · exact e2 l hl c hc
          · simp at hc
        · simp only [List.mem_cons] at hl
          rcases hl with rfl | hl
          · simp at hc
          · exact e2 l hl c hc
      · exact e2 l hl c hc

/-- **soundness of `asciiPos`** -/
theorem asciiPos_sound (rep : Nat → Bool) (ha : AsciiRep rep) : ∀ r : Re, asciiPos r = true → Same rep r.ms := by
  intro r
  induction r with
  | eps => intro _ s; refine ⟨by simp [Re.ms], ?_⟩; intro l hl c hc; simp [Re.ms] at hl; subst hl; simp at hc
  | cls neg rs =>
    intro h s
    simp only [asciiPos, Bool.and_eq_true, Bool.not_eq_true'] at h
    obtain ⟨hneg, hrs⟩ := h
    subst hneg
    cases s with
    | nil => simp [escape, Re.ms]
    | cons c t =>
      cases hc : rep c with
      | true =>
        refine ⟨by simp [escape, hc, Re.ms], ?_⟩
        intro l hl x hx
        simp only [Re.ms] at hl
        split at hl
        · simp at hl; subst hl; simp at hx; subst hx; exact hc
        · simp at hl
      | false =>
        have h128 : 128 ≤ c := by
          rcases Nat.lt_or_ge c 128 with h | h
          · rw [ha c h] at hc; cases hc
          · exact h
        have e1 := inCls_asciiPos_unrep rs c h128 hrs
        have e2 := inCls_asciiPos_bs rs hrs
        simp [escape, hc, escChar, Re.ms, e1, e2]
  | seq a b iha ihb =>
    intro h
    simp only [asciiPos, Bool.and_eq_true] at h
    exact same_seq (iha h.1) (Re.ms_bounded a) (ihb h.2)
  | alt a b iha ihb =>
    intro h s
    simp only [asciiPos, Bool.and_eq_true] at h
    refine ⟨by simp [Re.ms, (iha h.1 s).1, (ihb h.2 s).1], ?_⟩
    intro l hl
    simp only [Re.ms, List.mem_append] at hl
    rcases hl with hl | hl
    · exact (iha h.1 s).2 l hl
    · exact (ihb h.2 s).2 l hl
  | star a g iha =>
    intro h s
    simp only [asciiPos] at h
    exact same_star (iha h) (Re.ms_bounded a) g _ _ s (by omega) (by omega)
  | rep a m n g iha =>
    intro h
    simp only [asciiPos] at h
    exact same_rep (iha h) (Re.ms_bounded a) g n m
  | eol => intro h; simp [asciiPos] at h


/-! ## "the first match is kept" and its combinators -/

/-- the pattern finds its first match on the escaped text where it found it on the original (and none if none) -/
def FirstPres (rep : Nat → Bool) (r : Re) : Prop :=
  ∀ s, Good rep s → r.first (escape rep s) = (r.first s).map (elen rep s)

/-- the same for texts whose first character (if any) is representable -/
def FirstPresH (rep : Nat → Bool) (r : Re) : Prop :=
  ∀ s, Good rep s → (∀ c t, s = c :: t → rep c = true) → r.first (escape rep s) = (r.first s).map (elen rep s)

theorem FirstPres.toH {rep : Nat → Bool} {r : Re} (h : FirstPres rep r) : FirstPresH rep r := fun s hs _ => h s hs

theorem firstPres_of_same {rep : Nat → Bool} {r : Re} (h : Same rep r.ms) : FirstPres rep r := by
  intro s _
  unfold Re.first
  rw [(h s).1]
  cases hm : r.ms s with
  | nil => rfl
  | cons l ls =>
    have hl : l ∈ r.ms s := by rw [hm]; simp
    simp [elen_id rep s l (Re.ms_bounded r s l hl) ((h s).2 l hl)]

theorem first_seq_findSome (a b : Re) (x : Cps) :
    (Re.seq a b).first x = (a.ms x).findSome? fun l1 => (b.first (x.drop l1)).map (l1 + ·) := by
  simp only [Re.first, Re.ms, List.head?_flatMap, List.head?_map]

theorem findSome_map {α β γ : Type} (L : List α) (g : α → Option β) (h : β → γ) :
    (L.findSome? g).map h = L.findSome? fun x => (g x).map h := by
  induction L with
  | nil => rfl
  | cons x xs ih =>
    simp only [List.findSome?_cons]
    cases g x with
    | none => simpa using ih
    | some y => rfl

theorem findSome_congr {α β : Type} (L : List α) (g g' : α → Option β) (h : ∀ x ∈ L, g x = g' x) :
    L.findSome? g = L.findSome? g' := by
  induction L with
  | nil => rfl
  | cons x xs ih =>
    simp only [List.findSome?_cons, h x List.mem_cons_self]
    rw [ih (fun y hy => h y (List.mem_cons_of_mem _ hy))]

/-- sequence whose head sees the same text -/
theorem firstPres_seq_same {rep : Nat → Bool} {a b : Re} (ha : Same rep a.ms) (hb : FirstPres rep b) :
    FirstPres rep (Re.seq a b) := by
  intro s hs
  rw [first_seq_findSome, first_seq_findSome, (ha s).1, findSome_map]
  apply findSome_congr
  intro l1 hl1
  have hbd := Re.ms_bounded a s l1 hl1
  have hr := (ha s).2 l1 hl1
  rw [drop_escape_of_rep rep s l1 hbd hr, hb _ (hs.drop l1)]
  cases b.first (s.drop l1) with
  | none => rfl
  | some l2 => simp [elen_add, elen_id rep s l1 hbd hr]

theorem first_seq_always {a b : Re} (hb : ∀ x, b.ms x ≠ []) (x : Cps) :
    (Re.seq a b).first x = (a.first x).bind fun l1 => (b.first (x.drop l1)).map (l1 + ·) := by
  rw [first_seq_findSome]
  unfold Re.first
  cases a.ms x with
  | nil => rfl
  | cons l ls =>
    simp only [List.findSome?_cons, List.head?_cons, Option.bind_some]
    cases hm : b.ms (x.drop l) with
    | nil => exact absurd hm (hb _)
    | cons y ys => simp

/-- sequence whose tail matches everywhere: no backtracking into the head -/
theorem firstPres_seq_always {rep : Nat → Bool} {a b : Re} (ha : FirstPres rep a) (hb : FirstPres rep b)
    (hal : ∀ x, b.ms x ≠ []) : FirstPres rep (Re.seq a b) := by
  intro s hs
  rw [first_seq_always hal, first_seq_always hal, ha s hs]
  cases a.first s with
  | none => rfl
  | some l1 =>
    simp only [Option.map_some, Option.bind_some]
    rw [drop_elen, hb _ (hs.drop l1)]
    cases b.first (s.drop l1) with
    | none => rfl
    | some l2 => simp [elen_add]

theorem firstPres_alt {rep : Nat → Bool} {a b : Re} (ha : FirstPres rep a) (hb : FirstPres rep b) :
    FirstPres rep (Re.alt a b) := by
  intro s hs
  rw [first_alt, first_alt, ha s hs, hb s hs]
  cases a.first s <;> rfl

theorem firstPresH_alt {rep : Nat → Bool} {a b : Re} (ha : FirstPresH rep a) (hb : FirstPresH rep b) :
    FirstPresH rep (Re.alt a b) := by
  intro s hs hh
  rw [first_alt, first_alt, ha s hs hh, hb s hs hh]
  cases a.first s <;> rfl

/-- first match of a greedy star: iterate the first match of the body -/
def starHead (r : Re) : Nat → Cps → Nat
  | 0, _ => 0
  | n + 1, x => match r.first x with
    | none => 0
    | some l1 => l1 + starHead r n (x.drop l1)

theorem filter_pos_of_nonNullable {r : Re} (hn : r.nonNullable = true) (x : Cps) :
    (r.ms x).filter (· > 0) = r.ms x := by
  apply List.filter_eq_self.mpr
  intro l hl
  simpa using Re.nonNullable_sound r hn x l hl

theorem starMs_head {r : Re} (hn : r.nonNullable = true) : ∀ (n : Nat) (x : Cps),
    (Re.starMs r.ms true n x).head? = some (starHead r n x) := by
  intro n
  induction n with
  | zero => intro x; rfl
  | succ n ih =>
    intro x
    simp only [Re.starMs, filter_pos_of_nonNullable hn, if_true, starHead, Re.first]
    cases hm : r.ms x with
    | nil => rfl
    | cons l ls =>
      have := ih (x.drop l)
      cases hs : Re.starMs r.ms true n (x.drop l) with
      | nil => rw [hs] at this; cases this
      | cons y ys =>
        rw [hs] at this
        simp only [List.head?_cons, Option.some.injEq] at this
        simp [hs, this]

theorem first_star {r : Re} (hn : r.nonNullable = true) (x : Cps) :
    (Re.star r true).first x = some (starHead r (x.length + 1) x) := starMs_head hn _ x

theorem elen_pos (rep : Nat → Bool) (s : Cps) (l : Nat) (h : l ≤ s.length) (hl : 0 < l) : 0 < elen rep s l := by
  have := elen_ge rep s l h; omega

theorem starHead_pres {rep : Nat → Bool} {r : Re} (hn : r.nonNullable = true) (hr : FirstPres rep r) :
    ∀ (n m : Nat) (s : Cps), Good rep s → s.length < n → (escape rep s).length < m →
      starHead r m (escape rep s) = elen rep s (starHead r n s) := by
  intro n
  induction n with
  | zero => intro m s _ h; omega
  | succ n ih =>
    intro m s hs hn' hm
    obtain ⟨m, rfl⟩ : ∃ k, m = k + 1 := ⟨m - 1, by omega⟩
    simp only [starHead, hr s hs]
    cases hf : r.first s with
    | none => simp [elen_zero]
    | some l1 =>
      have hpos := Re.first_pos r hn s l1 hf
      have hbd := Re.first_bounded r s l1 hf
      simp only [Option.map_some]
      rw [drop_elen, elen_add]
      congr 1
      apply ih m (s.drop l1) (hs.drop l1)
      · simp only [List.length_drop]; omega
      · have h1 := elen_pos rep s l1 hbd hpos
        have h2 := congrArg List.length (escape_split rep s l1)
        rw [List.length_append] at h2
        unfold elen at h1
        omega

/-- greedy star of a pattern that cannot match the empty string -/
theorem firstPres_star {rep : Nat → Bool} {r : Re} (hn : r.nonNullable = true) (hr : FirstPres rep r) :
    FirstPres rep (Re.star r true) := by
  intro s hs
  rw [first_star hn, first_star hn]
  simp only [Option.map_some, Option.some.injEq]
  exact starHead_pres hn hr _ _ s hs (by omega) (by omega)


/-! ## classes, and a backslash in front, on texts that start with a representable character -/

theorem escape_cons_rep {rep : Nat → Bool} {c : Nat} (t : Cps) (h : rep c = true) :
    escape rep (c :: t) = c :: escape rep t := by simp [escape, h]

theorem elen_one_rep {rep : Nat → Bool} {c : Nat} (t : Cps) (h : rep c = true) : elen rep (c :: t) 1 = 1 := by
  simp [elen, escape, h]

theorem elen_succ_rep {rep : Nat → Bool} {c : Nat} (t : Cps) (l : Nat) (h : rep c = true) :
    elen rep (c :: t) (1 + l) = 1 + elen rep t l := by
  rw [elen_add, elen_one_rep t h]; rfl

theorem firstPresH_cls (rep : Nat → Bool) (neg : Bool) (rs : List (Nat × Nat)) : FirstPresH rep (Re.cls neg rs) := by
  intro s _ hh
  cases s with
  | nil => simp [escape, first_cls_nil]
  | cons c t =>
    have hc := hh c t rfl
    rw [escape_cons_rep t hc, first_cls_cons, first_cls_cons]
    split
    · simp [elen_one_rep t hc]
    · rfl

theorem firstPresH_seq_bs {rep : Nat → Bool} {X : Re} (hX : FirstPresH rep X) :
    FirstPresH rep (Re.seq (Re.cls false [(92, 92)]) X) := by
  intro s hs hh
  cases s with
  | nil => simp [escape, first_seq_cls_nil]
  | cons c t =>
    have hc := hh c t rfl
    rw [escape_cons_rep t hc, first_seq_cls_cons, first_seq_cls_cons]
    split
    · rename_i hin
      have c92 : c = 92 := by
        simp only [Re.inCls, List.any_cons, List.any_nil, Bool.or_false, bne_iff_ne, ne_eq, Bool.and_eq_false_iff,
          decide_eq_false_iff_not, Bool.not_eq_false, Bool.and_eq_true, decide_eq_true_eq] at hin
        omega
      subst c92
      have hh' : ∀ d u, t = d :: u → rep d = true := by
        intro d u e; subst e; exact hs.after_bs
      rw [hX t hs.tail hh']
      cases X.first t with
      | none => rfl
      | some l => simp [elen_succ_rep t l hc]
    · rfl

/-! ## the hex escape that `escapecss` writes, read by `[0-9a-f]{1,6}` + optional white space -/

theorem hexDigitsF_ne_nil (fuel n : Nat) : EncEscape.hexDigitsF fuel n ≠ [] := by
  cases fuel with
  | zero => simp [EncEscape.hexDigitsF]
  | succ f => simp only [EncEscape.hexDigitsF]; split <;> simp

theorem isHex_of_upper (c : Nat) (h : EncEscape.isUpperHex c = true) : isHex c = true := by
  simp only [EncEscape.isUpperHex, Bool.or_eq_true, Bool.and_eq_true, decide_eq_true_eq] at h
  simp only [isHex, Bool.or_eq_true, Bool.and_eq_true, decide_eq_true_eq]
  omega

theorem runLen_append_stop (p : Nat → Bool) (y : Nat) (rest : Cps) (hy : p y = false) :
    ∀ (ds : Cps) (n : Nat), (∀ x ∈ ds, p x = true) → ds.length ≤ n → runLen p (ds ++ y :: rest) n = ds.length := by
  intro ds
  induction ds with
  | nil => intro n _ _; cases n <;> simp [runLen, hy]
  | cons d ds ih =>
    intro n hall hn
    obtain ⟨n, rfl⟩ : ∃ k, n = k + 1 := ⟨n - 1, by simp at hn; omega⟩
    have hd := hall d List.mem_cons_self
    simp only [List.cons_append, runLen, hd, if_true, List.length_cons]
    rw [ih n (fun x hx => hall x (List.mem_cons_of_mem _ hx)) (by simp at hn; omega)]
    omega

def wsOptRe : Re := Re.rep (Re.alt nlRe (Re.cls false wsRanges)) 0 1 true
def hexEscRe : Re := Re.seq (Re.rep hexRe 1 6 true) wsOptRe

theorem wsOpt_space (rest : Cps) : wsOptRe.first (32 :: rest) = some 1 := by
  simp [wsOptRe, Re.first, Re.ms, Re.repMs, nlRe, Re.inCls, wsRanges]

/-- `HEX SPACE` as written by `_escapecss`: all of it is taken -/
theorem hexEsc_first (c : Nat) (hmax : c ≤ maxUnicode) (rest : Cps) :
    hexEscRe.first (hexDigits c ++ 32 :: rest) = some ((hexDigits c).length + 1) := by
  have hup := EncEscape.hexDigits_upper c
  have hlen := EncEscape.hexDigits_length_le6 c hmax
  have hne : hexDigits c ≠ [] := hexDigitsF_ne_nil c c
  cases hH : hexDigits c with
  | nil => exact absurd hH hne
  | cons d ds =>
    rw [hH] at hup hlen
    have hd : isHex d = true := isHex_of_upper d (hup d List.mem_cons_self)
    have hds : ∀ x ∈ ds, isHex x = true := fun x hx => isHex_of_upper x (hup x (List.mem_cons_of_mem _ hx))
    have hrun : runLen isHex (ds ++ 32 :: rest) 5 = ds.length :=
      runLen_append_stop isHex 32 rest (by decide) ds 5 hds (by simp at hlen; omega)
    have h1 : (Re.rep hexRe 1 6 true).first ((d :: ds) ++ 32 :: rest) = some (d :: ds).length := by
      simp only [Re.first, List.cons_append, hexrep_ms d _ hd, hrun, List.head?_map, head_countdown,
        Option.map_some, List.length_cons]
      congr 1; omega
    have h2 : wsOptRe.first (((d :: ds) ++ 32 :: rest).drop (d :: ds).length) = some 1 := by
      rw [List.drop_left]; exact wsOpt_space rest
    exact first_seq_some h1 h2

/-! ## the atom `class | nonascii | escape` (`{nmstart}`, `{nmchar}`) -/

def nonasciiRe : Re := Re.cls true [(0, 127)]

def nameAtom (kA simple : Re) : Re :=
  Re.alt kA (Re.alt nonasciiRe (Re.seq (Re.cls false [(92, 92)]) (Re.alt hexEscRe simple)))

theorem hexEsc_asciiPos : asciiPos hexEscRe = true := by decide

theorem unrep_ge {rep : Nat → Bool} (ha : AsciiRep rep) {c : Nat} (hc : rep c = false) : 128 ≤ c := by
  rcases Nat.lt_or_ge c 128 with h | h
  · rw [ha c h] at hc; cases hc
  · exact h

theorem nameAtom_firstPres (rep : Nat → Bool) (ha : AsciiRep rep) (kA : Re) (neg : Bool) (rs : List (Nat × Nat))
    (hk : asciiPos kA = true) (hkn : kA.nonNullable = true) : FirstPres rep (nameAtom kA (Re.cls neg rs)) := by
  have hkS := asciiPos_sound rep ha kA hk
  have hH : FirstPresH rep (nameAtom kA (Re.cls neg rs)) :=
    firstPresH_alt (firstPres_of_same hkS).toH
      (firstPresH_alt (firstPresH_cls rep _ _)
        (firstPresH_seq_bs (firstPresH_alt (firstPres_of_same (asciiPos_sound rep ha _ hexEsc_asciiPos)).toH
          (firstPresH_cls rep _ _))))
  intro s hs
  cases s with
  | nil => exact hH [] hs (by intro c t e; cases e)
  | cons c t =>
    cases hc : rep c with
    | true => exact hH (c :: t) hs (by intro c' t' e; cases e; exact hc)
    | false =>
      have h128 := unrep_ge ha hc
      have hmax : c ≤ maxUnicode := hs.m c List.mem_cons_self
      -- the class of ASCII characters does not match, neither on `c` nor on the backslash
      have hk0 : kA.ms (c :: t) = [] := by
        cases hm : kA.ms (c :: t) with
        | nil => rfl
        | cons l ls =>
          have hl : l ∈ kA.ms (c :: t) := by rw [hm]; simp
          have hpos := Re.nonNullable_sound kA hkn _ l hl
          have := (hkS (c :: t)).2 l hl c (by
            obtain ⟨k, rfl⟩ : ∃ k, l = k + 1 := ⟨l - 1, by omega⟩
            simp)
          rw [this] at hc; cases hc
      have hk1 : kA.ms (escape rep (c :: t)) = [] := by rw [(hkS (c :: t)).1, hk0]
      have hna : Re.inCls true [(0, 127)] c = true := by
        simp only [Re.inCls, List.any_cons, List.any_nil, Bool.or_false, bne_iff_ne, ne_eq, Bool.and_eq_true,
          decide_eq_true_eq, not_and, Nat.not_le]
        intro _; omega
      have e0 : (nameAtom kA (Re.cls neg rs)).first (c :: t) = some 1 := by
        simp [nameAtom, first_alt, Re.first, hk0, nonasciiRe, Re.ms, hna]
      have e1 : (nameAtom kA (Re.cls neg rs)).first (escape rep (c :: t)) = some (1 + ((hexDigits c).length + 1)) := by
        have hx := hexEsc_first c hmax (escape rep t)
        have : escape rep (c :: t) = 92 :: (hexDigits c ++ 32 :: escape rep t) := by
          simp [escape, hc, escChar]
        simp only [nameAtom, first_alt]
        rw [show kA.first (escape rep (c :: t)) = none from by simp [Re.first, hk1]]
        rw [this, show nonasciiRe = Re.cls true [(0, 127)] from rfl, first_cls_cons, first_seq_cls_cons, first_alt, hx]
        simp [Re.inCls]
      rw [e0, e1]
      simp [elen, escape, hc, escChar]
      omega


/-! ## the syntactic checker -/

/-- `class | nonascii | \ (hex escape | class)` with an ASCII class in front -/
def isNameAtom : Re → Bool
  | .alt kA (.alt na (.seq bs (.alt he (.cls _ _)))) =>
    asciiPos kA && kA.nonNullable && decide (na = nonasciiRe) && decide (bs = Re.cls false [(92, 92)]) &&
      decide (he = hexEscRe)
  | _ => false

/-- syntactic: the first match of `r` is kept by `escapecss` (sound: `firstPres_sound`; not complete) -/
def firstPres : Re → Bool
  | .seq a b => asciiPos (.seq a b) || (asciiPos a && firstPres b) || (firstPres a && firstPres b && always b)
  | .alt a b => asciiPos (.alt a b) || isNameAtom (.alt a b) || (firstPres a && firstPres b)
  | .star a g => asciiPos (.star a g) || (g && a.nonNullable && firstPres a)
  | r => asciiPos r

theorem isNameAtom_sound (rep : Nat → Bool) (ha : AsciiRep rep) (r : Re) (h : isNameAtom r = true) :
    FirstPres rep r := by
  unfold isNameAtom at h
  split at h
  · rename_i kA na bs he neg rs
    simp only [Bool.and_eq_true, decide_eq_true_eq] at h
    obtain ⟨⟨⟨⟨h1, h2⟩, h3⟩, h4⟩, h5⟩ := h
    subst h3 h4 h5
    exact nameAtom_firstPres rep ha kA neg rs h1 h2
  · cases h

/-- **soundness of the checker** -/
theorem firstPres_sound (rep : Nat → Bool) (ha : AsciiRep rep) : ∀ r : Re, firstPres r = true → FirstPres rep r := by
  intro r
  induction r with
  | eps => intro h; exact firstPres_of_same (asciiPos_sound rep ha _ h)
  | cls neg rs => intro h; exact firstPres_of_same (asciiPos_sound rep ha _ h)
  | eol => intro h; exact firstPres_of_same (asciiPos_sound rep ha _ h)
  | rep a m n g _ => intro h; exact firstPres_of_same (asciiPos_sound rep ha _ h)
  | seq a b iha ihb =>
    intro h
    simp only [firstPres, Bool.or_eq_true, Bool.and_eq_true] at h
    rcases h with (h | h) | h
    · exact firstPres_of_same (asciiPos_sound rep ha _ h)
    · exact firstPres_seq_same (asciiPos_sound rep ha a h.1) (ihb h.2)
    · exact firstPres_seq_always (iha h.1.1) (ihb h.1.2) (always_sound b h.2)
  | alt a b iha ihb =>
    intro h
    simp only [firstPres, Bool.or_eq_true, Bool.and_eq_true] at h
    rcases h with (h | h) | h
    · exact firstPres_of_same (asciiPos_sound rep ha _ h)
    · exact isNameAtom_sound rep ha _ h
    · exact firstPres_alt (iha h.1) (ihb h.2)
  | star a g iha =>
    intro h
    simp only [firstPres, Bool.or_eq_true, Bool.and_eq_true] at h
    rcases h with h | h
    · exact firstPres_of_same (asciiPos_sound rep ha _ h)
    · obtain ⟨⟨hg, hn⟩, hp⟩ := h
      subst hg
      exact firstPres_star hn (iha hp)

/-! ## FUNCTION = IDENT `(` -/

theorem ms_seq_assoc (a b c : Re) (x : Cps) : (Re.seq (Re.seq a b) c).ms x = (Re.seq a (Re.seq b c)).ms x := by
  simp only [Re.ms, List.flatMap_assoc, List.flatMap_map, List.map_flatMap, List.map_map, List.drop_drop]
  apply flatMap_congr'
  intro l1 _
  apply flatMap_congr'
  intro l2 _
  simp [Nat.add_assoc, Nat.add_comm l2 l1, Function.comp_def]

theorem ms_seq_congr_right (a : Re) {b b' : Re} (h : ∀ y, b.ms y = b'.ms y) (x : Cps) :
    (Re.seq a b).ms x = (Re.seq a b').ms x := by
  simp only [Re.ms, h]

def lparenRe : Re := Re.cls false [(40, 40)]

theorem reFUNCTION_eq : reFUNCTION = Re.seq dashOpt (Re.seq nmstartRe (Re.seq (Re.star nmcharRe true) lparenRe)) := by
  decide

theorem function_ms (x : Cps) : reFUNCTION.ms x = (Re.seq reIDENT lparenRe).ms x := by
  rw [reFUNCTION_eq, reIDENT_eq, ms_seq_assoc]
  apply ms_seq_congr_right
  intro y
  rw [ms_seq_assoc]

/-- FUNCTION after an identifier that is directly followed by `(` -/
theorem function_first_some {x : Cps} {l : Nat} (h : reIDENT.first x = some l) (hp : x[l]? = some 40) :
    reFUNCTION.first x = some (l + 1) := by
  have e : reFUNCTION.first x = (Re.seq reIDENT lparenRe).first x := by simp only [Re.first, function_ms]
  rw [e]
  apply first_seq_some h
  have hl : l < x.length := by
    rcases Nat.lt_or_ge l x.length with h' | h'
    · exact h'
    · rw [List.getElem?_eq_none h'] at hp; cases hp
  have hd : x.drop l = 40 :: x.drop (l + 1) := by
    rw [List.drop_eq_getElem_cons hl]
    congr 1
    rw [List.getElem?_eq_getElem hl] at hp
    exact Option.some.inj hp
  rw [hd, lparenRe, first_cls_cons]
  rfl

/-- no FUNCTION without an identifier -/
theorem function_first_none {x : Cps} (h : reIDENT.first x = none) : reFUNCTION.first x = none := by
  have e : reFUNCTION.first x = (Re.seq reIDENT lparenRe).first x := by simp only [Re.first, function_ms]
  rw [e]
  apply first_seq_none
  unfold Re.first at h
  cases hm : reIDENT.ms x with
  | nil => rfl
  | cons y ys => rw [hm] at h; cases h


/-! ## greedy star whose body is not itself kept: one escaped character becomes several iterations -/

theorem starHead_fuel {r : Re} (hn : r.nonNullable = true) : ∀ (n m : Nat) (x : Cps), x.length < n → x.length < m →
    starHead r n x = starHead r m x := by
  intro n
  induction n with
  | zero => intro m x h; omega
  | succ n ih =>
    intro m x h1 h2
    obtain ⟨m, rfl⟩ : ∃ k, m = k + 1 := ⟨m - 1, by omega⟩
    simp only [starHead]
    cases hf : r.first x with
    | none => rfl
    | some l1 =>
      have hpos := Re.first_pos r hn x l1 hf
      have hbd := Re.first_bounded r x l1 hf
      simp only
      rw [ih m (x.drop l1) (by simp only [List.length_drop]; omega) (by simp only [List.length_drop]; omega)]

/-- length of the first match of `r*` (greedy) -/
def starLen (r : Re) (x : Cps) : Nat := starHead r (x.length + 1) x

theorem first_star' {r : Re} (hn : r.nonNullable = true) (x : Cps) : (Re.star r true).first x = some (starLen r x) :=
  first_star hn x

theorem starLen_none {r : Re} {x : Cps} (h : r.first x = none) : starLen r x = 0 := by
  simp [starLen, starHead, h]

theorem starLen_some {r : Re} (hn : r.nonNullable = true) {x : Cps} {l1 : Nat} (h : r.first x = some l1) :
    starLen r x = l1 + starLen r (x.drop l1) := by
  have hpos := Re.first_pos r hn x l1 h
  have hbd := Re.first_bounded r x l1 h
  unfold starLen
  rw [show starHead r (x.length + 1) x = (match r.first x with
    | none => 0
    | some l1 => l1 + starHead r x.length (x.drop l1)) from rfl, h]
  simp only
  rw [starHead_fuel hn x.length ((x.drop l1).length + 1) (x.drop l1) (by simp only [List.length_drop]; omega)
    (by omega)]

theorem starLen_run {r : Re} (hn : r.nonNullable = true) (y : Cps) : ∀ (run : Cps),
    (∀ c ∈ run, ∀ z, r.first (c :: z) = some 1) → starLen r (run ++ y) = run.length + starLen r y := by
  intro run
  induction run with
  | nil => intro _; simp
  | cons c cs ih =>
    intro h
    rw [List.cons_append, starLen_some hn (h c List.mem_cons_self _)]
    simp only [List.drop_one, List.tail_cons, List.length_cons]
    rw [ih (fun x hx => h x (List.mem_cons_of_mem _ hx))]
    omega

/-- what the body must do with one escaped character -/
def StarUnrep (rep : Nat → Bool) (r : Re) : Prop :=
  ∀ c, rep c = false → c ≤ maxUnicode →
    (∀ t, r.first (c :: t) = some 1) ∧ ∀ y, starLen r (escChar c ++ y) = (escChar c).length + starLen r y

theorem starLen_pres {rep : Nat → Bool} {r : Re} (hn : r.nonNullable = true) (hH : FirstPresH rep r)
    (hU : StarUnrep rep r) : ∀ (n : Nat) (s : Cps), s.length < n → Good rep s →
      starLen r (escape rep s) = elen rep s (starLen r s) := by
  intro n
  induction n with
  | zero => intro s h; omega
  | succ n ih =>
    intro s hlen hs
    cases s with
    | nil =>
      have : r.first [] = none := by simp [Re.first, ms_nil_of_nonNullable hn]
      simp [escape, starLen_none this, elen_zero]
    | cons c t =>
      cases hc : rep c with
      | true =>
        have hh := hH (c :: t) hs (by intro c' t' e; cases e; exact hc)
        cases hf : r.first (c :: t) with
        | none =>
          rw [hf] at hh
          rw [starLen_none hf, starLen_none hh, elen_zero]
        | some l1 =>
          rw [hf] at hh
          have hpos := Re.first_pos r hn _ l1 hf
          have hbd := Re.first_bounded r _ l1 hf
          rw [starLen_some hn hf, starLen_some hn hh, drop_elen, elen_add]
          congr 1
          apply ih _ _ (hs.drop l1)
          simp only [List.length_drop]; omega
      | false =>
        obtain ⟨h1, h2⟩ := hU c hc (hs.m c List.mem_cons_self)
        have e : escape rep (c :: t) = escChar c ++ escape rep t := by simp [escape, hc]
        rw [e, h2, starLen_some hn (h1 t)]
        simp only [List.drop_one, List.tail_cons]
        rw [ih t (by simp at hlen; omega) hs.tail, elen_add]
        simp [elen, escape, hc]

theorem firstPres_star_of_H {rep : Nat → Bool} {r : Re} (hn : r.nonNullable = true) (hH : FirstPresH rep r)
    (hU : StarUnrep rep r) : FirstPres rep (Re.star r true) := by
  intro s hs
  rw [first_star' hn, first_star' hn]
  simp only [Option.map_some, Option.some.injEq]
  exact starLen_pres hn hH hU _ s (Nat.lt_succ_self _) hs

/-! ## sequence without backtracking into the head -/

/-- every code point of the text is one -/
def Bnd (x : Cps) : Prop := ∀ c ∈ x, c ≤ maxUnicode

/-- the first match of `a b` is the first match of `a` followed by the first match of `b` (or nothing) -/
def SeqDet (a b : Re) : Prop :=
  ∀ x, Bnd x → (Re.seq a b).first x = (a.first x).bind fun l1 => (b.first (x.drop l1)).map (l1 + ·)

theorem seqDet_of_always {a b : Re} (hb : ∀ x, b.ms x ≠ []) : SeqDet a b := fun x _ => first_seq_always hb x

/-- no success of `a` but the first is followed by a success of `b` -/
def Tight (a b : Re) : Prop :=
  ∀ x, Bnd x → ∀ l ls, a.ms x = l :: ls → ∀ l' ∈ ls, b.ms (x.drop l') = []

theorem seqDet_of_tight {a b : Re} (h : Tight a b) : SeqDet a b := by
  intro x hx
  rw [first_seq_findSome]
  unfold Re.first
  cases hm : a.ms x with
  | nil => rfl
  | cons l ls =>
    simp only [List.findSome?_cons, List.head?_cons, Option.bind_some]
    cases hb : (b.ms (x.drop l)).head? with
    | some y => rfl
    | none =>
      simp only [Option.map_none]
      apply List.findSome?_eq_none_iff.mpr
      intro l' hl'
      simp [h x hx l ls hm l' hl']

theorem escape_bnd {rep : Nat → Bool} {s : Cps} (hs : Good rep s) : Bnd (escape rep s) := by
  intro c hc
  have : ∀ (t : Cps), (∀ x ∈ t, x ≤ maxUnicode) → ∀ x ∈ escape rep t, x ≤ maxUnicode := by
    intro t
    induction t with
    | nil => intro _ x hx; simp [escape] at hx
    | cons d t ih =>
      intro ht x hx
      simp only [escape] at hx
      split at hx
      · simp only [List.mem_cons] at hx
        rcases hx with rfl | hx
        · exact ht _ List.mem_cons_self
        · exact ih (fun y hy => ht y (List.mem_cons_of_mem _ hy)) x hx
      · simp only [escChar, List.cons_append, List.append_assoc, List.mem_cons, List.mem_append,
          List.not_mem_nil, false_or] at hx
        rcases hx with rfl | hx | rfl | hx
        · decide
        · have := EncEscape.hexDigits_upper d x hx
          simp only [EncEscape.isUpperHex, Bool.or_eq_true, Bool.and_eq_true, decide_eq_true_eq] at this
          simp only [maxUnicode]; omega
        · decide
        · exact ih (fun y hy => ht y (List.mem_cons_of_mem _ hy)) x hx
  exact this s hs.m c hc

theorem firstPres_seq_det {rep : Nat → Bool} {a b : Re} (ha : FirstPres rep a) (hb : FirstPres rep b)
    (hd : SeqDet a b) : FirstPres rep (Re.seq a b) := by
  intro s hs
  rw [hd _ (escape_bnd hs), hd s hs.m, ha s hs]
  cases a.first s with
  | none => rfl
  | some l1 =>
    simp only [Option.map_some, Option.bind_some]
    rw [drop_elen, hb _ (hs.drop l1)]
    cases b.first (s.drop l1) with
    | none => rfl
    | some l2 => simp [elen_add]

/-! ## string bodies: INVALID -/

theorem itemRe_nonNullable (q : Nat) : (itemRe q).nonNullable = true := by
  simp [itemRe, Re.nonNullable, bsRe]

theorem itemRe_firstPresH (rep : Nat → Bool) (ha : AsciiRep rep) (q : Nat) : FirstPresH rep (itemRe q) := by
  have hnl : asciiPos nlRe = true := by decide
  have hhn : asciiPos (Re.seq (Re.rep hexRe 1 6 true) nlRe) = true := by decide
  exact firstPresH_alt (firstPresH_cls rep _ _)
    (firstPresH_alt (firstPresH_seq_bs (firstPres_of_same (asciiPos_sound rep ha _ hnl)).toH)
      (firstPresH_seq_bs (firstPresH_alt (firstPres_of_same (asciiPos_sound rep ha _ hhn)).toH
        (firstPresH_cls rep _ _))))

theorem item_first_ordinary (q c : Nat) (z : Cps) (h : ordinary q c = true) : (itemRe q).first (c :: z) = some 1 := by
  have hc : c ≠ 92 := by
    intro e; subst e; simp [ordinary] at h
  simp [Re.first, item_ms, itemLens, hc, h]

theorem item_first_bs_hex (q d : Nat) (ds y : Cps) (hd : EncEscape.isUpperHex d = true)
    (hds : ∀ x ∈ ds, EncEscape.isUpperHex x = true) (hlen : ds.length ≤ 5) :
    (itemRe q).first (92 :: d :: (ds ++ 32 :: y)) = some 2 := by
  have hdh := isHex_of_upper d hd
  have hrun : runLen isHex (ds ++ 32 :: y) 5 = ds.length :=
    runLen_append_stop isHex 32 y (by decide) ds 5 (fun x hx => isHex_of_upper x (hds x hx)) hlen
  have hnl : isNl d = false := by
    simp only [EncEscape.isUpperHex, Bool.or_eq_true, Bool.and_eq_true, decide_eq_true_eq] at hd
    simp only [isNl, Bool.or_eq_false_iff, beq_eq_false_iff_ne]
    omega
  have e1 : nlLens (d :: (ds ++ 32 :: y)) = [] := nlLens_hex d _ hdh
  have e2 : nlLens ((ds ++ 32 :: y).drop ds.length) = [] := by rw [List.drop_left]; simp [nlLens]
  simp only [Re.first, item_ms, itemLens]
  have e3 : nlLens (32 :: y) = [] := by simp [nlLens]
  simp [e1, hdh, hrun, e3, hnl]

theorem upper_ordinary (q c : Nat) (hq : q = 34 ∨ q = 39) (h : EncEscape.isUpperHex c = true ∨ c = 32) :
    ordinary q c = true := by
  simp only [EncEscape.isUpperHex, Bool.or_eq_true, Bool.and_eq_true, decide_eq_true_eq] at h
  simp only [ordinary, Bool.not_eq_true', Bool.or_eq_false_iff, beq_eq_false_iff_ne]
  omega

theorem unrep_ordinary {rep : Nat → Bool} (ha : AsciiRep rep) (q c : Nat) (hq : q = 34 ∨ q = 39)
    (hc : rep c = false) : ordinary q c = true := by
  have := unrep_ge ha hc
  simp only [ordinary, Bool.not_eq_true', Bool.or_eq_false_iff, beq_eq_false_iff_ne]
  omega

theorem itemRe_starUnrep (rep : Nat → Bool) (ha : AsciiRep rep) (q : Nat) (hq : q = 34 ∨ q = 39) :
    StarUnrep rep (itemRe q) := by
  intro c hc hmax
  refine ⟨fun t => item_first_ordinary q c t (unrep_ordinary ha q c hq hc), ?_⟩
  intro y
  have hup := EncEscape.hexDigits_upper c
  have hlen := EncEscape.hexDigits_length_le6 c hmax
  have hne : hexDigits c ≠ [] := hexDigitsF_ne_nil c c
  cases hH : hexDigits c with
  | nil => exact absurd hH hne
  | cons d ds =>
    rw [hH] at hup hlen
    have hn := itemRe_nonNullable q
    have h1 := item_first_bs_hex q d ds y (hup d List.mem_cons_self)
      (fun x hx => hup x (List.mem_cons_of_mem _ hx)) (by simp at hlen; omega)
    have e : escChar c ++ y = 92 :: d :: (ds ++ 32 :: y) := by simp [escChar, hH]
    rw [e, starLen_some hn h1]
    simp only [List.drop_succ_cons, List.drop_zero]
    have e2 : ds ++ 32 :: y = (ds ++ [32]) ++ y := by simp
    rw [e2, starLen_run hn y (ds ++ [32])]
    · simp [escChar, hH]; omega
    · intro x hx z
      apply item_first_ordinary
      apply upper_ordinary q x hq
      simp only [List.mem_append, List.mem_singleton] at hx
      rcases hx with hx | hx
      · exact Or.inl (hup x (List.mem_cons_of_mem _ hx))
      · exact Or.inr hx

theorem strBody_firstPres (rep : Nat → Bool) (ha : AsciiRep rep) (q : Nat) (hq : q = 34 ∨ q = 39) :
    FirstPres rep (strBody q) :=
  firstPres_star_of_H (itemRe_nonNullable q) (itemRe_firstPresH rep ha q) (itemRe_starUnrep rep ha q hq)

theorem quote_same (rep : Nat → Bool) (ha : AsciiRep rep) (q : Nat) (hq : q = 34 ∨ q = 39) :
    Same rep (Re.cls false [(q, q)]).ms := by
  apply asciiPos_sound rep ha
  rcases hq with rfl | rfl <;> decide

/-- INVALID (an unterminated string) keeps its first match -/
theorem invalid_firstPres (rep : Nat → Bool) (ha : AsciiRep rep) : FirstPres rep reINVALID := by
  rw [reINVALID_shape]
  exact firstPres_alt
    (firstPres_seq_same (quote_same rep ha 34 (Or.inl rfl)) (strBody_firstPres rep ha 34 (Or.inl rfl)))
    (firstPres_seq_same (quote_same rep ha 39 (Or.inr rfl)) (strBody_firstPres rep ha 39 (Or.inr rfl)))


/-! ## string bodies: STRING — the closing quote can only follow the greedy body -/

theorem starMs_dead (q n e : Nat) (w : Cps) (h : isNl e = true) : Re.starMs (itemLens q) true n (e :: w) = [0] := by
  cases n with
  | zero => rfl
  | succ n => exact starMs_stuck _ _ n (itemLens_nlhead q e w h)

theorem nl_ne_quote (q e : Nat) (hq : q = 34 ∨ q = 39) (h : isNl e = true) : e ≠ q := by
  have : e = 10 ∨ e = 13 ∨ e = 12 := by simpa [isNl, or_assoc] using h
  omega

theorem quote_not_hex (q : Nat) (hq : q = 34 ∨ q = 39) : isHex q = false := by
  rcases hq with rfl | rfl <;> decide

theorem after_first_digit_no_quote (q : Nat) (hq : q = 34 ∨ q = 39) (u : Cps) (n : Nat) (hn : u.length < n)
    (hN : nlLens (u.drop (runLen isHex u 5)) ≠ []) :
    ∀ l ∈ Re.starMs (itemLens q) true n u, (u.drop l).head? ≠ some q := by
  have hqh := quote_not_hex q hq
  rw [star_after_first_digit q hqh u n hn hN]
  intro l hl
  have hle := mem_countdown hl
  obtain ⟨e, w, hew, he⟩ := nlLens_ne_nil_head _ hN
  rcases Nat.lt_or_ge l (runLen isHex u 5) with h | h
  · obtain ⟨d', u', hd, hp⟩ := runLen_drop_head isHex u 5 l h
    rw [hd]
    simp only [List.head?_cons, ne_eq, Option.some.injEq]
    intro e'; subst e'; rw [hp] at hqh; cases hqh
  · have : l = runLen isHex u 5 := by omega
    subst this
    rw [hew]
    simp only [List.head?_cons, ne_eq, Option.some.injEq]
    exact nl_ne_quote q e hq he

/-- what is reached through a later alternative of the first item is never followed by the quote -/
theorem item_alt_dead (q : Nat) (hq : q = 34 ∨ q = 39) (n : Nat) (x : Cps) (hn : x.length < n + 1)
    (i1 : Nat) (irest : List Nat) (hI : itemLens q x = i1 :: irest) :
    ∀ i2 ∈ irest, ∀ l ∈ Re.starMs (itemLens q) true n (x.drop i2), (x.drop (i2 + l)).head? ≠ some q := by
  have hqh := quote_not_hex q hq
  rcases x with _ | ⟨c, t⟩
  · simp [itemLens] at hI
  by_cases hc : c ≠ 92
  · simp only [itemLens, if_pos hc] at hI
    split at hI
    · simp only [List.cons.injEq] at hI
      obtain ⟨_, rfl⟩ := hI
      intro i2 h; cases h
    · cases hI
  have hc : c = 92 := by simpa using hc
  subst hc
  rcases t with _ | ⟨d, u⟩
  · simp [itemLens] at hI
  by_cases hnl : isNl d = true
  · have hd : d = 10 ∨ d = 13 ∨ d = 12 := by simpa [isNl, or_assoc] using hnl
    rcases hd with rfl | rfl | rfl
    · simp [itemLens, nlLens, isHex, isNl] at hI
      obtain ⟨_, rfl⟩ := hI
      intro i2 h; cases h
    · by_cases hu : u.head? = some 10
      · simp [itemLens, nlLens, isHex, isNl, hu] at hI
        obtain ⟨_, rfl⟩ := hI
        intro i2 hi2 l hl
        simp only [List.mem_singleton] at hi2
        subst hi2
        rcases u with _ | ⟨e, w⟩
        · simp at hu
        · simp only [List.head?_cons, Option.some.injEq] at hu
          subst hu
          simp only [List.drop_succ_cons, List.drop_zero] at hl
          rw [starMs_dead q n 10 w (by decide)] at hl
          simp only [List.mem_singleton] at hl
          subst hl
          simp only [Nat.add_zero, List.drop_succ_cons, List.drop_zero, List.head?_cons, ne_eq, Option.some.injEq]
          omega
      · simp [itemLens, nlLens, isHex, isNl, hu] at hI
        obtain ⟨_, rfl⟩ := hI
        intro i2 h; cases h
    · simp [itemLens, nlLens, isHex, isNl] at hI
      obtain ⟨_, rfl⟩ := hI
      intro i2 h; cases h
  · have hnl' : isNl d = false := by simpa using hnl
    by_cases hh : isHex d = true
    · have hIL : itemLens q (92 :: d :: u) =
          ((nlLens (u.drop (runLen isHex u 5))).map fun x => 1 + (1 + runLen isHex u 5 + x)) ++ [2] := by
        simp [itemLens, nlLens_hex d u hh, hh, hnl']
      rw [hIL] at hI
      have hulen : u.length < n := by simp at hn; omega
      by_cases hN : nlLens (u.drop (runLen isHex u 5)) = []
      · rw [hN] at hI
        simp only [List.map_nil, List.nil_append, List.cons.injEq] at hI
        obtain ⟨_, rfl⟩ := hI
        intro i2 h; cases h
      · have h2 := after_first_digit_no_quote q hq u n hulen hN
        obtain ⟨e, w, hew, he⟩ := nlLens_ne_nil_head _ hN
        intro i2 hi2 l hl
        -- the alternatives after the first: `\` hex+ CR (when CR LF follows), and `\` first digit
        have hcases : i2 = 2 ∨ (i2 = runLen isHex u 5 + 3 ∧ ∃ w', w = 10 :: w') := by
          rw [hew] at hI
          simp only [nlLens] at hI
          split at hI
          · simp only [List.map_cons, List.map_nil, List.cons_append, List.nil_append, List.cons.injEq] at hI
            obtain ⟨_, rfl⟩ := hI
            simp only [List.mem_singleton] at hi2
            exact Or.inl hi2
          · split at hI
            · split at hI
              · rename_i hw
                simp only [List.map_cons, List.map_nil, List.cons_append, List.nil_append, List.cons.injEq] at hI
                obtain ⟨_, rfl⟩ := hI
                simp only [List.mem_cons, List.not_mem_nil, or_false] at hi2
                rcases hi2 with rfl | rfl
                · right
                  refine ⟨by omega, ?_⟩
                  rcases w with _ | ⟨f, w'⟩
                  · simp at hw
                  · simp only [List.head?_cons, Option.some.injEq] at hw
                    subst hw; exact ⟨w', rfl⟩
                · exact Or.inl rfl
              · simp only [List.map_cons, List.map_nil, List.cons_append, List.nil_append, List.cons.injEq] at hI
                obtain ⟨_, rfl⟩ := hI
                simp only [List.mem_singleton] at hi2
                exact Or.inl hi2
            · split at hI
              · simp only [List.map_cons, List.map_nil, List.cons_append, List.nil_append, List.cons.injEq] at hI
                obtain ⟨_, rfl⟩ := hI
                simp only [List.mem_singleton] at hi2
                exact Or.inl hi2
              · simp only [List.map_nil, List.nil_append, List.cons.injEq] at hI
                obtain ⟨_, rfl⟩ := hI
                cases hi2
        rcases hcases with rfl | ⟨rfl, w', rfl⟩
        · simp only [List.drop_succ_cons, List.drop_zero] at hl
          have := h2 l hl
          rw [show (92 :: d :: u).drop (2 + l) = u.drop l from by
            rw [Nat.add_comm]; simp [List.drop_succ_cons]]
          exact this
        · have hd3 : (92 :: d :: u).drop (runLen isHex u 5 + 3) = 10 :: w' := by
            rw [show runLen isHex u 5 + 3 = (runLen isHex u 5 + 1) + 1 + 1 from by omega]
            simp only [List.drop_succ_cons]
            rw [← List.drop_drop, hew]
            rfl
          rw [hd3, starMs_dead q n 10 w' (by decide)] at hl
          simp only [List.mem_singleton] at hl
          subst hl
          rw [Nat.add_zero, hd3]
          simp only [List.head?_cons, ne_eq, Option.some.injEq]
          omega
    · have hh' : isHex d = false := by simpa using hh
      simp [itemLens, hh', hnl'] at hI
      have hnil : nlLens (d :: u) = [] := by
        simp only [nlLens]
        have : d ≠ 10 ∧ d ≠ 13 ∧ d ≠ 12 := by
          simp only [isNl, Bool.or_eq_false_iff, beq_eq_false_iff_ne] at hnl'
          omega
        split
        · omega
        · split
          · omega
          · split
            · omega
            · rfl
      rw [hnil] at hI
      simp only [List.map_nil, List.nil_append, List.cons.injEq] at hI
      obtain ⟨_, rfl⟩ := hI
      intro i2 h; cases h

theorem starMs_item_tight (q : Nat) (hq : q = 34 ∨ q = 39) : ∀ (n : Nat) (x : Cps), x.length < n →
    ∀ l ls, Re.starMs (itemLens q) true n x = l :: ls → ∀ l' ∈ ls, (x.drop l').head? ≠ some q := by
  intro n
  induction n with
  | zero => intro x h; omega
  | succ n ih =>
    intro x hx l ls hm l' hl'
    have hfil : (itemLens q x).filter (fun y => decide (y > 0)) = itemLens q x :=
      List.filter_eq_self.mpr (fun l hl => by simpa using itemLens_pos q x l hl)
    simp only [Re.starMs, if_true, hfil] at hm
    cases hI : itemLens q x with
    | nil =>
      rw [hI] at hm
      simp only [List.flatMap_nil, List.nil_append, List.cons.injEq] at hm
      obtain ⟨_, rfl⟩ := hm
      cases hl'
    | cons i1 irest =>
      rw [hI] at hm
      have hi1 : i1 ∈ itemLens q x := by rw [hI]; simp
      have hpos := itemLens_pos q x i1 hi1
      have hbd := Re.ms_bounded (itemRe q) x i1 (by rw [item_ms]; exact hi1)
      simp only [List.flatMap_cons] at hm
      cases hS : Re.starMs (itemLens q) true n (x.drop i1) with
      | nil => exact absurd hS (starMs_ne_nil _ _ _ _)
      | cons h hs =>
        rw [hS] at hm
        simp only [List.map_cons, List.cons_append, List.cons.injEq] at hm
        obtain ⟨_, rfl⟩ := hm
        simp only [List.mem_append, List.mem_map, List.mem_flatMap, List.mem_singleton] at hl'
        rcases hl' with (⟨l'', h1, rfl⟩ | ⟨i2, hi2, l'', h2, rfl⟩) | rfl
        · have := ih (x.drop i1) (by simp only [List.length_drop]; omega) h hs hS l'' h1
          rwa [List.drop_drop] at this
        · exact item_alt_dead q hq n x hx i1 irest hI i2 hi2 l'' h2
        · rcases x with _ | ⟨c, t⟩
          · simp
          · simp only [List.drop_zero, List.head?_cons, ne_eq, Option.some.injEq]
            intro e
            have : itemLens q (q :: t) = [] := by
              have h92 : q ≠ 92 := by omega
              have : ordinary q q = false := by simp [ordinary]
              simp [itemLens, h92, this]
            rw [e, this] at hI; cases hI

theorem strBody_tight (q : Nat) (hq : q = 34 ∨ q = 39) : Tight (strBody q) (Re.cls false [(q, q)]) := by
  intro x _ l ls hm l' hl'
  rw [strBody_ms] at hm
  have := starMs_item_tight q hq _ x (Nat.lt_succ_self _) l ls hm l' hl'
  cases hd : x.drop l' with
  | nil => simp [Re.ms]
  | cons c t =>
    rw [hd] at this
    simp only [List.head?_cons, ne_eq, Option.some.injEq] at this
    simp [Re.ms, inCls_single, this]

/-- STRING keeps its first match -/
theorem string_firstPres (rep : Nat → Bool) (ha : AsciiRep rep) : FirstPres rep reSTRING := by
  rw [reSTRING_shape]
  have h := fun q (hq : q = 34 ∨ q = 39) =>
    firstPres_seq_same (quote_same rep ha q hq)
      (firstPres_seq_det (strBody_firstPres rep ha q hq) (firstPres_of_same (quote_same rep ha q hq))
        (seqDet_of_tight (strBody_tight q hq)))
  exact firstPres_alt (h 34 (Or.inl rfl)) (h 39 (Or.inr rfl))


/-! ## the text-level guard implies the scanner-level guards of `Model/EncEscape` -/

theorem step_bs_of (m : Bool) (s : EncEscape.St) (c : Nat) (h : (EncEscape.step m s c).1 = .bs) : c = 92 := by
  cases s <;> simp only [EncEscape.step, EncEscape.stepNorm, EncEscape.endHex] at h <;>
    (repeat' split at h) <;> simp_all

theorem guard_okFrom (rep : Nat → Bool) (m : Bool) : ∀ (t : Cps) (s : EncEscape.St) (pb : Bool),
    guardFrom rep pb t = true → (s = .bs → pb = true) → EncEscape.okFrom rep m s t = true
  | [], _, _, _, _ => rfl
  | c :: t, s, pb, hg, hs => by
    simp only [guardFrom, Bool.and_eq_true] at hg
    simp only [EncEscape.okFrom, Bool.and_eq_true]
    refine ⟨?_, guard_okFrom rep m t _ (c == 92) hg.2 (fun h => by simp [step_bs_of m s c h])⟩
    by_cases hsb : s = .bs
    · have := hs hsb
      subst this
      have h1 : rep c = true := by simpa using hg.1
      simp [h1]
    · simp [hsb]

theorem guard_ok (rep : Nat → Bool) (t : Cps) (h : guard rep t = true) :
    EncEscape.ok rep t = true ∧ EncEscape.okStr rep t = true :=
  ⟨guard_okFrom rep false t .norm false h (by intro e; cases e),
   guard_okFrom rep true t .norm false h (by intro e; cases e)⟩

/-- a whole text matched: the whole escaped text is matched -/
theorem firstPres_whole {rep : Nat → Bool} {r : Re} (h : FirstPres rep r) (t : Cps) (ht : Good rep t)
    (hm : r.first t = some t.length) : r.first (escape rep t) = some (escape rep t).length := by
  rw [h t ht, hm]; simp [elen_length]


/-! ## COMMENT -/

/-- the class contains what `_escapecss` writes and everything it replaces -/
structure EClosed (neg : Bool) (rs : List (Nat × Nat)) : Prop where
  bs : Re.inCls neg rs 92 = true
  sp : Re.inCls neg rs 32 = true
  up : ∀ x, EncEscape.isUpperHex x = true → Re.inCls neg rs x = true
  na : ∀ c, 128 ≤ c → Re.inCls neg rs c = true

theorem cls_first_in (neg : Bool) (rs : List (Nat × Nat)) (c : Nat) (z : Cps) (h : Re.inCls neg rs c = true) :
    (Re.cls neg rs).first (c :: z) = some 1 := by rw [first_cls_cons, h]; rfl

theorem escChar_in (neg : Bool) (rs : List (Nat × Nat)) (hK : EClosed neg rs) (c : Nat) :
    ∀ x ∈ escChar c, Re.inCls neg rs x = true := by
  intro x hx
  simp only [escChar, List.mem_cons, List.mem_append, List.not_mem_nil, or_false] at hx
  rcases hx with (rfl | hx) | rfl
  · exact hK.bs
  · exact hK.up x (EncEscape.hexDigits_upper c x hx)
  · exact hK.sp

/-- greedy star of a class that is closed under escaping -/
theorem starCls_firstPres (rep : Nat → Bool) (ha : AsciiRep rep) (neg : Bool) (rs : List (Nat × Nat))
    (hK : EClosed neg rs) : FirstPres rep (Re.star (Re.cls neg rs) true) := by
  apply firstPres_star_of_H (r := Re.cls neg rs) rfl (firstPresH_cls rep neg rs)
  intro c hc _
  refine ⟨fun t => cls_first_in neg rs c t (hK.na c (unrep_ge ha hc)), fun y => ?_⟩
  exact starLen_run (r := Re.cls neg rs) rfl y (escChar c)
    (fun x hx z => cls_first_in neg rs x z (escChar_in neg rs hK c x hx))

theorem takeWhile_lt {p : Nat → Bool} : ∀ (x : Cps) (l : Nat), l < (x.takeWhile p).length →
    ∃ c t, x.drop l = c :: t ∧ p c = true := by
  intro x
  induction x with
  | nil => intro l h; simp at h
  | cons c t ih =>
    intro l h
    by_cases hc : p c = true
    · simp only [List.takeWhile_cons, hc, if_true, List.length_cons] at h
      cases l with
      | zero => exact ⟨c, t, rfl, hc⟩
      | succ l => simp only [List.drop_succ_cons]; exact ih l (by omega)
    · simp [List.takeWhile_cons, hc] at h

theorem dropWhile_head_not (p : Nat → Bool) : ∀ (x : Cps) (c : Nat) (t : Cps), x.dropWhile p = c :: t → p c = false := by
  intro x
  induction x with
  | nil => intro c t h; simp at h
  | cons d u ih =>
    intro c t h
    by_cases hd : p d = true
    · simp only [List.dropWhile_cons, hd, if_true] at h; exact ih c t h
    · simp only [List.dropWhile_cons, hd] at h
      simp only [Bool.false_eq_true, if_false, List.cons.injEq] at h
      rw [← h.1]; simpa using hd

theorem takeWhile_all (p : Nat → Bool) : ∀ (x : Cps), ∀ c ∈ x.takeWhile p, p c = true := by
  intro x
  induction x with
  | nil => intro c h; simp at h
  | cons d u ih =>
    intro c h
    by_cases hd : p d = true
    · simp only [List.takeWhile_cons, hd, if_true, List.mem_cons] at h
      rcases h with rfl | h
      · exact hd
      · exact ih c h
    · simp [List.takeWhile_cons, hd] at h

theorem takeWhile_length_le (p : Nat → Bool) : ∀ (x : Cps), (x.takeWhile p).length ≤ x.length := by
  intro x
  induction x with
  | nil => simp
  | cons d u ih =>
    by_cases hd : p d = true
    · simp only [List.takeWhile_cons, hd, if_true, List.length_cons]; omega
    · simp [List.takeWhile_cons, hd]

theorem starCls_ms (neg : Bool) (rs : List (Nat × Nat)) (x : Cps) :
    (Re.star (Re.cls neg rs) true).ms x = countdown (x.takeWhile (Re.inCls neg rs)).length := by
  have hstop : (Re.cls neg rs).ms (x.dropWhile (Re.inCls neg rs)) = [] := by
    cases hd : x.dropWhile (Re.inCls neg rs) with
    | nil => simp [Re.ms]
    | cons c t =>
      have : Re.inCls neg rs c = false := dropWhile_head_not _ x c t hd
      simp [Re.ms, this]
  have := starMs_run (Re.cls neg rs).ms (Re.inCls neg rs) (by intro c t h; simp [Re.ms, h])
    (x.dropWhile (Re.inCls neg rs)) hstop (x.takeWhile (Re.inCls neg rs)) (x.length + 1)
    (takeWhile_all _ x) (by
      have := takeWhile_length_le (Re.inCls neg rs) x; omega)
  rw [List.takeWhile_append_dropWhile] at this
  exact this

theorem countdown_tail_lt {n l : Nat} {ls : List Nat} (h : countdown n = l :: ls) : ∀ l' ∈ ls, l' < n := by
  cases n with
  | zero => simp [countdown] at h; obtain ⟨_, rfl⟩ := h; intro l' h'; cases h'
  | succ n =>
    simp only [countdown, List.cons.injEq] at h
    obtain ⟨_, rfl⟩ := h
    intro l' h'
    have := mem_countdown h'; omega

/-- after a greedy run of a class, a tail that cannot start inside the class leaves no way back -/
theorem tight_starCls (neg : Bool) (rs : List (Nat × Nat)) (b : Re)
    (hb : ∀ c t, c ≤ maxUnicode → Re.inCls neg rs c = true → b.ms (c :: t) = []) :
    Tight (Re.star (Re.cls neg rs) true) b := by
  intro x hx l ls hm l' hl'
  rw [starCls_ms] at hm
  have hlt := countdown_tail_lt hm l' hl'
  obtain ⟨c, t, hd, hc⟩ := takeWhile_lt x l' hlt
  rw [hd]
  exact hb c t (hx c (List.mem_of_mem_drop (by rw [hd]; simp))) hc

def notStarRe : Re := Re.cls true [(42, 42)]
def starCharRe : Re := Re.cls false [(42, 42)]
def slashRe : Re := Re.cls false [(47, 47)]
def stars1Re : Re := Re.seq starCharRe (Re.star starCharRe true)
def nsSRe : Re := Re.cls true [(47, 47), (42, 42)]
def cTRe : Re := Re.seq (Re.star notStarRe true) stars1Re
def cGRe : Re := Re.seq nsSRe cTRe
def cR3Re : Re := Re.seq (Re.star cGRe true) slashRe
def cR2Re : Re := Re.seq stars1Re cR3Re
def cR1Re : Re := Re.seq (Re.star notStarRe true) cR2Re

theorem reCOMMENT_shape : reCOMMENT = Re.seq slashRe (Re.seq starCharRe cR1Re) := by decide

theorem inCls_notStar (c : Nat) : Re.inCls true [(42, 42)] c = decide (c ≠ 42) := by
  simp only [Re.inCls, List.any_cons, List.any_nil, Bool.or_false]
  by_cases h : c = 42
  · subst h; decide
  · have : (decide (42 ≤ c) && decide (c ≤ 42)) = false := by
      simp only [Bool.and_eq_false_iff, decide_eq_false_iff_not]; omega
    simp [this, h]

theorem inCls_nsS (c : Nat) : Re.inCls true [(47, 47), (42, 42)] c = decide (c ≠ 47 ∧ c ≠ 42) := by
  simp only [Re.inCls, List.any_cons, List.any_nil, Bool.or_false]
  by_cases h : c = 42
  · subst h; decide
  · by_cases h' : c = 47
    · subst h'; decide
    · have h1 : (decide (42 ≤ c) && decide (c ≤ 42)) = false := by
        simp only [Bool.and_eq_false_iff, decide_eq_false_iff_not]; omega
      have h2 : (decide (47 ≤ c) && decide (c ≤ 47)) = false := by
        simp only [Bool.and_eq_false_iff, decide_eq_false_iff_not]; omega
      simp [h1, h2, h, h']

theorem notStar_eclosed : EClosed true [(42, 42)] := by
  refine ⟨by decide, by decide, ?_, ?_⟩
  · intro x hx
    simp only [EncEscape.isUpperHex, Bool.or_eq_true, Bool.and_eq_true, decide_eq_true_eq] at hx
    rw [inCls_notStar]; simp; omega
  · intro c hc; rw [inCls_notStar]; simp; omega

theorem stars1_ms_notStar (c : Nat) (t : Cps) (h : Re.inCls true [(42, 42)] c = true) : stars1Re.ms (c :: t) = [] := by
  rw [inCls_notStar] at h
  have hc : c ≠ 42 := by simpa using h
  have : Re.inCls false [(42, 42)] c = false := by simp [inCls_single, hc]
  simp [stars1Re, starCharRe, Re.ms, this]

theorem cR2_ms_notStar (c : Nat) (t : Cps) (h : Re.inCls true [(42, 42)] c = true) : cR2Re.ms (c :: t) = [] := by
  have := stars1_ms_notStar c t h
  simp only [cR2Re, Re.ms] at this ⊢
  simp [stars1Re, Re.ms] at this ⊢
  rw [inCls_notStar] at h
  have hc : c ≠ 42 := by simpa using h
  have h2 : Re.inCls false [(42, 42)] c = false := by simp [inCls_single, hc]
  simp [starCharRe, Re.ms, h2]

theorem stars1_asciiPos : asciiPos stars1Re = true := by decide

theorem cT_seqDet : SeqDet (Re.star notStarRe true) stars1Re :=
  seqDet_of_tight (tight_starCls true [(42, 42)] stars1Re (fun c t _ h => stars1_ms_notStar c t h))

theorem cT_firstPres (rep : Nat → Bool) (ha : AsciiRep rep) : FirstPres rep cTRe :=
  firstPres_seq_det (starCls_firstPres rep ha true [(42, 42)] notStar_eclosed)
    (firstPres_of_same (asciiPos_sound rep ha _ stars1_asciiPos)) cT_seqDet

/-- a run of characters that are not `*` in front does not change what `[^*]*\*+` finds -/
theorem cT_first_run (run y : Cps) (hrun : ∀ c ∈ run, Re.inCls true [(42, 42)] c = true) (hb : Bnd (run ++ y)) :
    cTRe.first (run ++ y) = (cTRe.first y).map (run.length + ·) := by
  have hby : Bnd y := fun c hc => hb c (List.mem_append_right _ hc)
  have hn : (Re.cls true [(42, 42)]).nonNullable = true := rfl
  rw [cTRe, cT_seqDet _ hb, cT_seqDet _ hby, notStarRe, first_star' hn, first_star' hn]
  simp only [Option.bind_some]
  rw [starLen_run hn y run (fun c hc z => cls_first_in _ _ c z (hrun c hc))]
  rw [show (run ++ y).drop (run.length + starLen (Re.cls true [(42, 42)]) y) =
    y.drop (starLen (Re.cls true [(42, 42)]) y) from by rw [← List.drop_drop]; simp]
  cases stars1Re.first (y.drop (starLen (Re.cls true [(42, 42)]) y)) with
  | none => rfl
  | some l => simp [Nat.add_assoc]

theorem cG_firstPres (rep : Nat → Bool) (ha : AsciiRep rep) : FirstPres rep cGRe := by
  have hT := cT_firstPres rep ha
  intro s hs
  cases s with
  | nil => simp [escape, cGRe, nsSRe, first_seq_cls_nil]
  | cons c t =>
    cases hc : rep c with
    | true =>
      rw [escape_cons_rep t hc, cGRe, nsSRe, first_seq_cls_cons, first_seq_cls_cons, hT t hs.tail]
      split
      · cases cTRe.first t with
        | none => rfl
        | some l => simp [elen_succ_rep t l hc]
      · rfl
    | false =>
      have h128 := unrep_ge ha hc
      have e : escape rep (c :: t) = 92 :: ((hexDigits c ++ [32]) ++ escape rep t) := by
        simp [escape, hc, escChar]
      have hin : Re.inCls true [(47, 47), (42, 42)] c = true := by rw [inCls_nsS]; simp; omega
      have hin92 : Re.inCls true [(47, 47), (42, 42)] 92 = true := by decide
      have hb : Bnd ((hexDigits c ++ [32]) ++ escape rep t) := by
        have := escape_bnd hs
        rw [e] at this
        exact fun x hx => this x (List.mem_cons_of_mem _ hx)
      have hrun : ∀ x ∈ hexDigits c ++ [32], Re.inCls true [(42, 42)] x = true := by
        intro x hx
        apply escChar_in true [(42, 42)] notStar_eclosed c
        show x ∈ 92 :: (hexDigits c ++ [32])
        exact List.mem_cons_of_mem _ hx
      rw [e, cGRe, nsSRe, first_seq_cls_cons, first_seq_cls_cons, hin, hin92, cT_first_run _ _ hrun hb,
        hT t hs.tail]
      simp only [if_true]
      cases cTRe.first t with
      | none => rfl
      | some l =>
        simp only [Option.map_some, Option.some.injEq]
        rw [elen_add]
        simp [elen, escape, hc, escChar]
        omega


theorem flatMap_countdown_tight {β : Type} (f : Nat → List β) : ∀ (n : Nat), (∀ l, l < n → f l = []) →
    (countdown n).flatMap f = f n := by
  intro n h
  cases n with
  | zero => simp [countdown]
  | succ n =>
    simp only [countdown, List.flatMap_cons]
    rw [flatMap_nil_of_all _ _ (fun l hl => h l (by have := mem_countdown hl; omega))]
    simp

theorem countdown_ne_nil (n : Nat) : countdown n ≠ [] := by cases n <;> simp [countdown]

theorem cT_ms (t : Cps) : cTRe.ms t =
    (stars1Re.ms (t.drop (t.takeWhile (Re.inCls true [(42, 42)])).length)).map
      ((t.takeWhile (Re.inCls true [(42, 42)])).length + ·) := by
  show ((Re.star notStarRe true).ms t).flatMap (fun l1 => (stars1Re.ms (t.drop l1)).map (l1 + ·)) = _
  rw [notStarRe, starCls_ms]
  apply flatMap_countdown_tight (fun l1 => (stars1Re.ms (t.drop l1)).map (l1 + ·))
  intro l hl
  obtain ⟨c, u, hd, hc⟩ := takeWhile_lt t l hl
  simp only [hd, stars1_ms_notStar c u hc, List.map_nil]

theorem stars1_ms_tail (z : Cps) (l : Nat) (ls : List Nat) (h : stars1Re.ms z = l :: ls) :
    ∀ l' ∈ ls, (z.drop l').head? = some 42 := by
  rcases z with _ | ⟨d, z'⟩
  · simp [stars1Re, starCharRe, Re.ms] at h
  have hms : stars1Re.ms (d :: z') = if Re.inCls false [(42, 42)] d then
      ((Re.star (Re.cls false [(42, 42)]) true).ms z').map (1 + ·) else [] := by
    simp only [stars1Re, starCharRe, Re.ms]; split <;> simp
  rw [hms] at h
  split at h
  · rw [starCls_ms] at h
    cases hcd : countdown (z'.takeWhile (Re.inCls false [(42, 42)])).length with
    | nil => exact absurd hcd (countdown_ne_nil _)
    | cons a as =>
      rw [hcd] at h
      simp only [List.map_cons, List.cons.injEq] at h
      obtain ⟨_, rfl⟩ := h
      intro l' hl'
      simp only [List.mem_map] at hl'
      obtain ⟨j, hj, rfl⟩ := hl'
      have hlt := countdown_tail_lt hcd j hj
      obtain ⟨c, u, hd, hc⟩ := takeWhile_lt z' j hlt
      rw [Nat.add_comm, List.drop_succ_cons, hd]
      simp only [inCls_single, decide_eq_true_eq] at hc
      simp [hc]
  · cases h

theorem cG_ms_cons (c : Nat) (t : Cps) : cGRe.ms (c :: t) =
    if Re.inCls true [(47, 47), (42, 42)] c then (cTRe.ms t).map (1 + ·) else [] := by
  simp only [cGRe, nsSRe, Re.ms]; split <;> simp

theorem cG_ms_tail (x : Cps) (g1 : Nat) (grest : List Nat) (h : cGRe.ms x = g1 :: grest) :
    (∃ c t, x = c :: t ∧ c ≠ 47 ∧ c ≠ 42) ∧ ∀ g2 ∈ grest, (x.drop g2).head? = some 42 := by
  rcases x with _ | ⟨c, t⟩
  · simp [cGRe, nsSRe, Re.ms] at h
  rw [cG_ms_cons] at h
  split at h
  · rename_i hin
    rw [inCls_nsS] at hin
    have hc : c ≠ 47 ∧ c ≠ 42 := by simpa using hin
    refine ⟨⟨c, t, rfl, hc.1, hc.2⟩, ?_⟩
    rw [cT_ms] at h
    generalize hn : (t.takeWhile (Re.inCls true [(42, 42)])).length = n at h
    cases hs : stars1Re.ms (t.drop n) with
    | nil => rw [hs] at h; cases h
    | cons l ls =>
      rw [hs] at h
      simp only [List.map_cons, List.map_map, List.cons.injEq] at h
      obtain ⟨_, rfl⟩ := h
      intro g2 hg2
      simp only [List.mem_map, Function.comp] at hg2
      obtain ⟨l', hl', rfl⟩ := hg2
      have := stars1_ms_tail (t.drop n) l ls hs l' hl'
      rw [List.drop_drop] at this
      rw [Nat.add_comm 1, List.drop_succ_cons]
      exact this
  · cases h

theorem cG_nonNullable : cGRe.nonNullable = true := by decide

theorem cG_ms_star (w : Cps) : cGRe.ms (42 :: w) = [] := by
  rw [cG_ms_cons]; simp [Re.inCls]

theorem starMs_cG_tight : ∀ (n : Nat) (x : Cps), x.length < n →
    ∀ l ls, Re.starMs cGRe.ms true n x = l :: ls → ∀ l' ∈ ls, (x.drop l').head? ≠ some 47 := by
  intro n
  induction n with
  | zero => intro x h; omega
  | succ n ih =>
    intro x hx l ls hm l' hl'
    simp only [Re.starMs, if_true, filter_pos_of_nonNullable cG_nonNullable] at hm
    cases hI : cGRe.ms x with
    | nil =>
      rw [hI] at hm
      simp only [List.flatMap_nil, List.nil_append, List.cons.injEq] at hm
      obtain ⟨_, rfl⟩ := hm
      cases hl'
    | cons g1 grest =>
      rw [hI] at hm
      have hg1 : g1 ∈ cGRe.ms x := by rw [hI]; simp
      have hpos := Re.nonNullable_sound cGRe cG_nonNullable x g1 hg1
      have hbd := Re.ms_bounded cGRe x g1 hg1
      obtain ⟨⟨c, t, hxc, hc47, _⟩, htail⟩ := cG_ms_tail x g1 grest hI
      simp only [List.flatMap_cons] at hm
      cases hS : Re.starMs cGRe.ms true n (x.drop g1) with
      | nil => exact absurd hS (starMs_ne_nil _ _ _ _)
      | cons h hs =>
        rw [hS] at hm
        simp only [List.map_cons, List.cons_append, List.cons.injEq] at hm
        obtain ⟨_, rfl⟩ := hm
        simp only [List.mem_append, List.mem_map, List.mem_flatMap, List.mem_singleton] at hl'
        rcases hl' with (⟨l'', h1, rfl⟩ | ⟨g2, hg2, l'', h2, rfl⟩) | rfl
        · have := ih (x.drop g1) (by simp only [List.length_drop]; omega) h hs hS l'' h1
          rwa [List.drop_drop] at this
        · have h42 := htail g2 hg2
          cases hd : x.drop g2 with
          | nil => rw [hd] at h42; cases h42
          | cons d w =>
            rw [hd] at h42 h2
            simp only [List.head?_cons, Option.some.injEq] at h42
            subst h42
            have hst : Re.starMs cGRe.ms true n (42 :: w) = [0] := by
              cases n with
              | zero => rfl
              | succ n => exact starMs_stuck _ _ n (cG_ms_star w)
            rw [hst] at h2
            simp only [List.mem_singleton] at h2
            subst h2
            rw [Nat.add_zero, hd]
            simp
        · subst hxc
          simp only [List.drop_zero, List.head?_cons, ne_eq, Option.some.injEq]
          exact hc47

theorem cR3_tight : Tight (Re.star cGRe true) slashRe := by
  intro x _ l ls hm l' hl'
  have := starMs_cG_tight _ x (Nat.lt_succ_self _) l ls hm l' hl'
  cases hd : x.drop l' with
  | nil => simp [slashRe, Re.ms]
  | cons c t =>
    rw [hd] at this
    simp only [List.head?_cons, ne_eq, Option.some.injEq] at this
    simp [slashRe, Re.ms, inCls_single, this]

/-- COMMENT keeps its first match -/
theorem comment_firstPres (rep : Nat → Bool) (ha : AsciiRep rep) : FirstPres rep reCOMMENT := by
  rw [reCOMMENT_shape]
  have hslash : Same rep slashRe.ms := asciiPos_sound rep ha _ (by decide)
  have hstar : Same rep starCharRe.ms := asciiPos_sound rep ha _ (by decide)
  have h3 : FirstPres rep cR3Re :=
    firstPres_seq_det (firstPres_star cG_nonNullable (cG_firstPres rep ha)) (firstPres_of_same hslash)
      (seqDet_of_tight cR3_tight)
  have h2 : FirstPres rep cR2Re :=
    firstPres_seq_same (asciiPos_sound rep ha _ stars1_asciiPos) h3
  have h1 : FirstPres rep cR1Re :=
    firstPres_seq_det (starCls_firstPres rep ha true [(42, 42)] notStar_eclosed) h2
      (seqDet_of_tight (tight_starCls true [(42, 42)] cR2Re (fun c t _ h => cR2_ms_notStar c t h)))
  exact firstPres_seq_same hslash (firstPres_seq_same hstar h1)


/-! ## the shape of `HEX` for a character outside ASCII: at least two digits, no leading zero, and two digits only
from `80` on — so the letter escapes `\55 \75 \52 \72 \4c \6c` of URI / UNICODE-RANGE never swallow a whole escape -/

theorem hexDigit_ne_zero : ∀ d : Fin 16, 0 < d.val → EncEscape.hexDigit d.val ≠ 48 := by decide

theorem hexDigit_ge8 : ∀ d : Fin 16, 8 ≤ d.val → 56 ≤ EncEscape.hexDigit d.val := by decide

theorem hexDigitsF_head (fuel : Nat) : ∀ n, 0 < n → n ≤ fuel →
    ∃ d tl, EncEscape.hexDigitsF fuel n = d :: tl ∧ d ≠ 48 := by
  induction fuel with
  | zero => intro n h1 h2; omega
  | succ f ih =>
    intro n h1 h2
    simp only [EncEscape.hexDigitsF]
    split
    · rename_i h
      exact ⟨_, [], rfl, hexDigit_ne_zero ⟨n, h⟩ h1⟩
    · rename_i h
      have hlt : n / 16 < n := Nat.div_lt_self h1 (by decide)
      obtain ⟨d, tl, e, hd⟩ := ih (n / 16) (by omega) (by omega)
      exact ⟨d, tl ++ [EncEscape.hexDigit (n % 16)], by rw [e]; rfl, hd⟩

theorem hexDigitsF_len2 (fuel : Nat) (n : Nat) (h16 : 16 ≤ n) (hf : n ≤ fuel) :
    2 ≤ (EncEscape.hexDigitsF fuel n).length := by
  cases fuel with
  | zero => omega
  | succ f =>
    simp only [EncEscape.hexDigitsF]
    rw [if_neg (by omega)]
    have := hexDigitsF_ne_nil f (n / 16)
    simp only [List.length_append, List.length_singleton]
    cases h : EncEscape.hexDigitsF f (n / 16) with
    | nil => exact absurd h this
    | cons a b => simp

theorem hexDigitsF_len3 (fuel : Nat) (n : Nat) (h : 256 ≤ n) (hf : n ≤ fuel) :
    3 ≤ (EncEscape.hexDigitsF fuel n).length := by
  cases fuel with
  | zero => omega
  | succ f =>
    simp only [EncEscape.hexDigitsF]
    rw [if_neg (by omega)]
    have hlt : n / 16 < n := Nat.div_lt_self (by omega) (by decide)
    have := hexDigitsF_len2 f (n / 16) (by omega) (by omega)
    simp only [List.length_append, List.length_singleton]
    omega

/-- `HEX` of a character outside ASCII -/
theorem hexDigits_shape (c : Nat) (h : 128 ≤ c) :
    ∃ d1 d2 tl, hexDigits c = d1 :: d2 :: tl ∧ d1 ≠ 48 ∧ (tl = [] → 56 ≤ d1) := by
  obtain ⟨d1, r, e, hd1⟩ := hexDigitsF_head c c (by omega) (Nat.le_refl _)
  have hlen := hexDigitsF_len2 c c (by omega) (Nat.le_refl _)
  rw [e] at hlen
  cases r with
  | nil => simp at hlen
  | cons d2 tl =>
    refine ⟨d1, d2, tl, e, hd1, ?_⟩
    intro htl
    subst htl
    by_cases h256 : 256 ≤ c
    · have := hexDigitsF_len3 c c h256 (Nat.le_refl _)
      rw [e] at this; simp at this
    · -- two digits: the first is the digit of `c / 16 ≥ 8`
      obtain ⟨f, hf⟩ : ∃ f, c = f + 1 := ⟨c - 1, by omega⟩
      have e2 : EncEscape.hexDigitsF c c = EncEscape.hexDigitsF f (c / 16) ++ [EncEscape.hexDigit (c % 16)] := by
        rw [hf]; simp only [EncEscape.hexDigitsF]; rw [if_neg (by omega)]
      have hq : c / 16 < 16 := by omega
      have e3 : EncEscape.hexDigitsF f (c / 16) = [EncEscape.hexDigit (c / 16)] := by
        cases f with
        | zero => omega
        | succ f' => simp only [EncEscape.hexDigitsF]; rw [if_pos hq]
      rw [e2, e3] at e
      simp only [List.cons_append, List.nil_append, List.cons.injEq] at e
      rw [← e.1]
      exact hexDigit_ge8 ⟨c / 16, hq⟩ (by simp only; omega)


/-! ## the letters `{U} {R} {L}` of URI / UNICODE-RANGE (`u|\\0{0,4}(55|75)(\r\n|[ \t\r\n\f])?|\\u`) -/

/-- `Same` for texts that start with a representable character -/
def SameH (rep : Nat → Bool) (f : Cps → List Nat) : Prop :=
  ∀ s, Good rep s → (∀ c t, s = c :: t → rep c = true) →
    f (escape rep s) = f s ∧ ∀ l ∈ f s, ∀ c ∈ s.take l, rep c = true

theorem Same.toH {rep : Nat → Bool} {f : Cps → List Nat} (h : Same rep f) : SameH rep f := fun s _ _ => h s

theorem sameH_alt {rep : Nat → Bool} {a b : Re} (ha : SameH rep a.ms) (hb : SameH rep b.ms) :
    SameH rep (Re.alt a b).ms := by
  intro s hs hh
  refine ⟨by simp [Re.ms, (ha s hs hh).1, (hb s hs hh).1], ?_⟩
  intro l hl
  simp only [Re.ms, List.mem_append] at hl
  rcases hl with hl | hl
  · exact (ha s hs hh).2 l hl
  · exact (hb s hs hh).2 l hl

theorem sameH_seq_bs {rep : Nat → Bool} {X : Re} (hX : Same rep X.ms) : SameH rep (Re.seq bsRe X).ms := by
  intro s _ hh
  cases s with
  | nil => simp [escape, seq_bs_ms_nil]
  | cons c t =>
    have hc := hh c t rfl
    rw [escape_cons_rep t hc, seq_bs_ms, seq_bs_ms]
    by_cases h92 : c = 92
    · simp only [h92, if_true, (hX t).1, true_and]
      intro l hl x hx
      simp only [List.mem_map] at hl
      obtain ⟨l2, hl2, rfl⟩ := hl
      rw [Nat.add_comm, List.take_succ_cons, List.mem_cons] at hx
      rcases hx with rfl | hx
      · rw [← h92]; exact hc
      · exact (hX t).2 l2 hl2 x hx
    · simp [h92]

theorem firstPresH_seq_sameH {rep : Nat → Bool} {a b : Re} (ha : SameH rep a.ms) (hb : FirstPres rep b) :
    FirstPresH rep (Re.seq a b) := by
  intro s hs hh
  rw [first_seq_findSome, first_seq_findSome, (ha s hs hh).1, findSome_map]
  apply findSome_congr
  intro l1 hl1
  have hbd := Re.ms_bounded a s l1 hl1
  have hr := (ha s hs hh).2 l1 hl1
  rw [drop_escape_of_rep rep s l1 hbd hr, hb _ (hs.drop l1)]
  cases b.first (s.drop l1) with
  | none => rfl
  | some l2 => simp [elen_add, elen_id rep s l1 hbd hr]

def wsOpt2Re : Re := Re.rep (Re.alt (Re.seq (Re.cls false [(13, 13)]) (Re.cls false [(10, 10)]))
  (Re.cls false [(32, 32), (9, 9), (13, 13), (10, 10), (12, 12)])) 0 1 true
def zerosRe : Re := Re.rep (Re.cls false [(48, 48)]) 0 4 true
def pairRe (a1 a2 : Nat) : Re := Re.seq (Re.cls false [(a1, a1)]) (Re.cls false [(a2, a2)])
def letterEscRe (a1 a2 b1 b2 : Nat) : Re := Re.seq zerosRe (Re.seq (Re.alt (pairRe a1 a2) (pairRe b1 b2)) wsOpt2Re)
def letterRe (X x a1 a2 b1 b2 : Nat) : Re :=
  Re.alt (Re.cls false [(X, X)]) (Re.alt (Re.cls false [(x, x)])
    (Re.alt (Re.seq bsRe (letterEscRe a1 a2 b1 b2))
      (Re.alt (Re.seq bsRe (Re.cls false [(X, X)])) (Re.seq bsRe (Re.cls false [(x, x)])))))

/-- the parameters of a letter: ASCII, not the backslash, the letter itself not an upper-case hex digit, its code
written with a first digit below `8` -/
structure LetterOk (X x a1 a2 b1 b2 : Nat) : Prop where
  ascii : asciiPos (Re.alt (Re.cls false [(X, X)]) (Re.alt (Re.cls false [(x, x)]) (letterEscRe a1 a2 b1 b2))) = true
  nhX : EncEscape.isUpperHex X = false
  nhx : EncEscape.isUpperHex x = false
  lo : a1 < 56 ∧ b1 < 56

theorem zeros_ms_nz (d : Nat) (z : Cps) (h : d ≠ 48) : zerosRe.ms (d :: z) = [0] := by
  simp [zerosRe, Re.ms, Re.repMs, inCls_single, h]

theorem pair_ms (a1 a2 d1 d2 : Nat) (w : Cps) :
    (pairRe a1 a2).ms (d1 :: d2 :: w) = if d1 = a1 ∧ d2 = a2 then [2] else [] := by
  simp only [pairRe, Re.ms, inCls_single]
  by_cases h1 : d1 = a1 <;> by_cases h2 : d2 = a2 <;> simp [h1, h2]

theorem wsOpt2_ms_upper (d : Nat) (w : Cps) (h : EncEscape.isUpperHex d = true) : wsOpt2Re.ms (d :: w) = [0] := by
  simp only [EncEscape.isUpperHex, Bool.or_eq_true, Bool.and_eq_true, decide_eq_true_eq] at h
  have h13 : d ≠ 13 := by omega
  have hws : Re.inCls false [(32, 32), (9, 9), (13, 13), (10, 10), (12, 12)] d = false := by
    have := inCls_pts false [32, 9, 13, 10, 12] d
    simp only [List.map_cons, List.map_nil] at this
    rw [this]
    simp only [List.contains_cons, List.contains_nil, Bool.or_false, bne_iff_ne, ne_eq, Bool.not_eq_false,
      Bool.or_eq_true, beq_iff_eq, Bool.bne_false] 
    simp only [Bool.or_eq_false_iff, beq_eq_false_iff_ne]
    omega
  simp [wsOpt2Re, Re.ms, Re.repMs, inCls_single, h13, hws]

/-- on `\ HEX SPACE …` a letter matches at most `\` + two digits, and then a third digit follows -/
theorem letter_ms_esc (X x a1 a2 b1 b2 : Nat) (hL : LetterOk X x a1 a2 b1 b2) (d1 d2 : Nat) (tl y : Cps)
    (hd1 : EncEscape.isUpperHex d1 = true) (hz : d1 ≠ 48) (htl : ∀ d ∈ tl, EncEscape.isUpperHex d = true)
    (h2 : tl = [] → 56 ≤ d1) :
    ∀ l ∈ (letterRe X x a1 a2 b1 b2).ms (92 :: d1 :: d2 :: (tl ++ 32 :: y)),
      ∃ d3 w, (92 :: d1 :: d2 :: (tl ++ 32 :: y)).drop l = d3 :: w ∧ EncEscape.isUpperHex d3 = true := by
  have hX : d1 ≠ X := by intro e; rw [e, hL.nhX] at hd1; cases hd1
  have hx : d1 ≠ x := by intro e; rw [e, hL.nhx] at hd1; cases hd1
  have hasc := hL.ascii
  simp only [asciiPos, Bool.and_eq_true, List.all_cons, List.all_nil, Bool.not_eq_true', decide_eq_true_eq,
    Bool.and_true, Bool.and_eq_false_iff, decide_eq_false_iff_not] at hasc
  have hX92 : (92 : Nat) ≠ X := by have := hasc.1.2; omega
  have hx92 : (92 : Nat) ≠ x := by have := hasc.2.1.2; omega
  intro l hl
  generalize hw : tl ++ 32 :: y = w at hl ⊢
  have hms : (letterRe X x a1 a2 b1 b2).ms (92 :: d1 :: d2 :: w) =
      ((letterEscRe a1 a2 b1 b2).ms (d1 :: d2 :: w)).map (1 + ·) := by
    show (Re.cls false [(X, X)]).ms (92 :: d1 :: d2 :: w) ++ ((Re.cls false [(x, x)]).ms (92 :: d1 :: d2 :: w) ++
      ((Re.seq bsRe (letterEscRe a1 a2 b1 b2)).ms (92 :: d1 :: d2 :: w) ++
        ((Re.seq bsRe (Re.cls false [(X, X)])).ms (92 :: d1 :: d2 :: w) ++
          (Re.seq bsRe (Re.cls false [(x, x)])).ms (92 :: d1 :: d2 :: w)))) = _
    rw [seq_bs_ms, seq_bs_ms, seq_bs_ms]
    simp [Re.ms, inCls_single, hX92, hx92, hX, hx]
  rw [hms] at hl
  simp only [List.mem_map] at hl
  obtain ⟨l2, hl2, rfl⟩ := hl
  have hE : (letterEscRe a1 a2 b1 b2).ms (d1 :: d2 :: w) =
      ((pairRe a1 a2).ms (d1 :: d2 :: w) ++ (pairRe b1 b2).ms (d1 :: d2 :: w)).flatMap
        (fun l1 => (wsOpt2Re.ms ((d1 :: d2 :: w).drop l1)).map (l1 + ·)) := by
    show (zerosRe.ms (d1 :: d2 :: w)).flatMap _ = _
    rw [zeros_ms_nz d1 _ hz]
    simp [Re.ms]
  rw [hE, pair_ms, pair_ms] at hl2
  simp only [List.mem_flatMap, List.mem_map, List.mem_append] at hl2
  obtain ⟨l1, hl1, l3, hl3, rfl⟩ := hl2
  have hl1' : l1 = 2 ∧ d1 < 56 := by
    rcases hl1 with h | h <;> split at h <;> simp at h
    · rename_i hp; exact ⟨h, by have := hL.lo.1; omega⟩
    · rename_i hp; exact ⟨h, by have := hL.lo.2; omega⟩
  obtain ⟨rfl, hlow⟩ := hl1'
  cases tl with
  | nil => have := h2 rfl; omega
  | cons d3 tl' =>
    have hd3 := htl d3 List.mem_cons_self
    subst hw
    simp only [List.drop_succ_cons, List.drop_zero, List.cons_append] at hl3
    rw [wsOpt2_ms_upper d3 _ hd3] at hl3
    simp only [List.mem_singleton] at hl3
    subst hl3
    exact ⟨d3, tl' ++ 32 :: y, rfl, hd3⟩


theorem letter_sameH (rep : Nat → Bool) (ha : AsciiRep rep) (X x a1 a2 b1 b2 : Nat) (hL : LetterOk X x a1 a2 b1 b2) :
    SameH rep (letterRe X x a1 a2 b1 b2).ms := by
  have hasc := hL.ascii
  simp only [asciiPos, Bool.and_eq_true] at hasc
  have hX : Same rep (Re.cls false [(X, X)]).ms :=
    asciiPos_sound rep ha _ (by simp only [asciiPos, Bool.and_eq_true]; exact hasc.1)
  have hx : Same rep (Re.cls false [(x, x)]).ms :=
    asciiPos_sound rep ha _ (by simp only [asciiPos, Bool.and_eq_true]; exact hasc.2.1)
  have hE : Same rep (letterEscRe a1 a2 b1 b2).ms := asciiPos_sound rep ha _ hasc.2.2
  exact sameH_alt hX.toH (sameH_alt hx.toH (sameH_alt (sameH_seq_bs hE)
    (sameH_alt (sameH_seq_bs hX) (sameH_seq_bs hx))))

theorem letter_ms_unrep (X x a1 a2 b1 b2 : Nat) (hL : LetterOk X x a1 a2 b1 b2) (c : Nat) (t : Cps) (h : 128 ≤ c) :
    (letterRe X x a1 a2 b1 b2).ms (c :: t) = [] := by
  have hasc := hL.ascii
  simp only [asciiPos, Bool.and_eq_true, List.all_cons, List.all_nil, Bool.not_eq_true', decide_eq_true_eq,
    Bool.and_true, Bool.and_eq_false_iff, decide_eq_false_iff_not] at hasc
  have hX : c ≠ X := by have := hasc.1.1; omega
  have hx : c ≠ x := by have := hasc.2.1.1; omega
  have h92 : c ≠ 92 := by omega
  show (Re.cls false [(X, X)]).ms (c :: t) ++ ((Re.cls false [(x, x)]).ms (c :: t) ++
    ((Re.seq bsRe (letterEscRe a1 a2 b1 b2)).ms (c :: t) ++
      ((Re.seq bsRe (Re.cls false [(X, X)])).ms (c :: t) ++
        (Re.seq bsRe (Re.cls false [(x, x)])).ms (c :: t)))) = []
  rw [seq_bs_ms, seq_bs_ms, seq_bs_ms]
  simp [Re.ms, inCls_single, hX, hx, h92]

/-- a letter followed by something that cannot start with a hex digit keeps its first match -/
theorem letter_seq_firstPres (rep : Nat → Bool) (ha : AsciiRep rep) (X x a1 a2 b1 b2 : Nat)
    (hL : LetterOk X x a1 a2 b1 b2) (Y : Re) (hY : FirstPres rep Y)
    (hns : ∀ c t, EncEscape.isUpperHex c = true → Y.ms (c :: t) = []) :
    FirstPres rep (Re.seq (letterRe X x a1 a2 b1 b2) Y) := by
  have hH := firstPresH_seq_sameH (letter_sameH rep ha X x a1 a2 b1 b2 hL) hY
  intro s hs
  cases s with
  | nil => exact hH [] hs (by intro c t e; cases e)
  | cons c t =>
    cases hc : rep c with
    | true => exact hH (c :: t) hs (by intro c' t' e; cases e; exact hc)
    | false =>
      have h128 := unrep_ge ha hc
      rw [first_seq_none (letter_ms_unrep X x a1 a2 b1 b2 hL c t h128)]
      obtain ⟨d1, d2, tl, hH', hz, h2⟩ := hexDigits_shape c h128
      have hup := EncEscape.hexDigits_upper c
      rw [hH'] at hup
      have e : escape rep (c :: t) = 92 :: d1 :: d2 :: (tl ++ 32 :: escape rep t) := by
        simp [escape, hc, escChar, hH']
      rw [e]
      apply first_none_of_ms_nil
      apply seq_ms_nil
      intro l hl
      obtain ⟨d3, w, hd, hd3⟩ := letter_ms_esc X x a1 a2 b1 b2 hL d1 d2 tl (escape rep t)
        (hup d1 List.mem_cons_self) hz
        (fun d hd => hup d (List.mem_cons_of_mem _ (List.mem_cons_of_mem _ hd))) h2 l hl
      rw [hd]
      exact hns d3 w hd3

/-! ## UNICODE-RANGE -/

def uLetter : Re := letterRe 85 117 53 53 55 53
def rLetter : Re := letterRe 82 114 53 50 55 50
def lLetter : Re := letterRe 76 108 52 99 54 99

theorem uLetter_ok : LetterOk 85 117 53 53 55 53 := ⟨by decide, by decide, by decide, by decide⟩
theorem rLetter_ok : LetterOk 82 114 53 50 55 50 := ⟨by decide, by decide, by decide, by decide⟩
theorem lLetter_ok : LetterOk 76 108 52 99 54 99 := ⟨by decide, by decide, by decide, by decide⟩

def urTailRe : Re := match reUNICODE_RANGE with
  | .seq _ t => t
  | _ => .eps

theorem reUNICODE_RANGE_shape : reUNICODE_RANGE = Re.seq uLetter urTailRe := by decide

theorem upperHexRanges (c : Nat) (h : EncEscape.isUpperHex c = true) : inR [(48, 57), (65, 70)] c = true := by
  simp only [EncEscape.isUpperHex, Bool.or_eq_true, Bool.and_eq_true, decide_eq_true_eq] at h
  simp only [inR, List.any_cons, List.any_nil, Bool.or_false, Bool.or_eq_true, Bool.and_eq_true, decide_eq_true_eq]
  omega

/-- UNICODE-RANGE keeps its first match -/
theorem unicodeRange_firstPres (rep : Nat → Bool) (ha : AsciiRep rep) : FirstPres rep reUNICODE_RANGE := by
  rw [reUNICODE_RANGE_shape]
  apply letter_seq_firstPres rep ha _ _ _ _ _ _ uLetter_ok
  · exact firstPres_of_same (asciiPos_sound rep ha _ (by decide))
  · intro c t hc
    exact noStart_sound (cs := [(48, 57), (65, 70)]) (by decide) (upperHexRanges c hc) t


/-! ## URI: generic pieces -/

/-- syntactic: no class of `r` contains the code point `k` -/
def avoids (k : Nat) : Re → Bool
  | .eps => true
  | .cls neg rs => !Re.inCls neg rs k
  | .seq a b => avoids k a && avoids k b
  | .alt a b => avoids k a && avoids k b
  | .star a _ => avoids k a
  | .rep a _ _ _ => avoids k a
  | .eol => true

def Avoid (k : Nat) (f : Cps → List Nat) : Prop := ∀ x, ∀ l ∈ f x, ∀ c ∈ x.take l, c ≠ k

theorem avoid_seq {k : Nat} {f g : Cps → List Nat} (hf : Avoid k f) (hg : Avoid k g) :
    Avoid k (fun s => (f s).flatMap fun l1 => (g (s.drop l1)).map (l1 + ·)) := by
  intro x l hl c hc
  simp only [List.mem_flatMap, List.mem_map] at hl
  obtain ⟨l1, h1, l2, h2, rfl⟩ := hl
  rcases mem_take_add hc with h | h
  · exact hf x l1 h1 c h
  · exact hg _ l2 h2 c h

theorem avoid_star {k : Nat} {f : Cps → List Nat} (hf : Avoid k f) (g : Bool) : ∀ n, Avoid k (Re.starMs f g n) := by
  intro n
  induction n with
  | zero => intro x l hl c hc; simp [Re.starMs] at hl; subst hl; simp at hc
  | succ n ih =>
    have hmore : Avoid k (fun s => ((f s).filter (· > 0)).flatMap fun l1 => (Re.starMs f g n (s.drop l1)).map (l1 + ·)) :=
      avoid_seq (f := fun s => (f s).filter (· > 0)) (fun x l hl => hf x l (List.mem_filter.mp hl).1) ih
    intro x l hl c hc
    simp only [Re.starMs] at hl
    split at hl
    · simp only [List.mem_append, List.mem_singleton] at hl
      rcases hl with hl | rfl
      · exact hmore x l hl c hc
      · simp at hc
    · simp only [List.mem_cons] at hl
      rcases hl with rfl | hl
      · simp at hc
      · exact hmore x l hl c hc

theorem avoid_rep {k : Nat} {f : Cps → List Nat} (hf : Avoid k f) (g : Bool) : ∀ n m, Avoid k (Re.repMs f g m n) := by
  intro n
  induction n with
  | zero =>
    intro m x l hl c hc
    simp only [Re.repMs] at hl
    split at hl
    · simp at hl; subst hl; simp at hc
    · simp at hl
  | succ n ih =>
    intro m
    have hS := avoid_seq hf (ih (m - 1))
    intro x l hl c hc
    simp only [Re.repMs] at hl
    split at hl
    · split at hl
      · simp only [List.mem_append, List.mem_singleton] at hl
        rcases hl with hl | rfl
        · exact hS x l hl c hc
        · simp at hc
      · simp only [List.mem_cons] at hl
        rcases hl with rfl | hl
        · simp at hc
        · exact hS x l hl c hc
    · exact hS x l hl c hc

theorem avoids_sound (k : Nat) : ∀ r : Re, avoids k r = true → Avoid k r.ms := by
  intro r
  induction r with
  | eps => intro _ x l hl c hc; simp [Re.ms] at hl; subst hl; simp at hc
  | cls neg rs =>
    intro h x l hl c hc
    simp only [avoids, Bool.not_eq_true'] at h
    cases x with
    | nil => simp [Re.ms] at hl
    | cons d t =>
      simp only [Re.ms] at hl
      split at hl
      · rename_i hin
        simp at hl; subst hl
        simp at hc; subst hc
        intro e; subst e; rw [h] at hin; cases hin
      · simp at hl
  | seq a b iha ihb =>
    intro h
    simp only [avoids, Bool.and_eq_true] at h
    exact avoid_seq (iha h.1) (ihb h.2)
  | alt a b iha ihb =>
    intro h x l hl
    simp only [avoids, Bool.and_eq_true] at h
    simp only [Re.ms, List.mem_append] at hl
    rcases hl with hl | hl
    · exact iha h.1 x l hl
    · exact ihb h.2 x l hl
  | star a g iha => intro h; exact fun x => avoid_star (iha h) g _ x
  | rep a m n g iha => intro h; exact avoid_rep (iha h) g n m
  | eol => intro _ x l hl c hc; simp only [Re.ms] at hl; split at hl <;> simp at hl; subst hl; simp at hc

/-- the first success of `a` is followed by a success of `b` whenever any success of `a` is -/
def Dom (a b : Re) : Prop :=
  ∀ x, Bnd x → ∀ l ls, a.ms x = l :: ls → ∀ l' ∈ ls, b.ms (x.drop l') ≠ [] → b.ms (x.drop l) ≠ []

theorem seqDet_of_dom {a b : Re} (h : Dom a b) : SeqDet a b := by
  intro x hx
  rw [first_seq_findSome]
  unfold Re.first
  cases hm : a.ms x with
  | nil => rfl
  | cons l ls =>
    simp only [List.findSome?_cons, List.head?_cons, Option.bind_some]
    cases hb : (b.ms (x.drop l)).head? with
    | some y => rfl
    | none =>
      simp only [Option.map_none]
      apply List.findSome?_eq_none_iff.mpr
      intro l' hl'
      have hnil : b.ms (x.drop l) = [] := by
        cases hq : b.ms (x.drop l) with
        | nil => rfl
        | cons y ys => rw [hq] at hb; cases hb
      have : b.ms (x.drop l') = [] := by
        cases hq : b.ms (x.drop l') with
        | nil => rfl
        | cons y ys => exact absurd hnil (h x hx l ls hm l' hl' (by rw [hq]; simp))
      simp [this]

def wStarRe : Re := Re.star (Re.cls false wsRanges) true
def rparenRe : Re := Re.cls false [(41, 41)]
def closeRe : Re := Re.seq wStarRe rparenRe

/-- white space, then `)` -/
def closes (z : Cps) : Prop := (z.dropWhile (Re.inCls false wsRanges)).head? = some 41

theorem drop_takeWhile_length (p : Nat → Bool) : ∀ (z : Cps), z.drop (z.takeWhile p).length = z.dropWhile p := by
  intro z
  induction z with
  | nil => rfl
  | cons c t ih =>
    by_cases hc : p c = true
    · simp only [List.takeWhile_cons, hc, if_true, List.length_cons, List.drop_succ_cons, List.dropWhile_cons]
      exact ih
    · simp [List.takeWhile_cons, List.dropWhile_cons, hc]

theorem rparen_ms_nil (z : Cps) (h : z.head? ≠ some 41) : rparenRe.ms z = [] := by
  cases z with
  | nil => simp [rparenRe, Re.ms]
  | cons c t =>
    simp only [List.head?_cons, ne_eq, Option.some.injEq] at h
    simp [rparenRe, Re.ms, inCls_single, h]

theorem close_ms_iff (z : Cps) : closeRe.ms z ≠ [] ↔ closes z := by
  have hws41 : Re.inCls false wsRanges 41 = false := by decide
  have hdw : z.drop (z.takeWhile (Re.inCls false wsRanges)).length = z.dropWhile (Re.inCls false wsRanges) :=
    drop_takeWhile_length _ z
  constructor
  · intro hne
    by_cases hc : closes z
    · exact hc
    · exfalso
      apply hne
      apply seq_ms_nil
      intro l hl
      rw [wStarRe, starCls_ms] at hl
      have hle := mem_countdown hl
      apply rparen_ms_nil
      rcases Nat.lt_or_ge l (z.takeWhile (Re.inCls false wsRanges)).length with hlt | hge
      · obtain ⟨c, t, hd, hcw⟩ := takeWhile_lt z l hlt
        rw [hd]
        simp only [List.head?_cons, ne_eq, Option.some.injEq]
        intro e; subst e; rw [hws41] at hcw; cases hcw
      · have : l = (z.takeWhile (Re.inCls false wsRanges)).length := by omega
        rw [this, hdw]
        exact hc
  · intro hc
    unfold closes at hc
    rw [← hdw] at hc
    have h1 : wStarRe.first z = some (z.takeWhile (Re.inCls false wsRanges)).length := by
      rw [Re.first, wStarRe, starCls_ms, head_countdown]
    have h2 : rparenRe.first (z.drop (z.takeWhile (Re.inCls false wsRanges)).length) = some 1 := by
      cases hd : z.drop (z.takeWhile (Re.inCls false wsRanges)).length with
      | nil => rw [hd] at hc; cases hc
      | cons c t =>
        rw [hd] at hc
        simp only [List.head?_cons, Option.some.injEq] at hc
        subst hc
        rw [rparenRe, first_cls_cons]; rfl
    have := first_seq_some h1 h2
    intro hnil
    have h3 : (Re.seq wStarRe rparenRe).ms z = [] := hnil
    rw [Re.first, h3] at this
    cases this


/-! ## URI: the unquoted body `({urlchar})*` -/

def plainRanges : List (Nat × Nat) := [(9, 9), (33, 33), (35, 38), (40, 40), (42, 91), (93, 126)]
def specialRanges : List (Nat × Nat) := [(0, 8), (11, 11), (14, 32), (34, 34), (39, 39), (127, 127)]
def termRe : Re := Re.alt nlRe (Re.cls false [(32, 32)])
def urlHexRe : Re := Re.seq (Re.rep hexRe 1 6 true) termRe
def urlcharRe : Re := Re.alt (Re.cls false plainRanges) (Re.alt nonasciiRe
  (Re.alt (Re.seq bsRe urlHexRe) (Re.alt (Re.seq bsRe (Re.cls false specialRanges)) bsRe)))
def strQRe (q : Nat) : Re := Re.seq (Re.cls false [(q, q)]) (Re.seq (strBody q) (Re.cls false [(q, q)]))
def uriBodyRe : Re := Re.alt (Re.alt (strQRe 34) (strQRe 39)) (Re.star urlcharRe true)

theorem reURI_shape : reURI = Re.seq uLetter (Re.seq rLetter (Re.seq lLetter (Re.seq lparenRe
    (Re.seq wStarRe (Re.seq uriBodyRe closeRe))))) := by decide

theorem inR_eq (cs : List (Nat × Nat)) (c : Nat) : Re.inCls false cs c = inR cs c := (inR_eq_inCls cs c).symm

theorem plain_facts (c : Nat) (h : Re.inCls false plainRanges c = true) :
    c < 128 ∧ c ≠ 92 ∧ c ≠ 41 ∧ c ≠ 10 ∧ c ≠ 13 ∧ c ≠ 12 ∧ c ≠ 32 := by
  rw [inR_eq] at h
  simp only [plainRanges, inR, List.any_cons, List.any_nil, Bool.or_false, Bool.or_eq_true, Bool.and_eq_true,
    decide_eq_true_eq] at h
  omega

theorem hex_plain (c : Nat) (h : isHex c = true) : Re.inCls false plainRanges c = true := by
  rw [inR_eq]
  simp only [isHex, Bool.or_eq_true, Bool.and_eq_true, decide_eq_true_eq] at h
  simp only [plainRanges, inR, List.any_cons, List.any_nil, Bool.or_false, Bool.or_eq_true, Bool.and_eq_true,
    decide_eq_true_eq]
  omega

theorem special_facts (c : Nat) (h : Re.inCls false specialRanges c = true) :
    c < 128 ∧ c ≠ 92 ∧ Re.inCls false plainRanges c = false ∧ isHex c = false := by
  rw [inR_eq] at h
  simp only [specialRanges, inR, List.any_cons, List.any_nil, Bool.or_false, Bool.or_eq_true, Bool.and_eq_true,
    decide_eq_true_eq] at h
  refine ⟨by omega, by omega, ?_, ?_⟩
  · rw [inR_eq]
    simp only [plainRanges, inR, List.any_cons, List.any_nil, Bool.or_false, Bool.or_eq_false_iff,
      Bool.and_eq_false_iff, decide_eq_false_iff_not]
    omega
  · simp only [isHex, Bool.or_eq_false_iff, Bool.and_eq_false_iff, decide_eq_false_iff_not]
    omega

theorem nonascii_iff (c : Nat) : Re.inCls true [(0, 127)] c = decide (128 ≤ c) := by
  simp only [Re.inCls, List.any_cons, List.any_nil, Bool.or_false]
  by_cases h : 128 ≤ c
  · simp [h]; omega
  · simp [h]; omega

theorem urlchar_ms_nbs (c : Nat) (t : Cps) (h : c ≠ 92) : urlcharRe.ms (c :: t) =
    (if Re.inCls false plainRanges c then [1] else []) ++ (if 128 ≤ c then [1] else []) := by
  show (Re.cls false plainRanges).ms (c :: t) ++ (nonasciiRe.ms (c :: t) ++ ((Re.seq bsRe urlHexRe).ms (c :: t) ++
    ((Re.seq bsRe (Re.cls false specialRanges)).ms (c :: t) ++ bsRe.ms (c :: t)))) = _
  rw [seq_bs_ms, seq_bs_ms]
  simp [Re.ms, bsRe, nonasciiRe, inCls_single, h, nonascii_iff]

theorem urlchar_ms_bs (t : Cps) : urlcharRe.ms (92 :: t) =
    (urlHexRe.ms t).map (1 + ·) ++ (((Re.cls false specialRanges).ms t).map (1 + ·) ++ [1]) := by
  show (Re.cls false plainRanges).ms (92 :: t) ++ (nonasciiRe.ms (92 :: t) ++ ((Re.seq bsRe urlHexRe).ms (92 :: t) ++
    ((Re.seq bsRe (Re.cls false specialRanges)).ms (92 :: t) ++ bsRe.ms (92 :: t)))) = _
  rw [seq_bs_ms, seq_bs_ms]
  have h1 : Re.inCls false plainRanges 92 = false := by decide
  have h2 : Re.inCls true [(0, 127)] 92 = false := by decide
  simp [Re.ms, bsRe, nonasciiRe, inCls_single, h1, h2]

theorem urlchar_nonNullable : urlcharRe.nonNullable = true := by decide

theorem urlchar_dead (n : Nat) (z : Cps) (h : urlcharRe.ms z = []) : Re.starMs urlcharRe.ms true n z = [0] := by
  cases n with
  | zero => rfl
  | succ n => exact starMs_stuck _ _ n h

theorem urlchar_ms_hexhead (h : Nat) (t : Cps) (hh : isHex h = true) : urlcharRe.ms (h :: t) = [1] := by
  have hp := hex_plain h hh
  have hf := plain_facts h hp
  rw [urlchar_ms_nbs h t hf.2.1, hp]
  have : ¬ 128 ≤ h := by omega
  simp [this]

def termLens : Cps → List Nat
  | [] => []
  | e :: w => nlLens (e :: w) ++ (if e = 32 then [1] else [])

theorem term_ms (z : Cps) : termRe.ms z = termLens z := by
  cases z with
  | nil => simp [termRe, Re.ms, nl_ms, nlLens, termLens]
  | cons e w => simp [termRe, Re.ms, nl_ms, termLens, inCls_single]

theorem termLens_hex (e : Nat) (w : Cps) (h : isHex e = true) : termLens (e :: w) = [] := by
  have : e ≠ 32 := by intro e'; subst e'; revert h; decide
  simp [termLens, nlLens_hex e w h, this]

theorem urlHex_ms (d : Nat) (u : Cps) (h : isHex d = true) :
    urlHexRe.ms (d :: u) = (termLens (u.drop (runLen isHex u 5))).map (1 + runLen isHex u 5 + ·) := by
  show List.flatMap _ ((Re.rep hexRe 1 6 true).ms (d :: u)) = _
  rw [hexrep_ms d u h, List.flatMap_map]
  generalize hr : runLen isHex u 5 = r
  have key : ∀ i, i < r → (List.map (fun x => 1 + i + x) (termRe.ms (List.drop (1 + i) (d :: u)))) = [] := by
    intro i hi
    obtain ⟨e, v, hev, he⟩ := runLen_drop_head isHex u 5 i (by omega)
    rw [Nat.add_comm 1 i, List.drop_succ_cons, hev, term_ms, termLens_hex e v he]; rfl
  cases r with
  | zero => simp [countdown, term_ms]
  | succ r =>
    simp only [countdown, List.flatMap_cons]
    rw [flatMap_nil_of_all _ _ (fun i hi => key i (by have := mem_countdown hi; omega))]
    have e : List.drop (1 + (r + 1)) (d :: u) = List.drop (r + 1) u := by
      rw [Nat.add_comm 1 (r + 1), List.drop_succ_cons]
    simp [term_ms, e]

theorem urlHex_ms_nonhex (t : Cps) (h : ∀ d u, t = d :: u → isHex d = false) : urlHexRe.ms t = [] := by
  apply seq_ms_nil
  intro l hl
  exfalso
  cases t with
  | nil => simp [Re.ms, Re.repMs, hexRe] at hl
  | cons d u =>
    have hd := h d u rfl
    have := repMs_one_cls hexRe.ms isHex (by simp [hexRe, Re.ms]) hex_ms_cons 5 d u
    simp only [hd, Bool.false_eq_true, if_false] at this
    have e : (Re.rep hexRe 1 6 true).ms (d :: u) = [] := this
    rw [e] at hl
    cases hl

theorem termLens_ne_nil (z : Cps) (h : termLens z ≠ []) :
    ∃ e w, z = e :: w ∧ urlcharRe.ms (e :: w) = [] ∧
      (termLens z = [1] ∨ (termLens z = [2, 1] ∧ ∃ w', w = 10 :: w')) := by
  cases z with
  | nil => simp [termLens] at h
  | cons e w =>
    refine ⟨e, w, rfl, ?_, ?_⟩
    · have he : e = 10 ∨ e = 13 ∨ e = 12 ∨ e = 32 := by
        simp only [termLens, nlLens] at h
        by_cases h10 : e = 10
        · exact Or.inl h10
        · by_cases h13 : e = 13
          · exact Or.inr (Or.inl h13)
          · by_cases h12 : e = 12
            · exact Or.inr (Or.inr (Or.inl h12))
            · by_cases h32 : e = 32
              · exact Or.inr (Or.inr (Or.inr h32))
              · simp [h10, h13, h12, h32] at h
      have h92 : e ≠ 92 := by omega
      rw [urlchar_ms_nbs e w h92]
      have hp : Re.inCls false plainRanges e = false := by
        rcases he with rfl | rfl | rfl | rfl <;> decide
      have : ¬ 128 ≤ e := by omega
      simp [hp, this]
    · simp only [termLens, nlLens]
      by_cases h10 : e = 10
      · subst h10; simp
      · by_cases h13 : e = 13
        · subst h13
          by_cases hw : w.head? = some 10
          · right
            simp only [hw, if_true]
            refine ⟨by simp, ?_⟩
            cases w with
            | nil => simp at hw
            | cons f w' => simp at hw; subst hw; exact ⟨w', rfl⟩
          · left; simp [hw]
        · by_cases h12 : e = 12
          · subst h12; simp
          · by_cases h32 : e = 32
            · subst h32; simp
            · simp [termLens, nlLens, h10, h13, h12, h32] at h


/-- what is reached through a later alternative of the first `{urlchar}` stays inside the first alternative -/
theorem urlchar_alt_short (n : Nat) (x : Cps) (hn : x.length < n + 1) (i1 : Nat) (irest : List Nat)
    (hI : urlcharRe.ms x = i1 :: irest) :
    ∀ i2 ∈ irest, ∀ l ∈ Re.starMs urlcharRe.ms true n (x.drop i2), i2 + l < i1 := by
  rcases x with _ | ⟨c, t⟩
  · simp [ms_nil_of_nonNullable urlchar_nonNullable] at hI
  by_cases hc : c ≠ 92
  · rw [urlchar_ms_nbs c t hc] at hI
    by_cases hp : Re.inCls false plainRanges c = true
    · have := (plain_facts c hp).1
      have h128 : ¬ 128 ≤ c := by omega
      simp only [hp, if_true, h128, if_false, List.append_nil, List.cons.injEq] at hI
      obtain ⟨_, rfl⟩ := hI
      intro i2 h; cases h
    · simp only [hp, Bool.false_eq_true, if_false, List.nil_append] at hI
      split at hI
      · simp only [List.cons.injEq] at hI
        obtain ⟨_, rfl⟩ := hI
        intro i2 h; cases h
      · cases hI
  have hc : c = 92 := by simpa using hc
  subst hc
  rw [urlchar_ms_bs] at hI
  rcases t with _ | ⟨d, u⟩
  · have : urlHexRe.ms [] = [] := urlHex_ms_nonhex [] (by intro d u e; cases e)
    simp only [this, Re.ms, List.map_nil, List.nil_append, List.cons.injEq] at hI
    obtain ⟨_, rfl⟩ := hI
    intro i2 h; cases h
  by_cases hh : isHex d = true
  · have hsp : (Re.cls false specialRanges).ms (d :: u) = [] := by
      have : Re.inCls false specialRanges d = false := by
        cases hs : Re.inCls false specialRanges d with
        | false => rfl
        | true => have := (special_facts d hs).2.2.2; rw [hh] at this; cases this
      simp [Re.ms, this]
    rw [urlHex_ms d u hh, hsp] at hI
    simp only [List.map_nil, List.nil_append, List.map_map] at hI
    have hulen : u.length + 1 < n := by simp at hn; omega
    by_cases hT : termLens (u.drop (runLen isHex u 5)) = []
    · rw [hT] at hI
      simp only [List.map_nil, List.nil_append, List.cons.injEq] at hI
      obtain ⟨_, rfl⟩ := hI
      intro i2 h; cases h
    · obtain ⟨e, w, hew, hdead, hshape⟩ := termLens_ne_nil _ hT
      -- the run of hex digits after the backslash, then the terminator: from position 1 the star stops at the terminator
      have hsplit : d :: u = (d :: u.take (runLen isHex u 5)) ++ (e :: w) := by
        rw [List.cons_append, ← hew, List.take_append_drop]
      have hlen : (u.take (runLen isHex u 5)).length = runLen isHex u 5 := by
        rw [List.length_take]; exact Nat.min_eq_left (runLen_le_length isHex u 5)
      have hrun : Re.starMs urlcharRe.ms true n (d :: u) = countdown (runLen isHex u 5 + 1) := by
        have := starMs_run urlcharRe.ms isHex (fun c t hc => urlchar_ms_hexhead c t hc) (e :: w) hdead
          (d :: u.take (runLen isHex u 5)) n
          (by
            intro c hc
            simp only [List.mem_cons] at hc
            rcases hc with rfl | hc
            · exact hh
            · exact all_take_runLen isHex u 5 c hc)
          (by simp only [List.length_cons, hlen]; have := runLen_le_length isHex u 5; omega)
        rw [← hsplit] at this
        simpa [hlen] using this
      intro i2 hi2 l hl
      rcases hshape with h1 | ⟨h21, w', hw'⟩
      · rw [h1] at hI
        simp only [List.map_cons, List.map_nil, List.cons_append, List.nil_append, List.cons.injEq,
          Function.comp] at hI
        obtain ⟨rfl, rfl⟩ := hI
        simp only [List.mem_singleton] at hi2
        subst hi2
        simp only [List.drop_succ_cons, List.drop_zero] at hl
        rw [hrun] at hl
        have := mem_countdown hl
        omega
      · rw [h21] at hI
        simp only [List.map_cons, List.map_nil, List.cons_append, List.nil_append, List.cons.injEq,
          Function.comp] at hI
        obtain ⟨rfl, rfl⟩ := hI
        simp only [List.mem_cons, List.not_mem_nil, or_false] at hi2
        rcases hi2 with rfl | rfl
        · -- `\` hex+ CR, the LF left over
          have hd3 : (92 :: d :: u).drop (1 + (1 + runLen isHex u 5 + 1)) = 10 :: w' := by
            rw [show 1 + (1 + runLen isHex u 5 + 1) = (runLen isHex u 5 + 1) + 1 + 1 from by omega]
            simp only [List.drop_succ_cons]
            rw [← List.drop_drop, hew, hw']
            rfl
          rw [hd3] at hl
          have hlf : urlcharRe.ms (10 :: w') = [] := by
            rw [urlchar_ms_nbs 10 w' (by decide)]
            have : Re.inCls false plainRanges 10 = false := by decide
            simp [this]
          rw [urlchar_dead n _ hlf] at hl
          simp only [List.mem_singleton] at hl
          omega
        · simp only [List.drop_succ_cons, List.drop_zero] at hl
          rw [hrun] at hl
          have := mem_countdown hl
          omega
  · have hh' : isHex d = false := by simpa using hh
    rw [urlHex_ms_nonhex (d :: u) (by intro d' u' e; cases e; exact hh')] at hI
    simp only [List.map_nil, List.nil_append] at hI
    by_cases hs : Re.inCls false specialRanges d = true
    · simp only [Re.ms, hs, if_true, List.map_cons, List.map_nil, List.cons_append, List.nil_append,
        List.cons.injEq] at hI
      obtain ⟨rfl, rfl⟩ := hI
      intro i2 hi2 l hl
      simp only [List.mem_singleton] at hi2
      subst hi2
      simp only [List.drop_succ_cons, List.drop_zero] at hl
      have hf := special_facts d hs
      have hdead : urlcharRe.ms (d :: u) = [] := by
        rw [urlchar_ms_nbs d u hf.2.1, hf.2.2.1]
        have : ¬ 128 ≤ d := by omega
        simp [this]
      rw [urlchar_dead n _ hdead] at hl
      simp only [List.mem_singleton] at hl
      omega
    · simp only [Re.ms, hs, Bool.false_eq_true, if_false, List.map_nil, List.nil_append, List.cons.injEq] at hI
      obtain ⟨_, rfl⟩ := hI
      intro i2 h; cases h

/-- the greedy success of `({urlchar})*` is the longest -/
theorem star_urlchar_max : ∀ (n : Nat) (x : Cps), x.length < n →
    ∀ l ls, Re.starMs urlcharRe.ms true n x = l :: ls → ∀ l' ∈ ls, l' < l := by
  intro n
  induction n with
  | zero => intro x h; omega
  | succ n ih =>
    intro x hx l ls hm l' hl'
    simp only [Re.starMs, if_true, filter_pos_of_nonNullable urlchar_nonNullable] at hm
    cases hI : urlcharRe.ms x with
    | nil =>
      rw [hI] at hm
      simp only [List.flatMap_nil, List.nil_append, List.cons.injEq] at hm
      obtain ⟨_, rfl⟩ := hm
      cases hl'
    | cons i1 irest =>
      rw [hI] at hm
      have hi1 : i1 ∈ urlcharRe.ms x := by rw [hI]; simp
      have hpos := Re.nonNullable_sound urlcharRe urlchar_nonNullable x i1 hi1
      have hbd := Re.ms_bounded urlcharRe x i1 hi1
      simp only [List.flatMap_cons] at hm
      cases hS : Re.starMs urlcharRe.ms true n (x.drop i1) with
      | nil => exact absurd hS (starMs_ne_nil _ _ _ _)
      | cons h hs =>
        rw [hS] at hm
        simp only [List.map_cons, List.cons_append, List.cons.injEq] at hm
        obtain ⟨rfl, rfl⟩ := hm
        simp only [List.mem_append, List.mem_map, List.mem_flatMap, List.mem_singleton] at hl'
        rcases hl' with (⟨l'', h1, rfl⟩ | ⟨i2, hi2, l'', h2, rfl⟩) | rfl
        · have := ih (x.drop i1) (by simp only [List.length_drop]; omega) h hs hS l'' h1
          omega
        · have := urlchar_alt_short n x hx i1 irest hI i2 hi2 l'' h2
          omega
        · omega

theorem dropWhile_drop_of_le (p : Nat → Bool) : ∀ (z : Cps) (k : Nat), k ≤ (z.takeWhile p).length →
    (z.drop k).dropWhile p = z.dropWhile p := by
  intro z
  induction z with
  | nil => intro k _; simp
  | cons c t ih =>
    intro k hk
    cases k with
    | zero => rfl
    | succ k =>
      by_cases hc : p c = true
      · simp only [List.takeWhile_cons, hc, if_true, List.length_cons] at hk
        simp only [List.drop_succ_cons, List.dropWhile_cons, hc, if_true]
        exact ih k (by omega)
      · simp [List.takeWhile_cons, hc] at hk

theorem urlStar_avoids : Avoid 41 (Re.star urlcharRe true).ms := avoids_sound 41 _ (by decide)

/-- after `({urlchar})*`: if white space and `)` follow some success, they follow the greedy one -/
theorem urlStar_dom : Dom (Re.star urlcharRe true) closeRe := by
  intro x _ l ls hm l' hl' hne
  have hlt : l' < l := star_urlchar_max _ x (Nat.lt_succ_self _) l ls hm l' hl'
  have hav : ∀ c ∈ x.take l, c ≠ 41 := urlStar_avoids x l (by rw [hm]; simp)
  rw [close_ms_iff] at hne ⊢
  unfold closes at hne ⊢
  -- the `)` that follows `l'` is not before `l`
  generalize hm' : ((x.drop l').takeWhile (Re.inCls false wsRanges)).length = m at *
  have hdw := drop_takeWhile_length (Re.inCls false wsRanges) (x.drop l')
  rw [hm', List.drop_drop] at hdw
  have hle : l ≤ l' + m := by
    rcases Nat.lt_or_ge (l' + m) l with h | h
    · exfalso
      rw [← hdw] at hne
      have hmem : (41 : Nat) ∈ x.take l := by
        have hlen : l' + m < x.length := by
          rcases Nat.lt_or_ge (l' + m) x.length with h' | h'
          · exact h'
          · rw [List.drop_eq_nil_of_le h'] at hne; cases hne
        rw [List.drop_eq_getElem_cons hlen] at hne
        simp only [List.head?_cons, Option.some.injEq] at hne
        rw [List.mem_take_iff_getElem]
        exact ⟨l' + m, by omega, hne⟩
      exact hav 41 hmem rfl
    · exact h
  have : x.drop l = (x.drop l').drop (l - l') := by rw [List.drop_drop]; congr 1; omega
  rw [this, dropWhile_drop_of_le _ _ _ (by omega)]
  exact hne


/-! ## URI: assembly -/

theorem firstPres_congr {rep : Nat → Bool} {r r' : Re} (h : ∀ x, r.ms x = r'.ms x) (hp : FirstPres rep r') :
    FirstPres rep r := by
  intro s hs
  have := hp s hs
  simp only [Re.first, h] at this ⊢
  exact this

theorem firstPres_seq_alt {rep : Nat → Bool} {a b t : Re} (ha : FirstPres rep (Re.seq a t))
    (hb : FirstPres rep (Re.seq b t)) : FirstPres rep (Re.seq (Re.alt a b) t) :=
  firstPres_congr (r' := Re.alt (Re.seq a t) (Re.seq b t)) (by intro x; simp [Re.ms, List.flatMap_append])
    (firstPres_alt ha hb)

theorem urlchar_firstPresH (rep : Nat → Bool) (ha : AsciiRep rep) : FirstPresH rep urlcharRe :=
  firstPresH_alt (firstPresH_cls rep _ _) (firstPresH_alt (firstPresH_cls rep _ _)
    (firstPresH_alt (firstPresH_seq_bs (firstPres_of_same (asciiPos_sound rep ha urlHexRe (by decide))).toH)
      (firstPresH_alt (firstPresH_seq_bs (firstPresH_cls rep _ _)) (firstPresH_cls rep _ _))))

theorem urlHex_first (c : Nat) (hmax : c ≤ maxUnicode) (y : Cps) :
    urlHexRe.first (hexDigits c ++ 32 :: y) = some ((hexDigits c).length + 1) := by
  have hup := EncEscape.hexDigits_upper c
  have hlen := EncEscape.hexDigits_length_le6 c hmax
  have hne : hexDigits c ≠ [] := hexDigitsF_ne_nil c c
  cases hH : hexDigits c with
  | nil => exact absurd hH hne
  | cons d ds =>
    rw [hH] at hup hlen
    have hd : isHex d = true := isHex_of_upper d (hup d List.mem_cons_self)
    have hds : ∀ x ∈ ds, isHex x = true := fun x hx => isHex_of_upper x (hup x (List.mem_cons_of_mem _ hx))
    have hrun : runLen isHex (ds ++ 32 :: y) 5 = ds.length :=
      runLen_append_stop isHex 32 y (by decide) ds 5 hds (by simp at hlen; omega)
    have h1 : (Re.rep hexRe 1 6 true).first ((d :: ds) ++ 32 :: y) = some (d :: ds).length := by
      simp only [Re.first, List.cons_append, hexrep_ms d _ hd, hrun, List.head?_map, head_countdown,
        Option.map_some, List.length_cons]
      congr 1; omega
    have h2 : termRe.first (((d :: ds) ++ 32 :: y).drop (d :: ds).length) = some 1 := by
      rw [List.drop_left, Re.first, term_ms]; simp [termLens, nlLens]
    exact first_seq_some h1 h2

theorem urlchar_starUnrep (rep : Nat → Bool) (ha : AsciiRep rep) : StarUnrep rep urlcharRe := by
  intro c hc hmax
  have h128 := unrep_ge ha hc
  constructor
  · intro t
    have hp : Re.inCls false plainRanges c = false := by
      cases h : Re.inCls false plainRanges c with
      | false => rfl
      | true => have := (plain_facts c h).1; omega
    rw [Re.first, urlchar_ms_nbs c t (by omega), hp]
    simp [h128]
  · intro y
    have hx := urlHex_first c hmax y
    have hf : urlcharRe.first (escChar c ++ y) = some ((escChar c).length) := by
      have e : escChar c ++ y = 92 :: (hexDigits c ++ 32 :: y) := by simp [escChar]
      rw [e, Re.first, urlchar_ms_bs]
      rw [Re.first] at hx
      cases hm : urlHexRe.ms (hexDigits c ++ 32 :: y) with
      | nil => rw [hm] at hx; cases hx
      | cons a as =>
        rw [hm] at hx
        simp only [List.head?_cons, Option.some.injEq] at hx
        subst hx
        simp [escChar]; omega
    rw [starLen_some urlchar_nonNullable hf]
    simp

theorem urlStar_firstPres (rep : Nat → Bool) (ha : AsciiRep rep) : FirstPres rep (Re.star urlcharRe true) :=
  firstPres_star_of_H urlchar_nonNullable (urlchar_firstPresH rep ha) (urlchar_starUnrep rep ha)

theorem strBody_tight' (q : Nat) (hq : q = 34 ∨ q = 39) (T : Re) :
    Tight (strBody q) (Re.seq (Re.cls false [(q, q)]) T) := by
  intro x _ l ls hm l' hl'
  rw [strBody_ms] at hm
  have := starMs_item_tight q hq _ x (Nat.lt_succ_self _) l ls hm l' hl'
  cases hd : x.drop l' with
  | nil => simp [Re.ms]
  | cons c t =>
    rw [hd] at this
    simp only [List.head?_cons, ne_eq, Option.some.injEq] at this
    simp [Re.ms, inCls_single, this]

theorem strQ_close_firstPres (rep : Nat → Bool) (ha : AsciiRep rep) (q : Nat) (hq : q = 34 ∨ q = 39) :
    FirstPres rep (Re.seq (strQRe q) closeRe) := by
  have hQC : asciiPos (Re.seq (Re.cls false [(q, q)]) closeRe) = true := by
    rcases hq with rfl | rfl <;> decide
  apply firstPres_congr (r' := Re.seq (Re.cls false [(q, q)]) (Re.seq (strBody q)
    (Re.seq (Re.cls false [(q, q)]) closeRe)))
  · intro x
    rw [strQRe, ms_seq_assoc]
    apply ms_seq_congr_right
    intro y
    rw [ms_seq_assoc]
  · exact firstPres_seq_same (quote_same rep ha q hq)
      (firstPres_seq_det (strBody_firstPres rep ha q hq) (firstPres_of_same (asciiPos_sound rep ha _ hQC))
        (seqDet_of_tight (strBody_tight' q hq closeRe)))

def uriY3 : Re := Re.seq lparenRe (Re.seq wStarRe (Re.seq uriBodyRe closeRe))
def uriY2 : Re := Re.seq lLetter uriY3
def uriY1 : Re := Re.seq rLetter uriY2

/-- URI keeps its first match -/
theorem uri_firstPres (rep : Nat → Bool) (ha : AsciiRep rep) : FirstPres rep reURI := by
  rw [reURI_shape]
  have hclose : FirstPres rep closeRe := firstPres_of_same (asciiPos_sound rep ha _ (by decide))
  have h5 : FirstPres rep (Re.seq uriBodyRe closeRe) :=
    firstPres_seq_alt
      (firstPres_seq_alt (strQ_close_firstPres rep ha 34 (Or.inl rfl)) (strQ_close_firstPres rep ha 39 (Or.inr rfl)))
      (firstPres_seq_det (urlStar_firstPres rep ha) hclose (seqDet_of_dom urlStar_dom))
  have h3 : FirstPres rep uriY3 :=
    firstPres_seq_same (asciiPos_sound rep ha lparenRe (by decide))
      (firstPres_seq_same (asciiPos_sound rep ha wStarRe (by decide)) h5)
  have h2 : FirstPres rep uriY2 :=
    letter_seq_firstPres rep ha _ _ _ _ _ _ lLetter_ok uriY3 h3
      (fun c t hc => noStart_sound (cs := [(48, 57), (65, 70)]) (by decide) (upperHexRanges c hc) t)
  have h1 : FirstPres rep uriY1 :=
    letter_seq_firstPres rep ha _ _ _ _ _ _ rLetter_ok uriY2 h2
      (fun c t hc => noStart_sound (cs := [(48, 57), (65, 70)]) (by decide) (upperHexRanges c hc) t)
  exact letter_seq_firstPres rep ha _ _ _ _ _ _ uLetter_ok uriY1 h1
    (fun c t hc => noStart_sound (cs := [(48, 57), (65, 70)]) (by decide) (upperHexRanges c hc) t)


/-! ## the production scan (`tokenize2.py:174-202`) on the escaped text -/

/-- what the scan of the escaped text must answer -/
def mapScan (rep : Nat → Bool) (s : Cps) : Scan → Scan
  | .nomatch => .nomatch
  | .comment v => .comment (escape rep v)
  | .hit n l => .hit n (elen rep s l)

theorem lower_and (t : Cps) (h : pyLower t = andWord) : ∀ c ∈ t, c < 128 ∧ c ≠ 92 := by
  intro c hc
  have hsub : ∀ x ∈ lowerCp c, x = 97 ∨ x = 110 ∨ x = 100 := by
    intro x hx
    have : x ∈ pyLower t := List.mem_flatMap.mpr ⟨c, hc, hx⟩
    rw [h] at this
    simpa [andWord] using this
  unfold lowerCp at hsub
  split at hsub
  · omega
  · split at hsub
    · have := hsub 0x6B (by simp); omega
    · split at hsub
      · have := hsub 0x69 (by simp); omega
      · have := hsub c (by simp); omega

theorem lower_and_escape {rep : Nat → Bool} (ha : AsciiRep rep) (t : Cps) :
    (pyLower (escape rep t) != andWord) = (pyLower t != andWord) := by
  by_cases hall : ∀ c ∈ t, rep c = true
  · rw [escape_id' rep t hall]
  · have hex : ∃ c ∈ t, rep c = false := by
      apply Classical.byContradiction
      intro hne
      apply hall
      intro c hc
      cases h : rep c with
      | true => rfl
      | false => exact absurd ⟨c, hc, h⟩ hne
    obtain ⟨c, hc, hr⟩ := hex
    have h1 : pyLower t ≠ andWord := by
      intro e; have := (lower_and t e c hc).1; have := unrep_ge ha hr; omega
    have h2 : pyLower (escape rep t) ≠ andWord := by
      intro e
      have hmem : (92 : Nat) ∈ escape rep t := by
        obtain ⟨a, b, rfl⟩ := List.append_of_mem hc
        rw [escape_append]
        apply List.mem_append_right
        simp only [escape, hr, Bool.false_eq_true, if_false]
        simp [escChar]
      exact (lower_and _ e 92 hmem).2 rfl
    rw [bne_iff_ne.mpr h1, bne_iff_ne.mpr h2]

theorem head_escape_40 {rep : Nat → Bool} (ha : AsciiRep rep) (z : Cps) :
    ((escape rep z).head? == some 40) = (z.head? == some 40) := by
  cases z with
  | nil => simp [escape]
  | cons c t =>
    cases hc : rep c with
    | true => simp [escape, hc]
    | false =>
      have := unrep_ge ha hc
      have h40 : c ≠ 40 := by omega
      simp [escape, hc, escChar, h40]

theorem getElem_is_head (x : Cps) (l : Nat) : x[l]? = (x.drop l).head? := by
  rw [List.head?_drop]

theorem identContinue_pres {rep : Nat → Bool} (ha : AsciiRep rep) (name : String) (s : Cps) (l : Nat) :
    identContinue name (escape rep s) (elen rep s l) = identContinue name s l := by
  unfold identContinue
  rw [take_elen, lower_and_escape ha, getElem_is_head, getElem_is_head, drop_elen, head_escape_40 ha]
  have e1 : ∀ (x : Cps) (k : Nat), (decide (k < x.length) && ((x.drop k).head? == some 40)) =
      ((x.drop k).head? == some 40) := by
    intro x k
    by_cases hk : k < x.length
    · simp [hk]
    · simp [List.drop_eq_nil_of_le (Nat.le_of_not_lt hk)]
  have e2 := e1 s l
  have e3 := e1 (escape rep s) (elen rep s l)
  rw [drop_elen, head_escape_40 ha] at e3
  simp only [Bool.and_assoc] at e2 e3 ⊢
  rw [e2, e3]

theorem hasAt_escape {rep : Nat → Bool} (ha : AsciiRep rep) : ∀ (str s : Cps), (∀ c ∈ str, c < 128 ∧ c ≠ 92) →
    hasAt (escape rep s) str = hasAt s str := by
  intro str
  induction str with
  | nil => intro s _; simp [hasAt]
  | cons a as ih =>
    intro s hstr
    have haa := hstr a List.mem_cons_self
    cases s with
    | nil => simp [escape]
    | cons c t =>
      have ih' := ih t (fun x hx => hstr x (List.mem_cons_of_mem _ hx))
      unfold hasAt at ih' ⊢
      cases hc : rep c with
      | true =>
        simp only [escape, hc, if_true, List.length_cons, List.take_succ_cons]
        by_cases hca : c = a
        · subst hca
          simp only [List.cons_beq_cons, beq_self_eq_true, Bool.true_and]
          exact ih'
        · have : (c == a) = false := by simpa using hca
          simp [this]
      | false =>
        have h128 := unrep_ge ha hc
        have h1 : (c == a) = false := by
          have : c ≠ a := by omega
          simpa using this
        have h2 : ((92 : Nat) == a) = false := by
          have : (92 : Nat) ≠ a := by omega
          simpa using this
        simp [escape, hc, escChar, h1, h2]

theorem guardFrom_append_rep (rep : Nat → Bool) : ∀ (s t : Cps) (pb : Bool), guardFrom rep pb s = true →
    (∀ c ∈ t, rep c = true) → guardFrom rep pb (s ++ t) = true := by
  intro s
  induction s with
  | nil =>
    intro t
    induction t with
    | nil => intro pb _ _; rfl
    | cons c t iht =>
      intro pb _ ht
      simp only [List.nil_append, guardFrom, Bool.and_eq_true]
      refine ⟨by simp [ht c List.mem_cons_self], ?_⟩
      exact iht _ rfl (fun x hx => ht x (List.mem_cons_of_mem _ hx))
  | cons c s ih =>
    intro t pb h ht
    simp only [List.cons_append, guardFrom, Bool.and_eq_true] at h ⊢
    exact ⟨h.1, ih t _ h.2 ht⟩

theorem mapScan_ne {rep : Nat → Bool} {s : Cps} {x : Scan} (h : x ≠ .nomatch) : mapScan rep s x ≠ .nomatch := by
  cases x <;> simp [mapScan] at h ⊢

/-- the scan over a list of productions each of which keeps its first match at `s` -/
theorem scan_pres (rep : Nat → Bool) (ha : AsciiRep rep) (full doC : Bool) (s : Cps) (hs : Good rep s) :
    ∀ ps : List (String × Re), (∀ p ∈ ps, p.2.first (escape rep s) = (p.2.first s).map (elen rep s)) →
      scan full doC (escape rep s) ps = mapScan rep s (scan full doC s ps) := by
  have hcc : ∀ c ∈ commentClose, rep c = true := by
    intro c hc; simp [commentClose] at hc; rcases hc with rfl | rfl <;> exact ha _ (by decide)
  have hesc : escape rep s ++ commentClose = escape rep (s ++ commentClose) := by
    rw [escape_append, escape_id' rep commentClose hcc]
  have hcom : (commentRe.first (escape rep s ++ commentClose)).isSome = (commentRe.first (s ++ commentClose)).isSome := by
    rw [hesc]
    have hg : Good rep (s ++ commentClose) :=
      ⟨guardFrom_append_rep rep s commentClose false hs.g hcc, by
        intro c hc
        simp only [List.mem_append] at hc
        rcases hc with hc | hc
        · exact hs.m c hc
        · simp [commentClose] at hc; rcases hc with rfl | rfl <;> decide⟩
    have := comment_firstPres rep ha (s ++ commentClose) hg
    show (reCOMMENT.first _).isSome = (reCOMMENT.first _).isSome
    rw [this]; simp
  have hopen : hasAt (escape rep s) commentOpen = hasAt s commentOpen :=
    hasAt_escape ha commentOpen s (by intro c hc; simp [commentOpen] at hc; rcases hc with rfl | rfl <;> decide)
  intro ps
  induction ps with
  | nil => intro _; rfl
  | cons p ps ih =>
    intro hP
    obtain ⟨name, r⟩ := p
    have hr := hP (name, r) List.mem_cons_self
    have ih' := ih (fun q hq => hP q (List.mem_cons_of_mem _ hq))
    simp only [scan, hopen, hcom]
    split
    · simp only [mapScan, hesc]
    · simp only at hr
      rw [hr]
      cases hf : r.first s with
      | none => exact ih'
      | some l =>
        simp only [Option.map_some, identContinue_pres ha]
        split
        · exact ih'
        · rfl

theorem scan_prefix (full doC : Bool) (s : Cps) (b : List (String × Re)) : ∀ a : List (String × Re),
    scan full doC s a ≠ .nomatch → scan full doC s (a ++ b) = scan full doC s a := by
  intro a
  induction a with
  | nil => intro h; exact absurd rfl h
  | cons p a ih =>
    obtain ⟨name, r⟩ := p
    intro h
    simp only [List.cons_append, scan] at h ⊢
    split
    · rfl
    · rename_i hc
      simp only [hc] at h
      cases hf : r.first s with
      | none => rw [hf] at h; exact ih h
      | some l =>
        rw [hf] at h
        simp only at h ⊢
        split
        · rename_i hi; simp only [hi, if_true] at h; exact ih h
        · rfl

theorem scan_hit_mem (full doC : Bool) (s : Cps) : ∀ a : List (String × Re),
    (∃ p ∈ a, ∃ l, p.2.first s = some l ∧ identContinue p.1 s l = false) → scan full doC s a ≠ .nomatch := by
  intro a
  induction a with
  | nil => rintro ⟨p, hp, _⟩; cases hp
  | cons q a ih =>
    obtain ⟨name, r⟩ := q
    rintro ⟨p, hp, l, hl, hi⟩
    simp only [scan]
    split
    · simp
    · cases hf : r.first s with
      | none =>
        simp only
        apply ih
        simp only [List.mem_cons] at hp
        rcases hp with rfl | hp
        · simp only at hl; rw [hf] at hl; cases hl
        · exact ⟨p, hp, l, hl, hi⟩
      | some l' =>
        simp only
        split
        · rename_i hic
          apply ih
          simp only [List.mem_cons] at hp
          rcases hp with rfl | hp
          · simp only at hl hi; rw [hf] at hl; cases hl; rw [hic] at hi; cases hi
          · exact ⟨p, hp, l, hl, hi⟩
        · simp

/-- a decisive prefix of the production list -/
theorem scan_decisive (rep : Nat → Bool) (ha : AsciiRep rep) (full doC : Bool) (s : Cps) (hs : Good rep s)
    (a b : List (String × Re)) (hP : ∀ p ∈ a, p.2.first (escape rep s) = (p.2.first s).map (elen rep s))
    (hne : scan full doC s a ≠ .nomatch) :
    scan full doC (escape rep s) (a ++ b) = mapScan rep s (scan full doC s (a ++ b)) := by
  have h1 := scan_pres rep ha full doC s hs a hP
  rw [scan_prefix full doC s b a hne, scan_prefix full doC (escape rep s) b a (by rw [h1]; exact mapScan_ne hne), h1]


/-! ## every production, and the scan over the whole table -/

def checkedNames : List String :=
  ["S", "IDENT", "DIMENSION", "PERCENTAGE", "NUMBER", "HASH", "ATKEYWORD", "INCLUDES", "DASHMATCH", "PREFIXMATCH",
   "SUFFIXMATCH", "SUBSTRINGMATCH", "CDO", "CDC"]

theorem checked_ok : ∀ p ∈ productions, p.1 ∈ checkedNames → firstPres p.2 = true := by decide

theorem productions_split : ∀ p ∈ productions,
    (p.1 == "FUNCTION" || p.1 == "CHAR" || checkedNames.contains p.1 || decide (p.2 = reSTRING) ||
      decide (p.2 = reINVALID) || decide (p.2 = reCOMMENT) || decide (p.2 = reURI) ||
      decide (p.2 = reUNICODE_RANGE)) = true := by decide

/-- every production but FUNCTION and CHAR keeps its first match on every guarded text -/
theorem productions_firstPres (rep : Nat → Bool) (ha : AsciiRep rep) :
    ∀ p ∈ productions, p.1 ≠ "FUNCTION" → p.1 ≠ "CHAR" → FirstPres rep p.2 := by
  intro p hp h1 h2
  have := productions_split p hp
  simp only [Bool.or_eq_true, beq_iff_eq, decide_eq_true_eq, List.contains_eq_mem] at this
  rcases this with ((((((h | h) | h) | h) | h) | h) | h) | h
  · exact absurd h h1
  · exact absurd h h2
  · exact firstPres_sound rep ha p.2 (checked_ok p hp h)
  · rw [h]; exact string_firstPres rep ha
  · rw [h]; exact invalid_firstPres rep ha
  · rw [h]; exact comment_firstPres rep ha
  · rw [h]; exact uri_firstPres rep ha
  · rw [h]; exact unicodeRange_firstPres rep ha

theorem function_entry : ∀ p ∈ productions, p.1 = "FUNCTION" → p.2 = reFUNCTION := by decide
theorem char_entry : ∀ p ∈ productions, p.1 = "CHAR" → p.2 = reCHAR := by decide

/-- a character that has to be escaped starts an identifier -/
theorem ident_ms_unrep {rep : Nat → Bool} (ha : AsciiRep rep) (c : Nat) (t : Cps) (hc : rep c = false)
    (hcm : c ≤ maxUnicode) : reIDENT.ms (c :: t) ≠ [] := by
  have h128 := unrep_ge ha hc
  have hin : inR [(128, 0x10FFFF)] c = true := by
    simp only [inR, List.any_cons, List.any_nil, Bool.or_false, Bool.and_eq_true, decide_eq_true_eq]
    exact ⟨h128, hcm⟩
  have h1 : nmstartRe.ms (c :: t) = [1] := exactlyOne_sound [(128, 0x10FFFF)] c hin nmstartRe (by decide) t
  rw [reIDENT_eq, seq_ms_left_zero (dashOpt_ms c t (by omega))]
  exact seq_ne_nil (by rw [h1]; simp) (fun s' => starMs_ne_nil _ _ _ _)

theorem identContinue_other (name : String) (s : Cps) (l : Nat) (h : name ≠ "IDENT") :
    identContinue name s l = false := by
  simp [identContinue, h]

/-- **the production scan on the escaped text**: the same production hits, at the mapped length -/
theorem scan_escape (rep : Nat → Bool) (ha : AsciiRep rep) (full doC : Bool) (s : Cps) (hs : Good rep s) :
    scan full doC (escape rep s) productions = mapScan rep s (scan full doC s productions) := by
  have hK : ∀ p ∈ productions, p.1 ≠ "FUNCTION" → p.1 ≠ "CHAR" →
      p.2.first (escape rep s) = (p.2.first s).map (elen rep s) :=
    fun p hp h1 h2 => productions_firstPres rep ha p hp h1 h2 s hs
  have hI := hK ("IDENT", reIDENT) (by simp [productions]) (by decide) (by decide)
  simp only at hI
  -- all productions kept at `s`, given FUNCTION and a representable first character
  have hall : reFUNCTION.first (escape rep s) = (reFUNCTION.first s).map (elen rep s) →
      (∀ c t, s = c :: t → rep c = true) →
      scan full doC (escape rep s) productions = mapScan rep s (scan full doC s productions) := by
    intro hF hh
    apply scan_pres rep ha full doC s hs
    intro p hp
    by_cases h1 : p.1 = "FUNCTION"
    · rw [function_entry p hp h1]; exact hF
    · by_cases h2 : p.1 = "CHAR"
      · rw [char_entry p hp h2]; exact firstPresH_cls rep _ _ s hs hh
      · exact hK p hp h1 h2
  have hsplit4 : productions = productions.take 4 ++ productions.drop 4 := (List.take_append_drop 4 _).symm
  have hsplit5 : productions = productions.take 5 ++ productions.drop 5 := (List.take_append_drop 5 _).symm
  have hk4 : ∀ p ∈ productions.take 4, p.2.first (escape rep s) = (p.2.first s).map (elen rep s) := by
    intro p hp
    have h12 : p.1 ≠ "FUNCTION" ∧ p.1 ≠ "CHAR" := by revert hp; revert p; decide
    exact hK p (List.mem_of_mem_take hp) h12.1 h12.2
  cases hid : reIDENT.first s with
  | none =>
    rw [hid] at hI
    apply hall
    · rw [function_first_none hid, function_first_none hI]; rfl
    · intro c t e
      cases hc : rep c with
      | true => rfl
      | false =>
        exfalso
        subst e
        have := ident_ms_unrep ha c t hc (hs.m c List.mem_cons_self)
        unfold Re.first at hid
        cases hm : reIDENT.ms (c :: t) with
        | nil => exact this hm
        | cons y ys => rw [hm] at hid; cases hid
  | some l =>
    rw [hid] at hI
    simp only [Option.map_some] at hI
    have hlb := Re.first_bounded reIDENT s l hid
    by_cases h40 : s[l]? = some 40
    · -- FUNCTION is kept
      have hF0 := function_first_some hid h40
      have hlt : l < s.length := by
        rcases Nat.lt_or_ge l s.length with h | h
        · exact h
        · rw [List.getElem?_eq_none h] at h40; cases h40
      have hd : s.drop l = 40 :: s.drop (l + 1) := by
        rw [List.drop_eq_getElem_cons hlt]
        congr 1
        rw [List.getElem?_eq_getElem hlt] at h40
        exact Option.some.inj h40
      have hr40 : rep 40 = true := ha 40 (by decide)
      have hp' : (escape rep s)[elen rep s l]? = some 40 := by
        have := drop_elen rep s l
        rw [hd, escape_cons_rep _ hr40] at this
        rw [getElem_is_head, this]; rfl
      have hF1 := function_first_some hI hp'
      have hF : reFUNCTION.first (escape rep s) = (reFUNCTION.first s).map (elen rep s) := by
        rw [hF0, hF1, Option.map_some, elen_add, hd, elen_one_rep _ hr40]
      by_cases hh : ∀ c t, s = c :: t → rep c = true
      · exact hall hF hh
      · -- the first character has to be escaped: IDENT is skipped, FUNCTION hits; CHAR is never reached
        rw [hsplit5]
        apply scan_decisive rep ha full doC s hs
        · intro p hp
          by_cases h1 : p.1 = "FUNCTION"
          · rw [function_entry p (List.mem_of_mem_take hp) h1]; exact hF
          · have hb : ∀ p ∈ productions.take 5, p.1 ≠ "CHAR" := by decide
            exact hK p (List.mem_of_mem_take hp) h1 (hb p hp)
        · apply scan_hit_mem
          exact ⟨("FUNCTION", reFUNCTION), by simp [productions], l + 1, hF0, identContinue_other _ _ _ (by decide)⟩
    · -- the identifier is not followed by `(`: IDENT (or a production in front of it) hits
      rw [hsplit4]
      apply scan_decisive rep ha full doC s hs _ _ hk4
      apply scan_hit_mem
      refine ⟨("IDENT", reIDENT), by simp [productions], l, hid, ?_⟩
      have : (s[l]? == some 40) = false := by simpa using h40
      simp [identContinue, this]

end CssVerif.EncTok
