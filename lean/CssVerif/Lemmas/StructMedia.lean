import CssVerif.Lemmas.Struct
import CssVerif.Model.StructCut
/-!
# Lemmas about K2 `Struct`, part 2: the block of an `@media` rule

Locality of the `@media` block loop (`cssmediarule.py:163-245`), evaluation of a media rule that is complete
or cut off inside its block, and the composition to ANY nesting depth (`MFrame`, `openToks`, `openRules`).
-/
namespace CssVerif.Struct
open CssVerif.Proto (Cps)
set_option linter.unusedSimpArgs false

/-! ## loops that only append to a list -/

theorem parseLoop_acc {α : Type} (step : List α → Tok → List Tok → List α × List Tok)
    (hle : ∀ acc t rest, (step acc t rest).2.length ≤ rest.length)
    (hacc : ∀ acc t rest, step acc t rest = (acc ++ (step [] t rest).1, (step [] t rest).2))
    (ts : List Tok) (acc : List α) :
    parseLoop step acc ts = acc ++ parseLoop step [] ts := by
  generalize hn : ts.length = n
  induction n using Nat.strongRecOn generalizing ts acc with
  | _ n ih =>
    cases ts with
    | nil => simp [parseLoop_nil]
    | cons t ts =>
      rw [parseLoop_cons _ _ _ _ (hle acc t ts), parseLoop_cons _ _ _ _ (hle [] t ts)]
      have hl := hle [] t ts
      rw [hacc acc t ts]
      simp only
      have hlt : (step [] t ts).2.length < n := by simp at hn; omega
      rw [ih _ hlt (step [] t ts).2 _ rfl, ih _ hlt (step [] t ts).2 (step [] t ts).1 rfl]
      simp

/-! ## the `@media` block loop -/

theorem mediaStmtEffect_acc (O : Oracle) (ns : List (Cps × Cps)) (nested : List Tok → Option Rule)
    (acc : List Rule) (t : Tok) (stmt : List Tok) :
    mediaStmtEffect O ns nested acc t stmt = acc ++ mediaStmtEffect O ns nested [] t stmt := by
  unfold mediaStmtEffect mediaInsert
  split <;> (repeat' split) <;> simp

theorem mediaStep_rest_le (O : Oracle) (ns : List (Cps × Cps)) (nested : List Tok → Option Rule)
    (acc : List Rule) (t : Tok) (rest : List Tok) :
    (mediaStep O ns nested acc t rest).2.length ≤ rest.length := by
  unfold mediaStep
  split <;> simp [upto_rest_le]

theorem mediaStep_acc (O : Oracle) (ns : List (Cps × Cps)) (nested : List Tok → Option Rule)
    (acc : List Rule) (t : Tok) (rest : List Tok) :
    mediaStep O ns nested acc t rest =
      (acc ++ (mediaStep O ns nested [] t rest).1, (mediaStep O ns nested [] t rest).2) := by
  unfold mediaStep
  split
  · simp
  · simp
  · simp [mediaInsert]
  · simp only
    rw [mediaStmtEffect_acc]

theorem mediaLoop_nil (O : Oracle) (ns : List (Cps × Cps)) (nested : List Tok → Option Rule) :
    mediaLoop O ns nested [] = [] := by
  simp [mediaLoop, parseLoop_nil]

theorem mediaLoop_cons (O : Oracle) (ns : List (Cps × Cps)) (nested : List Tok → Option Rule)
    (t : Tok) (ts : List Tok) :
    mediaLoop O ns nested (t :: ts) =
      (mediaStep O ns nested [] t ts).1 ++ mediaLoop O ns nested (mediaStep O ns nested [] t ts).2 := by
  unfold mediaLoop
  rw [parseLoop_cons _ _ _ _ (mediaStep_rest_le O ns nested [] t ts),
    parseLoop_acc _ (mediaStep_rest_le O ns nested) (mediaStep_acc O ns nested)]

/-- a unit of the block of an `@media` rule: white space / a comment, or a statement: a token that starts
one (anything else but EOF — CDO / CDC start a ruleset here), a well nested stretch without `;` `}` at
depth 0, and the `;` or the `}` that brings the nesting back to 0 -/
inductive MediaUnit : List Tok → Prop
  | skip (t : Tok) : t.typ = .s ∨ t.typ = .comment → MediaUnit [t]
  | stmt (t : Tok) (g : List Tok) (e : Tok) (stk' : List K) :
      t.typ ≠ .s → t.typ ≠ .comment → t.typ ≠ .eof →
      Quiet .default (startStack t) g = true → nest (startStack t) g = some stk' →
      push stk' e = some [] → endTok .default e = true → MediaUnit (t :: g ++ [e])

inductive MediaSeq : List Tok → Prop
  | nil : MediaSeq []
  | cons (u d : List Tok) : MediaUnit u → MediaSeq d → MediaSeq (u ++ d)

theorem MediaSeq.single {u : List Tok} (hu : MediaUnit u) : MediaSeq u := by
  have := MediaSeq.cons u [] hu MediaSeq.nil
  simpa using this

theorem MediaSeq.append {a b : List Tok} (ha : MediaSeq a) (hb : MediaSeq b) : MediaSeq (a ++ b) := by
  induction ha with
  | nil => simpa using hb
  | cons u d hu _ ih => rw [List.append_assoc]; exact MediaSeq.cons u (d ++ b) hu ih

/-- a statement production of the block takes exactly the statement -/
theorem mediaStep_stmt (O : Oracle) (ns : List (Cps × Cps)) (nested : List Tok → Option Rule)
    (acc : List Rule) (t : Tok) (g : List Tok) (e : Tok) (stk' : List K) (rest : List Tok)
    (h1 : t.typ ≠ .s) (h2 : t.typ ≠ .comment) (h3 : t.typ ≠ .eof)
    (hq : Quiet .default (startStack t) g = true) (hn : nest (startStack t) g = some stk')
    (hp : push stk' e = some []) (he : endTok .default e = true) :
    mediaStep O ns nested acc t (g ++ e :: rest) =
      (mediaStmtEffect O ns nested acc t (t :: g ++ [e]), rest) := by
  have hup : upto .default (some t) (g ++ e :: rest) = (t :: g ++ [e], rest) :=
    upto_start_end .default [] stk' t g e rest rfl (by simpa using hq) (by simpa using hn) hp he
  unfold mediaStep
  split <;> simp_all

theorem mediaLoop_unit (O : Oracle) (ns : List (Cps × Cps)) (nested : List Tok → Option Rule)
    (u x : List Tok) (hu : MediaUnit u) :
    mediaLoop O ns nested (u ++ x) = mediaLoop O ns nested u ++ mediaLoop O ns nested x := by
  cases hu with
  | skip t ht =>
    have h2 : ∀ y, (mediaStep O ns nested [] t y).2 = y := by
      intro y; unfold mediaStep
      rcases ht with h | h <;> simp [h]
    have h1 : ∀ y z, (mediaStep O ns nested [] t y).1 = (mediaStep O ns nested [] t z).1 := by
      intro y z; unfold mediaStep
      rcases ht with h | h <;> simp [h]
    rw [List.singleton_append, mediaLoop_cons, mediaLoop_cons, h2, h2, mediaLoop_nil, h1 x []]
    simp
  | stmt t g e stk' h1 h2 h3 hq hn hp he =>
    have e1 : (t :: g ++ [e]) ++ x = t :: (g ++ e :: x) := by simp
    have e2 : (t :: g ++ [e]) = t :: (g ++ e :: []) := by simp
    rw [e1, mediaLoop_cons, mediaStep_stmt O ns nested [] t g e stk' x h1 h2 h3 hq hn hp he]
    rw [e2, mediaLoop_cons, mediaStep_stmt O ns nested [] t g e stk' [] h1 h2 h3 hq hn hp he]
    simp [mediaLoop_nil]

/-- **locality of the `@media` block**: after complete units the block parser is in its start state -/
theorem mediaLoop_append (O : Oracle) (ns : List (Cps × Cps)) (nested : List Tok → Option Rule)
    (m x : List Tok) (hm : MediaSeq m) :
    mediaLoop O ns nested (m ++ x) = mediaLoop O ns nested m ++ mediaLoop O ns nested x := by
  induction hm with
  | nil => simp [mediaLoop_nil]
  | cons u d hu _ ih =>
    rw [List.append_assoc, mediaLoop_unit O ns nested u (d ++ x) hu, ih, mediaLoop_unit O ns nested u d hu]
    simp

/-! ## hiding the fuel -/

theorem mediaLoopF_fuel (O : Oracle) (ns : List (Cps × Cps)) (f₁ f₂ : Nat) (ts : List Tok)
    (h1 : ts.length < f₁) (h2 : ts.length < f₂) : mediaLoopF O ns f₁ ts = mediaLoopF O ns f₂ ts := by
  unfold mediaLoopF mediaLoop
  apply parseLoop_congr _ _ ts.length _ _ _ (Nat.le_refl _)
  intro acc t rest hr
  apply mediaStep_congr O ns _ _ ts.length _ acc t rest hr
  intro l hl
  exact mediaRule_fuel O ns f₁ f₂ l (by omega) (by omega)

theorem mediaLoopF_eq (O : Oracle) (ns : List (Cps × Cps)) (f : Nat) (ts : List Tok) (h : ts.length < f) :
    mediaLoopF O ns f ts = mediaRules O ns ts :=
  mediaLoopF_fuel O ns f (ts.length + 1) ts h (by omega)

theorem mediaRules_append (O : Oracle) (ns : List (Cps × Cps)) (m x : List Tok) (hm : MediaSeq m) :
    mediaRules O ns (m ++ x) = mediaRules O ns m ++ mediaRules O ns x := by
  have hF := mediaLoop_append O ns (fun l => mediaRule O ns ((m ++ x).length + 1) l) m x hm
  rw [← mediaLoopF_eq O ns ((m ++ x).length + 1) m (by simp; omega),
    ← mediaLoopF_eq O ns ((m ++ x).length + 1) x (by simp; omega)]
  exact hF

/-! ## the media query part (`mediaqueryendonly`: `brace = -1`, a STRING ends it too) -/

theorem calm_mq (stk : List K) (g : List Tok) (hs : noBraceStk stk = true)
    (hb : noBrace g = true) (he : noEof g = true) (hstr : noString g = true)
    (hn : ∃ s, nest stk g = some s) :
    calm .mq m1Cnt stk g = true := by
  induction g generalizing stk with
  | nil => simp [calm]
  | cons t ts ih =>
    obtain ⟨sfin, hn⟩ := hn
    unfold nest at hn
    unfold calm
    simp only [noBrace, List.all_cons, Bool.and_eq_true] at hb
    simp only [noEof, List.all_cons, Bool.and_eq_true] at he
    simp only [noString, List.all_cons, Bool.and_eq_true] at hstr
    split at hn
    · simp at hn
    · next s1 hs1 =>
      have hs1' := push_noBrace stk s1 t hs1 (by simpa using hb.1) hs
      have hbr := cntFrom_brace_of_noBraceStk m1Cnt s1 hs1'
      try simp only [hs1]
      simp only [Bool.and_eq_true]
      refine ⟨⟨he.1, ?_⟩, ih s1 hs1' (by simpa [noBrace] using hb.2) (by simpa [noEof] using he.2)
        (by simpa [noString] using hstr.2) ⟨sfin, hn⟩⟩
      have hbr' : (cntFrom m1Cnt s1).brace = -1 := by rw [hbr]; rfl
      have hst : (t.typ == TT.string) = false := by simpa using hstr.1
      simp only [stop, Cnt.isZero, hbr', hst]
      simp

/-- the media query list of an `@media` rule: balanced, no braces, no EOF, no STRING (the named form
`@media "name" {` is not covered by the theorems), nothing that ends a statement at depth 0 -/
structure MqShape (mq : List Tok) : Prop where
  bal : nest [] mq = some []
  nb : noBrace mq = true
  ne : noEof mq = true
  nstr : noString mq = true
  quiet : Quiet .default [] mq = true

theorem upto_mq (g : List Tok) (lb : Tok) (rest : List Tok) (hs : MqShape g) (hl : lb.val = vLBrace) :
    upto .mq none (g ++ lb :: rest) = (g ++ [lb], rest) := by
  unfold upto
  have hinit : Mode.mq.init none = cntFrom m1Cnt [] := rfl
  rw [hinit, uptoLoop_calm .mq m1Cnt [] [] g (lb :: rest)
    (calm_mq [] g rfl hs.nb hs.ne hs.nstr ⟨[], hs.bal⟩) hs.bal]
  rw [uptoLoop_stop]
  right
  have : bump (cntFrom m1Cnt []) lb = ⟨0, 0, 0⟩ := by
    simp [bump, hl, cntFrom, m1Cnt]
  rw [this]
  simp [stop, Cnt.isZero, endTok, hl, Mode.ends, isInfixOf, Mode.endString]

/-! ## evaluation of a media rule -/

theorem mediaRule_eval (O : Oracle) (ns : List (Cps × Cps)) (f : Nat) (at_ : Tok) (mq : List Tok) (lb : Tok)
    (rest2 : List Tok) (hat : at_.typ = .mediaSym) (hs : MqShape mq) (hl : lb.val = vLBrace)
    (hlt : lb.typ ≠ .string) :
    mediaRule O ns (f + 1) (at_ :: (mq ++ lb :: rest2)) =
      some (if O.mediaOk mq then
        Rule.media (some (mq, none)) (mediaBlock O ns (fun l => mediaRule O ns f l) rest2)
        else Rule.media none []) := by
  have h1 := upto_mq mq lb rest2 hs hl
  have e1 : (sepEnd (mq ++ [lb])).1 = mq := by simp [sepEnd]
  have e2 : (sepEnd (mq ++ [lb])).2 = some lb := by simp [sepEnd]
  simp only [mediaRule, hat, h1, e1, e2]
  by_cases ho : O.mediaOk mq = true <;> simp [hlt, hl, ho]

theorem mediaBlock_open (O : Oracle) (ns : List (Cps × Cps)) (nested : List Tok → Option Rule)
    (x : List Tok) (eof : Tok) (stk : List K)
    (hx : nest [] x = some stk) (hxe : noEof x = true) (he : eof.typ = .eof) :
    mediaBlock O ns nested (x ++ [eof]) = mediaLoop O ns nested (x ++ [eof]) := by
  have h := upto_blockend_open .mediaend (Or.inr rfl) x eof stk hx hxe he
  unfold mediaBlock mediaLoop
  simp [h, sepEnd, he]

theorem mediaBlock_closed (O : Oracle) (ns : List (Cps × Cps)) (nested : List Tok → Option Rule)
    (d : List Tok) (rb : Tok)
    (hd : nest [] d = some []) (hde : noEof d = true) (hr : rb.val = vRBrace) (hrt : rb.typ ≠ .eof) :
    mediaBlock O ns nested (d ++ [rb]) = mediaLoop O ns nested d := by
  have h := upto_blockend_closed .mediaend (Or.inr rfl) d rb [] hd hde hr
  unfold mediaBlock mediaLoop
  simp [h, sepEnd, hr, hrt]

/-- a media rule cut off inside its block by the end of input -/
theorem mediaRule_truncated (O : Oracle) (ns : List (Cps × Cps)) (f : Nat) (at_ : Tok) (mq : List Tok)
    (lb : Tok) (x : List Tok) (eof : Tok) (stk : List K)
    (hat : at_.typ = .mediaSym) (hs : MqShape mq) (hl : lb.val = vLBrace) (hlt : lb.typ ≠ .string)
    (hx : nest [] x = some stk) (hxe : noEof x = true) (he : eof.typ = .eof)
    (hf : (at_ :: (mq ++ lb :: (x ++ [eof]))).length < f) :
    mediaRule O ns f (at_ :: (mq ++ lb :: (x ++ [eof]))) =
      some (if O.mediaOk mq then Rule.media (some (mq, none)) (mediaRules O ns (x ++ [eof]))
        else Rule.media none []) := by
  cases f with
  | zero => omega
  | succ n =>
    rw [mediaRule_eval O ns n at_ mq lb (x ++ [eof]) hat hs hl hlt,
      mediaBlock_open O ns _ x eof stk hx hxe he]
    have : mediaLoop O ns (fun l => mediaRule O ns n l) (x ++ [eof]) = mediaRules O ns (x ++ [eof]) :=
      mediaLoopF_eq O ns n (x ++ [eof]) (by simp at hf ⊢; omega)
    rw [this]

/-- a complete media rule -/
theorem mediaRule_complete (O : Oracle) (ns : List (Cps × Cps)) (f : Nat) (at_ : Tok) (mq : List Tok)
    (lb : Tok) (d : List Tok) (rb : Tok)
    (hat : at_.typ = .mediaSym) (hs : MqShape mq) (hl : lb.val = vLBrace) (hlt : lb.typ ≠ .string)
    (hd : nest [] d = some []) (hde : noEof d = true) (hr : rb.val = vRBrace) (hrt : rb.typ ≠ .eof)
    (hf : (at_ :: (mq ++ lb :: (d ++ [rb]))).length < f) :
    mediaRule O ns f (at_ :: (mq ++ lb :: (d ++ [rb]))) =
      some (if O.mediaOk mq then Rule.media (some (mq, none)) (mediaRules O ns d)
        else Rule.media none []) := by
  cases f with
  | zero => omega
  | succ n =>
    rw [mediaRule_eval O ns n at_ mq lb (d ++ [rb]) hat hs hl hlt,
      mediaBlock_closed O ns _ d rb hd hde hr hrt]
    have : mediaLoop O ns (fun l => mediaRule O ns n l) d = mediaRules O ns d :=
      mediaLoopF_eq O ns n d (by simp at hf ⊢; omega)
    rw [this]

/-! ## the statement collected for a rule that is still open at the end of input -/

theorem atMedia_br (t : Tok) (ht : t.typ = .mediaSym) (hv : normalize t.val = atMedia) : t.br = .no := by
  unfold Tok.br
  have hne : ∀ v : Cps, t.val = v → normalize v ≠ atMedia → False := fun v h1 h2 => h2 (h1 ▸ hv)
  by_cases h1 : t.val = vLBrace
  · exact (hne _ h1 (by decide)).elim
  by_cases h2 : t.val = vRBrace
  · exact (hne _ h2 (by decide)).elim
  by_cases h3 : t.val = vLBrack
  · exact (hne _ h3 (by decide)).elim
  by_cases h4 : t.val = vRBrack
  · exact (hne _ h4 (by decide)).elim
  by_cases h5 : t.val = vLParen
  · exact (hne _ h5 (by decide)).elim
  by_cases h6 : t.val = vRParen
  · exact (hne _ h6 (by decide)).elim
  simp [h1, h2, h3, h4, h5, h6, ht]

theorem atMedia_not_end (t : Tok) (hv : normalize t.val = atMedia) : endTok .default t = false := by
  have hne : ∀ v : Cps, t.val = v → normalize v ≠ atMedia → False := fun v h1 h2 => h2 (h1 ▸ hv)
  simp only [endTok, Mode.ends, Mode.endString, Bool.false_and, Bool.or_false]
  -- `val in ';}'`: the substrings of `;}` are "", ";", "}", ";}"
  by_cases h0 : t.val = []
  · exact (hne _ h0 (by decide)).elim
  by_cases h1 : t.val = [0x3B]
  · exact (hne _ h1 (by decide)).elim
  by_cases h2 : t.val = [0x7D]
  · exact (hne _ h2 (by decide)).elim
  by_cases h3 : t.val = [0x3B, 0x7D]
  · exact (hne _ h3 (by decide)).elim
  cases hv' : t.val with
  | nil => exact absurd hv' h0
  | cons a as =>
    cases as with
    | nil =>
      have ha1 : a ≠ 0x3B := fun h => h1 (by rw [hv', h])
      have ha2 : a ≠ 0x7D := fun h => h2 (by rw [hv', h])
      simp [isInfixOf, List.isPrefixOf, ha1, ha2]
    | cons b bs =>
      cases bs with
      | nil =>
        have hab : ¬(a = 0x3B ∧ b = 0x7D) := fun h => h3 (by rw [hv', h.1, h.2])
        simp only [isInfixOf, List.isPrefixOf, List.isEmpty_cons, Bool.or_false, Bool.and_true,
          Bool.and_false, Bool.or_eq_false_iff, Bool.and_eq_false_imp, beq_iff_eq]
        simp only [beq_eq_false_iff_ne, ne_eq]
        omega
      | cons c cs => simp [isInfixOf, List.isPrefixOf]

/-- the head `@media mq` of a media rule seen from the enclosing level: quiet and balanced -/
theorem mediaHead_quiet (at_ : Tok) (mq : List Tok) (hat : at_.typ = .mediaSym)
    (hv : normalize at_.val = atMedia) (hs : MqShape mq) :
    Quiet .default [] (at_ :: mq) = true ∧ nest [] (at_ :: mq) = some [] := by
  have hp : push [] at_ = some [] := push_no [] at_ (atMedia_br at_ hat hv)
  constructor
  · unfold Quiet
    simp only [hp, Bool.and_eq_true, bne_iff_ne, ne_eq]
    refine ⟨⟨by simp [hat], ?_⟩, hs.quiet⟩
    simp [atMedia_not_end at_ hv]
  · unfold nest
    simp only [hp]
    exact hs.bal

/-! ## the block loop on a rule that is still open at the end of input -/

/-- `@media` inside an `@media` block, cut off inside its own block -/
theorem mediaRules_open_media (O : Oracle) (ns : List (Cps × Cps)) (at_ : Tok) (mq : List Tok)
    (lb : Tok) (x : List Tok) (eof : Tok) (stk : List K)
    (hat : at_.typ = .mediaSym) (hv : normalize at_.val = atMedia) (hs : MqShape mq)
    (hl : lb.val = vLBrace) (hlt : lb.typ = .char)
    (hx : nest [] x = some stk) (hxe : noEof x = true) (he : eof.typ = .eof) :
    mediaRules O ns (at_ :: (mq ++ lb :: (x ++ [eof]))) =
      [if O.mediaOk mq then Rule.media (some (mq, none)) (mediaRules O ns (x ++ [eof]))
        else Rule.media none []] := by
  obtain ⟨hq, hbal⟩ := mediaHead_quiet at_ mq hat hv hs
  have hup := upto_default_open_rule at_ mq x lb eof stk hq hbal hl (by simp [hlt]) hx hxe he
  have e0 : mq ++ lb :: x ++ [eof] = mq ++ lb :: (x ++ [eof]) := by simp
  have e1 : at_ :: mq ++ lb :: x ++ [eof] = at_ :: (mq ++ lb :: (x ++ [eof])) := by simp
  rw [e0, e1] at hup
  show mediaLoop O ns (fun l => mediaRule O ns ((at_ :: (mq ++ lb :: (x ++ [eof]))).length + 1) l)
    (at_ :: (mq ++ lb :: (x ++ [eof]))) = _
  rw [mediaLoop_cons]
  have hstep : mediaStep O ns (fun l => mediaRule O ns ((at_ :: (mq ++ lb :: (x ++ [eof]))).length + 1) l) []
      at_ (mq ++ lb :: (x ++ [eof])) =
      (mediaStmtEffect O ns (fun l => mediaRule O ns ((at_ :: (mq ++ lb :: (x ++ [eof]))).length + 1) l) []
        at_ (at_ :: (mq ++ lb :: (x ++ [eof]))), []) := by
    unfold mediaStep
    simp [hat, hup]
  rw [hstep]
  simp only [mediaLoop_nil, List.append_nil]
  have hm := mediaRule_truncated O ns ((at_ :: (mq ++ lb :: (x ++ [eof]))).length + 1) at_ mq lb x eof stk
    hat hs hl (by simp [hlt]) hx hxe he (by omega)
  have hnf : mediaForbidden.contains (normalize at_.val) = false := by rw [hv]; decide
  have hnp : normalize at_.val ≠ atPage := by rw [hv]; decide
  have hnf' : (atMedia ∈ mediaForbidden) = False := by simp; decide
  have hnp' : (atMedia = atPage) = False := by simp; decide
  simp only [mediaStmtEffect, hat, hnf, hnp, hv, hm, mediaInsert]
  simp [hnf', hnp']

/-- a style rule inside an `@media` block, cut off inside its declaration block -/
theorem mediaRules_open_style (O : Oracle) (ns : List (Cps × Cps)) (t : Tok) (sel' : List Tok)
    (lb : Tok) (x : List Tok) (eof : Tok) (stk : List K)
    (ht : startsMediaRuleset t = true) (hs : SelShape (t :: sel')) (hq : Quiet .default [] (t :: sel') = true)
    (hl : lb.val = vLBrace) (hlt : lb.typ ≠ .eof)
    (hx : nest [] x = some stk) (hxe : noEof x = true) (he : eof.typ = .eof) :
    mediaRules O ns (t :: (sel' ++ lb :: (x ++ [eof]))) =
      if O.selOk ns (t :: sel') then [Rule.style ns (t :: sel') (parseDecls O (x ++ [eof]))] else [] := by
  have hup := upto_default_open_rule t sel' x lb eof stk hq hs.bal hl hlt hx hxe he
  have e0 : sel' ++ lb :: x ++ [eof] = sel' ++ lb :: (x ++ [eof]) := by simp
  have e1 : t :: sel' ++ lb :: x ++ [eof] = t :: (sel' ++ lb :: (x ++ [eof])) := by simp
  rw [e0, e1] at hup
  have hsr := styleRule_truncated O ns (t :: sel') x lb eof stk hs hl hx hxe he
  have e2 : t :: sel' ++ lb :: x ++ [eof] = t :: (sel' ++ lb :: (x ++ [eof])) := by simp
  rw [e2] at hsr
  unfold mediaRules mediaLoopF
  rw [mediaLoop_cons]
  unfold startsMediaRuleset at ht
  unfold mediaStep
  split <;> try simp_all
  all_goals
    unfold mediaStmtEffect
    split <;> try simp_all
    all_goals
      by_cases ho : O.selOk ns (t :: sel') = true <;> simp [ho, mediaInsert, mediaLoop_nil]

/-! ## any nesting depth -/

structure MFrame.Ok (F : MFrame) : Prop where
  seq : MediaSeq F.done
  bal : nest [] F.done = some []
  ne : noEof F.done = true
  atT : F.at_.typ = .mediaSym
  atV : normalize F.at_.val = atMedia
  mq : MqShape F.mq
  lbV : F.lb.val = vLBrace
  lbT : F.lb.typ = .char

theorem nest_open_media (at_ : Tok) (mq : List Tok) (lb : Tok) (x : List Tok) (stk : List K)
    (hat : at_.typ = .mediaSym) (hv : normalize at_.val = atMedia) (hs : MqShape mq)
    (hl : lb.val = vLBrace) (hlt : lb.typ = .char) (hx : nest [] x = some stk) (hxe : noEof x = true) :
    nest [] (at_ :: (mq ++ lb :: x)) = some (stk ++ [.brace]) ∧ noEof (at_ :: (mq ++ lb :: x)) = true := by
  obtain ⟨_, hbal⟩ := mediaHead_quiet at_ mq hat hv hs
  constructor
  · have : at_ :: (mq ++ lb :: x) = (at_ :: mq) ++ (lb :: x) := by simp
    rw [this, nest_append, hbal]
    simp only [nest, push, lbrace_br lb hl]
    exact nest_lift [] stk [.brace] x hx
  · have h1 : noEof mq = true := hs.ne
    simp only [noEof, List.all_cons, List.all_append, Bool.and_eq_true, bne_iff_ne, ne_eq] at h1 hxe ⊢
    refine ⟨by simp [hat], h1, by simp [hlt], hxe⟩

theorem openToks_nest (fs : List MFrame) (junk : List Tok) (stk : List K)
    (hf : ∀ F ∈ fs, F.Ok) (hj : nest [] junk = some stk) (hje : noEof junk = true) :
    ∃ stk', nest [] (openToks fs junk) = some stk' ∧ noEof (openToks fs junk) = true := by
  induction fs with
  | nil => exact ⟨stk, hj, hje⟩
  | cons F fs ih =>
    obtain ⟨s1, hn1, he1⟩ := ih (fun G hG => hf G (List.mem_cons_of_mem _ hG))
    have hF := hf F List.mem_cons_self
    obtain ⟨hn2, he2⟩ := nest_open_media F.at_ F.mq F.lb (openToks fs junk) s1 hF.atT hF.atV hF.mq hF.lbV
      hF.lbT hn1 he1
    refine ⟨s1 ++ [.brace], ?_, ?_⟩
    · simp only [openToks]
      rw [nest_append, hF.bal]
      exact hn2
    · simp only [openToks]
      rw [noEof_append, hF.ne, he2]
      rfl

/-- **truncation at any nesting depth** (inside an `@media` block): the frames `fs` are open at the cut,
`junk` is the unfinished content of the innermost one -/
theorem mediaRules_open (O : Oracle) (ns : List (Cps × Cps)) (fs : List MFrame) (junk : List Tok)
    (eof : Tok) (stk : List K)
    (hf : ∀ F ∈ fs, F.Ok) (hj : nest [] junk = some stk) (hje : noEof junk = true) (he : eof.typ = .eof) :
    mediaRules O ns (openToks fs junk ++ [eof]) = openRules O ns fs (mediaRules O ns (junk ++ [eof])) := by
  induction fs with
  | nil => rfl
  | cons F fs ih =>
    have hfs : ∀ G ∈ fs, G.Ok := fun G hG => hf G (List.mem_cons_of_mem _ hG)
    have hF := hf F List.mem_cons_self
    obtain ⟨s1, hn1, he1⟩ := openToks_nest fs junk stk hfs hj hje
    have e : openToks (F :: fs) junk ++ [eof] =
        F.done ++ F.at_ :: (F.mq ++ F.lb :: (openToks fs junk ++ [eof])) := by
      simp [openToks]
    rw [e, mediaRules_append O ns F.done _ hF.seq,
      mediaRules_open_media O ns F.at_ F.mq F.lb (openToks fs junk) eof s1 hF.atT hF.atV hF.mq hF.lbV hF.lbT
        hn1 he1 he, ih hfs]
    rfl

/-! ## sheet level -/

theorem sheetStep_media (O : Oracle) (M : List Cps) (st : SheetSt) (t : Tok) (rest : List Tok)
    (ht : t.typ = .mediaSym) :
    sheetStep O M st t rest =
      (stmtEffect O M st t (upto .default (some t) rest).1, (upto .default (some t) rest).2) := by
  unfold sheetStep
  simp [ht]

/-- the sheet dispatcher on an `@media` rule that is cut off inside its block by the end of input -/
theorem sheetLoop_open_media (O : Oracle) (M : List Cps) (st : SheetSt) (at_ : Tok) (mq : List Tok)
    (lb : Tok) (x : List Tok) (eof : Tok) (stk : List K)
    (hat : at_.typ = .mediaSym) (hv : normalize at_.val = atMedia) (hs : MqShape mq)
    (hl : lb.val = vLBrace) (hlt : lb.typ = .char)
    (hx : nest [] x = some stk) (hxe : noEof x = true) (he : eof.typ = .eof) :
    (sheetLoop O M st (at_ :: (mq ++ lb :: (x ++ [eof])))).rules =
      st.rules ++ [if O.mediaOk mq then Rule.media (some (mq, none)) (mediaRules O st.nsmap (x ++ [eof]))
        else Rule.media none []] := by
  obtain ⟨hq, hbal⟩ := mediaHead_quiet at_ mq hat hv hs
  have hup := upto_default_open_rule at_ mq x lb eof stk hq hbal hl (by simp [hlt]) hx hxe he
  have e0 : mq ++ lb :: x ++ [eof] = mq ++ lb :: (x ++ [eof]) := by simp
  have e1 : at_ :: mq ++ lb :: x ++ [eof] = at_ :: (mq ++ lb :: (x ++ [eof])) := by simp
  rw [e0, e1] at hup
  rw [sheetLoop_cons, sheetStep_media O M st at_ _ hat, hup]
  simp only [sheetLoop_nil]
  have hm := mediaRule_truncated O st.nsmap ((at_ :: (mq ++ lb :: (x ++ [eof]))).length + 1) at_ mq lb x eof
    stk hat hs hl (by simp [hlt]) hx hxe he (by omega)
  simp only [stmtEffect, hat, hm]
  by_cases ho : O.mediaOk mq = true <;> simp [ho, sheetInsert, Rule.kind]

/-- the same for a complete `@media` rule followed by anything -/
theorem stmtEffect_complete_media (O : Oracle) (M : List Cps) (st : SheetSt) (at_ : Tok) (mq : List Tok)
    (lb : Tok) (d : List Tok) (rb : Tok)
    (hat : at_.typ = .mediaSym) (hs : MqShape mq) (hl : lb.val = vLBrace) (hlt : lb.typ = .char)
    (hd : nest [] d = some []) (hde : noEof d = true) (hr : rb.val = vRBrace) (hrt : rb.typ ≠ .eof) :
    (stmtEffect O M st at_ (at_ :: (mq ++ lb :: (d ++ [rb])))).rules =
      st.rules ++ [if O.mediaOk mq then Rule.media (some (mq, none)) (mediaRules O st.nsmap d)
        else Rule.media none []] := by
  have hm := mediaRule_complete O st.nsmap ((at_ :: (mq ++ lb :: (d ++ [rb]))).length + 1) at_ mq lb d rb
    hat hs hl (by simp [hlt]) hd hde hr hrt (by omega)
  simp only [stmtEffect, hat, hm]
  by_cases ho : O.mediaOk mq = true <;> simp [ho, sheetInsert, Rule.kind]


/-! ## containment inside an `@media` block -/

/-- what a statement production of an `@media` block yields for the collected statement `stmt` (nested
`@media` parsed with enough fuel) -/
def mediaStmtRules (O : Oracle) (ns : List (Cps × Cps)) (t : Tok) (stmt : List Tok) : List Rule :=
  mediaStmtEffect O ns (fun l => mediaRule O ns (stmt.length + 1) l) [] t stmt

/-- the rules of one complete statement of a media block -/
theorem mediaRules_stmt (O : Oracle) (ns : List (Cps × Cps)) (t : Tok) (g : List Tok) (e : Tok)
    (stk' : List K) (h1 : t.typ ≠ .s) (h2 : t.typ ≠ .comment) (h3 : t.typ ≠ .eof)
    (hq : Quiet .default (startStack t) g = true) (hn : nest (startStack t) g = some stk')
    (hp : push stk' e = some []) (he : endTok .default e = true) :
    mediaRules O ns (t :: g ++ [e]) = mediaStmtRules O ns t (t :: g ++ [e]) := by
  show mediaLoop O ns (fun l => mediaRule O ns ((t :: g ++ [e]).length + 1) l) (t :: g ++ [e]) = _
  have e2 : (t :: g ++ [e]) = t :: (g ++ e :: []) := by simp
  rw [e2, mediaLoop_cons, mediaStep_stmt O ns _ [] t g e stk' [] h1 h2 h3 hq hn hp he]
  simp [mediaLoop_nil, mediaStmtRules]

/-- a statement of a media block that yields no rule can be taken out: the block parses as without it -/
theorem mediaRules_drop_stmt (O : Oracle) (ns : List (Cps × Cps)) (m₁ m₂ : List Tok) (t : Tok)
    (g : List Tok) (e : Tok) (stk' : List K) (hm : MediaSeq m₁)
    (h1 : t.typ ≠ .s) (h2 : t.typ ≠ .comment) (h3 : t.typ ≠ .eof)
    (hq : Quiet .default (startStack t) g = true) (hn : nest (startStack t) g = some stk')
    (hp : push stk' e = some []) (he : endTok .default e = true)
    (hdrop : mediaStmtRules O ns t (t :: g ++ [e]) = []) :
    mediaRules O ns (m₁ ++ (t :: g ++ [e]) ++ m₂) = mediaRules O ns (m₁ ++ m₂) := by
  have hu : MediaUnit (t :: g ++ [e]) := MediaUnit.stmt t g e stk' h1 h2 h3 hq hn hp he
  rw [List.append_assoc, mediaRules_append O ns m₁ _ hm, mediaRules_append O ns _ m₂ (MediaSeq.single hu),
    mediaRules_stmt O ns t g e stk' h1 h2 h3 hq hn hp he, hdrop, mediaRules_append O ns m₁ m₂ hm]
  simp

/-- an at-rule production of the media block -/
def isMediaAt (t : Tok) : Bool :=
  match t.typ with
  | .charsetSym | .fontFaceSym | .importSym | .namespaceSym | .pageSym | .mediaSym | .atkeyword => true
  | _ => false

theorem mediaStmtRules_ruleset (O : Oracle) (ns : List (Cps × Cps)) (t : Tok) (stmt : List Tok)
    (ht : startsMediaRuleset t = true) :
    mediaStmtRules O ns t stmt =
      match styleRule O ns stmt with
      | some (sel, items) => [Rule.style ns sel items]
      | none => [] := by
  unfold startsMediaRuleset at ht
  unfold mediaStmtRules mediaStmtEffect
  split <;> simp_all [mediaInsert]
  cases hsr : styleRule O ns stmt with
  | none => rfl
  | some p => obtain ⟨sel, items⟩ := p; rfl

theorem mediaStmtRules_forbidden (O : Oracle) (ns : List (Cps × Cps)) (t : Tok) (stmt : List Tok)
    (ht : isMediaAt t = true) (hf : mediaForbidden.contains (normalize t.val) = true) :
    mediaStmtRules O ns t stmt = [] := by
  unfold isMediaAt at ht
  unfold mediaStmtRules mediaStmtEffect
  split <;> simp_all

theorem mediaStmtRules_unknown (O : Oracle) (ns : List (Cps × Cps)) (t : Tok) (stmt : List Tok)
    (ht : isMediaAt t = true) (hf : mediaForbidden.contains (normalize t.val) = false)
    (hp : normalize t.val ≠ atPage) (hm : normalize t.val ≠ atMedia) :
    mediaStmtRules O ns t stmt = if unknownOk stmt then [Rule.unknown stmt] else [] := by
  unfold isMediaAt at ht
  unfold mediaStmtRules mediaStmtEffect
  split <;> simp_all [mediaInsert]

/-! ## a complete `@media` rule as a statement (of a media block, of the sheet) -/

/-- the statement collected for a complete rule `t sel' { x }` -/
theorem upto_default_closed_rule (t : Tok) (sel' x : List Tok) (lb rb : Tok) (rest : List Tok)
    (hq : Quiet .default [] (t :: sel') = true) (hbal : nest [] (t :: sel') = some [])
    (hl : lb.val = vLBrace) (hlt : lb.typ ≠ .eof)
    (hx : nest [] x = some []) (hxe : noEof x = true) (hr : rb.val = vRBrace) :
    Quiet .default (startStack t) (sel' ++ lb :: x) = true ∧
    nest (startStack t) (sel' ++ lb :: x) = some [.brace] ∧ push [.brace] rb = some [] ∧
    endTok .default rb = true ∧
    upto .default (some t) ((sel' ++ lb :: x) ++ rb :: rest) = (t :: (sel' ++ lb :: x) ++ [rb], rest) := by
  have q1 := quiet_cons_start .default t sel' hq
  have n1 := nest_cons_start t sel' [] hbal
  have hp : push [] lb = some [.brace] := by simp [push, lbrace_br lb hl]
  have q2 : Quiet .default [] (lb :: x) = true := by
    unfold Quiet
    simp only [hp, Bool.and_eq_true, bne_iff_ne, ne_eq]
    refine ⟨⟨hlt, by simp⟩, ?_⟩
    exact quiet_lift .default [] [] .brace [] x hx hxe
  have n2 : nest [] (lb :: x) = some [.brace] := by
    unfold nest
    simp only [hp]
    exact nest_lift [] [] [.brace] x hx
  have q := quiet_append .default (startStack t) [] sel' (lb :: x) q1 n1 q2
  have n : nest (startStack t) (sel' ++ lb :: x) = some [.brace] := by
    rw [nest_append, n1]; exact n2
  have hpr : push [.brace] rb = some [] := by simp [push, rbrace_br rb hr]
  have her : endTok .default rb = true := by simp [endTok, hr, Mode.ends, isInfixOf]
  refine ⟨q, n, hpr, her, ?_⟩
  exact upto_start_end .default [] [.brace] t (sel' ++ lb :: x) rb rest rfl (by simpa using q)
    (by simpa using n) hpr her

/-- a complete `@media` rule inside an `@media` block -/
theorem mediaRules_complete_media (O : Oracle) (ns : List (Cps × Cps)) (at_ : Tok) (mq : List Tok)
    (lb : Tok) (x : List Tok) (rb : Tok)
    (hat : at_.typ = .mediaSym) (hv : normalize at_.val = atMedia) (hs : MqShape mq)
    (hl : lb.val = vLBrace) (hlt : lb.typ = .char)
    (hx : nest [] x = some []) (hxe : noEof x = true) (hr : rb.val = vRBrace) (hrt : rb.typ ≠ .eof) :
    MediaUnit (at_ :: (mq ++ lb :: x) ++ [rb]) ∧
    mediaRules O ns (at_ :: (mq ++ lb :: x) ++ [rb]) =
      [if O.mediaOk mq then Rule.media (some (mq, none)) (mediaRules O ns x) else Rule.media none []] := by
  obtain ⟨hq, hbal⟩ := mediaHead_quiet at_ mq hat hv hs
  obtain ⟨q, n, hp, he, _⟩ := upto_default_closed_rule at_ mq x lb rb [] hq hbal hl (by simp [hlt]) hx hxe hr
  have h1 : at_.typ ≠ .s := by simp [hat]
  have h2 : at_.typ ≠ .comment := by simp [hat]
  have h3 : at_.typ ≠ .eof := by simp [hat]
  refine ⟨MediaUnit.stmt at_ _ rb [.brace] h1 h2 h3 q n hp he, ?_⟩
  rw [mediaRules_stmt O ns at_ (mq ++ lb :: x) rb [.brace] h1 h2 h3 q n hp he]
  have e : at_ :: (mq ++ lb :: x) ++ [rb] = at_ :: (mq ++ lb :: (x ++ [rb])) := by simp
  have hm := mediaRule_complete O ns ((at_ :: (mq ++ lb :: (x ++ [rb]))).length + 1) at_ mq lb x rb
    hat hs hl (by simp [hlt]) hx hxe hr hrt (by omega)
  have hnf : mediaForbidden.contains (normalize at_.val) = false := by rw [hv]; decide
  have hnp : normalize at_.val ≠ atPage := by rw [hv]; decide
  have hnf' : (atMedia ∈ mediaForbidden) = False := by simp; decide
  have hnp' : (atMedia = atPage) = False := by simp; decide
  rw [e]
  simp only [mediaStmtRules, mediaStmtEffect, hat, hnf, hnp, hv, hm, mediaInsert]
  simp [hnf', hnp']

/-- the full effect of a complete `@media` statement on the sheet state -/
theorem stmtEffect_complete_media_state (O : Oracle) (M : List Cps) (st : SheetSt) (at_ : Tok)
    (mq : List Tok) (lb : Tok) (d : List Tok) (rb : Tok)
    (hat : at_.typ = .mediaSym) (hs : MqShape mq) (hl : lb.val = vLBrace) (hlt : lb.typ = .char)
    (hd : nest [] d = some []) (hde : noEof d = true) (hr : rb.val = vRBrace) (hrt : rb.typ ≠ .eof) :
    stmtEffect O M st at_ (at_ :: (mq ++ lb :: (d ++ [rb]))) =
      { st with
        rules := st.rules ++ [if O.mediaOk mq then Rule.media (some (mq, none)) (mediaRules O st.nsmap d)
          else Rule.media none []]
        expected := 3 } := by
  have hm := mediaRule_complete O st.nsmap ((at_ :: (mq ++ lb :: (d ++ [rb]))).length + 1) at_ mq lb d rb
    hat hs hl (by simp [hlt]) hd hde hr hrt (by omega)
  simp only [stmtEffect, hat, hm]
  by_cases ho : O.mediaOk mq = true <;> simp [ho, sheetInsert, Rule.kind]

/-- the sheet dispatcher on a complete `@media` rule followed by anything -/
theorem sheetLoop_complete_media (O : Oracle) (M : List Cps) (st : SheetSt) (at_ : Tok) (mq : List Tok)
    (lb : Tok) (x : List Tok) (rb : Tok) (s₂ : List Tok)
    (hat : at_.typ = .mediaSym) (hv : normalize at_.val = atMedia) (hs : MqShape mq)
    (hl : lb.val = vLBrace) (hlt : lb.typ = .char)
    (hx : nest [] x = some []) (hxe : noEof x = true) (hr : rb.val = vRBrace) (hrt : rb.typ ≠ .eof) :
    sheetLoop O M st (at_ :: (mq ++ lb :: x) ++ rb :: s₂) =
      sheetLoop O M { st with
        rules := st.rules ++ [if O.mediaOk mq then Rule.media (some (mq, none)) (mediaRules O st.nsmap x)
          else Rule.media none []]
        expected := 3 } s₂ := by
  obtain ⟨hq, hbal⟩ := mediaHead_quiet at_ mq hat hv hs
  obtain ⟨q, n, hp, he, _⟩ := upto_default_closed_rule at_ mq x lb rb [] hq hbal hl (by simp [hlt]) hx hxe hr
  rw [sheetLoop_stmt O M st at_ (mq ++ lb :: x) rb [.brace] s₂ (by simp [hat]) (by simp [hat]) (by simp [hat])
    (by simp [hat]) (by simp [hat]) q n hp he]
  have e : at_ :: (mq ++ lb :: x) ++ [rb] = at_ :: (mq ++ lb :: (x ++ [rb])) := by simp
  rw [e, stmtEffect_complete_media_state O M st at_ mq lb x rb hat hs hl hlt hx hxe hr hrt]

/-! ## certificates: the decidable checks of `Model/StructCut.lean` are sound -/

theorem unsnoc_eq (l g : List Tok) (e : Tok) (h : unsnoc l = some (g, e)) : l = g ++ [e] := by
  unfold unsnoc at h
  split at h
  · next e' he' =>
    simp only [Option.some.injEq, Prod.mk.injEq] at h
    obtain ⟨rfl, rfl⟩ := h
    obtain ⟨ys, rfl⟩ := List.getLast?_eq_some_iff.mp he'
    simp
  · simp at h

theorem stmtShapeB_sound (t : Tok) (body : List Tok) (h : stmtShapeB t body = true) :
    ∃ g e stk', body = g ++ [e] ∧ Quiet .default (startStack t) g = true ∧
      nest (startStack t) g = some stk' ∧ push stk' e = some [] ∧ endTok .default e = true := by
  unfold stmtShapeB at h
  split at h
  · simp at h
  · next g e hu =>
    simp only [Bool.and_eq_true] at h
    obtain ⟨hq, h2⟩ := h
    split at h2
    · next stk' hn =>
      simp only [Bool.and_eq_true, beq_iff_eq] at h2
      exact ⟨g, e, stk', unsnoc_eq _ _ _ hu, hq, hn, h2.1, h2.2⟩
    · simp at h2

theorem stmtUnitB_sound (u : List Tok) (h : stmtUnitB u = true) : StmtUnit u := by
  match u, h with
  | [t], h =>
    simp only [stmtUnitB, Bool.or_eq_true, beq_iff_eq] at h
    exact StmtUnit.skip t (by rcases h with ((h | h) | h) | h <;> simp [h])
  | t :: b :: bs, h =>
    simp only [stmtUnitB, Bool.and_eq_true, bne_iff_ne, ne_eq] at h
    obtain ⟨⟨⟨⟨⟨h1, h2⟩, h3⟩, h4⟩, h5⟩, hs⟩ := h
    obtain ⟨g, e, stk', hb, hq, hn, hp, he⟩ := stmtShapeB_sound t (b :: bs) hs
    rw [hb]
    exact StmtUnit.stmt t g e stk' h1 h2 h3 h4 h5 hq hn hp he

theorem mediaUnitB_sound (u : List Tok) (h : mediaUnitB u = true) : MediaUnit u := by
  match u, h with
  | [t], h =>
    simp only [mediaUnitB, Bool.or_eq_true, beq_iff_eq] at h
    exact MediaUnit.skip t h
  | t :: b :: bs, h =>
    simp only [mediaUnitB, Bool.and_eq_true, bne_iff_ne, ne_eq] at h
    obtain ⟨⟨⟨h1, h2⟩, h3⟩, hs⟩ := h
    obtain ⟨g, e, stk', hb, hq, hn, hp, he⟩ := stmtShapeB_sound t (b :: bs) hs
    rw [hb]
    exact MediaUnit.stmt t g e stk' h1 h2 h3 hq hn hp he

theorem declUnitB_sound (u : List Tok) (h : declUnitB u = true) : DeclUnit u := by
  match u, h with
  | [t], h =>
    simp only [declUnitB, Bool.or_eq_true, Bool.and_eq_true, beq_iff_eq] at h
    exact DeclUnit.skip t (by rcases h with (h | h) | h <;> simp [h])
  | t :: b :: bs, h =>
    simp only [declUnitB] at h
    split at h
    · next hat =>
      obtain ⟨g, e, stk', hb, hq, hn, hp, he⟩ := stmtShapeB_sound t (b :: bs) h
      rw [hb]
      exact DeclUnit.atrule t g e stk' (by simpa using hat) hq hn hp he
    · next hat =>
      simp only [Bool.and_eq_true, bne_iff_ne, ne_eq, Bool.not_eq_true', Bool.and_eq_false_imp,
        beq_iff_eq] at h
      obtain ⟨⟨⟨⟨h1, h2⟩, h3⟩, h5⟩, hm⟩ := h
      split at hm
      · simp at hm
      · next g semi hu =>
        simp only [Bool.and_eq_true, beq_iff_eq] at hm
        obtain ⟨⟨⟨hq, hn⟩, hs1⟩, hs2⟩ := hm
        rw [unsnoc_eq _ _ _ hu]
        refine DeclUnit.decl t g semi h1 h2 h3 (by simpa using hat) ?_ hq hn hs1 hs2
        intro ⟨hc, hv⟩
        have := h5 hc
        simp [hv] at this

theorem stmtSeq_of_units (us : List (List Tok)) (h : us.all stmtUnitB = true) : StmtSeq us.flatten := by
  induction us with
  | nil => exact StmtSeq.nil
  | cons u us ih =>
    simp only [List.all_cons, Bool.and_eq_true] at h
    rw [List.flatten_cons]
    exact StmtSeq.cons u _ (stmtUnitB_sound u h.1) (ih h.2)

theorem mediaSeq_of_units (us : List (List Tok)) (h : us.all mediaUnitB = true) : MediaSeq us.flatten := by
  induction us with
  | nil => exact MediaSeq.nil
  | cons u us ih =>
    simp only [List.all_cons, Bool.and_eq_true] at h
    rw [List.flatten_cons]
    exact MediaSeq.cons u _ (mediaUnitB_sound u h.1) (ih h.2)

theorem declSeq_of_units (us : List (List Tok)) (h : us.all declUnitB = true) : DeclSeq us.flatten := by
  induction us with
  | nil => exact DeclSeq.nil
  | cons u us ih =>
    simp only [List.all_cons, Bool.and_eq_true] at h
    rw [List.flatten_cons]
    exact DeclSeq.cons u _ (declUnitB_sound u h.1) (ih h.2)

theorem selShapeB_sound (t : Tok) (sel' : List Tok) (h : selShapeB (t :: sel') = true) :
    SelShape (t :: sel') ∧ Quiet .default [] (t :: sel') = true := by
  simp only [selShapeB, Bool.and_eq_true, bne_iff_ne, ne_eq, beq_iff_eq] at h
  obtain ⟨⟨⟨⟨h1, h2⟩, h3⟩, h4⟩, h5⟩ := h
  exact ⟨⟨by simp, fun t' ht' => by simp at ht'; subst ht'; exact h1, h2, h3, h4⟩, h5⟩

theorem mqShapeB_sound (mq : List Tok) (h : mqShapeB mq = true) : MqShape mq := by
  simp only [mqShapeB, Bool.and_eq_true, beq_iff_eq] at h
  obtain ⟨⟨⟨⟨h1, h2⟩, h3⟩, h4⟩, h5⟩ := h
  exact ⟨h1, h2, h3, h4, h5⟩

/-- the prediction for the content of an `@media` block is what the block parser yields -/
theorem Open.predict_sound (O : Oracle) (ns : List (Cps × Cps)) (eof : Tok) (he : eof.typ = .eof) (o : Open)
    (h : o.ok = true) : mediaRules O ns (o.toks ++ [eof]) = o.predict O ns eof := by
  induction o with
  | junk j => rfl
  | style t sel' lb decls j =>
    simp only [Open.ok, Bool.and_eq_true, beq_iff_eq] at h
    obtain ⟨⟨⟨⟨⟨⟨ht, hsel⟩, hl⟩, hlt⟩, hd⟩, hx⟩, hxe⟩ := h
    obtain ⟨hs, hq⟩ := selShapeB_sound t sel' hsel
    obtain ⟨stk, hx⟩ := Option.isSome_iff_exists.mp hx
    have e : (Open.style t sel' lb decls j).toks ++ [eof] =
        t :: (sel' ++ lb :: ((decls.flatten ++ j) ++ [eof])) := by simp [Open.toks]
    rw [e, mediaRules_open_style O ns t sel' lb (decls.flatten ++ j) eof stk ht hs hq hl (by simp [hlt]) hx hxe he,
      List.append_assoc, parseDecls_append O decls.flatten (j ++ [eof]) (declSeq_of_units decls hd)]
    rfl
  | media at_ mq lb done inner ih =>
    simp only [Open.ok, Bool.and_eq_true, beq_iff_eq] at h
    obtain ⟨⟨⟨⟨⟨⟨⟨⟨hat, hv⟩, hmq⟩, hl⟩, hlt⟩, hd⟩, hx⟩, hxe⟩, hin⟩ := h
    obtain ⟨stk, hx⟩ := Option.isSome_iff_exists.mp hx
    have e : (Open.media at_ mq lb done inner).toks ++ [eof] =
        at_ :: (mq ++ lb :: ((done.flatten ++ inner.toks) ++ [eof])) := by simp [Open.toks]
    rw [e, mediaRules_open_media O ns at_ mq lb (done.flatten ++ inner.toks) eof stk hat hv
        (mqShapeB_sound mq hmq) hl hlt hx hxe he,
      List.append_assoc, mediaRules_append O ns done.flatten _ (mediaSeq_of_units done hd), ih hin]
    rfl

/-- **a checked certificate predicts the rule list of the truncated sheet** -/
theorem Cut.predict_sound (O : Oracle) (M : List Cps) (c : Cut) (h : c.ok = true) :
    (sheetLoop O M {} c.toks).rules = c.predict O M := by
  obtain ⟨s₁, o, eof⟩ := c
  simp only [Cut.ok, Bool.and_eq_true, beq_iff_eq] at h
  obtain ⟨⟨⟨hs₁, he⟩, ho⟩, htop⟩ := h
  simp only [Cut.toks, Cut.predict]
  rw [sheetLoop_append O M _ _ (stmtSeq_of_units s₁ hs₁)]
  cases o with
  | junk j => rfl
  | style t sel' lb decls j =>
    simp only [Open.ok, Bool.and_eq_true, beq_iff_eq] at ho
    obtain ⟨⟨⟨⟨⟨⟨_, hsel⟩, hl⟩, hlt⟩, hd⟩, hx⟩, hxe⟩ := ho
    obtain ⟨hs, hq⟩ := selShapeB_sound t sel' hsel
    obtain ⟨stk, hx⟩ := Option.isSome_iff_exists.mp hx
    have e : (Open.style t sel' lb decls j).toks ++ [eof] =
        t :: sel' ++ lb :: (decls.flatten ++ j) ++ [eof] := by simp [Open.toks]
    rw [e, sheetLoop_truncated_style O M _ t sel' (decls.flatten ++ j) lb eof stk htop hs hq hl (by simp [hlt])
        hx hxe he,
      List.append_assoc, parseDecls_append O decls.flatten (j ++ [eof]) (declSeq_of_units decls hd)]
    rfl
  | media at_ mq lb done inner =>
    have hin := ho
    simp only [Open.ok, Bool.and_eq_true, beq_iff_eq] at ho
    obtain ⟨⟨⟨⟨⟨⟨⟨⟨hat, hv⟩, hmq⟩, hl⟩, hlt⟩, hd⟩, hx⟩, hxe⟩, hinner⟩ := ho
    obtain ⟨stk, hx⟩ := Option.isSome_iff_exists.mp hx
    have e : (Open.media at_ mq lb done inner).toks ++ [eof] =
        at_ :: (mq ++ lb :: ((done.flatten ++ inner.toks) ++ [eof])) := by simp [Open.toks]
    rw [e, sheetLoop_open_media O M _ at_ mq lb (done.flatten ++ inner.toks) eof stk hat hv
        (mqShapeB_sound mq hmq) hl hlt hx hxe he,
      List.append_assoc, mediaRules_append O _ done.flatten _ (mediaSeq_of_units done hd),
      Open.predict_sound O _ eof he inner hinner]
    rfl

/-! ## the certificate search is faithful: it always returns a division of exactly the given token list -/

theorem upto_append (m : Mode) (st : Option Tok) (ts : List Tok) :
    (upto m st ts).1 ++ (upto m st ts).2 = (match st with | some s => s :: ts | none => ts) := by
  unfold upto
  cases st with
  | none => simp [uptoLoop_append]
  | some s => simp [uptoLoop_append]

theorem takeUnits_flatten (unitB : List Tok → Bool) (cand : Tok → List Tok → List Tok × List Tok)
    (hc : ∀ t rest, (cand t rest).1 ++ (cand t rest).2 = t :: rest) (f : Nat) (ts : List Tok) :
    (takeUnits unitB cand f ts).1.flatten ++ (takeUnits unitB cand f ts).2 = ts := by
  induction f generalizing ts with
  | zero => simp [takeUnits]
  | succ n ih =>
    cases ts with
    | nil => simp [takeUnits]
    | cons t rest =>
      simp only [takeUnits]
      split
      · simp only [List.flatten_cons, List.append_assoc]
        rw [ih (cand t rest).2, hc t rest]
      · simp

theorem candStmt_append (t : Tok) (rest : List Tok) : (candStmt t rest).1 ++ (candStmt t rest).2 = t :: rest := by
  unfold candStmt
  split
  · simp
  · exact upto_append .default (some t) rest

theorem candMedia_append (t : Tok) (rest : List Tok) :
    (candMedia t rest).1 ++ (candMedia t rest).2 = t :: rest := by
  unfold candMedia
  split
  · simp
  · exact upto_append .default (some t) rest

theorem candDecl_append (t : Tok) (rest : List Tok) : (candDecl t rest).1 ++ (candDecl t rest).2 = t :: rest := by
  unfold candDecl
  split
  · simp
  · split
    · exact upto_append .default (some t) rest
    · exact upto_append .semicolon (some t) rest

theorem findOpen_toks (f : Nat) (rem : List Tok) : (findOpen f rem).toks = rem := by
  induction f generalizing rem with
  | zero => simp [findOpen, Open.toks]
  | succ n ih =>
    cases rem with
    | nil => simp [findOpen, Open.toks]
    | cons t rest =>
      simp only [findOpen]
      split
      · -- @media
        split
        · simp [Open.toks]
        · next mq lb hu =>
          split
          · simp only [Open.toks, ih]
            rw [takeUnits_flatten mediaUnitB candMedia candMedia_append]
            have h1 := unsnoc_eq _ _ _ hu
            have h2 := upto_append .mq none rest
            simp only at h2
            rw [h1] at h2
            simp at h2
            simp [h2]
          · simp [Open.toks]
      · split
        · next t' sel' lb hu =>
          split
          · simp only [Open.toks]
            rw [takeUnits_flatten declUnitB candDecl candDecl_append]
            have h1 := unsnoc_eq _ _ _ hu
            have h2 := upto_append .blockstart none (t :: rest)
            simp only at h2
            rw [h1] at h2
            simp only [List.cons_append, List.append_assoc, List.singleton_append, List.cons.injEq] at h2
            simpa using h2.2
          · simp [Open.toks]
        · simp [Open.toks]

/-- **the search is faithful**: for every non-empty token list `findCut` returns a certificate that divides
exactly this list (so the driver's comparison `c.toks = ts` can never fail; only `Cut.ok` decides) -/
theorem findCut_toks (ts : List Tok) (h : ts ≠ []) : ∃ c, findCut ts = some c ∧ c.toks = ts := by
  unfold findCut
  cases hu : unsnoc ts with
  | none =>
    exfalso
    unfold unsnoc at hu
    have : ts.getLast? ≠ none := by simpa using h
    split at hu
    · simp at hu
    · next hn => exact this hn
  | some p =>
    obtain ⟨body, eof⟩ := p
    refine ⟨_, rfl, ?_⟩
    simp only [Cut.toks, findOpen_toks]
    rw [← List.append_assoc, takeUnits_flatten stmtUnitB candStmt candStmt_append]
    exact (unsnoc_eq _ _ _ hu).symm

end CssVerif.Struct
