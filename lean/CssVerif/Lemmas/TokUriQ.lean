import CssVerif.Lemmas.TokStrItems
/-!
# URI class, quoted form: `url(` white space? string white space? `)`
-/
namespace CssVerif.Tok
open CssVerif CssVerif.Gen.C05

theorem uriStr_eq : uriStr = reSTRING := by decide

theorem wsStar_first_run (w next : Cps) (hw : ∀ x ∈ w, isWsC x = true)
    (hn : HeadIn (fun x => isWsC x = false) next) : wsStar.first (w ++ next) = some w.length := by
  show (Re.starMs (Re.cls false wsRanges).ms true ((w ++ next).length + 1) (w ++ next)).head? = _
  rw [starMs_run (Re.cls false wsRanges).ms isWsC
    (by intro x t hx; have : Re.inCls false wsRanges x = true := hx; simp [Re.ms, this]) next
    (cls_ms_nil_of_head wsRanges next hn) w _ hw (by simp; omega)]
  exact head_countdown _

theorem uriTail_first_quoted (w1 w2 : Cps) (q : Nat) (hq : q = 34 ∨ q = 39) (its : List SItem)
    (hw1 : ∀ x ∈ w1, isWsC x = true) (hw2 : ∀ x ∈ w2, isWsC x = true) (h : ∀ i ∈ its, i.WF q) (rest : Cps) :
    uriTail.first (w1 ++ (q :: (flat its ++ q :: (w2 ++ 41 :: rest)))) =
      some (w1.length + (((flat its).length + 2) + (w2.length + 1))) := by
  have hqws : isWsC q = false := by rcases hq with rfl | rfl <;> decide
  unfold uriTail
  apply first_seq_some (wsStar_first_run w1 _ hw1 (headIn_cons hqws))
  rw [drop_length_append]
  apply first_seq_some (l1 := (flat its).length + 2)
  · rw [first_alt, uriStr_eq, string_first_items q hq its h]; rfl
  · have hd : (q :: (flat its ++ q :: (w2 ++ 41 :: rest))).drop ((flat its).length + 2) = w2 ++ 41 :: rest := by
      have := drop_length_append (q :: flat its ++ [q]) (w2 ++ 41 :: rest)
      simpa [List.append_assoc] using this
    rw [hd]
    apply first_seq_some (wsStar_first_run w2 _ hw2 (headIn_cons (by decide)))
    rw [drop_length_append, first_cls_cons]; rfl

/-- **URI class, quoted**: `url(` in any letter case, optional white space, a string (any items), optional white
space, `)`, is scanned as one URI token, whatever follows -/
theorem scan_uri_quoted (doC : Bool) (u r l : Nat) (hu : IsU u) (hr : IsR r) (hl : IsL l) (w1 w2 : Cps) (q : Nat)
    (hq : q = 34 ∨ q = 39) (its : List SItem) (hw1 : ∀ x ∈ w1, isWsC x = true) (hw2 : ∀ x ∈ w2, isWsC x = true)
    (h : ∀ i ∈ its, i.WF q) (rest : Cps) :
    scan false doC (u :: r :: l :: 40 :: (w1 ++ (q :: (flat its ++ q :: (w2 ++ 41 :: rest))))) productions =
      .hit "URI" (4 + (w1.length + (((flat its).length + 2) + (w2.length + 1)))) := by
  have hp : productions = ("S", reS) :: ("URI", reURI) :: productions.drop 2 := by decide
  have hS : reS.first (u :: r :: l :: 40 :: (w1 ++ (q :: (flat its ++ q :: (w2 ++ 41 :: rest))))) = none := by
    rcases hu with rfl | rfl
    · exact first_none_of_noStart (cs := [(85, 85)]) (by decide) (by decide) _
    · exact first_none_of_noStart (cs := [(117, 117)]) (by decide) (by decide) _
  rw [hp, scan_false_none hS]
  apply scan_false_hit
  · rw [reURI_eq, first_seq_of_ms_one (uriU_ms u hu _), first_seq_of_ms_one (uriR_ms r hr _),
      first_seq_of_ms_one (uriL_ms l hl _), first_seq_cls_cons,
      uriTail_first_quoted w1 w2 q hq its hw1 hw2 h rest]
    simp [Re.inCls]
    omega
  · simp [identContinue]

end CssVerif.Tok
