import CssVerif.Lemmas.TokFull
import CssVerif.Lemmas.TokLex2Sep
/-!
# Lexeme separation in full-sheet mode: no completion happens on a rendered lexeme list, so the tokens are those of
partial-sheet mode followed by the end marker.
-/
namespace CssVerif.Tok
open CssVerif CssVerif.Gen.C05

theorem expectedAll_mem : ∀ (ts : List Lex2) (p : String × Cps), p ∈ expectedAll ts →
    p = ("S", [32]) ∨ ∃ t ∈ ts, p = (t.typ, t.value) := by
  intro ts
  induction ts with
  | nil => intro p h; simp [expectedAll] at h
  | cons t ts ih =>
    intro p h
    cases ts with
    | nil =>
      simp only [expectedAll, List.mem_singleton] at h
      exact Or.inr ⟨t, by simp, h⟩
    | cons u us =>
      simp only [expectedAll, List.mem_cons] at h
      rcases h with h | h | h
      · exact Or.inr ⟨t, by simp, h⟩
      · exact Or.inl h
      · rcases ih p (by simpa using h) with h' | ⟨t', ht', h'⟩
        · exact Or.inl h'
        · exact Or.inr ⟨t', List.mem_cons_of_mem _ ht', h'⟩

theorem atType_mem (w : Cps) : atType w ∈ "ATKEYWORD" :: atkeywords.map (·.2) := by
  unfold atType
  cases h : atkeywords.lookup (pyLower w) with
  | none => simp
  | some sym =>
    have hm := lookup_mem _ _ _ h
    simp only [List.mem_cons, List.mem_map]
    right; exact ⟨_, hm, rfl⟩

/-- the types of well-formed `Lex` lexemes: never INVALID or FUNCTION; CHAR only for the single-character tokens -/
theorem lex_typ_facts (t : Lex) (h : t.WF) :
    t.typ ≠ "INVALID" ∧ t.typ ≠ "FUNCTION" ∧ (t.typ = "CHAR" → ∃ c, t = .fast c) := by
  have hat : ∀ s ∈ "ATKEYWORD" :: atkeywords.map (·.2), s ≠ "INVALID" ∧ s ≠ "FUNCTION" ∧ s ≠ "CHAR" := by decide
  have hfx : ∀ e ∈ fixedLexemes, e.1 ≠ "INVALID" ∧ e.1 ≠ "FUNCTION" ∧ e.1 ≠ "CHAR" := by decide
  cases t with
  | num d ds => simp only [Lex.typ]; exact ⟨by decide, by decide, fun e => absurd e (by decide)⟩
  | ident c cs => simp only [Lex.typ]; exact ⟨by decide, by decide, fun e => absurd e (by decide)⟩
  | fixed name w k =>
    have hmem : (name, w, k) ∈ fixedLexemes := h
    obtain ⟨h1, h2, h3⟩ := hfx _ hmem
    exact ⟨h1, h2, fun e => absurd e h3⟩
  | fast c => exact ⟨by simp only [Lex.typ]; decide, by simp only [Lex.typ]; decide, fun _ => ⟨c, rfl⟩⟩
  | pct d ds => simp only [Lex.typ]; exact ⟨by decide, by decide, fun e => absurd e (by decide)⟩
  | dim d ds c cs => simp only [Lex.typ]; exact ⟨by decide, by decide, fun e => absurd e (by decide)⟩
  | hash n ns => simp only [Lex.typ]; exact ⟨by decide, by decide, fun e => absurd e (by decide)⟩
  | atkw c cs =>
    obtain ⟨h1, h2, h3⟩ := hat _ (atType_mem (64 :: c :: cs))
    exact ⟨h1, h2, fun e => absurd e h3⟩

theorem lex2_typ_facts (t : Lex2) (h : t.WF) :
    t.typ ≠ "INVALID" ∧ (t.typ = "FUNCTION" → ∃ c cs, t = .fn c cs) ∧
    (t.typ = "CHAR" → ∃ c, t = .old (.fast c)) := by
  cases t with
  | old t =>
    obtain ⟨h1, h2, h3⟩ := lex_typ_facts t h
    exact ⟨h1, fun e => absurd e h2, fun e => by obtain ⟨c, rfl⟩ := h3 e; exact ⟨c, rfl⟩⟩
  | str q body => simp only [Lex2.typ]; exact ⟨by decide, fun e => absurd e (by decide), fun e => absurd e (by decide)⟩
  | fn c cs => exact ⟨by simp only [Lex2.typ]; decide, fun _ => ⟨c, cs, rfl⟩, fun e => absurd e (by simp only [Lex2.typ]; decide)⟩
  | uri u r l body => simp only [Lex2.typ]; exact ⟨by decide, fun e => absurd e (by decide), fun e => absurd e (by decide)⟩
  | urange u h0 hs0 => simp only [Lex2.typ]; exact ⟨by decide, fun e => absurd e (by decide), fun e => absurd e (by decide)⟩
  | cmt body => simp only [Lex2.typ]; exact ⟨by decide, fun e => absurd e (by decide), fun e => absurd e (by decide)⟩
  | cdc => simp only [Lex2.typ]; exact ⟨by decide, fun e => absurd e (by decide), fun e => absurd e (by decide)⟩
  | strI q its => simp only [Lex2.typ]; exact ⟨by decide, fun e => absurd e (by decide), fun e => absurd e (by decide)⟩
  | identD n c cs => simp only [Lex2.typ]; exact ⟨by decide, fun e => absurd e (by decide), fun e => absurd e (by decide)⟩
  | urangeI u h0 hs0 h2 hs2 =>
    simp only [Lex2.typ]; exact ⟨by decide, fun e => absurd e (by decide), fun e => absurd e (by decide)⟩
  | pctG sg b => simp only [Lex2.typ]; exact ⟨by decide, fun e => absurd e (by decide), fun e => absurd e (by decide)⟩
  | dimG sg b c cs =>
    simp only [Lex2.typ]; exact ⟨by decide, fun e => absurd e (by decide), fun e => absurd e (by decide)⟩
  | numS sg d ds =>
    simp only [Lex2.typ]; exact ⟨by decide, fun e => absurd e (by decide), fun e => absurd e (by decide)⟩
  | numF sg ip d ds =>
    simp only [Lex2.typ]; exact ⟨by decide, fun e => absurd e (by decide), fun e => absurd e (by decide)⟩
  | identU u cs => simp only [Lex2.typ]; exact ⟨by decide, fun e => absurd e (by decide), fun e => absurd e (by decide)⟩
  | uriQ u r l w1 q its w2 =>
    simp only [Lex2.typ]; exact ⟨by decide, fun e => absurd e (by decide), fun e => absurd e (by decide)⟩

/-- code points of a plain function name with its parenthesis -/
def fnChars : List (Nat × Nat) := [(40, 40), (45, 45), (48, 57), (65, 90), (95, 95), (97, 122)]

theorem normalizeU_fn (s : Cps) (hs : ∀ x ∈ s, inR fnChars x = true) (hne : s ≠ []) :
    normalizeU s = some (pyLower s) := by
  have h92 : ∀ x ∈ s, x ≠ 92 := fun x hx => ne92_of_inR fnChars (by decide) x (hs x hx)
  have hemp : s.isEmpty = false := by cases s <;> simp_all
  simp only [normalizeU, subU_eq_unescape, unescape_id s h92, normalize, hemp, Bool.false_eq_true, if_false,
    subGo_id simpleescapesRe _ fnChars (by decide) s hs, Option.map_some]

/-- a plain function name that does not start with `u`/`U` does not normalise to `url(` -/
theorem fn_not_url (c : Nat) (cs : Cps) (hc : inR identStart c = true) (hcs : ∀ x ∈ cs, inR identRest x = true) :
    normalizeU (c :: cs ++ [40]) ≠ some urlFn := by
  have hall : ∀ x ∈ c :: cs ++ [40], inR fnChars x = true := by
    intro x hx
    simp only [List.cons_append, List.mem_cons, List.mem_append, List.mem_nil_iff, or_false] at hx
    rcases hx with rfl | hx | rfl
    · rw [inR_eq_inCls]; exact clsContains_sound false fnChars identStart _ (by decide) hc
    · rw [inR_eq_inCls]; exact clsContains_sound false fnChars identRest x (by decide) (hcs x hx)
    · decide
  rw [normalizeU_fn _ hall (by simp)]
  intro e
  simp only [Option.some.injEq] at e
  have hhead : (pyLower (c :: cs ++ [40])).head? = some 117 := by rw [e]; rfl
  simp only [inR, identStart, List.any_cons, List.any_nil, Bool.or_false, Bool.or_eq_true, Bool.and_eq_true,
    decide_eq_true_eq] at hc
  simp only [pyLower, List.cons_append, List.flatMap_cons, lowerCp] at hhead
  by_cases hup : 65 ≤ c ∧ c ≤ 90
  · simp only [hup, and_self, if_true, List.cons_append, List.nil_append, List.head?_cons, Option.some.injEq] at hhead
    omega
  · have h1 : ¬ c = 0x212A := by omega
    have h2 : ¬ c = 0x130 := by omega
    simp only [hup, h1, h2, if_false, List.cons_append, List.nil_append, List.head?_cons, Option.some.injEq] at hhead
    omega

/-- on a rendered list of well-formed lexemes full-sheet mode completes nothing -/
theorem loop_lexemes2_full (doC : Bool) (ts : List Lex2) (h : ∀ t ∈ ts, t.WF) (fuel line col : Nat)
    (hf : (render2 ts).length < fuel) :
    (loop true doC fuel (render2 ts) line col).items = (loop false doC fuel (render2 ts) line col).items := by
  rcases loop_full doC fuel (render2 ts) line col hf with h0 | ⟨pre, it, x, rest, _, h2, _, hc⟩
  · exact h0
  · exfalso
    obtain ⟨hmap, hprop⟩ := loop_lexemes2 doC ts h fuel line col hf
    have hx : x ∈ (loop false doC fuel (render2 ts) line col).items := by rw [h2]; simp
    have hpx : proj x ∈ expectedAll ts := by rw [← hmap]; exact List.mem_map_of_mem hx
    have hfx := (hprop x hx).2
    rcases expectedAll_mem ts _ hpx with hS | ⟨t, ht, hpt⟩
    · have hty : x.typ = "S" := congrArg Prod.fst hS
      cases hc with
      | string q r h1 h2 h3 h4 h5 => rw [hty] at h4; revert h4; decide
      | uri e l h1 h2 h3 h4 h5 h6 h7 => rw [hty] at h6; revert h6; decide
      | comment h1 h2 h3 h4 h5 h6 => rw [hty] at h5; revert h5; decide
    · have hty : x.typ = t.typ := congrArg Prod.fst hpt
      have hval : x.value = t.value := congrArg Prod.snd hpt
      obtain ⟨f1, f2, f3⟩ := lex2_typ_facts t (h t ht)
      cases hc with
      | string q r h1 h2 h3 h4 h5 => exact f1 (by rw [← hty]; exact h4)
      | uri e l h1 h2 h3 h4 h5 h6 h7 =>
        obtain ⟨c, cs, rfl⟩ := f2 (by rw [← hty]; exact h6)
        have hwf := h _ ht
        rw [hfx h6, hval] at h7
        exact fn_not_url c cs hwf.1 hwf.2.1 h7
      | comment h1 h2 h3 h4 h5 h6 =>
        obtain ⟨c, rfl⟩ := f3 (by rw [← hty]; exact h5)
        have hwf : fastChars.contains c = true := h _ ht
        rw [hval] at h6
        simp only [Lex2.value, Lex2.text, Lex.text, List.cons.injEq, and_true] at h6
        rw [h6] at hwf
        revert hwf; decide

/-- **lexeme separation in full-sheet mode**: the same tokens, then the end marker -/
theorem tokenize_lexemes2_full (doC : Bool) (ts : List Lex2) (h : ∀ t ∈ ts, t.WF)
    (hcs : hasAt (render2 ts) charsetStart = false) :
    (tokenize (render2 ts) true doC).tokens.map proj =
      (expectedAll ts).filter (fun p => doC || p.1 != "COMMENT") ++ [("EOF", [])] := by
  have hstart := render2_start ts h
  have hbom : bomRe.first (render2 ts) = none := by
    apply first_none_of_ms_nil
    exact ms_nil_of_headIn (cs := lexHeads) (by decide) (by decide) hstart
  have hab : afterBom (render2 ts) = render2 ts := by simp [afterBom, hbom]
  have hbi : bomItems (render2 ts) = [] := by simp [bomItems, hbom]
  have hac : afterCharset (render2 ts) = render2 ts := by simp [afterCharset, hcs]
  have hci : charsetItems (render2 ts) = [] := by simp [charsetItems, hcs]
  have hsc : startCol (render2 ts) = 1 := by simp [startCol, hcs]
  have hml : mainLoop (render2 ts) true doC = loop true doC ((render2 ts).length + 1) (render2 ts) 1 1 := by
    simp only [mainLoop, hab, hac, hsc]
  obtain ⟨l, c, hd⟩ := mainLoop_done (render2 ts) true doC
  obtain ⟨hmap, hemit⟩ := loop_lexemes2 doC ts h ((render2 ts).length + 1) 1 1 (Nat.lt_succ_self _)
  have hfull := loop_lexemes2_full doC ts h ((render2 ts).length + 1) 1 1 (Nat.lt_succ_self _)
  simp only [Res.tokens, tokenize, body, hbi, hab, hci, hd, eofItems, if_true, List.nil_append, List.filter_append,
    List.map_append]
  rw [hml, hfull, filter_emit_proj doC _ (fun it h => (hemit it h).1), hmap]
  rfl

end CssVerif.Tok
