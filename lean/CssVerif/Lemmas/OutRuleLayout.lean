import CssVerif.Lemmas.OutDeclLayout2
/-!
# T6.2 for rules and the sheet
-/
namespace CssVerif.Out
open CssVerif.Proto (Cps)

theorem stripWs_joinWith' (sep : Cps) (l : List Cps) :
    stripWs (joinWith sep l) = joinWith (stripWs sep) (l.map stripWs) := by
  induction l with
  | nil => rfl
  | cons x t ih =>
    cases t with
    | nil => simp [joinWith]
    | cons y t' =>
      simp only [joinWith, stripWs_append, List.map_cons] at *
      rw [ih]

theorem stripWs_rep {r : Prefs} (hr : WsPrefs r) (n : Nat) : stripWs (rep n r.indent) = [] :=
  stripWs_of_allWs (allWs_rep n hr.indent)

/-- the value of an item is not a nested object -/
def Item.plain : Item → Bool
  | .mk _ (.obj _) => false
  | _ => true

def Item.ty : Item → Cps
  | .mk t _ => t

/-- texts of nested rules, indented and followed by the line separator (`do_CSSMediaRule`, `:597-603`) -/
theorem stripWs_rulesout {r : Prefs} (hr : WsPrefs r) (lv : Nat) (texts : List Cps) :
    stripWs (texts.flatMap fun t => if !t.isEmpty then [indentblock r t (lv + 1), r.lineSeparator] else []).flatten
      = (texts.map stripWs).flatten := by
  induction texts with
  | nil => rfl
  | cons t rest ih =>
    simp only [List.flatMap_cons, List.flatten_append, stripWs_append, ih, List.map_cons, List.flatten_cons]
    congr 1
    split
    · simp [stripWs_append, stripWs_indentblock hr, stripWs_of_allWs hr.lineSeparator]
    · rename_i he
      have : t = [] := by simpa using he
      subst this; rfl

theorem stripWs_pagerules {r : Prefs} (hr : WsPrefs r) (texts : List Cps) :
    stripWs (texts.flatMap fun t => if !t.isEmpty then [t, r.lineSeparator] else []).flatten
      = (texts.map stripWs).flatten := by
  induction texts with
  | nil => rfl
  | cons t rest ih =>
    simp only [List.flatMap_cons, List.flatten_append, stripWs_append, ih, List.map_cons, List.flatten_cons]
    congr 1
    split
    · simp [stripWs_append, stripWs_of_allWs hr.lineSeparator]
    · rename_i he
      have : t = [] := by simpa using he
      subst this; rfl

theorem stripWs_sheetJoin {r : Prefs} (hr : WsPrefs r) (texts : List Cps) :
    stripWs (joinWith r.lineSeparator (texts.filter fun t => !t.isEmpty)) = (texts.map stripWs).flatten := by
  rw [stripWs_joinWith hr.lineSeparator]
  induction texts with
  | nil => rfl
  | cons t rest ih =>
    simp only [List.filter_cons]
    split
    · simp only [List.map_cons, List.flatten_cons, ih]
    · rename_i he
      have : t = [] := by simpa using he
      subst this; simpa [stripWs_nil] using ih

theorem seqCalls_rel {a b : List EItem} (r : All2 EItemRel a b) : All2 CallRel (seqCalls a) (seqCalls b) := by
  unfold seqCalls
  exact All2.map (R := EItemRel) (S := CallRel) (f := fun it => ({ v := it.2.aval, ty := it.1 } : Call))
    (g := fun it => ({ v := it.2.aval, ty := it.1 } : Call)) (fun x y h => avalCall_rel h _ _) r

theorem pageSelCallsFrom_rel {a b : List EItem} (r : All2 EItemRel a b) (named : Bool) :
    All2 CallRel (pageSelCallsFrom named a) (pageSelCallsFrom named b) := by
  induction r generalizing named with
  | nil => exact .nil
  | @cons x y l m h _ ih =>
    obtain ⟨tx, vx⟩ := x
    obtain ⟨ty, vy⟩ := y
    have e : tx = ty := h.1
    subst e
    simp only [pageSelCallsFrom]
    split
    · exact .cons (avalCall_rel h _ _) (ih _)
    · split
      · exact .cons (avalCall_rel h _ _) (ih _)
      · exact .cons (avalCall_rel h _ _) (ih _)

theorem pageSelCalls_rel {a b : List EItem} (r : All2 EItemRel a b) :
    All2 CallRel (pageSelCalls a) (pageSelCalls b) := pageSelCallsFrom_rel r false


theorem stripWs_value_append_runCalls {r : Prefs} (hr : WsPrefs r) (il im : Nat) (cs : List Call) (v : AVal)
    (ty : Cps) (f : Fl) :
    stripWs (value (append r il (runCalls r im cs) v ty f)) = lexC r cs ++ lexA r v ty f := by
  rw [stripWs_value, core_append hr, core_runCalls hr]; simp [core_nil, lexC, stripWs_nil]

theorem stripWs_123 : stripWs [123] = [123] := by decide
theorem stripWs_123_125 : stripWs [123, 125] = [123, 125] := by decide
theorem stripWs_44 : stripWs [44] = [44] := by decide
theorem stripWs_32 : stripWs [32] = [] := by decide
theorem stripWs_all : stripWs s_all = s_all := by decide
theorem stripWs_cons_123 (s : Cps) : stripWs (123 :: s) = 123 :: stripWs s := by simp [stripWs, isWs]
theorem stripWs_cons_125 (s : Cps) : stripWs (125 :: s) = 125 :: stripWs s := by simp [stripWs, isWs]

section
variable {p q : Prefs} (hp : WsPrefs p) (hq : WsPrefs q) (h : ContentEq p q)
include hp hq h

theorem importTail_layout (lv lw : Nat) (k : Cps) {cs ds : List Call} (r : All2 CallRel cs ds) :
    stripWs (importTail p lv k cs) = stripWs (importTail q lw k ds) := by
  unfold importTail
  rw [stripWs_value_runCalls hp, stripWs_value_runCalls hq]
  rw [lexC_congr h (All2.append (.cons (CallRel.same _) .nil) r)]

theorem blockRule_layout (lv lw : Nat) (k : Cps) {a b : List EItem} (r : All2 EItemRel a b) {body body' : Cps}
    (e : stripWs body = stripWs body') : stripWs (blockRule p lv k a body) = stripWs (blockRule q lw k b body') := by
  unfold blockRule
  apply calls_layout hp hq h
  refine All2.append (All2.append (.cons (CallRel.same _) .nil) (seqCalls_rel r))
    (.cons (CallRel.same _) (.cons ⟨rfl, AValRel.strs specialTy_None ?_⟩ .nil))
  simp only [stripWs_append, e, stripWs_of_allWs hp.lineSeparator, stripWs_of_allWs hq.lineSeparator]

theorem marginTail_layout (lv lw : Nat) (k : Cps) {st st' : Cps} (e : stripWs st = stripWs st') :
    stripWs (marginTail p lv k st) = stripWs (marginTail q lw k st') := by
  unfold marginTail
  apply calls_layout hp hq h
  refine .cons (CallRel.same _) (.cons (CallRel.same _) (.cons ⟨rfl, AValRel.strs specialTy_None ?_⟩
    (.cons (CallRel.same _) .nil)))
  simp only [stripWs_append, stripWs_indentblock hp, stripWs_indentblock hq, e,
    stripWs_of_allWs hp.lineSeparator, stripWs_of_allWs hq.lineSeparator]

theorem styleTail_layout (lv sl : Nat) {sel sel' st st' : Cps} (es : stripWs sel = stripWs sel')
    (et : stripWs st = stripWs st') (he : st.isEmpty = st'.isEmpty) :
    stripWs (styleTail p lv sl sel st) = stripWs (styleTail q lv sl sel' st') := by
  unfold styleTail
  rw [he, h.keepEmptyRules]
  split
  · split
    · simp only [stripWs_append, es, stripWs_of_allWs hp.paranthesisSpacer, stripWs_of_allWs hq.paranthesisSpacer]
    · rfl
  · simp only [stripWs_indentblock hp, stripWs_indentblock hq, stripWs_append, es, et,
      stripWs_of_allWs hp.paranthesisSpacer, stripWs_of_allWs hq.paranthesisSpacer,
      stripWs_of_allWs hp.lineSeparator, stripWs_of_allWs hq.lineSeparator, stripWs_rep hp, stripWs_rep hq]

theorem pageCalls_rel (k : Cps) {sel sel' st st' rt rt' : Cps} (es : stripWs sel = stripWs sel')
    (et : stripWs st = stripWs st') (er : stripWs rt = stripWs rt') (he : st.isEmpty = st'.isEmpty)
    (hr : rt.isEmpty = rt'.isEmpty) : All2 CallRel (pageCalls p k sel st rt) (pageCalls q k sel' st' rt') := by
  unfold pageCalls
  rw [he, hr]
  refine All2.append (All2.append (.cons (CallRel.same _) (.cons ⟨rfl, AValRel.strs specialTy_None es⟩
    (.cons (CallRel.same _) .nil))) ?_) ?_
  · split
    · split
      · refine .cons ⟨rfl, AValRel.strs specialTy_None ?_⟩ .nil
        simp only [stripWs_append, et, stripWs_of_allWs hp.lineSeparator, stripWs_of_allWs hq.lineSeparator]
      · exact .cons ⟨rfl, AValRel.strs specialTy_styletext et⟩ .nil
    · exact .nil
  · split
    · exact .cons ⟨rfl, AValRel.strs specialTy_None er⟩ .nil
    · exact .nil

theorem pageTail_layout (lv : Nat) (k : Cps) {a b : List EItem} (r : All2 EItemRel a b) {st st' rt rt' : Cps}
    (et : stripWs st = stripWs st') (er : stripWs rt = stripWs rt') (he : st.isEmpty = st'.isEmpty)
    (hr : rt.isEmpty = rt'.isEmpty) : stripWs (pageTail p lv k a st rt) = stripWs (pageTail q lv k b st' rt') := by
  unfold pageTail
  rw [stripWs_value_append_runCalls hp, stripWs_value_append_runCalls hq]
  have es := calls_layout hp hq h (il := lv + 1) (im := lv + 1) (pageSelCalls_rel r)
  rw [lexC_congr h (pageCalls_rel hp hq h k es et er he hr), lexA_congr h (AValRel.refl _ _)]

theorem mediaTail_layout (lv : Nat) (k : Cps) {mt mt' : Cps} (em : stripWs mt = stripWs mt') (name : Option Cps)
    {a b : List EItem} (r : All2 EItemRel a b) {texts texts' : List Cps}
    (et : texts.map stripWs = texts'.map stripWs) :
    stripWs (mediaTail p lv k mt name a texts) = stripWs (mediaTail q lv k mt' name b texts') := by
  unfold mediaTail
  have ero : stripWs (mediaRulesOut p lv texts).flatten = stripWs (mediaRulesOut q lv texts').flatten := by
    unfold mediaRulesOut
    rw [stripWs_rulesout hp, stripWs_rulesout hq, et]
  have eaw : allWs (mediaRulesOut p lv texts).flatten = allWs (mediaRulesOut q lv texts').flatten := by
    cases ha : allWs (mediaRulesOut p lv texts).flatten
    · cases hb : allWs (mediaRulesOut q lv texts').flatten
      · rfl
      · have := (allWs_iff_stripWs _).mp hb
        rw [← ero] at this
        rw [(allWs_iff_stripWs _).mpr this] at ha
        exact absurd ha (by decide)
    · have := (allWs_iff_stripWs _).mp ha
      rw [ero] at this
      exact ((allWs_iff_stripWs _).mpr this).symm
  have esp : ∀ r : Prefs, WsPrefs r → stripWs (if r.spacer.isEmpty then [32] else r.spacer) = [] := by
    intro r hr
    split
    · exact stripWs_32
    · exact stripWs_of_allWs hr.spacer
  have esp' : ∀ r : Prefs, WsPrefs r → stripWs (if r.spacer = [] then [32] else r.spacer) = [] := by
    intro r hr
    split
    · exact stripWs_32
    · exact stripWs_of_allWs hr.spacer
  simp only [h.keepEmptyRules, eaw]
  split
  · rfl
  · simp only [List.flatten_append, stripWs_append, ero]
    congr 1
    · congr 1
      cases name with
      | none =>
        simp [stripWs_append, esp p hp, esp q hq, esp' p hp, esp' q hq, stripWs_cons_123, stripWs_123, em, stripWs_of_allWs hp.paranthesisSpacer,
          stripWs_of_allWs hq.paranthesisSpacer, stripWs_of_allWs hp.lineSeparator, stripWs_of_allWs hq.lineSeparator]
      | some n =>
        have en := calls_layout hp hq h (il := lv + 1) (im := lv + 1)
          (All2.append (.cons (CallRel.same ({ v := .str (pyString n), ty := t_None } : Call)) .nil) (seqCalls_rel r))
        simp only [List.singleton_append] at en
        by_cases hn : n.isEmpty = true
        · simp [hn, stripWs_append, esp p hp, esp q hq, esp' p hp, esp' q hq, stripWs_cons_123, stripWs_123, em, stripWs_of_allWs hp.paranthesisSpacer,
            stripWs_of_allWs hq.paranthesisSpacer, stripWs_of_allWs hp.lineSeparator, stripWs_of_allWs hq.lineSeparator]
        · simp only [hn, Bool.false_eq_true, if_false, List.flatten_append, stripWs_append, List.flatten_cons,
            List.flatten_nil, List.append_nil]
          simp [stripWs_append, esp p hp, esp q hq, esp' p hp, esp' q hq, stripWs_cons_123, stripWs_123, em, stripWs_of_allWs hp.paranthesisSpacer, en,
            stripWs_of_allWs hq.paranthesisSpacer, stripWs_of_allWs hp.lineSeparator, stripWs_of_allWs hq.lineSeparator,
            stripWs_of_allWs hp.spacer, stripWs_of_allWs hq.spacer]
    · simp [stripWs_append, stripWs_rep hp, stripWs_rep hq, stripWs_cons_125]

end

end CssVerif.Out
