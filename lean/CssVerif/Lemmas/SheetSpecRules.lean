import CssVerif.Lemmas.SheetSpecPage
/-!
# Lemmas for C02: rules (nested), what the parser builds from them, their projection
-/
namespace CssVerif.SheetSpec
open CssVerif.Proto (Cps)
open CssVerif.Struct CssVerif.AtRules
set_option linter.unusedSimpArgs false
set_option linter.unusedVariables false

/-- an unknown at-rule, as the abstract sheet holds it: a complete statement that starts with an at-keyword
which is neither a margin box nor (by its normalised value) one of the at-rules `@media` knows, and which
`CSSUnknownRule` accepts -/
structure UnknownRuleOk (M : List Cps) (toks : List Tok) : Prop where
  shape : ∃ t rest, toks = t :: rest ∧ t.typ = .atkeyword ∧ isMargin M t = false ∧ StmtShape t rest ∧
    mediaForbidden.contains (normalize t.val) = false ∧ normalize t.val ≠ atPage ∧ normalize t.val ≠ atMedia
  bal : nest [] toks = some []
  noeof : noEof toks = true
  ok : unknownOk toks = true

/-- the at-rule part of the oracle is what `Model/AtRules.lean` says (`withAtRules` builds such an oracle) -/
structure AtFaithful (O : Oracle) : Prop where
  page : ∀ im ts, O.atOk .pageSym im ts = true
  fontface : ∀ im ts, O.atOk .fontFaceSym im ts = true
  variables : ∀ im ts, O.atOk .variablesSym im ts = true
  import_ : ∀ ts, O.atOk .importSym false ts = (importRule O ts).isSome
  ns : ∀ ts, O.nsInfo ts = nsRule ts

mutual
/-- the rule the parser builds from a spelled rule, in the namespace context `ns` -/
def SRule.parsed (O : Oracle) (ns : List (Cps × Cps)) : SRule → Rule
  | .comment b => .comment (commentTok b)
  | .style sel blk => .style ns sel.toks (parseDecls O blk.toks)
  | .unknown t => .unknown t
  | .media _ g1 mq g2 name _ rules => .media (some (mediaHead g1 mq g2, nameTok? name)) (rules.parsed O ns)
  | .fontface kw g1 blk => .at_ .fontface (SRule.fontface kw g1 blk).toks
  | .page kw g0 sel g1 blk => .at_ .page (SRule.page kw g0 sel g1 blk).toks
def SRules.parsed (O : Oracle) (ns : List (Cps × Cps)) : SRules → List Rule
  | .nil => []
  | .cons r _ rest => r.parsed O ns :: rest.parsed O ns
end

mutual
/-- what a spelled rule must satisfy (`im`: inside `@media`) -/
def SRule.WF (O : Oracle) (M : List Cps) (ns : List (Cps × Cps)) (im : Bool) : SRule → Prop
  | .comment _ => True
  | .style sel blk => StyleWF O ns sel blk
  | .unknown t => UnknownRuleOk M t
  | .media _ g1 mq g2 name _ rules =>
    MqOk mq ∧ O.mediaOk (mediaHead g1 mq g2) = true ∧ rules.WF O M ns true ∧ NameWF name
  | .fontface _ _ blk => im = false ∧ blk.WF O
  | .page _ _ sel _ blk => PageWF O M sel blk
def SRules.WF (O : Oracle) (M : List Cps) (ns : List (Cps × Cps)) (im : Bool) : SRules → Prop
  | .nil => True
  | .cons r _ rest => r.WF O M ns im ∧ rest.WF O M ns im
end

theorem SRules.toks_cons (r : SRule) (w : WGap) (rest : SRules) :
    (SRules.cons r w rest).toks = r.toks ++ (WGap.toks w ++ rest.toks) := by
  simp [SRules.toks]

theorem SRules.parsed_cons (O : Oracle) (ns : List (Cps × Cps)) (r : SRule) (w : WGap) (rest : SRules) :
    (SRules.cons r w rest).parsed O ns = r.parsed O ns :: rest.parsed O ns := by
  simp [SRules.parsed]

/-! ## rules are balanced -/

theorem atTok_default_flat (typ : TT) (kw : Mask) (name : String) (h1 : typ ≠ .eof) (h2 : typ ≠ .function)
    (h3 : typ ≠ .string) : Flat .default (atTok typ kw name) := atTok_flat .default typ kw name h1 h2 h3

theorem wgap_bal (w : WGap) : nest [] (WGap.toks w) = some [] ∧ noEof (WGap.toks w) = true :=
  ⟨((gapL_wtoks w).qb .default).2, ((gapL_wtoks w).qb .default).noEof⟩

mutual
theorem SRule.bal (O : Oracle) (M : List Cps) (ns : List (Cps × Cps)) (im : Bool) :
    ∀ (r : SRule), r.WF O M ns im → nest [] r.toks = some [] ∧ noEof r.toks = true
  | .comment b, _ => by
    have hb : (commentTok b).br = .no := (gapTok_flat .default (.cm b)).2.1
    exact ⟨nest_flat [] _ (by simpa [SRule.toks] using hb), by simp [SRule.toks, noEof, commentTok]⟩
  | .style sel blk, h => by
    have h : StyleWF O ns sel blk := h
    obtain ⟨b1, b2⟩ := SBlock.bal O blk h.blkWF
    obtain ⟨q, _⟩ := SSel.qb sel h.selWF
    simp only [SRule.toks]
    exact ⟨bal_append q.2 (bal_braces b1), by rw [noEof_append, q.noEof, noEof_braces b2]; rfl⟩
  | .unknown t, h => by
    have h : UnknownRuleOk M t := h
    exact ⟨h.bal, h.noeof⟩
  | .media kw g1 mq g2 name lead rules, h => by
    have h : MqOk mq ∧ O.mediaOk (mediaHead g1 mq g2) = true ∧ rules.WF O M ns true ∧ NameWF name := h
    obtain ⟨i1, i2⟩ := SRules.bal O M ns true rules h.2.2.1
    obtain ⟨w1, w2⟩ := wgap_bal lead
    obtain ⟨hq, _, _⟩ := mediaHead_facts g1 mq g2 h.1
    have := bal_blockStmt (atTok .mediaSym kw "media") (mediaHead g1 mq g2 ++ nameToks name) (WGap.toks lead ++ rules.toks)
      (atTok_default_flat _ _ _ (by decide) (by decide) (by decide)) (hq.append (nameToks_qb .default rfl name)) (bal_append w1 i1)
      (by rw [noEof_append, w2, i2]; rfl)
    simpa [SRule.toks, mediaHead] using this
  | .fontface kw g1 blk, h => by
    have h : im = false ∧ blk.WF O := h
    obtain ⟨b1, b2⟩ := SBlock.bal O blk h.2
    have := bal_blockStmt (atTok .fontFaceSym kw "font-face") (Gap.toks g1) blk.toks
      (atTok_default_flat _ _ _ (by decide) (by decide) (by decide)) ((gapL_toks g1).qb _) b1 b2
    simpa [SRule.toks] using this
  | .page kw g0 sel g1 blk, h => by
    have h : PageWF O M sel blk := h
    obtain ⟨b1, b2⟩ := SPageBlock.bal O M sel blk h
    have := bal_blockStmt (atTok .pageSym kw "page") (pageHead g0 sel g1) blk.toks
      (atTok_default_flat _ _ _ (by decide) (by decide) (by decide))
      (QB.flat (pageHead_flat g0 sel g1 h.selWF .default (Or.inl rfl))) b1 b2
    simpa [SRule.toks, pageHead] using this
theorem SRules.bal (O : Oracle) (M : List Cps) (ns : List (Cps × Cps)) (im : Bool) :
    ∀ (rs : SRules), rs.WF O M ns im → nest [] rs.toks = some [] ∧ noEof rs.toks = true
  | .nil, _ => ⟨rfl, rfl⟩
  | .cons r w rest, h => by
    have h : r.WF O M ns im ∧ rest.WF O M ns im := h
    obtain ⟨a1, a2⟩ := SRule.bal O M ns im r h.1
    obtain ⟨b1, b2⟩ := SRules.bal O M ns im rest h.2
    obtain ⟨w1, w2⟩ := wgap_bal w
    rw [SRules.toks_cons]
    exact ⟨bal_append a1 (bal_append w1 b1), by rw [noEof_append, noEof_append, a2, w2, b2]; rfl⟩
end

/-! ## the `@media` block -/

theorem stmtShape_style (O : Oracle) (ns : List (Cps × Cps)) (sel : SSel) (blk : SBlock)
    (h : StyleWF O ns sel blk) :
    ∃ t rest, (SRule.style sel blk).toks = t :: rest ∧ startsRuleset t = true ∧ StmtShape t rest := by
  obtain ⟨t, ts, ht, hstart, _⟩ := h.selWF.start
  obtain ⟨b1, b2⟩ := SBlock.bal O blk h.blkWF
  have hS := (SSel.qb sel h.selWF).1
  have hS' : sel.toks = t :: (ts ++ (Gap.toks sel.post ++ renderMore sel.more)) := by simp [SSel.toks, ht]
  rw [hS'] at hS
  obtain ⟨q, n⟩ := stmt_shape_block t _ blk.toks hS b1 b2
  refine ⟨t, (ts ++ (Gap.toks sel.post ++ renderMore sel.more)) ++ lbraceTok :: (blk.toks ++ [rbraceTok]), ?_,
    hstart, ?_⟩
  · simp [SRule.toks, hS']
  · have hne : t.typ ≠ .eof := by
      intro hh; unfold startsRuleset at hstart; simp [hh] at hstart
    exact ⟨(ts ++ (Gap.toks sel.post ++ renderMore sel.more)) ++ lbraceTok :: blk.toks, rbraceTok, [.brace],
      by simp, hne, q, n, rbrace_closes.1, rbrace_closes.2⟩

theorem mediaStmtEffect_ruleset (O : Oracle) (ns : List (Cps × Cps)) (nested : List Tok → Option Rule)
    (acc : List Rule) (t : Tok) (stmt : List Tok) (ht : startsRuleset t = true) :
    mediaStmtEffect O ns nested acc t stmt =
      match styleRule O ns stmt with
      | some (sel, items) => mediaInsert acc (.style ns sel items)
      | none => acc := by
  unfold startsRuleset at ht
  unfold mediaStmtEffect
  split <;> first | rfl | simp_all

theorem atMedia_facts (kw : Mask) :
    mediaForbidden.contains (normalize (atTok .mediaSym kw "media").val) = false ∧
    normalize (atTok .mediaSym kw "media").val ≠ atPage ∧ normalize (atTok .mediaSym kw "media").val = atMedia := by
  have : normalize (atTok .mediaSym kw "media").val = 0x40 :: CssVerif.Proto.cps "media" :=
    normalize_atVal _ kw nameOk_media
  rw [this]
  decide

mutual
/-- one rule inside `@media`: the block parser consumes exactly its tokens and appends the rule -/
theorem mediaLoop_rule (O : Oracle) (M : List Cps) (hO : AtFaithful O) (ns : List (Cps × Cps)) :
    ∀ (r : SRule), r.WF O M ns true → ∀ (f : Nat) (acc : List Rule) (x : List Tok), r.toks.length < f →
      parseLoop (mediaStep O ns (fun l => mediaRule O ns f l)) acc (r.toks ++ x) =
        parseLoop (mediaStep O ns (fun l => mediaRule O ns f l)) (acc ++ [r.parsed O ns]) x
  | .comment b, _, f, acc, x, _ => by
    simpa [SRule.toks, SRule.parsed] using mediaLoop_comment O ns _ b x acc
  | .style sel blk, h, f, acc, x, _ => by
    have h : StyleWF O ns sel blk := h
    obtain ⟨t, rest, e, hstart, hs⟩ := stmtShape_style O ns sel blk h
    have hstart' := hstart
    unfold startsRuleset at hstart'
    rw [e, mediaLoop_shape O ns _ acc t rest x hs (by intro hh; simp [hh] at hstart')
      (by intro hh; simp [hh] at hstart'), mediaStmtEffect_ruleset O ns _ acc t _ hstart, ← e,
      styleRule_render O ns sel blk h]
    simp [mediaInsert, SRule.parsed]
  | .unknown toks, h, f, acc, x, _ => by
    have h : UnknownRuleOk M toks := h
    obtain ⟨t, rest, rfl, ht, _, hs, hf, hp, hm⟩ := h.shape
    have hok := h.ok
    have hf' : normalize t.val ∉ mediaForbidden := by simpa using hf
    rw [show (SRule.unknown (t :: rest)).toks = t :: rest from by simp [SRule.toks],
      mediaLoop_shape O ns _ acc t rest x hs (by simp [ht]) (by simp [ht])]
    simp [mediaStmtEffect, ht, hf', hp, hm, hok, mediaInsert, SRule.parsed]
  | .media kw g1 mq g2 name lead rules, h, f, acc, x, hf => by
    have h : MqOk mq ∧ O.mediaOk (mediaHead g1 mq g2) = true ∧ rules.WF O M ns true ∧ NameWF name := h
    obtain ⟨i1, i2⟩ := SRules.bal O M ns true rules h.2.2.1
    obtain ⟨w1, w2⟩ := wgap_bal lead
    obtain ⟨hq, hnb, hns⟩ := mediaHead_facts g1 mq g2 h.1
    have hinner : nest [] (WGap.toks lead ++ rules.toks) = some [] := bal_append w1 i1
    have hinnerE : noEof (WGap.toks lead ++ rules.toks) = true := by rw [noEof_append, w2, i2]; rfl
    have e : (SRule.media kw g1 mq g2 name lead rules).toks =
        atTok .mediaSym kw "media" :: ((mediaHead g1 mq g2 ++ nameToks name) ++ lbraceTok :: ((WGap.toks lead ++ rules.toks) ++ [rbraceTok])) := by
      simp [SRule.toks, mediaHead]
    have hflat := atTok_default_flat .mediaSym kw "media" (by decide) (by decide) (by decide)
    have hs := stmtShape_block (atTok .mediaSym kw "media") (mediaHead g1 mq g2 ++ nameToks name) (WGap.toks lead ++ rules.toks)
      hflat (hq.append (nameToks_qb .default rfl name)) hinner hinnerE
    obtain ⟨m1, m2, m3⟩ := atMedia_facts kw
    cases f with
    | zero => omega
    | succ f' =>
      have hlen : rules.toks.length < f' := by
        rw [e] at hf
        simp only [List.length_cons, List.length_append] at hf
        omega
      have hbody := mediaLoop_rules O M hO ns rules h.2.2.1 f' [] [] hlen
      have hnested : mediaRule O ns (f' + 1) (SRule.media kw g1 mq g2 name lead rules).toks =
          some ((SRule.media kw g1 mq g2 name lead rules).parsed O ns) := by
        rw [e, mediaRule_eval' O ns f' _ _ _ name rfl hq hnb hns h.2.1 hinner hinnerE, mediaLoop_ws]
        simp only [List.append_nil, List.nil_append] at hbody
        rw [hbody, parseLoop_nil]
        simp [SRule.parsed]
      rw [e, mediaLoop_shape O ns _ acc _ _ x hs (by simp [atTok]) (by simp [atTok]), ← e]
      have : (atTok .mediaSym kw "media").typ = .mediaSym := rfl
      have d1 : atMedia ∉ mediaForbidden := by decide
      have d2 : atMedia ≠ atPage := by decide
      simp only [mediaStmtEffect, this, m1, m2, m3, hnested, mediaInsert]
      simp [d1, d2]
  | .fontface _ _ _, h, _, _, _, _ => by
    have h : true = false ∧ _ := h
    exact absurd h.1 (by decide)
  | .page kw g0 sel g1 blk, h, f, acc, x, _ => by
    have h : PageWF O M sel blk := h
    obtain ⟨b1, b2⟩ := SPageBlock.bal O M sel blk h
    have e : (SRule.page kw g0 sel g1 blk).toks =
        atTok .pageSym kw "page" :: (pageHead g0 sel g1 ++ lbraceTok :: (blk.toks ++ [rbraceTok])) := by
      simp [SRule.toks, pageHead]
    have hs := stmtShape_block (atTok .pageSym kw "page") (pageHead g0 sel g1) blk.toks
      (atTok_default_flat _ _ _ (by decide) (by decide) (by decide))
      (QB.flat (pageHead_flat g0 sel g1 h.selWF .default (Or.inl rfl))) b1 b2
    have hn : normalize (atTok .pageSym kw "page").val = atPage := normalize_atVal _ kw nameOk_page
    have d1 : atPage ∉ mediaForbidden := by decide
    have ht : (atTok .pageSym kw "page").typ = .pageSym := rfl
    rw [e, mediaLoop_shape O ns _ acc _ _ x hs (by simp [atTok]) (by simp [atTok]), ← e]
    simp only [mediaStmtEffect, ht, hn, hO.page, mediaInsert]
    simp [d1, SRule.parsed]
theorem mediaLoop_rules (O : Oracle) (M : List Cps) (hO : AtFaithful O) (ns : List (Cps × Cps)) :
    ∀ (rs : SRules), rs.WF O M ns true → ∀ (f : Nat) (acc : List Rule) (x : List Tok), rs.toks.length < f →
      parseLoop (mediaStep O ns (fun l => mediaRule O ns f l)) acc (rs.toks ++ x) =
        parseLoop (mediaStep O ns (fun l => mediaRule O ns f l)) (acc ++ rs.parsed O ns) x
  | .nil, _, f, acc, x, _ => by simp [SRules.toks, SRules.parsed]
  | .cons r w rest, h, f, acc, x, hf => by
    have h : r.WF O M ns true ∧ rest.WF O M ns true := h
    rw [SRules.toks_cons] at hf ⊢
    simp only [List.length_append] at hf
    rw [List.append_assoc, mediaLoop_rule O M hO ns r h.1 f acc _ (by omega), List.append_assoc, mediaLoop_ws,
      mediaLoop_rules O M hO ns rest h.2 f _ x (by omega), SRules.parsed_cons]
    simp
end

/-- `CSSMediaRule.cssText = tokens` on a rendered `@media` rule, with any amount of fuel above its length -/
theorem mediaRule_render (O : Oracle) (M : List Cps) (hO : AtFaithful O) (ns : List (Cps × Cps)) (kw : Mask) (g1 : Gap)
    (mq : List Tok) (g2 : Gap) (name : SName) (lead : WGap) (rules : SRules) (im : Bool)
    (h : (SRule.media kw g1 mq g2 name lead rules).WF O M ns im) (f : Nat)
    (hf : (SRule.media kw g1 mq g2 name lead rules).toks.length < f) :
    mediaRule O ns f (SRule.media kw g1 mq g2 name lead rules).toks =
      some ((SRule.media kw g1 mq g2 name lead rules).parsed O ns) := by
  have h : MqOk mq ∧ O.mediaOk (mediaHead g1 mq g2) = true ∧ rules.WF O M ns true ∧ NameWF name := h
  obtain ⟨i1, i2⟩ := SRules.bal O M ns true rules h.2.2.1
  obtain ⟨w1, w2⟩ := wgap_bal lead
  obtain ⟨hq, hnb, hns⟩ := mediaHead_facts g1 mq g2 h.1
  have hinner : nest [] (WGap.toks lead ++ rules.toks) = some [] := bal_append w1 i1
  have hinnerE : noEof (WGap.toks lead ++ rules.toks) = true := by rw [noEof_append, w2, i2]; rfl
  have e : (SRule.media kw g1 mq g2 name lead rules).toks =
      atTok .mediaSym kw "media" :: ((mediaHead g1 mq g2 ++ nameToks name) ++ lbraceTok :: ((WGap.toks lead ++ rules.toks) ++ [rbraceTok])) := by
    simp [SRule.toks, mediaHead]
  cases f with
  | zero => omega
  | succ f' =>
    have hlen : rules.toks.length < f' := by
      rw [e] at hf
      simp only [List.length_cons, List.length_append] at hf
      omega
    have hbody := mediaLoop_rules O M hO ns rules h.2.2.1 f' [] [] hlen
    rw [e, mediaRule_eval' O ns f' _ _ _ name rfl hq hnb hns h.2.1 hinner hinnerE, mediaLoop_ws]
    simp only [List.append_nil, List.nil_append] at hbody
    rw [hbody, parseLoop_nil]
    simp [SRule.parsed]

/-! ## the sheet dispatcher on the rules of the body -/

theorem sheetLoop_ws (O : Oracle) (M : List Cps) (w : WGap) (x : List Tok) (st : SheetSt) :
    ∃ st', sheetLoop O M st (WGap.toks w ++ x) = sheetLoop O M st' x ∧ st'.rules = st.rules ∧
      st'.nsmap = st.nsmap ∧ st.expected ≤ st'.expected ∧ st'.expected ≤ max 1 st.expected := by
  induction w generalizing st with
  | nil => exact ⟨st, rfl, rfl, rfl, Nat.le_refl _, by omega⟩
  | cons a w ih =>
    obtain ⟨st', h1, h2, h3, h4, h5⟩ := ih { st with expected := max 1 st.expected }
    refine ⟨st', ?_, h2, h3, by simp at h4; omega, by simp at h5; omega⟩
    rw [show WGap.toks (a :: w) ++ x = a.tok :: (WGap.toks w ++ x) from rfl, sheetLoop_cons]
    simpa [sheetStep, Ws.tok] using h1

theorem sheetLoop_commentTok (O : Oracle) (M : List Cps) (b : Cps) (x : List Tok) (st : SheetSt) :
    sheetLoop O M st (commentTok b :: x) =
      sheetLoop O M { sheetInsert st (.comment (commentTok b)) with expected := max 1 st.expected } x := by
  rw [sheetLoop_cons]
  simp [sheetStep, commentTok]

theorem sheetInsert_comment (st : SheetSt) (t : Tok) :
    sheetInsert st (.comment t) = { st with rules := st.rules ++ [.comment t] } := by
  simp [sheetInsert, Rule.kind]

theorem sheetInsert_unknown (st : SheetSt) (t : List Tok) :
    sheetInsert st (.unknown t) = { st with rules := st.rules ++ [.unknown t] } := by
  simp [sheetInsert, Rule.kind]

/-- the dispatcher on an unknown at-rule -/
theorem sheetLoop_unknown (O : Oracle) (M : List Cps) (toks x : List Tok) (st : SheetSt)
    (h : UnknownRuleOk M toks) :
    sheetLoop O M st (toks ++ x) =
      sheetLoop O M { st with rules := st.rules ++ [.unknown toks], expected := max 1 st.expected } x := by
  obtain ⟨t, rest, rfl, ht, hm, hs, _, _, _⟩ := h.shape
  have hok := h.ok
  rw [sheetLoop_shape O M st t rest x hs (by simp [ht]) (by simp [ht]) (by simp [ht]) (by simp [ht])]
  simp [stmtEffect, ht, hm, hok, sheetInsert_unknown]

/-- one spelled rule of the body: the dispatcher consumes exactly its tokens and appends the rule -/
theorem sheetLoop_srule (O : Oracle) (M : List Cps) (hO : AtFaithful O) (r : SRule) (x : List Tok) (st : SheetSt)
    (h : r.WF O M st.nsmap false) :
    ∃ st', sheetLoop O M st (r.toks ++ x) = sheetLoop O M st' x ∧
      st'.rules = st.rules ++ [r.parsed O st.nsmap] ∧ st'.nsmap = st.nsmap := by
  cases r with
  | comment b =>
    refine ⟨_, by simpa [SRule.toks] using sheetLoop_commentTok O M b x st, ?_, ?_⟩
    · simp [sheetInsert_comment, SRule.parsed]
    · simp [sheetInsert_comment]
  | style sel blk =>
    have h : StyleWF O st.nsmap sel blk := h
    obtain ⟨t, rest, e, hstart, hs⟩ := stmtShape_style O st.nsmap sel blk h
    have hstart' := hstart
    unfold startsRuleset at hstart'
    rw [e, sheetLoop_shape O M st t rest x hs (by intro hh; simp [hh] at hstart')
      (by intro hh; simp [hh] at hstart') (by intro hh; simp [hh] at hstart')
      (by intro hh; simp [hh] at hstart'), stmtEffect_ruleset O M st t _ hstart, ← e,
      styleRule_render O st.nsmap sel blk h]
    refine ⟨_, rfl, ?_, ?_⟩
    · simp [sheetInsert, Rule.kind, SRule.parsed]
    · simp [sheetInsert, Rule.kind]
  | unknown toks =>
    have h : UnknownRuleOk M toks := h
    refine ⟨_, by simpa [SRule.toks] using sheetLoop_unknown O M toks x st h, ?_, ?_⟩
    · simp [SRule.parsed]
    · simp
  | media kw g1 mq g2 name lead rules =>
    have hr := mediaRule_render O M hO st.nsmap kw g1 mq g2 name lead rules false h
      ((SRule.media kw g1 mq g2 name lead rules).toks.length + 1) (by omega)
    have h : MqOk mq ∧ O.mediaOk (mediaHead g1 mq g2) = true ∧ rules.WF O M st.nsmap true ∧ NameWF name := h
    obtain ⟨i1, i2⟩ := SRules.bal O M st.nsmap true rules h.2.2.1
    obtain ⟨w1, w2⟩ := wgap_bal lead
    obtain ⟨hq, hnb, hns⟩ := mediaHead_facts g1 mq g2 h.1
    have e : (SRule.media kw g1 mq g2 name lead rules).toks =
        atTok .mediaSym kw "media" :: ((mediaHead g1 mq g2 ++ nameToks name) ++ lbraceTok :: ((WGap.toks lead ++ rules.toks) ++ [rbraceTok])) := by
      simp [SRule.toks, mediaHead]
    have hs := stmtShape_block (atTok .mediaSym kw "media") (mediaHead g1 mq g2 ++ nameToks name) (WGap.toks lead ++ rules.toks)
      (atTok_default_flat _ _ _ (by decide) (by decide) (by decide)) (hq.append (nameToks_qb .default rfl name)) (bal_append w1 i1)
      (by rw [noEof_append, w2, i2]; rfl)
    rw [e, sheetLoop_shape O M st _ _ x hs (by simp [atTok]) (by simp [atTok]) (by simp [atTok])
      (by simp [atTok]), ← e]
    have ht : (atTok .mediaSym kw "media").typ = .mediaSym := rfl
    refine ⟨_, rfl, ?_, ?_⟩
    · simp only [stmtEffect, ht, hr]
      simp [sheetInsert, Rule.kind, SRule.parsed]
    · simp only [stmtEffect, ht, hr]
      simp [sheetInsert, Rule.kind, SRule.parsed]
  | fontface kw g1 blk =>
    have h : false = false ∧ blk.WF O := h
    obtain ⟨b1, b2⟩ := SBlock.bal O blk h.2
    have e : (SRule.fontface kw g1 blk).toks =
        atTok .fontFaceSym kw "font-face" :: (Gap.toks g1 ++ lbraceTok :: (blk.toks ++ [rbraceTok])) := by
      simp [SRule.toks]
    have hs := stmtShape_block (atTok .fontFaceSym kw "font-face") (Gap.toks g1) blk.toks
      (atTok_default_flat _ _ _ (by decide) (by decide) (by decide)) ((gapL_toks g1).qb _) b1 b2
    rw [e, sheetLoop_shape O M st _ _ x hs (by simp [atTok]) (by simp [atTok]) (by simp [atTok])
      (by simp [atTok]), ← e]
    have ht : (atTok .fontFaceSym kw "font-face").typ = .fontFaceSym := rfl
    refine ⟨_, rfl, ?_, ?_⟩
    · simp only [stmtEffect, ht, hO.fontface]
      simp [sheetInsert, Rule.kind, SRule.parsed]
    · simp only [stmtEffect, ht, hO.fontface]
      simp [sheetInsert, Rule.kind]
  | page kw g0 sel g1 blk =>
    have h : PageWF O M sel blk := h
    obtain ⟨b1, b2⟩ := SPageBlock.bal O M sel blk h
    have e : (SRule.page kw g0 sel g1 blk).toks =
        atTok .pageSym kw "page" :: (pageHead g0 sel g1 ++ lbraceTok :: (blk.toks ++ [rbraceTok])) := by
      simp [SRule.toks, pageHead]
    have hs := stmtShape_block (atTok .pageSym kw "page") (pageHead g0 sel g1) blk.toks
      (atTok_default_flat _ _ _ (by decide) (by decide) (by decide))
      (QB.flat (pageHead_flat g0 sel g1 h.selWF .default (Or.inl rfl))) b1 b2
    rw [e, sheetLoop_shape O M st _ _ x hs (by simp [atTok]) (by simp [atTok]) (by simp [atTok])
      (by simp [atTok]), ← e]
    have ht : (atTok .pageSym kw "page").typ = .pageSym := rfl
    refine ⟨_, rfl, ?_, ?_⟩
    · simp only [stmtEffect, ht, hO.page]
      simp [sheetInsert, Rule.kind, SRule.parsed]
    · simp only [stmtEffect, ht, hO.page]
      simp [sheetInsert, Rule.kind]

theorem sheetLoop_srules (O : Oracle) (M : List Cps) (hO : AtFaithful O) :
    ∀ (rs : SRules) (x : List Tok) (st : SheetSt), rs.WF O M st.nsmap false →
      ∃ st', sheetLoop O M st (rs.toks ++ x) = sheetLoop O M st' x ∧
        st'.rules = st.rules ++ rs.parsed O st.nsmap ∧ st'.nsmap = st.nsmap
  | .nil, x, st, _ => ⟨st, by simp [SRules.toks], by simp [SRules.parsed], rfl⟩
  | .cons r w rest, x, st, h => by
    have h : r.WF O M st.nsmap false ∧ rest.WF O M st.nsmap false := h
    obtain ⟨st1, a1, a2, a3⟩ := sheetLoop_srule O M hO r (WGap.toks w ++ (rest.toks ++ x)) st h.1
    obtain ⟨st2, b1, b2, b3, _⟩ := sheetLoop_ws O M w (rest.toks ++ x) st1
    obtain ⟨st3, c1, c2, c3⟩ := sheetLoop_srules O M hO rest x st2 (by rw [b3, a3]; exact h.2)
    refine ⟨st3, ?_, ?_, ?_⟩
    · rw [SRules.toks_cons]
      simp only [List.append_assoc]
      rw [a1, b1, c1]
    · rw [c2, b2, a2, b3, a3, SRules.parsed_cons]; simp
    · rw [c3, b3, a3]

/-! ## the projection of what the parser builds -/

mutual
theorem projRule_parsed (O : Oracle) (M : List Cps) (ns : List (Cps × Cps)) (im : Bool) :
    ∀ (r : SRule), r.WF O M ns im → projRule O M (r.parsed O ns) = r.erase
  | .comment b, _ => by
    simp [SRule.parsed, projRule, SRule.erase, commentTok, commentBody, commentVal]
  | .style sel blk, h => by
    have h : StyleWF O ns sel blk := h
    simp only [SRule.parsed, projRule, SRule.erase, projItems]
    rw [selGroups_render sel h.selWF, parseDecls_block O blk h.blkWF]
  | .unknown t, _ => by simp [SRule.parsed, projRule, SRule.erase]
  | .media kw g1 mq g2 name lead rules, h => by
    have h : MqOk mq ∧ O.mediaOk (mediaHead g1 mq g2) = true ∧ rules.WF O M ns true ∧ NameWF name := h
    simp only [SRule.parsed, projRule, SRule.erase]
    rw [projRules_parsed O M ns true rules h.2.2.1, nameTok?_value name h.2.2.2]
    simp only [mediaHead]
    rw [clean_padded _ _ _ (gapL_toks _).isGap (gapL_toks _).isGap h.1.core]
  | .fontface kw g1 blk, h => by
    have h : im = false ∧ blk.WF O := h
    simp only [SRule.parsed, projRule, projAt, SRule.erase, fontFaceRule_render O kw g1 blk h.2, Option.getD_some,
      projItems]
    rw [parseDecls_block O blk h.2]
  | .page kw g0 sel g1 blk, h => by
    have h : PageWF O M sel blk := h
    obtain ⟨p1, p2⟩ := projPage_render O M sel blk h
    simp only [SRule.parsed, projRule, projAt, pageRule_render O M kw g0 sel g1 blk h, SRule.erase]
    rw [p1, p2]
    rfl
theorem projRules_parsed (O : Oracle) (M : List Cps) (ns : List (Cps × Cps)) (im : Bool) :
    ∀ (rs : SRules), rs.WF O M ns im → projRules O M (rs.parsed O ns) = rs.erase
  | .nil, _ => by simp [SRules.parsed, projRules, SRules.erase]
  | .cons r w rest, h => by
    have h : r.WF O M ns im ∧ rest.WF O M ns im := h
    simp only [SRules.parsed, projRules, SRules.erase]
    rw [projRule_parsed O M ns im r h.1, projRules_parsed O M ns im rest h.2]
end

end CssVerif.SheetSpec
