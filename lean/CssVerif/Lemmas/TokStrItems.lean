import CssVerif.Lemmas.TokLex2
/-!
# STRING class for bodies with escapes and line continuations

A string body is a list of items (`SItem`): an ordinary code point, a backslash with a code point that is not a line
break (an escaped quote, an escaped backslash, the first digit of a hex escape, …), or a backslash with a line break
(line continuation). `strBody_first_items`: on such a body followed by the closing quote the string body of the
STRING production matches greedily exactly the body.
-/
namespace CssVerif.Tok
open CssVerif CssVerif.Gen.C05

inductive SItem where
  | ord (c : Nat)        -- an ordinary code point (not a line break, backslash or the delimiter)
  | esc (d : Nat)        -- backslash + a code point that is not a line break
  | cont (k : Nat)       -- backslash + line break: 0 = LF, 1 = FF, 2 = CR, 3 = CR LF
  | hexnl (d : Nat) (ds : Cps) (k : Nat)   -- backslash + 1-6 hex digits + line break (the break ends the escape)
deriving Repr, BEq, DecidableEq

def contText : Nat → Cps
  | 0 => [10]
  | 1 => [12]
  | 2 => [13]
  | _ => [13, 10]

def SItem.text : SItem → Cps
  | .ord c => [c]
  | .esc d => [92, d]
  | .cont k => 92 :: contText k
  | .hexnl d ds k => 92 :: d :: ds ++ contText k

def SItem.WF (q : Nat) : SItem → Prop
  | .ord c => ordinary q c = true
  | .esc d => isNl d = false
  | .cont k => k ≤ 3
  | .hexnl d ds k => isHex d = true ∧ (∀ x ∈ ds, isHex x = true) ∧ ds.length ≤ 5 ∧ k ≤ 3

instance sitemWFDecidable (q : Nat) (i : SItem) : Decidable (i.WF q) := by
  cases i <;> simp only [SItem.WF] <;> infer_instance

def flat (its : List SItem) : Cps := its.flatMap SItem.text

theorem flat_cons (i : SItem) (its : List SItem) : flat (i :: its) = i.text ++ flat its := by
  simp [flat]

/-- the text after an item: more items and the closing quote -/
def tailText (q : Nat) (its : List SItem) (rest : Cps) : Cps := flat its ++ q :: rest

theorem ordinary_not_nl (q c : Nat) (h : ordinary q c = true) : c ≠ 10 ∧ c ≠ 13 ∧ c ≠ 12 ∧ c ≠ 92 ∧ c ≠ q := by
  simp only [ordinary, Bool.not_eq_true', Bool.or_eq_false_iff, beq_eq_false_iff_ne] at h
  exact ⟨h.1.1.1.1, h.1.1.1.2, h.1.1.2, h.1.2, h.2⟩

/-- the text after an item never starts with a line feed -/
theorem tail_head (q : Nat) (hq : q = 34 ∨ q = 39) (its : List SItem) (h : ∀ i ∈ its, i.WF q) (rest : Cps) :
    ∃ c t, tailText q its rest = c :: t ∧ c ≠ 10 := by
  cases its with
  | nil => exact ⟨q, rest, rfl, by rcases hq with rfl | rfl <;> decide⟩
  | cons i its' =>
    cases i with
    | ord c =>
      exact ⟨c, flat its' ++ q :: rest, by simp [tailText, flat_cons, SItem.text],
        (ordinary_not_nl q c (h (.ord c) (by simp))).1⟩
    | esc d => exact ⟨92, d :: (flat its' ++ q :: rest), by simp [tailText, flat_cons, SItem.text], by decide⟩
    | cont k => exact ⟨92, contText k ++ (flat its' ++ q :: rest), by simp [tailText, flat_cons, SItem.text], by decide⟩
    | hexnl d ds k =>
      exact ⟨92, d :: ds ++ contText k ++ (flat its' ++ q :: rest), by simp [tailText, flat_cons, SItem.text], by decide⟩

theorem nlLens_nonnl (c : Nat) (t : Cps) (h : isNl c = false) : nlLens (c :: t) = [] := by
  simp only [isNl, Bool.or_eq_false_iff, beq_eq_false_iff_ne] at h
  simp [nlLens, h.1.1, h.1.2, h.2]

/-- after the hex digits at the start of the text that follows an item there is no line break -/
theorem hexrun_no_nl (q : Nat) (hq : q = 34 ∨ q = 39) : ∀ (its : List SItem), (∀ i ∈ its, i.WF q) → ∀ (rest : Cps) (k : Nat),
    nlLens ((tailText q its rest).drop (runLen isHex (tailText q its rest) k)) = [] := by
  intro its
  induction its with
  | nil =>
    intro _ rest k
    have hqh : isHex q = false := by rcases hq with rfl | rfl <;> decide
    have hqn : isNl q = false := by rcases hq with rfl | rfl <;> decide
    have : runLen isHex (q :: rest) k = 0 := by cases k <;> simp [runLen, hqh]
    simp only [tailText, flat, List.flatMap_nil, List.nil_append, this, List.drop_zero]
    exact nlLens_nonnl q rest hqn
  | cons i its' ih =>
    intro h rest k
    have h' : ∀ i ∈ its', i.WF q := fun j hj => h j (List.mem_cons_of_mem _ hj)
    have h92 : ∀ (u : Cps) (k : Nat), runLen isHex (92 :: u) k = 0 := by
      intro u k; cases k <;> simp [runLen, isHex]
    cases i with
    | ord c =>
      have hc := ordinary_not_nl q c (h (.ord c) (by simp))
      have hnl : isNl c = false := by simp [isNl, hc.1, hc.2.1, hc.2.2.1]
      have htt : tailText q (SItem.ord c :: its') rest = c :: tailText q its' rest := by
        simp [tailText, flat_cons, SItem.text]
      rw [htt]
      cases k with
      | zero => simp only [runLen, List.drop_zero]; exact nlLens_nonnl c _ hnl
      | succ k' =>
        by_cases hh : isHex c = true
        · simp only [runLen, hh, if_true, Nat.add_comm 1, List.drop_succ_cons]
          exact ih h' rest k'
        · simp only [runLen, hh, Bool.false_eq_true, if_false, List.drop_zero]
          exact nlLens_nonnl c _ hnl
    | esc d =>
      have htt : tailText q (SItem.esc d :: its') rest = 92 :: d :: tailText q its' rest := by
        simp [tailText, flat_cons, SItem.text]
      rw [htt, h92, List.drop_zero]
      exact nlLens_nonnl 92 _ (by decide)
    | cont j =>
      have htt : tailText q (SItem.cont j :: its') rest = 92 :: (contText j ++ tailText q its' rest) := by
        simp [tailText, flat_cons, SItem.text]
      rw [htt, h92, List.drop_zero]
      exact nlLens_nonnl 92 _ (by decide)
    | hexnl d ds j =>
      have htt : tailText q (SItem.hexnl d ds j :: its') rest = 92 :: (d :: ds ++ contText j ++ tailText q its' rest) := by
        simp [tailText, flat_cons, SItem.text]
      rw [htt, h92, List.drop_zero]
      exact nlLens_nonnl 92 _ (by decide)

/-- the first (greedy) success of the string item at an item of the body is that item -/
theorem itemLens_item (q : Nat) (hq : q = 34 ∨ q = 39) (i : SItem) (its : List SItem) (hi : i.WF q)
    (h : ∀ j ∈ its, j.WF q) (rest : Cps) :
    (itemLens q (i.text ++ tailText q its rest)).head? = some i.text.length := by
  cases i with
  | ord c => simp [SItem.text, itemLens_ordinary q c _ hi]
  | esc d =>
    have hd : isNl d = false := hi
    have hnl : nlLens (d :: tailText q its rest) = [] := nlLens_nonnl d _ hd
    have hhex := hexrun_no_nl q hq its h rest 5
    simp only [SItem.text, List.cons_append, List.nil_append, itemLens, ne_eq, not_true_eq_false, if_false, hnl, hhex,
      List.map_nil, hd, Bool.false_eq_true]
    by_cases hh : isHex d = true <;> simp [hh]
  | cont k =>
    have hk : k ≤ 3 := hi
    obtain ⟨c, t, hct, hc10⟩ := tail_head q hq its h rest
    rcases k with _ | _ | _ | k
    · simp [SItem.text, contText, itemLens, nlLens]
    · simp [SItem.text, contText, itemLens, nlLens]
    · simp [SItem.text, contText, itemLens, nlLens, hct, hc10]
    · simp [SItem.text, contText, itemLens, nlLens]
  | hexnl d ds k =>
    obtain ⟨hd, hds, hlen, hk⟩ := hi
    obtain ⟨c, t, hct, hc10⟩ := tail_head q hq its h rest
    have hnl : nlLens (d :: (ds ++ (contText k ++ tailText q its rest))) = [] := nlLens_hex d _ hd
    have hstop : HeadIn (fun x => isHex x = false) (contText k ++ tailText q its rest) := by
      rcases k with _ | _ | _ | k <;> exact headIn_cons (by decide)
    have hrun : runLen isHex (ds ++ (contText k ++ tailText q its rest)) 5 = ds.length :=
      runLen_run isHex ds _ 5 hds hlen hstop
    have hdn : isNl d = false := by
      cases hn : isNl d with
      | false => rfl
      | true => have := isWs_not_hex d (by simp [isNl] at hn; simp [isWs]; omega); rw [hd] at this; cases this
    have htext : (SItem.hexnl d ds k).text ++ tailText q its rest =
        92 :: d :: (ds ++ (contText k ++ tailText q its rest)) := by simp [SItem.text]
    rw [htext]
    simp only [itemLens, ne_eq, not_true_eq_false, if_false, hnl, List.map_nil, List.nil_append, hd, if_true, hrun,
      drop_length_append, hdn, Bool.false_eq_true]
    rcases k with _ | _ | _ | k
    · simp [SItem.text, contText, nlLens]; omega
    · simp [SItem.text, contText, nlLens]; omega
    · simp [SItem.text, contText, nlLens, hct, hc10]; omega
    · simp [SItem.text, contText, nlLens]; omega

theorem head?_append_ne_nil {α : Type} (a b : List α) (h : a ≠ []) : (a ++ b).head? = a.head? := by
  cases a with
  | nil => exact absurd rfl h
  | cons x xs => rfl

theorem itemLens_bounded (q : Nat) : Re.Bounded (itemLens q) := by
  intro s l hl
  rw [← item_ms] at hl
  exact Re.ms_bounded (itemRe q) s l hl

/-- one greedy step of the string body -/
theorem strBody_first_step (q : Nat) (s : Cps) (l : Nat) (h : (itemLens q s).head? = some l) :
    (strBody q).first s = ((strBody q).first (s.drop l)).map (l + ·) := by
  cases hm : itemLens q s with
  | nil => rw [hm] at h; cases h
  | cons x xs =>
    rw [hm] at h
    simp only [List.head?_cons, Option.some.injEq] at h
    subst h
    have hpos : 0 < x := itemLens_pos q s x (by rw [hm]; simp)
    have hb : x ≤ s.length := itemLens_bounded q s x (by rw [hm]; simp)
    unfold Re.first
    rw [strBody_ms, strBody_ms]
    have hfuel : Re.starMs (itemLens q) true s.length (s.drop x) =
        Re.starMs (itemLens q) true ((s.drop x).length + 1) (s.drop x) :=
      starMs_fuel (itemLens_bounded q) true _ _ _ (by simp; omega) (Nat.lt_succ_self _)
    rw [Re.starMs]
    simp only [if_true, hm, List.filter_cons, hpos, decide_true, List.flatMap_cons, hfuel]
    have hne : List.map (fun x_1 => x + x_1) (Re.starMs (itemLens q) true ((s.drop x).length + 1) (s.drop x)) ≠ [] := by
      simp only [ne_eq, List.map_eq_nil_iff]; exact starMs_ne_nil _ _ _ _
    rw [List.append_assoc, head?_append_ne_nil _ _ hne, List.head?_map]

theorem strBody_first_stop (q : Nat) (s : Cps) (h : itemLens q s = []) : (strBody q).first s = some 0 := by
  unfold Re.first
  rw [strBody_ms, starMs_stuck _ _ _ h]; rfl

/-- **the string body matches greedily exactly the items** -/
theorem strBody_first_items (q : Nat) (hq : q = 34 ∨ q = 39) : ∀ (its : List SItem), (∀ i ∈ its, i.WF q) →
    ∀ rest, (strBody q).first (tailText q its rest) = some (flat its).length := by
  intro its
  induction its with
  | nil =>
    intro _ rest
    have hq92 : q ≠ 92 := by rcases hq with rfl | rfl <;> decide
    exact strBody_first_stop q _ (itemLens_quote q rest hq92)
  | cons i its' ih =>
    intro h rest
    have hi := h i (by simp)
    have h' : ∀ j ∈ its', j.WF q := fun j hj => h j (List.mem_cons_of_mem _ hj)
    have htt : tailText q (i :: its') rest = i.text ++ tailText q its' rest := by
      simp [tailText, flat_cons]
    rw [htt, strBody_first_step q _ _ (itemLens_item q hq i its' hi h' rest), drop_length_append, ih h' rest]
    simp [flat_cons]

theorem string_first_items (q : Nat) (hq : q = 34 ∨ q = 39) (its : List SItem) (h : ∀ i ∈ its, i.WF q) (rest : Cps) :
    reSTRING.first (q :: (flat its ++ q :: rest)) = some ((flat its).length + 2) := by
  have hbody : (Re.seq (strBody q) (Re.cls false [(q, q)])).first (flat its ++ q :: rest) =
      some ((flat its).length + 1) := by
    apply first_seq_some (l1 := (flat its).length) (l2 := 1)
    · exact strBody_first_items q hq its h rest
    · rw [drop_length_append, first_cls_cons]; simp [inCls_pt]
  rw [reSTRING_shape, first_alt]
  rcases hq with rfl | rfl
  · rw [first_seq_cls_cons]
    simp only [inCls_pt, decide_true, if_true, hbody, Option.map_some, Option.some_or]
    congr 1; omega
  · rw [first_seq_cls_cons, first_seq_cls_cons]
    simp only [inCls_pt, decide_true, if_true, hbody, Option.map_some]
    simp
    omega

/-- **STRING class** (bodies with escapes and line continuations): a quote, a body made of ordinary code points,
backslash + a code point that is not a line break, and backslash + line break, then the same quote is scanned as one
STRING token, whatever follows -/
theorem scan_string_items (doC : Bool) (q : Nat) (hq : q = 34 ∨ q = 39) (its : List SItem) (h : ∀ i ∈ its, i.WF q)
    (rest : Cps) :
    scan false doC (q :: flat its ++ q :: rest) productions = .hit "STRING" ((flat its).length + 2) := by
  have hsplit : productions = productions.take 10 ++ (("STRING", reSTRING) :: productions.drop 11) := by decide
  have hrej : rejectAll [(q, q)] (productions.take 10) = true := by rcases hq with rfl | rfl <;> decide
  rw [hsplit, List.cons_append, scan_false_reject (cs := [(q, q)]) (by simp [inR]) _ _ _ hrej]
  apply scan_false_hit
  · have hbody : (Re.seq (strBody q) (Re.cls false [(q, q)])).first (flat its ++ q :: rest) =
        some ((flat its).length + 1) := by
      apply first_seq_some (l1 := (flat its).length) (l2 := 1)
      · exact strBody_first_items q hq its h rest
      · rw [drop_length_append, first_cls_cons]; simp [inCls_pt]
    rw [reSTRING_shape, first_alt]
    rcases hq with rfl | rfl
    · rw [first_seq_cls_cons]
      simp only [inCls_pt, decide_true, if_true, hbody, Option.map_some, Option.some_or]
      congr 1; omega
    · rw [first_seq_cls_cons, first_seq_cls_cons]
      simp only [inCls_pt, decide_true, if_true, hbody, Option.map_some]
      simp
      omega
  · simp [identContinue]

end CssVerif.Tok
