import CssVerif.Lemmas.Validate
import CssVerif.Model.ValidateReg
import CssVerif.Model.Css21Keywords
/-!
Helpers for the grammar-agreement theorems of C13: which generated pattern stands for a CSS 2.1 property,
and the decidable comparison of its finite language with a reference keyword list.
-/
namespace CssVerif.Validate
open CssVerif CssVerif.Proto

set_option maxRecDepth 100000

/-- the pattern of the first profile (registration order) that registers `property`: for CSS 2.1 properties the
`CSS Level 2.1` entry, or — for those cssutils files under CSS3 Backgrounds and Borders — that one -/
def firstPattern (property : String) : Option Re :=
  Gen.C13.table.findSome? fun e => e.2.lookup property

/-- same words, as sets -/
def sameWords (W K : List Str) : Bool := W.all K.contains && K.all W.contains

theorem sameWords_iff (W K : List Str) (h : sameWords W K = true) (w : Str) : w ∈ W ↔ w ∈ K := by
  simp only [sameWords, Bool.and_eq_true, List.all_eq_true, List.contains_iff_mem] at h
  exact ⟨h.1 w, h.2 w⟩

/-- decidable: the pattern is a keyword list and its keywords are exactly `kws` -/
def kwAgree (r : Re) (kws : List String) : Bool :=
  match r.wordsE with
  | some W => sameWords W (kws.map cps)
  | none => false

theorem kwAgree_spec (r : Re) (kws : List String) (h : kwAgree r kws = true) (s : Str)
    (hs : s.getLast? ≠ some 10) : accepts r s = true ↔ fold s ∈ kws.map cps := by
  unfold kwAgree at h
  cases hw : r.wordsE with
  | none => simp [hw] at h
  | some W =>
    simp only [hw] at h
    rw [Re.wordsE_spec_noLF r W hw s hs]
    exact sameWords_iff W _ h (fold s)

end CssVerif.Validate
