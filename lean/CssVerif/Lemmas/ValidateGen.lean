import CssVerif.Lemmas.Validate
import CssVerif.Lemmas.ValidateTpl
import CssVerif.Model.ValidateReg
import CssVerif.Model.Css21Keywords
/-!
Helpers for the grammar-agreement theorems of C13: which generated pattern stands for a CSS 2.1 property,
and the decidable comparison of its finite language with a reference keyword list.
-/
namespace CssVerif.Validate
open CssVerif CssVerif.Proto

set_option maxRecDepth 100000

/-- the pattern of the first profile (registration order) that registers `property`: for CSS 2.1 properties the
`CSS Level 2.1` entry, or — for those cssutils files under CSS3 Backgrounds and Borders — that one -/
def firstPattern (property : String) : Option Re :=
  Gen.C13.table.findSome? fun e => e.2.lookup property

/-- same words, as sets -/
def sameWords (W K : List Str) : Bool := W.all K.contains && K.all W.contains

theorem sameWords_iff (W K : List Str) (h : sameWords W K = true) (w : Str) : w ∈ W ↔ w ∈ K := by
  simp only [sameWords, Bool.and_eq_true, List.all_eq_true, List.contains_iff_mem] at h
  exact ⟨h.1 w, h.2 w⟩

/-- decidable: the pattern is a keyword list and its keywords are exactly `kws` -/
def kwAgree (r : Re) (kws : List String) : Bool :=
  match r.wordsE with
  | some W => sameWords W (kws.map cps)
  | none => false

theorem kwAgree_spec (r : Re) (kws : List String) (h : kwAgree r kws = true) (s : Str)
    (hs : s.getLast? ≠ some 10) : accepts r s = true ↔ fold s ∈ kws.map cps := by
  unfold kwAgree at h
  cases hw : r.wordsE with
  | none => simp [hw] at h
  | some W =>
    simp only [hw] at h
    rw [Re.wordsE_spec_noLF r W hw s hs]
    exact sameWords_iff W _ h (fold s)

/-! ### typed single-value grammars (templates) -/
open CssVerif.Css21

def subT (A B : List Template) : Bool := A.all B.contains

theorem member_mono (A B : List Template) (h : subT A B = true) (s : Str) (hm : member A s = true) :
    member B s = true := by
  simp only [member, List.any_eq_true] at *
  obtain ⟨t, ht, hmt⟩ := hm
  simp only [subT, List.all_eq_true, List.contains_iff_mem] at h
  exact ⟨t, h t ht, hmt⟩

/-- the templates that do not start with a `+` sign -/
def noPlus (T : List Template) : List Template := T.filter fun t => t.head? != some (Seg.one [43])

/-- decidable: the pattern is template-shaped, everything it accepts is in `spec ++ extra`, and it accepts
every `spec` template (also those with a leading `+`, since the fix "number, integer, length, percentage, angle, time
and frequency values accept an explicit '+' sign") -/
def typedAgree (r : Re) (spec extra : List Template) : Bool :=
  match r.templatesE with
  | some T => subT T (spec ++ extra) && subT spec T
  | none => false

theorem typedAgree_spec (r : Re) (spec extra : List Template) (h : typedAgree r spec extra = true) (s : Str)
    (hs : s.getLast? ≠ some 10) :
    (accepts r s = true → member (spec ++ extra) s = true) ∧
    (member spec s = true → accepts r s = true) := by
  unfold typedAgree at h
  cases hT : r.templatesE with
  | none => simp [hT] at h
  | some T =>
    simp only [hT, Bool.and_eq_true] at h
    rw [Re.templatesE_spec_noLF r T hT s hs]
    exact ⟨member_mono _ _ h.1 s, member_mono _ _ h.2 s⟩

end CssVerif.Validate
