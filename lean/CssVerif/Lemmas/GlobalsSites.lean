import CssVerif.Gen.C12Sites
/-!
# What the C12 model assumes about the writers of process-wide state

`expectedSites` is written by hand: one row per writer the model has (the comment says which part of the model).
`Gen/C12Sites.lean` is regenerated from the sources on every run; `Props/C12.lean` proves that the two lists are equal.
-/
namespace CssVerif.Globals

def expectedSites : List (String × String × String) := [
  -- Step.combine: parse, resolveImports, `result.encoding =`, remember, swap, serialise, swap back — all outside any try
  ("csscombine-shape", "cssutils/script.py:csscombine", "parse@plain resolve@plain set-encoding@plain remember@plain swap@plain serialize@plain swap@plain"),
  -- what each public entry point does, helpers and delegation followed: every parse happens inside `with self.__parseSetting()`
  -- (Step.parseString/parseStyle); parseFile opens the file before it, parseUrl reads the URL before it
  ("entry-point", "cssutils/parse.py:CSSParser.parseFile", "open setting[parse]"),
  ("entry-point", "cssutils/parse.py:CSSParser.parseString", "setting[parse]"),
  ("entry-point", "cssutils/parse.py:CSSParser.parseStyle", "setting[parse]"),
  ("entry-point", "cssutils/parse.py:CSSParser.parseUrl", "readUrl setting[parse]"),
  -- a stand-alone MediaQuery parses with `_partof` False (topOK): the flag is reset after the constructor parsed its text
  ("mediaquery-init", "cssutils/stylesheets/mediaquery.py:MediaQuery.__init__", "default=False | self._partof = _partof ; [if mediaText] self.mediaText = mediaText ; [if mediaText] self._partof = False"),
  -- withParseSetting is the only library writer of the error mode (errorhandler.__init__ creates the handler)
  ("mode-write", "cssutils/errorhandler.py:_ErrorHandler.__init__", "plain"),
  ("mode-write", "cssutils/parse.py:CSSParser.__parseSetting", "finally"),
  ("mode-write", "cssutils/parse.py:CSSParser.__parseSetting", "plain"),
  -- withParseSetting: capture, set the parser mode, yield inside try, restore the captured value in finally
  ("parse-setting-shape", "cssutils/parse.py:CSSParser.__parseSetting", "decorators=contextlib.contextmanager | capture-global | set:parser-mode | try[yield]handlers=0,finally[restore:captured]"),
  -- G.parsers: a parser object is written by its constructor and by setFetcher only (Step.newParser); no entry point assigns to self
  ("parser-attr-write", "cssutils/parse.py:CSSParser.__init__", "__parseRaising"),
  ("parser-attr-write", "cssutils/parse.py:CSSParser.__init__", "__parseRaising"),
  ("parser-attr-write", "cssutils/parse.py:CSSParser.__init__", "__tokenizer"),
  ("parser-attr-write", "cssutils/parse.py:CSSParser.__init__", "_validate"),
  ("parser-attr-write", "cssutils/parse.py:CSSParser.setFetcher", "__fetcher"),
  -- Parser.new
  ("parser-mode-init", "cssutils/parse.py:CSSParser.__init__", "self.__parseRaising = raiseExceptions ; self.__parseRaising = False"),
  -- the only `_partof=True` is in the toSeq lambda of MediaList._setMediaText: hand-back grammars are reached as children only
  ("partof-arg", "cssutils/stylesheets/medialist.py:MediaList._setMediaText", "True lambda+lambda"),
  -- csscombine writes the preferences of its own fresh serializer; saveto(minified=True) and the cssparse script are explicit requests (not modelled)
  ("prefs-write", "cssutils/script.py:CSSCapture.saveto", "useMinified"),
  ("prefs-write", "cssutils/script.py:csscombine", "resolveVariables"),
  ("prefs-write", "cssutils/script.py:csscombine", "useMinified"),
  ("prefs-write", "cssutils/scripts/cssparse.py:main", "useMinified"),
  -- ctor / runChild: `{ g with pushed := [] }`
  ("pushed-clear", "cssutils/prodparser.py:ProdParser.__init__", "-"),
  -- onFound (stopAndKeep); the push of onTok (ParseError with stopIf) went with ed45313
  ("pushed-push", "cssutils/prodparser.py:ProdParser.parse", "-"),
  -- Tokenizer.__init__/clear/push
  ("pushed-write", "cssutils/tokenize2.py:Tokenizer.__init__", "-"),
  ("pushed-write", "cssutils/tokenize2.py:Tokenizer.clear", "-"),
  ("pushed-write", "cssutils/tokenize2.py:Tokenizer.push", "-"),
  -- onTok (NoMatch with stopIf)
  ("saved-append", "cssutils/prodparser.py:ProdParser.parse", "-"),
  -- PG.saved
  ("saved-def", "cssutils/prodparser.py:<module>", "-"),
  -- fetch
  ("saved-pop", "cssutils/prodparser.py:ProdParser.parse", "-"),
  -- Step.combine
  ("ser-swap", "cssutils/script.py:csscombine", "plain"),
  ("ser-swap", "cssutils/script.py:csscombine", "plain"),
  -- CSSStyleSheet.setSerializer is an explicit setter (Step.newSer)
  ("ser-write", "cssutils/css/cssstylesheet.py:CSSStyleSheet.setSerializer", "plain"),
  -- serialisation makes no log call: the serBody of csscombine is `calm`
  ("serialize-log-calls", "cssutils/serialize.py", "0"),
  -- … and raises nothing itself
  ("serialize-raise-statements", "cssutils/serialize.py", "0"),
  -- sheetLevels / memoStep: `_selectors`, `_selectorlevel`, `_insheet` are set at the start of do_CSSStyleSheet and put back in its finally (Step.serialize leaves the state as it is); `_level` is restored in a finally (style rule) or by the matching `+= 1` (page rule)
  ("serializer-state-write", "cssutils/serialize.py:CSSSerializer.__init__", "_insheet plain"),
  ("serializer-state-write", "cssutils/serialize.py:CSSSerializer.__init__", "_level plain"),
  ("serializer-state-write", "cssutils/serialize.py:CSSSerializer.__init__", "_selectorlevel plain"),
  ("serializer-state-write", "cssutils/serialize.py:CSSSerializer.__init__", "_selectors plain"),
  ("serializer-state-write", "cssutils/serialize.py:CSSSerializer.do_CSSPageRule", "_level plain"),
  ("serializer-state-write", "cssutils/serialize.py:CSSSerializer.do_CSSPageRule", "_level plain"),
  ("serializer-state-write", "cssutils/serialize.py:CSSSerializer.do_CSSStyleRule", "_level finally"),
  ("serializer-state-write", "cssutils/serialize.py:CSSSerializer.do_CSSStyleRule", "_level plain"),
  ("serializer-state-write", "cssutils/serialize.py:CSSSerializer.do_CSSStyleRule", "_selectorlevel plain"),
  ("serializer-state-write", "cssutils/serialize.py:CSSSerializer.do_CSSStyleRule", "_selectorlevel plain"),
  ("serializer-state-write", "cssutils/serialize.py:CSSSerializer.do_CSSStyleRule", "_selectorlevel plain"),
  ("serializer-state-write", "cssutils/serialize.py:CSSSerializer.do_CSSStyleSheet", "_insheet finally"),
  ("serializer-state-write", "cssutils/serialize.py:CSSSerializer.do_CSSStyleSheet", "_insheet plain"),
  ("serializer-state-write", "cssutils/serialize.py:CSSSerializer.do_CSSStyleSheet", "_selectorlevel finally"),
  ("serializer-state-write", "cssutils/serialize.py:CSSSerializer.do_CSSStyleSheet", "_selectorlevel plain"),
  ("serializer-state-write", "cssutils/serialize.py:CSSSerializer.do_CSSStyleSheet", "_selectors finally"),
  ("serializer-state-write", "cssutils/serialize.py:CSSSerializer.do_CSSStyleSheet", "_selectors plain"),
  -- only MediaQuery passes stopIfNoMoreMatch, and it passes `self._partof`
  ("stopif-arg", "cssutils/prodparser.py:PreDef.char", "stopIfNoMoreMatch"),
  ("stopif-arg", "cssutils/stylesheets/mediaquery.py:MediaQuery._setMediaText", "self._partof"),
  ("stopif-arg", "cssutils/stylesheets/mediaquery.py:MediaQuery._setMediaText", "self._partof")
]

end CssVerif.Globals
