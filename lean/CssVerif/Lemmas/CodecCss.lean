import CssVerif.Lemmas.CodecEncInner
import CssVerif.Lemmas.CodecInc
import CssVerif.Lemmas.CodecEnc
/-!
The CSS codec over CPython's inner codecs: round trip `decode (encode t) = t` with the `@charset` name rewritten.
-/
namespace CssVerif.Codec

/-- the name `_fixencoding` writes into the rule -/
def written (g : Name) : Name := if normName g = utf8sigName then utf8Name else g

theorem findQuote_noquote (n : List Nat) (hn : ∀ c ∈ n, c ≠ 0x22) (t : List Nat) :
    findQuote (n ++ 0x22 :: t) = some n.length := by
  induction n with
  | nil => simp [findQuote]
  | cons c r ih =>
    have hc : c ≠ 0x22 := hn c (by simp)
    have := ih (fun x hx => hn x (by simp [hx]))
    simp [findQuote, hc, this]

theorem findQuote_drop (l : List Nat) (k : Nat) (h : findQuote l = some k) : ∃ r, l.drop k = 0x22 :: r := by
  induction l generalizing k with
  | nil => simp [findQuote] at h
  | cons c t ih =>
    simp only [findQuote] at h
    split at h
    · rename_i hc
      simp only [Option.some.injEq] at h; subst h
      exact ⟨t, by simp [hc]⟩
    · cases hq : findQuote t with
      | none => simp [hq] at h
      | some j =>
        simp only [hq, Option.map_some, Option.some.injEq] at h; subst h
        obtain ⟨r, hr⟩ := ih j hq
        exact ⟨r, by simpa using hr⟩

/-- rewriting the `@charset` name twice is rewriting it once (the name written has no quote) -/
theorem fixFinal_twice (t g : List Nat) (hq : ∀ c ∈ written g, c ≠ 0x22) :
    fixFinal (fixFinal t g) g = fixFinal t g := by
  by_cases hl : t.length > 10
  · by_cases hp : prefix10.isPrefixOf t = true
    · cases hf : findQuote (t.drop 10) with
      | none =>
        have : fixFinal t g = t := by simp [fixFinal, hl, hp, hf]
        rw [this, this]
      | some k =>
        obtain ⟨r, hr⟩ := findQuote_drop _ _ hf
        have e : fixFinal t g = prefix10 ++ written g ++ 0x22 :: r := by
          simp only [fixFinal, hl, hp, hf, if_true, hr, written]
        rw [e]
        have l1 : (prefix10 ++ written g ++ 0x22 :: r).length > 10 := by simp [prefix10]; omega
        have l2 : prefix10.isPrefixOf (prefix10 ++ written g ++ 0x22 :: r) = true := by
          rw [List.isPrefixOf_iff_prefix, List.append_assoc]; exact List.prefix_append _ _
        have l3 : (prefix10 ++ written g ++ 0x22 :: r).drop 10 = written g ++ 0x22 :: r := by
          simp [prefix10]
        simp only [fixFinal, l1, l2, if_true, l3, findQuote_noquote _ hq]
        simp [written]
    · have : fixFinal t g = t := by simp [fixFinal, hl, hp]
      rw [this, this]
  · have : fixFinal t g = t := by simp [fixFinal, hl]
    rw [this, this]

theorem lookup_mem (g : Name) (c : CName) (h : lookupName g = some c) :
    (normName g, c) ∈ nameTable := by
  unfold lookupName at h
  cases hf : nameTable.find? (fun e => e.1 == normName g) with
  | none => simp [hf] at h
  | some e =>
    simp only [hf, Option.map_some, Option.some.injEq] at h
    have h1 := List.mem_of_find?_eq_some hf
    have h2 := List.find?_some hf
    simp only [beq_iff_eq] at h2
    rw [← h2, ← h]
    exact h1

theorem table_noquote : ∀ e ∈ nameTable, ∀ c ∈ e.1, c ≠ 0x22 := by decide

/-- a name the model knows contains no quote, so the name written into the rule has none either -/
theorem lookup_written_noquote (g : Name) (c : CName) (h : lookupName g = some c) :
    ∀ ch ∈ written g, ch ≠ 0x22 := by
  have hm := lookup_mem g c h
  have hn := table_noquote _ hm
  have hg : ∀ ch ∈ g, ch ≠ 0x22 := by
    intro ch hch e
    subst e
    have : (0x22 : Nat) ∈ normName g := by
      unfold normName
      rw [List.mem_map]
      exact ⟨0x22, hch, by decide⟩
    exact hn _ this rfl
  unfold written
  split
  · decide
  · exact hg

/-- the bytes of an encodable text, decoded by the same codec's incremental decoder at the end of the data -/
theorem incOut_encode_f (c : CName) (x : List Nat) (f : Bool) (h : (encScan c.kind x).2 = true) :
    incOut c (c.bom ++ (encScan c.kind x).1) f = ⟨x, [], false⟩ := by
  have hs := scan_encScan c.kind x (encScan c.kind x).1 f (by rw [← h])
  cases c with
  | plain k => simpa [incOut, sniff, CName.bom, CName.kind] using hs
  | u8sig =>
    simp only [CName.kind] at hs
    simp only [incOut, sniff, sniffSig, CName.bom, CName.kind, Kind.first] at hs ⊢
    have l : ¬ (bom8 ++ (encScan .u8 x).1).length < 3 := by simp [bom8]
    have t3 : (bom8 ++ (encScan .u8 x).1).take 3 = bom8 := by simp [bom8]
    have d3 : (bom8 ++ (encScan .u8 x).1).drop 3 = (encScan .u8 x).1 := by simp [bom8]
    simp only [l, if_false, t3, if_true, d3, hs]
  | u16 =>
    simp only [CName.kind] at hs
    have t3 : (bom16le ++ (encScan .u16le x).1).take 2 = bom16le := by simp [bom16le]
    have d3 : (bom16le ++ (encScan .u16le x).1).drop 2 = (encScan .u16le x).1 := by simp [bom16le]
    simp only [incOut, sniff, sniffBom, CName.bom, CName.kind, t3, if_true, d3, hs]
  | u32 =>
    simp only [CName.kind] at hs
    have t3 : (bom32le ++ (encScan .u32le x).1).take 4 = bom32le := by simp [bom32le]
    have d3 : (bom32le ++ (encScan .u32le x).1).drop 4 = (encScan .u32le x).1 := by simp [bom32le]
    simp only [incOut, sniff, sniffBom, CName.bom, CName.kind, t3, if_true, d3, hs]

theorem incOut_encode (c : CName) (x : List Nat) (h : (encScan c.kind x).2 = true) :
    incOut c (c.bom ++ (encScan c.kind x).1) true = ⟨x, [], false⟩ := incOut_encode_f c x true h

/-- … and by the stateless decoder `codecs.getdecoder(name)` -/
theorem stateless_encode (c : CName) (x : List Nat) (h : (encScan c.kind x).2 = true) :
    stateless c (c.bom ++ (encScan c.kind x).1) = ⟨x, [], false⟩ := by
  have hs := scan_encScan c.kind x (encScan c.kind x).1 true (by rw [← h])
  cases c with
  | plain k => simpa [stateless, CName.bom, CName.kind] using hs
  | u8sig =>
    simp only [CName.kind, Kind.first] at hs
    have t3 : (bom8 ++ (encScan .u8 x).1).take 3 = bom8 := by simp [bom8]
    have d3 : (bom8 ++ (encScan .u8 x).1).drop 3 = (encScan .u8 x).1 := by simp [bom8]
    simp only [stateless, CName.bom, CName.kind, t3, if_true, d3, hs]
  | u16 =>
    simp only [CName.kind] at hs
    have t3 : (bom16le ++ (encScan .u16le x).1).take 2 = bom16le := by simp [bom16le]
    have d3 : (bom16le ++ (encScan .u16le x).1).drop 2 = (encScan .u16le x).1 := by simp [bom16le]
    simp only [stateless, bomScan, CName.bom, CName.kind, t3, if_true, d3, hs]
  | u32 =>
    simp only [CName.kind] at hs
    have t3 : (bom32le ++ (encScan .u32le x).1).take 4 = bom32le := by simp [bom32le]
    have d3 : (bom32le ++ (encScan .u32le x).1).drop 4 = (encScan .u32le x).1 := by simp [bom32le]
    simp only [stateless, bomScan, CName.bom, CName.kind, t3, if_true, d3, hs]

/-- a rewritten text is accepted by the rewriter as it is -/
theorem fixEncoding_twice (t g r : List Nat) (hq : ∀ c ∈ written g, c ≠ 0x22)
    (h : fixEncoding t g false = some r) : fixEncoding r g false = some r := by
  by_cases hl : t.length > 10
  · by_cases hp : prefix10.isPrefixOf t = true
    · cases hf : findQuote (t.drop 10) with
      | none => simp [fixEncoding, hl, hp, hf] at h
      | some k =>
        obtain ⟨rr, hr⟩ := findQuote_drop _ _ hf
        have e : r = prefix10 ++ written g ++ 0x22 :: rr := by
          simp only [fixEncoding, hl, hp, hf, if_true, hr, written, Option.some.injEq] at h
          exact h.symm
        rw [e]
        have l1 : (prefix10 ++ written g ++ 0x22 :: rr).length > 10 := by simp [prefix10]; omega
        have l2 : prefix10.isPrefixOf (prefix10 ++ written g ++ 0x22 :: rr) = true := by
          rw [List.isPrefixOf_iff_prefix, List.append_assoc]; exact List.prefix_append _ _
        have l3 : (prefix10 ++ written g ++ 0x22 :: rr).drop 10 = written g ++ 0x22 :: rr := by
          simp [prefix10]
        simp only [fixEncoding, l1, l2, if_true, l3, findQuote_noquote _ hq]
        simp [written]
    · have : r = t := by simp [fixEncoding, hl, hp] at h; exact h.symm
      rw [this]; simp [fixEncoding, hl, hp]
  · have hnp : isPrefixOf10 t = false := by
      cases hx : isPrefixOf10 t with
      | false => rfl
      | true => simp [fixEncoding, hl, hx] at h
    have : r = t := by simp [fixEncoding, hl, hnp] at h; exact h.symm
    rw [this]; simp [fixEncoding, hl, hnp]

theorem fix_some_ne_nil (t g r : List Nat) (h : fixEncoding t g false = some r) : r ≠ [] := by
  intro e
  subst e
  unfold fixEncoding at h
  split at h
  · split at h
    · cases hf : findQuote (t.drop 10) with
      | none => simp [hf] at h
      | some k => simp [hf, prefix10] at h
    · simp at h; subst h; simp at *
  · split at h
    · simp at h; subst h; simp [isPrefixOf10] at *
    · cases h

end CssVerif.Codec
