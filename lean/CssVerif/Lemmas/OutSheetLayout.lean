import CssVerif.Lemmas.OutRuleLayout
/-!
# T6.2 for rules and the sheet: the guard `RuleOk` and the main induction
-/
namespace CssVerif.Out
open CssVerif.Proto (Cps)

theorem stripWs_dropWhile (s : Cps) : stripWs (s.dropWhile isWs) = stripWs s := by
  induction s with
  | nil => rfl
  | cons c t ih =>
    simp only [List.dropWhile_cons]
    split
    · rename_i hc; rw [ih]; simp [stripWs, hc]
    · rfl

theorem stripWs_reverse (s : Cps) : stripWs s.reverse = (stripWs s).reverse := by
  simp [stripWs, List.filter_reverse]

theorem stripWs_strip (s : Cps) : stripWs (strip s) = stripWs s := by
  unfold strip
  rw [stripWs_reverse, stripWs_dropWhile, stripWs_reverse, stripWs_dropWhile, List.reverse_reverse]

theorem mem_takeWhile_true {α : Type} (f : α → Bool) : ∀ (l : List α) (a : α), a ∈ l.takeWhile f → f a = true
  | [], _, h => by simp at h
  | x :: t, a, h => by
    simp only [List.takeWhile_cons] at h
    split at h
    · rename_i hx
      rcases List.mem_cons.mp h with rfl | h'
      · exact hx
      · exact mem_takeWhile_true f t a h'
    · simp at h

theorem drop_length_append {α : Type} : ∀ (A B : List α), (A ++ B).drop A.length = B
  | [], _ => rfl
  | _ :: t, B => by simpa using drop_length_append t B

theorem rstrip_split (s : Cps) : s = rstrip s ++ (s.reverse.takeWhile isWs).reverse := by
  unfold rstrip
  rw [← List.reverse_append, List.takeWhile_append_dropWhile, List.reverse_reverse]

theorem allWs_takeWhile (s : Cps) : allWs (s.takeWhile isWs) = true := by
  unfold allWs
  rw [List.all_eq_true]
  intro a ha
  exact mem_takeWhile_true isWs s a ha

theorem stripWs_rstrip (s : Cps) : stripWs (rstrip s) = stripWs s := by
  unfold rstrip
  rw [stripWs_reverse, stripWs_dropWhile, stripWs_reverse, List.reverse_reverse]

theorem stripWs_stripKeepEsc (s : Cps) : stripWs (stripKeepEsc s) = stripWs s := by
  unfold stripKeepEsc
  simp only
  split
  · rw [stripWs_append, stripWs_rstrip]
    have hs := rstrip_split (lstrip s)
    have hd : (lstrip s).drop (rstrip (lstrip s)).length = ((lstrip s).reverse.takeWhile isWs).reverse := by
      have := drop_length_append (rstrip (lstrip s)) ((lstrip s).reverse.takeWhile isWs).reverse
      rw [← hs] at this
      exact this
    rw [hd]
    have hw : allWs (((lstrip s).reverse.takeWhile isWs).reverse.take 1) = true := by
      unfold allWs
      rw [List.all_eq_true]
      intro a ha
      have ha' := List.mem_of_mem_take ha
      rw [List.mem_reverse] at ha'
      exact mem_takeWhile_true isWs _ a ha'
    rw [stripWs_of_allWs hw, List.append_nil]
    unfold lstrip; exact stripWs_dropWhile s
  · rw [stripWs_rstrip]; unfold lstrip; exact stripWs_dropWhile s

/-- the text of an `@import` media list is tested for emptiness and for being `all` -/
def MediaStable (t : Cps) : Prop := Solid t ∧ (stripWs t = s_all → t = s_all)

theorem mediaTest_eq {a b : Cps} (ha : MediaStable a) (hb : MediaStable b) (e : stripWs a = stripWs b) :
    (!a.isEmpty && a != s_all) = (!b.isEmpty && b != s_all) := by
  have he := isEmpty_eq_of_solid ha.1 hb.1 e
  have hall : (a == s_all) = (b == s_all) := by
    cases h1 : a == s_all <;> cases h2 : b == s_all
    · rfl
    · have hb' : b = s_all := by simpa using h2
      have : a = s_all := ha.2 (by rw [e, hb', stripWs_all])
      simp [this] at h1
    · have ha' : a = s_all := by simpa using h1
      have : b = s_all := hb.2 (by rw [← e, ha', stripWs_all])
      simp [this] at h2
    · rfl
  simp only [bne, he, hall]

/-- items of the given types carry plain strings (they are re-typed as STRING / URI by the rule serializer) -/
def PlainE (f : Cps → Bool) (l : List EItem) : Prop := ∀ x ∈ l, f x.1 = true → x.2.isObj = false

def MediaOkE (l : List EItem) : Prop := ∀ x ∈ l, x.1 = t_media → MediaStable x.2.aval.text

theorem retype_rel {x y : EItem} (hxy : EItemRel x y) (hpl : x.2.isObj = false) (ty : Cps) (f g : Fl) :
    CallRel { v := x.2.aval, ty := ty, f := f } { v := y.2.aval, ty := ty, f := g } := by
  refine ⟨rfl, aval_rel ty hxy.2.1 (fun ho => ?_)⟩
  rw [hpl] at ho; exact absurd ho (by decide)

def VItemOk (p q : Prefs) (lv : Nat) : VItem → Prop
  | .var _ _ v => ObjOk p q lv lv v
  | .comment _ => True
  | .other ty o => specialTy ty = false ∧ ObjOk p q lv lv o

def SelsOk (p q : Prefs) (lv : Nat) (sels : List Obj) : Prop := ∀ o ∈ sels, ObjOk p q lv lv o

def DeclSolid (r : Prefs) (lv : Nat) (style : List DItem) (om : Bool) : Prop :=
  ∀ t, doDecl r lv style om = .ok t → Solid t

mutual
/-- Guard of the layout theorem at rule level: the nested objects are well typed (`ObjOk`), and every text the
serializer tests for emptiness (declaration-block text, selector list, variables block, margin-rule texts, `@import`
media list) is not white-space-only under either record. -/
def RuleOk (p q : Prefs) (lv sl : Nat) : Rule → Prop
  | .comment _ => True
  | .charset _ _ => True
  | .import_ _ _ _ _ items => ItemsOk p q lv lv items ∧
      PlainE (fun t => t == t_href || t == t_name) (evalItems p lv items) ∧
      MediaOkE (evalItems p lv items) ∧ MediaOkE (evalItems q lv items)
  | .namespace_ _ _ _ _ _ items => ItemsOk p q lv lv items ∧ PlainE (· == t_namespaceURI) (evalItems p lv items)
  | .media _ _ _ media _ items rules => ObjOk p q lv lv media ∧ ItemsOk p q lv lv items ∧ RulesOk p q lv sl rules
  | .page _ _ _ sel style rules => ItemsOk p q lv lv sel ∧ DItemsOk p q lv lv style ∧ RulesOk p q lv sl rules ∧
      (∀ ts, doRules p lv sl rules = .ok ts → Solid (pageRulesText p ts) ∧
        DeclSolid p lv style (pageRulesText p ts).isEmpty) ∧
      (∀ ts, doRules q lv sl rules = .ok ts → Solid (pageRulesText q ts) ∧
        DeclSolid q lv style (pageRulesText q ts).isEmpty)
  | .margin _ _ _ style => DItemsOk p q lv lv style ∧ DeclSolid p lv style true ∧ DeclSolid q lv style true
  | .fontface _ _ _ items style => ItemsOk p q lv lv items ∧ DItemsOk p q lv lv style ∧
      DeclSolid p lv style true ∧ DeclSolid q lv style true
  | .style _ selWf sels style => SelsOk p q lv sels ∧ DItemsOk p q (lv + 1) (lv + 1) style ∧
      DeclSolid p (lv + 1) style true ∧ DeclSolid q (lv + 1) style true ∧
      Solid (doSelectorList p lv selWf sels) ∧ Solid (doSelectorList q lv selWf sels)
  | .unknown _ => True
  | .variables _ _ _ items vars => ItemsOk p q lv lv items ∧ (∀ v ∈ vars, VItemOk p q lv v) ∧
      Solid (doVarDecl p lv vars) ∧ Solid (doVarDecl q lv vars)
def RulesOk (p q : Prefs) (lv sl : Nat) : List Rule → Prop
  | [] => True
  | r :: t => RuleOk p q lv sl r ∧ RulesOk p q lv sl t
end

theorem atKeyword_contentEq {p q : Prefs} (h : ContentEq p q) (atk : Cps) (kw : Option Cps) :
    atKeyword p atk kw = atKeyword q atk kw := by
  unfold atKeyword; rw [h.defaultAtKeyword]

/-- relation of the results of `doRule` under the two records -/
abbrev TextRel : Except Err Cps → Except Err Cps → Prop := ExRel (fun a b => stripWs a = stripWs b)

theorem textRel_pure {a b : Cps} (e : stripWs a = stripWs b) :
    TextRel (pure a) (pure b) := by simp [TextRel, ExRel, pure, Except.pure, e]

section
variable {p q : Prefs} (hp : WsPrefs p) (hq : WsPrefs q) (h : ContentEq p q)
include hp hq h

theorem importCalls_rel (hs : Bool) {a b : List EItem} (r : All2 EItemRel a b)
    (hpl : PlainE (fun t => t == t_href || t == t_name) a) (hma : MediaOkE a) (hmb : MediaOkE b) :
    All2 CallRel (importCalls p hs a) (importCalls q hs b) := by
  unfold importCalls
  induction r with
  | nil => exact .nil
  | @cons x y l m hxy _ ih =>
    have ih' := ih (fun z hz => hpl z (List.mem_cons_of_mem _ hz)) (fun z hz => hma z (List.mem_cons_of_mem _ hz))
      (fun z hz => hmb z (List.mem_cons_of_mem _ hz))
    simp only [List.flatMap_cons]
    refine All2.append ?_ ih'
    obtain ⟨tx, vx⟩ := x
    obtain ⟨ty, vy⟩ := y
    have e : tx = ty := hxy.1
    subst e
    simp only
    by_cases h1 : tx == t_href
    · have hp1 := hpl (tx, vx) List.mem_cons_self (by simp [h1])
      simp only [h1, if_true, h.importHrefFormat]
      split <;> exact .cons (retype_rel hxy hp1 _ _ _) .nil
    · simp only [h1, Bool.false_eq_true, if_false]
      by_cases h2 : tx == t_media
      · have e2 : tx = t_media := by simpa using h2
        have sa := hma (tx, vx) List.mem_cons_self e2
        have sb := hmb (tx, vy) List.mem_cons_self e2
        have et : stripWs vx.aval.text = stripWs vy.aval.text := by
          have := hxy.2.1
          cases vx <;> cases vy <;> simp only [EValRel] at this <;> first | (subst this; rfl) | rfl | exact this
        simp only [h2, if_true, mediaTest_eq sa sb et]
        split
        · exact .cons ⟨rfl, AValRel.strs specialTy_None et⟩ .nil
        · exact .nil
      · simp only [h2, Bool.false_eq_true, if_false]
        by_cases h3 : tx == t_name
        · have hp1 := hpl (tx, vx) List.mem_cons_self (by simp [h3])
          simp only [h3, if_true]
          exact .cons (retype_rel hxy hp1 _ _ _) .nil
        · simp only [h3, Bool.false_eq_true, if_false]
          exact .cons (avalCall_rel hxy _ _) .nil

theorem namespaceCalls_rel {a b : List EItem} (r : All2 EItemRel a b) (hpl : PlainE (· == t_namespaceURI) a) :
    All2 CallRel (namespaceCalls a) (namespaceCalls b) := by
  unfold namespaceCalls
  induction r with
  | nil => exact .nil
  | @cons x y l m hxy _ ih =>
    have ih' := ih (fun z hz => hpl z (List.mem_cons_of_mem _ hz))
    simp only [List.map_cons]
    refine .cons ?_ ih'
    obtain ⟨tx, vx⟩ := x
    obtain ⟨ty, vy⟩ := y
    have e : tx = ty := hxy.1
    subst e
    simp only
    split
    · rename_i h1
      exact retype_rel hxy (hpl (tx, vx) List.mem_cons_self h1) _ _ _
    · exact avalCall_rel hxy _ _

theorem doSelectorList_layout (lv : Nat) (wf : Bool) (sels : List Obj) (ok : SelsOk p q lv sels) :
    stripWs (doSelectorList p lv wf sels) = stripWs (doSelectorList q lv wf sels) := by
  unfold doSelectorList
  split
  · rw [stripWs_joinWith', stripWs_joinWith']
    simp only [stripWs_append, stripWs_of_allWs hp.listItemSpacer, stripWs_of_allWs hq.listItemSpacer, List.map_map]
    congr 1
    apply List.map_congr_left
    intro o ho
    exact serObj_layout hp hq h lv lv o (ok o ho)
  · rfl

theorem varDeclCalls_rel (lv : Nat) : ∀ vars : List VItem, (∀ v ∈ vars, VItemOk p q lv v) →
    All2 CallRel (varDeclCalls p lv vars) (varDeclCalls q lv vars)
  | [], _ => by simp only [varDeclCalls]; exact .nil
  | it :: rest, ok => by
    have ih := varDeclCalls_rel lv rest (fun v hv => ok v (List.mem_cons_of_mem _ hv))
    have hit := ok it List.mem_cons_self
    simp only [varDeclCalls]
    refine All2.append ?_ ih
    have els : AValRel t_None (.str p.lineSeparator) (.str q.lineSeparator) :=
      AValRel.strs specialTy_None (by rw [stripWs_of_allWs hp.lineSeparator, stripWs_of_allWs hq.lineSeparator])
    cases it with
    | var name nname v =>
      simp only [h.normalizedVarNames, h.omitLastSemicolon]
      refine All2.append (.cons (CallRel.same _) (.cons (CallRel.same _)
        (.cons ⟨rfl, AValRel.strs specialTy_None (serObj_layout hp hq h lv lv v hit)⟩ .nil))) ?_
      split
      · exact .cons (CallRel.same _) .nil
      · exact .nil
    | comment t =>
      simp only [doComment_contentEq h]
      exact .cons (CallRel.same _) (.cons ⟨rfl, els⟩ .nil)
    | other ty o =>
      exact .cons ⟨rfl, AValRel.strs hit.1 (serObj_layout hp hq h lv lv o hit.2)⟩ (.cons ⟨rfl, els⟩ .nil)

theorem doVarDecl_layout (lv : Nat) (vars : List VItem) (ok : ∀ v ∈ vars, VItemOk p q lv v) :
    stripWs (doVarDecl p lv vars) = stripWs (doVarDecl q lv vars) := by
  unfold doVarDecl
  split
  · rfl
  · rw [stripWs_stripKeepEsc, stripWs_stripKeepEsc]
    exact calls_layout hp hq h (varDeclCalls_rel hp hq h lv vars ok)

/-- `match atKeyword … with | .error e => .error e | .ok k => pure (f k)` under both records -/
theorem atKeyword_bind (atk : Cps) (kw : Option Cps) {f g : Cps → Cps} (hfg : ∀ k, stripWs (f k) = stripWs (g k)) :
    TextRel (match atKeyword p atk kw with | .error e => .error e | .ok k => pure (f k))
            (match atKeyword q atk kw with | .error e => .error e | .ok k => pure (g k)) := by
  rw [atKeyword_contentEq h]
  cases atKeyword q atk kw with
  | error e => simp [TextRel, ExRel]
  | ok k => exact textRel_pure (hfg k)

mutual
theorem doRule_layout (lv sl : Nat) : ∀ r : Rule, RuleOk p q lv sl r → TextRel (doRule p lv sl r) (doRule q lv sl r)
  | .comment t, _ => by
    simp only [doRule]; exact textRel_pure (by rw [doComment_contentEq h])
  | .charset wf enc, _ => by
    simp only [doRule]; exact textRel_pure rfl
  | .import_ wf atk kw hs items, ok => by
    simp only [doRule]
    split
    · exact atKeyword_bind hp hq h atk kw (fun k => importTail_layout hp hq h lv lv k
        (importCalls_rel hp hq h hs (evalItems_layout hp hq h lv lv items ok.1) ok.2.1 ok.2.2.1 ok.2.2.2))
    · exact textRel_pure rfl
  | .namespace_ wf atk kw pfx uri items, ok => by
    simp only [doRule]
    split
    · exact atKeyword_bind hp hq h atk kw (fun k => importTail_layout hp hq h lv lv k
        (namespaceCalls_rel hp hq h (evalItems_layout hp hq h lv lv items ok.1) ok.2))
    · exact textRel_pure rfl
  | .media mwf atk kw media name items rules, ok => by
    simp only [doRule]
    split
    · exact textRel_pure rfl
    · rw [atKeyword_contentEq h]
      cases atKeyword q atk kw with
      | error e => simp [TextRel, ExRel]
      | ok k =>
        simp only
        have ih := doRules_layout lv sl rules ok.2.2
        revert ih
        generalize doRules p lv sl rules = A
        generalize doRules q lv sl rules = B
        intro ih
        cases A <;> cases B <;> simp only [ExRel] at ih
        · simp [TextRel, ExRel, ih]
        · exact textRel_pure (mediaTail_layout hp hq h lv k (serObj_layout hp hq h lv lv media ok.1) name
            (evalItems_layout hp hq h lv lv items ok.2.1) ih)
  | .page wf atk kw sel style rules, ok => by
    simp only [doRule]
    have ih := doRules_layout lv sl rules ok.2.2.1
    have g1 := ok.2.2.2.1
    have g2 := ok.2.2.2.2
    revert ih g1 g2
    generalize doRules p lv sl rules = A
    generalize doRules q lv sl rules = B
    intro ih g1 g2
    cases A <;> cases B <;> simp only [ExRel] at ih
    · simp [TextRel, ExRel, ih]
    · rename_i ts ts'
      have s1 := g1 ts rfl
      have s2 := g2 ts' rfl
      have er : stripWs (pageRulesText p ts) = stripWs (pageRulesText q ts') := by
        unfold pageRulesText
        rw [stripWs_pagerules hp, stripWs_pagerules hq, ih]
      have hre : (pageRulesText p ts).isEmpty = (pageRulesText q ts').isEmpty :=
        isEmpty_eq_of_solid s1.1 s2.1 er
      simp only
      have dl := doDecl_layout hp hq h lv lv style ok.2.1 (pageRulesText p ts).isEmpty
      have d1 := s1.2
      have d2 := s2.2
      rw [← hre] at d2
      rw [← hre]
      unfold DeclSolid at d1 d2
      revert dl d1 d2
      generalize doDecl p lv style (pageRulesText p ts).isEmpty = C
      generalize doDecl q lv style (pageRulesText p ts).isEmpty = D
      intro dl d1 d2
      cases C <;> cases D <;> simp only [ExRel] at dl
      · simp [TextRel, ExRel, dl]
      · rename_i st st'
        have hse : st.isEmpty = st'.isEmpty := isEmpty_eq_of_solid (d1 st rfl) (d2 st' rfl) dl
        simp only [hse]
        split
        · exact atKeyword_bind hp hq h atk kw (fun k => pageTail_layout hp hq h lv k
            (evalItems_layout hp hq h lv lv sel ok.1) dl er hse hre)
        · exact textRel_pure rfl
  | .margin atk kw wf style, ok => by
    simp only [doRule]
    cases atk with
    | none => exact textRel_pure rfl
    | some a =>
      simp only
      split
      · exact textRel_pure rfl
      · have dl := doDecl_layout hp hq h lv lv style ok.1 true
        have d1 := ok.2.1
        have d2 := ok.2.2
        unfold DeclSolid at d1 d2
        revert dl d1 d2
        generalize doDecl p lv style true = C
        generalize doDecl q lv style true = D
        intro dl d1 d2
        cases C <;> cases D <;> simp only [ExRel] at dl
        · simp [TextRel, ExRel, dl]
        · rename_i st st'
          have hse : st.isEmpty = st'.isEmpty := isEmpty_eq_of_solid (d1 st rfl) (d2 st' rfl) dl
          simp only [hse]
          split
          · exact atKeyword_bind hp hq h a kw (fun k => marginTail_layout hp hq h lv lv k dl)
          · exact textRel_pure rfl
  | .fontface wf atk kw items style, ok => by
    simp only [doRule]
    have dl := doDecl_layout hp hq h lv lv style ok.2.1 true
    have d1 := ok.2.2.1
    have d2 := ok.2.2.2
    unfold DeclSolid at d1 d2
    revert dl d1 d2
    generalize doDecl p lv style true = C
    generalize doDecl q lv style true = D
    intro dl d1 d2
    cases C <;> cases D <;> simp only [ExRel] at dl
    · simp [TextRel, ExRel, dl]
    · rename_i st st'
      have hse : st.isEmpty = st'.isEmpty := isEmpty_eq_of_solid (d1 st rfl) (d2 st' rfl) dl
      simp only [hse]
      split
      · exact atKeyword_bind hp hq h atk kw (fun k => blockRule_layout hp hq h lv lv k
          (evalItems_layout hp hq h lv lv items ok.1) dl)
      · exact textRel_pure rfl
  | .style wf selWf sels style, ok => by
    simp only [doRule]
    have es := doSelectorList_layout hp hq h lv selWf sels ok.1
    have hse := isEmpty_eq_of_solid ok.2.2.2.2.1 ok.2.2.2.2.2 es
    rw [hse]
    split
    · exact textRel_pure rfl
    · have dl := doDecl_layout hp hq h (lv + 1) (lv + 1) style ok.2.1 true
      have d1 := ok.2.2.1
      have d2 := ok.2.2.2.1
      unfold DeclSolid at d1 d2
      revert dl d1 d2
      generalize doDecl p (lv + 1) style true = C
      generalize doDecl q (lv + 1) style true = D
      intro dl d1 d2
      cases C <;> cases D <;> simp only [ExRel] at dl
      · simp [TextRel, ExRel, dl]
      · rename_i st st'
        exact textRel_pure (styleTail_layout hp hq h lv sl es dl (isEmpty_eq_of_solid (d1 st rfl) (d2 st' rfl) dl))
  | .unknown r, _ => by
    simp only [doRule]
    exact ExRel.of_map (doURule_layout hp hq h lv lv r)
  | .variables wf atk kw items vars, ok => by
    simp only [doRule]
    have ev := doVarDecl_layout hp hq h lv vars ok.2.1
    have hse := isEmpty_eq_of_solid ok.2.2.1 ok.2.2.2 ev
    rw [hse, h.resolveVariables]
    split
    · exact atKeyword_bind hp hq h atk kw (fun k => blockRule_layout hp hq h lv lv k
        (evalItems_layout hp hq h lv lv items ok.1) ev)
    · exact textRel_pure rfl
theorem doRules_layout (lv sl : Nat) : ∀ rs : List Rule, RulesOk p q lv sl rs →
    ExRel (fun a b => a.map stripWs = b.map stripWs) (doRules p lv sl rs) (doRules q lv sl rs)
  | [], _ => by simp [doRules, ExRel, pure, Except.pure]
  | r :: rest, ok => by
    simp only [doRules]
    have h1 := doRule_layout lv sl r ok.1
    have h2 := doRules_layout lv sl rest ok.2
    revert h1 h2
    generalize doRule p lv sl r = A
    generalize doRule q lv sl r = B
    generalize doRules p lv sl rest = C
    generalize doRules q lv sl rest = D
    intro h1 h2
    cases A <;> cases B <;> simp only [TextRel, ExRel] at h1
    · simp [ExRel, h1]
    · cases C <;> cases D <;> simp only [ExRel] at h2
      · simp [ExRel, h2]
      · simp [ExRel, pure, Except.pure, h1, h2]
end

/-- the guard for a sheet: `RulesOk` of the rules that survive the namespace filter, at `_level` 0 -/
def SheetOk (p q : Prefs) (s : Sheet) : Prop :=
  RulesOk p q 0 0 (s.rules.filter fun r => !nsDropped p s.usedUris r)

theorem doSheet_layout (sl sl' : Nat) (hl : p.lineNumbers = false) (hl' : q.lineNumbers = false) (s : Sheet)
    (ok : SheetOk p q s) : (doSheet p sl s).map stripWs = (doSheet q sl' s).map stripWs := by
  have hns : (fun r => !nsDropped p s.usedUris r) = (fun r => !nsDropped q s.usedUris r) := by
    funext r
    cases r <;> simp [nsDropped, h.keepUsedNamespaceRulesOnly]
  unfold doSheet
  have ih := doRules_layout hp hq h 0 0 _ ok
  rw [← hns]
  revert ih
  generalize doRules p 0 0 (s.rules.filter fun r => !nsDropped p s.usedUris r) = A
  generalize doRules q 0 0 (s.rules.filter fun r => !nsDropped p s.usedUris r) = B
  intro ih
  cases A <;> cases B <;> simp only [ExRel] at ih
  · simp [Except.map, ih]
  · simp only [lineNumbers, hl, hl', Bool.false_and, Bool.false_eq_true, if_false, pure, Except.pure, Except.map]
    rw [stripWs_sheetJoin hp, stripWs_sheetJoin hq, ih]

end

end CssVerif.Out
