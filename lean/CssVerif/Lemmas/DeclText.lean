import CssVerif.Lemmas.Decl
import CssVerif.Model.DeclText
import CssVerif.Model.DeclAttr
/-!
# Lemmas about the rendering of the two block kinds (`Model/DeclText.lean`) — helpers for `Props/C10.lean`
-/
namespace CssVerif.Decl
open CssVerif.Proto

/-! ## the style block: layout -/

/-- the pieces one item of the (filtered) sequence appends before the separator; `isLast` = it is the last item -/
def linePieces (pf : SPrefs) (re : REnv) (om isLast : Bool) : Item → Option (List Cps)
  | .comment t => if pf.keepComments then some [commentText pf t] else none
  | .prop p =>
    if propTextP pf re p != [] then some ([propTextP pf re p] ++ (if om && isLast then [] else [[59]])) else none
  | .other t => if t != [] then some [t] else none

/-- the line one item contributes, without the separator: a comment, `name: value [priority]` followed by `;`
unless it is the last item and the last semicolon is omitted, or the text of an unknown rule -/
def lineOf (pf : SPrefs) (re : REnv) (om isLast : Bool) : Item → Option Cps
  | .comment t => if pf.keepComments then some (commentText pf t) else none
  | .prop p =>
    if propTextP pf re p != [] then some (propTextP pf re p ++ (if om && isLast then [] else [59])) else none
  | .other t => if t != [] then some t else none

theorem lineOf_pieces (pf : SPrefs) (re : REnv) (om isLast : Bool) (it : Item) :
    lineOf pf re om isLast it = (linePieces pf re om isLast it).map List.flatten := by
  cases it with
  | comment t => by_cases hk : pf.keepComments = true <;> simp [lineOf, linePieces, hk]
  | prop p =>
    by_cases ht : propTextP pf re p = []
    · simp [lineOf, linePieces, ht]
    · cases om <;> cases isLast <;> simp [lineOf, linePieces, ht]
  | other t => by_cases ht : t = [] <;> simp [lineOf, linePieces, ht]

/-- the lines of the rendering, in order -/
def linesOf (pf : SPrefs) (re : REnv) (om : Bool) : List Item → List Cps
  | [] => []
  | it :: rest => (lineOf pf re om rest.isEmpty it).toList ++ linesOf pf re om rest

def linesPieces (pf : SPrefs) (re : REnv) (om : Bool) : List Item → List (List Cps)
  | [] => []
  | it :: rest => (linePieces pf re om rest.isEmpty it).toList ++ linesPieces pf re om rest

theorem linesOf_pieces (pf : SPrefs) (re : REnv) (om : Bool) (l : List Item) :
    linesOf pf re om l = (linesPieces pf re om l).map List.flatten := by
  induction l with
  | nil => rfl
  | cons it rest ih =>
    simp only [linesOf, linesPieces, lineOf_pieces, ih, List.map_append]
    cases linePieces pf re om rest.isEmpty it <;> simp

def withSep (sep : Cps) (lines : List (List Cps)) : List Cps := lines.flatMap (fun l => l ++ [sep])

theorem itemOutP_lineOf (pf : SPrefs) (re : REnv) (sep : Cps) (om : Bool) (n i : Nat) (it : Item) (rest : List Item)
    (h : i + (rest.length + 1) = n) :
    itemOutP pf re sep om n i it = withSep sep (linePieces pf re om rest.isEmpty it).toList := by
  have hl : (i == n - 1) = rest.isEmpty := by
    cases rest with
    | nil => simp at h; simp; omega
    | cons a b => simp at h; simp; omega
  cases it with
  | comment t => by_cases hk : pf.keepComments = true <;> simp [itemOutP, linePieces, withSep, hk]
  | prop p =>
    by_cases ht : propTextP pf re p = []
    · simp [itemOutP, linePieces, withSep, ht]
    · cases om <;> cases hre : rest.isEmpty <;> simp [itemOutP, linePieces, withSep, ht, hl, hre]
  | other t => by_cases ht : t = [] <;> simp [itemOutP, linePieces, withSep, ht]

theorem withSep_append (sep : Cps) (a b : List (List Cps)) :
    withSep sep (a ++ b) = withSep sep a ++ withSep sep b := by
  simp [withSep]

theorem outPiecesP_lines (pf : SPrefs) (re : REnv) (sep : Cps) (om : Bool) (n : Nat) (l : List Item) (i : Nat)
    (h : i + l.length = n) : outPiecesP pf re sep om n l i = withSep sep (linesPieces pf re om l) := by
  induction l generalizing i with
  | nil => simp [outPiecesP, linesPieces, withSep]
  | cons it rest ih =>
    simp only [outPiecesP, linesPieces, withSep_append]
    rw [itemOutP_lineOf pf re sep om n i it rest (by simpa using h), ih (i + 1) (by simp at h; omega)]

theorem withSep_getLast (sep : Cps) (lines : List (List Cps)) (h : lines ≠ []) :
    (withSep sep lines).getLast? = some sep := by
  induction lines with
  | nil => exact absurd rfl h
  | cons a t ih =>
    cases t with
    | nil => simp [withSep]
    | cons b u =>
      have := ih (by simp)
      have e : withSep sep (a :: b :: u) = (a ++ [sep]) ++ withSep sep (b :: u) := by simp [withSep]
      rw [e, List.getLast?_append, this]
      simp

theorem withSep_dropLast_flatten (sep : Cps) (lines : List (List Cps)) :
    (withSep sep lines).dropLast.flatten = joinWith sep (lines.map List.flatten) := by
  induction lines with
  | nil => simp [withSep, joinWith]
  | cons a t ih =>
    cases t with
    | nil => simp [withSep, joinWith]
    | cons b u =>
      have e : withSep sep (a :: b :: u) = (a ++ [sep]) ++ withSep sep (b :: u) := by simp [withSep]
      have hne : withSep sep (b :: u) ≠ [] := by simp [withSep]
      rw [e, List.dropLast_append_of_ne_nil hne, List.flatten_append, ih]
      simp [joinWith]

/-- the text is the lines joined by the separator (no separator after the last line) -/
theorem cssTextSep_joinWith (pf : SPrefs) (re : REnv) (sep : Cps) (omitArg : Bool) (seq : List Item) :
    cssTextSep pf re sep omitArg seq =
      joinWith sep (linesOf pf re (omitArg && pf.omitLastSemicolon) (declSeqP pf seq)) := by
  unfold cssTextSep
  rw [linesOf_pieces]
  by_cases h0 : seq.length > 0
  · simp only [h0, if_true]
    rw [outPiecesP_lines pf re sep _ _ _ 0 (by simp)]
    by_cases hl : linesPieces pf re (omitArg && pf.omitLastSemicolon) (declSeqP pf seq) = []
    · simp [hl, withSep, joinWith]
    · have hne : withSep sep (linesPieces pf re (omitArg && pf.omitLastSemicolon) (declSeqP pf seq)) ≠ [] := by
        intro hc
        have := withSep_getLast sep _ hl
        rw [hc] at this
        simp at this
      rw [withSep_getLast sep _ hl, if_pos (by simp [hne])]
      exact withSep_dropLast_flatten _ _
  · have : seq = [] := by
      cases seq with
      | nil => rfl
      | cons a b => simp at h0
    subst this
    simp [declSeqP, keepIdx, linesPieces, joinWith]

/-! ## the style block: which entries are written -/

/-- keep the non-properties, and the property at index `j` when `q j p` -/
def keepBy (q : Nat → Pty → Bool) : List Item → Nat → List Item
  | [], _ => []
  | .prop p :: rest, i => if q i p then .prop p :: keepBy q rest (i + 1) else keepBy q rest (i + 1)
  | it :: rest, i => it :: keepBy q rest (i + 1)

theorem keepIdx_keepBy (eff : List (Option Nat)) (l : List Item) (i : Nat) :
    keepIdx eff l i = keepBy (fun j _ => eff.contains (some j)) l i := by
  induction l generalizing i with
  | nil => rfl
  | cons it rest ih => cases it <;> simp [keepIdx, keepBy, ih]

theorem keepBy_congr (q q' : Nat → Pty → Bool) (l : List Item) (i : Nat)
    (h : ∀ j p, l[j]? = some (.prop p) → q (i + j) p = q' (i + j) p) : keepBy q l i = keepBy q' l i := by
  induction l generalizing i with
  | nil => rfl
  | cons it rest ih =>
    have hr : ∀ j p, rest[j]? = some (.prop p) → q (i + 1 + j) p = q' (i + 1 + j) p := by
      intro j p hj
      have := h (j + 1) p (by simpa using hj)
      have e : i + (j + 1) = i + 1 + j := by omega
      rw [e] at this; exact this
    cases it with
    | prop p =>
      have h0 := h 0 p (by simp)
      simp only [Nat.add_zero] at h0
      simp [keepBy, h0, ih (i + 1) hr]
    | comment t => simp [keepBy, ih (i + 1) hr]
    | other t => simp [keepBy, ih (i + 1) hr]

theorem mem_props_of_getElem (seq : List Item) (i : Nat) (p : Pty) (h : seq[i]? = some (.prop p)) : p ∈ props seq := by
  induction seq generalizing i with
  | nil => simp at h
  | cons x t ih =>
    cases i with
    | zero => simp at h; subst h; simp [props]
    | succ k =>
      have := ih k (by simpa using h)
      cases x <;> simp [props, this]

theorem effectiveIdx_sound (seq : List Item) (n : Cps) (i : Nat) (h : effectiveIdx seq n = some i) :
    ∃ p, propAt seq i = some p ∧ p.name = n := by
  rw [effectiveIdx_spec] at h
  cases hi : lastIdx (liftQ (fun p => p.name == n && p.prio != [])) seq with
  | some k =>
    rw [hi] at h
    simp only [Option.some.injEq] at h
    subst h
    obtain ⟨p, hp, hq⟩ := lastIdx_liftQ_propAt _ _ _ hi
    exact ⟨p, hp, by simp at hq; exact hq.1⟩
  | none =>
    rw [hi] at h
    obtain ⟨p, hp, hq⟩ := lastIdx_liftQ_propAt _ _ _ h
    exact ⟨p, hp, by simpa using hq⟩

/-- with `keepAllProperties` off an entry is written iff it is the effective entry of its name -/
theorem declSeqP_effective (pf : SPrefs) (seq : List Item) (hk : pf.keepAllProperties = false) :
    declSeqP pf seq = keepBy (fun j p => effectiveIdx seq p.name == some j) seq 0 := by
  unfold declSeqP
  simp only [hk, Bool.false_eq_true, if_false]
  rw [keepIdx_keepBy]
  apply keepBy_congr
  intro j p hj
  simp only [Nat.zero_add]
  have hmem := mem_props_of_getElem seq j p hj
  have hpa : propAt seq j = some p := by simp [propAt, hj]
  have hgp : getPropertiesIdx seq [] false = (nnames seq).map (effectiveIdx seq) := by
    simp [getPropertiesIdx]
  show (getPropertiesIdx seq [] false).contains (some j) = (effectiveIdx seq p.name == some j)
  rw [hgp]
  by_cases he : effectiveIdx seq p.name = some j
  · have : p.name ∈ nnames seq := by
      rw [nnames_lastOcc, mem_lastOcc]; exact List.mem_map.mpr ⟨p, hmem, rfl⟩
    have h2 : some j ∈ (nnames seq).map (effectiveIdx seq) := List.mem_map.mpr ⟨p.name, this, he⟩
    rw [List.contains_iff_mem.mpr h2]
    simp [he]
  · have h2 : some j ∉ (nnames seq).map (effectiveIdx seq) := by
      intro hc
      obtain ⟨n, _, hn⟩ := List.mem_map.mp hc
      obtain ⟨p', hp', hname⟩ := effectiveIdx_sound seq n j hn
      rw [hpa] at hp'
      simp only [Option.some.injEq] at hp'
      subst hp'
      rw [← hname] at hn
      exact he hn
    have h3 : ((nnames seq).map (effectiveIdx seq)).contains (some j) = false := by
      rw [← Bool.not_eq_true, List.contains_iff_mem]; exact h2
    rw [h3]
    simp [he]

theorem nonProps_keepBy (q : Nat → Pty → Bool) (l : List Item) (i : Nat) : nonProps (keepBy q l i) = nonProps l := by
  induction l generalizing i with
  | nil => rfl
  | cons it rest ih =>
    cases it with
    | prop p => by_cases h : q i p = true <;> simp [keepBy, nonProps, h, ih]
    | comment t => simp [keepBy, nonProps, ih]
    | other t => simp [keepBy, nonProps, ih]

theorem props_keepBy_sublist (q : Nat → Pty → Bool) (l : List Item) (i : Nat) :
    (props (keepBy q l i)).Sublist (props l) := by
  induction l generalizing i with
  | nil => simp [keepBy, props]
  | cons it rest ih =>
    cases it with
    | prop p =>
      by_cases h : q i p = true
      · simp only [keepBy, h, if_true, props]; exact (ih (i + 1)).cons₂ p
      · simp only [keepBy, h, props]; exact (ih (i + 1)).cons p
    | comment t => simpa [keepBy, props] using ih (i + 1)
    | other t => simpa [keepBy, props] using ih (i + 1)

/-- a kept property sits at some index `j ≥ i` of the walk, and `q j p` holds there -/
theorem mem_props_keepBy (q : Nat → Pty → Bool) (l : List Item) (i : Nat) (p : Pty) (h : p ∈ props (keepBy q l i)) :
    ∃ j, l[j]? = some (.prop p) ∧ q (i + j) p = true := by
  induction l generalizing i with
  | nil => simp [keepBy, props] at h
  | cons it rest ih =>
    have step : p ∈ props (keepBy q rest (i + 1)) → ∃ j, (it :: rest)[j]? = some (.prop p) ∧ q (i + j) p = true := by
      intro hm
      obtain ⟨j, hj, hq⟩ := ih (i + 1) hm
      exact ⟨j + 1, by simpa using hj, by rw [show i + (j + 1) = i + 1 + j by omega]; exact hq⟩
    cases it with
    | prop p' =>
      by_cases hq : q i p' = true
      · simp only [keepBy, hq, if_true, props, List.mem_cons] at h
        rcases h with h | h
        · subst h; exact ⟨0, by simp, by simpa using hq⟩
        · exact step h
      · simp only [keepBy, hq, props] at h
        exact step h
    | comment t => simp only [keepBy, props] at h; exact step h
    | other t => simp only [keepBy, props] at h; exact step h

/-- the converse: the property at index `j` is kept when `q` holds there -/
theorem props_keepBy_mem (q : Nat → Pty → Bool) (l : List Item) (i j : Nat) (p : Pty)
    (hj : l[j]? = some (.prop p)) (hq : q (i + j) p = true) : p ∈ props (keepBy q l i) := by
  induction l generalizing i j with
  | nil => simp at hj
  | cons it rest ih =>
    cases j with
    | zero =>
      simp at hj; subst hj
      simp at hq
      simp [keepBy, hq, props]
    | succ k =>
      have hr := ih (i + 1) k (by simpa using hj) (by rw [show i + 1 + k = i + (k + 1) by omega]; exact hq)
      cases it with
      | prop p' => by_cases h : q i p' = true <;> simp [keepBy, h, props, hr]
      | comment t => simpa [keepBy, props] using hr
      | other t => simpa [keepBy, props] using hr

/-- when `q j p` pins the index to a function of the name, the kept names are distinct -/
theorem keepBy_names_nodup (f : Cps → Option Nat) (l : List Item) (i : Nat) :
    ((props (keepBy (fun j p => f p.name == some j) l i)).map (·.name)).Nodup := by
  induction l generalizing i with
  | nil => simp [keepBy, props]
  | cons it rest ih =>
    cases it with
    | prop p =>
      by_cases h : (f p.name == some i) = true
      · simp only [keepBy, h, if_true, props, List.map_cons, List.nodup_cons]
        refine ⟨?_, ih (i + 1)⟩
        intro hc
        obtain ⟨p', hp', hn⟩ := List.mem_map.mp hc
        obtain ⟨j, _, hq⟩ := mem_props_keepBy _ rest (i + 1) p' hp'
        simp only [beq_iff_eq] at hq h
        rw [hn, h] at hq
        simp only [Option.some.injEq] at hq
        omega
      · simp only [keepBy, h, props]; exact ih (i + 1)
    | comment t => simpa [keepBy, props] using ih (i + 1)
    | other t => simpa [keepBy, props] using ih (i + 1)

/-! ## the variables block: the rendering modulo layout white space -/

/-- the text `Out` holds, with every white-space character deleted -/
def content (o : OutL) : Cps := stripWs o.reverse.flatten

theorem stripWs_append (a b : Cps) : stripWs (a ++ b) = stripWs a ++ stripWs b := by simp [stripWs]

theorem stripWs_allWs (s : Cps) (h : allWs s = true) : stripWs s = [] := by
  unfold stripWs allWs at *
  rw [List.filter_eq_nil_iff]
  intro a ha
  have := List.all_eq_true.mp h a ha
  simp [this]

theorem content_cons (x : Cps) (o : OutL) : content (x :: o) = content o ++ stripWs x := by
  simp [content, stripWs_append]

theorem content_cons_ws (x : Cps) (o : OutL) (h : allWs x = true) : content (x :: o) = content o := by
  rw [content_cons, stripWs_allWs x h]; simp

theorem content_removeLastIfS (o : OutL) : content (removeLastIfS o) = content o := by
  cases o with
  | nil => rfl
  | cons x r =>
    by_cases h : allWs x = true
    · simp [removeLastIfS, h, content_cons_ws]
    · simp [removeLastIfS, h]

theorem content_insertBeforeLast (o : OutL) (s : Cps) (h : allWs s = true) : content (insertBeforeLast o s) = content o := by
  cases o with
  | nil => simp [insertBeforeLast, content_cons_ws, h]
  | cons x r => simp [insertBeforeLast, content_cons, stripWs_allWs s h]

/-- the layout strings of the preferences are white space (true for the defaults, for `useMinified`, and for any
sensible setting) -/
structure LayoutWs (pf : SPrefs) : Prop where
  lineSeparator : allWs pf.lineSeparator = true
  propertyNameSpacer : allWs pf.propertyNameSpacer = true
  spacer : allWs pf.spacer = true
  listItemSpacer : allWs pf.listItemSpacer = true
  paranthesisSpacer : allWs pf.paranthesisSpacer = true
  indent : allWs pf.indent = true

theorem allWs_rep (n : Nat) (s : Cps) (h : allWs s = true) : allWs (rep n s) = true := by
  induction n with
  | zero => simp [rep, allWs]
  | succ k ih =>
    unfold rep allWs at *
    simp only [List.replicate_succ, List.flatten_cons, List.all_append, h, ih, Bool.and_self]

theorem stripWs_indentblock_brace (pf : SPrefs) (il : Nat) (hl : LayoutWs pf) :
    stripWs (indentblock pf [125] il) = [125] := by
  unfold indentblock
  by_cases he : pf.lineSeparator.isEmpty = true
  · simp [he, stripWs, isWs]
  · simp only [he, Bool.false_eq_true, if_false]
    have hnp : pf.lineSeparator.isPrefixOf [125] = false := by
      cases hls : pf.lineSeparator with
      | nil => simp [hls] at he
      | cons c t =>
        have := hl.lineSeparator
        rw [hls] at this
        simp only [allWs, List.all_cons, Bool.and_eq_true] at this
        have hc : c ≠ 125 := by
          intro hc; subst hc; simp [isWs] at this
        simp [List.isPrefixOf, hc]
    have hs : splitOn pf.lineSeparator [125] = [[125]] := by
      simp [splitOn, splitGo, hnp]
    rw [hs]
    simp only [List.map_cons, List.map_nil, joinWith, stripWs_append, stripWs_allWs _ (allWs_rep il _ hl.indent)]
    simp [stripWs, isWs]

/-- one `Out.append`: modulo white space exactly `val` is added (nothing for a dropped comment) -/
theorem content_outAppend (pf : SPrefs) (il : Nat) (o : OutL) (val : Cps) (isC : Bool) (hl : LayoutWs pf) :
    content (outAppend pf il o val isC) = content o ++ (if isC && !pf.keepComments then [] else stripWs val) := by
  have hsp : allWs ([32] : Cps) = true := by decide
  unfold outAppend
  by_cases h1 : (!isC && val == []) = true
  · have : val = [] := by simp at h1; exact h1.2
    have hc : isC = false := by simp at h1; exact h1.1
    simp [h1, this, hc, stripWs]
  · simp only [h1, Bool.false_eq_true, if_false]
    by_cases h2 : (isC && !pf.keepComments) = true
    · simp [h2]
    · simp only [h2, Bool.false_eq_true, if_false]
      -- the list after PRE and APPEND
      have hmid : ∀ o1 : OutL, content o1 = content o →
          content (if val == [125] && pf.indentClosingBrace then indentblock pf val il :: o1
            else val :: (match (if endsSp val && !endsEscSp val then removeLastIfS o1 else o1) with
              | [] => (if endsSp val && !endsEscSp val then removeLastIfS o1 else o1)
              | last :: _ =>
                if (([42] : Cps).isPrefixOf val && last == [47]) ||
                   (val == [61] && (last == [42] || last == [126] || last == [124] || last == [94] || last == [36]))
                then [32] :: (if endsSp val && !endsEscSp val then removeLastIfS o1 else o1)
                else (if endsSp val && !endsEscSp val then removeLastIfS o1 else o1)))
            = content o ++ stripWs val := by
        intro o1 ho1
        by_cases hb : (val == [125] && pf.indentClosingBrace) = true
        · have hv : val = [125] := by simp at hb; exact hb.1
          simp only [hb, if_true, content_cons, ho1]
          rw [hv, stripWs_indentblock_brace pf il hl]
          simp [stripWs, isWs]
        · simp only [hb, Bool.false_eq_true, if_false, content_cons]
          congr 1
          have ha : content (if endsSp val && !endsEscSp val then removeLastIfS o1 else o1) = content o := by
            by_cases hq : (endsSp val && !endsEscSp val) = true
            · simp only [hq, if_true, content_removeLastIfS, ho1]
            · simp only [hq, Bool.false_eq_true, if_false, ho1]
          generalize (if endsSp val && !endsEscSp val then removeLastIfS o1 else o1) = oa at ha
          cases oa with
          | nil => exact ha
          | cons last r =>
            simp only []
            split
            · rw [content_cons_ws _ _ hsp]; exact ha
            · exact ha
      have hpre : content (if !isC && isInfix val punctPre then removeLastIfS o else o) = content o := by
        by_cases hq : (!isC && isInfix val punctPre) = true
        · simp only [hq, if_true, content_removeLastIfS]
        · simp only [hq, Bool.false_eq_true, if_false]
      have hm := hmid _ hpre
      generalize (if val == [125] && pf.indentClosingBrace then indentblock pf val il ::
          (if !isC && isInfix val punctPre then removeLastIfS o else o)
        else val :: (match (if endsSp val && !endsEscSp val then
              removeLastIfS (if !isC && isInfix val punctPre then removeLastIfS o else o)
            else (if !isC && isInfix val punctPre then removeLastIfS o else o)) with
          | [] => (if endsSp val && !endsEscSp val then
              removeLastIfS (if !isC && isInfix val punctPre then removeLastIfS o else o)
            else (if !isC && isInfix val punctPre then removeLastIfS o else o))
          | last :: _ =>
            if (([42] : Cps).isPrefixOf val && last == [47]) ||
               (val == [61] && (last == [42] || last == [126] || last == [124] || last == [94] || last == [36]))
            then [32] :: (if endsSp val && !endsEscSp val then
              removeLastIfS (if !isC && isInfix val punctPre then removeLastIfS o else o)
            else (if !isC && isInfix val punctPre then removeLastIfS o else o))
            else (if endsSp val && !endsEscSp val then
              removeLastIfS (if !isC && isInfix val punctPre then removeLastIfS o else o)
            else (if !isC && isInfix val punctPre then removeLastIfS o else o)))) = o2 at hm
      -- POST
      split
      · rw [content_cons_ws _ _ hsp, content_insertBeforeLast _ _ hsp]; exact hm
      · split
        · rw [content_cons_ws _ _ hsp]; exact hm
        · split
          · rw [content_cons_ws _ _ hl.listItemSpacer]; exact hm
          · split
            · rw [content_cons_ws _ _ hl.propertyNameSpacer]; exact hm
            · split
              · rw [content_cons_ws _ _ hl.lineSeparator, content_insertBeforeLast _ _ hl.paranthesisSpacer]; exact hm
              · split
                · rw [content_cons_ws _ _ hl.lineSeparator]; exact hm
                · split
                  · split
                    · rw [content_cons_ws _ _ hsp, content_cons_ws _ _ hl.spacer]; exact hm
                    · rw [content_cons_ws _ _ hl.spacer]; exact hm
                  · exact hm

/-- what one item of a variables block contributes: `name:value` and `;` unless it is the last item and the last
semicolon is omitted; a comment by its text -/
def vItemContent (pf : SPrefs) (re : REnv) (isLast : Bool) : VItem → Cps
  | .var n v => varNameText pf n ++ [58] ++ re.vtext v ++ (if !isLast || !pf.omitLastSemicolon then [59] else [])
  | .other t => commentText pf t

/-- the entries of a variables block written one after the other, no layout -/
def vContent (pf : SPrefs) (re : REnv) : List VItem → Cps
  | [] => []
  | it :: rest => vItemContent pf re rest.isEmpty it ++ vContent pf re rest

theorem stripWs_commentText_dropped (pf : SPrefs) (t : Cps) :
    (if true && !pf.keepComments then [] else stripWs (commentText pf t)) = stripWs (commentText pf t) := by
  by_cases hk : pf.keepComments = true
  · simp [hk]
  · simp [hk, commentText, stripWs]

theorem content_vItemOut (pf : SPrefs) (re : REnv) (il : Nat) (isLast : Bool) (o : OutL) (it : VItem)
    (hl : LayoutWs pf) :
    content (vItemOut pf re il isLast o it) = content o ++ stripWs (vItemContent pf re isLast it) := by
  cases it with
  | var n v =>
    unfold vItemOut vItemContent
    by_cases hs : (!isLast || !pf.omitLastSemicolon) = true
    · simp only [hs, if_true, content_outAppend _ _ _ _ _ hl, Bool.false_and, Bool.false_eq_true, if_false,
        stripWs_append, List.append_assoc]
    · simp only [hs, Bool.false_eq_true, if_false, content_outAppend _ _ _ _ _ hl, Bool.false_and,
        stripWs_append, List.append_assoc, List.append_nil]
  | other t =>
    unfold vItemOut vItemContent
    rw [content_outAppend _ _ _ _ _ hl, content_outAppend _ _ _ _ _ hl, stripWs_commentText_dropped]
    simp [stripWs_allWs _ hl.lineSeparator]

theorem content_vOutLoop (pf : SPrefs) (re : REnv) (il : Nat) (l : List VItem) (o : OutL) (hl : LayoutWs pf) :
    content (vOutLoop pf re il l o) = content o ++ stripWs (vContent pf re l) := by
  induction l generalizing o with
  | nil => simp [vOutLoop, vContent, stripWs]
  | cons it rest ih =>
    simp only [vOutLoop, vContent, ih, content_vItemOut _ _ _ _ _ _ hl, stripWs_append, List.append_assoc]

theorem stripWs_outValue (o : OutL) : stripWs (outValue o) = content o := by
  unfold outValue
  rw [← content_removeLastIfS]
  rfl

theorem stripWs_dropWhile (s : Cps) : stripWs (s.dropWhile isWs) = stripWs s := by
  induction s with
  | nil => rfl
  | cons c t ih =>
    by_cases h : isWs c = true
    · simp [List.dropWhile, h, stripWs] at ih ⊢; exact ih
    · simp [List.dropWhile, h]

theorem stripWs_reverse (s : Cps) : stripWs s.reverse = (stripWs s).reverse := by
  simp [stripWs, List.filter_reverse]

theorem stripWs_rstrip (s : Cps) : stripWs (rstrip s) = stripWs s := by
  unfold rstrip
  rw [stripWs_reverse, stripWs_dropWhile, stripWs_reverse, List.reverse_reverse]

theorem rstrip_append_tail (s : Cps) : rstrip s ++ (s.reverse.takeWhile isWs).reverse = s := by
  unfold rstrip
  rw [← List.reverse_append, List.takeWhile_append_dropWhile, List.reverse_reverse]

theorem mem_takeWhile_sat (q : Nat → Bool) (l : Cps) (a : Nat) (h : a ∈ l.takeWhile q) : q a = true := by
  induction l with
  | nil => simp at h
  | cons c t ih =>
    by_cases hc : q c = true
    · simp only [List.takeWhile_cons, hc, if_true, List.mem_cons] at h
      rcases h with h | h
      · subst h; exact hc
      · exact ih h
    · simp [List.takeWhile_cons, hc] at h

/-- the final strip removes (and may put back one) white-space characters only -/
theorem stripWs_stripKeepEsc (s : Cps) : stripWs (stripKeepEsc s) = stripWs s := by
  unfold stripKeepEsc
  simp only []
  split
  · rw [stripWs_append, stripWs_rstrip]
    have hall : allWs ((lstrip s).drop (rstrip (lstrip s)).length) = true := by
      have e := rstrip_append_tail (lstrip s)
      have : (lstrip s).drop (rstrip (lstrip s)).length = ((lstrip s).reverse.takeWhile isWs).reverse := by
        exact Eq.trans (congrArg (List.drop (rstrip (lstrip s)).length) e.symm) List.drop_left
      rw [this]
      unfold allWs
      rw [List.all_reverse, List.all_eq_true]
      intro a ha
      exact mem_takeWhile_sat _ _ _ ha
    have h1 : allWs (((lstrip s).drop (rstrip (lstrip s)).length).take 1) = true := by
      unfold allWs at *
      rw [List.all_eq_true] at *
      intro a ha
      exact hall a (List.mem_of_mem_take ha)
    rw [stripWs_allWs _ h1]
    simp [lstrip, stripWs_dropWhile]
  · rw [stripWs_rstrip]
    simp [lstrip, stripWs_dropWhile]

/-- T10.8 (variables block): modulo layout white space the serialisation is exactly the list of entries -/
theorem vCssTextP_content (pf : SPrefs) (re : REnv) (il : Nat) (s : Vars) (hl : LayoutWs pf) :
    stripWs (vCssTextP pf re il s) = stripWs (vContent pf re s.seq) := by
  unfold vCssTextP
  by_cases h0 : s.seq.length > 0
  · simp only [h0, if_true]
    rw [stripWs_stripKeepEsc, stripWs_outValue, content_vOutLoop _ _ _ _ _ hl]
    simp [content, stripWs]
  · have : s.seq = [] := by
      cases hs : s.seq with
      | nil => rfl
      | cons a b => simp [hs] at h0
    simp [this, vContent, stripWs]

/-! ## the variables block: lines -/

/-- a line of a serialised variables block -/
inductive VLine
  | entry (name value : Cps)
  | comment (text : Cps)
deriving DecidableEq, Repr

/-- the lines a block is written as: every `'var'` item as (name as written, value text), every comment -/
def vLines (pf : SPrefs) (re : REnv) (seq : List VItem) : List VLine :=
  seq.map fun
    | .var n v => .entry (varNameText pf n) (re.vtext v)
    | .other t => .comment (commentText pf t)

/-- lines written one after the other: `name:value` and `;` (not after the last line when `om`), comments as they are -/
def renderLines (om : Bool) : List VLine → Cps
  | [] => []
  | .entry n c :: rest => n ++ [58] ++ c ++ (if !rest.isEmpty || !om then [59] else []) ++ renderLines om rest
  | .comment t :: rest => t ++ renderLines om rest

def lineEntries (ls : List VLine) : List (Cps × Cps) :=
  ls.filterMap fun | .entry n c => some (n, c) | .comment _ => none

theorem vContent_lines (pf : SPrefs) (re : REnv) (seq : List VItem) :
    vContent pf re seq = renderLines pf.omitLastSemicolon (vLines pf re seq) := by
  induction seq with
  | nil => rfl
  | cons it rest ih =>
    have he : (vLines pf re rest).isEmpty = rest.isEmpty := by simp [vLines]
    cases it with
    | var n v => simp only [vContent, vItemContent, vLines, List.map_cons, renderLines] at ih ⊢; rw [ih]; simp [vLines]
    | other t => simp only [vContent, vItemContent, vLines, List.map_cons, renderLines] at ih ⊢; rw [ih]

theorem lineEntries_vLines (pf : SPrefs) (s : Vars) (hn : pf.normalizedVarNames = true) :
    lineEntries (vLines pf REnv.default s.seq) = vSerialized s := by
  unfold vSerialized lineEntries vLines
  induction s.seq with
  | nil => rfl
  | cons x t ih =>
    cases x with
    | var n v => simp only [List.map_cons, List.filterMap_cons, ih]; simp [varNameText, hn, REnv.default]
    | other c => simp only [List.map_cons, List.filterMap_cons, ih]

/-! ## reparse at item level -/

/-- a written property is its three fields -/
theorem propTextP_fields (pf : SPrefs) (re : REnv) (p : Pty) (h : propTextP pf re p ≠ []) :
    propTextP pf re p = nameText pf p ++ [58] ++ valueField pf re p ++ prioText pf p := by
  unfold propTextP at h ⊢
  by_cases hg : (p.nameSeq != [] && p.wf && (!pf.validOnly || (pf.validOnly && re.valid p))) = true
  · have hn : p.nameSeq ≠ [] := by
      simp only [Bool.and_eq_true, bne_iff_ne, ne_eq] at hg; exact hg.1.1
    have hm : p.nameSeq.map (namePartText pf p) ≠ [] := by simpa using hn
    simp only [hg, if_true, bne_iff_ne, ne_eq, hm, not_false_eq_true]
    unfold nameText prioText valueField
    by_cases hp : p.prioSeq = []
    · simp [hp]
    · simp [hp]
  · simp [hg] at h

/-- what the property statement calls an entry: (normalised name, value, priority) -/
def entryKey (p : Pty) : Cps × Val × Cps := (p.name, p.val, p.prio)

/-- the declaration written for `p`, parsed on its own by `Property.cssText = …`, is accepted and denotes the same
entry (a condition on the front end — tokenizer and value grammar are parameters of the model) -/
def ReparseOk (env : Env) (pf : SPrefs) (re : REnv) (p : Pty) : Prop :=
  ∃ q, propFromDecl env (nameText pf p) (valueField pf re p) (prioText pf p) = .ok q ∧ q.wf = true ∧
    entryKey q = entryKey p

def writtenComments (pf : SPrefs) : List Item → List Item
  | [] => []
  | .comment t :: r => if pf.keepComments then .comment (commentText pf t) :: writtenComments pf r else writtenComments pf r
  | _ :: r => writtenComments pf r

theorem reparse_fold (env : Env) (pf : SPrefs) (re : REnv) (l acc : List Item)
    (hok : ∀ p ∈ props l, propTextP pf re p ≠ [] → ReparseOk env pf re p) :
    ∃ r, (srcOf pf re l).foldlM (srcStep env) acc = .ok r ∧
      (props r).map entryKey =
        (props acc).map entryKey ++ ((props l).filter (fun p => propTextP pf re p != [])).map entryKey ∧
      nonProps r = nonProps acc ++ writtenComments pf l := by
  induction l generalizing acc with
  | nil => exact ⟨acc, rfl, by simp [props], by simp [writtenComments]⟩
  | cons it rest ih =>
    have hrest : ∀ p ∈ props rest, propTextP pf re p ≠ [] → ReparseOk env pf re p := by
      intro p hp; apply hok; cases it <;> simp [props, hp]
    simp only [srcOf, List.flatMap_cons, List.foldlM_append]
    cases it with
    | comment t =>
      by_cases hk : pf.keepComments = true
      · obtain ⟨r, hr, h1, h2⟩ := ih (acc ++ [.comment (commentText pf t)]) hrest
        refine ⟨r, ?_, ?_, ?_⟩
        · simp only [srcOfItem, hk, if_true, List.foldlM_cons, List.foldlM_nil, srcStep, bind, Except.bind, pure, Except.pure]
          exact hr
        · rw [h1]; simp [props_append, props]
        · rw [h2]; simp [nonProps_append, nonProps, writtenComments, hk]
      · obtain ⟨r, hr, h1, h2⟩ := ih acc hrest
        refine ⟨r, ?_, ?_, ?_⟩
        · simp only [srcOfItem, hk, Bool.false_eq_true, if_false, List.foldlM_nil, bind, Except.bind, pure, Except.pure]
          exact hr
        · rw [h1]; simp [props]
        · rw [h2]; simp [writtenComments, hk]
    | other t =>
      obtain ⟨r, hr, h1, h2⟩ := ih acc hrest
      refine ⟨r, ?_, ?_, ?_⟩
      · simp only [srcOfItem, List.foldlM_nil, bind, Except.bind, pure, Except.pure]
        exact hr
      · rw [h1]; simp [props]
      · rw [h2]; simp [writtenComments]
    | prop p =>
      by_cases ht : propTextP pf re p = []
      · obtain ⟨r, hr, h1, h2⟩ := ih acc hrest
        refine ⟨r, ?_, ?_, ?_⟩
        · simp only [srcOfItem, ht, bne_self_eq_false, Bool.false_eq_true, if_false, List.foldlM_nil, bind, Except.bind, pure, Except.pure]
          exact hr
        · rw [h1]; simp [props, ht]
        · rw [h2]; simp [writtenComments]
      · obtain ⟨q, hq, hwf, hkey⟩ := hok p (by simp [props]) ht
        obtain ⟨r, hr, h1, h2⟩ := ih (acc ++ [.prop q]) hrest
        refine ⟨r, ?_, ?_, ?_⟩
        · have hb : (propTextP pf re p != []) = true := by simpa using ht
          simp only [srcOfItem, hb, if_true, List.foldlM_cons, List.foldlM_nil, srcStep, hq, hwf, bind, Except.bind, pure, Except.pure]
          exact hr
        · rw [h1]
          have hb : (propTextP pf re p != []) = true := by simpa using ht
          simp [props_append, props, hb, hkey]
        · rw [h2]; simp [nonProps_append, nonProps, writtenComments]

/-! ## `ReparseOk` from what the front end does on the written fields -/

theorem lower_normalize (x : Cps) : lower (normalize x) = normalize x := by
  unfold normalize; exact lower_idem _

/-- an entry without comments in its name and priority, as every operation of the block builds it when the source
has none -/
structure PlainEntry (p : Pty) : Prop where
  wf : p.wf = true
  nameSeq : p.nameSeq = [.str p.lit]
  litNe : p.lit ≠ []
  litLower : lower p.lit = p.lit
  name : p.name = normalize p.lit
  prio : (p.prioSeq = [] ∧ p.prio = []) ∨
         (p.prioSeq = [.str [33], .str p.litPrio] ∧ p.litPrio ≠ [] ∧ p.litPrio ≠ [33] ∧
          normalize p.litPrio = important ∧ p.prio = important)

/-- what the model needs of the front end to read a written declaration back (tokenizer and value grammar are
parameters): the written name is one IDENT token, the value field has tokens and parses to the stored value, the
written priority is `!` and one IDENT -/
structure FrontEndReads (env : Env) (pf : SPrefs) (re : REnv) (p : Pty) : Prop where
  name : env.tokenize (nameText pf p) = [⟨.ident, nameText pf p⟩]
  valueToks : env.tokenize (valueField pf re p) ≠ []
  value : env.parseValue (valueField pf re p) = some p.val
  prio : p.prioSeq ≠ [] → env.tokenize (prioText pf p) = [⟨.char, [33]⟩, ⟨.ident, (prioText pf p).drop 1⟩]

theorem reparseOk_plain (env : Env) (pf : SPrefs) (re : REnv) (p : Pty) (hp : PlainEntry p)
    (hf : FrontEndReads env pf re p)
    (hst : (pf.defaultPropertyName && !pf.keepAllProperties) = true → normalize p.name = p.name) :
    ReparseOk env pf re p := by
  -- the written name
  have hnt : nameText pf p = if pf.defaultPropertyName && !pf.keepAllProperties then p.name else p.lit := by
    simp [nameText, hp.nameSeq, namePartText]
  have hnne : nameText pf p ≠ [] := by
    rw [hnt]
    split
    · rw [hp.name]
      intro hc
      have : (normalize p.lit).length = 0 := by rw [hc]; rfl
      have hl : (unesc p.lit).length = 0 := by simpa [normalize, lower] using this
      have : ∀ s : Cps, s ≠ [] → unesc s ≠ [] := by
        intro s
        induction s using unesc.induct with
        | case1 => intro h; exact absurd rfl h
        | case2 c => intro _; simp [unesc]
        | case3 c d rest hc ih => intro _; simp [unesc, hc]
        | case4 c d rest hc ih => intro _; simp [unesc, hc]
      exact this p.lit hp.litNe (List.eq_nil_of_length_eq_zero hl)
    · exact hp.litNe
  have hlow : lower (nameText pf p) = nameText pf p := by
    rw [hnt]; split
    · rw [hp.name]; exact lower_normalize _
    · exact hp.litLower
  have hnorm : normalize (nameText pf p) = p.name := by
    rw [hnt]; split
    · next h => exact hst h
    · exact hp.name.symm
  -- name setter
  have hsn : setName env { wf := true, nameSeq := [], lit := [], name := [], val := ⟨[], []⟩, prioSeq := [], litPrio := [], prio := [] } [⟨.ident, nameText pf p⟩] =
      .ok { wf := true, nameSeq := [.str (nameText pf p)], lit := nameText pf p, name := p.name, val := ⟨[], []⟩, prioSeq := [], litPrio := [], prio := [] } := by
    cases hnm : nameText pf p with
    | nil => exact absurd hnm hnne
    | cons c t =>
      rw [hnm] at hlow hnorm
      simp [setName, nameStep, litNonEmpty, hlow, hnorm, bind, Except.bind, pure, Except.pure]
  unfold ReparseOk propFromDecl
  have hnt2 : (env.tokenize (nameText pf p) == []) = false := by rw [hf.name]; rfl
  have hvt2 : (env.tokenize (valueField pf re p) == []) = false := by
    rw [← Bool.not_eq_true]; simpa using hf.valueToks
  rcases hp.prio with ⟨hps, hpr⟩ | ⟨hps, hl1, hl2, hl3, hpr⟩
  · have hpt : prioText pf p = [] := by simp [prioText, hps]
    refine ⟨{ wf := true, nameSeq := [.str (nameText pf p)], lit := nameText pf p, name := p.name, val := p.val, prioSeq := [], litPrio := [], prio := [] }, ?_, rfl, ?_⟩
    · simp [hf.valueToks, hf.name, hsn, setValue, hf.value, hpt, setPriorityToks, bind, Except.bind, pure,
        Except.pure, normalize, unesc, lower, important, Pty.empty]
    · simp [entryKey, hpr, Pty.empty]
  · have hpt : prioText pf p = 33 :: (if pf.defaultPropertyPriority then p.prio else p.litPrio) := by
      have : ¬ ([33] = p.litPrio) := fun h => hl2 h.symm
      by_cases hd : pf.defaultPropertyPriority = true <;> simp [prioText, hps, prioPartTextP, this, hd]
    have hw : (if pf.defaultPropertyPriority then p.prio else p.litPrio) ≠ [] := by
      split
      · rw [hpr]; decide
      · exact hl1
    have hwn : normalize (if pf.defaultPropertyPriority then p.prio else p.litPrio) = important := by
      split
      · rw [hpr]; decide
      · exact hl3
    have hpne : p.prioSeq ≠ [] := by rw [hps]; simp
    have htk := hf.prio hpne
    rw [hpt] at htk
    simp only [List.drop_succ_cons, List.drop_zero] at htk
    refine ⟨{ wf := true, nameSeq := [.str (nameText pf p)], lit := nameText pf p, name := p.name, val := p.val, prioSeq := [.str [33], .str (if pf.defaultPropertyPriority then p.prio else p.litPrio)], litPrio := (if pf.defaultPropertyPriority then p.prio else p.litPrio), prio := important }, ?_, rfl, ?_⟩
    · generalize hwd : (if pf.defaultPropertyPriority then p.prio else p.litPrio) = w at *
      cases w with
      | nil => exact absurd rfl hw
      | cons c t =>
        simp [hf.valueToks, hf.name, hsn, setValue, hf.value, hpt, htk, setPriorityToks, prioStep, hwn, bind,
          Except.bind, pure, Except.pure, Pty.empty]
    · simp [entryKey, hpr, Pty.empty]

/-! ## reparse of the variables block at item level -/

theorem vReparse_fold (l : List VItem) (a : VAcc) (hn : (dkeys (a.vars ++ varsOf l)).Nodup) :
    ∃ b, (vSrcOf l).foldlM vSrcStep a = .ok b ∧ b.seq = a.seq ++ l ∧ b.vars = a.vars ++ varsOf l := by
  induction l generalizing a with
  | nil => exact ⟨a, rfl, by simp, by simp [varsOf]⟩
  | cons x t ih =>
    cases x with
    | var n v =>
      have hnot : normalize n ∉ dkeys a.vars := by
        intro hc
        simp only [varsOf, dkeys, List.map_append, List.map_cons] at hn hc
        rw [List.nodup_append] at hn
        exact hn.2.2 _ hc _ (by simp) rfl
      have hcont : ((a.vars.map (·.1)).contains (normalize n)) = false := by
        rw [← Bool.not_eq_true, List.contains_iff_mem]; exact hnot
      have hn' : (dkeys ((dictSet a.vars (normalize n) v) ++ varsOf t)).Nodup := by
        rw [dictSet_new a.vars (normalize n) v hnot]
        simpa [varsOf, List.append_assoc] using hn
      obtain ⟨b, hb, h1, h2⟩ := ih { nameitem := some n, seq := a.seq ++ [.var n v], vars := dictSet a.vars (normalize n) v } hn'
      refine ⟨b, ?_, ?_, ?_⟩
      · simp only [vSrcOf, List.foldlM_cons, vSrcStep, bind, Except.bind, hcont, Bool.false_eq_true, if_false]
        exact hb
      · rw [h1]; simp
      · rw [h2, dictSet_new a.vars (normalize n) v hnot]; simp [varsOf]
    | other c =>
      obtain ⟨b, hb, h1, h2⟩ := ih { a with seq := a.seq ++ [.other c] } (by simpa [varsOf] using hn)
      refine ⟨b, ?_, ?_, ?_⟩
      · simp only [vSrcOf, List.foldlM_cons, vSrcStep, bind, Except.bind]
        exact hb
      · rw [h1]; simp
      · rw [h2]; simp [varsOf]

/-- the written items denote the same variables: always with literal names; with normalised names when the keys are
stable under `normalize` -/
theorem varsOf_vWritten (pf : SPrefs) (seq : List VItem)
    (hk : pf.normalizedVarNames = true → ∀ e ∈ varsOf seq, normalize e.1 = e.1) :
    varsOf (vWritten pf seq) = varsOf seq := by
  induction seq with
  | nil => rfl
  | cons x t ih =>
    cases x with
    | var n v =>
      have ht := ih (fun hp e he => hk hp e (by simp [varsOf, he]))
      simp only [vWritten, varsOf, ht]
      by_cases hp : pf.normalizedVarNames = true
      · have := hk hp (normalize n, v) (by simp [varsOf])
        simp only [varNameText, hp, if_true]
        simp only [] at this
        rw [this]
      · simp [varNameText, hp]
    | other c =>
      have ht := ih (fun hp e he => hk hp e (by simpa [varsOf] using he))
      by_cases hc : pf.keepComments = true <;> simp [vWritten, varsOf, hc, ht]

/-! ## the exact text of a variables block under the default preferences -/

/-- a text `Out.append` treats as an ordinary word: not empty, no white space at either end, not one of the
punctuation strings `append` reacts to, not starting with `*` -/
structure Solid (x : Cps) : Prop where
  ne : x ≠ []
  headNotWs : ∀ c t, x = c :: t → isWs c = false
  lastNotWs : ∀ c, x.getLast? = some c → isWs c = false
  notPunct : isInfix x punctPre = false
  notComb : isInfix x combChars = false
  notNoSpace : isInfix x noSpaceChars = false
  notStar : ([42] : Cps).isPrefixOf x = false

theorem Solid.notEndsSp {x : Cps} (h : Solid x) : endsSp x = false := by
  unfold endsSp
  cases hl : x.getLast? with
  | none => rfl
  | some c =>
    have := h.lastNotWs c hl
    have hc : c ≠ 32 := by intro e; subst e; simp [isWs] at this
    simp [hc]

theorem Solid.ne_of_infix {x y : Cps} (hy : isInfix y punctPre = true ∨ isInfix y combChars = true ∨ isInfix y noSpaceChars = true)
    (h : Solid x) : x ≠ y := by
  intro e; subst e
  rcases hy with hy | hy | hy
  · rw [h.notPunct] at hy; cases hy
  · rw [h.notComb] at hy; cases hy
  · rw [h.notNoSpace] at hy; cases hy

/-- `Out.append` of an ordinary word under the default preferences: the word and a blank -/
theorem outAppend_solid (il : Nat) (o : OutL) (x : Cps) (h : Solid x) :
    outAppend SPrefs.default il o x false = [32] :: x :: o := by
  have h1 : x ≠ [125] := h.ne_of_infix (Or.inl (by decide))
  have h2 : x ≠ [41] := h.ne_of_infix (Or.inl (by decide))
  have h3 : x ≠ [44] := h.ne_of_infix (Or.inl (by decide))
  have h4 : x ≠ [58] := h.ne_of_infix (Or.inl (by decide))
  have h5 : x ≠ [123] := h.ne_of_infix (Or.inl (by decide))
  have h6 : x ≠ [59] := h.ne_of_infix (Or.inl (by decide))
  have h7 : x ≠ [61] := h.ne_of_infix (Or.inl (by decide))
  cases o with
  | nil =>
    simp [outAppend, SPrefs.default, h.ne, h.notPunct, h.notEndsSp, h.notComb, h.notNoSpace, h1, h2, h3, h4, h5, h6]
  | cons last r =>
    simp [outAppend, SPrefs.default, h.ne, h.notPunct, h.notEndsSp, h.notComb, h.notNoSpace, h.notStar, h1, h2, h3, h4, h5, h6, h7]

theorem outAppend_colon (il : Nat) (o : OutL) (x : Cps) :
    outAppend SPrefs.default il ([32] :: x :: o) [58] false = [32] :: [58] :: x :: o := by
  cases hx : allWs x <;> simp [outAppend, SPrefs.default, removeLastIfS, allWs, isWs, isInfix, punctPre, combChars, cps, endsSp, endsEscSp, hx] <;> decide

theorem outAppend_semicolon (il : Nat) (o : OutL) (c : Cps) :
    outAppend SPrefs.default il ([32] :: c :: o) [59] false = [10] :: [59] :: c :: o := by
  cases hx : allWs c <;> simp [outAppend, SPrefs.default, removeLastIfS, allWs, isWs, isInfix, punctPre, combChars, cps, endsSp, endsEscSp, hx] <;> decide

/-- a block of variables only, whose written names and value texts are ordinary words -/
def SolidVars (re : REnv) : List VItem → Prop
  | [] => True
  | .var n v :: rest => Solid (normalize n) ∧ Solid (re.vtext v) ∧ SolidVars re rest
  | .other _ :: _ => False

/-- `name: value` per variable, `;` + line break between them -/
def vBody (re : REnv) : List VItem → Cps
  | [] => []
  | [.var n v] => normalize n ++ [58, 32] ++ re.vtext v
  | .var n v :: rest => normalize n ++ [58, 32] ++ re.vtext v ++ [59, 10] ++ vBody re rest
  | .other t :: rest => t ++ vBody re rest

theorem vOutLoop_solid (re : REnv) (il : Nat) (l : List VItem) (o : OutL) (hne : l ≠ []) (hs : SolidVars re l) :
    (removeLastIfS (vOutLoop SPrefs.default re il l o)).reverse.flatten = o.reverse.flatten ++ vBody re l := by
  induction l generalizing o with
  | nil => exact absurd rfl hne
  | cons it rest ih =>
    cases it with
    | other t => exact absurd hs (by simp [SolidVars])
    | var n v =>
      obtain ⟨hn, hv, hrest⟩ := hs
      have hname : varNameText SPrefs.default n = normalize n := by simp [varNameText, SPrefs.default]
      have hom : SPrefs.default.omitLastSemicolon = true := rfl
      cases rest with
      | nil =>
        simp only [vOutLoop, vItemOut, hname, outAppend_solid il o _ hn, outAppend_colon, outAppend_solid il _ _ hv,
          List.isEmpty_nil, hom, Bool.not_true, Bool.or_self, Bool.false_eq_true, if_false, vBody]
        simp [removeLastIfS, allWs, isWs]
      | cons x xs =>
        have := ih ([10] :: [59] :: re.vtext v :: [32] :: [58] :: normalize n :: o) (by simp) hrest
        simp only [vOutLoop, vItemOut, hname, outAppend_solid il o _ hn, outAppend_colon, outAppend_solid il _ _ hv,
          List.isEmpty_cons, Bool.not_false, Bool.true_or, if_true, outAppend_semicolon] at this ⊢
        rw [this]
        cases x <;> simp [vBody]

theorem stripKeepEsc_id (s : Cps) (hh : ∀ c t, s = c :: t → isWs c = false)
    (hl : ∀ c, s.getLast? = some c → isWs c = false) : stripKeepEsc s = s := by
  have h1 : lstrip s = s := by
    cases s with
    | nil => rfl
    | cons c t => simp [lstrip, List.dropWhile, hh c t rfl]
  have h2 : rstrip s = s := by
    unfold rstrip
    cases hr : s.reverse with
    | nil => simp at hr; subst hr; rfl
    | cons c t =>
      have hc : s.getLast? = some c := by
        rw [List.getLast?_eq_head?_reverse, hr]; rfl
      have := hl c hc
      simp only [List.dropWhile, this]
      rw [← hr, List.reverse_reverse]
  unfold stripKeepEsc
  simp only [h1, h2, Nat.lt_irrefl, decide_false, Bool.and_false, Bool.false_eq_true, if_false]

theorem getLast?_append_ne (a b : Cps) (hb : b ≠ []) : (a ++ b).getLast? = b.getLast? := by
  rw [List.getLast?_append]
  cases h : b.getLast? with
  | none => exact absurd (List.getLast?_eq_none_iff.mp h) hb
  | some x => rfl

theorem vBody_ne (re : REnv) (l : List VItem) (hne : l ≠ []) (hs : SolidVars re l) : vBody re l ≠ [] := by
  cases l with
  | nil => exact absurd rfl hne
  | cons it rest =>
    cases it with
    | other t => exact absurd hs (by simp [SolidVars])
    | var n v =>
      have := hs.1.ne
      cases rest <;> simp [vBody, this]

theorem vBody_head (re : REnv) (l : List VItem) (hs : SolidVars re l) :
    ∀ c t, vBody re l = c :: t → isWs c = false := by
  intro c t h
  cases l with
  | nil => simp [vBody] at h
  | cons it rest =>
    cases it with
    | other t => exact absurd hs (by simp [SolidVars])
    | var n v =>
      obtain ⟨hn, _, _⟩ := hs
      cases hnn : normalize n with
      | nil => exact absurd hnn hn.ne
      | cons c' t' =>
        have hc := hn.headNotWs c' t' hnn
        cases rest <;> (simp only [vBody, hnn, List.cons_append, List.cons.injEq] at h; rw [← h.1]; exact hc)

theorem vBody_last (re : REnv) (l : List VItem) (hs : SolidVars re l) :
    ∀ c, (vBody re l).getLast? = some c → isWs c = false := by
  induction l with
  | nil => intro c h; simp [vBody] at h
  | cons it rest ih =>
    cases it with
    | other t => exact absurd hs (by simp [SolidVars])
    | var n v =>
      obtain ⟨_, hv, hrest⟩ := hs
      intro c h
      cases rest with
      | nil =>
        simp only [vBody] at h
        rw [getLast?_append_ne _ _ hv.ne] at h
        exact hv.lastNotWs c h
      | cons x xs =>
        have hne := vBody_ne re (x :: xs) (by simp) hrest
        simp only [vBody] at h
        rw [getLast?_append_ne _ _ hne] at h
        exact ih hrest c h

/-- the exact text of a variables block under the default preferences, when the block holds variables only and the
written names and value texts are ordinary words: `name: value` per variable, joined by `;` and a line break -/
theorem vCssTextP_exact_default (re : REnv) (il : Nat) (s : Vars) (hne : s.seq ≠ []) (hs : SolidVars re s.seq) :
    vCssTextP SPrefs.default re il s = vBody re s.seq := by
  unfold vCssTextP
  have h0 : s.seq.length > 0 := by
    cases hq : s.seq with
    | nil => exact absurd hq hne
    | cons a b => simp
  simp only [h0, if_true]
  have := vOutLoop_solid re il s.seq [] hne hs
  simp only [List.reverse_nil, List.flatten_nil, List.nil_append] at this
  unfold outValue
  rw [this]
  exact stripKeepEsc_id _ (vBody_head re s.seq hs) (vBody_last re s.seq hs)

/-! ## attribute access -/

theorem attrCss_known (hrt : ∀ n ∈ CssVerif.Gen.C10.propertyNames, toCSS (toDOM n) = n)
    (n : Cps) (hn : n ∈ CssVerif.Gen.C10.propertyNames) : attrCss (toDOM n) = some n := by
  unfold attrCss
  cases hf : attrTable.reverse.find? (fun e => e.1 == toDOM n) with
  | none =>
    have := List.find?_eq_none.mp hf (toDOM n, toCSS (toDOM n)) (by
      rw [List.mem_reverse]; exact List.mem_map.mpr ⟨n, hn, rfl⟩)
    simp at this
  | some e =>
    have hp := List.find?_some hf
    have hm := List.mem_of_find?_eq_some hf
    rw [List.mem_reverse] at hm
    obtain ⟨m, _, hme⟩ := List.mem_map.mp hm
    simp only [beq_iff_eq] at hp
    have : e.2 = toCSS e.1 := by rw [← hme]
    simp only [this, hp, hrt n hn]

/-! ## witnesses for the examples of `Props/C10.lean` -/

/-- `c: 1 !important; /*k*/ c: 2` -/
def renderWitness : List Item :=
  [.prop { wf := true, nameSeq := [.str [99]], lit := [99], name := [99], val := ⟨[49], [49]⟩,
           prioSeq := [.str [33], .str important], litPrio := important, prio := important },
   .comment (cps "/*k*/"),
   .prop { wf := true, nameSeq := [.str [99]], lit := [99], name := [99], val := ⟨[50], [50]⟩,
           prioSeq := [], litPrio := [], prio := [] }]

/-- `x: 1; /*k*/ y: 2` -/
def varsWitness : Vars :=
  { vars := [([120], ⟨[49], [49]⟩), ([121], ⟨[50], [50]⟩)],
    seq := [.var [120] ⟨[49], [49]⟩, .other (cps "/*k*/"), .var [121] ⟨[50], [50]⟩] }

/-- `c: 2` -/
def reparseWitness : List Item :=
  [.prop { wf := true, nameSeq := [.str [99]], lit := [99], name := [99], val := ⟨[50], [50]⟩,
           prioSeq := [], litPrio := [], prio := [] }]

/-- `x: 1; y: 2` -/
def solidWitness : Vars :=
  { vars := [([120], ⟨[49], [49]⟩), ([121], ⟨[50], [50]⟩)],
    seq := [.var [120] ⟨[49], [49]⟩, .var [121] ⟨[50], [50]⟩] }

theorem solid_single (c : Nat) (h1 : isWs c = false) (h2 : isInfix [c] punctPre = false)
    (h3 : isInfix [c] combChars = false) (h4 : isInfix [c] noSpaceChars = false) (h5 : (c == 42) = false) :
    Solid [c] where
  ne := by simp
  headNotWs := by intro a t h; simp at h; rw [← h.1]; exact h1
  lastNotWs := by intro a h; simp at h; rw [← h]; exact h1
  notPunct := h2
  notComb := h3
  notNoSpace := h4
  notStar := by simp [List.isPrefixOf]; intro h; simp [h] at h5

end CssVerif.Decl
