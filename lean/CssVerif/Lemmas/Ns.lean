import CssVerif.Model.Ns
/-! helper lemmas for C15 (`Props/C15.lean`) -/
namespace CssVerif.Ns
open CssVerif.Proto

theorem nodup_reverse {α} {l : List α} : l.reverse.Nodup ↔ l.Nodup := by
  unfold List.Nodup
  rw [List.pairwise_reverse]
  constructor <;> intro h <;> exact h.imp (fun h e => h e.symm)

theorem count_eq_one_of_mem {α} [BEq α] [LawfulBEq α] {l : List α} {u : α} (h : l.Nodup) (hm : u ∈ l) :
    l.count u = 1 := by
  induction l with
  | nil => simp at hm
  | cons a t ih =>
    simp only [List.nodup_cons] at h
    by_cases e : a = u
    · subst e
      simp [List.count_eq_zero.mpr h.1]
    · have : u ∈ t := by
        rcases List.mem_cons.mp hm with h1 | h1
        · exact absurd h1.symm e
        · exact h1
      simp [e, ih h.2 this]

/-! ## dict -/

theorem Dict.keys_set (d : Dict) (k v : Cps) :
    (d.set k v).keys = if k ∈ d.keys then d.keys else d.keys ++ [k] := by
  induction d with
  | nil => simp [Dict.set, Dict.keys]
  | cons e t ih =>
    obtain ⟨k', v'⟩ := e
    simp only [Dict.set]
    by_cases h : k' = k
    · subst h; simp [Dict.keys]
    · simp only [h, if_false]
      simp only [Dict.keys] at ih ⊢
      simp only [List.map_cons, List.mem_cons, ih]
      have : ¬ k = k' := fun e => h e.symm
      simp only [this, false_or]
      split <;> simp_all

theorem Dict.get_set (d : Dict) (k v k' : Cps) :
    (d.set k v).get k' = if k = k' then some v else d.get k' := by
  induction d with
  | nil => simp [Dict.set, Dict.get]
  | cons e t ih =>
    obtain ⟨k0, v0⟩ := e
    simp only [Dict.set]
    by_cases h : k0 = k
    · subst h
      by_cases h2 : k0 = k' <;> simp [Dict.get, h2]
    · simp only [h, if_false, Dict.get, ih]
      by_cases h2 : k0 = k'
      · subst h2
        have : ¬ k = k0 := fun e => h e.symm
        simp [this]
      · simp [h2]

theorem Dict.get_some_mem {d : Dict} {k v : Cps} (h : d.get k = some v) : (k, v) ∈ d := by
  induction d with
  | nil => simp [Dict.get] at h
  | cons e t ih =>
    obtain ⟨k0, v0⟩ := e
    simp only [Dict.get] at h
    by_cases h2 : k0 = k
    · simp [h2] at h; subst h2; subst h; simp
    · simp [h2] at h; exact List.mem_cons_of_mem _ (ih h)

theorem Dict.mem_get_of_nodup {d : Dict} (hk : d.keys.Nodup) {k v : Cps} (h : (k, v) ∈ d) : d.get k = some v := by
  induction d with
  | nil => simp at h
  | cons e t ih =>
    obtain ⟨k0, v0⟩ := e
    simp only [Dict.keys, List.map_cons, List.nodup_cons] at hk
    simp only [Dict.get]
    rcases List.mem_cons.mp h with h | h
    · cases h; simp
    · have hne : k0 ≠ k := by
        intro e; subst e
        exact hk.1 (List.mem_map.mpr ⟨(k0, v), h, rfl⟩)
      simp [hne]
      exact ih hk.2 h

theorem Dict.get_none_iff {d : Dict} {k : Cps} : d.get k = none ↔ k ∉ d.keys := by
  induction d with
  | nil => simp [Dict.get, Dict.keys]
  | cons e t ih =>
    obtain ⟨k0, v0⟩ := e
    simp only [Dict.get, Dict.keys, List.map_cons, List.mem_cons, not_or]
    by_cases h : k0 = k
    · simp [h]
    · simp only [h, if_false]
      rw [ih]
      simp only [Dict.keys]
      constructor
      · intro h2; exact ⟨fun e => h e.symm, h2⟩
      · intro h2; exact h2.2

theorem Dict.prefixFor_some_mem {d : Dict} {u p : Cps} (h : d.prefixFor u = some p) : (p, u) ∈ d := by
  induction d with
  | nil => simp [Dict.prefixFor] at h
  | cons e t ih =>
    obtain ⟨k0, v0⟩ := e
    simp only [Dict.prefixFor] at h
    by_cases h2 : v0 = u
    · simp [h2] at h; subst h2; subst h; simp
    · simp [h2] at h; exact List.mem_cons_of_mem _ (ih h)

theorem Dict.prefixFor_none_iff {d : Dict} {u : Cps} : d.prefixFor u = none ↔ u ∉ d.values := by
  induction d with
  | nil => simp [Dict.prefixFor, Dict.values]
  | cons e t ih =>
    obtain ⟨k0, v0⟩ := e
    simp only [Dict.prefixFor, Dict.values, List.map_cons, List.mem_cons, not_or]
    by_cases h : v0 = u
    · simp [h]
    · simp only [h, if_false]
      rw [ih]
      simp only [Dict.values]
      constructor
      · intro h2; exact ⟨fun e => h e.symm, h2⟩
      · intro h2; exact h2.2


theorem Dict.mem_set {d : Dict} {k v : Cps} {e : Cps × Cps} (h : e ∈ d.set k v) : e ∈ d ∨ e = (k, v) := by
  induction d with
  | nil => simp [Dict.set] at h; exact Or.inr h
  | cons e0 t ih =>
    obtain ⟨k0, v0⟩ := e0
    simp only [Dict.set] at h
    by_cases h2 : k0 = k
    · simp only [h2, if_true, List.mem_cons] at h
      rcases h with h | h
      · exact Or.inr h
      · exact Or.inl (List.mem_cons_of_mem _ h)
    · simp only [h2, if_false, List.mem_cons] at h
      rcases h with h | h
      · exact Or.inl (h ▸ List.mem_cons_self)
      · rcases ih h with h | h
        · exact Or.inl (List.mem_cons_of_mem _ h)
        · exact Or.inr h

theorem Dict.mem_values_set {d : Dict} {k v x : Cps} (h : x ∈ (d.set k v).values) : x ∈ d.values ∨ x = v := by
  simp only [Dict.values, List.mem_map] at h ⊢
  obtain ⟨e, he, rfl⟩ := h
  rcases Dict.mem_set he with h | h
  · exact Or.inl ⟨e, h, rfl⟩
  · exact Or.inr (by rw [h])

theorem Dict.values_set_nodup {d : Dict} {k v : Cps} (hd : d.values.Nodup) (hv : v ∉ d.values) :
    (d.set k v).values.Nodup := by
  induction d with
  | nil => simp [Dict.set, Dict.values]
  | cons e0 t ih =>
    obtain ⟨k0, v0⟩ := e0
    simp only [Dict.values, List.map_cons, List.nodup_cons, List.mem_cons, not_or] at hd hv
    simp only [Dict.set]
    by_cases h2 : k0 = k
    · simp only [h2, if_true, Dict.values, List.map_cons, List.nodup_cons]
      exact ⟨hv.2, hd.2⟩
    · simp only [h2, if_false, Dict.values, List.map_cons, List.nodup_cons]
      refine ⟨?_, ih hd.2 hv.2⟩
      intro hx
      rcases Dict.mem_values_set hx with h | h
      · exact hd.1 h
      · exact hv.1 h.symm

theorem Dict.keys_set_nodup {d : Dict} {k v : Cps} (hd : d.keys.Nodup) : (d.set k v).keys.Nodup := by
  rw [Dict.keys_set]
  split
  · exact hd
  · rename_i h
    rw [List.nodup_append]
    refine ⟨hd, by simp, ?_⟩
    intro a ha b hb
    simp at hb
    subst hb
    intro e; subst e; exact h ha

/-! ## the view -/

def dictFold (d : Dict) (l : List (Cps × Cps)) : Dict := l.foldl (fun d e => d.set e.1 e.2) d

theorem dictOf_eq (l : List (Cps × Cps)) : dictOf l = dictFold [] l := rfl

theorem dictFold_keys_nodup {d : Dict} (l : List (Cps × Cps)) (hd : d.keys.Nodup) : (dictFold d l).keys.Nodup := by
  induction l generalizing d with
  | nil => exact hd
  | cons e t ih => exact ih (Dict.keys_set_nodup hd)

theorem dictFold_mem {d : Dict} {l : List (Cps × Cps)} {e : Cps × Cps} (h : e ∈ dictFold d l) : e ∈ d ∨ e ∈ l := by
  induction l generalizing d with
  | nil => exact Or.inl h
  | cons e0 t ih =>
    rcases ih (d := d.set e0.1 e0.2) h with h | h
    · rcases Dict.mem_set h with h | h
      · exact Or.inl h
      · exact Or.inr (by rw [h]; exact List.mem_cons_self)
    · exact Or.inr (List.mem_cons_of_mem _ h)

theorem dictFold_values_nodup {d : Dict} {l : List (Cps × Cps)} (h : (d.values ++ l.map (·.2)).Nodup) :
    (dictFold d l).values.Nodup := by
  induction l generalizing d with
  | nil => simpa [dictFold] using h
  | cons e0 t ih =>
    apply ih
    rw [List.nodup_append] at h ⊢
    obtain ⟨h1, h2, h3⟩ := h
    simp only [List.map_cons, List.nodup_cons] at h2
    have hv : e0.2 ∉ d.values := fun hx => h3 _ hx _ (by simp) rfl
    refine ⟨Dict.values_set_nodup h1 hv, h2.2, ?_⟩
    intro a ha b hb
    rcases Dict.mem_values_set ha with ha | ha
    · exact h3 _ ha _ (by simp [hb])
    · subst ha; intro e; subst e; exact h2.1 hb

theorem dictFold_append {d : Dict} {l : List (Cps × Cps)} (h : (d.keys ++ l.map (·.1)).Nodup) :
    dictFold d l = d ++ l := by
  induction l generalizing d with
  | nil => simp [dictFold]
  | cons e0 t ih =>
    have hk : e0.1 ∉ d.keys := by
      rw [List.nodup_append] at h
      exact fun hx => h.2.2 _ hx _ (by simp) rfl
    have hs : d.set e0.1 e0.2 = d ++ [e0] := by
      clear ih h
      induction d with
      | nil => simp [Dict.set]
      | cons e1 t1 ih1 =>
        obtain ⟨k1, v1⟩ := e1
        simp only [Dict.keys, List.map_cons, List.mem_cons, not_or] at hk
        have : ¬ k1 = e0.1 := fun e => hk.1 e.symm
        simp only [Dict.set, this, if_false, List.cons_append, List.cons.injEq, true_and]
        exact ih1 hk.2
    show dictFold (d.set e0.1 e0.2) t = d ++ e0 :: t
    rw [hs, ih]
    · simp
    · simp only [Dict.keys, List.map_append, List.map_cons, List.map_nil, List.append_assoc,
        List.singleton_append]
      simpa [Dict.keys] using h

theorem mem_uniqByUri {l : List (Cps × Cps)} {seen : List Cps} {e : Cps × Cps} (h : e ∈ uniqByUri l seen) :
    e ∈ l ∧ e.2 ∉ seen := by
  induction l generalizing seen with
  | nil => simp [uniqByUri] at h
  | cons e0 t ih =>
    simp only [uniqByUri] at h
    by_cases h2 : e0.2 ∈ seen
    · simp only [h2, if_true] at h
      exact ⟨List.mem_cons_of_mem _ (ih h).1, (ih h).2⟩
    · simp only [h2, if_false, List.mem_cons] at h
      rcases h with h | h
      · subst h; exact ⟨List.mem_cons_self, h2⟩
      · have := ih h
        exact ⟨List.mem_cons_of_mem _ this.1, fun hx => this.2 (List.mem_cons_of_mem _ hx)⟩

theorem uniqByUri_snd_nodup (l : List (Cps × Cps)) (seen : List Cps) : ((uniqByUri l seen).map (·.2)).Nodup := by
  induction l generalizing seen with
  | nil => simp [uniqByUri]
  | cons e0 t ih =>
    simp only [uniqByUri]
    by_cases h2 : e0.2 ∈ seen
    · simp only [h2, if_true]; exact ih seen
    · simp only [h2, if_false, List.map_cons, List.nodup_cons]
      refine ⟨?_, ih _⟩
      intro hx
      obtain ⟨e, he, heq⟩ := List.mem_map.mp hx
      exact (mem_uniqByUri he).2 (by rw [heq]; exact List.mem_cons_self)

/-- an element survives `unique_everseen` iff it is the first of its URI -/
theorem mem_uniqByUri_iff {l : List (Cps × Cps)} {seen : List Cps} {e : Cps × Cps} :
    e ∈ uniqByUri l seen ↔ ∃ pre post, l = pre ++ e :: post ∧ e.2 ∉ pre.map (·.2) ∧ e.2 ∉ seen := by
  induction l generalizing seen with
  | nil => simp [uniqByUri]
  | cons e0 t ih =>
    simp only [uniqByUri]
    by_cases h2 : e0.2 ∈ seen
    · simp only [h2, if_true, ih]
      constructor
      · rintro ⟨pre, post, rfl, h3, h4⟩
        refine ⟨e0 :: pre, post, rfl, ?_, h4⟩
        simp only [List.map_cons, List.mem_cons, not_or]
        exact ⟨fun e' => h4 (e' ▸ h2), h3⟩
      · rintro ⟨pre, post, h1, h3, h4⟩
        cases pre with
        | nil =>
          simp only [List.nil_append, List.cons.injEq] at h1
          exact absurd (h1.1 ▸ h2) h4
        | cons p0 pre' =>
          simp only [List.cons_append, List.cons.injEq] at h1
          simp only [List.map_cons, List.mem_cons, not_or] at h3
          exact ⟨pre', post, h1.2, h3.2, h4⟩
    · simp only [h2, if_false, List.mem_cons, ih]
      constructor
      · rintro (rfl | ⟨pre, post, rfl, h3, h4⟩)
        · exact ⟨[], t, rfl, by simp, h2⟩
        · simp only [not_or] at h4
          refine ⟨e0 :: pre, post, rfl, ?_, h4.2⟩
          simp only [List.map_cons, List.mem_cons, not_or]
          exact ⟨h4.1, h3⟩
      · rintro ⟨pre, post, h1, h3, h4⟩
        cases pre with
        | nil =>
          simp only [List.nil_append, List.cons.injEq] at h1
          exact Or.inl h1.1.symm
        | cons p0 pre' =>
          simp only [List.cons_append, List.cons.injEq] at h1
          simp only [List.map_cons, List.mem_cons, not_or] at h3
          refine Or.inr ⟨pre', post, h1.2, h3.2, ?_⟩
          simp only [not_or]
          exact ⟨h1.1 ▸ h3.1, h4⟩

theorem uniqByUri_of_nodup {l : List (Cps × Cps)} {seen : List Cps} (h : (l.map (·.2)).Nodup)
    (hs : ∀ e ∈ l, e.2 ∉ seen) : uniqByUri l seen = l := by
  induction l generalizing seen with
  | nil => simp [uniqByUri]
  | cons e0 t ih =>
    simp only [List.map_cons, List.nodup_cons] at h
    have h0 : e0.2 ∉ seen := hs e0 List.mem_cons_self
    simp only [uniqByUri, h0, if_false, List.cons.injEq, true_and]
    apply ih h.2
    intro e he
    simp only [List.mem_cons, not_or]
    refine ⟨?_, hs e (List.mem_cons_of_mem _ he)⟩
    intro e'
    exact h.1 (e' ▸ List.mem_map.mpr ⟨e, he, rfl⟩)


theorem viewOfPairs_keys_nodup (l : List (Cps × Cps)) : (viewOfPairs l).keys.Nodup :=
  dictFold_keys_nodup _ (by simp [Dict.keys])

theorem viewOfPairs_values_nodup (l : List (Cps × Cps)) : (viewOfPairs l).values.Nodup :=
  dictFold_values_nodup (by simpa [Dict.values] using uniqByUri_snd_nodup _ _)

theorem viewOfPairs_mem_last {l : List (Cps × Cps)} {e : Cps × Cps} (h : e ∈ viewOfPairs l) :
    ∃ pre post, l = pre ++ e :: post ∧ e.2 ∉ post.map (·.2) := by
  rcases dictFold_mem (d := []) h with h | h
  · simp at h
  · obtain ⟨pre, post, h1, h2, _⟩ := mem_uniqByUri_iff.mp h
    refine ⟨post.reverse, pre.reverse, ?_, ?_⟩
    · have := congrArg List.reverse h1
      simpa using this
    · simpa using h2

theorem viewOfPairs_of_nodup {l : List (Cps × Cps)} (hp : (l.map (·.1)).Nodup) (hu : (l.map (·.2)).Nodup) :
    viewOfPairs l = l.reverse := by
  unfold viewOfPairs
  rw [uniqByUri_of_nodup (by simpa [nodup_reverse] using hu) (by simp), dictOf_eq, dictFold_append]
  · simp
  · simpa [Dict.keys, nodup_reverse] using hp


/-! ## sheets -/

/-- everything that is not an @namespace rule, in order: what namespace operations must leave alone -/
def bodyRules (s : Sheet) : Sheet := s.filter (fun r => !r.isNs)

@[simp] theorem nsPairs_nil : nsPairs [] = [] := rfl
@[simp] theorem nsPairs_cons_ns (n : NsRule) (t : Sheet) : nsPairs (.ns n :: t) = (n.pfx, n.uri) :: nsPairs t := rfl

theorem nsPairs_cons_not {r : Rule} (t : Sheet) (h : r.isNs = false) : nsPairs (r :: t) = nsPairs t := by
  cases r <;> simp_all [nsPairs, Rule.isNs]

theorem nsPairs_append (a b : Sheet) : nsPairs (a ++ b) = nsPairs a ++ nsPairs b := by
  induction a with
  | nil => simp
  | cons r t ih => cases r <;> simp [nsPairs, ih]

theorem usedStrs_append (a b : Sheet) : usedStrs (a ++ b) = usedStrs a ++ usedStrs b := by
  simp [usedStrs]

@[simp] theorem usedStrs_cons_ns (n : NsRule) (t : Sheet) : usedStrs (.ns n :: t) = usedStrs t := by
  simp [usedStrs, ruleUsed]

theorem bodyRules_append (a b : Sheet) : bodyRules (a ++ b) = bodyRules a ++ bodyRules b := by
  simp [bodyRules]

theorem nsUris_append (a b : Sheet) : nsUris (a ++ b) = nsUris a ++ nsUris b := by
  simp [nsUris, nsPairs_append]

/-- the rules `_cleanNamespaces` keeps -/
def keep (items : Dict) : Rule → Bool
  | .ns n => decide ((n.pfx, n.uri) ∈ items)
  | _ => true

theorem cleanGo_ok {items : Dict} {done rest : List Rule} (h : (cleanGo items done rest).2 = false) :
    (cleanGo items done rest).1 = done ++ rest.filter (keep items) := by
  induction rest generalizing done with
  | nil => simp [cleanGo]
  | cons r t ih =>
    cases r with
    | ns n =>
      simp only [cleanGo] at h ⊢
      by_cases h1 : (n.pfx, n.uri) ∈ items
      · simp only [h1, if_true] at h ⊢
        rw [ih h]; simp [keep, h1]
      · simp only [h1, if_false] at h ⊢
        by_cases h2 : delBlocked (done ++ Rule.ns n :: t) n.uri = true
        · simp [h2] at h
        · simp only [h2, Bool.false_eq_true, if_false] at h ⊢
          rw [ih h]; simp [keep, h1]
    | style x => simp only [cleanGo] at h ⊢; rw [ih h]; simp [List.filter_cons, keep]
    | media x => simp only [cleanGo] at h ⊢; rw [ih h]; simp [List.filter_cons, keep]
    | other x => simp only [cleanGo] at h ⊢; rw [ih h]; simp [List.filter_cons, keep]

theorem cleanGo_body (items : Dict) (done rest : List Rule) :
    bodyRules (cleanGo items done rest).1 = bodyRules (done ++ rest) := by
  induction rest generalizing done with
  | nil => simp [cleanGo]
  | cons r t ih =>
    cases r with
    | ns n =>
      simp only [cleanGo]
      split
      · rw [ih]; simp
      · split
        · rfl
        · rw [ih]; simp [bodyRules_append, bodyRules, Rule.isNs]
    | style x => simp only [cleanGo]; rw [ih]; simp
    | media x => simp only [cleanGo]; rw [ih]; simp
    | other x => simp only [cleanGo]; rw [ih]; simp

theorem cleanGo_used (items : Dict) (done rest : List Rule) :
    usedStrs (cleanGo items done rest).1 = usedStrs (done ++ rest) := by
  induction rest generalizing done with
  | nil => simp [cleanGo]
  | cons r t ih =>
    cases r with
    | ns n =>
      simp only [cleanGo]
      split
      · rw [ih]; simp
      · split
        · rfl
        · rw [ih]; simp [usedStrs_append]
    | style x => simp only [cleanGo]; rw [ih]; simp
    | media x => simp only [cleanGo]; rw [ih]; simp
    | other x => simp only [cleanGo]; rw [ih]; simp

/-- the guard of `deleteRule` never lets the last declaration of a used URI go, so whatever the clean-up
deletes (and even when it stops with an exception) a used, declared URI stays declared by some rule -/
theorem cleanGo_keeps_used (items : Dict) (done rest : List Rule) (u : Cps)
    (hu : u ∈ usedStrs (done ++ rest)) (hd : u ∈ nsUris (done ++ rest)) :
    u ∈ nsUris (cleanGo items done rest).1 := by
  induction rest generalizing done with
  | nil => simpa [cleanGo] using hd
  | cons r t ih =>
    cases r with
    | ns n =>
      simp only [cleanGo]
      split
      · apply ih <;> simpa using ‹_›
      · split
        · exact hd
        · rename_i h1 h2
          apply ih
          · simpa [usedStrs_append] using hu
          · -- not blocked: `u` is used, so if this rule declares `u` there is another declaration
            have e1 : nsUris (done ++ Rule.ns n :: t) = nsUris done ++ n.uri :: nsUris t := by
              simp [nsUris, nsPairs_append]
            have e2 : nsUris (done ++ t) = nsUris done ++ nsUris t := nsUris_append _ _
            rw [e1] at hd
            rw [e2]
            by_cases hn : n.uri = u
            · subst hn
              have hb : ¬ ((nsUris (done ++ Rule.ns n :: t)).count n.uri = 1) := by
                intro hc
                apply h2
                simp [delBlocked, hu, hc]
              rw [e1] at hb
              simp only [List.count_append, List.count_cons_self] at hb
              have h3 : 0 < List.count n.uri (nsUris done) ∨ 0 < List.count n.uri (nsUris t) := by omega
              rcases h3 with h | h
              · exact List.mem_append.mpr (Or.inl (List.count_pos_iff.mp h))
              · exact List.mem_append.mpr (Or.inr (List.count_pos_iff.mp h))
            · simp only [List.mem_append, List.mem_cons] at hd ⊢
              rcases hd with h | h | h
              · exact Or.inl h
              · exact absurd h.symm hn
              · exact Or.inr h
    | style x => simp only [cleanGo]; apply ih <;> simpa using ‹_›
    | media x => simp only [cleanGo]; apply ih <;> simpa using ‹_›
    | other x => simp only [cleanGo]; apply ih <;> simpa using ‹_›


/-! ## used URIs -/

/-- the same walk over style rules (top level and inside @media) as `usedStrs`, for any per-item function -/
def collect {β : Type} (f : Item → List β) (s : Sheet) : List β :=
  (s.map fun r => match r with
    | .style sels => (sels.map fun x => (x.map f).flatten).flatten
    | .media rs => (rs.map fun sels => (sels.map fun x => (x.map f).flatten).flatten).flatten
    | _ => []).flatten

theorem usedStrs_eq_collect (s : Sheet) : usedStrs s = collect itemUsed s := by
  have e : ∀ r : Rule, ruleUsed r = (match r with
      | .style sels => (sels.map fun x => (x.map itemUsed).flatten).flatten
      | .media rs => (rs.map fun sels => (sels.map fun x => (x.map itemUsed).flatten).flatten).flatten
      | _ => []) := by
    intro r; cases r <;> simp [ruleUsed, selsUsed]
    rfl
  unfold usedStrs collect
  rw [show ruleUsed = _ from funext e]

/-- the namespace URIs the selectors of a sheet refer to (`''` = "no namespace" needs no declaration) -/
def itemUris : Item → List Cps
  | .q _ (.uri u) _ => if u = [] then [] else [u]
  | _ => []

def selsUris (sels : List Sel) : List Cps := (sels.map fun x => (x.map itemUris).flatten).flatten

def usedUris (s : Sheet) : List Cps := collect itemUris s

theorem collect_append {β : Type} (f : Item → List β) (a b : Sheet) : collect f (a ++ b) = collect f a ++ collect f b := by
  simp [collect]

@[simp] theorem collect_nil {β : Type} (f : Item → List β) : collect f [] = [] := rfl

@[simp] theorem collect_cons_ns {β : Type} (f : Item → List β) (n : NsRule) (t : Sheet) :
    collect f (.ns n :: t) = collect f t := by
  simp [collect]

@[simp] theorem collect_cons_other {β : Type} (f : Item → List β) (k : OKind) (t : Sheet) :
    collect f (.other k :: t) = collect f t := by
  simp [collect]

theorem collect_cons_style {β : Type} (f : Item → List β) (sels : List Sel) (t : Sheet) :
    collect f (.style sels :: t) = (sels.map fun x => (x.map f).flatten).flatten ++ collect f t := by
  simp [collect]

theorem collect_mono {β γ : Type} {f : Item → List β} {g : Item → List γ} {u : β} {w : γ} (h : ∀ it, u ∈ f it → w ∈ g it) {s : Sheet}
    (hu : u ∈ collect f s) : w ∈ collect g s := by
  induction s with
  | nil => simp at hu
  | cons r t ih =>
    rw [show r :: t = [r] ++ t from rfl, collect_append] at hu
    rw [show r :: t = [r] ++ t from rfl, collect_append]
    rcases List.mem_append.mp hu with hu | hu
    · apply List.mem_append.mpr; left
      cases r with
      | ns n => simp at hu
      | other k => simp at hu
      | style sels =>
        simp only [collect, List.map_cons, List.map_nil, List.flatten_cons, List.flatten_nil, List.append_nil] at hu ⊢
        obtain ⟨l, hl, hul⟩ := List.mem_flatten.mp hu
        obtain ⟨x, hx, rfl⟩ := List.mem_map.mp hl
        obtain ⟨l2, hl2, hu2⟩ := List.mem_flatten.mp hul
        obtain ⟨it, hit, rfl⟩ := List.mem_map.mp hl2
        exact List.mem_flatten.mpr ⟨_, List.mem_map.mpr ⟨x, hx, rfl⟩,
          List.mem_flatten.mpr ⟨_, List.mem_map.mpr ⟨it, hit, rfl⟩, h it hu2⟩⟩
      | media rs =>
        simp only [collect, List.map_cons, List.map_nil, List.flatten_cons, List.flatten_nil, List.append_nil] at hu ⊢
        obtain ⟨l0, hl0, hu0⟩ := List.mem_flatten.mp hu
        obtain ⟨sels, hs, rfl⟩ := List.mem_map.mp hl0
        obtain ⟨l, hl, hul⟩ := List.mem_flatten.mp hu0
        obtain ⟨x, hx, rfl⟩ := List.mem_map.mp hl
        obtain ⟨l2, hl2, hu2⟩ := List.mem_flatten.mp hul
        obtain ⟨it, hit, rfl⟩ := List.mem_map.mp hl2
        exact List.mem_flatten.mpr ⟨_, List.mem_map.mpr ⟨sels, hs, rfl⟩,
          List.mem_flatten.mpr ⟨_, List.mem_map.mpr ⟨x, hx, rfl⟩,
            List.mem_flatten.mpr ⟨_, List.mem_map.mpr ⟨it, hit, rfl⟩, h it hu2⟩⟩⟩
    · exact List.mem_append.mpr (Or.inr (ih hu))

theorem itemUris_sub_itemUsed {u : Cps} (it : Item) (h : u ∈ itemUris it) : u ∈ itemUsed it := by
  cases it with
  | q k ns name =>
    cases ns with
    | uri v =>
      simp only [itemUris] at h
      by_cases hv : v = []
      · simp [hv] at h
      · simp only [hv, if_false, List.mem_singleton] at h
        subst h
        simp [itemUsed]
    | none => simp [itemUris] at h
    | any => simp [itemUris] at h
  | bareAttr n => simp [itemUris] at h
  | other v s => simp [itemUris] at h

theorem usedUris_sub_usedStrs {s : Sheet} {u : Cps} (h : u ∈ usedUris s) : u ∈ usedStrs s := by
  rw [usedStrs_eq_collect]
  exact collect_mono itemUris_sub_itemUsed h

/-- `collect f` only looks at the rules that are not @namespace rules -/
theorem collect_bodyRules {β : Type} (f : Item → List β) (s : Sheet) : collect f (bodyRules s) = collect f s := by
  induction s with
  | nil => rfl
  | cons r t ih =>
    cases r with
    | ns n => simpa [bodyRules, Rule.isNs] using ih
    | style x =>
      have : bodyRules (Rule.style x :: t) = Rule.style x :: bodyRules t := by simp [bodyRules, Rule.isNs]
      rw [this, collect_cons_style, collect_cons_style, ih]
    | media x =>
      have : bodyRules (Rule.media x :: t) = Rule.media x :: bodyRules t := by simp [bodyRules, Rule.isNs]
      rw [this]
      have e : ∀ l : Sheet, collect f (Rule.media x :: l) = collect f [Rule.media x] ++ collect f l := fun l =>
        collect_append f [_] l
      rw [e, e t, ih]
    | other k =>
      have : bodyRules (Rule.other k :: t) = Rule.other k :: bodyRules t := by simp [bodyRules, Rule.isNs]
      rw [this]; simpa using ih

/-! ## the invariant -/

/-- the consistent sheets: one rule per prefix, one rule per URI, every URI a selector refers to is
declared (`''` needs no declaration) -/
structure Good (s : Sheet) : Prop where
  pfxNodup : ((nsPairs s).map (·.1)).Nodup
  uriNodup : (nsUris s).Nodup
  declared : ∀ u ∈ usedUris s, u ∈ nsUris s

theorem Good.view_eq {s : Sheet} (h : Good s) : view s = (nsPairs s).reverse :=
  viewOfPairs_of_nodup h.pfxNodup h.uriNodup

theorem Good.get_iff {s : Sheet} (h : Good s) (p u : Cps) : (view s).get p = some u ↔ (p, u) ∈ nsPairs s := by
  constructor
  · intro hg
    have := Dict.get_some_mem hg
    rw [h.view_eq] at this
    simpa using this
  · intro hm
    apply Dict.mem_get_of_nodup
    · exact viewOfPairs_keys_nodup _
    · rw [h.view_eq]; simpa using hm

theorem Good.values {s : Sheet} (h : Good s) (u : Cps) : u ∈ (view s).values ↔ u ∈ nsUris s := by
  rw [h.view_eq]; simp [Dict.values, nsUris]

theorem Good.keys {s : Sheet} (h : Good s) (p : Cps) : p ∈ (view s).keys ↔ p ∈ (nsPairs s).map (·.1) := by
  rw [h.view_eq]; simp [Dict.keys]


/-! ## addressing a rule by its index -/

theorem split_at {α} {s : List α} {i : Nat} {r : α} (h : s[i]? = some r) :
    ∃ pre post, s = pre ++ r :: post ∧ pre.length = i := by
  induction s generalizing i with
  | nil => simp at h
  | cons a t ih =>
    cases i with
    | zero => simp at h; exact ⟨[], t, by simp [h], rfl⟩
    | succ j =>
      simp at h
      obtain ⟨pre, post, h1, h2⟩ := ih h
      exact ⟨a :: pre, post, by simp [h1], by simp [h2]⟩

theorem eraseIdx_split {α} (pre post : List α) (r : α) : (pre ++ r :: post).eraseIdx pre.length = pre ++ post := by
  induction pre with
  | nil => simp
  | cons a t ih => simp [ih]

theorem set_split {α} (pre post : List α) (r x : α) : (pre ++ r :: post).set pre.length x = pre ++ x :: post := by
  induction pre with
  | nil => simp
  | cons a t ih => simp [ih]

theorem nodup_of_nodup_map {α β} {l : List α} {f : α → β} (h : (l.map f).Nodup) : l.Nodup := by
  induction l with
  | nil => simp
  | cons a t ih =>
    simp only [List.map_cons, List.nodup_cons, List.mem_map, not_exists, not_and] at h ⊢
    exact ⟨fun hx => h.1 a hx rfl, ih h.2⟩

theorem nodup_map_of_inj_on {α β} {l : List α} {f : α → β} (h : l.Nodup)
    (hinj : ∀ a ∈ l, ∀ b ∈ l, f a = f b → a = b) : (l.map f).Nodup := by
  induction l with
  | nil => simp
  | cons a t ih =>
    simp only [List.nodup_cons, List.map_cons, List.mem_map, not_exists, not_and] at h ⊢
    refine ⟨?_, ih h.2 (fun x hx y hy => hinj x (List.mem_cons_of_mem _ hx) y (List.mem_cons_of_mem _ hy))⟩
    intro x hx hfx
    have := hinj x (List.mem_cons_of_mem _ hx) a List.mem_cons_self hfx
    exact h.1 (this ▸ hx)

theorem Dict.key_unique_of_values_nodup {d : Dict} (hv : d.values.Nodup) {k1 k2 v : Cps}
    (h1 : (k1, v) ∈ d) (h2 : (k2, v) ∈ d) : k1 = k2 := by
  induction d with
  | nil => simp at h1
  | cons e t ih =>
    simp only [Dict.values, List.map_cons, List.nodup_cons] at hv
    rcases List.mem_cons.mp h1 with h1 | h1 <;> rcases List.mem_cons.mp h2 with h2 | h2
    · rw [← h1] at h2; exact (Prod.mk.inj h2).1.symm ▸ rfl
    · exact absurd (List.mem_map.mpr ⟨(k2, v), h2, by rw [← h1]⟩) hv.1
    · exact absurd (List.mem_map.mpr ⟨(k1, v), h1, by rw [← h2]⟩) hv.1
    · exact ih hv.2 h1 h2

/-! ## `deleteRule` -/

theorem Good.of_pairs_sublist {s s' : Sheet} (h : Good s) (hp : (nsPairs s').Sublist (nsPairs s))
    (hd : ∀ u ∈ usedUris s', u ∈ nsUris s') : Good s' where
  pfxNodup := (hp.map _).nodup h.pfxNodup
  uriNodup := (hp.map _).nodup h.uriNodup
  declared := hd

/-- a used URI has exactly one declaration in a Good sheet, so `deleteRule` refuses to delete its rule -/
theorem Good.blocked {s : Sheet} (h : Good s) {u : Cps} (hu : u ∈ usedUris s) : delBlocked s u = true := by
  have hd := h.declared u hu
  have h1 := usedUris_sub_usedStrs hu
  have h2 : (nsUris s).count u = 1 := count_eq_one_of_mem h.uriNodup hd
  simp [delBlocked, h1, h2]

theorem nsUris_split_ns (pre post : Sheet) (n : NsRule) :
    nsUris (pre ++ Rule.ns n :: post) = nsUris pre ++ n.uri :: nsUris post := by
  simp [nsUris, nsPairs_append]

theorem good_deleteRule {s s' : Sheet} {i : Nat} (h : Good s) (hd : deleteRule s i = .ok s') : Good s' := by
  unfold deleteRule at hd
  split at hd
  · simp at hd
  · rename_i r hr
    obtain ⟨pre, post, rfl, rfl⟩ := split_at hr
    split at hd
    · simp at hd
    · rename_i hb
      simp only [Except.ok.injEq] at hd
      rw [eraseIdx_split] at hd
      subst hd
      apply h.of_pairs_sublist
      · simp [nsPairs_append]
      · intro u hu
        have hu' : u ∈ usedUris (pre ++ Rule.ns r :: post) := by
          simpa [usedUris, collect_append] using hu
        have hbl := h.blocked hu'
        have hne : u ≠ r.uri := fun e => hb (e ▸ hbl)
        have hdec := h.declared u hu'
        rw [nsUris_split_ns] at hdec
        rw [nsUris_append]
        simp only [List.mem_append, List.mem_cons] at hdec ⊢
        rcases hdec with h1 | h1 | h1
        · exact Or.inl h1
        · exact absurd h1 hne
        · exact Or.inr h1
  · rename_i r hns hr
    obtain ⟨pre, post, rfl, rfl⟩ := split_at hr
    simp only [Except.ok.injEq] at hd
    rw [eraseIdx_split] at hd
    subst hd
    have hnot : r.isNs = false := by
      cases r with
      | ns n => exact absurd rfl (hns n)
      | _ => rfl
    have hp : nsPairs (pre ++ post) = nsPairs (pre ++ r :: post) := by
      simp [nsPairs_append, nsPairs_cons_not post hnot]
    apply h.of_pairs_sublist
    · rw [hp]; exact List.Sublist.refl _
    · intro u hu
      have hu' : u ∈ usedUris (pre ++ r :: post) := by
        simp only [usedUris, collect_append, List.mem_append] at hu ⊢
        rcases hu with hu | hu
        · exact Or.inl hu
        · right
          have : collect itemUris (r :: post) = collect itemUris [r] ++ collect itemUris post :=
            collect_append _ [r] post
          rw [this]; exact List.mem_append.mpr (Or.inr hu)
      have := h.declared u hu'
      simpa [nsUris, hp] using this


/-! ## resolution -/

theorem Dict.get_some_values {d : Dict} {k v : Cps} (h : d.get k = some v) : v ∈ d.values :=
  List.mem_map.mpr ⟨(k, v), Dict.get_some_mem h, rfl⟩

theorem resolveItem_uris {d : Dict} {it : SItem} {x : Item} (h : resolveItem d it = .ok x) :
    ∀ u ∈ itemUris x, u ∈ d.values := by
  intro u hu
  cases it with
  | bad => simp [resolveItem] at h
  | other v s => simp [resolveItem] at h; subst h; simp [itemUris] at hu
  | q k ps name =>
    simp only [resolveItem] at h
    split at h
    · simp at h; subst h; simp [itemUris] at hu
    · cases ps with
      | anyPfx => simp at h; subst h; simp [itemUris] at hu
      | emptyPfx => simp at h; subst h; simp [itemUris] at hu
      | noPfx =>
        simp at h; subst h
        cases hg : d.get [] with
        | none => simp [hg, itemUris] at hu
        | some v =>
          simp only [hg, itemUris] at hu
          split at hu
          · simp at hu
          · simp at hu; subst hu; exact Dict.get_some_values hg
      | named p =>
        cases hg : d.get p with
        | none => simp [hg] at h
        | some v =>
          simp [hg] at h; subst h
          simp only [itemUris] at hu
          split at hu
          · simp at hu
          · simp at hu; subst hu; exact Dict.get_some_values hg

theorem resolveSel_uris {d : Dict} {sel : SSel} {x : Sel} (h : resolveSel d sel = .ok x) :
    ∀ u ∈ (x.map itemUris).flatten, u ∈ d.values := by
  induction sel generalizing x with
  | nil => simp [resolveSel] at h; subst h; simp
  | cons i t ih =>
    simp only [resolveSel] at h
    cases h1 : resolveItem d i with
    | error e => simp [h1] at h
    | ok y =>
      cases h2 : resolveSel d t with
      | error e => simp [h1, h2] at h
      | ok ys =>
        simp [h1, h2] at h; subst h
        intro u hu
        simp only [List.map_cons, List.flatten_cons, List.mem_append] at hu
        rcases hu with hu | hu
        · exact resolveItem_uris h1 u hu
        · exact ih h2 u hu

theorem resolveSels_uris {d : Dict} {sels : List SSel} {x : List Sel} (h : resolveSels d sels = .ok x) :
    ∀ u ∈ selsUris x, u ∈ d.values := by
  induction sels generalizing x with
  | nil => simp [resolveSels] at h; subst h; simp [selsUris]
  | cons i t ih =>
    simp only [resolveSels] at h
    cases h1 : resolveSel d i with
    | error e => simp [h1] at h
    | ok y =>
      cases h2 : resolveSels d t with
      | error e => simp [h1, h2] at h
      | ok ys =>
        simp [h1, h2] at h; subst h
        intro u hu
        simp only [selsUris, List.map_cons, List.flatten_cons, List.mem_append] at hu
        rcases hu with hu | hu
        · exact resolveSel_uris h1 u hu
        · exact ih h2 u hu

theorem resolveSel_error_of_mem {d : Dict} {sel : SSel} {it : SItem} {e : Err} (hm : it ∈ sel)
    (he : resolveItem d it = .error e) : ∃ e', resolveSel d sel = .error e' := by
  induction sel with
  | nil => simp at hm
  | cons i t ih =>
    simp only [resolveSel]
    cases h1 : resolveItem d i with
    | error e1 => exact ⟨e1, rfl⟩
    | ok y =>
      rcases List.mem_cons.mp hm with hm | hm
      · subst hm; rw [he] at h1; cases h1
      · obtain ⟨e', h2⟩ := ih hm
        exact ⟨e', by simp [h2]⟩

theorem resolveSels_error_of_mem {d : Dict} {sels : List SSel} {sel : SSel} {e : Err} (hm : sel ∈ sels)
    (he : resolveSel d sel = .error e) : ∃ e', resolveSels d sels = .error e' := by
  induction sels with
  | nil => simp at hm
  | cons i t ih =>
    simp only [resolveSels]
    cases h1 : resolveSel d i with
    | error e1 => exact ⟨e1, rfl⟩
    | ok y =>
      rcases List.mem_cons.mp hm with hm | hm
      · subst hm; rw [he] at h1; cases h1
      · obtain ⟨e', h2⟩ := ih hm
        exact ⟨e', by simp [h2]⟩

/-! ## operations that leave the @namespace rules alone -/

theorem Good.of_same_pairs {s s' : Sheet} (h : Good s) (hp : nsPairs s' = nsPairs s)
    (hd : ∀ u ∈ usedUris s', u ∈ usedUris s ∨ u ∈ nsUris s) : Good s' where
  pfxNodup := by rw [hp]; exact h.pfxNodup
  uriNodup := by simpa [nsUris, hp] using h.uriNodup
  declared := by
    intro u hu
    have : u ∈ nsUris s := by
      rcases hd u hu with h1 | h1
      · exact h.declared u h1
      · exact h1
    simpa [nsUris, hp] using this

theorem usedUris_cons (r : Rule) (t : Sheet) : usedUris (r :: t) = usedUris [r] ++ usedUris t :=
  collect_append _ [r] t

theorem usedUris_style (sels : List Sel) : usedUris [.style sels] = selsUris sels := by
  simp [usedUris, collect, selsUris]

/-- replacing the selectors of the style rule at position `|pre|` by selectors resolved against the view -/
theorem good_set_style {pre post : Sheet} {r : Rule} {x : List Sel} (hr : r.isNs = false)
    (h : Good (pre ++ r :: post))
    (hx : ∀ u ∈ selsUris x, u ∈ nsUris (pre ++ r :: post)) : Good (pre ++ .style x :: post) := by
  apply h.of_same_pairs
  · simp [nsPairs_append, nsPairs_cons_not post hr, nsPairs]
  · intro u hu
    simp only [usedUris, collect_append, List.mem_append] at hu ⊢
    rcases hu with hu | hu
    · exact Or.inl (Or.inl hu)
    · have e := usedUris_cons (.style x) post
      have e2 := usedUris_cons r post
      simp only [usedUris] at e e2
      rw [e] at hu
      rcases List.mem_append.mp hu with hu | hu
      · right; apply hx; have := usedUris_style x; simp only [usedUris] at this; rw [this] at hu; exact hu
      · left; right; rw [e2]; exact List.mem_append.mpr (Or.inr hu)

/-- inserting a rule that is not an @namespace rule anywhere -/
theorem good_insert_body {s : Sheet} {r : Rule} (i : Nat) (hr : r.isNs = false) (h : Good s)
    (hx : ∀ u ∈ usedUris [r], u ∈ nsUris s) : Good (insertAt s i r) := by
  unfold insertAt
  apply h.of_same_pairs
  · rw [nsPairs_append, nsPairs_cons_not _ hr, ← nsPairs_append, List.take_append_drop]
  · intro u hu
    rw [show usedUris (s.take i ++ r :: s.drop i) = usedUris (s.take i) ++ (usedUris [r] ++ usedUris (s.drop i)) by
      simp only [usedUris, collect_append]; rw [show r :: s.drop i = [r] ++ s.drop i from rfl, collect_append]] at hu
    have hs : usedUris s = usedUris (s.take i) ++ usedUris (s.drop i) := by
      simp only [usedUris]; rw [← collect_append, List.take_append_drop]
    rw [hs]
    simp only [List.mem_append] at hu ⊢
    rcases hu with hu | hu | hu
    · exact Or.inl (Or.inl hu)
    · exact Or.inr (hx u hu)
    · exact Or.inl (Or.inr hu)

theorem good_append_body {s : Sheet} {r : Rule} (hr : r.isNs = false) (h : Good s)
    (hx : ∀ u ∈ usedUris [r], u ∈ nsUris s) : Good (s ++ [r]) := by
  have := good_insert_body s.length hr h hx
  simpa [insertAt] using this


/-! ## `rule.prefix = q` -/

/-- replacing an @namespace rule by one for the same URI whose prefix no other rule has -/
theorem good_replace_ns {pre post : Sheet} {n m : NsRule} (h : Good (pre ++ .ns n :: post)) (hm : m.uri = n.uri)
    (hq1 : m.pfx ∉ (nsPairs pre).map (·.1)) (hq2 : m.pfx ∉ (nsPairs post).map (·.1)) :
    Good (pre ++ .ns m :: post) where
  pfxNodup := by
    have := h.pfxNodup
    simp only [nsPairs_append, nsPairs_cons_ns, List.map_append, List.map_cons] at this ⊢
    rw [List.nodup_append] at this ⊢
    obtain ⟨h1, h2, h3⟩ := this
    simp only [List.nodup_cons] at h2 ⊢
    refine ⟨h1, ⟨hq2, h2.2⟩, ?_⟩
    intro a ha b hb
    rcases List.mem_cons.mp hb with hb | hb
    · subst hb; intro e; subst e; exact hq1 ha
    · exact h3 a ha b (List.mem_cons_of_mem _ hb)
  uriNodup := by simpa [nsUris, nsPairs_append, hm] using h.uriNodup
  declared := by
    intro u hu
    have hu' : u ∈ usedUris (pre ++ .ns n :: post) := by simpa [usedUris, collect_append] using hu
    simpa [nsUris, nsPairs_append, hm] using h.declared u hu'

theorem good_setPrefix {pre post : Sheet} {n : NsRule} {q : Cps} (h : Good (pre ++ .ns n :: post))
    (hq1 : q ∉ (nsPairs pre).map (·.1)) (hq2 : q ∉ (nsPairs post).map (·.1)) :
    Good (pre ++ .ns (n.setPrefix q) :: post) :=
  good_replace_ns (m := n.setPrefix q) h rfl hq1 hq2

/-- removing any rule from the list directly keeps the sheet consistent unless it is the declaration of a URI
that is in use -/
theorem good_rawDel {pre post : Sheet} {r : Rule} (h : Good (pre ++ r :: post))
    (hr : ∀ n, r = .ns n → n.uri ∉ usedUris (pre ++ r :: post)) : Good (pre ++ post) := by
  cases r with
  | ns n =>
    apply h.of_pairs_sublist
    · simp [nsPairs_append]
    · intro u hu
      have hu' : u ∈ usedUris (pre ++ Rule.ns n :: post) := by simpa [usedUris, collect_append] using hu
      have hne : u ≠ n.uri := fun e => hr n rfl (e ▸ hu')
      have hdec := h.declared u hu'
      rw [nsUris_split_ns] at hdec
      rw [nsUris_append]
      simp only [List.mem_append, List.mem_cons] at hdec ⊢
      rcases hdec with h1 | h1 | h1
      · exact Or.inl h1
      · exact absurd h1 hne
      · exact Or.inr h1
  | style x =>
    have hd := good_deleteRule (s := pre ++ Rule.style x :: post) (s' := pre ++ post) (i := pre.length) h
      (by simp [deleteRule, eraseIdx_split])
    exact hd
  | media x =>
    have hd := good_deleteRule (s := pre ++ Rule.media x :: post) (s' := pre ++ post) (i := pre.length) h
      (by simp [deleteRule, eraseIdx_split])
    exact hd
  | other x =>
    have hd := good_deleteRule (s := pre ++ Rule.other x :: post) (s' := pre ++ post) (i := pre.length) h
      (by simp [deleteRule, eraseIdx_split])
    exact hd

/-! ## `insertRule` of an @namespace rule -/

theorem nsPairs_filter_keep (items : Dict) (s : Sheet) :
    nsPairs (s.filter (keep items)) = (nsPairs s).filter (fun e => decide (e ∈ items)) := by
  induction s with
  | nil => rfl
  | cons r t ih =>
    cases r with
    | ns n =>
      by_cases hm : (n.pfx, n.uri) ∈ items
      · simp [List.filter_cons, keep, hm, ih]
      · simp [List.filter_cons, keep, hm, ih]
    | style x => simpa [List.filter_cons, keep, nsPairs] using ih
    | media x => simpa [List.filter_cons, keep, nsPairs] using ih
    | other x => simpa [List.filter_cons, keep, nsPairs] using ih

theorem nsPairs_insertAt_ns (s : Sheet) (i : Nat) (r : NsRule) :
    nsPairs (insertAt s i (.ns r)) = nsPairs (s.take i) ++ (r.pfx, r.uri) :: nsPairs (s.drop i) := by
  simp [insertAt, nsPairs_append]

theorem nsPairs_take_drop (s : Sheet) (i : Nat) : nsPairs (s.take i) ++ nsPairs (s.drop i) = nsPairs s := by
  rw [← nsPairs_append, List.take_append_drop]

theorem usedUris_insertAt_ns (s : Sheet) (i : Nat) (r : NsRule) : usedUris (insertAt s i (.ns r)) = usedUris s := by
  simp only [usedUris, insertAt, collect_append, collect_cons_ns]
  rw [← collect_append, List.take_append_drop]

/-- the clean-up, when it goes through, produces a consistent sheet from any sheet whose (prefix, URI) pairs are
distinct and whose used URIs are declared by some rule -/
theorem good_clean {s1 : Sheet} (hnd : (nsPairs s1).Nodup)
    (hdecl : ∀ u ∈ usedUris s1, u ∈ nsUris s1) (hc : (cleanNamespaces s1).2 = false) :
    Good (cleanNamespaces s1).1 := by
  have hs1 : (cleanNamespaces s1).1 = s1.filter (keep (view s1)) := by
    have := cleanGo_ok (items := view s1) (done := []) (rest := s1) hc
    simpa [cleanNamespaces] using this
  have hkept_nd : ((nsPairs s1).filter (fun e => decide (e ∈ view s1))).Nodup := hnd.sublist List.filter_sublist
  have hkept_mem : ∀ e ∈ (nsPairs s1).filter (fun e => decide (e ∈ view s1)), e ∈ view s1 := by
    intro e he; simpa using (List.mem_filter.mp he).2
  have hk := viewOfPairs_keys_nodup (nsPairs s1)
  have hv := viewOfPairs_values_nodup (nsPairs s1)
  refine ⟨?_, ?_, ?_⟩
  · rw [hs1, nsPairs_filter_keep]
    apply nodup_map_of_inj_on hkept_nd
    intro a ha b hb hab
    have h1 := Dict.mem_get_of_nodup hk (hkept_mem a ha)
    have h2 := Dict.mem_get_of_nodup hk (hkept_mem b hb)
    rw [hab] at h1
    have : a.2 = b.2 := by rw [h1] at h2; exact Option.some.inj h2
    exact Prod.ext hab this
  · rw [hs1]
    simp only [nsUris, nsPairs_filter_keep]
    apply nodup_map_of_inj_on hkept_nd
    intro a ha b hb hab
    have h1 := hkept_mem a ha
    have h2 := hkept_mem b hb
    have : a.1 = b.1 := Dict.key_unique_of_values_nodup hv (k1 := a.1) (k2 := b.1) (v := a.2) h1
      (by rw [hab]; exact h2)
    exact Prod.ext this hab
  · intro u hu
    have hb := cleanGo_body (view s1) [] s1
    have hu1 : u ∈ usedUris s1 := by
      have e1 := collect_bodyRules itemUris (cleanNamespaces s1).1
      have e2 := collect_bodyRules itemUris s1
      simp only [cleanNamespaces, List.nil_append] at e1 hb
      simp only [usedUris, cleanNamespaces] at hu ⊢
      rw [← e1, hb, e2] at hu
      exact hu
    have hd0 := hdecl u hu1
    apply cleanGo_keeps_used (view s1) [] s1 u
    · simpa using usedUris_sub_usedStrs hu1
    · simpa using hd0

theorem good_insert_clean {s : Sheet} {r : NsRule} {i : Nat} (h : Good s)
    (hnew : (r.pfx, r.uri) ∉ nsPairs s) (hc : (cleanNamespaces (insertAt s i (.ns r))).2 = false) :
    Good (cleanNamespaces (insertAt s i (.ns r))).1 := by
  apply good_clean _ _ hc
  · rw [nsPairs_insertAt_ns]
    have h0 : (nsPairs s).Nodup := nodup_of_nodup_map h.pfxNodup
    rw [← nsPairs_take_drop s i] at h0 hnew
    rw [List.nodup_append] at h0 ⊢
    simp only [List.mem_append, not_or] at hnew
    refine ⟨h0.1, List.nodup_cons.mpr ⟨hnew.2, h0.2.1⟩, ?_⟩
    intro a ha b hb
    rcases List.mem_cons.mp hb with hb | hb
    · subst hb; intro e; subst e; exact hnew.1 ha
    · exact h0.2.2 a ha b hb
  · intro u hu
    rw [usedUris_insertAt_ns] at hu
    have hd0 := h.declared u hu
    simp only [nsUris, nsPairs_insertAt_ns, List.map_append, List.map_cons, List.mem_append, List.mem_cons]
    simp only [nsUris, ← nsPairs_take_drop s i, List.map_append, List.mem_append] at hd0
    rcases hd0 with h1 | h1
    · exact Or.inl h1
    · exact Or.inr (Or.inr h1)

theorem good_insertNsAt {s : Sheet} {r : NsRule} {index : Nat} {ret : Option Nat} (h : Good s)
    (hok : (insertNsAt s r index true).2 = .ok ret) : Good (insertNsAt s r index true).1 := by
  unfold insertNsAt at hok ⊢
  by_cases hdoub : (view s).get r.pfx = some r.uri
  · simp only [hdoub, if_true]; exact h
  · have hnew : (r.pfx, r.uri) ∉ nsPairs s := fun hm => hdoub ((h.get_iff _ _).mpr hm)
    simp only [hdoub, if_false, if_true] at hok ⊢
    by_cases hc : (cleanNamespaces (insertAt s index (Rule.ns r))).2 = true
    · simp [hc] at hok
    · have hc' : (cleanNamespaces (insertAt s index (Rule.ns r))).2 = false := by simpa using hc
      have hg := good_insert_clean (i := index) h hnew hc'
      simp only [hc', Bool.false_eq_true, if_false]
      split <;> exact hg

theorem good_insertNs {s : Sheet} {r : NsRule} {idx : Option Nat} {io : Bool} {ret : Option Nat} (h : Good s)
    (hok : (insertNs s r idx io true).2 = .ok ret) : Good (insertNs s r idx io true).1 := by
  unfold insertNs at hok ⊢
  cases hp : nsPosition s idx io with
  | error e => simp [hp] at hok
  | ok index =>
    simp only [hp] at hok ⊢
    exact good_insertNsAt h hok


/-! ## the mapping interface -/

theorem findLastNs_some {p : Cps} {s : Sheet} {i : Nat} {n : NsRule} (h : findLastNs p s = some (i, n)) :
    ∃ pre post, s = pre ++ .ns n :: post ∧ pre.length = i ∧ n.pfx = p := by
  induction s generalizing i with
  | nil => simp [findLastNs] at h
  | cons r t ih =>
    simp only [findLastNs] at h
    cases ht : findLastNs p t with
    | some x =>
      obtain ⟨j, m⟩ := x
      simp only [ht, Option.some.injEq, Prod.mk.injEq] at h
      obtain ⟨rfl, rfl⟩ := h
      obtain ⟨pre, post, h1, h2, h3⟩ := ih ht
      exact ⟨r :: pre, post, by simp [h1], by simp [h2], h3⟩
    | none =>
      simp only [ht] at h
      cases r with
      | ns m =>
        by_cases hm : m.pfx = p
        · simp only [hm, if_true, Option.some.injEq, Prod.mk.injEq] at h
          obtain ⟨rfl, rfl⟩ := h
          exact ⟨[], t, rfl, rfl, hm⟩
        · simp [hm] at h
      | style x => simp at h
      | media x => simp at h
      | other x => simp at h

theorem good_setNs {s : Sheet} {p u : Cps} {ret : Option Nat} (h : Good s)
    (hok : (setNs s p u).2 = .ok ret) : Good (setNs s p u).1 := by
  unfold setNs at hok ⊢
  cases hf : findLastNs p s with
  | none =>
    simp only [hf] at hok ⊢
    by_cases hu : u = []
    · simp [hu] at hok
    · simp only [hu, if_false] at hok ⊢
      cases hr : (insertNs s (mkNs p u) none true true).2 with
      | err e => simp [hr] at hok
      | ok r => exact good_insertNs h hr
  | some x =>
    obtain ⟨i, n⟩ := x
    obtain ⟨pre, post, rfl, rfl, hn⟩ := findLastNs_some hf
    simp only [hf] at hok ⊢
    split at hok
    · simp at hok
    · rename_i h1
      simp only [h1, if_false]
      split
      · split
        · exact h
        · rw [set_split]
          apply h.of_same_pairs
          · simp [nsPairs_append, NsRule.setPrefix, hn]
          · intro v hv; left; simpa [usedUris, collect_append] using hv
      · exact h

theorem good_delNs {s : Sheet} {p : Cps} (h : Good s) : Good (delNs s p).1 := by
  unfold delNs
  cases hf : findLastNs p s with
  | none => exact h
  | some x =>
    obtain ⟨i, n⟩ := x
    simp only
    cases hd : deleteRule s i with
    | error e => exact h
    | ok s' => exact good_deleteRule h hd

theorem bodyRules_eraseIdx_ns {l : Sheet} {j : Nat} {n : NsRule} (h : l[j]? = some (.ns n)) :
    bodyRules (l.eraseIdx j) = bodyRules l := by
  obtain ⟨pre, post, rfl, rfl⟩ := split_at h
  rw [eraseIdx_split]
  simp [bodyRules_append, bodyRules, Rule.isNs]

theorem insertAt_get (s : Sheet) (i : Nat) (r : Rule) (hi : i ≤ s.length) : (insertAt s i r)[i]? = some r := by
  unfold insertAt
  rw [List.getElem?_append_right (by simp; omega)]
  simp [List.length_take, Nat.min_eq_left hi]

/-! ## namespace operations never touch the other rules (T15.3, first half) -/

theorem bodyRules_insertAt_ns (s : Sheet) (i : Nat) (r : NsRule) : bodyRules (insertAt s i (.ns r)) = bodyRules s := by
  simp only [insertAt, bodyRules_append]
  rw [show bodyRules (Rule.ns r :: s.drop i) = bodyRules (s.drop i) by simp [bodyRules, Rule.isNs],
    ← bodyRules_append, List.take_append_drop]

theorem body_insertNsAt (s : Sheet) (r : NsRule) (index : Nat) (clean : Bool) (hi : index ≤ s.length) :
    bodyRules (insertNsAt s r index clean).1 = bodyRules s := by
  unfold insertNsAt
  split
  · rfl
  · cases clean with
    | false => simp [bodyRules_insertAt_ns]
    | true =>
      have := cleanGo_body (view (insertAt s index (.ns r))) [] (insertAt s index (.ns r))
      simp only [List.nil_append, bodyRules_insertAt_ns] at this
      simp only [if_true, cleanNamespaces]
      by_cases h1 : (cleanGo (view (insertAt s index (Rule.ns r))) [] (insertAt s index (Rule.ns r))).snd = true
      · simp only [h1, if_true]
      · simp only [h1, if_false]
        by_cases h2 : (r.pfx, r.uri) ∈ view (insertAt s index (Rule.ns r))
        · simp only [h2, if_true]; exact this
        · simp only [h2, if_false]; exact this

theorem nsInOrderIndex_le (s : Sheet) : nsInOrderIndex s ≤ s.length := by
  have hl : ∀ (p : Rule → Bool) (l : List Rule) (k : Nat), lastIdx p l = some k → k < l.length := by
    intro p l
    induction l with
    | nil => intro k h; simp [lastIdx] at h
    | cons a t ih =>
      intro k h
      simp only [lastIdx] at h
      cases ht : lastIdx p t with
      | some m => simp only [ht, Option.some.injEq] at h; subst h; have := ih m ht; simp; omega
      | none =>
        simp only [ht] at h
        split at h
        · simp only [Option.some.injEq] at h; subst h; simp
        · simp at h
  unfold nsInOrderIndex
  split
  · rename_i k hk; have := hl _ _ _ hk; omega
  · simp only
    generalize (match lastIdx Rule.isCharsetOrImport s with
      | some i => i + 1
      | none => 0) = start
    split
    · rename_i j hj
      have hlt := (List.findIdx?_eq_some_iff_findIdx_eq.mp hj).1
      simp only [List.length_drop] at hlt
      omega
    · exact Nat.le_refl _

theorem nsPosition_le {s : Sheet} {idx : Option Nat} {io : Bool} {index : Nat}
    (h : nsPosition s idx io = .ok index) : index ≤ s.length := by
  unfold nsPosition at h
  simp only at h
  split at h
  · simp at h
  · rename_i hlen
    split at h
    · simp only [Except.ok.injEq] at h; subst h; exact nsInOrderIndex_le _
    · split at h
      · simp at h
      · split at h
        · simp at h
        · simp only [Except.ok.injEq] at h; subst h; omega

theorem body_insertNs (s : Sheet) (r : NsRule) (idx : Option Nat) (io clean : Bool) :
    bodyRules (insertNs s r idx io clean).1 = bodyRules s := by
  unfold insertNs
  split
  · rfl
  · rename_i index hp
    exact body_insertNsAt _ _ _ _ (nsPosition_le hp)

theorem body_set_ns {pre post : Sheet} {n m : NsRule} :
    bodyRules (pre ++ .ns m :: post) = bodyRules (pre ++ .ns n :: post) := by
  simp [bodyRules_append, bodyRules, Rule.isNs]

theorem body_setNs (s : Sheet) (p u : Cps) : bodyRules (setNs s p u).1 = bodyRules s := by
  unfold setNs
  cases hf : findLastNs p s with
  | none =>
    simp only
    split
    · rfl
    · exact body_insertNs _ _ _ _ _
  | some x =>
    obtain ⟨i, n⟩ := x
    obtain ⟨pre, post, rfl, rfl, hn⟩ := findLastNs_some hf
    simp only
    split
    · rfl
    · split
      · split
        · rfl
        · rw [set_split]; exact body_set_ns
      · rfl

theorem body_deleteRule_ns {s s' : Sheet} {i : Nat} {n : NsRule} (hi : s[i]? = some (.ns n))
    (hd : deleteRule s i = .ok s') : bodyRules s' = bodyRules s := by
  obtain ⟨pre, post, rfl, rfl⟩ := split_at hi
  unfold deleteRule at hd
  simp only [hi] at hd
  split at hd
  · simp at hd
  · simp only [Except.ok.injEq] at hd
    rw [eraseIdx_split] at hd
    subst hd
    simp [bodyRules_append, bodyRules, Rule.isNs]

theorem body_delNs (s : Sheet) (p : Cps) : bodyRules (delNs s p).1 = bodyRules s := by
  unfold delNs
  cases hf : findLastNs p s with
  | none => rfl
  | some x =>
    obtain ⟨i, n⟩ := x
    obtain ⟨pre, post, rfl, rfl, hn⟩ := findLastNs_some hf
    simp only
    cases hd : deleteRule (pre ++ Rule.ns n :: post) pre.length with
    | error e => rfl
    | ok s' =>
      exact body_deleteRule_ns (n := n) (by simp) hd


/-! ## rejected calls -/

theorem insertNs_err {s : Sheet} {r : NsRule} {idx : Option Nat} {io clean : Bool} {e : Err}
    (h : (insertNs s r idx io clean).2 = .err e) : (insertNs s r idx io clean).1 = s := by
  unfold insertNs at h ⊢
  cases hp : nsPosition s idx io with
  | error e' => rfl
  | ok index =>
    simp only [hp] at h ⊢
    unfold insertNsAt at h ⊢
    by_cases hd : (view s).get r.pfx = some r.uri
    · simp [hd] at h
    · simp only [hd, if_false] at h ⊢
      cases clean with
      | false => exact absurd h (by simp)
      | true =>
        simp only [if_true] at h ⊢
        by_cases hc : (cleanNamespaces (insertAt s index (Rule.ns r))).2 = true
        · simp only [hc, if_true]
        · simp only [hc, if_false] at h
          by_cases hm : (r.pfx, r.uri) ∈ view (insertAt s index (Rule.ns r))
          · simp [hm] at h
          · simp [hm] at h

theorem setNs_err {s : Sheet} {p u : Cps} {e : Err} (h : (setNs s p u).2 = .err e) : (setNs s p u).1 = s := by
  unfold setNs at h ⊢
  cases hf : findLastNs p s with
  | none =>
    simp only [hf] at h ⊢
    by_cases hu : u = []
    · simp [hu]
    · simp only [hu, if_false] at h ⊢
      cases hr : (insertNs s (mkNs p u) none true true).2 with
      | ok r => simp [hr] at h
      | err e' => exact insertNs_err hr
  | some x =>
    obtain ⟨i, n⟩ := x
    simp only [hf] at h ⊢
    split at h
    · rename_i h1; simp [h1]
    · rename_i h1
      simp only [h1, if_false]
      split at h
      · rename_i h2
        simp only [h2, if_true]
        split at h
        · rename_i h3; simp [h3]
        · simp at h
      · simp at h

/-! ## guards of the operations (what the findings listed in known/C15.json exclude) -/

/-- source rules outside the finding C15-namespace-after-variables (no @variables rule) -/
def SrcOk : SrcRule → Prop
  | .other .variables => False
  | _ => True

/-- the operation stays outside the regions in which the code is known to lose consistency:
* a style rule object whose selectors were resolved elsewhere and refer to URIs this sheet does not declare
  (C15-foreign-style-rule),
* `parse` with a non-empty dict of namespaces (C15-tuple-namespaces), or of a text with an @variables rule
  (C15-namespace-after-variables),
* `del sheet.cssRules[i]` / `.pop(i)` on the declaration of a URI that is in use (C15-rulelist-bypass). -/
def OpOk (s : Sheet) : Op → Prop
  | .parse init src => init = [] ∧ ∀ r ∈ src, SrcOk r
  | .insStyleObj sels _ _ => ∀ u ∈ selsUris sels, u ∈ nsUris s
  | .rawDel i => ∀ n, s[i]? = some (.ns n) → n.uri ∉ usedUris s
  | _ => True

theorem anyNsPfx_false {q : Cps} {s : Sheet} (h : anyNsPfx q s = false) : q ∉ (nsPairs s).map (·.1) := by
  induction s with
  | nil => simp
  | cons r t ih =>
    simp only [anyNsPfx, List.any_cons, Bool.or_eq_false_iff] at h
    cases r with
    | ns n =>
      simp only [decide_eq_false_iff_not] at h
      simp only [nsPairs_cons_ns, List.map_cons, List.mem_cons, not_or]
      exact ⟨fun e => h.1 e.symm, ih h.2⟩
    | style x => simpa [nsPairs] using ih h.2
    | media x => simpa [nsPairs] using ih h.2
    | other x => simpa [nsPairs] using ih h.2

/-- a history all of whose steps are `OpOk` -/
def AllOk : Sheet → List Op → Prop
  | _, [] => True
  | s, op :: t => OpOk s op ∧ AllOk (step s op).1 t

theorem good_insertStyle {s : Sheet} {x : List Sel} {idx : Option Nat} {io : Bool} (h : Good s)
    (hx : ∀ u ∈ selsUris x, u ∈ nsUris s) : Good (insertStyle s (.style x) idx io).1 := by
  have hx' : ∀ u ∈ usedUris [Rule.style x], u ∈ nsUris s := by rw [usedUris_style]; exact hx
  unfold insertStyle
  simp only
  split
  · exact h
  · split
    · exact good_append_body rfl h hx'
    · split
      · exact h
      · exact good_insert_body _ rfl h hx'

/-! ## writing an item back and reading it again (T15.3, second half) -/

/-- the surface form the serializer chooses for an item (`serialize.py:847-868`), as syntax -/
def unparseItem (d : Dict) : Item → SItem
  | .q k ns name =>
    if plainNs d ns then .q k .noPfx name
    else match ns with
      | .any => .q k .anyPfx name
      | .uri u => match d.prefixFor u with
        | some p => if p = [] then .q k .emptyPfx name else .q k (.named p) name
        | none => .q k .emptyPfx name
      | .none => .q k .emptyPfx name
  | .bareAttr n => .q .attrSel .noPfx n
  | .other v s => .other v s

def renderPs : PfxSpec → Cps
  | .noPfx => []
  | .anyPfx => star ++ bar
  | .emptyPfx => bar
  | .named p => p ++ bar

/-- the text of a surface item (`!` stands for any character the selector grammar rejects) -/
def renderSItem : SItem → Cps
  | .q _ ps name => renderPs ps ++ name
  | .other _ s => s
  | .bad => [0x21]

theorem render_unparse (d : Dict) (it : Item) : renderSItem (unparseItem d it) = serItem d it := by
  cases it with
  | bareAttr n => simp [unparseItem, renderSItem, renderPs, serItem]
  | other v s => simp [unparseItem, renderSItem, serItem]
  | q k ns name =>
    simp only [unparseItem, serItem]
    by_cases hp : plainNs d ns = true
    · simp [hp, renderSItem, renderPs]
    · simp only [hp, Bool.false_eq_true, if_false]
      cases ns with
      | any => simp [renderSItem, renderPs]
      | none => simp [renderSItem, renderPs]
      | uri u =>
        cases hf : d.prefixFor u with
        | none => simp [hf, renderSItem, renderPs]
        | some p =>
          by_cases hpe : p = []
          · simp [hf, hpe, renderSItem, renderPs]
          · simp [hf, hpe, renderSItem, renderPs]

/-- what re-resolution needs of an item (relative to the mapping `d` it is written and read with):
* shape: an attribute name is never stored with `None` or `''` as namespace (resolution does not produce that),
* an item stored with `None` (written while no default namespace was declared) — no default namespace now,
* an attribute name in a namespace — that namespace is not the default namespace now,
* a real URI — it is declared. -/
def ReGuard (d : Dict) : Item → Prop
  | .q k ns _ =>
    (k = .attrSel → ns ≠ .none ∧ ns ≠ .uri [] ∧ ∀ u, ns = .uri u → d.get [] ≠ some u) ∧
    (ns = .none → d.get [] = none) ∧
    (∀ u, ns = .uri u → u ≠ [] → u ∈ d.values)
  | _ => True

theorem reresolve_item (d : Dict) (hk : d.keys.Nodup) (it : Item) (hg : ReGuard d it) :
    resolveItem d (unparseItem d it) = .ok it := by
  cases it with
  | bareAttr n => simp [unparseItem, resolveItem]
  | other v s => simp [unparseItem, resolveItem]
  | q k ns name =>
    obtain ⟨g1, g2, g3⟩ := hg
    cases ns with
    | any =>
      simp [unparseItem, plainNs, resolveItem]
    | none =>
      have hd := g2 rfl
      have hk' : k ≠ .attrSel := fun e => (g1 e).1 rfl
      simp [unparseItem, plainNs, hd, resolveItem, hk']
    | uri u =>
      have hattr : k = .attrSel → u ≠ [] ∧ d.get [] ≠ some u := fun e =>
        ⟨fun e2 => (g1 e).2.1 (by rw [e2]), (g1 e).2.2 u rfl⟩
      cases hd : d.get [] with
      | some dd =>
        by_cases hdu : dd = u
        · subst hdu
          have hk' : k ≠ .attrSel := fun e => (hattr e).2 hd
          simp [unparseItem, plainNs, hd, resolveItem, hk']
        · simp only [unparseItem, plainNs, hd, hdu, decide_false, Bool.false_eq_true, if_false]
          cases hf : d.prefixFor u with
          | some p =>
            have hm := Dict.prefixFor_some_mem hf
            have hgp := Dict.mem_get_of_nodup hk hm
            have hpe : p ≠ [] := by
              intro e; subst e; rw [hd] at hgp; exact hdu (Option.some.inj hgp)
            simp [hf, hpe, resolveItem, hgp]
          | none =>
            have hnv := Dict.prefixFor_none_iff.mp hf
            have hu : u = [] := by
              by_cases e : u = []
              · exact e
              · exact absurd (g3 u rfl e) hnv
            subst hu
            have hk' : k ≠ .attrSel := fun e => (hattr e).1 rfl
            simp [hf, resolveItem, hk']
      | none =>
        simp only [unparseItem, plainNs, hd, Bool.false_eq_true, if_false]
        cases hf : d.prefixFor u with
        | some p =>
          have hm := Dict.prefixFor_some_mem hf
          have hgp := Dict.mem_get_of_nodup hk hm
          have hpe : p ≠ [] := by
            intro e; subst e; rw [hd] at hgp; cases hgp
          simp [hpe, resolveItem, hgp]
        | none =>
          have hnv := Dict.prefixFor_none_iff.mp hf
          have hu : u = [] := by
            by_cases e : u = []
            · exact e
            · exact absurd (g3 u rfl e) hnv
          subst hu
          have hk' : k ≠ .attrSel := fun e => (hattr e).1 rfl
          simp [resolveItem, hk']

/-- the shape clause of `ReGuard` holds for everything resolution produces -/
theorem resolveItem_shape {d : Dict} {it : SItem} {k : QKind} {ns : NsVal} {name : Cps}
    (h : resolveItem d it = .ok (.q k ns name)) (hk : k = .attrSel) : ns ≠ .none ∧ ns ≠ .uri [] ∨
      (∃ p, it = .q k (.named p) name) := by
  cases it with
  | bad => simp [resolveItem] at h
  | other v s => simp [resolveItem] at h
  | q k' ps name' =>
    simp only [resolveItem] at h
    split at h
    · simp at h
    · rename_i hc
      cases ps with
      | anyPfx => simp at h; left; rw [← h.2.1]; simp
      | emptyPfx => simp at h; exact absurd ⟨h.1.trans hk, Or.inr rfl⟩ hc
      | noPfx => simp at h; exact absurd ⟨h.1.trans hk, Or.inl rfl⟩ hc
      | named p =>
        cases hg : d.get p with
        | none => simp [hg] at h
        | some v => simp [hg] at h; right; exact ⟨p, by rw [h.1, h.2.2]⟩

/-- all items of all selectors of a sheet -/
def sheetItems (s : Sheet) : List Item := collect (fun it => [it]) s

theorem mem_usedUris_of_item {s : Sheet} {it : Item} {u : Cps} (hi : it ∈ sheetItems s) (hu : u ∈ itemUris it) :
    u ∈ usedUris s :=
  collect_mono (f := fun it => [it]) (g := itemUris) (u := it) (w := u)
    (fun it' h => by simp at h; subst h; exact hu) hi


/-! ## witness sheets of the findings in known/C15.json (used by the `…_breaks` theorems) -/

namespace W
def p : Cps := [0x70]
def q : Cps := [0x71]
def z : Cps := [0x7A]
def a : Cps := [0x61]
def b : Cps := [0x62]
def u : Cps := [0x75]
def u1 : Cps := [0x75, 0x31]
def u2 : Cps := [0x75, 0x32]
def u9 : Cps := [0x75, 0x39]
def d : Cps := [0x64]

/-- `@namespace p "u1"; p|a {…}` -/
def base : Sheet := (step [] (.parse [] [.ns p u1 false false false, .style [[.q .typeSel (.named p) a]]])).1

/-- `@namespace p "u1"; @namespace q "u2"; p|a {…} q|b {…}` -/
def two : Sheet := (step [] (.parse [] [.ns p u1 false false false, .ns q u2 false false false,
  .style [[.q .typeSel (.named p) a]], .style [[.q .typeSel (.named q) b]]])).1

/-- `@namespace "d"; a {…}` -/
def dflt : Sheet := (step [] (.parse [] [.ns [] d false false false, .style [[.q .typeSel .noPfx a]]])).1
end W

/-- all @namespace rules of a sheet serialise to a well-formed rule for their own prefix and URI -/
def allWf (s : Sheet) : Bool := s.all fun r => match r with
  | .ns n => n.wf
  | _ => true


/-! ## the serialised @namespace rules stay well-formed -/

def SeqItem.notComment : SeqItem → Bool
  | .comment => false
  | _ => true

/-- the seq without its comments -/
def seqBody (l : List SeqItem) : List SeqItem := l.filter SeqItem.notComment

@[simp] theorem seqBody_nil : seqBody [] = [] := rfl
@[simp] theorem seqBody_cons_pfx (p : Cps) (t : List SeqItem) : seqBody (.pfx p :: t) = .pfx p :: seqBody t := rfl
@[simp] theorem seqBody_cons_uri (u : Cps) (t : List SeqItem) : seqBody (.uri u :: t) = .uri u :: seqBody t := rfl
@[simp] theorem seqBody_cons_comment (t : List SeqItem) : seqBody (.comment :: t) = seqBody t := rfl

/-- apart from comments the seq is `prefix URI`, or just `URI` for a rule without prefix -/
def NsRule.good (n : NsRule) : Bool :=
  decide (seqBody n.seq = [.pfx n.pfx, .uri n.uri]) || (decide (n.pfx = []) && decide (seqBody n.seq = [.uri n.uri]))

theorem NsRule.good_iff (n : NsRule) : n.good = true ↔
    seqBody n.seq = [.pfx n.pfx, .uri n.uri] ∨ (n.pfx = [] ∧ seqBody n.seq = [.uri n.uri]) := by
  simp [NsRule.good]

def AllGoodNs (s : Sheet) : Prop := ∀ n, Rule.ns n ∈ s → n.good = true

theorem seqCore_nil : seqCore [] = [] := rfl

theorem seqCore_cons_comment (t : List SeqItem) : seqCore (.comment :: t) = seqCore t := by
  simp [seqCore, List.filter_cons]

theorem seqCore_cons_uri (u : Cps) (t : List SeqItem) : seqCore (.uri u :: t) = .uri u :: seqCore t := by
  simp [seqCore, List.filter_cons]

theorem seqCore_cons_pfx (x : Cps) (rest : List SeqItem) :
    seqCore (.pfx x :: rest) = (if x = [] then [] else [.pfx x]) ++ seqCore rest := by
  by_cases hx : x = [] <;> simp [seqCore, List.filter_cons, hx]

theorem seqCore_eq (l : List SeqItem) : seqCore l = seqCore (seqBody l) := by
  induction l with
  | nil => rfl
  | cons x t ih =>
    cases x with
    | comment => rw [seqBody_cons_comment, seqCore_cons_comment, ih]
    | uri u => rw [seqBody_cons_uri, seqCore_cons_uri, seqCore_cons_uri, ih]
    | pfx p => rw [seqBody_cons_pfx, seqCore_cons_pfx, seqCore_cons_pfx, ih]

theorem NsRule.good_wf {n : NsRule} (h : n.good = true) : n.wf = true := by
  unfold NsRule.wf
  rw [seqCore_eq]
  rcases (n.good_iff).mp h with h1 | ⟨h1, h2⟩
  · rw [h1, seqCore_cons_pfx, seqCore_cons_uri, seqCore_nil]; simp
  · rw [h2, seqCore_cons_uri, seqCore_nil]; simp [h1]

theorem mkNs_good (p u : Cps) : (mkNs p u).good = true := by
  simp [mkNs, NsRule.good]

theorem mkNsText_good (p u : Cps) (c0 c1 c2 : Bool) : (mkNsText p u c0 c1 c2).good = true := by
  by_cases hp : p = [] <;> cases c0 <;> cases c1 <;> cases c2 <;>
    simp [mkNsText, NsRule.good, hp]

theorem seqBody_replaceFirstPfx (q : Cps) (l : List SeqItem) :
    seqBody (replaceFirstPfx q l) = replaceFirstPfx q (seqBody l) := by
  induction l with
  | nil => rfl
  | cons x t ih => cases x <;> simp [replaceFirstPfx, ih]

theorem seqBody_insertBeforeUri (q : Cps) (l : List SeqItem) :
    seqBody (insertBeforeUri q l) = insertBeforeUri q (seqBody l) := by
  induction l with
  | nil => rfl
  | cons x t ih => cases x <;> simp [insertBeforeUri, ih]

theorem seqBody_replaceUriSeq (u : Cps) (l : List SeqItem) :
    seqBody (replaceUriSeq u l) = replaceUriSeq u (seqBody l) := by
  induction l with
  | nil => rfl
  | cons x t ih => cases x <;> simp [replaceUriSeq, ih]

theorem any_isPfx_seqBody (l : List SeqItem) : l.any SeqItem.isPfx = (seqBody l).any SeqItem.isPfx := by
  induction l with
  | nil => rfl
  | cons x t ih => cases x <;> simp [SeqItem.isPfx, ih]

theorem any_isUri_seqBody (l : List SeqItem) : l.any SeqItem.isUri = (seqBody l).any SeqItem.isUri := by
  induction l with
  | nil => rfl
  | cons x t ih => cases x <;> simp [SeqItem.isUri, ih]

/-- `rule.prefix = q` keeps the seq of a rule in shape, whatever the rule looks like -/
theorem setPrefix_good {n : NsRule} (q : Cps) (hg : n.good = true) : (n.setPrefix q).good = true := by
  rw [NsRule.good_iff] at hg ⊢
  left
  rcases hg with h1 | ⟨_, h2⟩
  · have ha : n.seq.any SeqItem.isPfx = true := by rw [any_isPfx_seqBody, h1]; simp [SeqItem.isPfx]
    simp only [NsRule.setPrefix, ha, if_true, seqBody_replaceFirstPfx, h1, replaceFirstPfx]
  · have ha : n.seq.any SeqItem.isPfx = false := by rw [any_isPfx_seqBody, h2]; simp [SeqItem.isPfx]
    have hb : n.seq.any SeqItem.isUri = true := by rw [any_isUri_seqBody, h2]; simp [SeqItem.isUri]
    simp only [NsRule.setPrefix, ha, hb, Bool.false_eq_true, if_false, if_true, seqBody_insertBeforeUri, h2,
      insertBeforeUri]

theorem replaceUri_good {n : NsRule} (u : Cps) (hg : n.good = true) : (n.replaceUri u).good = true := by
  rw [NsRule.good_iff] at hg ⊢
  rcases hg with h1 | ⟨h0, h2⟩
  · left; simp only [NsRule.replaceUri, seqBody_replaceUriSeq, h1, replaceUriSeq]
  · right; exact ⟨h0, by simp only [NsRule.replaceUri, seqBody_replaceUriSeq, h2, replaceUriSeq]⟩

theorem cleanGo_sub (items : Dict) (done rest : List Rule) :
    ∀ r ∈ (cleanGo items done rest).1, r ∈ done ++ rest := by
  induction rest generalizing done with
  | nil => simp [cleanGo]
  | cons x t ih =>
    intro r hr
    cases x with
    | ns n =>
      simp only [cleanGo] at hr
      split at hr
      · have := ih _ r hr; simpa using this
      · split at hr
        · exact hr
        · have := ih _ r hr
          simp only [List.mem_append, List.mem_cons] at this ⊢
          rcases this with h | h
          · exact Or.inl h
          · exact Or.inr (Or.inr h)
    | style y => simp only [cleanGo] at hr; have := ih _ r hr; simpa using this
    | media y => simp only [cleanGo] at hr; have := ih _ r hr; simpa using this
    | other y => simp only [cleanGo] at hr; have := ih _ r hr; simpa using this

theorem allGood_sub {s s' : Sheet} (h : AllGoodNs s) (hs : ∀ r ∈ s', r ∈ s) : AllGoodNs s' :=
  fun n hn => h n (hs _ hn)

theorem allGood_insertNs {s : Sheet} {n : NsRule} (idx : Option Nat) (io clean : Bool) (h : AllGoodNs s)
    (hn : n.good = true) : AllGoodNs (insertNs s n idx io clean).1 := by
  have hins : ∀ i, AllGoodNs (insertAt s i (.ns n)) := by
    intro i m hm
    simp only [insertAt, List.mem_append, List.mem_cons] at hm
    rcases hm with hm | hm | hm
    · exact h m (List.mem_of_mem_take hm)
    · cases hm; exact hn
    · exact h m (List.mem_of_mem_drop hm)
  unfold insertNs
  split
  · exact h
  · rename_i index _
    unfold insertNsAt
    split
    · exact h
    · cases clean with
      | false => exact hins _
      | true =>
        simp only [if_true]
        have hc : AllGoodNs (cleanNamespaces (insertAt s index (.ns n))).1 := by
          intro m hm
          have := cleanGo_sub _ [] _ _ hm
          exact hins index m (by simpa using this)
        split
        · exact h
        · split <;> exact hc

theorem allGood_set {pre post : Sheet} {n m : NsRule} (h : AllGoodNs (pre ++ .ns n :: post)) (hm : m.good = true) :
    AllGoodNs (pre ++ .ns m :: post) := by
  intro x hx
  simp only [List.mem_append, List.mem_cons] at hx
  rcases hx with hx | hx | hx
  · exact h x (by simp [hx])
  · cases hx; exact hm
  · exact h x (by simp [hx])

theorem deleteRule_sub {s s' : Sheet} {i : Nat} (h : deleteRule s i = .ok s') : ∀ r ∈ s', r ∈ s := by
  unfold deleteRule at h
  split at h
  · simp at h
  · split at h
    · simp at h
    · simp only [Except.ok.injEq] at h; subst h; exact fun r hr => (List.eraseIdx_sublist _ _).subset hr
  · simp only [Except.ok.injEq] at h; subst h; exact fun r hr => (List.eraseIdx_sublist _ _).subset hr

theorem allGood_insertStyle {s : Sheet} {x : List Sel} (idx : Option Nat) (io : Bool) (h : AllGoodNs s) :
    AllGoodNs (insertStyle s (.style x) idx io).1 := by
  unfold insertStyle
  simp only
  split
  · exact h
  · split
    · intro n hn
      simp only [List.mem_append, List.mem_singleton] at hn
      rcases hn with hn | hn
      · exact h n hn
      · cases hn
    · split
      · exact h
      · intro n hn
        simp only [insertAt, List.mem_append, List.mem_cons] at hn
        rcases hn with hn | hn | hn
        · exact h n (List.mem_of_mem_take hn)
        · cases hn
        · exact h n (List.mem_of_mem_drop hn)


/-! ## parsing a sheet -/

structure PInv (st : PState) : Prop where
  pfx : ((nsPairs st.rules).map (·.1)).Nodup
  dict : ∀ p u, st.dict.get p = some u ↔ (p, u) ∈ nsPairs st.rules
  keys : st.dict.keys.Nodup
  early : st.expected ≤ 2 → st.rules.any Rule.isBody = false ∧ usedUris st.rules = []
  decl : ∀ u ∈ usedUris st.rules, u ∈ nsUris st.rules

theorem usedUris_append (a b : Sheet) : usedUris (a ++ b) = usedUris a ++ usedUris b := collect_append _ a b

/-- appending a rule that is neither @namespace nor carries selectors -/
theorem PInv.append_plain {st : PState} (h : PInv st) (k : OKind) (e : Nat)
    (hb : e ≤ 2 → st.expected ≤ 2 ∧ (Rule.other k).isBody = false) :
    PInv { st with rules := st.rules ++ [.other k], expected := e } where
  pfx := by simpa [nsPairs_append, nsPairs] using h.pfx
  dict := by simpa [nsPairs_append, nsPairs] using h.dict
  keys := h.keys
  early := by
    intro he
    obtain ⟨h1, h2⟩ := hb he
    obtain ⟨h3, h4⟩ := h.early h1
    refine ⟨by simp [List.any_append, h3, h2], ?_⟩
    show usedUris (st.rules ++ [Rule.other k]) = []
    rw [usedUris_append, h4]; simp [usedUris]
  decl := by
    intro u hu
    have : u ∈ usedUris st.rules := by
      have hu' : u ∈ usedUris (st.rules ++ [Rule.other k]) := hu
      rw [usedUris_append] at hu'
      simpa [usedUris] using hu'
    simpa [nsUris, nsPairs_append, nsPairs] using h.decl u this

theorem PInv.same_rules {st : PState} (h : PInv st) (e : Nat) (he : e ≤ 2 → st.expected ≤ 2) :
    PInv { st with expected := e } where
  pfx := h.pfx
  dict := h.dict
  keys := h.keys
  early := fun h2 => h.early (he h2)
  decl := h.decl

theorem usedUris_media (rs : List (List Sel)) : usedUris [.media rs] = (rs.map selsUris).flatten := by
  simp [usedUris, collect]; rfl

/-- appending a style or @media rule whose selectors were resolved against the parse-time dict -/
theorem PInv.append_body {st : PState} (h : PInv st) (r : Rule) (hr : r.isNs = false)
    (hu : ∀ u ∈ usedUris [r], u ∈ st.dict.values) :
    PInv { st with rules := st.rules ++ [r], expected := 3 } where
  pfx := by simpa [nsPairs_append, nsPairs_cons_not [] hr] using h.pfx
  dict := by simpa [nsPairs_append, nsPairs_cons_not [] hr] using h.dict
  keys := h.keys
  early := by intro he; simp at he
  decl := by
    intro u hu'
    simp only [usedUris_append, List.mem_append] at hu'
    have : u ∈ nsUris st.rules := by
      rcases hu' with h1 | h1
      · exact h.decl u h1
      · obtain ⟨e, he, rfl⟩ := List.mem_map.mp (hu u h1)
        have hg : (e.1, e.2) ∈ nsPairs st.rules := by
          apply (h.dict e.1 e.2).mp
          exact Dict.mem_get_of_nodup h.keys he
        exact List.mem_map.mpr ⟨e, hg, rfl⟩
    simpa [nsUris, nsPairs_append, nsPairs_cons_not [] hr] using this


theorem PInv.add_ns {st : PState} (h : PInv st) (he : st.expected ≤ 2) (n : NsRule) (hn : st.dict.get n.pfx = none) :
    PInv { rules := st.rules ++ [.ns n], dict := st.dict.set n.pfx n.uri, expected := 2 } where
  pfx := by
    simp only [nsPairs_append, nsPairs_cons_ns, nsPairs_nil, List.map_append, List.map_cons, List.map_nil]
    rw [List.nodup_append]
    refine ⟨h.pfx, by simp, ?_⟩
    intro a ha b hb
    simp only [List.mem_singleton] at hb
    subst hb
    intro e; subst e
    obtain ⟨x, hx, hxa⟩ := List.mem_map.mp ha
    have := (h.dict x.1 x.2).mpr hx
    rw [hxa, hn] at this
    cases this
  dict := by
    intro p u
    simp only [Dict.get_set, nsPairs_append, nsPairs_cons_ns, nsPairs_nil, List.mem_append, List.mem_singleton]
    by_cases hp : n.pfx = p
    · subst hp
      simp only [if_true, Option.some.injEq]
      constructor
      · intro e; right; rw [e]
      · rintro (h1 | h1)
        · have := (h.dict _ _).mpr h1; rw [hn] at this; cases this
        · exact (Prod.mk.inj h1).2.symm
    · simp only [hp, if_false]
      rw [h.dict]
      constructor
      · exact Or.inl
      · rintro (h1 | h1)
        · exact h1
        · exact absurd (Prod.mk.inj h1).1.symm hp
  keys := Dict.keys_set_nodup h.keys
  early := by
    intro _
    obtain ⟨h1, h2⟩ := h.early he
    refine ⟨by simp [List.any_append, h1, Rule.isBody], ?_⟩
    show usedUris (st.rules ++ [Rule.ns n]) = []
    rw [usedUris_append, h2]; simp [usedUris]
  decl := by
    intro u hu
    have hu' : u ∈ usedUris (st.rules ++ [Rule.ns n]) := hu
    rw [usedUris_append, (h.early he).2] at hu'
    simp [usedUris] at hu'

/-- `_replaceNamespaceURI` on every rule with prefix `p` -/
def replaceAll (p u : Cps) (rules : Sheet) : Sheet :=
  rules.map fun r => match r with
    | .ns n => if n.pfx = p then .ns (n.replaceUri u) else r
    | _ => r

theorem nsPairs_replaceAll (p u : Cps) (rules : Sheet) :
    nsPairs (replaceAll p u rules) = (nsPairs rules).map fun e => if e.1 = p then (e.1, u) else e := by
  induction rules with
  | nil => rfl
  | cons r t ih =>
    cases r with
    | ns n =>
      simp only [replaceAll, List.map_cons] at ih ⊢
      by_cases hp : n.pfx = p
      · simp only [hp, if_true, nsPairs_cons_ns, List.map_cons]; rw [ih]; simp [hp, NsRule.replaceUri]
      · simp only [hp, if_false, nsPairs_cons_ns, List.map_cons]; rw [ih]
    | style x => simpa [replaceAll, nsPairs] using ih
    | media x => simpa [replaceAll, nsPairs] using ih
    | other x => simpa [replaceAll, nsPairs] using ih

theorem bodyRules_replaceAll (p u : Cps) (rules : Sheet) : bodyRules (replaceAll p u rules) = bodyRules rules := by
  induction rules with
  | nil => rfl
  | cons r t ih =>
    cases r with
    | ns n =>
      simp only [replaceAll, List.map_cons] at ih ⊢
      by_cases hp : n.pfx = p
      · simpa [hp, bodyRules, Rule.isNs] using ih
      · simpa [hp, bodyRules, Rule.isNs] using ih
    | style x => simp only [replaceAll, List.map_cons] at ih ⊢; simp [bodyRules, Rule.isNs] at ih ⊢; exact ih
    | media x => simp only [replaceAll, List.map_cons] at ih ⊢; simp [bodyRules, Rule.isNs] at ih ⊢; exact ih
    | other x => simp only [replaceAll, List.map_cons] at ih ⊢; simp [bodyRules, Rule.isNs] at ih ⊢; exact ih

theorem any_isBody_replaceAll (p u : Cps) (rules : Sheet) :
    (replaceAll p u rules).any Rule.isBody = rules.any Rule.isBody := by
  induction rules with
  | nil => rfl
  | cons r t ih =>
    simp only [replaceAll, List.map_cons, List.any_cons] at ih ⊢
    rw [ih]
    cases r with
    | ns n => by_cases hp : n.pfx = p <;> simp [hp, Rule.isBody]
    | _ => rfl

theorem PInv.replace_ns {st : PState} (h : PInv st) (he : st.expected ≤ 2) (p u u0 : Cps)
    (hn : st.dict.get p = some u0) :
    PInv { rules := replaceAll p u st.rules, dict := st.dict.set p u, expected := 2 } where
  pfx := by
    have : ((nsPairs (replaceAll p u st.rules)).map (·.1)) = (nsPairs st.rules).map (·.1) := by
      rw [nsPairs_replaceAll, List.map_map]
      apply List.map_congr_left
      intro e _
      simp only [Function.comp]
      split <;> rfl
    show ((nsPairs (replaceAll p u st.rules)).map (·.1)).Nodup
    rw [this]; exact h.pfx
  dict := by
    intro p' u'
    show (st.dict.set p u).get p' = some u' ↔ (p', u') ∈ nsPairs (replaceAll p u st.rules)
    rw [Dict.get_set, nsPairs_replaceAll]
    simp only [List.mem_map]
    by_cases hp : p = p'
    · subst hp
      simp only [if_true, Option.some.injEq]
      constructor
      · intro e
        exact ⟨(p, u0), (h.dict _ _).mp hn, by simp [e]⟩
      · rintro ⟨x, hx, hxe⟩
        by_cases hx1 : x.1 = p
        · simp only [hx1, if_true, Prod.mk.injEq] at hxe; exact hxe.2
        · simp only [hx1, if_false] at hxe; exact absurd (congrArg Prod.fst hxe) hx1
    · simp only [hp, if_false]
      rw [h.dict]
      constructor
      · intro hm
        have hne : ¬ p' = p := fun e => hp e.symm
        exact ⟨(p', u'), hm, by simp [hne]⟩
      · rintro ⟨x, hx, hxe⟩
        by_cases hx1 : x.1 = p
        · simp only [hx1, if_true, Prod.mk.injEq] at hxe; exact absurd hxe.1 hp
        · simp only [hx1, if_false] at hxe; rw [← hxe]; exact hx
  keys := Dict.keys_set_nodup h.keys
  early := by
    intro _
    obtain ⟨h1, h2⟩ := h.early he
    refine ⟨by show (replaceAll p u st.rules).any Rule.isBody = false; rw [any_isBody_replaceAll]; exact h1, ?_⟩
    show usedUris (replaceAll p u st.rules) = []
    simp only [usedUris]
    rw [← collect_bodyRules, bodyRules_replaceAll, collect_bodyRules]
    exact h2
  decl := by
    intro v hv
    have hv' : v ∈ usedUris (replaceAll p u st.rules) := hv
    simp only [usedUris] at hv'
    rw [← collect_bodyRules, bodyRules_replaceAll, collect_bodyRules] at hv'
    have := (h.early he).2
    simp only [usedUris] at this
    rw [this] at hv'
    simp at hv'


theorem parseStyle_uris {d : Dict} {sels : List SSel} {x : List Sel} (h : parseStyle d sels = some x) :
    ∀ u ∈ selsUris x, u ∈ d.values := by
  unfold parseStyle at h
  split at h
  · simp at h
  · cases hr : resolveSels d sels with
    | error e => simp [hr] at h
    | ok y => simp only [hr, Option.some.injEq] at h; subst h; exact resolveSels_uris hr

theorem parseStep_inv {st : PState} {r : SrcRule} (h : PInv st) (hr : SrcOk r) : PInv (parseStep st r) := by
  cases r with
  | ns p u c0 c1 c2 =>
    simp only [parseStep]
    by_cases he : st.expected > 2
    · simp only [he, if_true]; exact h
    · simp only [he, if_false]
      have he' : st.expected ≤ 2 := by omega
      cases hd : st.dict.get p with
      | none =>
        simp only [if_true]
        have hb : st.rules.any Rule.isBody = false := (h.early he').1
        simp only [parseAppend, hb, Bool.false_eq_true, if_false]
        exact h.add_ns he' (mkNsText p u c0 c1 c2) hd
      | some u0 =>
        have : (some u0 = none) = False := by simp
        simp only [this, if_false]
        exact h.replace_ns he' p u u0 hd
  | style sels =>
    simp only [parseStep]
    cases hp : parseStyle st.dict sels with
    | none => exact h
    | some x =>
      simp only [parseAppend]
      apply h.append_body _ rfl
      rw [usedUris_style]
      exact parseStyle_uris hp
  | media rs =>
    simp only [parseStep, parseAppend]
    apply h.append_body _ rfl
    rw [usedUris_media]
    intro u hu
    obtain ⟨l, hl, hul⟩ := List.mem_flatten.mp hu
    obtain ⟨x, hx, rfl⟩ := List.mem_map.mp hl
    obtain ⟨sels, _, hs⟩ := List.mem_filterMap.mp hx
    exact parseStyle_uris hs u hul
  | other k =>
    cases k with
    | variables => exact absurd hr (by simp [SrcOk])
    | charset =>
      simp only [parseStep]
      by_cases he : st.expected > 0
      · simp only [he, if_true]; exact h
      · simp only [he, if_false, parseAppend]
        by_cases hemp : st.rules.isEmpty = true
        · simp only [hemp, if_true]
          have hnil : st.rules = [] := List.isEmpty_iff.mp hemp
          have := h.append_plain .charset 1 (fun _ => ⟨by omega, rfl⟩)
          simpa [hnil] using this
        · simp only [hemp, Bool.false_eq_true, if_false]
          exact h.same_rules 1 (fun _ => by omega)
    | «import» =>
      simp only [parseStep]
      by_cases he : st.expected > 1
      · simp only [he, if_true]; exact h
      · simp only [he, if_false, parseAppend]
        split
        · exact h.same_rules 1 (fun _ => by omega)
        · exact h.append_plain .import 1 (fun _ => ⟨by omega, rfl⟩)
    | comment =>
      simp only [parseStep, parseAppend]
      exact h.append_plain .comment _ (fun he => ⟨by omega, rfl⟩)
    | unknown =>
      simp only [parseStep, parseAppend]
      exact h.append_plain .unknown _ (fun he => ⟨by omega, rfl⟩)
    | page =>
      simp only [parseStep, parseAppend]
      exact h.append_plain .page 3 (fun he => by omega)
    | fontface =>
      simp only [parseStep, parseAppend]
      exact h.append_plain .fontface 3 (fun he => by omega)

theorem PInv.init : PInv { rules := [], dict := [], expected := 0 } where
  pfx := by simp
  dict := by simp [Dict.get]
  keys := by simp [Dict.keys]
  early := fun _ => ⟨rfl, rfl⟩
  decl := by simp [usedUris]

theorem parseFold_inv (l : List SrcRule) (hl : ∀ r ∈ l, SrcOk r) {st : PState} (h : PInv st) :
    PInv (l.foldl (fun st r => parseStep { st with expected := max 1 st.expected } r) st) := by
  induction l generalizing st with
  | nil => exact h
  | cons r t ih =>
    apply ih (fun x hx => hl x (List.mem_cons_of_mem _ hx))
    apply parseStep_inv _ (hl r List.mem_cons_self)
    exact h.same_rules _ (fun he => by omega)


theorem good_parseSheet (src : List SrcRule) (hsrc : ∀ r ∈ src, SrcOk r) (hc : (parseSheet [] src).2 = false) :
    Good (parseSheet [] src).1 := by
  unfold parseSheet at hc ⊢
  cases src with
  | nil =>
    simp only at hc ⊢
    exact good_clean (by simp) (by simp [usedUris]) hc
  | cons r t =>
    simp only at hc ⊢
    have hinv := parseFold_inv t (fun x hx => hsrc x (List.mem_cons_of_mem _ hx))
      (parseStep_inv PInv.init (hsrc r List.mem_cons_self))
    exact good_clean (nodup_of_nodup_map hinv.pfx) hinv.decl hc


/-! ## the final clean-up of `parse` does not raise -/

theorem uniqByUri_sublist (l : List (Cps × Cps)) (seen : List Cps) : (uniqByUri l seen).Sublist l := by
  induction l generalizing seen with
  | nil => simp [uniqByUri]
  | cons e t ih =>
    simp only [uniqByUri]
    split
    · exact (ih seen).cons e
    · exact (ih _).cons₂ e

theorem viewOfPairs_of_pfx_nodup {l : List (Cps × Cps)} (hp : (l.map (·.1)).Nodup) :
    viewOfPairs l = uniqByUri l.reverse [] := by
  unfold viewOfPairs
  rw [dictOf_eq, dictFold_append]
  · simp
  · simp only [Dict.keys, List.map_nil, List.nil_append]
    have h1 : ((uniqByUri l.reverse []).map (·.1)).Sublist (l.reverse.map (·.1)) := (uniqByUri_sublist _ _).map _
    apply h1.nodup
    rw [List.map_reverse]
    exact nodup_reverse.mpr hp

/-- with one rule per prefix, a rule that is not in the view has a later rule for the same URI -/
theorem not_mem_view_later {l pre post : List (Cps × Cps)} {e : Cps × Cps} (hp : (l.map (·.1)).Nodup)
    (hl : l = pre ++ e :: post) (hn : e ∉ viewOfPairs l) : e.2 ∈ post.map (·.2) := by
  by_cases h : e.2 ∈ post.map (·.2)
  · exact h
  · exfalso
    apply hn
    rw [viewOfPairs_of_pfx_nodup hp]
    apply mem_uniqByUri_iff.mpr
    refine ⟨post.reverse, pre.reverse, by simp [hl], ?_, by simp⟩
    simpa using h

theorem cleanGo_no_raise (items : Dict) (done rest : List Rule)
    (h : ∀ pre n post, rest = pre ++ Rule.ns n :: post → (n.pfx, n.uri) ∉ items → n.uri ∈ nsUris post) :
    (cleanGo items done rest).2 = false := by
  induction rest generalizing done with
  | nil => simp [cleanGo]
  | cons r t ih =>
    have ht : ∀ pre n post, t = pre ++ Rule.ns n :: post → (n.pfx, n.uri) ∉ items → n.uri ∈ nsUris post := by
      intro pre n post e hn
      exact h (r :: pre) n post (by simp [e]) hn
    cases r with
    | ns n =>
      simp only [cleanGo]
      by_cases h1 : (n.pfx, n.uri) ∈ items
      · simp only [h1, if_true]; exact ih _ ht
      · simp only [h1, if_false]
        have hlater := h [] n t rfl h1
        have hnb : delBlocked (done ++ Rule.ns n :: t) n.uri = false := by
          have hc : (nsUris (done ++ Rule.ns n :: t)).count n.uri ≥ 2 := by
            rw [nsUris_split_ns]
            simp only [List.count_append, List.count_cons_self]
            have := List.count_pos_iff.mpr hlater
            omega
          simp only [delBlocked, Bool.and_eq_false_iff]
          right
          simp only [beq_eq_false_iff_ne]
          omega
        simp only [hnb, Bool.false_eq_true, if_false]
        exact ih _ ht
    | style x => simp only [cleanGo]; exact ih _ ht
    | media x => simp only [cleanGo]; exact ih _ ht
    | other x => simp only [cleanGo]; exact ih _ ht

theorem nsPairs_split {s pre post : Sheet} {n : NsRule} (h : s = pre ++ Rule.ns n :: post) :
    nsPairs s = nsPairs pre ++ (n.pfx, n.uri) :: nsPairs post := by
  rw [h, nsPairs_append, nsPairs_cons_ns]

/-- one rule per prefix ⇒ `_cleanNamespaces` goes through: it only deletes rules that have a later rule for the
same URI, and `deleteRule` lets those go -/
theorem clean_no_raise {s : Sheet} (hp : ((nsPairs s).map (·.1)).Nodup) : (cleanNamespaces s).2 = false := by
  apply cleanGo_no_raise
  intro pre n post hs hn
  have := not_mem_view_later (l := nsPairs s) (pre := nsPairs pre) (post := nsPairs post) (e := (n.pfx, n.uri)) hp
    (nsPairs_split hs) hn
  simpa [nsUris] using this

theorem parse_no_raise (src : List SrcRule) (hsrc : ∀ r ∈ src, SrcOk r) : (parseSheet [] src).2 = false := by
  unfold parseSheet
  cases src with
  | nil => simp only; exact clean_no_raise (by simp)
  | cons r t =>
    simp only
    have hinv := parseFold_inv t (fun x hx => hsrc x (List.mem_cons_of_mem _ hx))
      (parseStep_inv PInv.init (hsrc r List.mem_cons_self))
    exact clean_no_raise hinv.pfx


/-! ## well-formed @namespace rules through `parse` -/

theorem parseAppend_mem (rules : Sheet) (r : Rule) : ∀ x ∈ parseAppend rules r, x ∈ rules ∨ x = r := by
  intro x hx
  have happ : x ∈ rules ++ [r] → x ∈ rules ∨ x = r := by
    intro h
    rcases List.mem_append.mp h with h | h
    · exact Or.inl h
    · exact Or.inr (by simpa using h)
  unfold parseAppend at hx
  split at hx
  · split at hx
    · simp only [List.mem_singleton] at hx; exact Or.inr hx
    · exact Or.inl hx
  · exact happ hx
  · exact happ hx
  · split at hx
    · exact Or.inl hx
    · exact happ hx
  · split at hx
    · exact Or.inl hx
    · exact happ hx
  · split at hx
    · exact Or.inl hx
    · exact happ hx
  · exact happ hx

theorem allGood_parseAppend {rules : Sheet} {r : Rule} (h : AllGoodNs rules)
    (hr : ∀ n, r = .ns n → n.good = true) : AllGoodNs (parseAppend rules r) := by
  intro n hn
  rcases parseAppend_mem rules r _ hn with h1 | h1
  · exact h n h1
  · exact hr n h1.symm

theorem allGood_parseStep {st : PState} (r : SrcRule) (h : AllGoodNs st.rules) : AllGoodNs (parseStep st r).rules := by
  have hplain : ∀ k, AllGoodNs (parseAppend st.rules (.other k)) := fun k =>
    allGood_parseAppend h (fun n e => by cases e)
  cases r with
  | ns p u c0 c1 c2 =>
    simp only [parseStep]
    split
    · exact h
    · simp only
      split
      · exact allGood_parseAppend h (fun n e => by cases e; exact mkNsText_good p u c0 c1 c2)
      · intro n hn
        obtain ⟨x, hx, hxe⟩ := List.mem_map.mp hn
        cases x with
        | ns m =>
          simp only at hxe
          by_cases hm : m.pfx = p
          · simp only [hm, if_true, Rule.ns.injEq] at hxe
            rw [← hxe]; exact replaceUri_good u (h m hx)
          · simp only [hm, if_false, Rule.ns.injEq] at hxe
            rw [← hxe]; exact h m hx
        | style y => simp at hxe
        | media y => simp at hxe
        | other y => simp at hxe
  | style sels =>
    simp only [parseStep]
    cases hp : parseStyle st.dict sels with
    | none => exact h
    | some x => exact allGood_parseAppend (r := .style x) h (fun n e => by cases e)
  | media rs =>
    simp only [parseStep]
    exact allGood_parseAppend (r := .media _) h (fun n e => by cases e)
  | other k =>
    cases k with
    | charset => simp only [parseStep]; split; exact h; exact hplain .charset
    | «import» => simp only [parseStep]; split; exact h; exact hplain .import
    | variables => simp only [parseStep]; split; exact h; exact hplain .variables
    | comment => simp only [parseStep]; exact hplain .comment
    | unknown => simp only [parseStep]; exact hplain .unknown
    | page => simp only [parseStep]; exact hplain .page
    | fontface => simp only [parseStep]; exact hplain .fontface

theorem allGood_parseSheet (init : Dict) (src : List SrcRule) : AllGoodNs (parseSheet init src).1 := by
  unfold parseSheet
  have hfold : ∀ (l : List SrcRule) (st : PState), AllGoodNs st.rules →
      AllGoodNs (l.foldl (fun st r => parseStep { st with expected := max 1 st.expected } r) st).rules := by
    intro l
    induction l with
    | nil => intro st h; exact h
    | cons r t ih => intro st h; exact ih _ (allGood_parseStep r h)
  have hinit : AllGoodNs ({ rules := [], dict := init, expected := 0 } : PState).rules := by
    intro n hn; simp at hn
  have hsub : ∀ s : Sheet, AllGoodNs s → AllGoodNs (cleanNamespaces s).1 := by
    intro s h n hn
    have := cleanGo_sub _ [] _ _ hn
    exact h n (by simpa using this)
  cases src with
  | nil => exact hsub _ hinit
  | cons r t => exact hsub _ (hfold t _ (allGood_parseStep r hinit))

end CssVerif.Ns
