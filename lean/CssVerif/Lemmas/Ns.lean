import CssVerif.Model.Ns
/-! helper lemmas for C15 -/
namespace CssVerif.Ns

end CssVerif.Ns
