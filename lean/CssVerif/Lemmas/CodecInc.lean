import CssVerif.Lemmas.Codec
import CssVerif.Model.CodecInc
/-!
Invariant of the incremental decoder machine: whatever the chunking, the machine is always in a state
from which the remaining input leads to the one-shot result.
-/
namespace CssVerif.Codec

theorem detect_true (l : List Nat) : detect l true = some (detectFinal l) := by
  unfold detect detectFinal
  cases core l true with
  | dflt => simp
  | ans e x => simp
  | scan => cases charsetName l <;> simp

theorem fix_true (l e : List Nat) : fixEncoding l e true = some (fixFinal l e) := by
  unfold fixEncoding fixFinal
  by_cases hl : l.length > 10
  · simp only [hl, if_true]
    by_cases hp : prefix10.isPrefixOf l = true
    · simp only [hp, if_true]
      cases findQuote (l.drop 10) <;> simp
    · simp only [hp]; simp
  · simp [hl]

theorem detectFinal_of_early (p ext : List Nat) (d : Enc × Bool) (h : detect p false = some d) :
    detectFinal (p ++ ext) = d := by
  have := detect_stable p ext true d h
  rw [detect_true] at this
  exact Option.some.inj this

theorem fixFinal_of_early (p ext e r : List Nat) (h : fixEncoding p e false = some r) :
    fixFinal (p ++ ext) e = r ++ ext := by
  have := fix_stable p ext e r true h
  rw [fix_true] at this
  exact Option.some.inj this

/-- what has been established after the bytes `a` were fed (non-final) and `em` was emitted -/
def Inv (I : Inner) (given : Option Name) (force : Bool) (a em : List Nat) : DSt → Prop
  | .waiting g f b => g = given ∧ f = force ∧ b = a ∧ em = []
  | .decoding E c bufT => c = a ∧ bufT = I.out E a false ∧ em = [] ∧
      (∀ rest, finalEnc given force (a ++ rest) = E)
  | .streaming E c => c = a ∧ (∀ rest, finalEnc given force (a ++ rest) = E) ∧
      (∀ ext, fixFinal (I.out E a false ++ ext) E = em ++ ext)

theorem feedInner_spec (I : Inner) (E : Name) (a c : List Nat) (f : Bool) :
    I.out E (a ++ c) f = I.out E a false ++ feedInner I E a c f := by
  obtain ⟨ext, h⟩ := I.mono E a c f
  unfold feedInner
  rw [h]; simp

/-- one step of the "header not fixed yet" branch keeps the invariant (non-final) -/
theorem stepDecoding_inv (I : Inner) (given : Option Name) (force : Bool) (E : Name) (a c : List Nat)
    (hE' : ∀ rest, finalEnc given force ((a ++ c) ++ rest) = E) :
    Inv I given force (a ++ c) (stepDecoding I E a (I.out E a false) c false).2
      (stepDecoding I E a (I.out E a false) c false).1 := by
  unfold stepDecoding
  have hout : I.out E a false ++ feedInner I E a c false = I.out E (a ++ c) false :=
    (feedInner_spec I E a c false).symm
  simp only [hout]
  cases hfx : fixEncoding (I.out E (a ++ c) false) E false with
  | none => exact ⟨rfl, rfl, rfl, hE'⟩
  | some t =>
    refine ⟨rfl, hE', ?_⟩
    intro ext
    exact fixFinal_of_early _ ext E t hfx

/-- … and at the end of the data it delivers the one-shot result -/
theorem stepDecoding_final (I : Inner) (E : Name) (a : List Nat) :
    (stepDecoding I E a (I.out E a false) [] true).2 = fixFinal (I.out E a true) E := by
  unfold stepDecoding
  have hout : I.out E a false ++ feedInner I E a [] true = I.out E a true := by
    have := (feedInner_spec I E a [] true).symm
    simpa using this
  simp only [hout, fix_true]

theorem step_inv (I : Inner) (given : Option Name) (force : Bool) (a em c : List Nat) (s : DSt)
    (h : Inv I given force a em s) :
    Inv I given force (a ++ c) (em ++ (step I s c false).2) (step I s c false).1 := by
  cases s with
  | waiting g f b =>
    obtain ⟨rfl, rfl, rfl, rfl⟩ := h
    have start : ∀ E, (∀ rest, finalEnc g f ((b ++ c) ++ rest) = E) →
        Inv I g f (b ++ c) ([] ++ (stepDecoding I E [] [] (b ++ c) false).2)
          (stepDecoding I E [] [] (b ++ c) false).1 := by
      intro E hE
      have := stepDecoding_inv I g f E [] (b ++ c) (by simpa using hE)
      simpa [I.out_nil] using this
    have detectPath : (g = none ∨ f = false) →
        Inv I g f (b ++ c) ([] ++ (stepDetect I g f (b ++ c) false).2) (stepDetect I g f (b ++ c) false).1 := by
      intro hgf
      unfold stepDetect
      cases hd : detect (b ++ c) false with
      | none => exact ⟨rfl, rfl, rfl, rfl⟩
      | some d =>
        apply start
        intro rest
        have hdf := detectFinal_of_early (b ++ c) rest d hd
        rw [List.append_assoc] at hdf
        unfold finalEnc
        rcases hgf with rfl | rfl
        · simp [hdf]
        · cases g <;> simp [hdf]
    cases g with
    | none => simpa [step] using detectPath (Or.inl rfl)
    | some gg =>
      cases f with
      | false => simpa [step] using detectPath (Or.inr rfl)
      | true =>
        simp only [step]
        apply start
        intro rest; rfl
  | decoding E c0 bufT =>
    obtain ⟨rfl, rfl, rfl, hE⟩ := h
    simp only [step, List.nil_append]
    exact stepDecoding_inv I given force E c0 c (by intro rest; rw [List.append_assoc]; exact hE _)
  | streaming E c0 =>
    obtain ⟨rfl, hE, hfx⟩ := h
    simp only [step]
    refine ⟨rfl, ?_, ?_⟩
    · intro rest; rw [List.append_assoc]; exact hE _
    · intro ext
      rw [feedInner_spec I E c0 c false, List.append_assoc, hfx, List.append_assoc]

theorem runChunks_inv (I : Inner) (given : Option Name) (force : Bool) (cs : List (List Nat)) :
    ∀ (a em : List Nat) (s : DSt), Inv I given force a em s →
      Inv I given force (a ++ cs.flatten) (em ++ (runChunks I s cs).2) (runChunks I s cs).1 := by
  induction cs with
  | nil => intro a em s h; simpa [runChunks] using h
  | cons c cs ih =>
    intro a em s h
    have h1 := step_inv I given force a em c s h
    have h2 := ih (a ++ c) (em ++ (step I s c false).2) (step I s c false).1 h1
    simpa [runChunks, List.append_assoc] using h2

theorem final_step (I : Inner) (given : Option Name) (force : Bool) (a em : List Nat) (s : DSt)
    (h : Inv I given force a em s) :
    em ++ (step I s [] true).2 = oneShot I given force a := by
  unfold oneShot
  cases s with
  | waiting g f b =>
    obtain ⟨rfl, rfl, rfl, rfl⟩ := h
    have start : ∀ E, finalEnc g f b = E →
        [] ++ (stepDecoding I E [] [] (b ++ []) true).2 = fixFinal (I.out (finalEnc g f b) b true) (finalEnc g f b) := by
      intro E hE
      have := stepDecoding_final I E b
      have h0 : stepDecoding I E [] (I.out E [] false) ([] ++ b) true = stepDecoding I E [] [] (b ++ []) true := by
        simp [I.out_nil]
      -- the machine starts the inner decoder on the whole buffered input
      have h1 : (stepDecoding I E [] [] (b ++ []) true).2 = fixFinal (I.out E b true) E := by
        unfold stepDecoding
        have hf : feedInner I E [] (b ++ []) true = I.out E b true := by
          unfold feedInner; simp [I.out_nil]
        simp only [List.nil_append, hf, fix_true]
      rw [List.nil_append, h1, hE]
    have detectPath : (g = none ∨ f = false) →
        [] ++ (stepDetect I g f (b ++ []) true).2
          = fixFinal (I.out (finalEnc g f b) b true) (finalEnc g f b) := by
      intro hgf
      unfold stepDetect
      have hd : detect (b ++ []) true = some (detectFinal b) := by simpa using detect_true b
      simp only [hd]
      apply start
      unfold finalEnc
      rcases hgf with rfl | rfl
      · simp
      · cases g <;> simp
    cases g with
    | none => simpa [step] using detectPath (Or.inl rfl)
    | some gg =>
      cases f with
      | false => simpa [step] using detectPath (Or.inr rfl)
      | true =>
        simp only [step]
        apply start
        rfl
  | decoding E c0 bufT =>
    obtain ⟨rfl, rfl, rfl, hE⟩ := h
    have hE0 : finalEnc given force c0 = E := by simpa using hE []
    simp only [step, List.nil_append, hE0]
    exact stepDecoding_final I E c0
  | streaming E c0 =>
    obtain ⟨rfl, hE, hfx⟩ := h
    have hE0 : finalEnc given force c0 = E := by simpa using hE []
    simp only [step, hE0]
    have := feedInner_spec I E c0 [] true
    simp only [List.append_nil] at this
    rw [this, hfx]

end CssVerif.Codec
