import CssVerif.Model.ParseAll
import CssVerif.Lemmas.SelAcc
/-!
# The selector machine never produces an exception value on tokens of the tokenizer's domain

Throw sites of `Model/Sel.lean`: `top` on an empty context stack (`self.context[-1]`), `takePrefix` when a
`universal` value has more than one `|` (`prefix, val = val.split('|')`), `append` of a non-string with `_PREFIX`,
`stringTokenValue` on an empty value (`value[0]`), `nameOf` on a missing key (`_names[val]`).
-/
namespace CssVerif.SelTotal
open CssVerif.Sel CssVerif.Gen.C16 CssVerif.Proto

/-- the bottom of the context stack is the root context `''` -/
def Inv (st : St) : Prop := st.ctx.getLast? = some cxRoot

theorem Inv.cons {st : St} (h : Inv st) : ∃ c cs, st.ctx = c :: cs := by
  unfold Inv at h
  cases hc : st.ctx with
  | nil => simp [hc] at h
  | cons c cs => exact ⟨c, cs, rfl⟩

theorem inv_push {ctx : List Cps} (c : Cps) (h : ctx.getLast? = some cxRoot) : (c :: ctx).getLast? = some cxRoot := by
  cases ctx with
  | nil => simp at h
  | cons d ds => simpa [List.getLast?_cons_cons] using h

theorem inv_pop {c : Cps} {cs : List Cps} (h : (c :: cs).getLast? = some cxRoot) (hc : c ≠ cxRoot) :
    cs.getLast? = some cxRoot := by
  cases cs with
  | nil => simp at h; exact absurd h hc
  | cons d ds => simpa [List.getLast?_cons_cons] using h

/-- at most one `|` -/
def bars (s : Cps) : Nat := s.count 124

theorem splitOn_length (s : Cps) : (splitOn 124 s).length = bars s + 1 := by
  induction s with
  | nil => simp [splitOn, bars]
  | cons c t ih =>
    unfold splitOn
    by_cases h : c = 124
    · subst h; simp [bars] at ih ⊢; omega
    · have : (c == 124) = false := by simpa using h
      simp only [this]
      have hb : bars (c :: t) = bars t := by simp [bars, h]
      cases hs : splitOn 124 t with
      | nil => simp [hs] at ih
      | cons a r => simp [hs] at ih ⊢; omega

theorem hasCp_bars (s : Cps) (h : hasCp 124 s = true) : 1 ≤ bars s := by
  simp only [hasCp, List.contains_iff_mem] at h
  exact List.count_pos_iff.mpr h

/-- `prefix, val = val.split('|')` succeeds -/
theorem takePrefix_ok (pfx : Option Cps) (val : Val) (typ : Cps)
    (h : pfx = none → (typ == tyUniversal) = true → ∀ s, val = .str s → bars s ≤ 1) :
    ∃ pv, takePrefix pfx val typ = .ok pv := by
  unfold takePrefix
  cases pfx with
  | some p => exact ⟨_, rfl⟩
  | none =>
    cases val with
    | str s =>
      simp only
      split
      · rename_i hc
        simp only [Bool.and_eq_true] at hc
        have hb := h rfl hc.1 s rfl
        have h1 := hasCp_bars s hc.2
        have hl := splitOn_length s
        have : (splitOn 124 s).length = 2 := by omega
        match hs : splitOn 124 s, this with
        | [p, v], _ => exact ⟨_, rfl⟩
      · exact ⟨_, rfl⟩
    | comment c => exact ⟨_, rfl⟩
    | ns u n => exact ⟨_, rfl⟩

/-- `New.append` returns, and leaves the context stack alone -/
theorem append_ok (ns : NsMap) (st : St) (val : Val) (typ : Cps) (hctx : st.ctx ≠ [])
    (hP : (typ == tyPREFIX) = true → ∃ s, val = .str s)
    (hU : st.pfx = none → (typ == tyUniversal) = true → ∀ s, val = .str s → bars s ≤ 1) :
    ∃ st', append ns st val typ = .ok st' ∧ st'.ctx = st.ctx := by
  unfold append
  cases hc : st.ctx with
  | nil => exact absurd hc hctx
  | cons c r =>
    obtain ⟨pv, hpv⟩ := takePrefix_ok st.pfx val typ hU
    simp only [top, hc, bind, Except.bind, pure, Except.pure, hpv]
    -- written so that a further early-return branch of `New.append` (re-sync of the model) does not break it
    repeat' split
    all_goals first
      | exact ⟨_, rfl, rfl⟩
      | (rename_i hp _ hne; obtain ⟨s, hs⟩ := hP hp; exact absurd hs (hne s))
      | (rename_i hp hne; obtain ⟨s, hs⟩ := hP hp; exact absurd hs (hne s))

/-- what `_prepare_tokens` hands to the state machine -/
def PrepOk (t : Tok) : Prop :=
  (t.typ.name = tyUniversal → bars t.val ≤ 1) ∧
  (t.typ.name = TT.char.name → t.val.length = 1 ∨ t.val = [58, 58]) ∧
  (t.typ.name = TT.string.name → t.val ≠ [])

def Good (r : M St) : Prop := ∃ st', r = .ok st' ∧ Inv st'

theorem good_ok {st : St} (h : Inv st) : Good (.ok st) := ⟨st, rfl, h⟩

theorem good_ctx {st st' : St} (h : Inv st) (hc : st'.ctx = st.ctx) : Good (.ok st') :=
  ⟨st', rfl, by unfold Inv at *; rw [hc]; exact h⟩

theorem good_push {st st' : St} (c : Cps) (h : Inv st) (hc : st'.ctx = c :: st.ctx) : Good (.ok st') :=
  ⟨st', rfl, by unfold Inv at *; rw [hc]; exact inv_push c h⟩

/-- `append` with a type that is neither `_PREFIX` nor `universal` -/
theorem append_plain_ok (ns : NsMap) (st : St) (val : Val) (typ : Cps) (hctx : st.ctx ≠ [])
    (h1 : (typ == tyPREFIX) = false) (h2 : (typ == tyUniversal) = false) :
    ∃ st', append ns st val typ = .ok st' ∧ st'.ctx = st.ctx :=
  append_ok ns st val typ hctx (by simp [h1]) (by simp [h2])

theorem append_prefix_ok (ns : NsMap) (st : St) (s : Cps) (hctx : st.ctx ≠ []) :
    ∃ st', append ns st (.str s) tyPREFIX = .ok st' ∧ st'.ctx = st.ctx :=
  append_ok ns st (.str s) tyPREFIX hctx (fun _ => ⟨s, rfl⟩) (by intro _ h; exact absurd h (by decide))

theorem good_push2 {st st1 st' : St} {c : Cps} (h : Inv st) (hc1 : st1.ctx = st.ctx) (hc : st'.ctx = c :: st1.ctx) :
    Good (.ok st') := good_push c h (by rw [hc, hc1])

theorem cbCOMMENT_good (ns : NsMap) (st : St) (t : Tok) (hI : Inv st) : Good (cbCOMMENT ns st t) := by
  obtain ⟨c, cs, hcs⟩ := hI.cons
  obtain ⟨st1, h1, hc1⟩ := append_plain_ok ns st (.comment t.val) tyCOMMENT (by simp [hcs]) (by decide) (by decide)
  simp only [cbCOMMENT, h1]
  exact good_ctx hI hc1

theorem cbS_good (ns : NsMap) (st : St) (t : Tok) (hI : Inv st) : Good (cbS ns st t) := by
  obtain ⟨c, cs, hcs⟩ := hI.cons
  simp only [cbS, top, hcs, bind, Except.bind, pure, Except.pure]
  split
  · split
    · split
      · obtain ⟨st1, h1, hc1⟩ := append_plain_ok ns st (.str c_S) tyS (by simp [hcs]) (by decide) (by decide)
        simp only [h1]; exact good_ctx hI hc1
      · exact good_ok hI
    · exact good_ok hI
  · split
    · obtain ⟨st1, h1, hc1⟩ := append_plain_ok ns st (.str c_S) tyDescendant (by simp [hcs]) (by decide) (by decide)
      simp only [h1]; exact good_ctx hI hc1
    · exact good_ok hI

theorem cbUniversal_good (ns : NsMap) (st : St) (t : Tok) (hI : Inv st) (ht : PrepOk t)
    (hn : t.typ.name = tyUniversal) : Good (cbUniversal ns st t) := by
  obtain ⟨c, cs, hcs⟩ := hI.cons
  simp only [cbUniversal, top, hcs, bind, Except.bind, pure, Except.pure, fail]
  split
  · obtain ⟨st1, h1, hc1⟩ := append_ok ns st (.str t.val) tyUniversal (by simp [hcs]) (by intro h; exact absurd h (by decide))
      (by intro _ _ s hs; cases hs; exact ht.1 hn)
    simp only [h1]
    split <;> exact good_ctx hI hc1
  · exact good_ctx hI hcs.symm

theorem cbNsPrefix_good (ns : NsMap) (st : St) (t : Tok) (hI : Inv st) : Good (cbNsPrefix ns st t) := by
  obtain ⟨c, cs, hcs⟩ := hI.cons
  simp only [cbNsPrefix, top, hcs, bind, Except.bind, pure, Except.pure, fail]
  obtain ⟨st1, h1, hc1⟩ := append_prefix_ok ns st t.val (by simp [hcs])
  split
  · simp only [h1]; exact good_ctx hI hc1
  · split
    · simp only [h1]; exact good_ctx hI hc1
    · exact good_ctx hI hcs.symm

theorem cbClass_good (ns : NsMap) (st : St) (t : Tok) (hI : Inv st) : Good (cbClass ns st t) := by
  obtain ⟨c, cs, hcs⟩ := hI.cons
  simp only [cbClass, top, hcs, bind, Except.bind, pure, Except.pure, fail]
  split
  · obtain ⟨st1, h1, hc1⟩ := append_plain_ok ns st (.str t.val) tyClass (by simp [hcs]) (by decide) (by decide)
    simp only [h1]
    split <;> exact good_ctx hI hc1
  · exact good_ctx hI hcs.symm

theorem cbHash_good (ns : NsMap) (st : St) (t : Tok) (hI : Inv st) : Good (cbHash ns st t) := by
  obtain ⟨c, cs, hcs⟩ := hI.cons
  simp only [cbHash, top, hcs, bind, Except.bind, pure, Except.pure, fail]
  split
  · obtain ⟨st1, h1, hc1⟩ := append_plain_ok ns st (.str t.val) tyId (by simp [hcs]) (by decide) (by decide)
    simp only [h1]
    split <;> exact good_ctx hI hc1
  · exact good_ctx hI hcs.symm

theorem cbAtkeyword_good (ns : NsMap) (st : St) (t : Tok) (hI : Inv st) : Good (cbAtkeyword ns st t) := by
  simp only [cbAtkeyword, fail, pure, Except.pure]
  exact good_ctx hI rfl

theorem cbNegation_good (ns : NsMap) (st : St) (t : Tok) (hI : Inv st) : Good (cbNegation ns st t) := by
  simp only [cbNegation, bind, Except.bind, pure, Except.pure, fail]
  split
  · obtain ⟨st1, h1, hc1⟩ := append_plain_ok ns { st with ctx := cxNegation :: st.ctx } (.str (normalizeName t.val))
      tyNegStart (by simp) (by decide) (by decide)
    simp only [h1]
    exact good_push cxNegation hI hc1
  · exact good_ctx hI rfl

/-- callbacks that append under the token's own type name -/
theorem cbExpression_good (ns : NsMap) (st : St) (t : Tok) (hI : Inv st)
    (h1n : (t.typ.name == tyPREFIX) = false) (h2n : (t.typ.name == tyUniversal) = false) :
    Good (cbExpression ns st t) := by
  obtain ⟨c, cs, hcs⟩ := hI.cons
  simp only [cbExpression, top, hcs, bind, Except.bind, pure, Except.pure, fail]
  split
  · obtain ⟨st1, h1, hc1⟩ := append_plain_ok ns st (.str t.val) t.typ.name (by simp [hcs]) h1n h2n
    simp only [h1]; exact good_ctx hI hc1
  · exact good_ctx hI hcs.symm

theorem cbAttcombinator_good (ns : NsMap) (st : St) (t : Tok) (hI : Inv st)
    (h1n : (lower t.typ.name == tyPREFIX) = false) (h2n : (lower t.typ.name == tyUniversal) = false) :
    Good (cbAttcombinator ns st t) := by
  obtain ⟨c, cs, hcs⟩ := hI.cons
  simp only [cbAttcombinator, top, hcs, bind, Except.bind, pure, Except.pure, fail]
  split
  · obtain ⟨st1, h1, hc1⟩ := append_plain_ok ns st (.str t.val) (lower t.typ.name) (by simp [hcs]) h1n h2n
    simp only [h1]; exact good_ctx hI hc1
  · exact good_ctx hI hcs.symm

theorem cbString_good (ns : NsMap) (st : St) (t : Tok) (hI : Inv st) (hv : t.val ≠ [])
    (h1n : (t.typ.name == tyPREFIX) = false) (h2n : (t.typ.name == tyUniversal) = false) :
    Good (cbString ns st t) := by
  obtain ⟨c, cs, hcs⟩ := hI.cons
  obtain ⟨q, r, hq⟩ : ∃ q r, t.val = q :: r := by
    cases hv' : t.val with
    | nil => exact absurd hv' hv
    | cons q r => exact ⟨q, r, rfl⟩
  simp only [cbString, top, hcs, stringTokenValue, hq, bind, Except.bind, pure, Except.pure, fail]
  split
  · obtain ⟨st1, h1, hc1⟩ := append_plain_ok ns st (.str ((unquoteEsc q (q :: r)).drop 1).dropLast) t.typ.name
      (by simp [hcs]) h1n h2n
    simp only [h1]; exact good_ctx hI hc1
  · split
    · obtain ⟨st1, h1, hc1⟩ := append_plain_ok ns st (.str ((unquoteEsc q (q :: r)).drop 1).dropLast) t.typ.name
        (by simp [hcs]) h1n h2n
      simp only [h1]; exact good_ctx hI hc1
    · exact good_ctx hI hcs.symm

theorem cbIdent_good (ns : NsMap) (st : St) (t : Tok) (hI : Inv st)
    (h1n : (t.typ.name == tyPREFIX) = false) (h2n : (t.typ.name == tyUniversal) = false) :
    Good (cbIdent ns st t) := by
  obtain ⟨c, cs, hcs⟩ := hI.cons
  simp only [cbIdent, top, hcs, bind, Except.bind, pure, Except.pure, fail]
  split
  · obtain ⟨st1, h1, hc1⟩ := append_plain_ok ns st (.str t.val) tyAttrSel (by simp [hcs]) (by decide) (by decide)
    simp only [h1]; exact good_ctx hI hc1
  · split
    · obtain ⟨st1, h1, hc1⟩ := append_plain_ok ns st (.str t.val) tyAttrValue (by simp [hcs]) (by decide) (by decide)
      simp only [h1]; exact good_ctx hI hc1
    · split
      · obtain ⟨st1, h1, hc1⟩ := append_plain_ok ns st (.str t.val) tyNegTypeSel (by simp [hcs]) (by decide) (by decide)
        simp only [h1]; exact good_ctx hI hc1
      · split
        · obtain ⟨st1, h1, hc1⟩ := append_plain_ok ns st (.str t.val) t.typ.name (by simp [hcs]) h1n h2n
          simp only [h1]; exact good_ctx hI hc1
        · split
          · obtain ⟨st1, h1, hc1⟩ := append_plain_ok ns st (.str t.val) tyTypeSel (by simp [hcs]) (by decide) (by decide)
            simp only [h1]; exact good_ctx hI hc1
          · exact good_ctx hI hcs.symm

theorem cbPseudo_good (ns : NsMap) (st : St) (t : Tok) (hI : Inv st)
    (h1n : (t.typ.name == tyPREFIX) = false) (h2n : (t.typ.name == tyUniversal) = false) :
    Good (cbPseudo ns st t) := by
  obtain ⟨c, cs, hcs⟩ := hI.cons
  simp only [cbPseudo, top, hcs, bind, Except.bind, pure, Except.pure, fail]
  split
  · by_cases hel : elemOf (normalizeName t.val) legacyPseudoElements = true
    · simp only [hel, if_true]
      obtain ⟨st1, h1, hc1⟩ := append_plain_ok ns st (.str (normalizeName t.val)) tyPseudoElement (by simp [hcs])
        (by decide) (by decide)
      simp only [h1]
      repeat' split
      all_goals first | exact good_ctx hI hc1 | exact good_push2 hI hc1 rfl
    · have hel' : elemOf (normalizeName t.val) legacyPseudoElements = false := by simpa using hel
      simp only [hel', Bool.false_eq_true, if_false]
      obtain ⟨st1, h1, hc1⟩ := append_plain_ok ns st (.str (normalizeName t.val)) t.typ.name (by simp [hcs]) h1n h2n
      simp only [h1]
      repeat' split
      all_goals first | exact good_ctx hI hc1 | exact good_push2 hI hc1 rfl
  · exact good_ctx hI hcs.symm


theorem single_of_len (val : Cps) (h : val.length = 1) : ∃ x, val = [x] := by
  match val, h with
  | [x], _ => exact ⟨x, rfl⟩

theorem plusminus_name (val : Cps) (hv : val.length = 1 ∨ val = [58, 58]) (hs : isSub val sPlusMinus = true) :
    ∃ n, nameOf namesPlusMinus val = .ok n ∧ (n == tyPREFIX) = false ∧ (n == tyUniversal) = false := by
  rcases hv with hv | rfl
  · obtain ⟨x, rfl⟩ := single_of_len val hv
    have : x = 43 ∨ x = 45 := by
      simp [isSub, sPlusMinus, List.isPrefixOf] at hs
      omega
    rcases this with rfl | rfl
    · exact ⟨_, rfl, by decide, by decide⟩
    · exact ⟨_, rfl, by decide, by decide⟩
  · exact absurd hs (by decide)

theorem combinator_name (val : Cps) (hv : val.length = 1 ∨ val = [58, 58]) (hs : isSub val sCombChars = true) :
    ∃ n, nameOf namesCombinator val = .ok n ∧ (n == tyPREFIX) = false ∧ (n == tyUniversal) = false := by
  rcases hv with hv | rfl
  · obtain ⟨x, rfl⟩ := single_of_len val hv
    have : x = 43 ∨ x = 62 ∨ x = 126 := by
      simp [isSub, sCombChars, List.isPrefixOf] at hs
      omega
    rcases this with rfl | rfl | rfl
    · exact ⟨_, rfl, by decide, by decide⟩
    · exact ⟨_, rfl, by decide, by decide⟩
    · exact ⟨_, rfl, by decide, by decide⟩
  · exact absurd hs (by decide)

theorem pop_shape {st : St} {c : Cps} {cs : List Cps} (hI : Inv st) (hcs : st.ctx = c :: cs) (hne : c ≠ cxRoot) :
    ∃ d ds, cs = d :: ds ∧ (d :: ds).getLast? = some cxRoot := by
  unfold Inv at hI
  rw [hcs] at hI
  have := inv_pop hI hne
  cases cs with
  | nil => simp at this
  | cons d ds => exact ⟨d, ds, rfl, this⟩

theorem good_of_last {st' : St} (h : st'.ctx.getLast? = some cxRoot) : Good (.ok st') := ⟨st', rfl, h⟩

theorem pseudo_ne_root {c : Cps} (h : isPseudoCtx c = true) : c ≠ cxRoot := by
  rintro rfl; exact absurd h (by decide)

theorem cbChar_good (ns : NsMap) (st : St) (t : Tok) (hI : Inv st) (hv : t.val.length = 1 ∨ t.val = [58, 58]) :
    Good (cbChar ns st t) := by
  obtain ⟨c, cs, hcs⟩ := hI.cons
  simp only [cbChar, top, hcs, bind, Except.bind, pure, Except.pure, fail]
  split
  · -- `]` closes an attribute selector
    rename_i h
    simp only [Bool.and_eq_true, beq_iff_eq] at h
    obtain ⟨d, ds, rfl, hl⟩ := pop_shape hI hcs (by rw [h.1.2]; decide)
    obtain ⟨st1, h1, hc1⟩ := append_plain_ok ns st (.str t.val) tyAttrEnd (by simp [hcs]) (by decide) (by decide)
    simp only [h1, hc1, hcs, List.drop_succ_cons, List.drop_zero]
    split <;> exact good_of_last hl
  · split
    · obtain ⟨st1, h1, hc1⟩ := append_plain_ok ns st (.str t.val) tyEquals (by simp [hcs]) (by decide) (by decide)
      simp only [h1]; exact good_ctx hI hc1
    · split
      · -- `)` closes `:not(`
        rename_i h
        simp only [Bool.and_eq_true, beq_iff_eq] at h
        obtain ⟨d, ds, rfl, hl⟩ := pop_shape hI hcs (by rw [h.1.2]; decide)
        obtain ⟨st1, h1, hc1⟩ := append_plain_ok ns st (.str t.val) tyNegEnd (by simp [hcs]) (by decide) (by decide)
        simp only [h1, hc1, hcs, List.drop_succ_cons, List.drop_zero]
        exact good_of_last hl
      · split
        · -- `+` / `-` inside a pseudo function
          rename_i h
          simp only [Bool.and_eq_true] at h
          obtain ⟨n, hn, hn1, hn2⟩ := plusminus_name t.val hv h.1
          simp only [hn]
          split
          · exact good_ctx hI rfl
          · obtain ⟨st1, h1, hc1⟩ := append_plain_ok ns st (.str t.val) n (by simp [hcs]) hn1 hn2
            simp only [h1]; exact good_ctx hI hc1
        · split
          · -- `)` closes a pseudo function
            rename_i h
            simp only [Bool.and_eq_true, beq_iff_eq] at h
            obtain ⟨d, ds, rfl, hl⟩ := pop_shape hI hcs (pseudo_ne_root h.1.2)
            obtain ⟨st1, h1, hc1⟩ := append_plain_ok ns st (.str t.val) tyFuncEnd (by simp [hcs]) (by decide) (by decide)
            simp only [h1, hc1, hcs, List.drop_succ_cons, List.drop_zero]
            repeat' split
            all_goals exact good_of_last hl
          · split
            · obtain ⟨st1, h1, hc1⟩ := append_plain_ok ns st (.str t.val) tyAttrStart (by simp [hcs]) (by decide) (by decide)
              simp only [h1]; exact good_push2 hI hc1 rfl
            · split
              · rename_i h
                simp only [Bool.and_eq_true] at h
                obtain ⟨n, hn, hn1, hn2⟩ := combinator_name t.val hv h.1
                simp only [hn]
                split
                · exact good_ctx hI rfl
                · obtain ⟨st1, h1, hc1⟩ := append_plain_ok ns st (.str t.val) n (by simp [hcs]) hn1 hn2
                  simp only [h1]; exact good_ctx hI hc1
              · exact good_ctx hI hcs.symm


/-! ## dispatch goes by type name -/

theorem lookup_mem' (l : List (Cps × Cps)) (k v : Cps) (h : l.lookup k = some v) : (k, v) ∈ l := by
  induction l with
  | nil => simp [List.lookup] at h
  | cons a r ih =>
    obtain ⟨a1, a2⟩ := a
    simp only [List.lookup] at h
    split at h
    · rename_i hk
      have : k = a1 := by simpa using hk
      cases h; subst this; exact List.mem_cons_self
    · exact List.mem_cons_of_mem _ (ih h)

theorem dispatch_mem (typ : TT) (cb : Cb) (h : dispatch typ = some cb) : (typ.name, cb.methodName) ∈ productions := by
  unfold dispatch at h
  cases hl : productions.lookup typ.name with
  | none => simp [hl] at h
  | some m =>
    simp only [hl] at h
    have h1 := List.find?_some h
    have : cb.methodName = m := by simpa using h1
    rw [this]; exact lookup_mem' _ _ _ hl

/-- facts about one row of `New.productions` -/
def rowOk (p : Cps × Cps) : Bool :=
  !(p.1 == tyPREFIX) && !(lower p.1 == tyPREFIX)
  && (p.2 == Cb.methodName .universal || (!(p.1 == tyUniversal) && !(lower p.1 == tyUniversal)))
  && (!(p.2 == Cb.methodName .universal) || p.1 == tyUniversal)
  && (!(p.2 == Cb.methodName .char) || p.1 == TT.char.name)
  && (!(p.2 == Cb.methodName .string) || p.1 == TT.string.name)

theorem rows_ok : productions.all rowOk = true := by decide

theorem dispatch_row (typ : TT) (cb : Cb) (h : dispatch typ = some cb) : rowOk (typ.name, cb.methodName) = true :=
  List.all_eq_true.mp rows_ok _ (dispatch_mem typ cb h)

theorem step_good (ns : NsMap) (st : St) (t : Tok) (hI : Inv st) (ht : PrepOk t) : Good (step ns st t) := by
  unfold step
  cases hd : dispatch t.typ with
  | none =>
    simp only
    split
    · exact good_ctx hI rfl
    · exact good_ctx hI rfl
  | some cb =>
    have hr := dispatch_row t.typ cb hd
    simp only [rowOk, Bool.and_eq_true, Bool.or_eq_true, Bool.not_eq_true', beq_iff_eq] at hr
    obtain ⟨⟨⟨⟨⟨hp, hlp⟩, hu⟩, hu'⟩, hch⟩, hstr⟩ := hr
    have hp' : (t.typ.name == tyPREFIX) = false := by simpa using hp
    have hlp' : (lower t.typ.name == tyPREFIX) = false := by simpa using hlp
    cases cb
    case char =>
      exact cbChar_good ns st t hI (ht.2.1 (by simpa [Cb.methodName] using hch))
    case cls => exact cbClass_good ns st t hI
    case hash => exact cbHash_good ns st t hI
    case string =>
      have hu2 : (t.typ.name == tyUniversal) = false := by
        rcases hu with h | h
        · exact absurd h (by decide)
        · simpa using h.1
      exact cbString_good ns st t hI (ht.2.2 (by simpa [Cb.methodName] using hstr)) hp' hu2
    case ident =>
      have hu2 : (t.typ.name == tyUniversal) = false := by
        rcases hu with h | h
        · exact absurd h (by decide)
        · simpa using h.1
      exact cbIdent_good ns st t hI hp' hu2
    case nsPrefix => exact cbNsPrefix_good ns st t hI
    case negation => exact cbNegation_good ns st t hI
    case pseudo =>
      have hu2 : (t.typ.name == tyUniversal) = false := by
        rcases hu with h | h
        · exact absurd h (by decide)
        · simpa using h.1
      exact cbPseudo_good ns st t hI hp' hu2
    case universal =>
      exact cbUniversal_good ns st t hI ht (by simpa [Cb.methodName] using hu')
    case expression =>
      have hu2 : (t.typ.name == tyUniversal) = false := by
        rcases hu with h | h
        · exact absurd h (by decide)
        · simpa using h.1
      exact cbExpression_good ns st t hI hp' hu2
    case attcombinator =>
      have hu2 : (lower t.typ.name == tyUniversal) = false := by
        rcases hu with h | h
        · exact absurd h (by decide)
        · simpa using h.2
      exact cbAttcombinator_good ns st t hI hlp' hu2
    case s => exact cbS_good ns st t hI
    case comment => exact cbCOMMENT_good ns st t hI
    case atkeyword => exact cbAtkeyword_good ns st t hI

theorem run_good (ns : NsMap) (toks : List Tok) (st : St) (hI : Inv st) (ht : ∀ t ∈ toks, PrepOk t) :
    Good (run ns st toks) := by
  induction toks generalizing st with
  | nil => exact good_ok hI
  | cons t ts ih =>
    obtain ⟨st1, h1, hI1⟩ := step_good ns st t hI (ht t List.mem_cons_self)
    simp only [run, h1, bind, Except.bind]
    exact ih st1 hI1 (fun x hx => ht x (List.mem_cons_of_mem _ hx))


/-! ## `_prepare_tokens` keeps the token facts -/

def TokOk (t : Tok) : Prop := PrepOk t ∧ (t.typ = .nsPrefix → bars t.val ≤ 1)

theorem tokOk_of_dom (t : Tok) (h : ParseAll.selDom t = true) : TokOk t := by
  simp only [ParseAll.selDom, Bool.and_eq_true, Bool.or_eq_true, bne_iff_ne, ne_eq, beq_iff_eq,
    Bool.not_eq_true', List.isEmpty_eq_false_iff] at h
  obtain ⟨⟨⟨hu, hn⟩, hc⟩, hs⟩ := h
  refine ⟨⟨fun hx => absurd hx hu, fun hx => ?_, fun hx => ?_⟩, fun hx => ?_⟩
  · rcases hc with hc | hc
    · exact absurd hx hc
    · exact Or.inl hc
  · rcases hs with hs | hs
    · exact absurd hx hs
    · exact hs
  · rw [hx] at hn; exact absurd rfl hn

theorem bars_append (a b : Cps) : bars (a ++ b) = bars a + bars b := by simp [bars]

theorem bars_zero_of_not_has (s : Cps) (h : hasCp 124 s = false) : bars s = 0 := by
  simp only [hasCp] at h
  simp only [bars]
  apply List.count_eq_zero.mpr
  intro hm
  have : s.contains 124 = true := List.contains_iff_mem.mpr hm
  rw [h] at this; cases this

theorem tokOk_const (typ : TT) (val : Cps) (h1 : typ.name ≠ tyUniversal) (h2 : typ.name ≠ TT.char.name)
    (h3 : typ.name ≠ TT.string.name) (h4 : typ ≠ .nsPrefix) : TokOk ⟨typ, val⟩ :=
  ⟨⟨fun h => absurd h h1, fun h => absurd h h2, fun h => absurd h h3⟩, fun h => absurd h h4⟩

theorem tokOk_cls (val : Cps) : TokOk ⟨.cls, val⟩ := tokOk_const _ _ (by decide) (by decide) (by decide) (by intro h; cases h)
theorem tokOk_pe (val : Cps) : TokOk ⟨.pseudoElement, val⟩ := tokOk_const _ _ (by decide) (by decide) (by decide) (by intro h; cases h)
theorem tokOk_pc (val : Cps) : TokOk ⟨.pseudoClass, val⟩ := tokOk_const _ _ (by decide) (by decide) (by decide) (by intro h; cases h)
theorem tokOk_neg (val : Cps) : TokOk ⟨.negation, val⟩ := tokOk_const _ _ (by decide) (by decide) (by decide) (by intro h; cases h)

theorem tokOk_univ (val : Cps) (h : bars val ≤ 1) : TokOk ⟨.universal, val⟩ :=
  ⟨⟨fun _ => h, fun (h : TT.universal.name = TT.char.name) => absurd h (by decide),
    fun (h : TT.universal.name = TT.string.name) => absurd h (by decide)⟩, fun h => by cases h⟩

theorem tokOk_nsp (val : Cps) (h : bars val ≤ 1) : TokOk ⟨.nsPrefix, val⟩ :=
  ⟨⟨fun (h : TT.nsPrefix.name = tyUniversal) => absurd h (by decide),
    fun (h : TT.nsPrefix.name = TT.char.name) => absurd h (by decide),
    fun (h : TT.nsPrefix.name = TT.string.name) => absurd h (by decide)⟩, fun _ => h⟩

theorem tokOk_colons (typ : TT) : TokOk ⟨typ, [58, 58]⟩ :=
  ⟨⟨fun _ => (by decide : bars [58, 58] ≤ 1), fun _ => Or.inr rfl, fun _ => by simp⟩,
    fun _ => (by decide : bars [58, 58] ≤ 1)⟩

theorem prepStep_ok (out : List Tok) (t : Tok) (ho : ∀ x ∈ out, TokOk x) (ht : ParseAll.selDom t = true) :
    ∀ x ∈ prepStep out t, TokOk x := by
  have htk := tokOk_of_dom t ht
  intro x hx
  cases out with
  | nil =>
    simp only [prepStep] at hx
    repeat' split at hx
    all_goals rcases List.mem_cons.mp hx with rfl | hx
    all_goals try (first | exact ho x hx | exact htk)
    · rename_i h; have : t.val = [42] := by simpa using h
      rw [this]; exact tokOk_univ _ (by decide)
    · rename_i h; have : t.val = [124] := by simpa using h
      rw [this]; exact tokOk_nsp _ (by decide)
  | cons last rest =>
    simp only [prepStep] at hx
    repeat' split at hx
    all_goals rcases List.mem_cons.mp hx with rfl | hx
    all_goals try (first | exact ho x hx | exact ho x (List.mem_cons_of_mem _ hx) | exact htk | exact tokOk_colons _ | exact tokOk_cls _ | exact tokOk_pe _ | exact tokOk_pc _ | exact tokOk_neg _)
    · -- `ns|*`
      rename_i h
      simp only [Bool.and_eq_true, beq_iff_eq] at h
      have hl := (ho last List.mem_cons_self).2 h.1.2
      rw [h.1.1]
      exact tokOk_univ _ (by rw [bars_append]; have : bars [42] = 0 := by decide
                             omega)
    · rename_i h; have : t.val = [42] := by simpa using h
      rw [this]; exact tokOk_univ _ (by decide)
    · -- `ident|`
      rename_i h
      simp only [Bool.and_eq_true, Bool.not_eq_true'] at h
      exact tokOk_nsp _ (by rw [bars_append, bars_zero_of_not_has _ h.2]; decide)
    · rename_i h; have : t.val = [124] := by simpa using h
      rw [this]; exact tokOk_nsp _ (by decide)

theorem prepAcc_ok (toks : List Tok) (out : List Tok) (ho : ∀ x ∈ out, TokOk x)
    (ht : ∀ t ∈ toks, ParseAll.selDom t = true) : ∀ x ∈ prepAcc out toks, TokOk x := by
  induction toks generalizing out with
  | nil => simpa [prepAcc] using ho
  | cons t ts ih =>
    simp only [prepAcc, List.foldl_cons]
    exact ih (prepStep out t) (prepStep_ok out t ho (ht t List.mem_cons_self))
      (fun x hx => ht x (List.mem_cons_of_mem _ hx))

theorem prepare_ok (toks : List Tok) (ht : ∀ t ∈ toks, ParseAll.selDom t = true) :
    ∀ x ∈ prepare toks, PrepOk x := by
  intro x hx
  simp only [prepare, List.mem_reverse] at hx
  exact (prepAcc_ok toks [] (by simp) ht x hx).1

/-- the state machine returns on every prelude of the domain -/
theorem run_total (ns : NsMap) (toks : List Tok) (h : ∀ t ∈ toks, ParseAll.selDom t = true) :
    ∃ st, run ns {} (prepare toks) = .ok st := by
  obtain ⟨st, hst, _⟩ := run_good ns (prepare toks) {} (by unfold Inv; rfl) (prepare_ok toks h)
  exact ⟨st, hst⟩


theorem usedUris_ok (l : List Item) : ∃ r, usedUris l = .ok r := by
  induction l with
  | nil => exact ⟨_, rfl⟩
  | cons it r ih =>
    obtain ⟨u, hu⟩ := ih
    simp only [usedUris, hu, bind, Except.bind, pure, Except.pure]
    repeat' split
    all_goals exact ⟨_, rfl⟩

theorem commit_ok (ns : NsMap) (r : Option SelCore) : ∃ x, commit ns r = .ok x := by
  cases r with
  | none => exact ⟨_, rfl⟩
  | some c =>
    obtain ⟨u, hu⟩ := usedUris_ok c.seq
    simp only [commit, usedNamespaces, hu, bind, Except.bind, pure, Except.pure]
    exact ⟨_, rfl⟩

/-- `Selector((tokens, namespaces))` returns on every prelude of the domain -/
theorem parseSel_total (ns : NsMap) (toks : List Tok) (h : ∀ t ∈ toks, ParseAll.selDom t = true) :
    ∃ r, parseSel ns toks = .ok r := by
  unfold parseSel
  split
  · exact ⟨_, rfl⟩
  · obtain ⟨st, hst⟩ := run_total ns toks h
    simp only [parseCore, hst, bind, Except.bind, pure, Except.pure]
    exact commit_ok ns _

theorem uptoComma_sub (toks : List Tok) (b k p : Int) (acc : List Tok) :
    (∀ t ∈ (uptoComma b k p acc toks).1, t ∈ acc ∨ t ∈ toks) ∧ (∀ t ∈ (uptoComma b k p acc toks).2, t ∈ toks) := by
  induction toks generalizing b k p acc with
  | nil => simp [uptoComma]
  | cons x xs ih =>
    unfold uptoComma
    split
    · refine ⟨fun t ht => ?_, fun t ht => List.mem_cons_of_mem _ ht⟩
      simp only [List.mem_reverse, List.mem_cons] at ht
      rcases ht with rfl | ht
      · exact Or.inr List.mem_cons_self
      · exact Or.inl ht
    · split
      · refine ⟨fun t ht => ?_, fun t ht => List.mem_cons_of_mem _ ht⟩
        simp only [List.mem_reverse, List.mem_cons] at ht
        rcases ht with rfl | ht
        · exact Or.inr List.mem_cons_self
        · exact Or.inl ht
      · obtain ⟨h1, h2⟩ := ih (cntBrace b x.val) (cntBracket k x.val) (cntParant p x) (x :: acc)
        refine ⟨fun t ht => ?_, fun t ht => List.mem_cons_of_mem _ (h2 t ht)⟩
        rcases h1 t ht with h | h
        · rcases List.mem_cons.mp h with rfl | h
          · exact Or.inr List.mem_cons_self
          · exact Or.inl h
        · exact Or.inr (List.mem_cons_of_mem _ h)

theorem listLoop_total (ns : NsMap) (fuel : Nat) (toks : List Tok) (e : ListExp) (wf : Bool) (acc : List SelRec)
    (h : ∀ t ∈ toks, ParseAll.selDom t = true) : ∃ r, listLoop ns fuel toks e wf acc = .ok r := by
  induction fuel generalizing toks e wf acc with
  | zero => exact ⟨_, rfl⟩
  | succ n ih =>
    unfold listLoop
    obtain ⟨h1, h2⟩ := uptoComma_sub toks 0 0 0 []
    split
    · exact ⟨_, rfl⟩
    · rename_i _ chunk rest hne heq
      rw [heq] at h1 h2
      have hchunk : ∀ t ∈ chunk, ParseAll.selDom t = true := by
        intro t ht
        rcases h1 t ht with hh | hh
        · cases hh
        · exact h t hh
      have hsel : ∀ t ∈ (if lastIsComma chunk = true then chunk.dropLast else chunk), ParseAll.selDom t = true := by
        intro t ht
        split at ht
        · exact hchunk t (List.dropLast_subset _ ht)
        · exact hchunk t ht
      obtain ⟨r, hr⟩ := parseSel_total ns _ hsel
      simp only [hr, bind, Except.bind]
      have hrest : ∀ t ∈ rest, ParseAll.selDom t = true := fun t ht => h t (h2 t ht)
      cases r with
      | some s => exact ih rest _ _ _ hrest
      | none => exact ih rest _ _ _ hrest

/-- `SelectorList.selectorText = (tokens, namespaces)` returns on every prelude of the domain -/
theorem parseList_total (ns : NsMap) (toks : List Tok) (h : ∀ t ∈ toks, ParseAll.selDom t = true) :
    ∃ r, parseList ns toks = .ok r := by
  obtain ⟨r, hr⟩ := listLoop_total ns (toks.length + 1) toks .initial true [] h
  obtain ⟨e, wf, sels⟩ := r
  simp only [parseList, hr, bind, Except.bind, pure, Except.pure]
  exact ⟨_, rfl⟩

end CssVerif.SelTotal
