import CssVerif.Lemmas.StrCodec
import CssVerif.Gen.C03Productions
/-! helpers for the bounded exactness tests of `Props/C03.lean` (are the `Safe` predicates exactly the set of values
that survive write-then-read?) -/
namespace CssVerif.StrCodec
open CssVerif.Proto

/-- all lists over `alphabet` of length ≤ n -/
def allLists (alphabet : List Nat) : Nat → List (List Nat)
  | 0 => [[]]
  | n + 1 => [] :: (allLists alphabet n).flatMap fun l => alphabet.map fun c => c :: l

/-- `SafeStr v` ⇔ the written form is one STRING token that reads back as `v` -/
def strExact (v : List Nat) : Bool :=
  decide (SafeStr v) == (lexString (strE v) == some (strE v).length && strD (strE v) == some v)

/-- `SafeUri v` ⇔ the written form is one URI token (generated production) that reads back as `v` -/
def uriExact (v : List Nat) : Bool :=
  decide (SafeUri v) == (Gen.C03.uriRe.first (uriE v) == some (uriE v).length && uriD (uriE v) == some v)

end CssVerif.StrCodec
