import CssVerif.Lemmas.SheetEdit
/-! helper lemmas for C09, T9.3: parsing the serialisation of a valid sheet keeps every rule -/
namespace CssVerif.SheetEdit
open CssVerif.Proto (Cps)

/-! ## shapes -/

theorem shape_kind (r : Rule) : r.shape.kind = r.kind := by cases r; simp [Rule.shape]

theorem shapes_append (a b : List Rule) : Rule.shapes (a ++ b) = Rule.shapes a ++ Rule.shapes b := by
  induction a with
  | nil => rfl
  | cons r rs ih => simp [Rule.shapes, ih]

theorem toSpecs_eq_map (l : List Rule) : Rule.toSpecs l = l.map Rule.toSpec := by
  induction l with
  | nil => rfl
  | cons r rs ih => simp [Rule.toSpecs, ih]

theorem toSpec_kind (r : Rule) : r.toSpec.kind = r.kind := by cases r; simp [Rule.toSpec]
theorem toSpec_pre (r : Rule) : r.toSpec.pre = r.pre := by cases r; simp [Rule.toSpec]
theorem toSpec_uri (r : Rule) : r.toSpec.uri = r.uri := by cases r; simp [Rule.toSpec]
theorem toSpec_used (r : Rule) : r.toSpec.used = r.used := by cases r; simp [Rule.toSpec]
theorem toSpec_kids (r : Rule) : r.toSpec.kids = Rule.toSpecs r.kids := by cases r; simp [Rule.toSpec]

/-- a rule that is no container and is well nested has no children -/
theorem kidsOK_leaf {r : Rule} (h : r.kidsOK = true) (hm : r.kind ≠ .media) (hp : r.kind ≠ .page) : r.kids = [] := by
  rw [kidsOK_eq] at h
  cases hk : r.kids with
  | nil => rfl
  | cons a t =>
    rw [hk] at h
    simp only [Rule.kidsOKL, Bool.and_eq_true] at h
    have := h.1.1
    unfold allowedIn at this
    split at this <;> simp_all

theorem leaf_shape {r : Rule} (h : r.kids = []) : r.shape = ⟨r.kind, [], [], [], [], []⟩ := by
  cases r; simp only [Rule.shape]; simp_all [Rule.shapes]

/-! ## @page children -/

theorem parsePageKids_pres (raising : Bool) (cid : Nat) :
    (n : Nat) → (l : List Spec) → (ks : List Rule × Nat) → parsePageKids raising cid n l = .ok ks →
      ∀ x ∈ ks.1, x.pre ∈ l.map (·.pre)
  | n, [], ks, h => by
    simp only [parsePageKids] at h; injection h with h; subst h; intro x hx; cases hx
  | n, s :: ss, ks, h => by
    simp only [parsePageKids] at h
    split at h
    · split at h
      · cases h
      · rename_i rest hrest
        injection h with h; subst h
        intro x hx
        rcases List.mem_cons.mp hx with hx | hx
        · rw [hx]; simp
        · have := parsePageKids_pres raising cid (n + 1) ss rest hrest x (List.mem_filter.mp hx).1
          simp [this]
    · have ih : ∀ ks, parsePageKids raising cid n ss = .ok ks → ∀ x ∈ ks.1, x.pre ∈ ss.map (·.pre) :=
        fun ks h => parsePageKids_pres raising cid n ss ks h
      split at h
      · intro x hx; simp [ih ks h x hx]
      · split at h
        · cases h
        · intro x hx; simp [ih ks h x hx]

/-- margin rules with pairwise distinct names are all kept -/
theorem parsePageKids_roundtrip (cid : Nat) :
    (n : Nat) → (kids : List Rule) → Rule.kidsOKL .page kids = true → (kids.map (·.pre)).Nodup →
      ∃ ks, parsePageKids false cid n (Rule.toSpecs kids) = .ok ks ∧ Rule.shapes ks.1 = Rule.shapes kids
  | n, [], _, _ => ⟨([], n), by simp [Rule.toSpecs, parsePageKids], by simp [Rule.shapes]⟩
  | n, r :: rs, hk, hd => by
    simp only [Rule.kidsOKL, Bool.and_eq_true] at hk
    have hmar : r.kind = .margin := by
      have := hk.1.1; unfold allowedIn at this; simpa using this
    have hleaf : r.kids = [] := kidsOK_leaf hk.1.2 (by rw [hmar]; decide) (by rw [hmar]; decide)
    rw [List.map_cons, List.nodup_cons] at hd
    obtain ⟨ks, hks, hsh⟩ := parsePageKids_roundtrip cid (n + 1) rs hk.2 hd.2
    refine ⟨(⟨n, .margin, r.pre, [], [], [], false, some cid, []⟩ :: ks.1.filter (fun x => x.pre != r.pre), ks.2), ?_, ?_⟩
    · simp only [Rule.toSpecs, parsePageKids, toSpec_kind, hmar, if_true, hks, toSpec_pre]
    · have hfil : ks.1.filter (fun x => x.pre != r.pre) = ks.1 := by
        rw [List.filter_eq_self]
        intro x hx
        have := parsePageKids_pres false cid (n + 1) _ ks hks x hx
        rw [toSpecs_eq_map, List.map_map] at this
        have hmem : x.pre ∈ rs.map (·.pre) := by
          obtain ⟨y, hy, hyx⟩ := List.mem_map.mp this
          exact List.mem_map.mpr ⟨y, hy, by simpa [toSpec_pre] using hyx⟩
        simp only [bne_iff_ne, ne_eq]
        intro heq; rw [heq] at hmem; exact hd.1 hmem
      rw [hfil]
      simp only [Rule.shapes, hsh]
      rw [leaf_shape hleaf, hmar]
      simp [Rule.shape, Rule.shapes]

/-! ## @media children -/

theorem usesDeclared_of {d : Dict} {uris used : List Cps} (hd : ∀ u, uris.contains u = true → d.hasValue u = true)
    (hu : used.all (fun u => uris.contains u) = true) : usesDeclared d used = true := by
  unfold usesDeclared
  rw [List.all_eq_true] at hu ⊢
  intro u hu'
  exact hd u (hu u hu')

mutual
theorem parseMediaKid_roundtrip (uris : List Cps) (d : Dict)
    (hd : ∀ u, uris.contains u = true → d.hasValue u = true) (cid n : Nat) :
    (r : Rule) → allowedIn .media r.kind = true → r.kidsOK = true → r.roundTrips uris = true →
      ∃ rn, parseMediaKid false d cid n r.toSpec = .ok (some rn) ∧ rn.1.shape = r.shape
  | ⟨i, k, pre, uri, enc, used, pss, prule, kids⟩, ha, hk, hr => by
    simp only [Rule.roundTrips, Bool.and_eq_true] at hr
    simp only [Rule.kidsOK] at hk
    cases k with
    | style =>
      have hleaf : kids = [] := by
        cases kids with
        | nil => rfl
        | cons a t => simp [Rule.kidsOKL, allowedIn] at hk
      subst hleaf
      refine ⟨(⟨n, .style, pre, uri, enc, used, false, some cid, []⟩, n + 1), ?_, by simp [Rule.shape, Rule.shapes]⟩
      have hu := usesDeclared_of hd (by simpa using hr.1.1.1)
      simp [Rule.toSpec, Rule.toSpecs, parseMediaKid, Gen.mediaTextRejects, hu]
    | media =>
      obtain ⟨ks, hks, hsh⟩ := parseMediaKids_roundtrip uris d hd n (n + 1) kids hk hr.2
      refine ⟨(⟨n, .media, pre, uri, enc, used, false, some cid, ks.1⟩, ks.2), ?_, by simp [Rule.shape, hsh]⟩
      simp [Rule.toSpec, parseMediaKid, Gen.mediaTextRejects, hks]
    | page =>
      obtain ⟨ks, hks, hsh⟩ := parsePageKids_roundtrip n (n + 1) kids hk (by simpa using hr.1.1.2)
      refine ⟨(⟨n, .page, pre, uri, enc, used, false, some cid, ks.1⟩, ks.2), ?_, by simp [Rule.shape, hsh]⟩
      simp [Rule.toSpec, parseMediaKid, Gen.mediaTextRejects, hks]
    | comment =>
      have hleaf : kids = [] := by
        cases kids with
        | nil => rfl
        | cons a t => simp [Rule.kidsOKL, allowedIn] at hk
      subst hleaf
      refine ⟨(⟨n, .comment, pre, uri, enc, used, false, some cid, []⟩, n + 1), ?_, by simp [Rule.shape, Rule.shapes]⟩
      simp [Rule.toSpec, Rule.toSpecs, parseMediaKid, Gen.mediaTextRejects]
    | unknown =>
      have hleaf : kids = [] := by
        cases kids with
        | nil => rfl
        | cons a t => simp [Rule.kidsOKL, allowedIn] at hk
      subst hleaf
      refine ⟨(⟨n, .unknown, pre, uri, enc, used, false, some cid, []⟩, n + 1), ?_, by simp [Rule.shape, Rule.shapes]⟩
      simp [Rule.toSpec, Rule.toSpecs, parseMediaKid, Gen.mediaTextRejects]
    | charset => simp [allowedIn] at ha
    | imp => simp [allowedIn] at ha
    | fontface => simp [allowedIn] at ha
    | ns => simp [allowedIn] at ha
    | vars => simp [allowedIn] at ha
    | margin => simp [allowedIn] at ha
theorem parseMediaKids_roundtrip (uris : List Cps) (d : Dict)
    (hd : ∀ u, uris.contains u = true → d.hasValue u = true) (cid n : Nat) :
    (kids : List Rule) → Rule.kidsOKL .media kids = true → Rule.roundTripsL uris kids = true →
      ∃ ks, parseMediaKids false d cid n (Rule.toSpecs kids) = .ok ks ∧ Rule.shapes ks.1 = Rule.shapes kids
  | [], _, _ => ⟨([], n), by simp [Rule.toSpecs, parseMediaKids], by simp [Rule.shapes]⟩
  | r :: rs, hk, hr => by
    simp only [Rule.kidsOKL, Bool.and_eq_true] at hk
    simp only [Rule.roundTripsL, Bool.and_eq_true] at hr
    obtain ⟨rn, hrn, hsh1⟩ := parseMediaKid_roundtrip uris d hd cid n r hk.1.1 hk.1.2 hr.1
    obtain ⟨ks, hks, hsh2⟩ := parseMediaKids_roundtrip uris d hd cid rn.2 rs hk.2 hr.2
    refine ⟨(rn.1 :: ks.1, ks.2), ?_, by simp [Rule.shapes, hsh1, hsh2]⟩
    simp [Rule.toSpecs, parseMediaKids, hrn, hks]
end

/-! ## the sheet's own list: appending in document order is always accepted -/

theorem topK_snoc {l : List Kind} {k : Kind} (h : TopK (l ++ [k])) : TopK l ∧ ∀ x ∈ l, Before x k := by
  unfold TopK at *
  rw [List.pairwise_append] at h
  exact ⟨h.1, fun x hx => h.2.2 x hx k (by simp)⟩

theorem g_imp_before : ∀ x, Before x .imp → x ∉ Gen.importBefore := by intro x; cases x <;> decide
theorem g_ns_before : ∀ x, Before x .ns → x ∉ Gen.nsBefore := by intro x; cases x <;> decide
theorem g_vars_before : ∀ x, Before x .vars → x ∉ Gen.varsBefore := by intro x; cases x <;> decide
theorem g_no_before_charset : ∀ x, ¬ Before x .charset := by intro x; cases x <;> decide

theorem hasKind_of_forall {ks l} (h : ∀ x ∈ l, x ∉ ks) : hasKind ks l = false := by
  unfold hasKind
  rw [List.any_eq_false]
  intro x hx
  simpa using h x hx

theorem firstIs_len0 {l : List Kind} : ¬ (l.length = 0 ∧ firstIs [.charset] l = true) := by
  intro ⟨h0, hf⟩
  cases l with
  | nil => simp [firstIs] at hf
  | cons a t => simp at h0

/-- a rule appended where the order allows it is accepted by the position checks of `insertRule` -/
theorem place_end {l : List Kind} {k : Kind} (h : TopK (l ++ [k])) : place l k l.length false = .at l.length := by
  have hb := (topK_snoc h).2
  unfold place
  split
  · rename_i hk; subst hk
    have hnil : l = [] := by
      cases l with
      | nil => rfl
      | cons a t => exact absurd (hb a (by simp)) (g_no_before_charset a)
    subst hnil
    simp [firstIs]
  · split
    · split
      · rename_i hc
        exfalso
        simp only [Bool.and_eq_true, decide_eq_true_eq] at hc
        exact firstIs_len0 hc
      · rfl
    · split
      · rename_i hk; subst hk
        simp only [Bool.false_eq_true, if_false]
        split
        · rename_i hc
          exfalso
          simp only [Bool.and_eq_true, decide_eq_true_eq] at hc
          exact firstIs_len0 hc
        · rw [List.take_length, hasKind_of_forall (fun x hx => g_imp_before x (hb x hx))]
          simp
      · split
        · rename_i hk; subst hk
          simp only [Bool.false_eq_true, if_false]
          rw [List.drop_length, List.take_length, hasKind_of_forall (fun x hx => g_ns_before x (hb x hx))]
          simp [hasKind]
        · split
          · rename_i hk; subst hk
            simp only [Bool.false_eq_true, if_false]
            rw [List.drop_length, List.take_length, hasKind_of_forall (fun x hx => g_vars_before x (hb x hx))]
            simp [hasKind]
          · simp only [Bool.false_eq_true, if_false]
            rw [List.drop_length]
            simp [hasKind]

/-! ## the ordering levels of the sheet dispatcher -/

/-- the level after one accepted statement and the white space behind it -/
def levelStep (lvl : Nat) (k : Kind) : Nat := max 1 (lvlNext lvl k)

def levelFrom (lvl : Nat) : List Kind → Nat
  | [] => lvl
  | k :: ks => levelFrom (levelStep lvl k) ks

/-- the highest level a later rule of kind `k` tolerates -/
def cap (k : Kind) : Nat := match Gen.lvlMax k with
  | some m => m
  | none => 3

theorem g_cap : ∀ x k, Before x k → k ≠ .charset → (∀ lvl, lvl ≤ cap k → levelStep lvl x ≤ cap k) ∧ 1 ≤ cap k := by
  intro x k
  cases x <;> cases k <;> intro hb hk <;>
    first
    | (exfalso; revert hb; decide)
    | (exfalso; exact hk rfl)
    | (refine ⟨?_, by decide⟩; intro lvl hl; simp only [levelStep, lvlNext, Gen.lvlAfter, cap, Gen.lvlMax] at *; omega)

theorem levelFrom_le {ks : List Kind} {k : Kind} (hk : k ≠ .charset) (hb : ∀ x ∈ ks, Before x k) :
    ∀ lvl, lvl ≤ cap k → levelFrom lvl ks ≤ cap k := by
  induction ks with
  | nil => intro lvl h; exact h
  | cons a t ih =>
    intro lvl h
    simp only [levelFrom]
    exact ih (fun x hx => hb x (by simp [hx])) _ ((g_cap a k (hb a (by simp)) hk).1 lvl h)

/-- the level reached after the rules before `k` never forbids `k` -/
theorem lvlOk_of_topK {ks : List Kind} {k : Kind} (h : TopK (ks ++ [k])) : lvlOk (levelFrom 0 ks) k = true := by
  have hb := (topK_snoc h).2
  by_cases hk : k = .charset
  · subst hk
    have hnil : ks = [] := by
      cases ks with
      | nil => rfl
      | cons a t => exact absurd (hb a (by simp)) (g_no_before_charset a)
    subst hnil
    decide
  · have := levelFrom_le hk hb 0 (Nat.zero_le _)
    unfold lvlOk
    unfold cap at this
    split
    · rename_i m hm
      rw [hm] at this
      simp only [Bool.not_eq_true', decide_eq_false_iff_not, Nat.not_lt]
      exact this
    · rfl

/-! ## dict and list bookkeeping -/

theorem levelFrom_snoc (lvl : Nat) (ks : List Kind) (k : Kind) :
    levelFrom lvl (ks ++ [k]) = levelStep (levelFrom lvl ks) k := by
  induction ks generalizing lvl with
  | nil => rfl
  | cons a t ih => simp only [List.cons_append, levelFrom]; exact ih _

theorem pyInsert_end (l : List Rule) (x : Rule) : pyInsert l l.length x = l ++ [x] := by
  simp [pyInsert]

theorem kindsOf_snoc (l : List Rule) (x : Rule) : kindsOf (l ++ [x]) = kindsOf l ++ [x.kind] := by
  simp [kindsOf]

theorem nsPairs_append (a b : List Rule) : nsPairs (a ++ b) = nsPairs a ++ nsPairs b := by
  simp [nsPairs]

theorem nsPairs_single_ns {x : Rule} (h : x.kind = .ns) : nsPairs [x] = [(x.pre, x.uri)] := by
  simp [nsPairs, h]

theorem nsPairs_single_other {x : Rule} (h : x.kind ≠ .ns) : nsPairs [x] = [] := by
  simp [nsPairs, h]

theorem dict_set_new {d : Dict} {k v : Cps} (h : d.hasKey k = false) : d.set k v = d ++ [(k, v)] := by
  simp [Dict.set, h]

theorem dict_hasValue_append (d : Dict) (k v u : Cps) :
    Dict.hasValue (d ++ [(k, v)]) u = (d.hasValue u || v == u) := by
  simp [Dict.hasValue]

theorem dict_hasKey_append (d : Dict) (k v k' : Cps) :
    Dict.hasKey (d ++ [(k, v)]) k' = (d.hasKey k' || k == k') := by
  simp [Dict.hasKey]

/-- appending through `insertRule` from the dispatcher: a @namespace rule with a new prefix -/
theorem pInsert_append_ns (p : PSt) (r : Rule) (hk : r.kind = .ns)
    (h : TopK (kindsOf p.acc ++ [r.kind])) (hkey : p.nd.hasKey r.pre = false) :
    pInsert false p r false = (p.acc ++ [r.adopt], .ok p.acc.length) := by
  unfold pInsert insertCore
  have hp : place (kindsOf p.acc) r.kind p.acc.length false = .at p.acc.length := by
    have := place_end h
    rwa [kindsOf_length] at this
  rw [hk] at hp
  simp only [hk, hp, if_true, hkey, Bool.false_and, Bool.false_eq_true, if_false, pyInsert_end]

/-- … and a rule of any other kind -/
theorem pInsert_append_other (p : PSt) (r : Rule) (cl : Bool) (hk : r.kind ≠ .ns)
    (h : TopK (kindsOf p.acc ++ [r.kind])) :
    pInsert false p r cl = (p.acc ++ [r.adopt], .ok p.acc.length) := by
  unfold pInsert insertCore
  have hp : place (kindsOf p.acc) r.kind p.acc.length false = .at p.acc.length := by
    have := place_end h
    rwa [kindsOf_length] at this
  simp only [hp, hk, if_false, pyInsert_end]

theorem adopt_shape (r : Rule) : r.adopt.shape = r.shape := by cases r; rfl
theorem adopt_pre (r : Rule) : r.adopt.pre = r.pre := rfl
theorem adopt_uri (r : Rule) : r.adopt.uri = r.uri := rfl

/-! ## the invariant of the top-level loop -/

/-- state of the dispatcher after the rules `done` of the serialised sheet were read -/
structure PInv (done : List Rule) (p : PSt) : Prop where
  shapes : Rule.shapes p.acc = Rule.shapes done
  kinds : kindsOf p.acc = kindsOf done
  pairs : nsPairs p.acc = nsPairs done
  level : p.level = levelFrom 0 (kindsOf done)
  vals : ∀ pu ∈ nsPairs done, p.nd.hasValue pu.2 = true
  keys : ∀ k, p.nd.hasKey k = true → k ∈ (nsPairs done).map (·.1)

theorem shapes_single (x : Rule) : Rule.shapes [x] = [x.shape] := by simp [Rule.shapes]

theorem pinv_snoc {done : List Rule} {p : PSt} (hinv : PInv done p) (r r' : Rule) (nd' : Dict) (nx : Nat)
    (hkind : r'.kind = r.kind) (hshape : r'.shape = r.shape)
    (hpu : r.kind = .ns → r'.pre = r.pre ∧ r'.uri = r.uri)
    (hvals : ∀ pu ∈ nsPairs (done ++ [r]), nd'.hasValue pu.2 = true)
    (hkeys : ∀ k, nd'.hasKey k = true → k ∈ (nsPairs (done ++ [r])).map (·.1)) :
    PInv (done ++ [r])
      { acc := p.acc ++ [r'.adopt], nd := nd', level := max 1 (lvlNext p.level r.kind), next := nx } := by
  refine ⟨?_, ?_, ?_, ?_, hvals, hkeys⟩
  · simp only [shapes_append, shapes_single, adopt_shape, hshape, hinv.shapes]
  · simp only [kindsOf_snoc, adopt_kind, hkind, hinv.kinds]
  · simp only [nsPairs_append, hinv.pairs]
    by_cases hns : r.kind = .ns
    · rw [nsPairs_single_ns (x := r'.adopt) (by simp [hkind, hns]), nsPairs_single_ns hns, adopt_pre, adopt_uri,
        (hpu hns).1, (hpu hns).2]
    · rw [nsPairs_single_other (x := r'.adopt) (by simp [hkind, hns]), nsPairs_single_other hns]
  · simp only [kindsOf_snoc, levelFrom_snoc, hinv.level, levelStep]

theorem nsPairs_snoc_other (done : List Rule) {r : Rule} (h : r.kind ≠ .ns) : nsPairs (done ++ [r]) = nsPairs done := by
  rw [nsPairs_append, nsPairs_single_other h, List.append_nil]

theorem nsPairs_snoc_ns (done : List Rule) {r : Rule} (h : r.kind = .ns) :
    nsPairs (done ++ [r]) = nsPairs done ++ [(r.pre, r.uri)] := by
  rw [nsPairs_append, nsPairs_single_ns h]

theorem parseOne_ins {p : PSt} {s : Spec} {r' : Rule} {nx : Nat} {nd' : Dict} {cl : Bool}
    (hact : actOf false p s = .ins r' nx nd' cl)
    (hins : pInsert false p r' cl = (p.acc ++ [r'.adopt], .ok p.acc.length)) :
    parseOne false p s =
      .ok { acc := p.acc ++ [r'.adopt], nd := nd', level := lvlNext p.level s.kind, next := nx } := by
  unfold parseOne
  rw [hact]
  simp only [hins]

/-- one rule of the serialised sheet: accepted and appended -/
theorem parseOne_step (uris : List Cps) (done : List Rule) (r : Rule) (p : PSt)
    (hinv : PInv done p) (htop : TopK (kindsOf done ++ [r.kind]))
    (hk : r.kidsOK = true) (hr : r.roundTrips uris = true)
    (hfresh : r.kind = .ns → r.pre ∉ (nsPairs done).map (·.1))
    (hdecl : (r.kind = .style ∨ r.kind = .media) → ∀ u, uris.contains u = true → p.nd.hasValue u = true) :
    ∃ q, parseOne false p r.toSpec = .ok q ∧ PInv (done ++ [r]) { q with level := max 1 q.level } := by
  have hlvl : lvlOk p.level r.kind = true := by rw [hinv.level]; exact lvlOk_of_topK htop
  have htopacc : TopK (kindsOf p.acc ++ [r.kind]) := by rw [hinv.kinds]; exact htop
  -- common end: the callback built `r'`, `insertRule` appended it
  have hfin : ∀ (r' : Rule) (nx : Nat) (nd' : Dict) (cl : Bool),
      actOf false p r.toSpec = .ins r' nx nd' cl →
      pInsert false p r' cl = (p.acc ++ [r'.adopt], .ok p.acc.length) →
      r'.kind = r.kind → r'.shape = r.shape → (r.kind = .ns → r'.pre = r.pre ∧ r'.uri = r.uri) →
      (∀ pu ∈ nsPairs (done ++ [r]), nd'.hasValue pu.2 = true) →
      (∀ k, nd'.hasKey k = true → k ∈ (nsPairs (done ++ [r])).map (·.1)) →
      ∃ q, parseOne false p r.toSpec = .ok q ∧ PInv (done ++ [r]) { q with level := max 1 q.level } := by
    intro r' nx nd' cl hact hins h1 h2 h3 h5 h6
    refine ⟨_, parseOne_ins hact hins, ?_⟩
    have := pinv_snoc hinv r r' nd' nx h1 h2 h3 h5 h6
    simpa [toSpec_kind] using this
  have hsame_vals : r.kind ≠ .ns → ∀ pu ∈ nsPairs (done ++ [r]), p.nd.hasValue pu.2 = true := by
    intro h; rw [nsPairs_snoc_other done h]; exact hinv.vals
  have hsame_keys : r.kind ≠ .ns → ∀ k, p.nd.hasKey k = true → k ∈ (nsPairs (done ++ [r])).map (·.1) := by
    intro h; rw [nsPairs_snoc_other done h]; exact hinv.keys
  obtain ⟨i, k, pre, uri, enc, used, pss, prule, kids⟩ := r
  have hleaf : k ≠ .media → k ≠ .page → kids = [] := fun hm hp => kidsOK_leaf hk hm hp
  simp only [Rule.roundTrips, Bool.and_eq_true] at hr
  -- rules whose description is copied as it is (no children, no test besides the level)
  have hplain : k ≠ .ns → k ≠ .style → k ≠ .media → k ≠ .page →
      ∃ q, parseOne false p (Rule.toSpec ⟨i, k, pre, uri, enc, used, pss, prule, kids⟩) = .ok q ∧
        PInv (done ++ [⟨i, k, pre, uri, enc, used, pss, prule, kids⟩]) { q with level := max 1 q.level } := by
    intro h1 h2 h3 h4
    have := hleaf h3 h4; subst this
    refine hfin ⟨p.next, k, pre, uri, enc, used, false, none, []⟩ (p.next + 1) p.nd true ?_
      (pInsert_append_other p _ true h1 htopacc) rfl (by simp [Rule.shape]) (fun _ => ⟨rfl, rfl⟩)
      (hsame_vals h1) (hsame_keys h1)
    simp only [actOf, Rule.toSpec, Rule.toSpecs]
    simp only [hlvl, Bool.not_true, Bool.false_eq_true, if_false, h1, h2, h3, h4]
  cases k with
  | unknown => exact hplain (by decide) (by decide) (by decide) (by decide)
  | charset => exact hplain (by decide) (by decide) (by decide) (by decide)
  | imp => exact hplain (by decide) (by decide) (by decide) (by decide)
  | fontface => exact hplain (by decide) (by decide) (by decide) (by decide)
  | comment => exact hplain (by decide) (by decide) (by decide) (by decide)
  | vars => exact hplain (by decide) (by decide) (by decide) (by decide)
  | margin => exact hplain (by decide) (by decide) (by decide) (by decide)
  | style =>
    have := hleaf (by decide) (by decide); subst this
    have hu : usesDeclared p.nd used = true := usesDeclared_of (hdecl (Or.inl rfl)) (by simpa using hr.1.1.1)
    refine hfin ⟨p.next, .style, [], [], [], used, false, none, []⟩ (p.next + 1) p.nd true ?_
      (pInsert_append_other p _ true (by simp) htopacc) rfl (by simp [Rule.shape]) (fun h => by simp at h)
      (hsame_vals (by simp)) (hsame_keys (by simp))
    simp only [actOf, Rule.toSpec, Rule.toSpecs]
    simp only [hlvl, Bool.not_true, Bool.false_eq_true, if_false, hu, if_true, reduceCtorEq]
  | ns =>
    have := hleaf (by decide) (by decide); subst this
    have hwf : (Rule.toSpec ⟨i, .ns, pre, uri, enc, used, pss, prule, []⟩).wellformed = true := by
      simp only [Rule.toSpec, Spec.wellformed, if_true]
      simpa using hr.1.2
    have hkey : p.nd.hasKey pre = false := by
      cases hc : p.nd.hasKey pre with
      | false => rfl
      | true => exact absurd (hinv.keys pre hc) (hfresh rfl)
    refine hfin ⟨p.next, .ns, pre, uri, [], [], false, none, []⟩ (p.next + 1) (p.nd.set pre uri) false ?_
      (pInsert_append_ns p _ rfl htopacc hkey) rfl (by simp [Rule.shape]) (fun _ => ⟨rfl, rfl⟩) ?_ ?_
    · simp only [actOf, toSpec_kind, toSpec_pre, toSpec_uri]
      simp only [hlvl, hwf, hkey, Bool.not_true, Bool.false_eq_true, if_false, if_true, Bool.not_false]
    · rw [nsPairs_snoc_ns done rfl, dict_set_new hkey]
      intro pu hpu
      rw [dict_hasValue_append]
      rcases List.mem_append.mp hpu with h | h
      · simp [hinv.vals pu h]
      · have : pu = (pre, uri) := by simpa using h
        simp [this]
    · rw [nsPairs_snoc_ns done rfl, dict_set_new hkey]
      intro k' hk'
      rw [dict_hasKey_append] at hk'
      simp only [Bool.or_eq_true, beq_iff_eq] at hk'
      rw [List.map_append, List.mem_append]
      rcases hk' with h | h
      · exact Or.inl (hinv.keys k' h)
      · exact Or.inr (by simp [h])
  | media =>
    simp only [Rule.kidsOK] at hk
    obtain ⟨ks, hks, hsh⟩ := parseMediaKids_roundtrip uris p.nd (hdecl (Or.inr rfl)) p.next (p.next + 1) kids hk hr.2
    refine hfin ⟨p.next, .media, [], [], [], [], false, none, ks.1⟩ ks.2 p.nd true ?_
      (pInsert_append_other p _ true (by simp) htopacc) rfl (by simp [Rule.shape, hsh]) (fun h => by simp at h)
      (hsame_vals (by simp)) (hsame_keys (by simp))
    simp only [actOf, Rule.toSpec]
    simp only [hlvl, Bool.not_true, Bool.false_eq_true, if_false, hks, if_true, reduceCtorEq]
  | page =>
    simp only [Rule.kidsOK] at hk
    obtain ⟨ks, hks, hsh⟩ := parsePageKids_roundtrip p.next (p.next + 1) kids hk (by simpa using hr.1.1.2)
    refine hfin ⟨p.next, .page, [], [], [], [], false, none, ks.1⟩ ks.2 p.nd true ?_
      (pInsert_append_other p _ true (by simp) htopacc) rfl (by simp [Rule.shape, hsh]) (fun h => by simp at h)
      (hsame_vals (by simp)) (hsame_keys (by simp))
    simp only [actOf, Rule.toSpec]
    simp only [hlvl, Bool.not_true, Bool.false_eq_true, if_false, hks, if_true, reduceCtorEq]

/-! ## the whole text -/

theorem g_rank4_before_ns : ∀ k : Kind, (k = .style ∨ k = .media) → ¬ Before k .ns := by
  intro k hk; rcases hk with rfl | rfl <;> decide

theorem mem_nsPairs {l : List Rule} {x : Rule} (hx : x ∈ l) (hk : x.kind = .ns) : (x.pre, x.uri) ∈ nsPairs l := by
  unfold nsPairs
  exact List.mem_map.mpr ⟨x, List.mem_filter.mpr ⟨hx, by simpa using hk⟩, rfl⟩

theorem parseTop_all (uris : List Cps) (l : List Rule) (htop : TopOK l)
    (hk : ∀ r ∈ l, r.kidsOK = true) (hr : ∀ r ∈ l, r.roundTrips uris = true) (hns : NsClean l)
    (huris : ∀ u, uris.contains u = true → ∃ x ∈ l, x.kind = .ns ∧ x.uri = u) :
    ∀ (todo done : List Rule) (p : PSt), l = done ++ todo → PInv done p →
      ∃ q, parseTop false p (Rule.toSpecs todo) = .ok q ∧ PInv l q := by
  intro todo
  induction todo with
  | nil =>
    intro done p hl hinv
    refine ⟨p, by simp [Rule.toSpecs, parseTop], ?_⟩
    rw [hl, List.append_nil]; exact hinv
  | cons r rest ih =>
    intro done p hl hinv
    have hrl : r ∈ l := by rw [hl]; simp
    have hpre : TopK (kindsOf done ++ [r.kind]) := by
      have : (kindsOf done ++ [r.kind]).Sublist (kindsOf l) := by
        rw [hl]
        simp only [kindsOf, List.map_append, List.map_cons]
        exact List.Sublist.append_left (List.Sublist.cons_cons _ (List.nil_sublist _)) _
      exact topK_sublist htop this
    have hfresh : r.kind = .ns → r.pre ∉ (nsPairs done).map (·.1) := by
      intro hkind hmem
      have h1 := hns.1
      rw [hl, nsPairs_append, show r :: rest = [r] ++ rest from rfl, nsPairs_append, nsPairs_single_ns hkind] at h1
      simp only [List.map_append, List.map_cons, List.map_nil] at h1
      rw [List.nodup_append] at h1
      exact h1.2.2 _ hmem _ (by simp) rfl
    have hdecl : (r.kind = .style ∨ r.kind = .media) → ∀ u, uris.contains u = true → p.nd.hasValue u = true := by
      intro hkind u hu
      obtain ⟨x, hx, hxk, hxu⟩ := huris u hu
      rw [hl] at hx
      rcases List.mem_append.mp hx with hx | hx
      · rw [← hxu]; exact hinv.vals (x.pre, x.uri) (mem_nsPairs hx hxk)
      · exfalso
        rcases List.mem_cons.mp hx with hx | hx
        · rw [hx] at hxk; rcases hkind with h | h <;> rw [h] at hxk <;> cases hxk
        · -- a @namespace rule after a style / @media rule contradicts the order
          have ht : TopK (kindsOf l) := htop
          rw [hl] at ht
          simp only [kindsOf, List.map_append, List.map_cons] at ht
          unfold TopK at ht
          rw [List.pairwise_append, List.pairwise_cons] at ht
          have := ht.2.1.1 x.kind (List.mem_map.mpr ⟨x, hx, rfl⟩)
          rw [hxk] at this
          exact g_rank4_before_ns r.kind hkind this
    obtain ⟨q, hq, hqinv⟩ := parseOne_step uris done r p hinv hpre (hk r hrl) (hr r hrl) hfresh hdecl
    obtain ⟨q', hq', hq'inv⟩ := ih (done ++ [r]) { q with level := max 1 q.level } (by rw [hl]; simp) hqinv
    refine ⟨q', ?_, hq'inv⟩
    simp only [Rule.toSpecs, parseTop, hq]
    exact hq'

/-! ## the final clean-up removes nothing -/

theorem uniqueByUri_all (l : List Rule) (seen : List Cps) (hd : (l.map (·.uri)).Nodup)
    (hs : ∀ x ∈ l, x.uri ∉ seen) : uniqueByUri l seen = l := by
  induction l generalizing seen with
  | nil => rfl
  | cons r rs ih =>
    rw [List.map_cons, List.nodup_cons] at hd
    have hr := hs r (by simp)
    simp only [uniqueByUri, List.contains_eq_mem, decide_eq_true_eq, hr, if_false]
    rw [ih (r.uri :: seen) hd.2]
    intro x hx hmem
    rcases List.mem_cons.mp hmem with h | h
    · exact hd.1 (List.mem_map.mpr ⟨x, hx, h⟩)
    · exact hs x (by simp [hx]) h

theorem foldl_set_fresh (l : List Rule) (d : Dict) (hd : (l.map (·.pre)).Nodup)
    (hk : ∀ x ∈ l, d.hasKey x.pre = false) :
    l.foldl (fun d r => d.set r.pre r.uri) d = d ++ l.map (fun r => (r.pre, r.uri)) := by
  induction l generalizing d with
  | nil => simp
  | cons r rs ih =>
    rw [List.map_cons, List.nodup_cons] at hd
    simp only [List.foldl_cons, List.map_cons]
    rw [dict_set_new (hk r (by simp)), ih _ hd.2]
    · simp
    · intro x hx
      rw [dict_hasKey_append, hk x (by simp [hx])]
      simp only [Bool.false_or, beq_eq_false_iff_ne, ne_eq]
      intro heq
      exact hd.1 (List.mem_map.mpr ⟨x, hx, heq.symm⟩)

theorem nodup_reverse' {α} {l : List α} (h : l.Nodup) : l.reverse.Nodup := by
  unfold List.Nodup at *
  rw [List.pairwise_reverse]
  exact h.imp (fun hab => fun heq => hab heq.symm)

theorem nsDict_hasItem {l : List Rule} (hns : NsClean l) {x : Rule} (hx : x ∈ l) (hk : x.kind = .ns) :
    (nsDict l).hasItem x.pre x.uri = true := by
  unfold nsDict
  have hp1 : ((l.reverse.filter (fun r => decide (r.kind = .ns))).map (·.pre)).Nodup := by
    have := hns.1
    unfold nsPairs at this
    rw [List.map_map] at this
    rw [List.filter_reverse, List.map_reverse]
    exact nodup_reverse' this
  have hp2 : ((l.reverse.filter (fun r => decide (r.kind = .ns))).map (·.uri)).Nodup := by
    have := hns.2
    unfold nsPairs at this
    rw [List.map_map] at this
    rw [List.filter_reverse, List.map_reverse]
    exact nodup_reverse' this
  rw [uniqueByUri_all _ [] hp2 (by intro _ _ h; cases h), foldl_set_fresh _ [] hp1 (by intro _ _; rfl)]
  simp only [List.nil_append, Dict.hasItem, List.any_map, List.any_eq_true, Function.comp]
  exact ⟨x, List.mem_filter.mpr ⟨List.mem_reverse.mpr hx, by simpa using hk⟩, by simp⟩

theorem cleanLoop_none (items : Dict) (done todo removed : List Rule)
    (h : ∀ x ∈ todo, x.kind = .ns → items.hasItem x.pre x.uri = true) :
    cleanLoop items done todo removed = (done ++ todo, removed, none) := by
  induction todo generalizing done with
  | nil => simp [cleanLoop]
  | cons r rest ih =>
    unfold cleanLoop
    have : (decide (r.kind = .ns) && !items.hasItem r.pre r.uri) = false := by
      by_cases hk : r.kind = .ns
      · simp [h r (by simp) hk]
      · simp [hk]
    rw [this]
    simp only [Bool.false_eq_true, if_false]
    rw [ih (done ++ [r]) (fun x hx => h x (by simp [hx]))]
    simp

theorem cleanNamespaces_clean {l : List Rule} (hns : NsClean l) : cleanNamespaces l = (l, [], none) := by
  unfold cleanNamespaces
  rw [cleanLoop_none _ [] l [] (fun x hx hk => nsDict_hasItem hns hx hk)]
  simp

theorem pinv_empty (n : Nat) : PInv [] { acc := [], nd := [], level := 0, next := n } := by
  refine ⟨rfl, rfl, rfl, rfl, ?_, ?_⟩
  · intro pu h; simp [nsPairs] at h
  · intro k h; simp [Dict.hasKey] at h

theorem mem_nsUris {l : List Rule} {u : Cps} (h : (nsUris l).contains u = true) :
    ∃ x ∈ l, x.kind = .ns ∧ x.uri = u := by
  unfold nsUris at h
  simp only [List.contains_eq_mem, List.mem_map, List.mem_filter, decide_eq_true_eq] at h
  obtain ⟨x, ⟨hx, hk⟩, hu⟩ := h
  exact ⟨x, hx, hk, hu⟩

/-- parsing the serialisation of the list gives back the same tree of kinds (and the same @namespace pairs) -/
theorem reparse_rules (st : St) (htop : TopOK st.rules) (hk : ∀ r ∈ st.rules, r.kidsOK = true)
    (hns : NsClean st.rules) (hrt : ∀ r ∈ st.rules, r.roundTrips (nsUris st.rules) = true) :
    Rule.shapes (reparse st).rules = Rule.shapes st.rules ∧ kindsOf (reparse st).rules = kindsOf st.rules := by
  obtain ⟨q, hq, hinv⟩ := parseTop_all (nsUris st.rules) st.rules htop hk hrt hns (fun u hu => mem_nsUris hu)
    st.rules [] { acc := [], nd := [], level := 0, next := st.next } rfl (pinv_empty st.next)
  have hclean : NsClean q.acc := by
    unfold NsClean; rw [hinv.pairs]; exact hns
  unfold reparse setText
  simp only [hq, cleanNamespaces_clean hclean]
  exact ⟨hinv.shapes, hinv.kinds⟩

/-! ## the returned index -/

theorem afterLastOf_le (ks : List Kind) (l : List Kind) : afterLastOf ks l ≤ l.length := by
  induction l with
  | nil => simp [afterLastOf]
  | cons a t ih =>
    simp only [afterLastOf, List.length_cons]
    split
    · omega
    · split <;> omega

theorem firstIdx_lt {ks : List Kind} {l : List Kind} {j : Nat} (h : firstIdx ks l = some j) : j < l.length := by
  obtain ⟨a, e, b, hl, ha, _, _⟩ := firstIdx_some h
  rw [hl, ← ha]; simp

theorem place_at_le {l : List Kind} {k : Kind} {idx : Nat} {io : Bool} {i : Nat}
    (h : place l k idx io = .at i) (hidx : idx ≤ l.length) : i ≤ l.length := by
  unfold place at h
  try dsimp only at h
  repeat' split at h
  all_goals first
    | (injection h with h; subst h
       first
         | exact hidx
         | exact Nat.zero_le _
         | exact Nat.le_refl _
         | exact afterLastOf_le _ _
         | (rename_i hj; have := firstIdx_lt hj; simp only [List.length_drop] at this; omega)
         | (rename_i hj; exact Nat.le_of_lt (firstIdx_lt hj))
         | (rename_i hf; cases l with
            | nil => simp [firstIs] at hf
            | cons a t => simp))
    | cases h

theorem pyInsert_getElem (l : List Rule) (i : Nat) (x : Rule) (h : i ≤ l.length) : (pyInsert l i x)[i]? = some x := by
  unfold pyInsert
  rw [List.getElem?_append_right (by simp [List.length_take, Nat.min_eq_left h])]
  simp [List.length_take, Nat.min_eq_left h]

theorem pyInsert_length (l : List Rule) (i : Nat) (x : Rule) : (pyInsert l i x).length = l.length + 1 := by
  unfold pyInsert
  simp only [List.length_append, List.length_cons, List.length_take, List.length_drop]
  omega

theorem setEnc0_length (e : Cps) (l : List Rule) : (setEnc0 e l).length = l.length := by
  cases l <;> simp [setEnc0]

theorem adoptId_getElem (i : Nat) (l : List Rule) (n : Nat) (x : Rule) (h : l[n]? = some x) (hid : x.id = i) :
    (adoptId i l)[n]? = some x.adopt := by
  unfold adoptId
  rw [List.getElem?_map, h]
  simp [hid]

/-- an accepted insert returns the index at which the new rule stands (except for the @charset rule that is merged
into the existing one: index 0 is that rule) -/
theorem insertCore_index (st : St) (dict : Dict) (r : Rule) (idx : Nat) (inOrder clean track : Bool) (n : Nat)
    (hidx : idx ≤ st.rules.length) (hfresh : ∀ x ∈ st.rules, x.id ≠ r.id)
    (hnm : place (kindsOf st.rules) r.kind idx inOrder ≠ .mergeCharset)
    (hok : (insertCore st dict r idx inOrder clean track).2 = .ok n) :
    (insertCore st dict r idx inOrder clean track).1.rules[n]? = some r.adopt := by
  unfold insertCore at hok ⊢
  split
  · rename_i e he
    simp only [he] at hok
    unfold logError at hok; split at hok <;> cases hok
  · rename_i he; exact absurd he hnm
  · rename_i i hp
    have hi : i ≤ st.rules.length := by
      have := place_at_le hp (by simpa using hidx)
      simpa using this
    simp only [hp] at hok
    split
    · rename_i hns
      simp only [hns, if_true] at hok
      split
      · rename_i hdup
        simp only [hdup, if_true] at hok
        cases hok
      · rename_i hdup
        simp only [hdup] at hok
        split
        · rename_i hcl
          simp only [hcl, if_true] at hok
          dsimp only at hok ⊢
          have hsub := cleanNamespaces_sublist (pyInsert st.rules i r)
          split
          · rename_i e he
            simp only [he] at hok; cases hok
          · rename_i he
            simp only [he] at hok
            split
            · rename_i hany
              simp only [hany, if_true] at hok
              injection hok with hok; subst hok
              show (adoptId r.id (cleanNamespaces (pyInsert st.rules i r)).1)[
                List.findIdx (fun x => decide (x.id = r.id)) (cleanNamespaces (pyInsert st.rules i r)).1]? = some r.adopt
              have hex : ∃ x ∈ (cleanNamespaces (pyInsert st.rules i r)).1, decide (x.id = r.id) = true := by
                simpa [List.any_eq_true] using hany
              have hlt := List.findIdx_lt_length_of_exists hex
              have hp' := List.findIdx_getElem (w := hlt)
              have hmem := List.getElem_mem hlt
              have hy : (cleanNamespaces (pyInsert st.rules i r)).1[
                  List.findIdx (fun x => decide (x.id = r.id)) (cleanNamespaces (pyInsert st.rules i r)).1] = r := by
                rcases mem_pyInsert (hsub.subset hmem) with h | h
                · exact h
                · exact absurd (by simpa using hp') (hfresh _ h)
              apply adoptId_getElem _ _ _ r _ rfl
              rw [List.getElem?_eq_getElem hlt, hy]
            · rename_i hany
              simp only [hany] at hok
              cases hok
        · rename_i hcl
          simp only [hcl] at hok
          injection hok with hok; subst hok
          exact pyInsert_getElem _ _ _ hi
    · rename_i hns
      simp only [hns, if_false] at hok
      injection hok with hok; subst hok
      exact pyInsert_getElem _ _ _ hi

theorem idxOf_le {index : Option Int} {len idx : Nat} (h : idxOf index len = some idx) : idx ≤ len := by
  unfold idxOf at h
  split at h
  · injection h with h; omega
  · split at h
    · cases h
    · rename_i i hi
      injection h with h
      simp only [Bool.or_eq_true, decide_eq_true_eq, not_or, Int.not_lt] at hi
      omega

/-- `insertRule` in a state whose ids are below `next` -/
theorem insertRule_index (st : St) (s : Spec) (index : Option Int) (inOrder viaStr track : Bool) (n : Nat)
    (hids : ∀ x ∈ st.rules, x.id < st.next)
    (hnm : ¬ (inOrder = true ∧ s.kind = .charset ∧ firstIs [.charset] (kindsOf st.rules) = true))
    (hok : (insertRule st s index inOrder viaStr track).2 = .ok n) :
    ∃ x, (insertRule st s index inOrder viaStr track).1.rules[n]? = some x ∧
      x.kind = s.kind ∧ x.pss = true ∧ x.id = st.next := by
  unfold insertRule at hok ⊢
  dsimp only at hok ⊢
  cases hi : idxOf index st.rules.length with
  | none =>
    simp only [hi] at hok
    cases viaStr <;> simp at hok
  | some idx =>
    cases viaStr with
    | true =>
      simp only [hi, if_true] at hok ⊢
      cases hc : parseCand st.raising (nsDict st.rules) st.next s with
      | error e => simp only [hc] at hok; cases hok
      | ok oc =>
        cases oc with
        | none =>
          simp only [hc] at hok
          unfold logError at hok; split at hok <;> cases hok
        | some c =>
          simp only [hc] at hok ⊢
          have hcid := (parseCand_ok hc).2.2.1
          have := insertCore_index { rules := st.rules, gone := st.gone, next := c.2, raising := st.raising }
            (nsDict st.rules) c.1 idx inOrder true false n (idxOf_le hi)
            (fun x hx => by rw [hcid]; exact Nat.ne_of_lt (hids x hx))
            (by
              intro hm
              have := (mergesCharset_iff { rules := st.rules, gone := st.gone, next := c.2, raising := st.raising }
                c.1.kind idx inOrder).mp (by simp [mergesCharset, hm])
              rw [parseCand_kind hc] at this
              exact hnm ⟨this.2.1, this.1, this.2.2⟩) hok
          exact ⟨c.1.adopt, this, by rw [adopt_kind, parseCand_kind hc], rfl, hcid⟩
    | false =>
      simp only [hi, Bool.false_eq_true, if_false] at hok ⊢
      cases hwf : s.wellformed with
      | false =>
        simp only [hwf, Bool.not_false, if_true] at hok
        unfold logError at hok; split at hok <;> cases hok
      | true =>
        simp only [hwf, Bool.not_true, Bool.false_eq_true, if_false] at hok ⊢
        have := insertCore_index
          { rules := st.rules, gone := st.gone, next := (Spec.inst none st.next s).2, raising := st.raising }
          (nsDict st.rules) (Spec.inst none st.next s).1 idx inOrder true track n (idxOf_le hi)
          (fun x hx => by rw [inst_id]; exact Nat.ne_of_lt (hids x hx))
          (by
            intro hm
            have := (mergesCharset_iff
              { rules := st.rules, gone := st.gone, next := (Spec.inst none st.next s).2, raising := st.raising }
              (Spec.inst none st.next s).1.kind idx inOrder).mp (by simp [mergesCharset, hm])
            rw [inst_kind] at this
            exact hnm ⟨this.2.1, this.1, this.2.2⟩) hok
        exact ⟨(Spec.inst none st.next s).1.adopt, this, by rw [adopt_kind, inst_kind], rfl, inst_id none st.next s⟩

end CssVerif.SheetEdit
