import CssVerif.Lemmas.OutDeclLayout
/-!
# T6.2 for declaration blocks
-/
namespace CssVerif.Out
open CssVerif.Proto (Cps)

/-- both raise the same error, or both return related values -/
def ExRel {α β : Type} (R : α → β → Prop) : Except Err α → Except Err β → Prop
  | .ok a, .ok b => R a b
  | .error e, .error e' => e = e'
  | _, _ => False

theorem ExRel.of_map {x y : Except Err Cps} (e : x.map stripWs = y.map stripWs) :
    ExRel (fun a b => stripWs a = stripWs b) x y := by
  cases x <;> cases y <;> simp [Except.map] at e <;> simp [ExRel, e]

theorem ExRel.to_map {x y : Except Err Cps} (r : ExRel (fun a b => stripWs a = stripWs b) x y) :
    x.map stripWs = y.map stripWs := by
  cases x <;> cases y <;> simp [ExRel] at r <;> simp [Except.map, r]

theorem eq_dropLast_append_of_getLast? {α : Type} : ∀ (l : List α) (x : α), l.getLast? = some x → l = l.dropLast ++ [x]
  | [], _, h => by simp at h
  | [a], x, h => by simp at h; simp [h]
  | a :: b :: t, x, h => by
    have h' : (b :: t).getLast? = some x := by simpa [List.getLast?_cons_cons] using h
    have ih := eq_dropLast_append_of_getLast? (b :: t) x h'
    simp only [List.dropLast_cons₂, List.cons_append]
    rw [← ih]

theorem stripWs_cons_59 (s : Cps) : stripWs (59 :: s) = 59 :: stripWs s := by
  simp [stripWs, isWs]

/-- removing a trailing separator piece changes white space only -/
theorem stripWs_dropSep {sep : Cps} (hs : allWs sep = true) (l : List Cps) :
    stripWs (if l.getLast? == some sep then l.dropLast else l).flatten = stripWs l.flatten := by
  split
  · rename_i hl
    have hl' : l.getLast? = some sep := by simpa using hl
    have : l = l.dropLast ++ [sep] := eq_dropLast_append_of_getLast? l sep hl'
    conv => rhs; rw [this]
    simp [stripWs_append, stripWs_of_allWs hs]
  · rfl

def DItemOk (p q : Prefs) (lv lw : Nat) : DItem → Prop
  | .prop pr => pr.mq = false ∧ ObjOk p q lv lw pr.value
  | .urule r => r.keyworded = true
  | _ => True

def DItemsOk (p q : Prefs) (lv lw : Nat) (items : List DItem) : Prop := ∀ it ∈ items, DItemOk p q lv lw it

theorem declSeq_contentEq {p q : Prefs} (h : ContentEq p q) (items : List DItem) : declSeq p items = declSeq q items := by
  unfold declSeq; rw [h.keepAllProperties]

theorem declSeq_mem (p : Prefs) (items : List DItem) : ∀ it ∈ declSeq p items, it ∈ items := by
  intro it hit
  unfold declSeq at hit
  split at hit
  · exact hit
  · simp only [List.mem_map, List.mem_filter] at hit
    obtain ⟨a, ⟨ha, _⟩, rfl⟩ := hit
    rcases a with ⟨x, i⟩
    exact (List.mem_zipIdx ha).2.2 ▸ List.getElem_mem _

section
variable {p q : Prefs} (hp : WsPrefs p) (hq : WsPrefs q) (h : ContentEq p q)
include hp hq h

theorem declHere_layout (lv lw : Nat) {sep sep' : Cps} (hs : allWs sep = true) (hs' : allWs sep' = true) (om : Bool)
    (it : DItem) (hit : DItemOk p q lv lw it) :
    ExRel (fun a b => stripWs a.flatten = stripWs b.flatten) (declHere p lv sep om it) (declHere q lw sep' om it) := by
  cases it with
  | comment t =>
    simp only [declHere, pure, Except.pure, ExRel, h.keepComments, doComment_contentEq h]
    split <;> simp [stripWs_append, stripWs_of_allWs hs, stripWs_of_allWs hs']
  | prop pr =>
    obtain ⟨hmq, hok⟩ := hit
    have he : (doProperty p lv pr).isEmpty = (doProperty q lw pr).isEmpty := by
      rw [doProperty_isEmpty p lv pr hmq, doProperty_isEmpty q lw pr hmq, validOk_contentEq h]
    have hl := doProperty_layout hp hq h lv lw pr hmq hok
    simp only [declHere, pure, Except.pure, ExRel, he]
    split
    · split <;> simp [stripWs_append, stripWs_of_allWs hs, stripWs_of_allWs hs', hl, stripWs_cons_59]
    · rfl
  | urule r =>
    have hu := ExRel.of_map (doURule_layout hp hq h lv lw r)
    simp only [declHere]
    cases e1 : doURule p lv r <;> cases e2 : doURule q lw r <;> rw [e1, e2] at hu <;> simp only [ExRel] at hu
    · simp [ExRel]
    · rename_i t t'
      have he : t.isEmpty = t'.isEmpty :=
        isEmpty_eq_of_solid (doURule_solid hp lv r hit t e1) (doURule_solid hq lw r hit t' e2) hu
      simp only [pure, Except.pure, ExRel, he]
      split
      · simp [stripWs_append, stripWs_of_allWs hs, stripWs_of_allWs hs', hu]
      · rfl
  | other s =>
    simp [declHere, pure, Except.pure, ExRel, stripWs_append, stripWs_of_allWs hs, stripWs_of_allWs hs']

theorem declOut_layout (lv lw : Nat) {sep sep' : Cps} (hs : allWs sep = true) (hs' : allWs sep' = true) (ol : Bool) :
    ∀ items : List DItem, DItemsOk p q lv lw items →
      ExRel (fun a b => stripWs a.flatten = stripWs b.flatten)
        (declOut p lv sep ol items) (declOut q lw sep' ol items)
  | [], _ => by simp [declOut, ExRel, pure, Except.pure]
  | it :: rest, ok => by
    have ih := declOut_layout lv lw hs hs' ol rest (fun x hx => ok x (List.mem_cons_of_mem _ hx))
    have hh := declHere_layout hp hq h lv lw hs hs' (ol && rest.isEmpty) it (ok it List.mem_cons_self)
    simp only [declOut]
    revert hh ih
    generalize declHere p lv sep (ol && rest.isEmpty) it = A
    generalize declHere q lw sep' (ol && rest.isEmpty) it = B
    generalize declOut p lv sep ol rest = C
    generalize declOut q lw sep' ol rest = D
    intro ih hh
    cases A <;> cases B <;> simp only [ExRel] at hh
    · simp [ExRel, hh]
    · cases C <;> cases D <;> simp only [ExRel] at ih
      · simp [ExRel, ih]
      · simp [pure, Except.pure, ExRel, stripWs_append, hh, ih]

theorem doDecl_layout (lv lw : Nat) (items : List DItem) (ok : DItemsOk p q lv lw items) (om : Bool) :
    ExRel (fun a b => stripWs a = stripWs b) (doDecl p lv items om) (doDecl q lw items om) := by
  unfold doDecl
  split
  · simp [ExRel, pure, Except.pure]
  · have ok' : DItemsOk p q lv lw (declSeq p items) := fun it hit => ok it (declSeq_mem p items it hit)
    have r := declOut_layout hp hq h lv lw hp.lineSeparator hq.lineSeparator (om && p.omitLastSemicolon)
      (declSeq p items) ok'
    rw [← declSeq_contentEq h, ← h.omitLastSemicolon]
    revert r
    generalize declOut p lv p.lineSeparator (om && p.omitLastSemicolon) (declSeq p items) = A
    generalize declOut q lw q.lineSeparator (om && p.omitLastSemicolon) (declSeq p items) = B
    intro r
    cases A <;> cases B <;> simp only [ExRel] at r
    · simp [declFinish, ExRel, r]
    · simp only [declFinish, ExRel, pure, Except.pure]
      rw [stripWs_dropSep hp.lineSeparator, stripWs_dropSep hq.lineSeparator, r]

end

end CssVerif.Out
