import CssVerif.Lemmas.Sel
import CssVerif.Lemmas.SelEval
/-!
# Symbolic execution of the selector state machine on written selectors (`Model/SelSpec.lean`)

Every lemma has the form `run ns ⟨…state…⟩ (tokens of a piece) = .ok ⟨…state…⟩` with fully explicit states,
so that pieces chain by rewriting.
-/
namespace CssVerif.Sel
open CssVerif.Gen.C16 CssVerif.Proto

@[simp] theorem run_nil (ns : NsMap) (st : St) : run ns st [] = .ok st := rfl

theorem run_cons (ns : NsMap) (st : St) (t : Tok) (ts : List Tok) :
    run ns st (t :: ts) = (step ns st t >>= fun st' => run ns st' ts) := rfl

theorem run_cons_ok {ns : NsMap} {st st' : St} {t : Tok} (ts : List Tok) (h : step ns st t = .ok st') :
    run ns st (t :: ts) = run ns st' ts := by
  simp [run_cons, h, bind, Except.bind]

theorem run_append_ok {ns : NsMap} {st st' : St} {l1 : List Tok} (l2 : List Tok) (h : run ns st l1 = .ok st') :
    run ns st (l1 ++ l2) = run ns st' l2 := by
  simp [run_append, h, bind, Except.bind]

/-! ## `append` -/

/-- an item type that is neither `_PREFIX` nor `universal` nor `*-selector`, with no prefix pending -/
theorem append_plain (ns : NsMap) (c : Cps) (r : List Cps) (el : Option Val) (b cc d : Nat) (wf : Bool)
    (rs : List Item) (e : Cps) (v : Val) (typ : Cps)
    (h1 : (typ == tyPREFIX) = false) (h2 : (typ == tyUniversal) = false) (h3 : endsWith typ sfxSelector = false)
    (h4 : (typ == tyTypeSel) = false) (h5 : (typ == tyCOMMENT) = false) :
    append ns ⟨c :: r, el, none, b, cc, d, wf, rs, e⟩ v typ
      = .ok ⟨c :: r, el, none, b + incB c typ, cc + incC c typ v, d + incD c typ v, wf, ⟨v, typ⟩ :: rs, e⟩ := by
  cases v <;>
    simp [append, top, h1, h2, h3, h4, h5, takePrefix, needsNs, pushItem, bind, Except.bind, pure, Except.pure]

/-- a `COMMENT` item (selector.py:108-111): appended, nothing counted, a saved prefix stays -/
theorem append_comment (ns : NsMap) (c : Cps) (r : List Cps) (el : Option Val) (pfx : Option Cps) (b cc d : Nat)
    (wf : Bool) (rs : List Item) (e : Cps) (v : Val) :
    append ns ⟨c :: r, el, pfx, b, cc, d, wf, rs, e⟩ v tyCOMMENT
      = .ok ⟨c :: r, el, pfx, b, cc, d, wf, ⟨v, tyCOMMENT⟩ :: rs, e⟩ := by
  simp [append, top, bind, Except.bind, pure, Except.pure]

theorem incB_not (c typ : Cps) (h : (typ == tyId) = false) : incB c typ = 0 := by simp [incB, h]
theorem incC_not (c typ : Cps) (v : Val) (h : (typ == tyClass) = false) (hv : v.isStr [91] = false) :
    incC c typ v = 0 := by simp [incC, h, hv]
theorem incD_not (c typ : Cps) (v : Val) (h : elemOf typ dTypes = false) : incD c typ v = 0 := by
  unfold incD; rw [h]; simp
theorem inc_off (c typ : Cps) (v : Val) (h : countsIn c = false) :
    incB c typ = 0 ∧ incC c typ v = 0 ∧ incD c typ v = 0 := by
  unfold incB incC incD; rw [h]; simp

@[simp] theorem isStr_comment (s x : Cps) : (Val.comment s).isStr x = false := rfl
@[simp] theorem isStr_ns (u : Uri) (n x : Cps) : (Val.ns u n).isStr x = false := rfl
@[simp] theorem isStr_str (s x : Cps) : (Val.str s).isStr x = (s == x) := rfl


/-! ## string facts -/

@[simp] theorem pseudoElement_name : TT.pseudoElement.name = tyPseudoElement := rfl

theorem unescNameGo_false_cons_colon (t : Cps) : unescNameGo false (58 :: t) = 58 :: unescNameGo false t := by
  simp [unescNameGo]

theorem normalizeName_cons_colon (t : Cps) : normalizeName (58 :: t) = 58 :: normalizeName t := by
  simp [normalizeName, unescNameGo_false_cons_colon, lower, lowerCp]

theorem normalizeName_colons (two : Bool) (t : Cps) :
    normalizeName (colons two ++ t) = colons two ++ normalizeName t := by
  cases two <;> simp [colons, normalizeName_cons_colon]

theorem isNameCp_ne_bs {d : Nat} (h : isNameCp d = true) : (d == 92) = false := by
  cases hd : (d == 92) with
  | false => rfl
  | true =>
    have : d = 92 := by simpa using hd
    subst this; revert h; decide

theorem isNameCp_iff (d : Nat) :
    isNameCp d = true ↔ (103 ≤ d ∧ d ≤ 122) ∨ (71 ≤ d ∧ d ≤ 90) ∨ d = 95 ∨ 128 ≤ d := by
  simp [isNameCp, or_assoc]

theorem isNameCp_lower (d : Nat) : isNameCp (lowerCp d) = isNameCp d := by
  rw [Bool.eq_iff_iff, isNameCp_iff, isNameCp_iff]
  simp only [lowerCp, Bool.and_eq_true, decide_eq_true_eq]
  split <;> omega

theorem lowerCp_eq_bs (c : Nat) : (lowerCp c == 92) = (c == 92) := by
  rw [Bool.eq_iff_iff]
  simp only [lowerCp, Bool.and_eq_true, decide_eq_true_eq, beq_iff_eq]
  split <;> omega

/-- the scan commutes with ASCII lower-casing -/
theorem unescNameGo_lower (b : Bool) (l : Cps) : unescNameGo b (lower l) = lower (unescNameGo b l) := by
  induction l generalizing b with
  | nil => cases b <;> simp [lower, unescNameGo, lowerCp]
  | cons c t ih =>
    cases b with
    | false =>
      simp only [lower, List.map_cons, unescNameGo, lowerCp_eq_bs] at ih ⊢
      split
      · exact ih true
      · simp [ih false]
    | true =>
      simp only [lower, List.map_cons, unescNameGo, isNameCp_lower] at ih ⊢
      split
      · simp [ih false]
      · simp [ih false, lowerCp]

/-- a second scan changes nothing: what is left escaped stays escaped -/
theorem unescNameGo_idem (l : Cps) :
    unescNameGo false (unescNameGo false l) = unescNameGo false l ∧
    unescNameGo false (unescNameGo true l) = unescNameGo true l := by
  induction l with
  | nil => simp [unescNameGo]
  | cons c t ih =>
    constructor
    · simp only [unescNameGo]
      split
      · exact ih.2
      · rename_i h
        simp [unescNameGo, h, ih.1]
    · simp only [unescNameGo]
      split
      · rename_i h
        have := isNameCp_ne_bs h
        simp [unescNameGo, this, ih.1]
      · rename_i h
        simp [unescNameGo, h, ih.1]

theorem lowerCp_lowerCp (c : Nat) : lowerCp (lowerCp c) = lowerCp c := by
  simp only [lowerCp, Bool.and_eq_true, decide_eq_true_eq]
  split
  · split <;> omega
  · rfl

theorem lower_lower (l : Cps) : lower (lower l) = lower l := by
  simp only [lower, List.map_map]
  congr 1
  funext c
  exact lowerCp_lowerCp c

/-- **the stored pseudo name is a fixpoint of the normalisation**: writing it out and reading it back stores it again -/
theorem normalizeName_idem (x : Cps) : normalizeName (normalizeName x) = normalizeName x := by
  simp only [normalizeName]
  rw [unescNameGo_lower, (unescNameGo_idem x).1, lower_lower]

@[simp] theorem normalizeName_colons_ne_lbrack (two : Bool) (t : Cps) :
    (normalizeName (colons two ++ t) == [91]) = false := by
  cases two <;> simp [colons, normalizeName_cons_colon]

@[simp] theorem normalizeName_colon_ne_lbrack (t : Cps) : (normalizeName (58 :: t) == [91]) = false := by
  simp [normalizeName_cons_colon]

/-! ## fillers -/

theorem step_comment (ns : NsMap) (c : Cps) (r : List Cps) (el : Option Val) (b cc d : Nat) (wf : Bool)
    (rs : List Item) (e v : Cps) :
    step ns ⟨c :: r, el, none, b, cc, d, wf, rs, e⟩ ⟨.comment, v⟩
      = .ok ⟨c :: r, el, none, b, cc, d, wf, cmItem v :: rs, e⟩ := by
  simp [step, runCb, cbCOMMENT, append_comment, cmItem]

/-- white space that is ignored: inside `[ ]`, or where no combinator is expected -/
theorem step_ws_quiet (ns : NsMap) (c : Cps) (r : List Cps) (el : Option Val) (b cc d : Nat) (wf : Bool)
    (rs : List Item) (e v : Cps) (hp : isPseudoCtx c = false) (hq : c = cxAttrib ∨ isSub kwCombinator e = false) :
    step ns ⟨c :: r, el, none, b, cc, d, wf, rs, e⟩ ⟨.s, v⟩ = .ok ⟨c :: r, el, none, b, cc, d, wf, rs, e⟩ := by
  rcases hq with rfl | h <;>
    simp_all [step, runCb, cbS, top, has, bind, Except.bind, pure, Except.pure]

theorem run_fillQuiet (ns : NsMap) (c : Cps) (r : List Cps) (el : Option Val) (b cc d : Nat) (wf : Bool)
    (e : Cps) (hp : isPseudoCtx c = false) (hq : c = cxAttrib ∨ isSub kwCombinator e = false)
    (f : List Fill) (rs : List Item) :
    run ns ⟨c :: r, el, none, b, cc, d, wf, rs, e⟩ (f.map Fill.tok)
      = .ok ⟨c :: r, el, none, b, cc, d, wf, fillQuiet rs f, e⟩ := by
  induction f generalizing rs with
  | nil => simp [fillQuiet]
  | cons x t ih =>
    cases x with
    | ws v =>
      simp only [List.map_cons, Fill.tok, fillQuiet]
      rw [run_cons_ok _ (step_ws_quiet ns c r el b cc d wf rs e v hp hq)]
      exact ih rs
    | cm v =>
      simp only [List.map_cons, Fill.tok, fillQuiet]
      rw [run_cons_ok _ (step_comment ns c r el b cc d wf rs e v)]
      exact ih _

/-- white space where a combinator is expected, outside brackets: the descendant combinator -/
theorem step_ws_desc (ns : NsMap) (r : List Cps) (el : Option Val) (b cc d : Nat) (wf : Bool)
    (rs : List Item) (e v : Cps) (hq : isSub kwCombinator e = true) :
    step ns ⟨cxRoot :: r, el, none, b, cc, d, wf, rs, e⟩ ⟨.s, v⟩
      = .ok ⟨cxRoot :: r, el, none, b, cc, d, wf, descItem :: rs, eSSSC⟩ := by
  simp [step, runCb, cbS, top, has, hq, append_plain, incB, incC, incD, descItem, c_S, Functor.map, Except.map]

theorem run_fillDesc (ns : NsMap) (r : List Cps) (el : Option Val) (b cc d : Nat) (wf : Bool)
    (f : List Fill) (rs : List Item) (e : Cps) (hq : isSub kwCombinator e = true) :
    run ns ⟨cxRoot :: r, el, none, b, cc, d, wf, rs, e⟩ (f.map Fill.tok)
      = .ok ⟨cxRoot :: r, el, none, b, cc, d, wf, fillDesc rs f, if f.any Fill.isWs then eSSSC else e⟩ := by
  induction f generalizing rs e with
  | nil => simp [fillDesc]
  | cons x t ih =>
    cases x with
    | ws v =>
      simp only [List.map_cons, Fill.tok, fillDesc]
      rw [run_cons_ok _ (step_ws_desc ns r el b cc d wf rs e v hq)]
      rw [ih _ eSSSC (by simp)]
      simp [Fill.isWs]
    | cm v =>
      simp only [List.map_cons, Fill.tok, fillDesc]
      rw [run_cons_ok _ (step_comment ns cxRoot r el b cc d wf rs e v)]
      rw [ih _ e hq]
      simp [Fill.isWs]

theorem run_cmToks (ns : NsMap) (c : Cps) (r : List Cps) (el : Option Val) (b cc d : Nat) (wf : Bool)
    (e : Cps) (cs : List Cps) (rs : List Item) :
    run ns ⟨c :: r, el, none, b, cc, d, wf, rs, e⟩ (cmToks cs)
      = .ok ⟨c :: r, el, none, b, cc, d, wf, cmPush rs cs, e⟩ := by
  induction cs generalizing rs with
  | nil => simp [cmToks, cmPush]
  | cons v t ih =>
    simp only [cmToks, List.map_cons, cmPush]
    rw [run_cons_ok _ (step_comment ns c r el b cc d wf rs e v)]
    exact ih _


/-! ## root / negation context -/

def ctxOf (neg : Bool) : Cps := if neg then cxNegation else cxRoot
/-- `expected` after a simple selector that is not a pseudo-element -/
def aft (neg : Bool) : Cps := if neg then c_negationend else eSSS2C
/-- `expected` where a simple selector may start -/
def BeforeOk (neg : Bool) (e : Cps) : Prop := if neg then e = c_negation_arg else (e = eSSS ∨ e = eSSSC ∨ e = eSSS2C)
/-- `expected` where a type selector may start -/
def HeadOk (neg : Bool) (e : Cps) : Prop := if neg then e = c_negation_arg else (e = eSSS ∨ e = eSSSC)

theorem HeadOk.before {neg : Bool} {e : Cps} (h : HeadOk neg e) : BeforeOk neg e := by
  cases neg <;> simp_all [HeadOk, BeforeOk]
  rcases h with h | h <;> simp [h]

theorem step_hash (ns : NsMap) (neg : Bool) (v : Cps) (r : List Cps) (el : Option Val) (b c d : Nat) (wf : Bool)
    (rs : List Item) (e : Cps) (he : BeforeOk neg e) :
    step ns ⟨ctxOf neg :: r, el, none, b, c, d, wf, rs, e⟩ ⟨.hash, v⟩
      = .ok ⟨ctxOf neg :: r, el, none, b + 1, c, d, wf, ⟨.str v, tyId⟩ :: rs, aft neg⟩ := by
  cases neg
  · rcases he with rfl | rfl | rfl <;>
      simp [step, runCb, cbHash, top, has, append_plain, incB, incC, incD, ctxOf, aft, Functor.map, Except.map]
  · cases he
    simp [step, runCb, cbHash, top, has, append_plain, incB, incC, incD, ctxOf, aft, Functor.map, Except.map]

theorem step_cls (ns : NsMap) (neg : Bool) (v : Cps) (r : List Cps) (el : Option Val) (b c d : Nat) (wf : Bool)
    (rs : List Item) (e : Cps) (he : BeforeOk neg e) :
    step ns ⟨ctxOf neg :: r, el, none, b, c, d, wf, rs, e⟩ ⟨.cls, v⟩
      = .ok ⟨ctxOf neg :: r, el, none, b, c + 1, d, wf, ⟨.str v, tyClass⟩ :: rs, aft neg⟩ := by
  cases neg
  · rcases he with rfl | rfl | rfl <;>
      simp [step, runCb, cbClass, top, has, append_plain, incB, incC, incD, ctxOf, aft, Functor.map, Except.map]
  · cases he
    simp [step, runCb, cbClass, top, has, append_plain, incB, incC, incD, ctxOf, aft, Functor.map, Except.map]

/-- `expected` after a non-functional pseudo -/
def aftPseudo (neg elem : Bool) : Cps := if neg then c_negationend else if elem then c_combinator else eSSS2C

theorem step_pseudo (ns : NsMap) (neg two : Bool) (n : Cps) (r : List Cps) (el : Option Val) (b c d : Nat) (wf : Bool)
    (rs : List Item) (e : Cps) (he : BeforeOk neg e) (hn : endsWith (normalizeName (colons two ++ n)) [40] = false) :
    step ns ⟨ctxOf neg :: r, el, none, b, c, d, wf, rs, e⟩ ⟨pseudoTT two, colons two ++ n⟩
      = .ok ⟨ctxOf neg :: r, el, none, b, c, d + (if pseudoIsElem two n then 1 else 0), wf,
             pseudoItem two n :: rs, aftPseudo neg (pseudoIsElem two n)⟩ := by
  cases hl : elemOf (normalizeName (colons two ++ n)) legacyPseudoElements <;> cases neg <;> cases two <;>
    first
    | (rcases he with rfl | rfl | rfl <;>
        simp [step, runCb, cbPseudo, top, has, append_plain, incB, incC, incD, ctxOf, aft, aftPseudo, pseudoTT,
          pseudoItem, pseudoIsElem, hl, hn, Functor.map, Except.map])
    | (cases he
       simp [step, runCb, cbPseudo, top, has, append_plain, incB, incC, incD, ctxOf, aft, aftPseudo, pseudoTT,
          pseudoItem, pseudoIsElem, hl, hn, Functor.map, Except.map])


/-! ## type selectors -/

theorem append_prefix (ns : NsMap) (c : Cps) (r : List Cps) (el : Option Val) (p0 : Option Cps) (b cc d : Nat)
    (wf : Bool) (rs : List Item) (e s : Cps) :
    append ns ⟨c :: r, el, p0, b, cc, d, wf, rs, e⟩ (.str s) tyPREFIX
      = .ok ⟨c :: r, el, some s.dropLast, b, cc, d, wf, rs, e⟩ := by
  simp [append, top, bind, Except.bind, pure, Except.pure]

/-- an element name (`type-selector` / `negation-type-selector`): becomes a `(namespaceURI, name)` pair -/
theorem append_sel (ns : NsMap) (c : Cps) (r : List Cps) (el : Option Val) (pfx : Option Cps) (b cc d : Nat)
    (wf : Bool) (rs : List Item) (e name typ : Cps) (u : Uri) (hu : resolveNs ns pfx = some u)
    (h1 : (typ == tyPREFIX) = false) (h2 : endsWith typ sfxSelector = true) (h3 : (typ == tyAttrSel) = false)
    (h4 : (typ == tyUniversal) = false) (h5 : (typ == tyCOMMENT) = false) :
    append ns ⟨c :: r, el, pfx, b, cc, d, wf, rs, e⟩ (.str name) typ
      = .ok ⟨c :: r, (if c.isEmpty && (typ == tyTypeSel || typ == tyUniversal) then some (.ns u name) else el), none,
             b + incB c typ, cc + incC c typ (.ns u name), d + incD c typ (.ns u name), wf, ⟨.ns u name, typ⟩ :: rs, e⟩ := by
  cases pfx <;>
    simp [append, top, h1, h2, h3, h4, h5, takePrefix, needsNs, pushItem, hu, bind, Except.bind, pure, Except.pure]

theorem splitOn_append (sep : Nat) (p q : Cps) (h : hasCp sep p = false) :
    splitOn sep (p ++ sep :: q) = p :: splitOn sep q := by
  induction p with
  | nil => simp [splitOn]
  | cons x t ih =>
    simp only [hasCp, List.contains_cons, Bool.or_eq_false_iff] at h
    have hx : (x == sep) = false := by
      rcases h with ⟨h1, _⟩
      cases hxs : (x == sep) with
      | false => rfl
      | true =>
        have : x = sep := by simpa using hxs
        subst this; simp at h1
    have ht : hasCp sep t = false := by simpa [hasCp] using h.2
    simp [splitOn, hx, ih ht]

/-- `universal` without a pending prefix: `*` or `P|*` -/
theorem append_universal_plain (ns : NsMap) (c : Cps) (r : List Cps) (el : Option Val) (b cc d : Nat)
    (wf : Bool) (rs : List Item) (e : Cps) (u : Uri) (hu : resolveNs ns none = some u) :
    append ns ⟨c :: r, el, none, b, cc, d, wf, rs, e⟩ (.str [42]) tyUniversal
      = .ok ⟨c :: r, (if c.isEmpty then some (.ns u [42]) else el), none,
             b, cc, d, wf, ⟨.ns u [42], tyUniversal⟩ :: rs, e⟩ := by
  simp [append, top, takePrefix, hasCp, needsNs, pushItem, hu, incB, incC, incD, bind, Except.bind, pure, Except.pure]

theorem append_universal_pfx (ns : NsMap) (c : Cps) (r : List Cps) (el : Option Val) (b cc d : Nat)
    (wf : Bool) (rs : List Item) (e p : Cps) (u : Uri) (hp : hasCp 124 p = false) (hu : resolveNs ns (some p) = some u) :
    append ns ⟨c :: r, el, none, b, cc, d, wf, rs, e⟩ (.str (p ++ [124, 42])) tyUniversal
      = .ok ⟨c :: r, (if c.isEmpty then some (.ns u [42]) else el), none,
             b, cc, d, wf, ⟨.ns u [42], tyUniversal⟩ :: rs, e⟩ := by
  have hs : splitOn 124 (p ++ [124, 42]) = [p, [42]] := by
    rw [splitOn_append 124 p [42] hp]; simp [splitOn]
  have hc : hasCp 124 (p ++ [124, 42]) = true := by simp [hasCp]
  simp [append, top, takePrefix, hc, hs, needsNs, pushItem, hu, incB, incC, incD, bind, Except.bind, pure, Except.pure]

/-- the prefix as `New.append` sees it -/
def Pfx.opt : Pfx → Option Cps
  | .none => Option.none
  | p => some p.str

theorem resolve_pfx (ns : NsMap) (p : Pfx) (h : p.ok ns = true) : resolveNs ns p.opt = some (p.uri ns) := by
  cases p with
  | none => simp only [Pfx.opt, resolveNs, Pfx.uri]; cases nsGet ns [] <;> rfl
  | any => simp [Pfx.opt, Pfx.str, resolveNs, Pfx.uri]
  | empty => simp [Pfx.opt, Pfx.str, resolveNs, Pfx.uri]
  | named q =>
    simp only [Pfx.ok, Bool.and_eq_true, Bool.not_eq_true', nameOk] at h
    obtain ⟨⟨⟨⟨hne, _⟩, _⟩, h42⟩, hsome⟩ := h
    cases hg : nsGet ns q with
    | none => simp [hg] at hsome
    | some u =>
      have hq : q.isEmpty = false := by simpa using hne
      have h42' : (q == [42]) = false := by simpa using h42
      simp [Pfx.opt, Pfx.str, resolveNs, Pfx.uri, hg, hq, h42']

theorem pfx_str_no_bar (ns : NsMap) (p : Pfx) (h : p.ok ns = true) : hasCp 124 p.str = false := by
  cases p with
  | none => rfl
  | any => rfl
  | empty => rfl
  | named q =>
    simp only [Pfx.ok, Bool.and_eq_true, Bool.not_eq_true'] at h
    exact h.1.1.2


theorem step_ident_type (ns : NsMap) (neg : Bool) (n : Cps) (r : List Cps) (el : Option Val) (pfx : Option Cps)
    (b c d : Nat) (wf : Bool) (rs : List Item) (e : Cps) (u : Uri) (hu : resolveNs ns pfx = some u)
    (he : HeadOk neg e ∨ e = c_element_name) :
    step ns ⟨ctxOf neg :: r, el, pfx, b, c, d, wf, rs, e⟩ ⟨.ident, n⟩
      = .ok ⟨ctxOf neg :: r, (if neg then el else some (.ns u n)), none, b, c, d + 1, wf,
             ⟨.ns u n, if neg then tyNegTypeSel else tyTypeSel⟩ :: rs, aft neg⟩ := by
  cases neg
  · rcases he with (rfl | rfl) | rfl <;>
      simp [step, runCb, cbIdent, top, has, append_sel _ _ _ _ _ _ _ _ _ _ _ _ _ u hu, incB, incC, incD, ctxOf, aft,
        Functor.map, Except.map]
  · rcases he with h | rfl
    · cases h
      simp [step, runCb, cbIdent, top, has, append_sel _ _ _ _ _ _ _ _ _ _ _ _ _ u hu, incB, incC, incD, ctxOf, aft,
        Functor.map, Except.map]
    · simp [step, runCb, cbIdent, top, has, append_sel _ _ _ _ _ _ _ _ _ _ _ _ _ u hu, incB, incC, incD, ctxOf, aft,
        Functor.map, Except.map]

theorem step_nsPrefix_type (ns : NsMap) (neg : Bool) (p : Cps) (r : List Cps) (el : Option Val)
    (b c d : Nat) (wf : Bool) (rs : List Item) (e : Cps) (he : HeadOk neg e) :
    step ns ⟨ctxOf neg :: r, el, none, b, c, d, wf, rs, e⟩ ⟨.nsPrefix, p ++ [124]⟩
      = .ok ⟨ctxOf neg :: r, el, some p, b, c, d, wf, rs, c_element_name⟩ := by
  cases neg
  · rcases he with rfl | rfl <;>
      simp [step, runCb, cbNsPrefix, top, has, append_prefix, ctxOf, Functor.map, Except.map]
  · cases he
    simp [step, runCb, cbNsPrefix, top, has, append_prefix, ctxOf, Functor.map, Except.map]

theorem step_universal_plain (ns : NsMap) (neg : Bool) (r : List Cps) (el : Option Val)
    (b c d : Nat) (wf : Bool) (rs : List Item) (e : Cps) (u : Uri) (hu : resolveNs ns none = some u)
    (he : HeadOk neg e) :
    step ns ⟨ctxOf neg :: r, el, none, b, c, d, wf, rs, e⟩ ⟨.universal, [42]⟩
      = .ok ⟨ctxOf neg :: r, (if neg then el else some (.ns u [42])), none, b, c, d, wf,
             ⟨.ns u [42], tyUniversal⟩ :: rs, aft neg⟩ := by
  cases neg
  · rcases he with rfl | rfl <;>
      simp [step, runCb, cbUniversal, top, has, append_universal_plain _ _ _ _ _ _ _ _ _ _ u hu, ctxOf, aft,
        Functor.map, Except.map]
  · cases he
    simp [step, runCb, cbUniversal, top, has, append_universal_plain _ _ _ _ _ _ _ _ _ _ u hu, ctxOf, aft,
        Functor.map, Except.map]

theorem step_universal_pfx (ns : NsMap) (neg : Bool) (r : List Cps) (el : Option Val)
    (b c d : Nat) (wf : Bool) (rs : List Item) (e p : Cps) (u : Uri) (hp : hasCp 124 p = false)
    (hu : resolveNs ns (some p) = some u) (he : HeadOk neg e) :
    step ns ⟨ctxOf neg :: r, el, none, b, c, d, wf, rs, e⟩ ⟨.universal, p ++ [124, 42]⟩
      = .ok ⟨ctxOf neg :: r, (if neg then el else some (.ns u [42])), none, b, c, d, wf,
             ⟨.ns u [42], tyUniversal⟩ :: rs, aft neg⟩ := by
  cases neg
  · rcases he with rfl | rfl <;>
      simp [step, runCb, cbUniversal, top, has, append_universal_pfx _ _ _ _ _ _ _ _ _ _ _ u hp hu, ctxOf, aft,
        Functor.map, Except.map]
  · cases he
    simp [step, runCb, cbUniversal, top, has, append_universal_pfx _ _ _ _ _ _ _ _ _ _ _ u hp hu, ctxOf, aft,
        Functor.map, Except.map]

theorem run_typeSel (ns : NsMap) (neg : Bool) (t : TypeSel) (ht : t.ok ns = true) (r : List Cps) (el : Option Val)
    (b c d : Nat) (wf : Bool) (rs : List Item) (e : Cps) (he : HeadOk neg e) :
    run ns ⟨ctxOf neg :: r, el, none, b, c, d, wf, rs, e⟩ t.cooked
      = .ok ⟨ctxOf neg :: r, (if neg then el else some (t.item ns neg).val), none, b, c,
             d + (if t.name.isSome then 1 else 0), wf, t.item ns neg :: rs, aft neg⟩ := by
  obtain ⟨pfx, name⟩ := t
  simp only [TypeSel.ok, Bool.and_eq_true] at ht
  obtain ⟨hp, hn⟩ := ht
  have hres := resolve_pfx ns pfx hp
  have hbar := pfx_str_no_bar ns pfx hp
  cases name with
  | some n =>
    cases pfx with
    | none =>
      simp only [TypeSel.cooked]
      rw [run_cons_ok _ (step_ident_type ns neg n r el none b c d wf rs e _ hres (Or.inl he))]
      simp [TypeSel.item]
    | any =>
      simp only [TypeSel.cooked]
      rw [run_cons_ok _ (step_nsPrefix_type ns neg _ r el b c d wf rs e he)]
      rw [run_cons_ok _ (step_ident_type ns neg n r el (some _) b c d wf rs _ _ hres (Or.inr rfl))]
      simp [TypeSel.item]
    | empty =>
      simp only [TypeSel.cooked]
      rw [run_cons_ok _ (step_nsPrefix_type ns neg _ r el b c d wf rs e he)]
      rw [run_cons_ok _ (step_ident_type ns neg n r el (some _) b c d wf rs _ _ hres (Or.inr rfl))]
      simp [TypeSel.item]
    | named q =>
      simp only [TypeSel.cooked]
      rw [run_cons_ok _ (step_nsPrefix_type ns neg _ r el b c d wf rs e he)]
      rw [run_cons_ok _ (step_ident_type ns neg n r el (some _) b c d wf rs _ _ hres (Or.inr rfl))]
      simp [TypeSel.item]
  | none =>
    cases pfx with
    | none =>
      simp only [TypeSel.cooked]
      rw [run_cons_ok _ (step_universal_plain ns neg r el b c d wf rs e _ hres he)]
      simp [TypeSel.item]
    | any =>
      simp only [TypeSel.cooked]
      rw [run_cons_ok _ (step_universal_pfx ns neg r el b c d wf rs e _ _ hbar hres he)]
      simp [TypeSel.item]
    | empty =>
      simp only [TypeSel.cooked]
      rw [run_cons_ok _ (step_universal_pfx ns neg r el b c d wf rs e _ _ hbar hres he)]
      simp [TypeSel.item]
    | named q =>
      simp only [TypeSel.cooked]
      rw [run_cons_ok _ (step_universal_pfx ns neg r el b c d wf rs e _ _ hbar hres he)]
      simp [TypeSel.item]


/-! ## attribute selectors -/

theorem step_lbrack (ns : NsMap) (neg : Bool) (r : List Cps) (el : Option Val) (b c d : Nat) (wf : Bool)
    (rs : List Item) (e : Cps) (he : BeforeOk neg e) :
    step ns ⟨ctxOf neg :: r, el, none, b, c, d, wf, rs, e⟩ ⟨.char, [91]⟩
      = .ok ⟨cxAttrib :: ctxOf neg :: r, el, none, b, c + 1, d, wf, ⟨.str [91], tyAttrStart⟩ :: rs, c_attname⟩ := by
  cases neg
  · rcases he with rfl | rfl | rfl <;>
      simp [step, runCb, cbChar, top, has, append_plain, incB, incC, incD, ctxOf, Functor.map, Except.map]
  · cases he
    simp [step, runCb, cbChar, top, has, append_plain, incB, incC, incD, ctxOf, Functor.map, Except.map]

theorem step_rbrack (ns : NsMap) (neg : Bool) (r : List Cps) (el : Option Val) (b c d : Nat) (wf : Bool)
    (rs : List Item) (e : Cps) (he : e = c_attcombinator ∨ e = c_attend) :
    step ns ⟨cxAttrib :: ctxOf neg :: r, el, none, b, c, d, wf, rs, e⟩ ⟨.char, [93]⟩
      = .ok ⟨ctxOf neg :: r, el, none, b, c, d, wf, ⟨.str [93], tyAttrEnd⟩ :: rs, aft neg⟩ := by
  cases neg <;> rcases he with rfl | rfl <;>
    simp [step, runCb, cbChar, top, has, append_plain, incB, incC, incD, ctxOf, aft, Functor.map, Except.map,
      bind, Except.bind, pure, Except.pure]

theorem step_nsPrefix_attr (ns : NsMap) (p : Cps) (r : List Cps) (el : Option Val)
    (b c d : Nat) (wf : Bool) (rs : List Item) :
    step ns ⟨cxAttrib :: r, el, none, b, c, d, wf, rs, c_attname⟩ ⟨.nsPrefix, p ++ [124]⟩
      = .ok ⟨cxAttrib :: r, el, some p, b, c, d, wf, rs, c_attname2⟩ := by
  simp [step, runCb, cbNsPrefix, top, has, append_prefix, Functor.map, Except.map]

theorem append_attrSel (ns : NsMap) (a : Attr) (ha : a.pfx.ok ns = true) (r : List Cps) (el : Option Val)
    (b cc d : Nat) (wf : Bool) (rs : List Item) (e : Cps) :
    append ns ⟨cxAttrib :: r, el, a.pfx.opt, b, cc, d, wf, rs, e⟩ (.str a.name) tyAttrSel
      = .ok ⟨cxAttrib :: r, el, none, b, cc, d, wf, a.nameItem ns :: rs, e⟩ := by
  have hres := resolve_pfx ns a.pfx ha
  cases hp : a.pfx with
  | none =>
    simp [hp, Pfx.opt, append, top, takePrefix, needsNs, noPrefix, pushItem, incB, incC, incD, Attr.nameItem,
      bind, Except.bind, pure, Except.pure]
  | empty =>
    simp [hp, Pfx.opt, Pfx.str, append, top, takePrefix, needsNs, noPrefix, pushItem, incB, incC, incD, Attr.nameItem,
      bind, Except.bind, pure, Except.pure]
  | any =>
    rw [hp] at hres
    simp [hp, Pfx.opt, Pfx.str] at hres ⊢
    simp [append, top, takePrefix, needsNs, noPrefix, pushItem, incB, incC, incD, Attr.nameItem, hres, hp, Pfx.uri,
      bind, Except.bind, pure, Except.pure]
  | named q =>
    rw [hp] at hres ha
    have hq : q.isEmpty = false := by
      simp only [Pfx.ok, Bool.and_eq_true, nameOk, Bool.not_eq_true'] at ha
      exact ha.1.1.1.1
    simp only [Pfx.opt, Pfx.str] at hres ⊢
    simp [append, top, takePrefix, needsNs, noPrefix, hq, pushItem, incB, incC, incD, Attr.nameItem, hres, hp,
      bind, Except.bind, pure, Except.pure]

theorem step_ident_attrname (ns : NsMap) (a : Attr) (ha : a.pfx.ok ns = true) (r : List Cps) (el : Option Val)
    (b c d : Nat) (wf : Bool) (rs : List Item) (e : Cps) (he : e = c_attname ∨ e = c_attname2) :
    step ns ⟨cxAttrib :: r, el, a.pfx.opt, b, c, d, wf, rs, e⟩ ⟨.ident, a.name⟩
      = .ok ⟨cxAttrib :: r, el, none, b, c, d, wf, a.nameItem ns :: rs, c_attcombinator⟩ := by
  rcases he with rfl | rfl <;>
    simp [step, runCb, cbIdent, top, has, append_attrSel ns a ha, Functor.map, Except.map]

theorem step_attop (ns : NsMap) (o : AttOp) (r : List Cps) (el : Option Val)
    (b c d : Nat) (wf : Bool) (rs : List Item) :
    step ns ⟨cxAttrib :: r, el, none, b, c, d, wf, rs, c_attcombinator⟩ o.tok
      = .ok ⟨cxAttrib :: r, el, none, b, c, d, wf, o.item :: rs, c_attvalue⟩ := by
  cases o <;>
    simp [AttOp.tok, AttOp.item, step, runCb, cbChar, cbAttcombinator, top, has, append_plain, incB, incC, incD,
      Functor.map, Except.map]

theorem stringTokenValue_ok (raw : Cps) (h : raw.isEmpty = false) : stringTokenValue raw = .ok (strContent raw) := by
  cases raw with
  | nil => simp at h
  | cons q t => simp [stringTokenValue, strContent, pure, Except.pure]

theorem step_attval (ns : NsMap) (v : AttVal) (hv : v.ok = true) (r : List Cps) (el : Option Val)
    (b c d : Nat) (wf : Bool) (rs : List Item) :
    step ns ⟨cxAttrib :: r, el, none, b, c, d, wf, rs, c_attvalue⟩ v.tok
      = .ok ⟨cxAttrib :: r, el, none, b, c, d, wf, v.item :: rs, c_attend⟩ := by
  cases v with
  | ident x =>
    simp [AttVal.tok, AttVal.item, step, runCb, cbIdent, top, has, append_plain, incB, incC, incD,
      Functor.map, Except.map]
  | string raw =>
    have hne : raw.isEmpty = false := by
      simp only [AttVal.ok, Bool.and_eq_true, Bool.not_eq_true'] at hv; exact hv.1
    simp [AttVal.tok, AttVal.item, step, runCb, cbString, top, has, stringTokenValue_ok raw hne, append_plain,
      incB, incC, incD, Functor.map, Except.map, bind, Except.bind, pure, Except.pure]


theorem run_attr_pfx (ns : NsMap) (a : Attr) (r : List Cps) (el : Option Val)
    (b c d : Nat) (wf : Bool) (rs : List Item) (rest : List Tok) :
    run ns ⟨cxAttrib :: r, el, none, b, c, d, wf, rs, c_attname⟩ (a.pfxCooked ++ rest)
      = run ns ⟨cxAttrib :: r, el, a.pfx.opt, b, c, d, wf, rs, if a.pfx = .none then c_attname else c_attname2⟩ rest := by
  cases hp : a.pfx with
  | none => simp [Attr.pfxCooked, hp, Pfx.opt]
  | any =>
    simp only [Attr.pfxCooked, hp, List.cons_append, List.nil_append]
    rw [run_cons_ok _ (step_nsPrefix_attr ns _ r el b c d wf rs)]
    simp [Pfx.opt]
  | empty =>
    simp only [Attr.pfxCooked, hp, List.cons_append, List.nil_append]
    rw [run_cons_ok _ (step_nsPrefix_attr ns _ r el b c d wf rs)]
    simp [Pfx.opt]
  | named q =>
    simp only [Attr.pfxCooked, hp, List.cons_append, List.nil_append]
    rw [run_cons_ok _ (step_nsPrefix_attr ns _ r el b c d wf rs)]
    simp [Pfx.opt]

theorem run_attr (ns : NsMap) (neg : Bool) (a : Attr) (ha : a.ok ns = true) (r : List Cps) (el : Option Val)
    (b c d : Nat) (wf : Bool) (rs : List Item) (e : Cps) (he : BeforeOk neg e) :
    run ns ⟨ctxOf neg :: r, el, none, b, c, d, wf, rs, e⟩ a.cooked
      = .ok ⟨ctxOf neg :: r, el, none, b, c + 1, d, wf, a.rpush ns rs, aft neg⟩ := by
  simp only [Attr.ok, Bool.and_eq_true] at ha
  obtain ⟨⟨⟨⟨_, hpfx⟩, _⟩, _⟩, hopv⟩ := ha
  have hq : ∀ e', (cxAttrib = cxAttrib ∨ isSub kwCombinator e' = false) := fun _ => Or.inl rfl
  simp only [Attr.cooked, Attr.tail, List.cons_append, List.nil_append, List.append_assoc]
  rw [run_cons_ok _ (step_lbrack ns neg r el b c d wf rs e he)]
  rw [run_append_ok _ (run_fillQuiet ns cxAttrib _ el b (c + 1) d wf c_attname (by simp) (hq _) a.f1 _)]
  rw [run_attr_pfx]
  rw [run_cons_ok _ (step_ident_attrname ns a hpfx _ el b (c + 1) d wf _ _
        (by cases a.pfx <;> simp))]
  rw [run_append_ok _ (run_fillQuiet ns cxAttrib _ el b (c + 1) d wf c_attcombinator (by simp) (hq _) a.f2 _)]
  cases hov : a.opv with
  | none =>
    simp only [Attr.opvToks, hov, List.nil_append]
    rw [run_cons_ok _ (step_rbrack ns neg r el b (c + 1) d wf _ _ (Or.inl rfl))]
    simp [Attr.rpush, hov]
  | some q =>
    obtain ⟨o, f3, v, f4⟩ := q
    rw [hov] at hopv
    simp only [Bool.and_eq_true] at hopv
    simp only [Attr.opvToks, hov, List.cons_append, List.nil_append, List.append_assoc]
    rw [run_cons_ok _ (step_attop ns o _ el b (c + 1) d wf _)]
    rw [run_append_ok _ (run_fillQuiet ns cxAttrib _ el b (c + 1) d wf c_attvalue (by simp) (hq _) f3 _)]
    rw [run_cons_ok _ (step_attval ns v hopv.1.2 _ el b (c + 1) d wf _)]
    rw [run_append_ok _ (run_fillQuiet ns cxAttrib _ el b (c + 1) d wf c_attend (by simp) (hq _) f4 _)]
    rw [run_cons_ok _ (step_rbrack ns neg r el b (c + 1) d wf _ _ (Or.inr rfl))]
    simp [Attr.rpush, hov]


/-! ## functional pseudos -/

/-- a context pushed by a functional pseudo: `pseudo-class` or `pseudo-element` -/
structure PseudoCtx (P : Cps) : Prop where
  isP : isPseudoCtx P = true
  notAttrib : ¬ (P = cxAttrib)
  notNeg : ¬ (P = cxNegation)
  off : countsIn P = false

theorem pseudoCtx_of (two : Bool) : PseudoCtx (pseudoTT two).name := by
  cases two <;> constructor <;> simp [pseudoTT]

theorem step_arg (ns : NsMap) (P : Cps) (hP : PseudoCtx P) (a : ArgTok) (ha : a.ok = true) (r : List Cps)
    (el : Option Val) (b c d : Nat) (wf : Bool) (rs : List Item) (e : Cps) :
    step ns ⟨P :: r, el, none, b, c, d, wf, rs, e⟩ a.tok
      = .ok ⟨P :: r, el, none, b, c, d, wf, argPush rs [a], if a.isFill then e else c_expression⟩ := by
  obtain ⟨h1, h2, h3, h4⟩ := hP
  cases a with
  | plus =>
    cases rs with
    | nil =>
      simp [ArgTok.tok, ArgTok.isFill, argPush, step, runCb, cbChar, top, has, h1, h2, h3, h4, lastIsS, append_plain,
        incB, incC, incD, Functor.map, Except.map, bind, Except.bind, pure, Except.pure]
    | cons it t =>
      obtain ⟨v, ty⟩ := it
      cases v with
      | str s =>
        by_cases hs : s = c_S
        · subst hs
          simp [ArgTok.tok, ArgTok.isFill, argPush, step, runCb, cbChar, top, has, h1, h2, h3, h4, lastIsS,
            replaceLast, append_plain, incB, incC, incD, Functor.map, Except.map, bind, Except.bind, pure, Except.pure]
        · simp [ArgTok.tok, ArgTok.isFill, argPush, step, runCb, cbChar, top, has, h1, h2, h3, h4, lastIsS, hs,
            replaceLast, append_plain, incB, incC, incD, Functor.map, Except.map, bind, Except.bind, pure, Except.pure]
      | comment s =>
        simp [ArgTok.tok, ArgTok.isFill, argPush, step, runCb, cbChar, top, has, h1, h2, h3, h4, lastIsS,
          append_plain, incB, incC, incD, Functor.map, Except.map, bind, Except.bind, pure, Except.pure]
      | ns u n =>
        simp [ArgTok.tok, ArgTok.isFill, argPush, step, runCb, cbChar, top, has, h1, h2, h3, h4, lastIsS,
          append_plain, incB, incC, incD, Functor.map, Except.map, bind, Except.bind, pure, Except.pure]
  | minus =>
    simp [ArgTok.tok, ArgTok.isFill, argPush, step, runCb, cbChar, top, has, h1, h2, h3, h4, lastIsS, append_plain,
      incB, incC, incD, Functor.map, Except.map, bind, Except.bind, pure, Except.pure]
  | num v =>
    simp [ArgTok.tok, ArgTok.isFill, argPush, step, runCb, cbExpression, top, h1, h4, append_plain,
      incB, incC, incD, Functor.map, Except.map]
  | dim v =>
    simp [ArgTok.tok, ArgTok.isFill, argPush, step, runCb, cbExpression, top, h1, h4, append_plain,
      incB, incC, incD, Functor.map, Except.map]
  | str raw =>
    have hne : raw.isEmpty = false := by
      simp only [ArgTok.ok, Bool.and_eq_true, Bool.not_eq_true'] at ha; exact ha.1
    simp [ArgTok.tok, ArgTok.isFill, argPush, step, runCb, cbString, top, has, h1, h2, h4,
      stringTokenValue_ok raw hne, append_plain, incB, incC, incD, Functor.map, Except.map, bind, Except.bind,
      pure, Except.pure]
  | ident v =>
    simp [ArgTok.tok, ArgTok.isFill, argPush, step, runCb, cbIdent, top, has, h1, h2, h3, h4, append_plain,
      incB, incC, incD, Functor.map, Except.map]
  | ws v =>
    cases rs with
    | nil => simp [ArgTok.tok, ArgTok.isFill, argPush, step, runCb, cbS, top, h1, pure, Except.pure, bind, Except.bind]
    | cons it t =>
      by_cases hpm : (it.typ == tyPlus || it.typ == tyMinus) = true
      · simp [ArgTok.tok, ArgTok.isFill, argPush, step, runCb, cbS, top, h1, hpm, pure, Except.pure, bind, Except.bind]
      · have hpm' : (it.typ == tyPlus || it.typ == tyMinus) = false := by simpa using hpm
        simp [ArgTok.tok, ArgTok.isFill, argPush, step, runCb, cbS, top, h1, hpm', append_plain, incB, incC, incD,
          h4, sItem, pure, Except.pure, bind, Except.bind]
  | cm v =>
    simp [ArgTok.tok, ArgTok.isFill, argPush, step_comment]


theorem argPush_cons (rs : List Item) (a : ArgTok) (t : List ArgTok) :
    argPush rs (a :: t) = argPush (argPush rs [a]) t := by
  cases a <;> simp [argPush]

theorem run_args (ns : NsMap) (P : Cps) (hP : PseudoCtx P) (r : List Cps) (el : Option Val) (b c d : Nat) (wf : Bool)
    (args : List ArgTok) (hargs : args.all ArgTok.ok = true) (rs : List Item) (e : Cps) :
    run ns ⟨P :: r, el, none, b, c, d, wf, rs, e⟩ (args.map ArgTok.tok)
      = .ok ⟨P :: r, el, none, b, c, d, wf, argPush rs args,
             if args.any (fun a => !a.isFill) then c_expression else e⟩ := by
  induction args generalizing rs e with
  | nil => simp [argPush]
  | cons a t ih =>
    simp only [List.all_cons, Bool.and_eq_true] at hargs
    simp only [List.map_cons]
    rw [run_cons_ok _ (step_arg ns P hP a hargs.1 r el b c d wf rs e)]
    rw [ih hargs.2, argPush_cons rs a t]
    cases hf : a.isFill <;> simp [hf]

theorem step_func_open (ns : NsMap) (neg two : Bool) (f : Cps) (r : List Cps) (el : Option Val) (b c d : Nat)
    (wf : Bool) (rs : List Item) (e : Cps) (he : BeforeOk neg e)
    (hf : endsWith (normalizeName (colons two ++ f)) [40] = true) :
    step ns ⟨ctxOf neg :: r, el, none, b, c, d, wf, rs, e⟩ ⟨pseudoTT two, colons two ++ f⟩
      = .ok ⟨(pseudoTT two).name :: ctxOf neg :: r, el, none, b, c, d + (if two then 1 else 0), wf,
             ⟨.str (normalizeName (colons two ++ f)), (pseudoTT two).name⟩ :: rs, c_expressionstart⟩ := by
  have hl : elemOf (normalizeName (colons two ++ f)) legacyPseudoElements = false := by
    cases h : elemOf (normalizeName (colons two ++ f)) legacyPseudoElements with
    | false => rfl
    | true =>
      exfalso
      simp only [elemOf, legacyPseudoElements, Bool.or_false, Bool.or_eq_true, beq_iff_eq] at h
      rcases h with h | h | h | h <;> (rw [h] at hf; revert hf; decide)
  cases neg
  · cases two <;> rcases he with rfl | rfl | rfl <;>
      simp [step, runCb, cbPseudo, top, has, append_plain, incB, incC, incD, pseudoTT, hl, hf, ctxOf,
        Functor.map, Except.map, bind, Except.bind, pure, Except.pure]
  · cases he
    cases two <;>
      simp [step, runCb, cbPseudo, top, has, append_plain, incB, incC, incD, pseudoTT, hl, hf, ctxOf,
        Functor.map, Except.map, bind, Except.bind, pure, Except.pure]

/-- `expected` after a functional pseudo -/
def aftFunc (neg two : Bool) : Cps := if neg then c_negationend else if two then c_combinator else eSSSC

theorem step_func_close (ns : NsMap) (neg two : Bool) (r : List Cps) (el : Option Val) (b c d : Nat) (wf : Bool)
    (rs : List Item) :
    step ns ⟨(pseudoTT two).name :: ctxOf neg :: r, el, none, b, c, d, wf, rs, c_expression⟩ ⟨.char, [41]⟩
      = .ok ⟨ctxOf neg :: r, el, none, b, c, d, wf, ⟨.str [41], tyFuncEnd⟩ :: rs, aftFunc neg two⟩ := by
  cases neg <;> cases two <;>
    simp [step, runCb, cbChar, top, has, append_plain, incB, incC, incD, pseudoTT, ctxOf, aftFunc,
      Functor.map, Except.map, bind, Except.bind, pure, Except.pure]

theorem run_func (ns : NsMap) (neg two : Bool) (f : Cps) (args : List ArgTok) (hs : funcOk two f args = true)
    (r : List Cps) (el : Option Val) (b c d : Nat) (wf : Bool) (rs : List Item) (e : Cps) (he : BeforeOk neg e) :
    run ns ⟨ctxOf neg :: r, el, none, b, c, d, wf, rs, e⟩ (funcCooked two f args)
      = .ok ⟨ctxOf neg :: r, el, none, b, c, d + (if two then 1 else 0), wf, funcPush two f args rs,
             aftFunc neg two⟩ := by
  simp only [funcOk, Bool.and_eq_true] at hs
  obtain ⟨⟨⟨⟨_, hf⟩, _⟩, hargs⟩, hany⟩ := hs
  simp only [funcCooked, List.cons_append, List.nil_append]
  rw [run_cons_ok _ (step_func_open ns neg two f r el b c d wf rs e he hf)]
  rw [run_append_ok _ (run_args ns _ (pseudoCtx_of two) _ el b c _ wf args hargs _ c_expressionstart)]
  rw [hany]
  simp only [if_true]
  rw [run_cons_ok _ (step_func_close ns neg two r el b c _ wf _)]
  simp [funcPush]

/-- `expected` after a simple selector (root context) -/
def Simple.after : Simple → Cps
  | .pseudo two n => if pseudoIsElem two n then c_combinator else eSSS2C
  | .func two _ _ => if two then c_combinator else eSSSC
  | .not _ _ _ _ => eSSSC
  | _ => eSSS2C

/-- specificity contribution -/
def Simple.inc (s : Simple) : Nat × Nat × Nat := s.kind.1.count


/-! ## negation -/

theorem run_negArg (ns : NsMap) (x : NegArg) (hx : x.ok ns = true) (r : List Cps) (el : Option Val) (b c d : Nat)
    (wf : Bool) (rs : List Item) :
    run ns ⟨cxNegation :: r, el, none, b, c, d, wf, rs, c_negation_arg⟩ x.cooked
      = .ok ⟨cxNegation :: r, el, none, b + x.kind.count.1, c + x.kind.count.2.1, d + x.kind.count.2.2, wf,
             x.rpush ns rs, c_negationend⟩ := by
  have hb : BeforeOk true c_negation_arg := by simp [BeforeOk]
  have hh : HeadOk true c_negation_arg := by simp [HeadOk]
  cases x with
  | type t =>
    have := run_typeSel ns true t hx r el b c d wf rs c_negation_arg hh
    simp only [ctxOf, aft, if_true] at this
    simp only [NegArg.cooked, this, NegArg.rpush, NegArg.kind, TypeSel.kind]
    cases t.name <;> simp [Kind.count]
  | id v =>
    have := step_hash ns true v r el b c d wf rs c_negation_arg hb
    simp only [ctxOf, aft, if_true] at this
    simp [NegArg.cooked, run_cons_ok _ this, NegArg.rpush, NegArg.kind, Kind.count]
  | cls n =>
    have := step_cls ns true (46 :: n) r el b c d wf rs c_negation_arg hb
    simp only [ctxOf, aft, if_true] at this
    simp [NegArg.cooked, run_cons_ok _ this, NegArg.rpush, NegArg.kind, Kind.count]
  | attr a =>
    have := run_attr ns true a hx r el b c d wf rs c_negation_arg hb
    simp only [ctxOf, aft, if_true] at this
    simp [NegArg.cooked, this, NegArg.rpush, NegArg.kind, Kind.count]
  | pseudo two n =>
    simp only [NegArg.ok, pseudoOk, Bool.and_eq_true, Bool.not_eq_true'] at hx
    have := step_pseudo ns true two n r el b c d wf rs c_negation_arg hb hx.2
    simp only [ctxOf, aftPseudo, if_true] at this
    simp only [NegArg.cooked, run_cons_ok _ this, NegArg.rpush, NegArg.kind, run_nil]
    cases pseudoIsElem two n <;> simp [Kind.count]
  | func two f args =>
    have := run_func ns true two f args hx r el b c d wf rs c_negation_arg hb
    simp only [ctxOf, aftFunc, if_true] at this
    simp only [NegArg.cooked, this, NegArg.rpush, NegArg.kind]
    cases two <;> simp [Kind.count]

theorem step_not_open (ns : NsMap) (fv : Cps) (r : List Cps) (el : Option Val) (b c d : Nat) (wf : Bool)
    (rs : List Item) (e : Cps) (he : BeforeOk false e) :
    step ns ⟨cxRoot :: r, el, none, b, c, d, wf, rs, e⟩ ⟨.negation, 58 :: fv⟩
      = .ok ⟨cxNegation :: cxRoot :: r, el, none, b, c, d, wf,
             ⟨.str (normalizeName (58 :: fv)), tyNegStart⟩ :: rs, c_negation_arg⟩ := by
  rcases he with rfl | rfl | rfl <;>
    simp [step, runCb, cbNegation, top, has, append_plain, incB, incC, incD,
      Functor.map, Except.map, bind, Except.bind, pure, Except.pure]

theorem step_not_close (ns : NsMap) (r : List Cps) (el : Option Val) (b c d : Nat) (wf : Bool) (rs : List Item) :
    step ns ⟨cxNegation :: cxRoot :: r, el, none, b, c, d, wf, rs, c_negationend⟩ ⟨.char, [41]⟩
      = .ok ⟨cxRoot :: r, el, none, b, c, d, wf, ⟨.str [41], tyNegEnd⟩ :: rs, eSSSC⟩ := by
  simp [step, runCb, cbChar, top, has, append_plain, incB, incC, incD,
    Functor.map, Except.map, bind, Except.bind, pure, Except.pure]

/-! ## simple selectors (root context) -/

theorem run_simple (ns : NsMap) (s : Simple) (hs : s.ok ns = true) (r : List Cps) (el : Option Val) (b c d : Nat)
    (wf : Bool) (rs : List Item) (e : Cps) (he : BeforeOk false e) :
    run ns ⟨cxRoot :: r, el, none, b, c, d, wf, rs, e⟩ s.cooked
      = .ok ⟨cxRoot :: r, el, none, b + s.inc.1, c + s.inc.2.1, d + s.inc.2.2, wf, s.rpush ns rs, s.after⟩ := by
  cases s with
  | id v =>
    have := step_hash ns false v r el b c d wf rs e he
    simp only [ctxOf, aft, Bool.false_eq_true, if_false] at this
    simp [Simple.cooked, run_cons_ok _ this, Simple.rpush, Simple.inc, Simple.kind, Kind.count, Simple.after]
  | cls n =>
    have := step_cls ns false (46 :: n) r el b c d wf rs e he
    simp only [ctxOf, aft, Bool.false_eq_true, if_false] at this
    simp [Simple.cooked, run_cons_ok _ this, Simple.rpush, Simple.inc, Simple.kind, Kind.count, Simple.after]
  | attr a =>
    have := run_attr ns false a hs r el b c d wf rs e he
    simp only [ctxOf, aft, Bool.false_eq_true, if_false] at this
    simp [Simple.cooked, this, Simple.rpush, Simple.inc, Simple.kind, Kind.count, Simple.after]
  | pseudo two n =>
    simp only [Simple.ok, pseudoOk, Bool.and_eq_true, Bool.not_eq_true'] at hs
    have := step_pseudo ns false two n r el b c d wf rs e he hs.2
    simp only [ctxOf, aftPseudo, Bool.false_eq_true, if_false] at this
    simp only [Simple.cooked, run_cons_ok _ this, Simple.rpush, Simple.inc, Simple.kind, Simple.after, run_nil]
    cases pseudoIsElem two n <;> simp [Kind.count]
  | func two f args =>
    have := run_func ns false two f args hs r el b c d wf rs e he
    simp only [ctxOf, aftFunc, Bool.false_eq_true, if_false] at this
    simp only [Simple.cooked, this, Simple.rpush, Simple.inc, Simple.kind, Simple.after]
    cases two <;> simp [Kind.count]
  | not fv f1 x f2 =>
    simp only [Simple.ok, Bool.and_eq_true] at hs
    obtain ⟨⟨⟨⟨_, _⟩, _⟩, hx⟩, _⟩ := hs
    simp only [Simple.cooked, List.cons_append, List.nil_append, List.append_assoc]
    rw [run_cons_ok _ (step_not_open ns fv r el b c d wf rs e he)]
    rw [run_append_ok _ (run_fillQuiet ns cxNegation _ el b c d wf c_negation_arg (by simp) (Or.inr (by simp)) f1 _)]
    rw [run_append_ok _ (run_negArg ns x hx _ el b c d wf _)]
    rw [run_append_ok _ (run_fillQuiet ns cxNegation _ el _ _ _ wf c_negationend (by simp) (Or.inr (by simp)) f2 _)]
    rw [run_cons_ok _ (step_not_close ns r el _ _ _ wf _)]
    simp [Simple.rpush, Simple.inc, Simple.kind, Simple.after]


/-! ## compounds -/

/-- `expected` where a combinator may follow -/
def CombOk (e : Cps) : Prop := e = eSSS2C ∨ e = eSSSC ∨ e = c_combinator

theorem CombOk.has {e : Cps} (h : CombOk e) : isSub kwCombinator e = true := by
  rcases h with rfl | rfl | rfl <;> simp

theorem Simple.after_comb (s : Simple) : CombOk s.after := by
  cases s <;> simp only [Simple.after, CombOk]
  all_goals first
    | (simp; done)
    | (split <;> simp)

theorem Simple.after_before (s : Simple) (h : s.isElem = false) : BeforeOk false s.after := by
  cases s <;> simp_all [Simple.after, Simple.isElem, BeforeOk]

def restAfter (e : Cps) : List (List Cps × Simple) → Cps
  | [] => e
  | (_, s) :: t => restAfter s.after t

theorem restAfter_comb (e : Cps) (he : CombOk e) (l : List (List Cps × Simple)) : CombOk (restAfter e l) := by
  induction l generalizing e with
  | nil => exact he
  | cons x t ih => exact ih _ (Simple.after_comb x.2)

theorem restAfter_cons_irrel (e e' : Cps) (x : List Cps × Simple) (t : List (List Cps × Simple)) :
    restAfter e (x :: t) = restAfter e' (x :: t) := rfl

def restKinds (l : List (List Cps × Simple)) : List (Kind × Bool) := l.map (fun p => p.2.kind)

theorem countKinds_cons (k : Kind × Bool) (ks : List (Kind × Bool)) :
    countKinds (k :: ks) = add3 k.1.count (countKinds ks) := rfl

theorem run_rest (ns : NsMap) (l : List (List Cps × Simple)) (hl : restOk ns l = true) (r : List Cps)
    (el : Option Val) (b c d : Nat) (wf : Bool) (rs : List Item) (e : Cps) (he : BeforeOk false e) :
    run ns ⟨cxRoot :: r, el, none, b, c, d, wf, rs, e⟩ (restCooked l)
      = .ok ⟨cxRoot :: r, el, none, b + (countKinds (restKinds l)).1, c + (countKinds (restKinds l)).2.1,
             d + (countKinds (restKinds l)).2.2, wf, restPush ns rs l, restAfter e l⟩ := by
  induction l generalizing b c d rs e with
  | nil => simp [restCooked, restKinds, countKinds, restPush, restAfter]
  | cons x t ih =>
    obtain ⟨cs, s⟩ := x
    have hs : s.ok ns = true ∧ (t = [] ∨ (s.isElem = false ∧ restOk ns t = true)) := by
      cases t with
      | nil => simp only [restOk, Bool.and_eq_true] at hl; exact ⟨hl.2, Or.inl rfl⟩
      | cons y u =>
        simp only [restOk, Bool.and_eq_true, Bool.not_eq_true'] at hl
        exact ⟨hl.1.1.2, Or.inr ⟨hl.1.2, hl.2⟩⟩
    simp only [restCooked, List.append_assoc]
    rw [run_append_ok _ (run_cmToks ns cxRoot r el b c d wf e cs rs)]
    rw [run_append_ok _ (run_simple ns s hs.1 r el b c d wf _ e he)]
    rcases hs.2 with rfl | ⟨hne, ht⟩
    · simp [restCooked, restKinds, countKinds, restPush, restAfter, add3, Simple.inc]
    · rw [ih ht _ _ _ _ _ (Simple.after_before s hne)]
      simp [restKinds, countKinds_cons, restPush, restAfter, add3, Simple.inc, Nat.add_assoc]

def Compound.after (c : Compound) : Cps := restAfter eSSS2C c.rest

theorem Compound.after_comb (c : Compound) : CombOk c.after :=
  restAfter_comb _ (Or.inl rfl) _

theorem countKinds_append (l1 l2 : List (Kind × Bool)) :
    countKinds (l1 ++ l2) = add3 (countKinds l1) (countKinds l2) := by
  induction l1 with
  | nil => simp [countKinds, add3]
  | cons k ks ih => simp [countKinds_cons, ih, add3, Nat.add_assoc]

theorem run_compound (ns : NsMap) (cp : Compound) (hc : cp.ok ns = true) (r : List Cps)
    (el : Option Val) (b c d : Nat) (wf : Bool) (rs : List Item) (e : Cps) (he : HeadOk false e) :
    run ns ⟨cxRoot :: r, el, none, b, c, d, wf, rs, e⟩ cp.cooked
      = .ok ⟨cxRoot :: r, (match cp.head with | some t => some (t.item ns false).val | none => el), none,
             b + (countKinds cp.skel).1, c + (countKinds cp.skel).2.1, d + (countKinds cp.skel).2.2, wf,
             cp.rpush ns rs, cp.after⟩ := by
  obtain ⟨head, rest⟩ := cp
  simp only [Compound.ok, Bool.and_eq_true] at hc
  obtain ⟨⟨hh, hr⟩, hne⟩ := hc
  cases head with
  | some t =>
    simp only [Compound.cooked]
    have := run_typeSel ns false t hh r el b c d wf rs e he
    simp only [ctxOf, aft, Bool.false_eq_true, if_false] at this
    rw [run_append_ok _ this]
    rw [run_rest ns rest hr r _ b c _ wf _ eSSS2C (by simp [BeforeOk])]
    simp only [Compound.skel, Compound.rpush, Compound.after, countKinds_append, TypeSel.kind]
    cases t.name <;> simp [countKinds, add3, Kind.count, restKinds, Nat.add_assoc]
  | none =>
    simp only [Compound.cooked, List.nil_append]
    rw [run_rest ns rest hr r el b c d wf rs e he.before]
    cases rest with
    | nil => simp at hne
    | cons x t => simp [Compound.skel, Compound.rpush, Compound.after, restKinds, restAfter]


/-! ## combinators -/

theorem step_comb (ns : NsMap) (o : Comb) (r : List Cps) (el : Option Val) (b c d : Nat) (wf : Bool)
    (rs : List Item) (e : Cps) (he : CombOk e) :
    step ns ⟨cxRoot :: r, el, none, b, c, d, wf, rs, e⟩ ⟨.char, [o.cp]⟩
      = .ok ⟨cxRoot :: r, el, none, b, c, d, wf, putComb o rs, eSSS⟩ := by
  have hk := he.has
  unfold putComb
  cases rs with
  | nil =>
    cases o <;>
      simp [Comb.cp, Comb.item, step, runCb, cbChar, top, has, hk, lastIsS, append_plain, incB, incC, incD,
        Functor.map, Except.map, bind, Except.bind, pure, Except.pure]
  | cons it t =>
    obtain ⟨v, ty⟩ := it
    cases v with
    | str s =>
      by_cases hs : s = c_S
      · subst hs
        cases o <;>
          simp [Comb.cp, Comb.item, step, runCb, cbChar, top, has, hk, lastIsS, replaceLast, append_plain,
            incB, incC, incD, Functor.map, Except.map, bind, Except.bind, pure, Except.pure]
      · cases o <;>
          simp [Comb.cp, Comb.item, step, runCb, cbChar, top, has, hk, lastIsS, hs, replaceLast, append_plain,
            incB, incC, incD, Functor.map, Except.map, bind, Except.bind, pure, Except.pure]
    | comment s =>
      cases o <;>
        simp [Comb.cp, Comb.item, step, runCb, cbChar, top, has, hk, lastIsS, append_plain, incB, incC, incD,
          Functor.map, Except.map, bind, Except.bind, pure, Except.pure]
    | ns u n =>
      cases o <;>
        simp [Comb.cp, Comb.item, step, runCb, cbChar, top, has, hk, lastIsS, append_plain, incB, incC, incD,
          Functor.map, Except.map, bind, Except.bind, pure, Except.pure]

def Gap.after (g : Gap) : Cps := if g.op.isSome then eSSS else eSSSC

theorem Gap.after_head (g : Gap) : HeadOk false g.after := by
  cases h : g.op <;> simp [Gap.after, h, HeadOk]

theorem run_gap (ns : NsMap) (g : Gap) (hg : g.ok = true) (r : List Cps) (el : Option Val) (b c d : Nat) (wf : Bool)
    (rs : List Item) (e : Cps) (he : CombOk e) :
    run ns ⟨cxRoot :: r, el, none, b, c, d, wf, rs, e⟩ g.toks
      = .ok ⟨cxRoot :: r, el, none, b, c, d, wf, g.rpush rs, g.after⟩ := by
  obtain ⟨pre, op⟩ := g
  simp only [Gap.ok, Bool.and_eq_true] at hg
  simp only [Gap.toks]
  rw [run_append_ok _ (run_fillDesc ns r el b c d wf pre rs e he.has)]
  cases op with
  | none =>
    simp only [] at hg
    simp [hg.2, Gap.rpush, Gap.after]
  | some q =>
    obtain ⟨o, post⟩ := q
    have he' : CombOk (if pre.any Fill.isWs then eSSSC else e) := by
      split
      · exact Or.inr (Or.inl rfl)
      · exact he
    simp only []
    rw [run_cons_ok _ (step_comb ns o r el b c d wf _ _ he')]
    rw [run_fillQuiet ns cxRoot r el b c d wf eSSS (by simp) (Or.inr (by simp)) post _]
    simp [Gap.rpush, Gap.after]

/-! ## whole selectors -/

def moreAfter (e : Cps) : List (Gap × Compound) → Cps
  | [] => e
  | (_, c) :: t => moreAfter c.after t

theorem moreAfter_comb (e : Cps) (he : CombOk e) (l : List (Gap × Compound)) : CombOk (moreAfter e l) := by
  induction l generalizing e with
  | nil => exact he
  | cons x t ih => exact ih _ x.2.after_comb

def moreCount (l : List (Gap × Compound)) : Nat × Nat × Nat :=
  l.foldr (fun p acc => add3 (countKinds p.2.skel) acc) (0, 0, 0)

def moreElement (ns : NsMap) (el : Option Val) (l : List (Gap × Compound)) : Option Val :=
  l.foldl (fun e gc => match gc.2.head with | some t => some (t.item ns false).val | none => e) el

theorem run_more (ns : NsMap) (l : List (Gap × Compound)) (hl : l.all (fun gc => gc.1.ok && gc.2.ok ns) = true)
    (r : List Cps) (el : Option Val) (b c d : Nat) (wf : Bool) (rs : List Item) (e : Cps) (he : CombOk e) :
    run ns ⟨cxRoot :: r, el, none, b, c, d, wf, rs, e⟩ (moreCooked l)
      = .ok ⟨cxRoot :: r, moreElement ns el l, none, b + (moreCount l).1, c + (moreCount l).2.1,
             d + (moreCount l).2.2, wf, morePush ns rs l, moreAfter e l⟩ := by
  induction l generalizing el b c d rs e with
  | nil => simp [moreCooked, moreElement, moreCount, morePush, moreAfter]
  | cons x t ih =>
    obtain ⟨g, cp⟩ := x
    simp only [List.all_cons, Bool.and_eq_true] at hl
    simp only [moreCooked, List.append_assoc]
    rw [run_append_ok _ (run_gap ns g hl.1.1 r el b c d wf rs e he)]
    rw [run_append_ok _ (run_compound ns cp hl.1.2 r el b c d wf _ _ g.after_head)]
    rw [ih hl.2 _ _ _ _ _ _ cp.after_comb]
    simp [moreElement, moreCount, morePush, moreAfter, add3, Nat.add_assoc]

/-- `expected` at the end of a written selector -/
def Sel.after (s : Sel) : Cps :=
  if s.trail.any Fill.isWs then eSSSC else moreAfter s.first.after s.more

theorem Sel.after_comb (s : Sel) : CombOk s.after := by
  unfold Sel.after
  split
  · exact Or.inr (Or.inl rfl)
  · exact moreAfter_comb _ s.first.after_comb _

theorem Sel.count_eq (s : Sel) :
    s.count = add3 (countKinds s.first.skel) (moreCount s.more) := by
  simp only [Sel.count, countSkel, Sel.skel, moreCount]
  congr 1
  induction s.more with
  | nil => rfl
  | cons x t ih => simp [ih]

theorem Sel.element_eq (ns : NsMap) (s : Sel) :
    s.element ns = moreElement ns (match s.first.head with | some t => some (t.item ns false).val | none => none) s.more := by
  simp only [Sel.element, moreElement]
  cases s.first.head <;> rfl

theorem run_sel (ns : NsMap) (s : Sel) (hs : s.ok ns = true) :
    run ns {} s.cooked
      = .ok ⟨[cxRoot], s.element ns, none, s.count.1, s.count.2.1, s.count.2.2, true, s.rpush ns, s.after⟩ := by
  simp only [Sel.ok, Bool.and_eq_true] at hs
  obtain ⟨⟨⟨_, hf⟩, hm⟩, _⟩ := hs
  simp only [Sel.cooked, List.append_assoc]
  have h0 : ({} : St) = ⟨cxRoot :: [], none, none, 0, 0, 0, true, [], eSSS⟩ := rfl
  rw [h0]
  rw [run_append_ok _ (run_fillQuiet ns cxRoot [] none 0 0 0 true eSSS (by simp) (Or.inr (by simp)) s.lead [])]
  rw [run_append_ok _ (run_compound ns s.first hf [] none 0 0 0 true _ eSSS (by simp [HeadOk]))]
  rw [run_append_ok _ (run_more ns s.more hm [] _ _ _ _ true _ _ s.first.after_comb)]
  rw [run_fillDesc ns [] _ _ _ _ true s.trail _ _ (moreAfter_comb _ s.first.after_comb _).has]
  simp [Sel.count_eq, Sel.element_eq, add3, Sel.rpush, Sel.after]

end CssVerif.Sel
