import CssVerif.Lemmas.OutObjLayout
import CssVerif.Model.OutRules
/-!
# T6.2 for properties, unknown at-rules and declaration blocks
-/
namespace CssVerif.Out
open CssVerif.Proto (Cps)

/-- `t` is empty exactly when nothing but white space is in it: the texts the serializer tests for emptiness
must not be white-space-only (finding C06-empty-items-block is the reachable counterexample) -/
def Solid (t : Cps) : Prop := t.isEmpty = (stripWs t).isEmpty

theorem isEmpty_eq_of_solid {a b : Cps} (ha : Solid a) (hb : Solid b) (e : stripWs a = stripWs b) :
    a.isEmpty = b.isEmpty := by
  unfold Solid at ha hb; rw [ha, hb, e]

theorem specialTy_0 : specialTy t_0 = false := by decide
theorem specialTy_CHAR : specialTy t_CHAR = false := by decide
theorem specialTy_COMMENT : specialTy t_COMMENT = false := by decide
theorem specialTy_ATKEYWORD : specialTy t_ATKEYWORD = false := by decide
theorem specialTy_styletext : specialTy t_styletext = false := by decide

theorem validOk_contentEq {p q : Prefs} (h : ContentEq p q) (v : Bool) : validOk p v = validOk q v := by
  unfold validOk; rw [h.validOnly]

theorem propertyName_contentEq {p q : Prefs} (h : ContentEq p q) (pr : Property) (s : Cps) :
    propertyName p pr s = propertyName q pr s := by
  unfold propertyName; rw [h.defaultPropertyName, h.keepAllProperties]

/-- closed form of `do_Property` for an ordinary (non media-query) property whose guard holds -/
theorem doProperty_eq (p : Prefs) (lv : Nat) (pr : Property) (hmq : pr.mq = false)
    (hc : (!pr.nameseq.isEmpty && pr.wf && validOk p pr.valid) = true) :
    doProperty p lv pr = (nameOut p pr).flatten ++ [58] ++ p.propertyNameSpacer ++ serObj p lv pr.value
      ++ (if pr.prioseq.isEmpty then [] else [32] ++ (prioOut p pr).flatten) := by
  have hn : (nameOut p pr).isEmpty = false := by
    unfold nameOut
    cases hns : pr.nameseq with
    | nil => simp [hns] at hc
    | cons a t => simp
  unfold doProperty
  simp only [hc, if_true, hmq, hn]
  cases hps : pr.prioseq.isEmpty <;> simp

theorem doProperty_of_not (p : Prefs) (lv : Nat) (pr : Property)
    (hc : (!pr.nameseq.isEmpty && pr.wf && validOk p pr.valid) = false) : doProperty p lv pr = [] := by
  unfold doProperty; simp [hc]

theorem nameOut_contentEq {p q : Prefs} (h : ContentEq p q) (pr : Property) : nameOut p pr = nameOut q pr := by
  unfold nameOut
  apply List.map_congr_left
  intro a _
  cases a <;> simp [doComment_contentEq h, propertyName_contentEq h]

theorem prioOut_contentEq {p q : Prefs} (h : ContentEq p q) (pr : Property) : prioOut p pr = prioOut q pr := by
  unfold prioOut
  apply List.map_congr_left
  intro a _
  cases a <;> simp [doComment_contentEq h, h.defaultPropertyPriority]

/-- emptiness of a property's text does not depend on layout: it is empty iff the guard of `do_Property` fails -/
theorem doProperty_isEmpty (p : Prefs) (lv : Nat) (pr : Property) (hmq : pr.mq = false) :
    (doProperty p lv pr).isEmpty = !(!pr.nameseq.isEmpty && pr.wf && validOk p pr.valid) := by
  cases hc : (!pr.nameseq.isEmpty && pr.wf && validOk p pr.valid)
  · rw [doProperty_of_not p lv pr hc]; rfl
  · rw [doProperty_eq p lv pr hmq hc]; simp

theorem stripWs_125 : stripWs [125] = [125] := by decide

/-- the text that closes a block: its white-space-free content is that of the block plus `}` -/
theorem closeVal_strip {r : Prefs} (hr : WsPrefs r) (top : O) :
    stripWs (if !(value top).isEmpty then indentblock r (value top ++ r.lineSeparator ++ [125]) 1
             else indentblock r [125] 1) = core top ++ [125] := by
  have hv : stripWs (value top) = core top := by
    have := stripWs_value top [] false
    simpa [stripWs_nil] using this
  split
  · rw [stripWs_indentblock hr, stripWs_append, stripWs_append, stripWs_of_allWs hr.lineSeparator, hv, stripWs_125]
    simp
  · rename_i he
    have : value top = [] := by simpa using he
    rw [stripWs_indentblock hr, stripWs_125, ← hv, this]; rfl

theorem ne_open_of_strip {val x : Cps} (e : stripWs val = x ++ [125]) : (val == [123]) = false := by
  cases hv : val == [123]
  · rfl
  · have : val = [123] := by simpa using hv
    subst this
    have e2 : stripWs [123] = [123] := by decide
    rw [e2] at e
    have := congrArg List.getLast? e
    simp at this

section
variable {p q : Prefs} (hp : WsPrefs p) (hq : WsPrefs q) (h : ContentEq p q)
include hp hq h

theorem doProperty_layout (lv lw : Nat) (pr : Property) (hmq : pr.mq = false) (ok : ObjOk p q lv lw pr.value) :
    stripWs (doProperty p lv pr) = stripWs (doProperty q lw pr) := by
  cases hc : (!pr.nameseq.isEmpty && pr.wf && validOk p pr.valid)
  · rw [doProperty_of_not p lv pr hc, doProperty_of_not q lw pr (by rw [← validOk_contentEq h]; exact hc)]
  · rw [doProperty_eq p lv pr hmq hc, doProperty_eq q lw pr hmq (by rw [← validOk_contentEq h]; exact hc)]
    simp only [stripWs_append, stripWs_of_allWs hp.propertyNameSpacer, stripWs_of_allWs hq.propertyNameSpacer,
      serObj_layout hp hq h lv lw pr.value ok, nameOut_contentEq h, prioOut_contentEq h]

/-! ### unknown at-rules -/

/-- pointwise: same white-space-free content -/
def CoreRel (a b : O) : Prop := core a = core b

theorem append_coreRel {il im : Nat} {o o' : O} (ho : CoreRel o o') {ty : Cps} {v w : AVal} (r : AValRel ty v w)
    (f g : Fl) : CoreRel (append p il o v ty f) (append q im o' w ty g) := by
  unfold CoreRel at *
  rw [core_append hp, core_append hq, ho, lexA_congr h r]

theorem uPush_rel {il im : Nat} {o o' : O} {st st' : List O} (ho : CoreRel o o') (hs : All2 CoreRel st st')
    {ty : Cps} {v w : AVal} (r : AValRel ty v w) :
    CoreRel (uPush p il o st v ty).1 (uPush q im o' st' w ty).1 ∧
      All2 CoreRel (uPush p il o st v ty).2 (uPush q im o' st' w ty).2 := by
  cases hs with
  | nil => exact ⟨append_coreRel hp hq h ho r _ _, .nil⟩
  | cons ht hr => exact ⟨ho, .cons (append_coreRel hp hq h ht r _ _) hr⟩

end

/-! ### the text of an unknown at-rule starts with its keyword -/

theorem uPush_core {r : Prefs} (hr : WsPrefs r) (il : Nat) (o : O) (st : List O) (v : AVal) (ty : Cps) :
    ∃ Y, core (uPush r il o st v ty).1 = core o ++ Y := by
  cases st with
  | nil => exact ⟨_, core_append hr il o v ty {}⟩
  | cons top rest => exact ⟨[], by simp [uPush]⟩

theorem uItems_core_prefix {r : Prefs} (hr : WsPrefs r) (lv : Nat) : ∀ (items : List UItem) (o : O) (st : List O) (t : Cps),
    uItems r lv items o st = .ok t → ∃ X, stripWs t = core o ++ X
  | [], o, _, t, ht => by
    simp only [uItems, pure, Except.pure, Except.ok.injEq] at ht
    subst ht
    exact ⟨[], by have := stripWs_value o [] false; simpa [stripWs_nil] using this⟩
  | .str ty s :: rest, o, st, t, ht => by
    simp only [uItems] at ht
    split at ht
    · cases st with
      | nil => simp at ht
      | cons top st1 =>
        simp only at ht
        obtain ⟨Y, hY⟩ := uPush_core hr (lv + 1) o st1
          (.str (if !(value top).isEmpty then indentblock r (value top ++ r.lineSeparator ++ [125]) 1
                 else indentblock r [125] 1)) ty
        obtain ⟨X, hX⟩ := uItems_core_prefix hr lv rest _ _ t ht
        exact ⟨Y ++ X, by rw [hX, hY, List.append_assoc]⟩
    · obtain ⟨Y, hY⟩ := uPush_core hr (lv + 1) o st (.str s) (if ty == t_HASH then t_None else ty)
      obtain ⟨X, hX⟩ := uItems_core_prefix hr lv rest _ _ t ht
      exact ⟨Y ++ X, by rw [hX, hY, List.append_assoc]⟩
  | .comment c :: rest, o, st, t, ht => by
    simp only [uItems] at ht
    obtain ⟨Y, hY⟩ := uPush_core hr (lv + 1) o st (.obj (doComment r c)) t_COMMENT
    obtain ⟨X, hX⟩ := uItems_core_prefix hr lv rest _ _ t ht
    exact ⟨Y ++ X, by rw [hX, hY, List.append_assoc]⟩
  | .rule u :: rest, o, st, t, ht => by
    simp only [uItems] at ht
    cases hu : doURule r lv u with
    | error e => rw [hu] at ht; simp at ht
    | ok tu =>
      rw [hu] at ht
      simp only at ht
      obtain ⟨Y, hY⟩ := uPush_core hr (lv + 1) o st (.obj tu) t_0
      obtain ⟨X, hX⟩ := uItems_core_prefix hr lv rest _ _ t ht
      exact ⟨Y ++ X, by rw [hX, hY, List.append_assoc]⟩

/-- an unknown at-rule whose keyword has non-white-space content is never written as white space only -/
def URule.keyworded : URule → Bool
  | .mk _ atk _ => !(stripWs atk).isEmpty

theorem doURule_solid {r : Prefs} (hr : WsPrefs r) (lv : Nat) (u : URule) (hk : u.keyworded = true) (t : Cps)
    (ht : doURule r lv u = .ok t) : Solid t := by
  cases u with
  | mk wf atk items =>
    simp only [doURule] at ht
    split at ht
    · obtain ⟨X, hX⟩ := uItems_core_prefix hr lv items _ _ t ht
      rw [core_append hr, core_nil, List.nil_append] at hX
      have hl : lexA r (.str atk) t_None {} = stripWs atk := by
        rw [lexA_eq]; rfl
      rw [hl] at hX
      have hne : stripWs atk ≠ [] := by
        intro e; simp [URule.keyworded, e] at hk
      have h1 : stripWs t ≠ [] := by
        rw [hX]; intro e; exact hne (List.append_eq_nil_iff.mp e).1
      have h2 : t ≠ [] := by
        intro e; subst e; exact h1 rfl
      unfold Solid
      cases t with
      | nil => exact absurd rfl h2
      | cons a b =>
        cases hs : stripWs (a :: b) with
        | nil => exact absurd hs h1
        | cons c d => rfl
    · simp only [pure, Except.pure, Except.ok.injEq] at ht
      subst ht; rfl

section
variable {p q : Prefs} (hp : WsPrefs p) (hq : WsPrefs q) (h : ContentEq p q)
include hp hq h

mutual
theorem doURule_layout (lv lw : Nat) : ∀ r : URule,
    (doURule p lv r).map stripWs = (doURule q lw r).map stripWs
  | .mk wf atk items => by
    simp only [doURule, h.keepUnknownAtRules]
    split
    · exact uItems_layout lv lw items _ _ _ _ (append_coreRel hp hq h rfl (AValRel.refl _ _) _ _) .nil
    · rfl
theorem uItems_layout (lv lw : Nat) : ∀ (items : List UItem) (o o' : O) (st st' : List O),
    CoreRel o o' → All2 CoreRel st st' →
    (uItems p lv items o st).map stripWs = (uItems q lw items o' st').map stripWs
  | [], o, o', _, _, ho, _ => by
    simp only [uItems]
    show Except.ok (stripWs (value o)) = Except.ok (stripWs (value o'))
    have a := stripWs_value o [] false
    have b := stripWs_value o' [] false
    rw [a, b, ho]
  | .str ty s :: rest, o, o', st, st', ho, hs => by
    simp only [uItems]
    split
    · rename_i hc
      have hty : ty = t_CHAR := by
        have : (ty == t_CHAR) = true := by
          cases h1 : ty == t_CHAR <;> simp [h1] at hc ⊢
        simpa using this
      cases hs with
      | nil => rfl
      | @cons top top' st1 st1' ht hr =>
        simp only
        have e1 := closeVal_strip hp top
        have e2 := closeVal_strip hq top'
        have hrel : AValRel ty
            (.str (if !(value top).isEmpty then indentblock p (value top ++ p.lineSeparator ++ [125]) 1
                   else indentblock p [125] 1))
            (.str (if !(value top').isEmpty then indentblock q (value top' ++ q.lineSeparator ++ [125]) 1
                   else indentblock q [125] 1)) := by
          rw [hty]
          exact AValRel.strs specialTy_CHAR (by rw [e1, e2, ht])
        have pr := uPush_rel hp hq h (il := lv + 1) (im := lw + 1) ho hr hrel
        rw [ne_open_of_strip e1, ne_open_of_strip e2]
        simp only [Bool.and_false, Bool.false_eq_true, if_false]
        exact uItems_layout lv lw rest _ _ _ _ pr.1 pr.2
    · generalize (if ty == t_HASH then t_None else ty) = ty1
      have pr := uPush_rel hp hq h (il := lv + 1) (im := lw + 1) ho hs (AValRel.refl ty1 (.str s))
      split
      · exact uItems_layout lv lw rest _ _ _ _ pr.1 (.cons rfl pr.2)
      · exact uItems_layout lv lw rest _ _ _ _ pr.1 pr.2
  | .comment t :: rest, o, o', st, st', ho, hs => by
    simp only [uItems]
    have hrel : AValRel t_COMMENT (.obj (doComment p t)) (.obj (doComment q t)) := by
      rw [doComment_contentEq h]; exact AValRel.refl _ _
    have pr := uPush_rel hp hq h (il := lv + 1) (im := lw + 1) ho hs hrel
    exact uItems_layout lv lw rest _ _ _ _ pr.1 pr.2
  | .rule u :: rest, o, o', st, st', ho, hs => by
    simp only [uItems]
    have ih := doURule_layout lv lw u
    cases e1 : doURule p lv u with
    | error e =>
      cases e2 : doURule q lw u with
      | error e' => cases e; cases e'; rfl
      | ok t' => rw [e1, e2] at ih; simp [Except.map] at ih
    | ok t =>
      cases e2 : doURule q lw u with
      | error e' => rw [e1, e2] at ih; simp [Except.map] at ih
      | ok t' =>
        rw [e1, e2] at ih
        have ht : stripWs t = stripWs t' := by simpa [Except.map] using ih
        have hrel : AValRel t_0 (.obj t) (.obj t') :=
          ⟨fun hsp => by rw [specialTy_0] at hsp; exact absurd hsp (by decide), ht⟩
        have pr := uPush_rel hp hq h (il := lv + 1) (im := lw + 1) ho hs hrel
        exact uItems_layout lv lw rest _ _ _ _ pr.1 pr.2
end

end

end CssVerif.Out
