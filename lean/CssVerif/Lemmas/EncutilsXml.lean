import CssVerif.Lemmas.Encutils
/-!
# The XML 1.0 declaration read strictly, and the declaration pattern of `detectXMLEncoding`

Spec side (typed by hand from XML 1.0, productions [3] S, [23] XMLDecl, [24] VersionInfo, [25] Eq, [26] VersionNum,
[32] SDDecl, [80] EncodingDecl, [81] EncName). The theorems say that the (laxer) pattern of the code reads every
strict declaration the way XML 1.0 does.
-/
set_option linter.unusedSimpArgs false
set_option linter.unusedVariables false

namespace CssVerif.Encutils
open CssVerif CssVerif.Proto CssVerif.Gen

/-- [3] one character of `S` -/
def isXmlS (c : Nat) : Prop := c = 32 ∨ c = 9 ∨ c = 13 ∨ c = 10
instance (c : Nat) : Decidable (isXmlS c) := by unfold isXmlS; infer_instance
/-- `S?` (with `w ≠ []`: `S`) -/
def XmlS (w : Cps) : Prop := ∀ c ∈ w, isXmlS c
instance (w : Cps) : Decidable (XmlS w) := by unfold XmlS; infer_instance
def isDigitX (c : Nat) : Prop := 48 ≤ c ∧ c ≤ 57
def isAlphaX (c : Nat) : Prop := (65 ≤ c ∧ c ≤ 90) ∨ (97 ≤ c ∧ c ≤ 122)
instance (c : Nat) : Decidable (isDigitX c) := by unfold isDigitX; infer_instance
instance (c : Nat) : Decidable (isAlphaX c) := by unfold isAlphaX; infer_instance
/-- [26] `VersionNum ::= '1.' [0-9]+` -/
def VersionNum (v : Cps) : Prop := ∃ ds, v = cps "1." ++ ds ∧ ds ≠ [] ∧ ∀ c ∈ ds, isDigitX c
/-- [81] `EncName ::= [A-Za-z] ([A-Za-z0-9._] | '-')*` -/
def EncName (e : Cps) : Prop :=
  ∃ c t, e = c :: t ∧ isAlphaX c ∧ ∀ x ∈ t, isAlphaX x ∨ isDigitX x ∨ x = 46 ∨ x = 95 ∨ x = 45
/-- `S name Eq q value q` with `Eq ::= S? '=' S?` [25] and matching quotes: the common shape of [24], [80], [32] -/
def PseudoAttr (name : String) (Value : Cps → Prop) (a : Cps) (value : Cps) : Prop :=
  ∃ s w1 w2 q, a = s ++ cps name ++ w1 ++ cps "=" ++ w2 ++ [q] ++ value ++ [q] ∧
    XmlS s ∧ s ≠ [] ∧ XmlS w1 ∧ XmlS w2 ∧ isQuote q ∧ Value value
/-- [24] -/
def VersionInfo (a : Cps) : Prop := ∃ v, PseudoAttr "version" VersionNum a v
/-- [80] -/
def EncodingDecl (a e : Cps) : Prop := PseudoAttr "encoding" EncName a e
/-- [32], optional -/
def SDDeclOpt (a : Cps) : Prop := a = [] ∨ ∃ v, PseudoAttr "standalone" (fun v => v = cps "yes" ∨ v = cps "no") a v
/-- [23] `XMLDecl ::= '<?xml' VersionInfo EncodingDecl? SDDecl? S? '?>'`; `enc` = the EncName if there is an EncodingDecl -/
def XMLDecl (d : Cps) (enc : Option Cps) : Prop :=
  ∃ vi ed sd s, d = cps "<?xml" ++ vi ++ ed ++ sd ++ s ++ cps "?>" ∧ VersionInfo vi ∧
    (match enc with | some e => EncodingDecl ed e | none => ed = []) ∧ SDDeclOpt sd ∧ XmlS s

theorem allWs_of_xmlS {w : Cps} (h : XmlS w) : AllWs w := by
  intro x hx
  rcases h x hx with h | h | h | h <;> subst h <;> decide

theorem noQuote_of_versionNum {v : Cps} (h : VersionNum v) : NoQuote v := by
  obtain ⟨ds, rfl, _, hd⟩ := h
  intro c hc
  rw [List.mem_append] at hc
  rcases hc with hc | hc
  · have : c = 49 ∨ c = 46 := by simpa [cps] using hc
    rcases this with h | h <;> subst h <;> decide
  · have := hd c hc
    unfold isDigitX at this; unfold isQuote; omega

theorem noQuote_of_encName {e : Cps} (h : EncName e) : NoQuote e ∧ e ≠ [] := by
  obtain ⟨c, t, rfl, hc, ht⟩ := h
  refine ⟨?_, by simp⟩
  intro x hx
  rw [List.mem_cons] at hx
  unfold isQuote
  rcases hx with hx | hx
  · subst hx; unfold isAlphaX at hc; omega
  · have := ht x hx; unfold isAlphaX isDigitX at this; omega

/-- what may stand between the EncName's closing quote and `?>`: the optional SDDecl and `S?` contain neither `?` nor `>` -/
theorem noEnd_tail {sd s : Cps} (hsd : SDDeclOpt sd) (hs : XmlS s) : NoEnd (sd ++ s) := by
  have hS : ∀ w, XmlS w → NoEnd w := by
    intro w hw c hc
    rcases hw c hc with h | h | h | h <;> subst h <;> decide
  have hq : ∀ q, isQuote q → q ≠ 63 ∧ q ≠ 62 := by
    intro q hq; rcases hq with h | h <;> subst h <;> decide
  intro c hc
  rw [List.mem_append] at hc
  rcases hc with hc | hc
  · rcases hsd with rfl | ⟨v, s0, w1, w2, q, rfl, h0, _, h1, h2, hq', hv⟩
    · simp at hc
    · simp only [List.mem_append, List.mem_singleton] at hc
      rcases hc with (((((((hc | hc) | hc) | hc) | hc) | hc) | hc) | hc)
      · exact hS _ h0 c hc
      · revert c; decide
      · exact hS _ h1 c hc
      · revert c; decide
      · exact hS _ h2 c hc
      · subst hc; exact hq _ hq'
      · rcases hv with rfl | rfl <;> (revert c; decide)
      · subst hc; exact hq _ hq'
  · exact hS _ hs c hc

/-- two ways of cutting a text into a run of `P`-characters and a rest that starts with a non-`P` character agree -/
theorem run_unique (P : Nat → Prop) : ∀ (a b : Cps) (x y : Nat) (t u : Cps), (∀ c ∈ a, P c) → (∀ c ∈ b, P c) →
    ¬ P x → ¬ P y → a ++ x :: t = b ++ y :: u → a = b ∧ x :: t = y :: u := by
  intro a
  induction a with
  | nil =>
    intro b x y t u _ hb hx _ h
    cases b with
    | nil => exact ⟨rfl, h⟩
    | cons c b =>
      simp only [List.nil_append, List.cons_append, List.cons.injEq] at h
      exact absurd (h.1 ▸ hb c (by simp)) hx
  | cons c a ih =>
    intro b x y t u ha hb hx hy h
    cases b with
    | nil =>
      simp only [List.nil_append, List.cons_append, List.cons.injEq] at h
      exact absurd (h.1 ▸ ha c (by simp)) hy
    | cons d b =>
      simp only [List.cons_append, List.cons.injEq] at h
      obtain ⟨h1, h2⟩ := h
      have := ih b x y t u (fun z hz => ha z (by simp [hz])) (fun z hz => hb z (by simp [hz])) hx hy h2
      exact ⟨by rw [h1, this.1], this.2⟩

theorem not_ws_of_quote {q : Nat} (h : isQuote q) : ¬ (isSpace q = true) := by
  rcases h with h | h <;> subst h <;> decide

/-- a strict declaration without EncodingDecl is never read as declaring an encoding, whatever follows it -/
theorem declMatch_strict_none (d rest : Cps) (hd : XMLDecl d none) : declMatch (d ++ rest) = none := by
  cases hm : declMatch (d ++ rest) with
  | none => rfl
  | some e' =>
    exfalso
    obtain ⟨w1, w2, w3, qa, ver, qb, w4, w5, w6, q1, q2, tail, rest', hbuf, hw1, _, hw2, hw3, hqa, hver, hqb, hw4, _, _⟩ :=
      declMatch_sound _ _ hm
    obtain ⟨vi, ed, sd, s, rfl, ⟨v, s1, x1, x2, q, rfl, hs1, _, hx1, hx2, hq, hv⟩, hed, hsd, hs⟩ := hd
    simp only at hed
    subst hed
    have e1 : cps "version" = 118 :: cps "ersion" := by decide
    have e2 : cps "=" = [61] := by decide
    have e3 : cps "encoding" = 101 :: cps "ncoding" := by decide
    have e4 : cps "?>" = [63, 62] := by decide
    have e5 : cps "standalone" = 115 :: cps "tandalone" := by decide
    simp only [e1, e2, e3, e4, List.append_assoc, List.cons_append, List.nil_append, List.singleton_append,
      List.append_nil] at hbuf
    have h1 := List.append_cancel_left hbuf
    obtain ⟨_, h2⟩ := run_unique (fun c => isSpace c = true) s1 w1 118 118 _ _ (allWs_of_xmlS hs1) hw1 (by decide) (by decide) h1
    have h3 := List.append_cancel_left (List.cons.inj h2).2
    obtain ⟨_, h4⟩ := run_unique (fun c => isSpace c = true) x1 w2 61 61 _ _ (allWs_of_xmlS hx1) hw2 (by decide) (by decide) h3
    have h5 := (List.cons.inj h4).2
    obtain ⟨_, h6⟩ := run_unique (fun c => isSpace c = true) x2 w3 q qa _ _ (allWs_of_xmlS hx2) hw3
      (not_ws_of_quote hq) (not_ws_of_quote hqa) h5
    have h7 := (List.cons.inj h6).2
    obtain ⟨_, h8⟩ := run_unique (fun c => ¬ isQuote c) v ver q qb _ _ (noQuote_of_versionNum hv) hver
      (fun h => h hq) (fun h => h hqb) h7
    have h9 := (List.cons.inj h8).2
    rcases hsd with rfl | ⟨sv, s0, y1, y2, q', rfl, hs0, _, _⟩
    · simp only [List.nil_append] at h9
      obtain ⟨_, h10⟩ := run_unique (fun c => isSpace c = true) s w4 63 101 _ _ (allWs_of_xmlS hs) hw4 (by decide) (by decide) h9
      exact absurd (List.cons.inj h10).1 (by decide)
    · simp only [e5, List.append_assoc, List.cons_append] at h9
      obtain ⟨_, h10⟩ := run_unique (fun c => isSpace c = true) s0 w4 115 101 _ _ (allWs_of_xmlS hs0) hw4 (by decide) (by decide) h9
      exact absurd (List.cons.inj h10).1 (by decide)

/-- a declaration starts with `<?xm` and has no BOM -/
theorem xmlDecl_head (d : Cps) (enc : Option Cps) (hd : XMLDecl d enc) : ∃ t, d = 60 :: 63 :: 120 :: 109 :: t := by
  obtain ⟨vi, ed, sd, s, rfl, _⟩ := hd
  have hx : cps "<?xml" = 60 :: 63 :: 120 :: 109 :: [108] := by decide
  rw [hx]; simp only [List.cons_append]; exact ⟨_, rfl⟩

end CssVerif.Encutils
