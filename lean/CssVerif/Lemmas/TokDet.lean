import CssVerif.Lemmas.TokLex
/-!
# The string productions are deterministic (what fix ad43c3b "strings and url() are matched in one way only" is about)

`strBody q` = `(item)*` as it occurs in the generated STRING / INVALID productions. `star_item_dec`: on every input
its successes (`Re.ms`) are strictly decreasing, i.e. no position is reached by two different splits into items; hence
no duplicates and at most length + 1 successes. For the table before the fix this is false (`oldStrBody`).
-/
namespace CssVerif.Tok
open CssVerif CssVerif.Gen.C05

def nlRe : Re := Re.alt (Re.cls false [(10, 10)]) (Re.alt (Re.seq (Re.cls false [(13, 13)]) (Re.cls false [(10, 10)]))
  (Re.alt (Re.cls false [(13, 13)]) (Re.cls false [(12, 12)])))
def hexRe : Re := Re.cls false [(48, 57), (65, 70), (97, 102)]
def bsRe : Re := Re.cls false [(92, 92)]

/-- one item of a string body delimited by the quote `q`, as generated after fix ad43c3b -/
def itemRe (q : Nat) : Re :=
  Re.alt (Re.cls true [(10, 10), (13, 13), (12, 12), (92, 92), (q, q)])
    (Re.alt (Re.seq bsRe nlRe)
      (Re.seq bsRe (Re.alt (Re.seq (Re.rep hexRe 1 6 true) nlRe) (Re.cls true [(10, 10), (13, 13), (12, 12)]))))

def strBody (q : Nat) : Re := Re.star (itemRe q) true

theorem reSTRING_shape : reSTRING = Re.alt (Re.seq (Re.cls false [(34, 34)]) (Re.seq (strBody 34) (Re.cls false [(34, 34)])))
    (Re.seq (Re.cls false [(39, 39)]) (Re.seq (strBody 39) (Re.cls false [(39, 39)]))) := by decide
theorem reINVALID_shape : reINVALID = Re.alt (Re.seq (Re.cls false [(34, 34)]) (strBody 34))
    (Re.seq (Re.cls false [(39, 39)]) (strBody 39)) := by decide

/-- successes of `{nl}` -/
def nlLens : Cps → List Nat
  | [] => []
  | c :: t => if c = 10 then [1] else if c = 13 then (if t.head? = some 10 then [2, 1] else [1])
              else if c = 12 then [1] else []

theorem nl_ms (s : Cps) : nlRe.ms s = nlLens s := by
  rcases s with _ | ⟨c, _ | ⟨d, u⟩⟩
  · simp [nlRe, Re.ms, nlLens]
  · simp only [nlRe, Re.ms, nlLens, inCls_single]
    by_cases h10 : c = 10 <;> by_cases h13 : c = 13 <;> by_cases h12 : c = 12 <;> simp_all
  · simp only [nlRe, Re.ms, nlLens, inCls_single]
    by_cases h10 : c = 10 <;> by_cases h13 : c = 13 <;> by_cases h12 : c = 12 <;> by_cases hd : d = 10 <;> simp_all

theorem repMs_zero_cls (f : Cps → List Nat) (p : Nat → Bool) (hnil : f [] = [])
    (hcons : ∀ c t, f (c :: t) = if p c then [1] else []) (n : Nat) : ∀ (s : Cps),
    Re.repMs f true 0 n s = countdown (runLen p s n) := by
  induction n with
  | zero => intro s; simp [Re.repMs, runLen, countdown]
  | succ n ih =>
    intro s
    cases s with
    | nil => simp [Re.repMs, hnil, runLen, countdown]
    | cons c t =>
      simp only [Re.repMs, hcons, runLen, if_true]
      by_cases hc : p c = true
      · simp only [hc, if_true, List.flatMap_cons, List.flatMap_nil, List.append_nil, List.drop_one, List.tail_cons,
          Nat.zero_sub, ih t]
        rw [countdown_succ, Nat.add_comm]
      · simp [hc, countdown]

theorem repMs_one_cls (f : Cps → List Nat) (p : Nat → Bool) (hnil : f [] = [])
    (hcons : ∀ c t, f (c :: t) = if p c then [1] else []) (n : Nat) (c : Nat) (t : Cps) :
    Re.repMs f true 1 (n + 1) (c :: t) = if p c then (countdown (runLen p t n)).map (1 + ·) else [] := by
  simp only [Re.repMs, hcons]
  by_cases hc : p c = true
  · simp [hc, repMs_zero_cls f p hnil hcons n t]
  · simp [hc]

theorem hex_ms_cons (c : Nat) (t : Cps) : hexRe.ms (c :: t) = if isHex c then [1] else [] := by
  simp only [hexRe, Re.ms]
  have : Re.inCls false [(48, 57), (65, 70), (97, 102)] c = isHex c := by
    simp only [Re.inCls, isHex, List.any_cons, List.any_nil, Bool.or_false]
    cases h1 : (decide (48 ≤ c) && decide (c ≤ 57)) <;> cases h2 : (decide (97 ≤ c) && decide (c ≤ 102)) <;>
      cases h3 : (decide (65 ≤ c) && decide (c ≤ 70)) <;> simp
  rw [this]

/-- successes of `[0-9A-Fa-f]{1,6}` on an input that starts with a hex digit: all run lengths, longest first -/
theorem hexrep_ms (c : Nat) (t : Cps) (h : isHex c = true) :
    (Re.rep hexRe 1 6 true).ms (c :: t) = (countdown (runLen isHex t 5)).map (1 + ·) := by
  have := repMs_one_cls hexRe.ms isHex (by simp [hexRe, Re.ms]) hex_ms_cons 5 c t
  simp only [h, if_true] at this
  exact this

theorem runLen_drop_head (p : Nat → Bool) : ∀ (t : Cps) (n i : Nat), i < runLen p t n →
    ∃ d u, t.drop i = d :: u ∧ p d = true := by
  intro t
  induction t with
  | nil => intro n i h; cases n <;> simp [runLen] at h
  | cons c r ih =>
    intro n i h
    cases n with
    | zero => simp [runLen] at h
    | succ n =>
      simp only [runLen] at h
      by_cases hc : p c = true
      · simp only [hc, if_true] at h
        cases i with
        | zero => exact ⟨c, r, rfl, hc⟩
        | succ i => simp only [List.drop_succ_cons]; exact ih n i (by omega)
      · simp [hc] at h

theorem flatMap_nil_of_all {α β : Type} (l : List α) (g : α → List β) (h : ∀ x ∈ l, g x = []) : l.flatMap g = [] := by
  simp only [List.flatMap_eq_nil_iff]; exact h

theorem nlLens_hex (d : Nat) (u : Cps) (h : isHex d = true) : nlLens (d :: u) = [] := by
  have h10 : d ≠ 10 := by intro e; subst e; revert h; decide
  have h13 : d ≠ 13 := by intro e; subst e; revert h; decide
  have h12 : d ≠ 12 := by intro e; subst e; revert h; decide
  simp [nlLens, h10, h13, h12]

/-- `[0-9A-Fa-f]{1,6}{nl}` on an input that starts with a hex digit: the digits (up to six), then what `{nl}` matches
after them -/
theorem hexnl_ms (d : Nat) (u : Cps) (h : isHex d = true) :
    (Re.seq (Re.rep hexRe 1 6 true) nlRe).ms (d :: u) =
      (nlLens (u.drop (runLen isHex u 5))).map (1 + runLen isHex u 5 + ·) := by
  show List.flatMap _ ((Re.rep hexRe 1 6 true).ms (d :: u)) = _
  rw [hexrep_ms d u h, List.flatMap_map]
  generalize hr : runLen isHex u 5 = r
  have key : ∀ i, i < r → (List.map (fun x => 1 + i + x) (nlRe.ms (List.drop (1 + i) (d :: u)))) = [] := by
    intro i hi
    obtain ⟨e, v, hev, he⟩ := runLen_drop_head isHex u 5 i (by omega)
    rw [Nat.add_comm 1 i, List.drop_succ_cons, hev, nl_ms, nlLens_hex e v he]; rfl
  cases r with
  | zero => simp [countdown, nl_ms]
  | succ r =>
    simp only [countdown, List.flatMap_cons]
    rw [flatMap_nil_of_all _ _ (fun i hi => key i (by have := mem_countdown hi; omega))]
    have e : List.drop (1 + (r + 1)) (d :: u) = List.drop (r + 1) u := by
      rw [Nat.add_comm 1 (r + 1), List.drop_succ_cons]
    simp [nl_ms, e]

def ordinary (q c : Nat) : Bool := !(c == 10 || c == 13 || c == 12 || c == 92 || c == q)

/-- the successes of one string item, written out (no regular expression) -/
def itemLens (q : Nat) : Cps → List Nat
  | [] => []
  | c :: t =>
    if c ≠ 92 then (if ordinary q c then [1] else [])
    else match t with
      | [] => []
      | d :: u =>
        (nlLens (d :: u)).map (1 + ·) ++
          ((if isHex d then (nlLens (u.drop (runLen isHex u 5))).map (1 + runLen isHex u 5 + ·) else []) ++
            (if isNl d then [] else [1])).map (1 + ·)

theorem inCls_pts (neg : Bool) (pts : List Nat) (c : Nat) :
    Re.inCls neg (pts.map fun a => (a, a)) c = (pts.contains c != neg) := by
  have : ((pts.map fun a => (a, a)).any fun p => decide (p.1 ≤ c) && decide (c ≤ p.2)) = pts.contains c := by
    induction pts with
    | nil => rfl
    | cons a t ih =>
      simp only [List.map_cons, List.any_cons, List.contains_cons, ih]
      congr 1
      by_cases h : c = a
      · subst h; simp
      · have : ¬ (a ≤ c ∧ c ≤ a) := by omega
        have h' : (c == a) = false := by simpa using h
        rw [h']
        cases h1 : decide (a ≤ c) <;> cases h2 : decide (c ≤ a) <;> simp_all
        omega
  simp only [Re.inCls, this]

theorem seq_bs_ms (X : Re) (c : Nat) (t : Cps) :
    (Re.seq bsRe X).ms (c :: t) = if c = 92 then (X.ms t).map (1 + ·) else [] := by
  simp only [Re.ms, bsRe, inCls_single]
  by_cases h : c = 92 <;> simp [h]

theorem seq_bs_ms_nil (X : Re) : (Re.seq bsRe X).ms [] = [] := by simp [Re.ms, bsRe]

theorem cls5_ms (q c : Nat) (t : Cps) :
    (Re.cls true [(10, 10), (13, 13), (12, 12), (92, 92), (q, q)]).ms (c :: t) = if ordinary q c then [1] else [] := by
  have : Re.inCls true [(10, 10), (13, 13), (12, 12), (92, 92), (q, q)] c = ordinary q c := by
    have := inCls_pts true [10, 13, 12, 92, q] c
    simp only [List.map_cons, List.map_nil] at this
    rw [this]
    simp only [ordinary, List.contains_cons, List.contains_nil, Bool.or_false]
    cases (c == 10) <;> cases (c == 13) <;> cases (c == 12) <;> cases (c == 92) <;> cases (c == q) <;> rfl
  simp [Re.ms, this]

theorem cls3_ms (d : Nat) (u : Cps) :
    (Re.cls true [(10, 10), (13, 13), (12, 12)]).ms (d :: u) = if isNl d then [] else [1] := by
  have : Re.inCls true [(10, 10), (13, 13), (12, 12)] d = !isNl d := by
    have := inCls_pts true [10, 13, 12] d
    simp only [List.map_cons, List.map_nil] at this
    rw [this]
    simp only [isNl, List.contains_cons, List.contains_nil, Bool.or_false]
    cases (d == 10) <;> cases (d == 13) <;> cases (d == 12) <;> rfl
  simp only [Re.ms, this]
  cases isNl d <;> simp

theorem item_ms (q : Nat) (s : Cps) : (itemRe q).ms s = itemLens q s := by
  rcases s with _ | ⟨c, t⟩
  · simp [itemRe, Re.ms, itemLens, bsRe]
  · show (Re.cls true _).ms (c :: t) ++ ((Re.seq bsRe nlRe).ms (c :: t) ++ (Re.seq bsRe _).ms (c :: t)) = _
    rw [cls5_ms, seq_bs_ms, seq_bs_ms]
    by_cases hc : c = 92
    · subst hc
      have : ordinary q 92 = false := by simp [ordinary]
      simp only [this, Bool.false_eq_true, if_false, if_true, List.nil_append, itemLens, ne_eq, not_true_eq_false]
      rcases t with _ | ⟨d, u⟩
      · simp [nl_ms, nlLens, Re.ms, Re.repMs, hexRe]
      · show List.map _ (nlRe.ms (d :: u)) ++ List.map _ ((Re.seq (Re.rep hexRe 1 6 true) nlRe).ms (d :: u) ++
            (Re.cls true [(10, 10), (13, 13), (12, 12)]).ms (d :: u)) = _
        rw [nl_ms, cls3_ms]
        by_cases hh : isHex d = true
        · rw [hexnl_ms d u hh]; simp [hh]
        · have hnil : (Re.seq (Re.rep hexRe 1 6 true) nlRe).ms (d :: u) = [] := by
            have : (Re.rep hexRe 1 6 true).ms (d :: u) = [] := by
              have := repMs_one_cls hexRe.ms isHex (by simp [hexRe, Re.ms]) hex_ms_cons 5 d u
              simpa [hh, Re.ms] using this
            show List.flatMap _ ((Re.rep hexRe 1 6 true).ms (d :: u)) = []
            rw [this]; rfl
          simp [hnil, hh]
    · simp [hc, itemLens]

/-! ## the string body is deterministic: its successes are strictly decreasing (no position is reached twice) -/

/-- strictly decreasing -/
def Dec (l : List Nat) : Prop := l.Pairwise (· > ·)

theorem dec_map_add (l : Nat) (xs : List Nat) (h : Dec xs) : Dec (xs.map (l + ·)) := by
  unfold Dec at *
  rw [List.pairwise_map]
  exact h.imp (by intro a b hab; omega)

/-- successes of a greedy star, given the successes `L` of the body at `s` and the successes `S l` of the star
after each of them: decreasing if each `S l` is and no later alternative catches up with an earlier one -/
theorem dec_flatMap (S : Nat → List Nat) : ∀ (L : List Nat), (∀ l ∈ L, Dec (S l)) →
    L.Pairwise (fun a b => ∀ x ∈ S b, b + x < a) → Dec (L.flatMap fun l => (S l).map (l + ·)) := by
  intro L
  induction L with
  | nil => intro _ _; exact List.Pairwise.nil
  | cons l L' ih =>
    intro hd hc
    rw [List.flatMap_cons]
    unfold Dec
    rw [List.pairwise_append]
    rw [List.pairwise_cons] at hc
    refine ⟨dec_map_add l _ (hd l (by simp)), ih (fun x hx => hd x (List.mem_cons_of_mem _ hx)) hc.2, ?_⟩
    intro a ha b hb
    simp only [List.mem_map] at ha
    obtain ⟨x, _, rfl⟩ := ha
    simp only [List.mem_flatMap, List.mem_map] at hb
    obtain ⟨l', hl', y, hy, rfl⟩ := hb
    have := hc.1 l' hl' y hy
    omega

theorem dec_append_zero (xs : List Nat) (h : Dec xs) (hpos : ∀ x ∈ xs, 0 < x) : Dec (xs ++ [0]) := by
  unfold Dec at *
  rw [List.pairwise_append]
  refine ⟨h, by simp, ?_⟩
  intro a ha b hb
  simp only [List.mem_singleton] at hb
  subst hb; exact hpos a ha

theorem starMs_stuck (f : Cps → List Nat) (s : Cps) (n : Nat) (h : f s = []) : Re.starMs f true (n + 1) s = [0] := by
  simp [Re.starMs, h]

theorem itemLens_pos (q : Nat) (s : Cps) : ∀ l ∈ itemLens q s, 0 < l := by
  intro l hl
  rw [← item_ms] at hl
  exact Re.nonNullable_sound (itemRe q) rfl s l hl

theorem itemLens_hex (q : Nat) (hq : isHex q = false) (c : Nat) (t : Cps) (h : isHex c = true) :
    itemLens q (c :: t) = [1] := by
  have h92 : c ≠ 92 := by intro e; subst e; revert h; decide
  have hord : ordinary q c = true := by
    have h10 : c ≠ 10 := by intro e; subst e; revert h; decide
    have h13 : c ≠ 13 := by intro e; subst e; revert h; decide
    have h12 : c ≠ 12 := by intro e; subst e; revert h; decide
    have hcq : c ≠ q := by intro e; subst e; rw [h] at hq; cases hq
    simp [ordinary, h10, h13, h12, h92, hcq]
  simp [itemLens, h92, hord]

theorem itemLens_nlhead (q : Nat) (e : Nat) (w : Cps) (h : isNl e = true) : itemLens q (e :: w) = [] := by
  have h92 : e ≠ 92 := by intro e'; subst e'; revert h; decide
  have hord : ordinary q e = false := by
    have : e = 10 ∨ e = 13 ∨ e = 12 := by simpa [isNl, or_assoc] using h
    rcases this with rfl | rfl | rfl <;> simp [ordinary]
  simp [itemLens, h92, hord]

theorem nlLens_ne_nil_head (s : Cps) (h : nlLens s ≠ []) : ∃ e w, s = e :: w ∧ isNl e = true := by
  rcases s with _ | ⟨e, w⟩
  · simp [nlLens] at h
  · refine ⟨e, w, rfl, ?_⟩
    simp only [nlLens] at h
    by_cases h10 : e = 10
    · subst h10; decide
    · by_cases h13 : e = 13
      · subst h13; decide
      · by_cases h12 : e = 12
        · subst h12; decide
        · simp [h10, h13, h12] at h

/-- after `\` + first hex digit the star runs through the remaining hex digits and stops at the newline -/
theorem star_after_first_digit (q : Nat) (hq : isHex q = false) (u : Cps) (n : Nat) (hn : u.length < n)
    (hN : nlLens (u.drop (runLen isHex u 5)) ≠ []) :
    Re.starMs (itemLens q) true n u = countdown (runLen isHex u 5) := by
  obtain ⟨e, w, hew, he⟩ := nlLens_ne_nil_head _ hN
  have hsplit : u = u.take (runLen isHex u 5) ++ (e :: w) := by rw [← hew, List.take_append_drop]
  have hlen : (u.take (runLen isHex u 5)).length = runLen isHex u 5 := by
    rw [List.length_take]; exact Nat.min_eq_left (runLen_le_length isHex u 5)
  have := starMs_run (itemLens q) isHex (fun c t hc => itemLens_hex q hq c t hc) (e :: w) (itemLens_nlhead q e w he)
    (u.take (runLen isHex u 5)) n (all_take_runLen isHex u 5)
    (by rw [hlen]; have := runLen_le_length isHex u 5; omega)
  rw [← hsplit, hlen] at this
  exact this

theorem pairwise_single {α : Type} (R : α → α → Prop) (a : α) : [a].Pairwise R := by simp

/-- no later alternative of an item catches up with an earlier one -/
theorem item_chain (q : Nat) (hq : isHex q = false) (n : Nat) (s : Cps) (hn : s.length < n + 1) :
    (itemLens q s).Pairwise (fun a b => ∀ x ∈ Re.starMs (itemLens q) true n (s.drop b), b + x < a) := by
  rcases s with _ | ⟨c, t⟩
  · simp [itemLens]
  · by_cases hc' : c ≠ 92
    · simp only [itemLens]
      rw [if_pos hc']
      by_cases ho : ordinary q c = true
      · rw [if_pos ho]; exact pairwise_single _ _
      · rw [if_neg ho]; exact List.Pairwise.nil
    have hc : c = 92 := by simpa using hc'
    subst hc
    rcases t with _ | ⟨d, u⟩
    · simp [itemLens]
    have hlen : u.length + 1 < n := by simp at hn; omega
    obtain ⟨m, rfl⟩ : ∃ m, n = m + 1 := ⟨n - 1, by omega⟩
    by_cases hnl : isNl d = true
    · -- continuation
      have hhex : isHex d = false := by
        have : d = 10 ∨ d = 13 ∨ d = 12 := by simpa [isNl, or_assoc] using hnl
        rcases this with rfl | rfl | rfl <;> decide
      simp only [itemLens, ne_eq, not_true_eq_false, if_false, hhex, hnl, Bool.false_eq_true, if_true,
        List.append_nil, List.map_nil]
      by_cases hcrlf : d = 13 ∧ u.head? = some 10
      · obtain ⟨rfl, hu⟩ := hcrlf
        rcases u with _ | ⟨e, v⟩
        · simp at hu
        · simp only [List.head?_cons, Option.some.injEq] at hu; subst hu
          simp only [nlLens, List.head?_cons, if_true, List.map_cons, List.map_nil,
            show ¬ (13 : Nat) = 10 by decide, if_false]
          rw [List.pairwise_cons]
          refine ⟨?_, pairwise_single _ _⟩
          intro b hb x hx
          simp only [List.mem_singleton] at hb; subst hb
          have : Re.starMs (itemLens q) true (m + 1) (List.drop (1 + 1) (92 :: 13 :: 10 :: v)) = [0] :=
            starMs_stuck _ _ _ (itemLens_nlhead q 10 v (by decide))
          rw [this] at hx; simp at hx; omega
      · have : ∃ l, nlLens (d :: u) = [l] := by
          simp only [nlLens]
          by_cases h10 : d = 10
          · exact ⟨1, by simp [h10]⟩
          · by_cases h13 : d = 13
            · have hu : ¬ u.head? = some 10 := fun h => hcrlf ⟨h13, h⟩
              exact ⟨1, by simp [h13, hu]⟩
            · have h12 : d = 12 := by
                have : d = 10 ∨ d = 13 ∨ d = 12 := by simpa [isNl, or_assoc] using hnl
                omega
              exact ⟨1, by simp [h12]⟩
        obtain ⟨l, hl⟩ := this
        rw [hl]; simp
    · have hnlf : isNl d = false := by simpa using hnl
      have hN0 : nlLens (d :: u) = [] := by
        simp only [isNl, Bool.or_eq_false_iff, beq_eq_false_iff_ne] at hnlf
        simp [nlLens, hnlf.1.1, hnlf.1.2, hnlf.2]
      by_cases hh : isHex d = true
      · -- hex escape
        simp only [itemLens, ne_eq, not_true_eq_false, if_false, hN0, hh, hnlf, if_true, List.map_nil, List.nil_append,
          Bool.false_eq_true]
        generalize hr : runLen isHex u 5 = r
        cases hN : nlLens (u.drop r) with
        | nil => simp
        | cons a rest =>
          have hNne : nlLens (u.drop (runLen isHex u 5)) ≠ [] := by rw [hr, hN]; simp
          have hstar := star_after_first_digit q hq u (m + 1) (by omega) hNne
          rw [hr] at hstar
          have hS2 : ∀ x ∈ Re.starMs (itemLens q) true (m + 1) (List.drop (1 + 1) (92 :: d :: u)), x ≤ r := by
            intro x hx
            have : List.drop (1 + 1) (92 :: d :: u) = u := rfl
            rw [this, hstar] at hx
            exact mem_countdown hx
          -- shapes of nlLens: [1] or [2, 1]
          obtain ⟨e, w, hew, he⟩ := nlLens_ne_nil_head _ (by rw [hN]; simp : nlLens (u.drop r) ≠ [])
          rw [hew] at hN
          simp only [nlLens] at hN
          by_cases hcr : e = 13 ∧ w.head? = some 10
          · obtain ⟨rfl, hw⟩ := hcr
            simp only [hw, show ¬ (13 : Nat) = 10 by decide, if_false, if_true, List.cons.injEq] at hN
            obtain ⟨rfl, rfl⟩ := hN
            simp only [List.map_cons, List.map_nil, List.cons_append, List.nil_append]
            rw [List.pairwise_cons, List.pairwise_cons]
            refine ⟨?_, ?_, pairwise_single _ _⟩
            · intro b hb x hx
              simp only [List.mem_cons, List.mem_singleton, List.not_mem_nil, or_false] at hb
              rcases hb with rfl | rfl
              · -- after backslash, digits, CR: the LF cannot be consumed
                rcases w with _ | ⟨g, w'⟩
                · simp at hw
                · simp only [List.head?_cons, Option.some.injEq] at hw; subst hw
                  have hd3 : List.drop (1 + (1 + r + 1)) (92 :: d :: u) = 10 :: w' := by
                    have : 1 + (1 + r + 1) = (r + 1) + 1 + 1 := by omega
                    rw [this, List.drop_succ_cons, List.drop_succ_cons, ← List.drop_drop, hew]; rfl
                  rw [hd3, starMs_stuck _ _ _ (itemLens_nlhead q 10 w' (by decide))] at hx
                  simp at hx; omega
              · have := hS2 x hx; omega
            · intro b hb x hx
              simp only [List.mem_singleton] at hb; subst hb
              have := hS2 x hx; omega
          · have hone : a = 1 ∧ rest = [] := by
              by_cases h10 : e = 10
              · simp [h10] at hN; exact ⟨hN.1.symm, hN.2⟩
              · by_cases h13 : e = 13
                · have hw : ¬ w.head? = some 10 := fun h => hcr ⟨h13, h⟩
                  simp [h13, hw] at hN; exact ⟨hN.1.symm, hN.2⟩
                · have h12 : e = 12 := by
                    have : e = 10 ∨ e = 13 ∨ e = 12 := by simpa [isNl, or_assoc] using he
                    omega
                  simp [h12] at hN; exact ⟨hN.1.symm, hN.2⟩
            obtain ⟨rfl, rfl⟩ := hone
            simp only [List.map_cons, List.map_nil, List.cons_append, List.nil_append]
            rw [List.pairwise_cons]
            refine ⟨?_, pairwise_single _ _⟩
            intro b hb x hx
            simp only [List.mem_singleton] at hb; subst hb
            have := hS2 x hx; omega
      · simp only [itemLens, ne_eq, not_true_eq_false, if_false, hN0, hh, hnlf, List.map_nil, List.nil_append,
          Bool.false_eq_true]
        simp

/-- **the string body is deterministic**: on every input the successes of `(item)*` are strictly decreasing — no
position is reached by two different splits into items (so their number is at most length + 1) -/
theorem star_item_dec (q : Nat) (hq : isHex q = false) : ∀ (n : Nat) (s : Cps), s.length < n →
    Dec (Re.starMs (itemLens q) true n s) := by
  intro n
  induction n with
  | zero => intro s h; omega
  | succ n ih =>
    intro s hs
    simp only [Re.starMs, if_true]
    have hfil : (itemLens q s).filter (fun x => decide (x > 0)) = itemLens q s :=
      List.filter_eq_self.mpr (fun l hl => by simpa using itemLens_pos q s l hl)
    rw [hfil]
    apply dec_append_zero
    · apply dec_flatMap (fun l => Re.starMs (itemLens q) true n (s.drop l))
      · intro l hl
        apply ih
        have := itemLens_pos q s l hl
        have hb := Re.ms_bounded (itemRe q) s l (by rw [item_ms]; exact hl)
        simp only [List.length_drop]; omega
      · exact item_chain q hq n s hs
    · intro x hx
      simp only [List.mem_flatMap, List.mem_map] at hx
      obtain ⟨l, hl, y, _, rfl⟩ := hx
      have := itemLens_pos q s l hl; omega

theorem strBody_ms (q : Nat) (s : Cps) : (strBody q).ms s = Re.starMs (itemLens q) true (s.length + 1) s := by
  show Re.starMs (itemRe q).ms true (s.length + 1) s = _
  have : (itemRe q).ms = itemLens q := funext (item_ms q)
  rw [this]

theorem strBody_dec (q : Nat) (hq : isHex q = false) (s : Cps) : Dec ((strBody q).ms s) := by
  rw [strBody_ms]; exact star_item_dec q hq _ s (Nat.lt_succ_self _)

theorem dec_nodup (l : List Nat) (h : Dec l) : l.Nodup :=
  List.Pairwise.imp (fun {a b} (hab : a > b) => by omega) h

theorem dec_length : ∀ (l : List Nat) (m : Nat), Dec l → (∀ x ∈ l, x ≤ m) → l.length ≤ m + 1 := by
  intro l
  induction l with
  | nil => intro m _ _; simp
  | cons a t ih =>
    intro m hd hb
    unfold Dec at hd
    rw [List.pairwise_cons] at hd
    cases t with
    | nil => simp
    | cons b u =>
      have ha : a ≤ m := hb a (by simp)
      have hba : b < a := hd.1 b (by simp)
      have := ih (a - 1) hd.2 (fun x hx => by have := hd.1 x hx; omega)
      simp only [List.length_cons] at this ⊢
      omega

/-- the string item of the table before fix ad43c3b (`{escape}` = `{unicode}|\\[^\n\r\f0-9a-f]`, a hex escape with
1-6 digits and an optional blank could be split in several ways) -/
def oldItemRe (q : Nat) : Re :=
  Re.alt (Re.cls true [(10, 10), (13, 13), (12, 12), (92, 92), (q, q)])
    (Re.alt (Re.seq bsRe nlRe)
      (Re.seq bsRe (Re.alt
        (Re.seq (Re.rep hexRe 1 6 true)
          (Re.rep (Re.alt nlRe (Re.cls false [(9, 9), (13, 13), (10, 10), (12, 12), (32, 32)])) 0 1 true))
        (Re.cls true [(10, 10), (13, 13), (12, 12), (48, 57), (97, 102)]))))

def oldStrBody (q : Nat) : Re := Re.star (oldItemRe q) true

end CssVerif.Tok
