import CssVerif.Lemmas.Struct
/-!
# Lemmas about K2 `Struct`, part 3: CSS-level bracket structure versus the value-based one of the code

Known finding `C04-escaped-delimiter-ident`: `_tokensupto2` classifies brackets and end tokens by token VALUE;
CSS means CHAR tokens (and FUNCTION for an opening parenthesis).  `nestCss` / `QuietCss` / `endTokCss` are the
CSS-level notions; under the guard `plainTokS` (no non-CHAR token carries a delimiter as its unescaped value —
what the proposed tokenizer fix `proposed-fixes/C04-escaped-delimiter-kept.diff` makes an invariant) they
coincide with the notions all C04 theorems use.
-/
namespace CssVerif.Struct
open CssVerif.Proto (Cps)
set_option linter.unusedSimpArgs false

/-- CSS-level end token of a mode: a CHAR token that is one of the mode's end characters (or a STRING in
the two media-query modes) -/
def endTokCss (m : Mode) (t : Tok) : Bool :=
  (t.typ == .char && t.val.length == 1 && isInfixOf t.val m.ends) || (m.endString && t.typ == .string)

def pushCss (stk : List K) (t : Tok) : Option (List K) :=
  match t.cssBr with
  | .op k => some (k :: stk)
  | .cl k =>
    match stk with
    | k' :: s => if k = k' then some s else none
    | [] => none
  | .no => some stk

def nestCss : List K → List Tok → Option (List K)
  | stk, [] => some stk
  | stk, t :: ts =>
    match pushCss stk t with
    | none => none
    | some s => nestCss s ts

def QuietCss (m : Mode) : List K → List Tok → Bool
  | _, [] => true
  | stk, t :: ts =>
    match pushCss stk t with
    | none => false
    | some s => t.typ != .eof && !(s.isEmpty && endTokCss m t) && QuietCss m s ts

def allModes : List Mode :=
  [.default, .blockstart, .blockend, .mediaend, .importmq, .mq, .semicolon, .propname, .propvalue, .propprio,
   .selatt, .funcend, .listsep]

theorem mem_allModes (m : Mode) : m ∈ allModes := by cases m <;> decide

/-- the guard of the finding, in full: a CHAR token is a single character; any other token has a value that is
neither a bracket nor (a substring of) the end characters of any mode -/
def plainTokS (t : Tok) : Bool :=
  if t.typ == .char then t.val.length == 1
  else plainTok t && allModes.all (fun m => !isInfixOf t.val m.ends)

theorem plainTokS_br (t : Tok) (h : plainTokS t = true) : t.br = t.cssBr := by
  apply br_eq_cssBr
  unfold plainTokS at h
  split at h
  · next hc => simp [plainTok, hc]
  · simp only [Bool.and_eq_true] at h; exact h.1

theorem plainTokS_end (m : Mode) (t : Tok) (h : plainTokS t = true) : endTok m t = endTokCss m t := by
  unfold plainTokS at h
  unfold endTok endTokCss
  split at h
  · next hc => simp [hc, h]
  · next hc =>
    simp only [Bool.and_eq_true, List.all_eq_true, Bool.not_eq_true'] at h
    have := h.2 m (mem_allModes m)
    simp [this, hc]

theorem push_eq_pushCss (stk : List K) (t : Tok) (h : plainTokS t = true) : push stk t = pushCss stk t := by
  have hb := plainTokS_br t h
  cases hc : t.cssBr <;> simp [push, pushCss, hb, hc]
  cases stk <;> rfl

theorem nest_eq_nestCss (stk : List K) (g : List Tok) (h : ∀ t ∈ g, plainTokS t = true) :
    nest stk g = nestCss stk g := by
  induction g generalizing stk with
  | nil => rfl
  | cons t ts ih =>
    have ih' := fun s => ih s (fun t' ht' => h t' (List.mem_cons_of_mem _ ht'))
    unfold nest nestCss
    rw [push_eq_pushCss stk t (h t List.mem_cons_self)]
    cases hp : pushCss stk t <;> simp [ih']

theorem quiet_eq_quietCss (m : Mode) (stk : List K) (g : List Tok) (h : ∀ t ∈ g, plainTokS t = true) :
    Quiet m stk g = QuietCss m stk g := by
  induction g generalizing stk with
  | nil => rfl
  | cons t ts ih =>
    have ih' := fun s => ih s (fun t' ht' => h t' (List.mem_cons_of_mem _ ht'))
    unfold Quiet QuietCss
    rw [push_eq_pushCss stk t (h t List.mem_cons_self)]
    cases hp : pushCss stk t <;> simp [ih', plainTokS_end m t (h t List.mem_cons_self)]

end CssVerif.Struct
