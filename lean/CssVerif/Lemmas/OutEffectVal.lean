import CssVerif.Model.OutEffectDom
import CssVerif.Lemmas.OutObj
/-!
# T6.3 — the value-level content preferences as DOM rewrites

`minimizeColorHash`: a HASH item `#aabbcc` of a value is rewritten to `#abc` in the DOM; serializing the rewritten
DOM gives the same text (`serObj_effObj`), the rewritten items are normal (`hash` leaves them alone under every
record, `hash_normal`). `resolveVariables` at rule level is in `OutEffect.lean` (the `@variables` rules are dropped);
the value-level half (`var(x)` written as the value of `x`) is `varText_resolved`.
-/
namespace CssVerif.Out
open CssVerif.Proto (Cps)

/-! ### `_hash` -/

theorem hash_idem (p : Prefs) (v : Cps) : hash p (hash p v) = hash p v := by
  rcases v with _|⟨x,_|⟨a,_|⟨b,_|⟨c,_|⟨d,_|⟨e,_|⟨f,_|⟨g,t⟩⟩⟩⟩⟩⟩⟩⟩ <;> try rfl
  by_cases h : (p.minimizeColorHash && a == b && c == d && e == f) = true
  · simp only [hash, h, if_true]
  · have h' : (p.minimizeColorHash && a == b && c == d && e == f) = false := by simpa using h
    simp [hash, h']

/-- a shortened (or unshortenable) hash is left alone under every record, when `p` shortens -/
theorem hash_normal (p q : Prefs) (hp : p.minimizeColorHash = true) (v : Cps) : hash q (hash p v) = hash p v := by
  rcases v with _|⟨x,_|⟨a,_|⟨b,_|⟨c,_|⟨d,_|⟨e,_|⟨f,_|⟨g,t⟩⟩⟩⟩⟩⟩⟩⟩ <;> try rfl
  by_cases h : (p.minimizeColorHash && a == b && c == d && e == f) = true
  · simp only [hash, h, if_true]
  · have h' : (p.minimizeColorHash && a == b && c == d && e == f) = false := by simpa using h
    have h2 : (q.minimizeColorHash && a == b && c == d && e == f) = false := by
      rw [hp] at h'
      cases q.minimizeColorHash
      · rfl
      · simpa using h'
    simp [hash, h', h2]

theorem hash_isEmpty (p : Prefs) (v : Cps) : (hash p v).isEmpty = v.isEmpty := by
  rcases v with _|⟨x,_|⟨a,_|⟨b,_|⟨c,_|⟨d,_|⟨e,_|⟨f,_|⟨g,t⟩⟩⟩⟩⟩⟩⟩⟩ <;> try rfl
  simp only [hash]
  split <;> rfl

theorem hash_head (p : Prefs) (v : Cps) (h : v.head? = some 35) : (hash p v).head? = some 35 := by
  rcases v with _|⟨x,_|⟨a,_|⟨b,_|⟨c,_|⟨d,_|⟨e,_|⟨f,_|⟨g,t⟩⟩⟩⟩⟩⟩⟩⟩ <;> try exact h
  simp only [hash]
  split
  · rfl
  · exact h

/-- two calls that `Out.append` cannot tell apart under `p` -/
def CallEq (p : Prefs) (c d : Call) : Prop := ∀ il o, append p il o c.v c.ty c.f = append p il o d.v d.ty d.f

theorem CallEq.rfl' (p : Prefs) (c : Call) : CallEq p c c := fun _ _ => rfl

theorem runCalls_callEq (p : Prefs) (il : Nat) {cs ds : List Call} (r : All2 (CallEq p) cs ds) :
    ∀ o, runCalls p il cs o = runCalls p il ds o := by
  induction r with
  | nil => intro o; rfl
  | @cons c d cs' ds' hd _ ih =>
    intro o
    show runCalls p il cs' (append p il o c.v c.ty c.f) = runCalls p il ds' (append p il o d.v d.ty d.f)
    rw [hd il o, ih]

theorem all2_map_same {α : Type} {R : Call → Call → Prop} (f g : α → Call) (h : ∀ x, R (f x) (g x)) :
    ∀ l : List α, All2 R (l.map f) (l.map g)
  | [] => .nil
  | x :: t => .cons (h x) (all2_map_same f g h t)

/-- the HASH call with the shortened string is the HASH call with the string as written -/
theorem callEq_hash (p : Prefs) (s : Cps) (f : Fl) :
    CallEq p { v := .str (hash p s), ty := t_HASH, f := f } { v := .str s, ty := t_HASH, f := f } := by
  intro il o
  have e1 : (t_HASH == t_COMMENT) = false := by decide
  have e2 : (t_HASH == t_S) = false := by decide
  have e3 : (t_HASH == t_STRING) = false := by decide
  have e4 : (t_HASH == t_URI) = false := by decide
  simp only [append, appendPre, AVal.truthy, AVal.text, hash_isEmpty, hash_idem, e1, e2, e3, e4, Bool.false_eq_true,
    if_false, beq_self_eq_true, if_true]

/-- the rewrite on an evaluated item -/
def hashE (p : Prefs) (it : EItem) : EItem :=
  (it.1, match it.2 with
    | .str s => .str (hashStr p it.1 s)
    | e => e)

theorem requote_hashStr (p : Prefs) (ty s : Cps) (h : (ty == t_HASH && s.head? == some 35) = true) :
    requote (hash p s) = hash p s ∧ requote s = s := by
  have hs : s.head? = some 35 := by
    simp only [Bool.and_eq_true, beq_iff_eq] at h; exact h.2
  have rq : ∀ w : Cps, w.head? = some 35 → requote w = w := by
    intro w hw
    cases w with
    | nil => rfl
    | cons c t =>
      have : c = 35 := by simpa using hw
      subst this
      simp [requote]
  exact ⟨rq _ (hash_head p s hs), rq s hs⟩

theorem pvalueCalls_hashE (p : Prefs) (its : List EItem) :
    All2 (CallEq p) (pvalueCalls (its.map (hashE p))) (pvalueCalls its) := by
  unfold pvalueCalls
  rw [List.map_map]
  refine all2_map_same _ _ (fun it => ?_) its
  obtain ⟨ty, ev⟩ := it
  cases ev with
  | str s =>
    simp only [Function.comp, hashE, hashStr]
    split
    · rename_i h
      obtain ⟨r1, r2⟩ := requote_hashStr p ty s h
      have : ty = t_HASH := by simp only [Bool.and_eq_true, beq_iff_eq] at h; exact h.1
      subst this
      rw [r1, r2]
      exact callEq_hash p s {}
    · exact CallEq.rfl' p _
  | _ => exact CallEq.rfl' p _

theorem funcCalls_hashE (p : Prefs) (b : Bool) (its : List EItem) :
    All2 (CallEq p) (funcCalls b (its.map (hashE p))) (funcCalls b its) := by
  unfold funcCalls
  have hf : (its.map (hashE p)).filter (fun it => !(b && it.1 == t_CSSComment))
      = (its.filter (fun it => !(b && it.1 == t_CSSComment))).map (hashE p) := by
    rw [List.filter_map]; rfl
  rw [hf, List.map_map]
  refine all2_map_same _ _ (fun it => ?_) _
  obtain ⟨ty, ev⟩ := it
  cases ev with
  | str s =>
    simp only [Function.comp, hashE, hashStr, EVal.aval]
    split
    · rename_i h
      have : ty = t_HASH := by simp only [Bool.and_eq_true, beq_iff_eq] at h; exact h.1
      subst this
      exact callEq_hash p s {}
    · exact CallEq.rfl' p _
  | _ => exact CallEq.rfl' p _

theorem calcCalls_hashE (p : Prefs) (its : List EItem) :
    All2 (CallEq p) (calcCalls (its.map (hashE p))) (calcCalls its) := by
  unfold calcCalls
  rw [List.map_map]
  refine all2_map_same _ _ (fun it => ?_) its
  obtain ⟨ty, ev⟩ := it
  cases ev with
  | str s =>
    simp only [Function.comp, hashE, hashStr]
    split
    · rename_i h
      have : ty = t_HASH := by simp only [Bool.and_eq_true, beq_iff_eq] at h; exact h.1
      subst this
      have e : (t_HASH == t_CHAR) = false := by decide
      simp only [e, Bool.false_and, Bool.false_eq_true, if_false, EVal.aval]
      exact callEq_hash p s {}
    · exact CallEq.rfl' p _
  | _ => exact CallEq.rfl' p _

/-! ### the rewrite on the model DOM -/

theorem value_hashStr (p : Prefs) (il : Nat) (ty v : Cps) :
    value (append p il [] (.str (hashStr p ty v)) ty) = value (append p il [] (.str v) ty) := by
  unfold hashStr
  split
  · rename_i h
    have : ty = t_HASH := by simp only [Bool.and_eq_true, beq_iff_eq] at h; exact h.1
    subst this
    rw [callEq_hash p v {} il []]
  · rfl

mutual
theorem serObj_effObj (p : Prefs) (lv : Nat) : ∀ o : Obj, serObj p lv (effObj p o) = serObj p lv o
  | .comment _ => rfl
  | .pvalue ne items => by
    simp only [effObj, serObj, evalItems_effItems_true p lv items]
    rw [runCalls_callEq p _ (pvalueCalls_hashE p _)]
  | .value ty v => by simp only [effObj, serObj, value_hashStr]
  | .num _ _ => rfl
  | .color ct items => by
    simp only [effObj, serObj, evalItems_effItems_true p lv items, colorText]
    rw [runCalls_callEq p _ (funcCalls_hashE p false _), runCalls_callEq p _ (funcCalls_hashE p true _)]
  | .func items => by
    simp only [effObj, serObj, evalItems_effItems_true p lv items]
    rw [runCalls_callEq p _ (funcCalls_hashE p false _)]
  | .calc items => by
    simp only [effObj, serObj, evalItems_effItems_true p lv items]
    rw [runCalls_callEq p _ (calcCalls_hashE p _)]
  | .ms items => by simp only [effObj, serObj, evalItems_effItems_false p lv items]
  | .var name res fb => by simp only [effObj, serObj, evalVal_effVal p lv res, evalVal_effVal p lv fb]
  | .selector wf items => by simp only [effObj, serObj, evalItems_effItems_false p lv items]
  | .mquery wf items => by simp only [effObj, serObj, evalItems_effItems_false p lv items]
  | .mlist items => by
    have he : (effItems p false items).isEmpty = items.isEmpty := by
      cases items with
      | nil => rfl
      | cons it t => cases it with | mk ty v => cases v <;> rfl
    simp only [effObj, serObj, evalItems_effItems_false p lv items, he]
theorem evalVal_effVal (p : Prefs) (lv : Nat) : ∀ v : Val, evalVal p lv (effVal p v) = evalVal p lv v
  | .obj o => by simp only [effVal, evalVal, serObj_effObj p lv o]
  | .str _ => rfl
  | .tup _ => rfl
  | .none => rfl
theorem evalItems_effItems_true (p : Prefs) (lv : Nat) : ∀ items : List Item,
    evalItems p lv (effItems p true items) = (evalItems p lv items).map (hashE p)
  | [] => rfl
  | .mk ty (.str s) :: t => by
    simp only [effItems, evalItems, evalVal, List.map_cons, hashE, evalItems_effItems_true p lv t, if_true]
  | .mk ty (.obj o) :: t => by
    simp only [effItems, evalItems, List.map_cons, hashE, evalItems_effItems_true p lv t, evalVal_effVal p lv (.obj o)]
    rfl
  | .mk ty (.tup s) :: t => by
    simp only [effItems, evalItems, List.map_cons, hashE, evalItems_effItems_true p lv t, effVal, evalVal]
  | .mk ty .none :: t => by
    simp only [effItems, evalItems, List.map_cons, hashE, evalItems_effItems_true p lv t, effVal, evalVal]
theorem evalItems_effItems_false (p : Prefs) (lv : Nat) : ∀ items : List Item,
    evalItems p lv (effItems p false items) = evalItems p lv items
  | [] => rfl
  | .mk ty (.str s) :: t => by
    simp only [effItems, evalItems, evalVal, evalItems_effItems_false p lv t, Bool.false_eq_true, if_false]
  | .mk ty (.obj o) :: t => by
    simp only [effItems, evalItems, evalItems_effItems_false p lv t, evalVal_effVal p lv (.obj o)]
  | .mk ty (.tup s) :: t => by
    simp only [effItems, evalItems, evalItems_effItems_false p lv t, effVal]
  | .mk ty .none :: t => by
    simp only [effItems, evalItems, evalItems_effItems_false p lv t, effVal]
end

end CssVerif.Out
