import CssVerif.Model.OutRules
import CssVerif.Lemmas.OutSep
/-!
# The three serializer repairs of wave 3 as statements about the model

* f99aded — a HASH token inside an unknown at-rule is written as it is (`do_CSSUnknownRule` passes type `None`)
* ec62b69 — page selector: name, comment, pseudo-page without white space (`do_CSSPageRuleSelector`, flag `named`)
* d39f9c4 — `Out.append` keeps a blank where `/` + `*…` or `* ~ | ^ $` + `=` would fuse
-/
namespace CssVerif.Out
open CssVerif.Proto (Cps)

/-- the record with `minimizeColorHash` set to `b` -/
def Prefs.withHash (p : Prefs) (b : Bool) : Prefs := { p with minimizeColorHash := b }

/-- `Out.append` reads `minimizeColorHash` only for type HASH -/
theorem append_withHash (p : Prefs) (b : Bool) (il : Nat) (o : O) (v : AVal) (ty : Cps) (f : Fl)
    (hty : (ty == t_HASH) = false) : append (p.withHash b) il o v ty f = append p il o v ty f := by
  have e1 : ∀ o, appendPre (p.withHash b) o v ty f = appendPre p o v ty f := by
    intro o
    unfold appendPre
    simp only [hty, Bool.false_eq_true, if_false]
    rfl
  have e2 : ∀ o val, appendMid (p.withHash b) il o val f = appendMid p il o val f := fun _ _ => rfl
  have e3 : ∀ o val, appendPost (p.withHash b) o val ty f = appendPost p o val ty f := fun _ _ => rfl
  unfold append
  rw [e1]
  split
  · rfl
  · split
    · rfl
    · rw [e2, e3]

theorem uPush_withHash (p : Prefs) (b : Bool) (il : Nat) (o : O) (st : List O) (v : AVal) (ty : Cps)
    (hty : (ty == t_HASH) = false) : uPush (p.withHash b) il o st v ty = uPush p il o st v ty := by
  cases st <;> simp [uPush, append_withHash p b il _ v ty {} hty]

theorem unHash_ne (ty : Cps) : ((if ty == t_HASH then t_None else ty) == t_HASH) = false := by
  by_cases h : (ty == t_HASH) = true
  · simp only [h, if_true]; decide
  · simp only [h, if_false]; simpa using h

mutual
theorem doURule_withHash (p : Prefs) (b : Bool) (lv : Nat) : ∀ u : URule,
    doURule (p.withHash b) lv u = doURule p lv u
  | .mk wf atk items => by
    simp only [doURule]
    rw [uItems_withHash p b lv items, append_withHash p b _ _ _ _ _ (by decide)]
    rfl
theorem uItems_withHash (p : Prefs) (b : Bool) (lv : Nat) : ∀ (items : List UItem) (o : O) (st : List O),
    uItems (p.withHash b) lv items o st = uItems p lv items o st
  | [], _, _ => by simp [uItems]
  | .str ty s :: rest, o, st => by
    simp only [uItems]
    split
    · rename_i hc
      have hty : (ty == t_HASH) = false := by
        have : ty = t_CHAR := by
          have : (ty == t_CHAR) = true := by cases h1 : ty == t_CHAR <;> simp [h1] at hc ⊢
          simpa using this
        subst this; decide
      cases st with
      | nil => rfl
      | cons top st1 =>
        simp only
        rw [uPush_withHash p b _ _ _ _ _ hty, uItems_withHash p b lv rest]
        rfl
    · rw [uPush_withHash p b _ _ _ _ _ (unHash_ne ty), uItems_withHash p b lv rest]
  | .comment t :: rest, o, st => by
    simp only [uItems]
    rw [uPush_withHash p b _ _ _ _ _ (by decide), uItems_withHash p b lv rest]
    rfl
  | .rule u :: rest, o, st => by
    simp only [uItems]
    rw [doURule_withHash p b lv u]
    split
    · rfl
    · rw [uPush_withHash p b _ _ _ _ _ (by decide), uItems_withHash p b lv rest]
end

/-! ### d39f9c4 -/

theorem appendMid_slash_star (p : Prefs) (il : Nat) (o : O) (w : Cps) (f : Fl) (hi : f.indent = false) :
    appendMid p il ([47] :: o) (42 :: w) f = (42 :: w) :: [32] :: [47] :: o := by
  have h1 : ((42 :: w) == [125]) = false := by
    cases w <;> simp
  have h2 : removeLastIfS ([47] :: o) = [47] :: o := by simp [removeLastIfS, allCssWs, isCssWs, allWs, isWs]
  unfold appendMid
  simp only [hi, h1, Bool.false_and, Bool.or_false, Bool.false_eq_true, if_false, h2]
  have : wouldFuse ([47] :: o) (42 :: w) = true := by simp [wouldFuse, lastPiece, List.find?]
  split <;> simp [this]

def isAttrOp (c : Nat) : Bool := c == 42 || c == 126 || c == 124 || c == 94 || c == 36

theorem appendMid_op_equals (p : Prefs) (il : Nat) (o : O) (c : Nat) (hc : isAttrOp c = true) (f : Fl)
    (hi : f.indent = false) : appendMid p il ([c] :: o) [61] f = [61] :: [32] :: [c] :: o := by
  have hw : wouldFuse ([c] :: o) [61] = true := by
    simp only [isAttrOp, Bool.or_eq_true, beq_iff_eq] at hc
    rcases hc with (((rfl | rfl) | rfl) | rfl) | rfl <;> simp [wouldFuse, lastPiece, List.find?]
  unfold appendMid
  simp [hi, endsSp, hw]

/-- at the level of one `append` call (a generic type, default flags): `=` after an attribute operator character -/
theorem append_op_equals (p : Prefs) (il : Nat) (o : O) (c : Nat) (hc : isAttrOp c = true) :
    append p il ([c] :: o) (.str [61]) t_CHAR {} = [61] :: [32] :: [c] :: o := by
  have h2 : removeLastIfS ([c] :: o) = [c] :: o := by
    simp only [isAttrOp, Bool.or_eq_true, beq_iff_eq] at hc
    rcases hc with (((rfl | rfl) | rfl) | rfl) | rfl <;> simp [removeLastIfS, allCssWs, isCssWs, allWs, isWs]
  have hm := appendMid_op_equals p il o c hc {} rfl
  unfold append appendPre
  simp only [AVal.truthy, AVal.text]
  have e1 : isInfix [61] c_punctPre = true := by decide
  simp only [e1, h2]
  simp [t_CHAR, t_COMMENT, t_S, t_STRING, t_URI, t_HASH, hm, appendPost, isInfix, c_calcOps, c_comb, c_noSpace,
    t_styletext, t_FUNCTION]

/-! ### ec62b69, for every record -/

theorem plain_ne_nil {w : Cps} (hw : Plain w = true) : w ≠ [] := by
  intro e
  subst e
  exact absurd hw (by decide)

theorem plain_ne_slash {w : Cps} (hw : Plain w = true) : w ≠ [47] := by
  intro e
  subst e
  exact absurd hw (by decide)

/-- a word appended with `space=False` (generic type): nothing is written behind it -/
theorem append_word_nospace (p : Prefs) (il : Nat) (o : O) (w ty : Cps) (hw : Plain w = true)
    (ht : GenericTy ty = true) (ho : lastPiece o ≠ some [47]) :
    append p il o (.str w) ty { space := false } = w :: o := by
  have hwf := wouldFuse_of_last_ne ho hw
  simp only [Plain, Bool.and_eq_true, Bool.not_eq_true'] at hw
  obtain ⟨⟨⟨h1, h2⟩, h3⟩, h4'⟩ := hw
  have h4 : (endsSp w && !endsEscSp w) = false := by
    cases h5 : endsSp w <;> cases h6 : endsEscSp w <;> simp [h5, h6] at h4' ⊢
  simp only [GenericTy, Bool.and_eq_true, bne_iff_ne, ne_eq] at ht
  obtain ⟨⟨⟨⟨⟨⟨t1, t2⟩, t3⟩, t4⟩, t5⟩, t6⟩, t7⟩ := ht
  have b1 : (ty == t_COMMENT) = false := by simpa using t1
  have b2 : (ty == t_S) = false := by simpa using t2
  have b3 : (ty == t_STRING) = false := by simpa using t3
  have b4 : (ty == t_URI) = false := by simpa using t4
  have b5 : (ty == t_HASH) = false := by simpa using t5
  have b7 : (ty == t_styletext) = false := by simpa using t7
  have hcomb := isInfix_comb_of_punct h2
  have e41 := ne_single_of_not_infix h2 41 (by decide)
  have e44 := ne_single_of_not_infix h2 44 (by decide)
  have e58 := ne_single_of_not_infix h2 58 (by decide)
  have e123 := ne_single_of_not_infix h2 123 (by decide)
  have e59 := ne_single_of_not_infix h2 59 (by decide)
  have e125 := ne_single_of_not_infix h2 125 (by decide)
  have htr : (AVal.str w).truthy = true := by simp [AVal.truthy, h1]
  unfold append
  simp only [htr, Bool.true_or, Bool.not_true, Bool.false_eq_true, if_false]
  unfold appendPre
  simp only [b1, b2, b3, b4, b5, Bool.false_eq_true, if_false, AVal.text, h2, Bool.false_and]
  unfold appendMid appendPost
  simp only [e125, Bool.false_and, Bool.or_false, Bool.false_eq_true, if_false, h4, hcomb, e41, e44, e58, e123,
    e59, b7, Bool.and_false, hwf]

/-- a comment object appended with `space=False` while comments are kept -/
theorem append_comment_nospace (p : Prefs) (hk : p.keepComments = true) (il : Nat) (o : O) (c : Cps)
    (hc : Plain c = true) (ho : lastPiece o ≠ some [47]) :
    append p il o (.obj c) t_COMMENT { space := false } = c :: o := by
  have hwf := wouldFuse_of_last_ne ho hc
  simp only [Plain, Bool.and_eq_true, Bool.not_eq_true'] at hc
  obtain ⟨⟨⟨h1, h2⟩, h3⟩, h4'⟩ := hc
  have h4 : (endsSp c && !endsEscSp c) = false := by
    cases h5 : endsSp c <;> cases h6 : endsEscSp c <;> simp [h5, h6] at h4' ⊢
  have hcomb := isInfix_comb_of_punct h2
  have e41 := ne_single_of_not_infix h2 41 (by decide)
  have e44 := ne_single_of_not_infix h2 44 (by decide)
  have e58 := ne_single_of_not_infix h2 58 (by decide)
  have e123 := ne_single_of_not_infix h2 123 (by decide)
  have e59 := ne_single_of_not_infix h2 59 (by decide)
  have e125 := ne_single_of_not_infix h2 125 (by decide)
  have b7 : (t_COMMENT == t_styletext) = false := by decide
  unfold append
  simp only [AVal.truthy, Bool.true_or, Bool.not_true, Bool.false_eq_true, if_false]
  unfold appendPre
  simp only [beq_self_eq_true, if_true, hk, AVal.text]
  unfold appendMid appendPost
  simp only [e125, Bool.false_and, Bool.or_false, Bool.false_eq_true, if_false, h4, hcomb, e41, e44, e58, e123,
    e59, b7, Bool.and_false, hwf]

/-- **ec62b69 for every record**: page name, comment, pseudo-page are written without anything between them -/
theorem pageSel_name_comment_pseudo (p : Prefs) (hk : p.keepComments = true) (hs : allCssWs p.spacer = true) (il : Nat)
    (a c ps ty3 : Cps) (ha : Plain a = true) (hc : Plain c = true) (hps : Plain ps = true)
    (ht3 : GenericTy ty3 = true) (hni : (ty3 == t_IDENT) = false) :
    value (runCalls p il (pageSelCalls [(t_IDENT, .str a), (t_COMMENT, .obj c), (ty3, .str ps)])) = a ++ c ++ ps := by
  have e1 : (t_COMMENT == t_IDENT) = false := by decide
  have e3 : (ty3 == t_COMMENT) = false := by
    simp only [GenericTy, Bool.and_eq_true, bne_iff_ne, ne_eq] at ht3
    simpa using ht3.1.1.1.1.1.1
  simp only [pageSelCalls, pageSelCallsFrom, beq_self_eq_true, if_true, e1, Bool.false_eq_true, if_false,
    Bool.true_and, hni, e3, EVal.aval, runCalls, List.foldl_cons, List.foldl_nil]
  rw [append_word_nospace p il [] a t_IDENT ha (by decide) (by simp [lastPiece])]
  rw [append_comment_nospace p hk il [a] c hc (by rw [lastPiece_cons_of_ne_nil (plain_ne_nil ha)]; simpa using plain_ne_slash ha)]
  rw [append_word p il (c :: [a]) ps ty3 hps ht3 (by rw [lastPiece_cons_of_ne_nil (plain_ne_nil hc)]; simpa using plain_ne_slash hc)]
  unfold gapPieces value
  by_cases he : p.spacer.isEmpty = true
  · have e : p.spacer = [] := by simpa using he
    simp [e, removeLastIfS, allCssWs, isCssWs]
  · simp [he, removeLastIfS, hs]

end CssVerif.Out
