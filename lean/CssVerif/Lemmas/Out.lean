import CssVerif.Lemmas.OutText
/-!
# Lemmas about `Out.append` / `Out.value` (layout level)

`core o` is what is left of an `Out` when all white space is deleted. The master lemma `core_append` says that one
`append` call adds exactly the white-space-free text of its (pre-processed) value — whatever branch of the PRE /
APPEND / POST phases is taken, provided the layout strings of the preference record are white space.
-/
namespace CssVerif.Out
open CssVerif.Proto (Cps)

/-- all layout strings of the record are white space (the domain of the layout preferences) -/
structure WsPrefs (p : Prefs) : Prop where
  indent : allWs p.indent = true
  lineSeparator : allWs p.lineSeparator = true
  listItemSpacer : allWs p.listItemSpacer = true
  paranthesisSpacer : allWs p.paranthesisSpacer = true
  propertyNameSpacer : allWs p.propertyNameSpacer = true
  selectorCombinatorSpacer : allWs p.selectorCombinatorSpacer = true
  spacer : allWs p.spacer = true

/-- the two records agree on every preference that is not pure layout -/
structure ContentEq (p q : Prefs) : Prop where
  defaultAtKeyword : p.defaultAtKeyword = q.defaultAtKeyword
  defaultPropertyName : p.defaultPropertyName = q.defaultPropertyName
  defaultPropertyPriority : p.defaultPropertyPriority = q.defaultPropertyPriority
  importHrefFormat : p.importHrefFormat = q.importHrefFormat
  keepAllProperties : p.keepAllProperties = q.keepAllProperties
  keepComments : p.keepComments = q.keepComments
  keepEmptyRules : p.keepEmptyRules = q.keepEmptyRules
  keepUnknownAtRules : p.keepUnknownAtRules = q.keepUnknownAtRules
  keepUsedNamespaceRulesOnly : p.keepUsedNamespaceRulesOnly = q.keepUsedNamespaceRulesOnly
  minimizeColorHash : p.minimizeColorHash = q.minimizeColorHash
  normalizedVarNames : p.normalizedVarNames = q.normalizedVarNames
  omitLastSemicolon : p.omitLastSemicolon = q.omitLastSemicolon
  omitLeadingZero : p.omitLeadingZero = q.omitLeadingZero
  resolveVariables : p.resolveVariables = q.resolveVariables
  validOnly : p.validOnly = q.validOnly

theorem stripWs_indentblock {p : Prefs} (hp : WsPrefs p) (t : Cps) (k : Nat) :
    stripWs (indentblock p t k) = stripWs t := by
  unfold indentblock
  split
  · rfl
  · rename_i h
    have hne : p.lineSeparator ≠ [] := by
      intro e; simp [e] at h
    rw [stripWs_joinWith hp.lineSeparator, List.map_map]
    have : (stripWs ∘ fun l => rep k p.indent ++ l) = stripWs := by
      funext l
      simp [stripWs_append, stripWs_of_allWs (allWs_rep k hp.indent)]
    rw [this, stripWs_splitOn _ hne hp.lineSeparator]

/-- what is left of an `Out` when all white space is deleted -/
def core (o : O) : Cps := stripWs o.reverse.flatten

theorem core_nil : core [] = [] := rfl

theorem core_cons (x : Cps) (o : O) : core (x :: o) = core o ++ stripWs x := by
  simp [core, stripWs_append]

theorem core_cons_ws {x : Cps} (h : allWs x = true) (o : O) : core (x :: o) = core o := by
  simp [core_cons, stripWs_of_allWs h]

theorem isWs_of_isCssWs {c : Nat} (h : isCssWs c = true) : isWs c = true := by
  simp [isCssWs] at h
  rcases h with (((rfl | rfl) | rfl) | rfl) | rfl <;> decide

theorem allWs_of_allCssWs {x : Cps} (h : allCssWs x = true) : allWs x = true := by
  simp only [allCssWs, allWs, List.all_eq_true] at *
  exact fun c hc => isWs_of_isCssWs (h c hc)

theorem core_removeLastIfS (o : O) : core (removeLastIfS o) = core o := by
  cases o with
  | nil => rfl
  | cons x r =>
    simp only [removeLastIfS]
    split
    · rename_i h; rw [core_cons_ws (allWs_of_allCssWs h)]
    · rfl

theorem core_insertBeforeLast {s : Cps} (h : allWs s = true) (o : O) : core (insertBeforeLast o s) = core o := by
  cases o with
  | nil => simp [insertBeforeLast, core_cons_ws h]
  | cons x r => simp [insertBeforeLast, core_cons, core_cons_ws h]

theorem stripWs_value (o : O) (e : Cps) (k : Bool) : stripWs (value o e k) = core o ++ stripWs e := by
  unfold value
  cases k <;> by_cases he : e.isEmpty
  all_goals simp only [he, Bool.false_eq_true, if_false, if_true]
  · have : e = [] := by simpa using he
    subst this
    show stripWs (removeLastIfS o).reverse.flatten = core o ++ stripWs []
    rw [stripWs_nil, List.append_nil]; exact core_removeLastIfS o
  · have := core_cons e (removeLastIfS o)
    rw [core_removeLastIfS] at this; exact this
  · have : e = [] := by simpa using he
    subst this
    show stripWs o.reverse.flatten = core o ++ stripWs []
    rw [stripWs_nil, List.append_nil]; rfl
  · exact core_cons e o


/-! ### the master lemma -/

theorem core_appendMid {p : Prefs} (hp : WsPrefs p) (il : Nat) (o : O) (val : Cps) (f : Fl) :
    core (appendMid p il o val f) = core o ++ stripWs val := by
  unfold appendMid
  split
  · rw [core_cons, stripWs_indentblock hp]
  · have sp : allWs [32] = true := by decide
    have h1 : core (if endsSp val && !endsEscSp val then removeLastIfS o else o) = core o := by
      split
      · rw [core_removeLastIfS]
      · rfl
    generalize (if endsSp val && !endsEscSp val then removeLastIfS o else o) = o1 at h1
    dsimp only
    rw [core_cons]
    split
    · rw [core_cons_ws sp, h1]
    · rw [h1]

theorem core_appendPost {p : Prefs} (hp : WsPrefs p) (o : O) (val ty : Cps) (f : Fl) :
    core (appendPost p o val ty f) = core o := by
  unfold appendPost
  have sp : allWs [32] = true := by decide
  split
  · exact core_cons_ws sp o
  · split
    · split
      · rw [core_cons_ws hp.selectorCombinatorSpacer, core_insertBeforeLast hp.selectorCombinatorSpacer]
      · rw [core_cons_ws sp, core_insertBeforeLast sp]
    · split
      · exact core_cons_ws sp o
      · split
        · exact core_cons_ws hp.listItemSpacer o
        · split
          · exact core_cons_ws hp.propertyNameSpacer o
          · split
            · rw [core_cons_ws hp.lineSeparator, core_insertBeforeLast hp.paranthesisSpacer]
            · split
              · exact core_cons_ws hp.lineSeparator o
              · split
                · dsimp only
                  split
                  · rw [core_cons_ws sp, core_cons_ws hp.spacer]
                  · exact core_cons_ws hp.spacer o
                · rfl

/-- the white-space-free text one `append` call contributes (it does not depend on the `Out` it is appended to,
on the nesting level, or on any layout preference) -/
def lexA (p : Prefs) (v : AVal) (ty : Cps) (f : Fl) : Cps :=
  if !(v.truthy || ty == t_STRING || ty == t_URI) then []
  else match appendPre p [] v ty f with
    | none => []
    | some r => stripWs r.1

/-- the PRE phase: the value does not depend on the list, and the list loses at most trailing white space -/
theorem appendPre_shape (p : Prefs) (o : O) (v : AVal) (ty : Cps) (f : Fl) :
    (appendPre p o v ty f = none ∧ appendPre p [] v ty f = none) ∨
    (∃ val o1 o2, appendPre p o v ty f = some (val, o1) ∧ appendPre p [] v ty f = some (val, o2) ∧ core o1 = core o) := by
  unfold appendPre
  by_cases h1 : ty == t_COMMENT
  · simp only [h1, if_true]
    by_cases hk : p.keepComments = true
    · right; simp only [hk, if_true]; exact ⟨_, _, _, rfl, rfl, rfl⟩
    · left; simp [hk]
  · simp only [h1, Bool.false_eq_true, if_false]
    by_cases h2 : ty == t_S
    · simp only [h2, if_true]
      by_cases hk : f.keepS = true
      · right; simp only [hk, if_true]; exact ⟨_, _, _, rfl, rfl, rfl⟩
      · left; simp [hk]
    · simp only [h2, Bool.false_eq_true, if_false]
      by_cases h3 : ty == t_STRING
      · simp only [h3, if_true]
        cases v with
        | none => left; exact ⟨rfl, rfl⟩
        | str s => right; exact ⟨_, _, _, rfl, rfl, by split <;> simp [core_removeLastIfS]⟩
        | obj t => right; exact ⟨_, _, _, rfl, rfl, by split <;> simp [core_removeLastIfS]⟩
      · simp only [h3, Bool.false_eq_true, if_false]
        by_cases h4 : ty == t_URI
        · simp only [h4, if_true]; right; exact ⟨_, _, _, rfl, rfl, rfl⟩
        · simp only [h4, Bool.false_eq_true, if_false]
          by_cases h5 : ty == t_HASH
          · simp only [h5, if_true]; right; exact ⟨_, _, _, rfl, rfl, rfl⟩
          · simp only [h5, Bool.false_eq_true, if_false]
            cases v with
            | obj t => right; exact ⟨_, _, _, rfl, rfl, rfl⟩
            | str s => right; exact ⟨_, _, _, rfl, rfl, by split <;> simp [core_removeLastIfS]⟩
            | none => right; exact ⟨_, _, _, rfl, rfl, by split <;> simp [core_removeLastIfS]⟩

/-- **Master lemma.** One `append` call adds exactly `lexA` to the white-space-free content of the `Out`. -/
theorem core_append {p : Prefs} (hp : WsPrefs p) (il : Nat) (o : O) (v : AVal) (ty : Cps) (f : Fl) :
    core (append p il o v ty f) = core o ++ lexA p v ty f := by
  unfold append lexA
  by_cases hc : (!(v.truthy || ty == t_STRING || ty == t_URI)) = true
  · simp [hc]
  · simp only [hc, Bool.false_eq_true, if_false]
    rcases appendPre_shape p o v ty f with ⟨h1, h2⟩ | ⟨val, o1, o2, h1, h2, h3⟩
    · simp [h1, h2]
    · simp only [h1, h2]
      rw [core_appendPost hp, core_appendMid hp, h3]

theorem core_runCalls {p : Prefs} (hp : WsPrefs p) (il : Nat) (cs : List Call) (o : O) :
    core (runCalls p il cs o) = core o ++ (cs.map fun c => lexA p c.v c.ty c.f).flatten := by
  induction cs generalizing o with
  | nil => simp [runCalls]
  | cons c t ih =>
    have : runCalls p il (c :: t) o = runCalls p il t (append p il o c.v c.ty c.f) := rfl
    rw [this, ih, core_append hp]
    simp

end CssVerif.Out
