import CssVerif.Model.TokPush
import CssVerif.Lemmas.Tok
/-!
# Lemmas about the generator with `push` (`Model/TokPush.lean`)
-/
namespace CssVerif.Tok
open CssVerif CssVerif.Gen.C05

/-- the text tokens the program will still yield -/
def emitted : List Ev → List Item
  | [] => []
  | .tok it :: p => it :: emitted p
  | .iter it :: p => if it.emit then it :: emitted p else emitted p

/-- the text tokens a suspended generator will still yield -/
def remaining (st : PSt) : List Item :=
  (match st.inIter with
    | some it => if it.emit then [it] else []
    | none => []) ++ emitted st.prog

/-- the pushed tokens that have not been yielded -/
def pending (st : PSt) : List Item := st.newer ++ st.cur

def Out.text? : Out → Option Item
  | .text it => some it
  | _ => none

def Out.pushed? : Out → Option Item
  | .pushed it => some it
  | _ => none

def pushedBy : List Act → List Item
  | [] => []
  | .next :: as => pushedBy as
  | .push ts :: as => ts ++ pushedBy as

/-- what one `next` does to the two books: text tokens still to come, pushed tokens not yet yielded -/
def StepOK (rem pend : List Item) (r : Out × PSt) : Prop :=
  (∃ it, r.1 = .text it ∧ rem = it :: remaining r.2 ∧ (pending r.2).Perm pend) ∨
  (∃ p, r.1 = .pushed p ∧ rem = remaining r.2 ∧ pend.Perm (p :: pending r.2)) ∨
  (r.1 = .stop ∧ rem = [] ∧ remaining r.2 = [] ∧ (pending r.2).Perm pend)

theorem advanceP_ok : ∀ (prog : List Ev) (pend : List Item), StepOK (emitted prog) pend (advanceP prog pend) := by
  intro prog
  induction prog with
  | nil =>
    intro pend
    right; right
    simp [advanceP, emitted, remaining, pending]
  | cons e prog ih =>
    intro pend
    cases e with
    | tok it =>
      left
      exact ⟨it, rfl, by simp [advanceP, emitted, remaining], by simp [advanceP, pending]⟩
    | iter it =>
      cases pend with
      | cons p cur' =>
        right; left
        refine ⟨p, rfl, ?_, by simp [advanceP, pending]⟩
        simp only [advanceP, emitted, remaining]
        split <;> simp
      | nil =>
        by_cases he : it.emit = true
        · left
          exact ⟨it, by simp [advanceP, he], by simp [advanceP, he, emitted, remaining], by simp [advanceP, he, pending]⟩
        · have := ih []
          simp only [advanceP, he, emitted, Bool.false_eq_true, if_false]
          exact this

theorem nextTok_ok (st : PSt) : StepOK (remaining st) (pending st) (nextTok st) := by
  unfold nextTok
  cases hi : st.inIter with
  | none =>
    simp only
    have := advanceP_ok st.prog (st.newer ++ st.cur)
    simpa [remaining, hi, pending] using this
  | some it =>
    simp only
    cases hc : st.cur with
    | cons p cur' =>
      right; left
      refine ⟨p, rfl, by simp [remaining, hi], ?_⟩
      simp only [pending, hc]
      exact List.perm_middle
    | nil =>
      simp only
      by_cases he : it.emit = true
      · left
        simp only [he, if_true]
        exact ⟨it, rfl, by simp [remaining, hi, he], by simp [pending, hc]⟩
      · simp only [he, Bool.false_eq_true, if_false]
        have := advanceP_ok st.prog (st.newer ++ [])
        simpa [remaining, hi, he, pending, hc] using this

theorem remaining_push (st : PSt) (ts : List Item) : remaining (pushP st ts) = remaining st := rfl

theorem pending_push (st : PSt) (ts : List Item) : pending (pushP st ts) = ts ++ pending st := by
  simp [pending, pushP]

/-- the text tokens come in their order, whatever is pushed and whenever -/
theorem run_text : ∀ (acts : List Act) (st : PSt),
    remaining st = (runP st acts).filterMap Out.text? ++ remaining (endP st acts) := by
  intro acts
  induction acts with
  | nil => intro st; simp [runP, endP]
  | cons a as ih =>
    intro st
    cases a with
    | push ts =>
      simp only [runP, endP]
      rw [← ih (pushP st ts), remaining_push]
    | next =>
      simp only [runP, endP, List.filterMap_cons]
      rcases nextTok_ok st with ⟨it, h1, h2, _⟩ | ⟨p, h1, h2, _⟩ | ⟨h1, h2, h3, _⟩
      · rw [h1]; simp only [Out.text?]; rw [h2, ih (nextTok st).2]; rfl
      · rw [h1]; simp only [Out.text?]; rw [h2, ih (nextTok st).2]
      · rw [h1]; simp only [Out.text?]; rw [h2, ← h3, ih (nextTok st).2]

/-- every pushed token is yielded at most once; what was pushed = what was yielded + what is still held -/
theorem run_pushed : ∀ (acts : List Act) (st : PSt),
    ((runP st acts).filterMap Out.pushed? ++ pending (endP st acts)).Perm (pushedBy acts ++ pending st) := by
  intro acts
  induction acts with
  | nil => intro st; simp [runP, endP, pushedBy]
  | cons a as ih =>
    intro st
    cases a with
    | push ts =>
      simp only [runP, endP, pushedBy]
      refine (ih (pushP st ts)).trans ?_
      rw [pending_push, ← List.append_assoc]
      exact List.Perm.append_right _ List.perm_append_comm
    | next =>
      simp only [runP, endP, List.filterMap_cons, pushedBy]
      have hih := ih (nextTok st).2
      rcases nextTok_ok st with ⟨it, h1, _, h3⟩ | ⟨p, h1, _, h3⟩ | ⟨h1, _, _, h3⟩
      · rw [h1]; simp only [Out.pushed?]
        exact hih.trans (List.Perm.append_left _ h3)
      · rw [h1]; simp only [Out.pushed?, List.cons_append]
        refine (List.Perm.cons p hih).trans ?_
        refine List.perm_middle.symm.trans ?_
        exact List.Perm.append_left _ h3.symm
      · rw [h1]; simp only [Out.pushed?]
        exact hih.trans (List.Perm.append_left _ h3)

/-- no loop iteration is left (the generator is past its `while` loop, or the text has no token) -/
def NoIter (st : PSt) : Prop := st.inIter = none ∧ ∀ e ∈ st.prog, ∃ it, e = Ev.tok it

theorem advanceP_noIter : ∀ (prog : List Ev) (pend : List Item), (∀ e ∈ prog, ∃ it, e = Ev.tok it) →
    (advanceP prog pend).1.pushed? = none ∧ NoIter (advanceP prog pend).2 := by
  intro prog pend h
  cases prog with
  | nil => exact ⟨rfl, rfl, by simp [advanceP]⟩
  | cons e prog =>
    obtain ⟨it, rfl⟩ := h e (by simp)
    exact ⟨rfl, rfl, fun e' he' => h e' (List.mem_cons_of_mem _ (by simpa [advanceP] using he'))⟩

theorem nextTok_noIter (st : PSt) (h : NoIter st) : (nextTok st).1.pushed? = none ∧ NoIter (nextTok st).2 := by
  unfold nextTok
  rw [h.1]
  exact advanceP_noIter _ _ h.2

/-- after the last loop iteration nothing that is pushed is ever yielded -/
theorem run_noIter : ∀ (acts : List Act) (st : PSt), NoIter st → (runP st acts).filterMap Out.pushed? = [] := by
  intro acts
  induction acts with
  | nil => intro st _; rfl
  | cons a as ih =>
    intro st h
    cases a with
    | push ts => exact ih (pushP st ts) ⟨h.1, h.2⟩
    | next =>
      obtain ⟨h1, h2⟩ := nextTok_noIter st h
      simp only [runP, List.filterMap_cons, h1]
      exact ih _ h2

theorem emitted_append : ∀ (a b : List Ev), emitted (a ++ b) = emitted a ++ emitted b := by
  intro a
  induction a with
  | nil => intro b; rfl
  | cons e a ih =>
    intro b
    cases e with
    | tok it => simp [emitted, ih]
    | iter it => simp only [List.cons_append, emitted, ih]; split <;> simp

theorem emitted_map_tok : ∀ (l : List Item), emitted (l.map Ev.tok) = l := by
  intro l; induction l with
  | nil => rfl
  | cons a t ih => simp [emitted, ih]

theorem emitted_map_iter : ∀ (l : List Item), emitted (l.map Ev.iter) = l.filter (·.emit) := by
  intro l; induction l with
  | nil => rfl
  | cons a t ih => simp only [List.map_cons, emitted, ih, List.filter_cons]

theorem filter_emit_all {l : List Item} (h : ∀ it ∈ l, it.emit = true) : l.filter (·.emit) = l :=
  List.filter_eq_self.mpr h

/-- the program yields exactly the tokens of the pure run -/
theorem program_emitted (text : Cps) (full doC : Bool) :
    emitted (program text full doC) = (tokenize text full doC).tokens := by
  have hb : ∀ it ∈ bomItems text, it.emit = true := by
    intro it h; unfold bomItems at h; split at h <;> simp at h; rw [h]
  have hc : ∀ it ∈ charsetItems (afterBom text), it.emit = true := by
    intro it h; unfold charsetItems at h; split at h <;> simp at h; rw [h]
  have he : ∀ it ∈ eofItems full (mainLoop text full doC).stop, it.emit = true := by
    intro it h; unfold eofItems at h; split at h
    · split at h <;> simp at h; rw [h]
    · simp at h
  simp only [program, emitted_append, emitted_map_tok, emitted_map_iter, Res.tokens, tokenize, body,
    List.filter_append, filter_emit_all hb, filter_emit_all hc, filter_emit_all he, List.append_assoc]

theorem pushedBy_replicate (n : Nat) : pushedBy (List.replicate n Act.next) = [] := by
  induction n with
  | zero => rfl
  | succ n ih => simpa [List.replicate_succ, pushedBy] using ih

theorem run_no_push (st : PSt) (hp : pending st = []) (n : Nat) :
    (runP st (List.replicate n Act.next)).filterMap Out.pushed? = [] := by
  have h := run_pushed (List.replicate n Act.next) st
  rw [pushedBy_replicate, hp] at h
  have hl := h.length_eq
  simp only [List.length_append, List.append_nil, List.length_nil] at hl
  exact List.eq_nil_of_length_eq_zero (by omega)

end CssVerif.Tok
