import CssVerif.Model.SheetCanon
import CssVerif.Lemmas.SheetSpecSheet
/-!
# Lemmas for C03 (sheet level): the serializer's spelling denotes the same abstract sheet
-/
namespace CssVerif.SheetCanon
open CssVerif.Proto (Cps)
open CssVerif.Struct CssVerif.SheetSpec CssVerif.AtRules
set_option linter.unusedSimpArgs false
set_option linter.unusedVariables false

/-! ## `erase` does not see the spelling -/

theorem canonDecl_erase (c : Option Ws) (d : SDecl) : (canonDecl c d).erase = d.erase := by
  cases h : d.prio with
  | none => simp [canonDecl, SDecl.erase, h]
  | some p => obtain ⟨g4, n, m, g5⟩ := p; simp [canonDecl, SDecl.erase, h]

theorem canonItem_erase (i : SItem) : (canonItem i).erase = i.erase := by
  cases i <;> simp [canonItem, SItem.erase, canonDecl_erase]

theorem keptItems_erase (items : List (SItem × WGap)) :
    (keptItems items).filterMap SItem.erase = items.filterMap (fun p => p.1.erase) := by
  induction items with
  | nil => rfl
  | cons p rest ih =>
    obtain ⟨i, w⟩ := p
    cases i <;> simp [keptItems, SItem.erase, ih]

/-- what a laid-out block denotes -/
def laidErase (r : List (SItem × WGap) × Option SDecl) : List AItem :=
  r.1.filterMap (fun p => p.1.erase) ++ (r.2.map SDecl.erase).toList

theorem layItems_erase (om : Bool) (lv : Nat) : (l : List SItem) →
    laidErase (layItems om lv l) = l.filterMap SItem.erase
  | [] => rfl
  | [i] => by
    cases om <;> cases i <;> simp [layItems, laidErase, SItem.erase, canonItem, canonDecl_erase]
  | i :: j :: rest => by
    have ih := layItems_erase om lv (j :: rest)
    simp only [laidErase] at ih ⊢
    simp only [layItems, List.filterMap_cons, canonItem_erase] at ih ⊢
    cases hi : i.erase <;> simp [hi, ih]

theorem realItems_erase (b : SBlock) : (realItems b).filterMap SItem.erase = b.erase := by
  simp only [realItems, SBlock.erase, List.filterMap_append, keptItems_erase]
  cases b.last <;> simp [SItem.erase]

theorem canonBlock_erase (lv : Nat) (b : SBlock) : (canonBlock lv b).erase = b.erase := by
  have := layItems_erase true lv (realItems b)
  rw [realItems_erase] at this
  simpa [canonBlock, SBlock.erase, laidErase] using this

theorem canonMore_erase (m : List (Gap × List Tok × Gap)) :
    (canonMore m).map (fun p => strip p.2.1) = m.map (fun p => strip p.2.1) := by
  induction m with
  | nil => rfl
  | cons p rest ih => obtain ⟨a, c, b⟩ := p; simp [canonMore, ih]

theorem canonSel_erase (s : SSel) : (canonSel s).erase = s.erase := by
  simp [canonSel, SSel.erase, canonMore_erase]

theorem canonHref_value (r : SHref) : (canonHref r).value = r.value := by
  cases r <;> rfl

/-! ### margin boxes -/

theorem squeeze_strip (l : List Tok) : squeeze (strip l) = squeeze l := by
  simp only [squeeze, strip, List.filter_filter]
  congr 1
  funext t
  simp only [isGapTok, notComment]
  cases t.typ <;> rfl

theorem bareDecl_eraseSq (d : SDecl) : (bareDecl d).eraseSq = d.eraseSq := by
  cases h : d.prio with
  | none => simp [bareDecl, SDecl.eraseSq, h, squeeze_strip]
  | some p => obtain ⟨g4, n, m, g5⟩ := p; simp [bareDecl, SDecl.eraseSq, h, squeeze_strip]

theorem canonDecl_eraseSq (c : Option Ws) (d : SDecl) : (canonDecl c d).eraseSq = d.eraseSq := by
  cases h : d.prio with
  | none => simp [canonDecl, SDecl.eraseSq, h]
  | some p => obtain ⟨g4, n, m, g5⟩ := p; simp [canonDecl, SDecl.eraseSq, h]

theorem canonItem_eraseSq (i : SItem) : (canonItem i).eraseSq = i.eraseSq := by
  cases i <;> simp [canonItem, SItem.eraseSq, canonDecl_eraseSq]

def laidEraseSq (r : List (SItem × WGap) × Option SDecl) : List AItem :=
  r.1.filterMap (fun p => p.1.eraseSq) ++ (r.2.map SDecl.eraseSq).toList

theorem layItems_eraseSq (om : Bool) (lv : Nat) : (l : List SItem) →
    laidEraseSq (layItems om lv l) = l.filterMap SItem.eraseSq
  | [] => rfl
  | [i] => by
    cases om <;> cases i <;> simp [layItems, laidEraseSq, SItem.eraseSq, canonItem, canonDecl_eraseSq]
  | i :: j :: rest => by
    have ih := layItems_eraseSq om lv (j :: rest)
    simp only [laidEraseSq] at ih ⊢
    simp only [layItems, List.filterMap_cons, canonItem_eraseSq] at ih ⊢
    cases hi : i.eraseSq <;> simp [hi, ih]

theorem keptDecls_eraseSq (items : List (SItem × WGap)) :
    (keptDecls items).filterMap SItem.eraseSq = items.filterMap (fun p => p.1.eraseSq) := by
  induction items with
  | nil => rfl
  | cons p rest ih =>
    obtain ⟨i, w⟩ := p
    cases i <;> simp [keptDecls, SItem.eraseSq, ih, bareDecl_eraseSq]

theorem canonMarginBlock_eraseSq (lv : Nat) (b : SBlock) : (canonMarginBlock lv b).eraseSq = b.eraseSq := by
  have := layItems_eraseSq true lv (keptDecls b.items ++ (b.last.map fun d => SItem.decl (bareDecl d)).toList)
  simp only [canonMarginBlock, SBlock.eraseSq]
  simp only [laidEraseSq] at this
  rw [this, List.filterMap_append, keptDecls_eraseSq]
  cases b.last <;> simp [SItem.eraseSq, bareDecl_eraseSq]

/-! ### `@page` -/

theorem asPageItems_eraseItem (l : List (SItem × WGap)) :
    (asPageItems l).filterMap (fun p => p.1.eraseItem) = l.filterMap (fun p => p.1.erase) := by
  induction l with
  | nil => rfl
  | cons p rest ih => obtain ⟨i, w⟩ := p; simp only [asPageItems, List.filterMap_cons]; rw [ih]; rfl

theorem asPageItems_eraseMargin (l : List (SItem × WGap)) :
    (asPageItems l).filterMap (fun p => p.1.eraseMargin) = [] := by
  induction l with
  | nil => rfl
  | cons p rest ih => obtain ⟨i, w⟩ := p; simp only [asPageItems, List.filterMap_cons]; rw [ih]; rfl

theorem pageMargins_eraseItem (lv : Nat) (l : List (SPageItem × WGap)) :
    (pageMargins lv l).filterMap (fun p => p.1.eraseItem) = [] := by
  induction l with
  | nil => rfl
  | cons p rest ih =>
    obtain ⟨i, w⟩ := p
    cases i <;> (simp only [pageMargins, List.filterMap_cons]; rw [ih]) <;> rfl

theorem pageMargins_eraseMargin (lv : Nat) (l : List (SPageItem × WGap)) :
    (pageMargins lv l).filterMap (fun p => p.1.eraseMargin) = l.filterMap (fun p => p.1.eraseMargin) := by
  induction l with
  | nil => rfl
  | cons p rest ih =>
    obtain ⟨i, w⟩ := p
    cases i with
    | item it => simp only [pageMargins, List.filterMap_cons]; rw [ih]; rfl
    | margin n kw g b =>
      simp only [pageMargins, List.filterMap_cons]; rw [ih]
      simp only [SPageItem.eraseMargin, canonMarginBlock_eraseSq]

theorem pagePlain_erase (l : List (SPageItem × WGap)) :
    (pagePlain l).filterMap SItem.erase = l.filterMap (fun p => p.1.eraseItem) := by
  induction l with
  | nil => rfl
  | cons p rest ih =>
    obtain ⟨i, w⟩ := p
    cases i with
    | margin n kw g b => simp only [pagePlain, List.filterMap_cons]; rw [ih]; rfl
    | item it => cases it <;> (simp only [pagePlain, List.filterMap_cons]; rw [ih]) <;> rfl

theorem canonPageBlock_eraseItems (lv : Nat) (b : SPageBlock) :
    (canonPageBlock lv b).eraseItems = b.eraseItems := by
  have := layItems_erase (pageMargins lv b.items).isEmpty lv (pagePlain b.items ++ (b.last.map SItem.decl).toList)
  simp only [laidErase] at this
  simp only [canonPageBlock, SPageBlock.eraseItems, List.filterMap_append, asPageItems_eraseItem,
    pageMargins_eraseItem, List.append_nil]
  rw [this, List.filterMap_append, pagePlain_erase]
  cases b.last <;> simp [SItem.erase]

theorem canonPageBlock_eraseMargins (lv : Nat) (b : SPageBlock) :
    (canonPageBlock lv b).eraseMargins = b.eraseMargins := by
  simp [canonPageBlock, SPageBlock.eraseMargins, asPageItems_eraseMargin, pageMargins_eraseMargin]

/-! ### rules, statements, the sheet -/

theorem canonName_stored (tail : Gap) (name : SName) :
    storedName ((canonName tail name).map (·.2.1)) = storedName (name.map (·.2.1)) := by
  cases name with
  | none => rfl
  | some p =>
    obtain ⟨q, n, g⟩ := p
    cases n with
    | nil => simp [canonName, storedName]
    | cons c t => simp [canonName, storedName]

mutual
theorem canonRule_erase (lv : Nat) : (r : SRule) → (canonRule lv r).erase = r.erase
  | .comment b => by simp [canonRule, SRule.erase]
  | .style sel blk => by simp [canonRule, SRule.erase, canonSel_erase, canonBlock_erase]
  | .unknown t => by simp [canonRule, SRule.erase]
  | .media kw g1 mq g2 name lead rules => by
    simp only [canonRule, SRule.erase]; rw [canonRules_erase (lv + 1) true rules, canonName_stored]
  | .fontface kw g1 blk => by simp [canonRule, SRule.erase, canonBlock_erase]
  | .page kw g0 sel g1 blk => by
    simp [canonRule, SRule.erase, canonPageSel, canonPageBlock_eraseItems, canonPageBlock_eraseMargins]
theorem canonRules_erase (lv : Nat) (inner : Bool) : (rs : SRules) → (canonRules lv inner rs).erase = rs.erase
  | .nil => by simp [canonRules, SRules.erase]
  | .cons r w rest => by
    simp only [canonRules, SRules.erase]; rw [canonRule_erase lv r, canonRules_erase lv inner rest]
end

theorem canonImp_erase (r : SImp) : (canonImp r).erase = r.erase := by
  cases r with
  | comment b => rfl
  | unknown t => rfl
  | import_ kw g1 href g2 mq name => cases mq <;> simp [canonImp, SImp.erase, canonHref_value, canonName_stored]

theorem canonNs_erase (r : SNs) : (canonNs r).erase = r.erase := by
  cases r with
  | comment b => rfl
  | unknown t => rfl
  | namespace_ kw g1 pfx uri g2 => cases pfx <;> simp [canonNs, SNs.erase, canonNsUri, SHref.value]

/-! ### `@variables` -/

theorem canonVarDecl_erase (c : Option Ws) (d : SVarDecl) : (canonVarDecl c d).erase = d.erase := rfl

theorem layVarItems_erase (lv : Nat) : (l : List SVarDecl) →
    (layVarItems lv l).1.map (fun p => p.1.erase) ++ ((layVarItems lv l).2.map SVarDecl.erase).toList =
      l.map SVarDecl.erase
  | [] => rfl
  | [d] => by simp [layVarItems, canonVarDecl_erase]
  | d :: e :: rest => by
    have ih := layVarItems_erase lv (e :: rest)
    simp only [layVarItems, List.map_cons, List.cons_append, canonVarDecl_erase] at ih ⊢
    rw [ih]

theorem canonVarBlock_erase (lv : Nat) (b : SVarBlock) : (canonVarBlock lv b).erase = b.erase := by
  have h := layVarItems_erase lv (varDecls b)
  simp only [SVarBlock.erase, canonVarBlock]
  rw [h]
  congr 1
  simp only [varDecls, List.map_append, List.map_map]
  cases b.last <;> simp [Function.comp_def]

theorem canonVar_erase (r : SVar) : (canonVar r).erase = r.erase := by
  cases r with
  | comment b => rfl
  | unknown t => rfl
  | variables kw g0 blk => simp [canonVar, SVar.erase, canonVarBlock_erase]

theorem layStmts_map {α β : Type} (f : α → α) (e : α → β) (he : ∀ x, e (f x) = e x) (more : Bool)
    (l : List (α × WGap)) : (layStmts f more l).map (fun p => e p.1) = l.map (fun p => e p.1) := by
  induction l with
  | nil => rfl
  | cons p rest ih => obtain ⟨r, w⟩ := p; simp [layStmts, he, ih]

theorem canonV_erase (s : SSheet) : (canonV s).erase = s.erase := by
  simp only [canonV, SSheet.erase]
  rw [layStmts_map canonImp SImp.erase canonImp_erase, layStmts_map canonNs SNs.erase canonNs_erase,
    layStmts_map canonVar SVar.erase canonVar_erase, canonRules_erase]
  cases s.charset <;> simp

end CssVerif.SheetCanon
