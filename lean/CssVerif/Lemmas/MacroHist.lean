import CssVerif.Lemmas.MacroRank
/-!
# Lemmas for C14 — no operation of a history runs out of fuel when all macros respect one rank function

`RankedAll rk m`: every entry of the macro table (shadowed ones too — `dict.update` applies them all) uses lower-ranked
macros only. `Good rk cfg r`: the base macros, the macro cache and the macros stored with every profile are ranked.
Every operation keeps `Good` (whether it raises or not) when the macros it brings are ranked, and never answers
`diverges` when the ranks stay below the fuel.
-/
namespace CssVerif.Profiles

def RankedAll (rk : Str → Nat) (m : Dict Str) : Prop := ∀ kv ∈ m, ∀ n ∈ phNames kv.2, rk n < rk kv.1

theorem RankedAll.rankedBy {rk : Str → Nat} {m : Dict Str} (h : RankedAll rk m) : RankedBy rk m :=
  fun k body hb n hn => h (k, body) (dget_some_mem m k body hb) n hn

theorem rankedAll_nil (rk : Str → Nat) : RankedAll rk [] := fun _ h => by cases h

theorem mem_dset {α : Type} (d : Dict α) (k : Str) (v : α) (x : Str × α) (h : x ∈ dset d k v) : x ∈ d ∨ x = (k, v) := by
  induction d with
  | nil => simp [dset] at h; exact Or.inr h
  | cons a t ih =>
    obtain ⟨k', v'⟩ := a
    simp only [dset] at h
    split at h
    · cases List.mem_cons.mp h with
      | inl e => exact Or.inr e
      | inr e => exact Or.inl (List.mem_cons_of_mem _ e)
    · cases List.mem_cons.mp h with
      | inl e => exact Or.inl (by rw [e]; simp)
      | inr e =>
        cases ih e with
        | inl e' => exact Or.inl (List.mem_cons_of_mem _ e')
        | inr e' => exact Or.inr e'

theorem rankedAll_dset {rk : Str → Nat} {m : Dict Str} (h : RankedAll rk m) (k v : Str)
    (hv : ∀ n ∈ phNames v, rk n < rk k) : RankedAll rk (dset m k v) := by
  intro kv hkv
  cases mem_dset m k v kv hkv with
  | inl e => exact h kv e
  | inr e => subst e; exact hv

theorem rankedAll_dupdate {rk : Str → Nat} {a b : Dict Str} (ha : RankedAll rk a) (hb : RankedAll rk b) :
    RankedAll rk (dupdate a b) := by
  unfold dupdate
  induction b generalizing a with
  | nil => exact ha
  | cons x t ih =>
    simp only [List.foldl_cons]
    exact ih (rankedAll_dset ha x.1 x.2 (hb x (by simp))) (fun kv hkv => hb kv (by simp [hkv]))

/-- the ranks stay below the fuel: every depth is within the fuel -/
def Bounded (rk : Str → Nat) (fuel : Nat) : Prop := ∀ k, rk k < fuel

theorem depth_le_of_bounded {rk : Str → Nat} {fuel : Nat} (hb : Bounded rk fuel) (v : Str) : depth rk v ≤ fuel := by
  unfold depth
  apply depthL_le
  intro n _
  have := hb n
  omega

theorem expandDict_nodiv {rk : Str → Nat} {m : Dict Str} (hm : RankedAll rk m) {fuel : Nat} (hb : Bounded rk fuel)
    (d : Dict PVal) : expandDict fuel m d ≠ .error .diverges :=
  expandDict_not_diverges rk m hm.rankedBy fuel d (fun _ s _ => depth_le_of_bounded hb s)

structure Good (rk : Str → Nat) (cfg : Cfg) (r : Reg) : Prop where
  base : RankedAll rk cfg.base
  used : RankedAll rk r.used
  raw : ∀ pe ∈ r.raw, RankedAll rk pe.2.macros

def optRanked (rk : Str → Nat) (ms : Option (Dict Str)) : Prop := RankedAll rk (ms.getD [])

/-! ### `_resetProperties` -/

theorem gatherMacros_ranked {rk : Str → Nat} (raw : Dict Raw) (hraw : ∀ pe ∈ raw, RankedAll rk pe.2.macros)
    (m : Dict Str) (hm : RankedAll rk m) (names : List Str) (m' : Dict Str)
    (h : gatherMacros raw m names = .ok m') : RankedAll rk m' := by
  induction names generalizing m with
  | nil => simp only [gatherMacros] at h; cases h; exact hm
  | cons p ps ih =>
    simp only [gatherMacros] at h
    cases hd : dget raw p with
    | none => simp [hd] at h
    | some e =>
      simp only [hd] at h
      exact ih _ (rankedAll_dupdate hm (hraw (p, e) (dget_some_mem raw p e hd))) h

theorem gatherMacros_nodiv (raw : Dict Raw) (m : Dict Str) (names : List Str) (e : Exc)
    (h : gatherMacros raw m names = .error e) : e ≠ .diverges := by
  induction names generalizing m with
  | nil => simp [gatherMacros] at h
  | cons p ps ih =>
    simp only [gatherMacros] at h
    cases hd : dget raw p with
    | none => simp only [hd] at h; cases h; simp
    | some x => simp only [hd] at h; exact ih _ h

theorem rebuild_nodiv {rk : Str → Nat} {m : Dict Str} (hm : RankedAll rk m) {fuel : Nat} (hb : Bounded rk fuel)
    (raw : Dict Raw) (acc : Dict (Dict CVal)) (names : List Str) :
    (rebuild fuel raw m acc names).2 ≠ some .diverges := by
  induction names generalizing acc with
  | nil => simp [rebuild]
  | cons p ps ih =>
    simp only [rebuild]
    cases hd : dget raw p with
    | none => simp
    | some e =>
      simp only
      cases hp : e.props with
      | none => simp
      | some props =>
        simp only
        cases hx : expandDict fuel m props with
        | error x =>
          have := expandDict_nodiv hm hb props
          rw [hx] at this
          simpa using this
        | ok ex => exact ih _

theorem resetProperties_good {rk : Str → Nat} {cfg : Cfg} {r : Reg} (hg : Good rk cfg r) (nm : Option (Dict Str))
    (hnm : optRanked rk nm) : Good rk cfg (resetProperties cfg r nm).1 := by
  unfold resetProperties
  cases hgm : gatherMacros r.raw cfg.base r.names with
  | error e => exact hg
  | ok m0 =>
    have hm0 := gatherMacros_ranked r.raw hg.raw cfg.base hg.base r.names m0 hgm
    have hm : RankedAll rk (if truthy nm then dupdate m0 (nm.getD []) else m0) := by
      split
      · exact rankedAll_dupdate hm0 hnm
      · exact hm0
    simp only
    split
    · exact ⟨hg.base, hg.used, hg.raw⟩
    · exact ⟨hg.base, hm, hg.raw⟩

theorem resetProperties_nodiv {rk : Str → Nat} {cfg : Cfg} {r : Reg} (hg : Good rk cfg r) (hb : Bounded rk cfg.fuel)
    (nm : Option (Dict Str)) (hnm : optRanked rk nm) : (resetProperties cfg r nm).2 ≠ some .diverges := by
  unfold resetProperties
  cases hgm : gatherMacros r.raw cfg.base r.names with
  | error e => simpa using gatherMacros_nodiv _ _ _ e hgm
  | ok m0 =>
    have hm0 := gatherMacros_ranked r.raw hg.raw cfg.base hg.base r.names m0 hgm
    have hm : RankedAll rk (if truthy nm then dupdate m0 (nm.getD []) else m0) := by
      split
      · exact rankedAll_dupdate hm0 hnm
      · exact hm0
    simp only
    have := rebuild_nodiv hm hb r.raw [] r.names
    split
    · rename_i e he; rw [he] at this; simpa using this
    · simp

/-! ### `addProfile` -/

theorem good_updateKnown {rk : Str → Nat} {cfg : Cfg} {r : Reg} (hg : Good rk cfg r) : Good rk cfg (updateKnown r) :=
  ⟨hg.base, hg.used, hg.raw⟩

theorem raw_dset_good {rk : Str → Nat} (raw : Dict Raw) (hraw : ∀ pe ∈ raw, RankedAll rk pe.2.macros) (p : Str)
    (e : Raw) (he : RankedAll rk e.macros) : ∀ pe ∈ dset raw p e, RankedAll rk pe.2.macros := by
  intro pe hpe
  cases mem_dset raw p e pe hpe with
  | inl h => exact hraw pe h
  | inr h => subst h; exact he

theorem truthy_getD_ranked {rk : Str → Nat} (ms : Option (Dict Str)) (h : optRanked rk ms) :
    RankedAll rk (ms.getD []) := h

theorem addMacros_good {rk : Str → Nat} {cfg : Cfg} {r : Reg} (hg : Good rk cfg r) (p : Str) (ms : Option (Dict Str))
    (hms : optRanked rk ms) :
    Good rk cfg (addMacros cfg r p ms).1.1 ∧ RankedAll rk (addMacros cfg r p ms).1.2 := by
  unfold addMacros
  split
  · simp only
    split
    · exact ⟨resetProperties_good hg _ hms, hms⟩
    · exact ⟨⟨hg.base, rankedAll_dupdate hg.used hms, hg.raw⟩, hms⟩
  · refine ⟨hg, ?_⟩
    cases hd : dget r.raw p with
    | none => exact rankedAll_nil rk
    | some e => exact hg.raw (p, e) (dget_some_mem _ _ _ hd)

theorem addMacros_nodiv {rk : Str → Nat} {cfg : Cfg} {r : Reg} (hg : Good rk cfg r) (hb : Bounded rk cfg.fuel)
    (p : Str) (ms : Option (Dict Str)) (hms : optRanked rk ms) : (addMacros cfg r p ms).2 ≠ some .diverges := by
  unfold addMacros
  split
  · simp only
    split
    · exact resetProperties_nodiv hg hb _ hms
    · simp
  · simp

theorem addStore_good {rk : Str → Nat} {cfg : Cfg} {r : Reg} (hg : Good rk cfg r) (p : Str) (ps : Dict PVal)
    (ms : Dict Str) (hms : RankedAll rk ms) : Good rk cfg (addStore cfg r p ps ms).1 := by
  have hraw := raw_dset_good r.raw hg.raw p { props := some ps, macros := ms } hms
  unfold addStore
  simp only
  split
  · exact ⟨hg.base, hg.used, hraw⟩
  · exact ⟨hg.base, hg.used, hraw⟩

theorem addStore_nodiv {rk : Str → Nat} {cfg : Cfg} {r : Reg} (hg : Good rk cfg r) (hb : Bounded rk cfg.fuel)
    (p : Str) (ps : Dict PVal) (ms : Dict Str) : (addStore cfg r p ps ms).2 ≠ some .diverges := by
  unfold addStore
  simp only
  have := expandDict_nodiv hg.used hb ps
  split
  · rename_i e he
    simp only [he] at this
    simpa using this
  · simp

theorem addProfileRaw_good {rk : Str → Nat} {cfg : Cfg} {r : Reg} (hg : Good rk cfg r) (p : Str) (ps : Dict PVal)
    (ms : Option (Dict Str)) (hms : optRanked rk ms) : Good rk cfg (addProfileRaw cfg r p ps ms).1 := by
  unfold addProfileRaw
  split
  · unfold addReplace
    simp only
    have hg2 : Good rk cfg { r with
        names := if p ∈ r.names then r.names else r.names ++ [p],
        raw := dset r.raw p { props := some ps, macros := ms.getD [] } } :=
      ⟨hg.base, hg.used, raw_dset_good r.raw hg.raw p _ hms⟩
    have := resetProperties_good hg2 none (rankedAll_nil rk)
    split
    · exact this
    · exact good_updateKnown this
  · unfold addPlain
    simp only
    obtain ⟨h1, h2⟩ := addMacros_good hg p ms hms
    split
    · exact h1
    · exact addStore_good h1 p ps _ h2

theorem addProfileRaw_nodiv {rk : Str → Nat} {cfg : Cfg} {r : Reg} (hg : Good rk cfg r) (hb : Bounded rk cfg.fuel)
    (p : Str) (ps : Dict PVal) (ms : Option (Dict Str)) (hms : optRanked rk ms) :
    (addProfileRaw cfg r p ps ms).2 ≠ some .diverges := by
  unfold addProfileRaw
  split
  · unfold addReplace
    simp only
    have hg2 : Good rk cfg { r with
        names := if p ∈ r.names then r.names else r.names ++ [p],
        raw := dset r.raw p { props := some ps, macros := ms.getD [] } } :=
      ⟨hg.base, hg.used, raw_dset_good r.raw hg.raw p _ hms⟩
    have := resetProperties_nodiv hg2 hb none (rankedAll_nil rk)
    split
    · rename_i e he; rw [he] at this; simpa using this
    · simp
  · unfold addPlain
    simp only
    obtain ⟨h1, _⟩ := addMacros_good hg p ms hms
    have hm := addMacros_nodiv hg hb p ms hms
    split
    · rename_i e he; rw [he] at hm; simpa using hm
    · exact addStore_nodiv h1 hb p ps _

theorem atomic_good {rk : Str → Nat} {cfg : Cfg} (f : Reg → Reg × Option Exc) {r : Reg} (hg : Good rk cfg r)
    (hf : Good rk cfg (f r).1) : Good rk cfg (atomic f r).1 := by
  unfold atomic
  simp only
  split
  · exact hf
  · exact ⟨hg.base, hg.used, hg.raw⟩

theorem atomic_nodiv (f : Reg → Reg × Option Exc) (r : Reg) (hf : (f r).2 ≠ some .diverges) :
    (atomic f r).2 ≠ some .diverges := by
  unfold atomic
  simp only
  split
  · rename_i h; rw [h]; simp
  · rename_i e h; rw [h] at hf; simpa using hf

theorem addProfile_good {rk : Str → Nat} {cfg : Cfg} {r : Reg} (hg : Good rk cfg r) (p : Str) (ps : Dict PVal)
    (ms : Option (Dict Str)) (hms : optRanked rk ms) : Good rk cfg (addProfile cfg r p ps ms).1 :=
  atomic_good _ hg (addProfileRaw_good hg p ps ms hms)

theorem addProfile_nodiv {rk : Str → Nat} {cfg : Cfg} {r : Reg} (hg : Good rk cfg r) (hb : Bounded rk cfg.fuel)
    (p : Str) (ps : Dict PVal) (ms : Option (Dict Str)) (hms : optRanked rk ms) :
    (addProfile cfg r p ps ms).2 ≠ some .diverges :=
  atomic_nodiv _ r (addProfileRaw_nodiv hg hb p ps ms hms)

/-! ### `addProfiles` -/

theorem preload_good {rk : Str → Nat} {cfg : Cfg} {r : Reg} (hg : Good rk cfg r) (l : List ProfileDef)
    (hl : ∀ d ∈ l, optRanked rk d.macros) : Good rk cfg (preloadMacros r l) := by
  induction l generalizing r with
  | nil => exact hg
  | cons d ds ih =>
    simp only [preloadMacros]
    have hd := hl d (by simp)
    split
    · exact ih ⟨hg.base, rankedAll_dupdate hg.used hd, raw_dset_good r.raw hg.raw d.name _ hd⟩
        (fun x hx => hl x (by simp [hx]))
    · exact ih hg (fun x hx => hl x (by simp [hx]))

theorem addEach_good {rk : Str → Nat} {cfg : Cfg} {r : Reg} (hg : Good rk cfg r) (l : List ProfileDef) :
    Good rk cfg (addEach cfg r l).1 := by
  induction l generalizing r with
  | nil => exact hg
  | cons d ds ih =>
    simp only [addEach]
    have := addProfile_good hg d.name d.props none (rankedAll_nil rk)
    split
    · exact this
    · exact ih this

theorem addEach_nodiv {rk : Str → Nat} {cfg : Cfg} {r : Reg} (hg : Good rk cfg r) (hb : Bounded rk cfg.fuel)
    (l : List ProfileDef) : (addEach cfg r l).2 ≠ some .diverges := by
  induction l generalizing r with
  | nil => simp [addEach]
  | cons d ds ih =>
    simp only [addEach]
    have h1 := addProfile_good hg d.name d.props none (rankedAll_nil rk)
    have h2 := addProfile_nodiv hg hb d.name d.props none (rankedAll_nil rk)
    split
    · rename_i e he; rw [he] at h2; simpa using h2
    · exact ih h1

theorem addProfiles_good {rk : Str → Nat} {cfg : Cfg} {r : Reg} (hg : Good rk cfg r) (l : List ProfileDef)
    (hl : ∀ d ∈ l, optRanked rk d.macros) : Good rk cfg (addProfiles cfg r l).1 := by
  apply atomic_good _ hg
  unfold addProfilesRaw
  simp only
  have h1 := addEach_good (preload_good hg l hl) l
  split
  · exact h1
  · split
    · have := resetProperties_good h1 none (rankedAll_nil rk)
      split
      · exact this
      · exact good_updateKnown this
    · exact h1

theorem addProfiles_nodiv {rk : Str → Nat} {cfg : Cfg} {r : Reg} (hg : Good rk cfg r) (hb : Bounded rk cfg.fuel)
    (l : List ProfileDef) (hl : ∀ d ∈ l, optRanked rk d.macros) : (addProfiles cfg r l).2 ≠ some .diverges := by
  apply atomic_nodiv
  unfold addProfilesRaw
  simp only
  have h0 := preload_good hg l hl
  have h1 := addEach_good h0 l
  have h2 := addEach_nodiv h0 hb l
  split
  · rename_i e he; rw [he] at h2; simpa using h2
  · split
    · have := resetProperties_nodiv h1 hb none (rankedAll_nil rk)
      split
      · rename_i e he; rw [he] at this; simpa using this
      · simp
    · rename_i he _; rw [he]; simp

/-! ### `removeProfile`, remove-all, `defaultProfiles` -/

theorem raw_derase_good {rk : Str → Nat} (raw : Dict Raw) (hraw : ∀ pe ∈ raw, RankedAll rk pe.2.macros) (p : Str) :
    ∀ pe ∈ derase raw p, RankedAll rk pe.2.macros := by
  intro pe hpe
  exact hraw pe (List.mem_filter.mp hpe).1

theorem removeProfileRaw_good {rk : Str → Nat} {cfg : Cfg} {r : Reg} (hg : Good rk cfg r) (q : Option Str) :
    Good rk cfg (removeProfileRaw cfg r q).1 := by
  unfold removeProfileRaw
  cases q with
  | none => exact hg
  | some p =>
    simp only
    cases hd : dget r.raw p with
    | none => exact hg
    | some e =>
      simp only
      cases hc : dget r.compiled p with
      | none => exact hg
      | some c =>
        simp only
        have hg1 : Good rk cfg { r with compiled := derase r.compiled p, raw := derase r.raw p } :=
          ⟨hg.base, hg.used, raw_derase_good r.raw hg.raw p⟩
        split
        · have hg2 : Good rk cfg { r with compiled := derase r.compiled p, raw := derase r.raw p,
                                          names := r.names.erase p } := ⟨hg.base, hg.used, raw_derase_good r.raw hg.raw p⟩
          split
          · have := resetProperties_good hg2 none (rankedAll_nil rk)
            split
            · exact this
            · exact good_updateKnown this
          · exact good_updateKnown hg2
        · exact hg1

theorem removeProfileRaw_nodiv {rk : Str → Nat} {cfg : Cfg} {r : Reg} (hg : Good rk cfg r) (hb : Bounded rk cfg.fuel)
    (q : Option Str) : (removeProfileRaw cfg r q).2 ≠ some .diverges := by
  unfold removeProfileRaw
  cases q with
  | none => simp
  | some p =>
    simp only
    cases hd : dget r.raw p with
    | none => simp
    | some e =>
      simp only
      cases hc : dget r.compiled p with
      | none => simp
      | some c =>
        simp only
        split
        · have hg2 : Good rk cfg { r with compiled := derase r.compiled p, raw := derase r.raw p,
                                          names := r.names.erase p } := ⟨hg.base, hg.used, raw_derase_good r.raw hg.raw p⟩
          split
          · have := resetProperties_nodiv hg2 hb none (rankedAll_nil rk)
            split
            · rename_i x hx; rw [hx] at this; simpa using this
            · simp
          · simp
        · simp

/-- the macros an operation brings respect the rank function -/
def RankedOp (rk : Str → Nat) : Op → Prop
  | .add _ _ ms => optRanked rk ms
  | .addMany l => ∀ d ∈ l, optRanked rk d.macros
  | _ => True

theorem step_good {rk : Str → Nat} {cfg : Cfg} {r : Reg} (hg : Good rk cfg r) (op : Op) (hop : RankedOp rk op) :
    Good rk cfg (step cfg r op).1 := by
  cases op with
  | add n ps ms => exact addProfile_good hg n ps ms hop
  | addMany l => exact addProfiles_good hg l hop
  | remove q => exact atomic_good _ hg (removeProfileRaw_good hg q)
  | removeAll => exact ⟨hg.base, hg.base, fun _ h => by cases h⟩
  | setDefault d => exact ⟨hg.base, hg.used, hg.raw⟩

theorem step_nodiv {rk : Str → Nat} {cfg : Cfg} {r : Reg} (hg : Good rk cfg r) (hb : Bounded rk cfg.fuel) (op : Op)
    (hop : RankedOp rk op) : (step cfg r op).2 ≠ some .diverges := by
  cases op with
  | add n ps ms => exact addProfile_nodiv hg hb n ps ms hop
  | addMany l => exact addProfiles_nodiv hg hb l hop
  | remove q => exact atomic_nodiv _ r (removeProfileRaw_nodiv hg hb q)
  | removeAll => simp [step]
  | setDefault d => simp [step]

theorem good_empty {rk : Str → Nat} {cfg : Cfg} (hbase : RankedAll rk cfg.base) : Good rk cfg (empty cfg) :=
  ⟨hbase, hbase, fun _ h => by cases h⟩

theorem init_good {rk : Str → Nat} {cfg : Cfg} (hbase : RankedAll rk cfg.base) (l : List ProfileDef)
    (hl : ∀ d ∈ l, optRanked rk d.macros) : Good rk cfg (init cfg l).1 := by
  have := addProfiles_good (good_empty hbase) l hl
  unfold init
  simp only
  split
  · exact this
  · exact good_updateKnown this

/-- along a whole history: every prefix state is `Good`, and no operation answers `diverges` -/
theorem run_nodiv {rk : Str → Nat} {cfg : Cfg} (hb : Bounded rk cfg.fuel) (r : Reg) (hg : Good rk cfg r)
    (ops : List Op) (hops : ∀ op ∈ ops, RankedOp rk op) :
    Good rk cfg (run cfg r ops) ∧
    ∀ pre op post, ops = pre ++ op :: post → (step cfg (run cfg r pre) op).2 ≠ some .diverges := by
  induction ops generalizing r with
  | nil => exact ⟨hg, fun pre op post h => by simp at h⟩
  | cons o t ih =>
    have hg' := step_good hg o (hops o (by simp))
    obtain ⟨h1, h2⟩ := ih (step cfg r o).1 hg' (fun x hx => hops x (by simp [hx]))
    refine ⟨h1, ?_⟩
    intro pre op post h
    cases pre with
    | nil =>
      simp only [List.nil_append, List.cons.injEq] at h
      obtain ⟨rfl, _⟩ := h
      exact step_nodiv hg hb o (hops o (by simp))
    | cons a pre' =>
      simp only [List.cons_append, List.cons.injEq] at h
      obtain ⟨rfl, ht⟩ := h
      exact h2 pre' op post ht

theorem init_nodiv {rk : Str → Nat} {cfg : Cfg} (hb : Bounded rk cfg.fuel) (hbase : RankedAll rk cfg.base)
    (l : List ProfileDef) (hl : ∀ d ∈ l, optRanked rk d.macros) : (init cfg l).2 ≠ some .diverges := by
  have := addProfiles_nodiv (good_empty hbase) hb l hl
  unfold init
  simp only
  split
  · rename_i e he; rw [he] at this; simpa using this
  · simp

theorem rankedAllB_spec (rk : Str → Nat) (m : Dict Str) (h : rankedAllB rk m = true) : RankedAll rk m := by
  intro kv hkv n hn
  unfold rankedAllB at h
  have := List.all_eq_true.mp (List.all_eq_true.mp h kv hkv) n hn
  simpa using this

theorem bounded_rankFn (m : Dict Str) (fuel : Nat) (h : m.length < fuel) : Bounded (rankFn m) fuel := by
  intro k
  have := rankFn_le m k
  omega

/-- an operation that brings no macros -/
def Op.noMacros : Op → Prop
  | .add _ _ ms => truthy ms = false ∧ ms.getD [] = []
  | .addMany l => ∀ d ∈ l, d.macros.getD [] = []
  | _ => True

theorem rankedOp_of_noMacros (rk : Str → Nat) (op : Op) (h : op.noMacros) : RankedOp rk op := by
  cases op with
  | add n ps ms =>
    show RankedAll rk (ms.getD [])
    rw [h.2]; exact rankedAll_nil rk
  | addMany l =>
    intro d hd
    show RankedAll rk (d.macros.getD [])
    rw [h d hd]; exact rankedAll_nil rk
  | remove q => trivial
  | removeAll => trivial
  | setDefault d => trivial

end CssVerif.Profiles
