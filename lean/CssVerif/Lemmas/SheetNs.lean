import CssVerif.Lemmas.SheetReparse
/-! helper lemmas for C09: every operation leaves the @namespace rules clean (`NsClean`) -/
namespace CssVerif.SheetEdit
open CssVerif.Proto (Cps)

/-! ## dicts built by `set` -/

/-- keys pairwise distinct, values pairwise distinct -/
def DictOK (d : Dict) : Prop := (d.map (·.1)).Nodup ∧ (d.map (·.2)).Nodup

theorem dict_hasItem_iff {d : Dict} {k v : Cps} : d.hasItem k v = true ↔ (k, v) ∈ d := by
  unfold Dict.hasItem
  rw [List.any_eq_true]
  constructor
  · rintro ⟨e, he, h⟩
    simp only [Bool.and_eq_true, beq_iff_eq] at h
    have : e = (k, v) := by cases e; simp_all
    rw [← this]; exact he
  · intro h; exact ⟨(k, v), h, by simp⟩

theorem dict_hasKey_iff {d : Dict} {k : Cps} : d.hasKey k = true ↔ k ∈ d.map (·.1) := by
  unfold Dict.hasKey
  rw [List.any_eq_true]
  constructor
  · rintro ⟨e, he, h⟩
    exact List.mem_map.mpr ⟨e, he, by simpa using h⟩
  · intro h
    obtain ⟨e, he, h⟩ := List.mem_map.mp h
    exact ⟨e, he, by simpa using h⟩

/-- with distinct keys a dict is a function -/
theorem dict_functional {d : Dict} (h : (d.map (·.1)).Nodup) {k v v' : Cps} (h1 : (k, v) ∈ d) (h2 : (k, v') ∈ d) :
    v = v' := by
  induction d with
  | nil => cases h1
  | cons e t ih =>
    rw [List.map_cons, List.nodup_cons] at h
    rcases List.mem_cons.mp h1 with h1 | h1 <;> rcases List.mem_cons.mp h2 with h2 | h2
    · rw [← h1] at h2; exact (Prod.mk.inj h2).2.symm
    · exfalso; apply h.1; rw [← h1]; exact List.mem_map.mpr ⟨(k, v'), h2, rfl⟩
    · exfalso; apply h.1; rw [← h2]; exact List.mem_map.mpr ⟨(k, v), h1, rfl⟩
    · exact ih h.2 h1 h2

/-- with distinct values the inverse is a function too -/
theorem dict_injective {d : Dict} (h : (d.map (·.2)).Nodup) {k k' v : Cps} (h1 : (k, v) ∈ d) (h2 : (k', v) ∈ d) :
    k = k' := by
  induction d with
  | nil => cases h1
  | cons e t ih =>
    rw [List.map_cons, List.nodup_cons] at h
    rcases List.mem_cons.mp h1 with h1 | h1 <;> rcases List.mem_cons.mp h2 with h2 | h2
    · rw [← h1] at h2; exact (Prod.mk.inj h2).1.symm
    · exfalso; apply h.1; rw [← h1]; exact List.mem_map.mpr ⟨(k', v), h2, rfl⟩
    · exfalso; apply h.1; rw [← h2]; exact List.mem_map.mpr ⟨(k, v), h1, rfl⟩
    · exact ih h.2 h1 h2

theorem map_replace_keys (d : Dict) (k v : Cps) :
    (d.map (fun e => if e.1 == k then (k, v) else e)).map (·.1) = d.map (·.1) := by
  rw [List.map_map]
  apply List.map_congr_left
  intro e _
  simp only [Function.comp]
  split
  · rename_i h; simp at h; exact h.symm
  · rfl

theorem mem_map_replace {d : Dict} {k v : Cps} {x : Cps × Cps}
    (h : x ∈ d.map (fun e => if e.1 == k then (k, v) else e)) : x = (k, v) ∨ (x ∈ d ∧ x.1 ≠ k) := by
  obtain ⟨e, he, hx⟩ := List.mem_map.mp h
  split at hx
  · exact Or.inl hx.symm
  · rename_i hne
    right; rw [← hx]; exact ⟨he, by simpa using hne⟩

theorem map_replace_id {l : Dict} {k v : Cps} (h : k ∉ l.map (·.1)) :
    l.map (fun e => if e.1 == k then (k, v) else e) = l := by
  induction l with
  | nil => rfl
  | cons e t ih =>
    simp only [List.map_cons, List.mem_cons, not_or] at h
    simp only [List.map_cons]
    rw [ih h.2]
    have : (e.1 == k) = false := by simpa using (fun heq => h.1 heq.symm)
    simp [this]

/-- `set` with a value that is not in the dict yet keeps keys and values distinct -/
theorem dictOK_set {d : Dict} (h : DictOK d) (k v : Cps) (hv : v ∉ d.map (·.2)) : DictOK (d.set k v) := by
  unfold Dict.set
  split
  · rename_i hk
    refine ⟨by rw [map_replace_keys]; exact h.1, ?_⟩
    -- values: the old value at `k` is replaced by `v`
    obtain ⟨e, he, hek⟩ := List.mem_map.mp (dict_hasKey_iff.mp hk)
    obtain ⟨a, b, hd⟩ := List.append_of_mem he
    have h1 := h.1; have h2 := h.2
    rw [hd, List.map_append, List.map_cons, List.nodup_append, List.nodup_cons] at h1
    rw [hd, List.map_append, List.map_cons, List.nodup_append, List.nodup_cons] at h2
    rw [hd, List.map_append, List.map_cons, List.mem_append, List.mem_cons] at hv
    have hka : k ∉ a.map (·.1) := by
      intro hm; exact h1.2.2 k hm e.1 (by simp) hek.symm
    have hkb : k ∉ b.map (·.1) := by
      intro hm; rw [← hek] at hm; exact h1.2.1.1 hm
    rw [hd, List.map_append, List.map_cons, map_replace_id hka, map_replace_id hkb]
    simp only [hek, beq_self_eq_true, if_true, List.map_append, List.map_cons]
    rw [List.nodup_append, List.nodup_cons]
    refine ⟨h2.1, ⟨fun hm => hv (Or.inr (Or.inr hm)), h2.2.1.2⟩, ?_⟩
    intro x hx y hy
    rcases List.mem_cons.mp hy with hy | hy
    · rw [hy]; intro heq; rw [heq] at hx; exact hv (Or.inl hx)
    · exact h2.2.2 x hx y (List.mem_cons_of_mem _ hy)
  · rename_i hk
    have hk' : k ∉ d.map (·.1) := fun hm => hk (dict_hasKey_iff.mpr hm)
    constructor
    · rw [List.map_append, List.nodup_append]
      refine ⟨h.1, by simp, ?_⟩
      intro a ha b hb
      simp at hb; subst hb
      intro heq; subst heq; exact hk' ha
    · rw [List.map_append, List.nodup_append]
      refine ⟨h.2, by simp, ?_⟩
      intro a ha b hb
      simp at hb; subst hb
      intro heq; subst heq; exact hv ha

/-- the values of `d.set k v` are values of `d` or `v` -/
theorem set_values {d : Dict} {k v : Cps} : ∀ x ∈ (d.set k v).map (·.2), x = v ∨ x ∈ d.map (·.2) := by
  intro x hx
  unfold Dict.set at hx
  split at hx
  · obtain ⟨e, he, hxe⟩ := List.mem_map.mp hx
    rcases mem_map_replace he with h | h
    · left; rw [← hxe, h]
    · right; rw [← hxe]; exact List.mem_map.mpr ⟨e, h.1, rfl⟩
  · rw [List.map_append, List.mem_append] at hx
    rcases hx with hx | hx
    · exact Or.inr hx
    · left; simpa using hx

/-- folding `set` over rules with pairwise distinct URIs that are not values yet -/
theorem foldl_set_ok (l : List Rule) (d : Dict) (hd : DictOK d) (hu : (l.map (·.uri)).Nodup)
    (hdis : ∀ x ∈ l, x.uri ∉ d.map (·.2)) :
    DictOK (l.foldl (fun d r => d.set r.pre r.uri) d) ∧
    ∀ v ∈ (l.foldl (fun d r => d.set r.pre r.uri) d).map (·.2), v ∈ d.map (·.2) ∨ v ∈ l.map (·.uri) := by
  induction l generalizing d with
  | nil => exact ⟨hd, fun v hv => Or.inl hv⟩
  | cons r rs ih =>
    rw [List.map_cons, List.nodup_cons] at hu
    simp only [List.foldl_cons]
    have hd' := dictOK_set hd r.pre r.uri (hdis r (by simp))
    have hdis' : ∀ x ∈ rs, x.uri ∉ (d.set r.pre r.uri).map (·.2) := by
      intro x hx hm
      rcases set_values _ hm with h | h
      · exact hu.1 (List.mem_map.mpr ⟨x, hx, h⟩)
      · exact hdis x (by simp [hx]) h
    obtain ⟨h1, h2⟩ := ih _ hd' hu.2 hdis'
    refine ⟨h1, ?_⟩
    intro v hv
    rcases h2 v hv with h | h
    · rcases set_values _ h with h' | h'
      · right; simp [h']
      · exact Or.inl h'
    · right; simp only [List.map_cons, List.mem_cons]; exact Or.inr h

theorem uniqueByUri_sub (l : List Rule) (seen : List Cps) : (uniqueByUri l seen).Sublist l := by
  induction l generalizing seen with
  | nil => exact List.Sublist.refl _
  | cons r rs ih =>
    unfold uniqueByUri
    split
    · exact (ih seen).cons _
    · exact (ih _).cons_cons _

theorem uniqueByUri_nodup (l : List Rule) (seen : List Cps) :
    ((uniqueByUri l seen).map (·.uri)).Nodup ∧ ∀ x ∈ uniqueByUri l seen, x.uri ∉ seen := by
  induction l generalizing seen with
  | nil => simp [uniqueByUri]
  | cons r rs ih =>
    unfold uniqueByUri
    split
    · exact ih seen
    · rename_i hr
      have hr' : r.uri ∉ seen := by simpa using hr
      obtain ⟨h1, h2⟩ := ih (r.uri :: seen)
      refine ⟨?_, ?_⟩
      · rw [List.map_cons, List.nodup_cons]
        refine ⟨?_, h1⟩
        intro hm
        obtain ⟨x, hx, hxu⟩ := List.mem_map.mp hm
        exact h2 x hx (by simp [hxu])
      · intro x hx
        rcases List.mem_cons.mp hx with hx | hx
        · rw [hx]; exact hr'
        · intro hm; exact h2 x hx (by simp [hm])

/-- `namespaces` is a one-to-one map, whatever the rule list -/
theorem nsDict_ok (l : List Rule) : DictOK (nsDict l) := by
  unfold nsDict
  exact (foldl_set_ok _ [] ⟨by simp, by simp⟩ (uniqueByUri_nodup _ []).1 (by intro x _ h; cases h)).1

theorem nodup_map_on {α β} {f : α → β} {l : List α} (hinj : ∀ x ∈ l, ∀ y ∈ l, f x = f y → x = y) (h : l.Nodup) :
    (l.map f).Nodup := by
  induction l with
  | nil => simp
  | cons a t ih =>
    rw [List.nodup_cons] at h
    rw [List.map_cons, List.nodup_cons]
    refine ⟨?_, ih (fun x hx y hy => hinj x (by simp [hx]) y (by simp [hy])) h.2⟩
    intro hm
    obtain ⟨b, hb, hfb⟩ := List.mem_map.mp hm
    have := hinj b (by simp [hb]) a (by simp) hfb
    rw [this] at hb; exact h.1 hb

theorem nodup_of_map {α β} (f : α → β) {l : List α} (h : (l.map f).Nodup) : l.Nodup := by
  induction l with
  | nil => simp
  | cons a t ih =>
    rw [List.map_cons, List.nodup_cons] at h
    rw [List.nodup_cons]
    exact ⟨fun hm => h.1 (List.mem_map.mpr ⟨a, hm, rfl⟩), ih h.2⟩

/-! ## what `_cleanNamespaces` keeps -/

/-- without an exception every @namespace rule that is left is an effective one -/
theorem cleanLoop_kept (items : Dict) (done todo removed : List Rule)
    (h : (cleanLoop items done todo removed).2.2 = none) :
    ∀ x ∈ (cleanLoop items done todo removed).1,
      x ∈ done ∨ (x ∈ todo ∧ (x.kind = .ns → items.hasItem x.pre x.uri = true)) := by
  induction todo generalizing done removed with
  | nil => intro x hx; exact Or.inl (by simpa [cleanLoop] using hx)
  | cons r rest ih =>
    unfold cleanLoop at h ⊢
    split
    · rename_i hc
      simp only [hc, if_true] at h
      split
      · rename_i hr; simp only [hr, if_true] at h; cases h
      · rename_i hr
        simp only [hr] at h
        intro x hx
        rcases ih done _ h x hx with h' | h'
        · exact Or.inl h'
        · exact Or.inr ⟨by simp [h'.1], h'.2⟩
    · rename_i hc
      simp only [hc] at h
      intro x hx
      rcases ih (done ++ [r]) removed h x hx with h' | h'
      · rcases List.mem_append.mp h' with h'' | h''
        · exact Or.inl h''
        · right
          have : x = r := by simpa using h''
          subst this
          refine ⟨by simp, ?_⟩
          intro hk
          simp only [Bool.and_eq_true, decide_eq_true_eq, Bool.not_eq_true', not_and, Bool.not_eq_false] at hc
          exact hc hk
      · exact Or.inr ⟨by simp [h'.1], h'.2⟩

theorem nsPairs_sublist {l l' : List Rule} (h : l'.Sublist l) : (nsPairs l').Sublist (nsPairs l) := by
  unfold nsPairs
  exact (h.filter _).map _

theorem mem_nsPairs_iff {l : List Rule} {pu : Cps × Cps} :
    pu ∈ nsPairs l ↔ ∃ x ∈ l, x.kind = .ns ∧ (x.pre, x.uri) = pu := by
  unfold nsPairs
  simp only [List.mem_map, List.mem_filter, decide_eq_true_eq]
  constructor
  · rintro ⟨x, ⟨hx, hk⟩, h⟩; exact ⟨x, hx, hk, h⟩
  · rintro ⟨x, hx, hk, h⟩; exact ⟨x, ⟨hx, hk⟩, h⟩

/-- pairs that all lie in a one-to-one dict and are pairwise different have distinct prefixes and distinct URIs -/
theorem nsClean_of_items {l : List Rule} {d : Dict} (hd : DictOK d) (hn : (nsPairs l).Nodup)
    (hin : ∀ pu ∈ nsPairs l, pu ∈ d) : NsClean l := by
  constructor
  · apply nodup_map_on _ hn
    intro p hp q hq hpq
    have h1 := hin p hp; have h2 := hin q hq
    have : p.2 = q.2 := dict_functional hd.1 (k := p.1) (by simpa using h1) (by rw [hpq]; simpa using h2)
    exact Prod.ext hpq this
  · apply nodup_map_on _ hn
    intro p hp q hq hpq
    have h1 := hin p hp; have h2 := hin q hq
    have : p.1 = q.1 := dict_injective hd.2 (v := p.2) (by simpa using h1) (by rw [hpq]; simpa using h2)
    exact Prod.ext this hpq

theorem dict_get_of_mem {d : Dict} (h : (d.map (·.1)).Nodup) {k v : Cps} (hm : (k, v) ∈ d) : d.get? k = some v := by
  unfold Dict.get?
  induction d with
  | nil => cases hm
  | cons e t ih =>
    rw [List.map_cons, List.nodup_cons] at h
    rcases List.mem_cons.mp hm with hm | hm
    · subst hm; simp
    · have hne : e.1 ≠ k := by
        intro heq; apply h.1; rw [heq]; exact List.mem_map.mpr ⟨(k, v), hm, rfl⟩
      have hb : (e.1 == k) = false := by simpa using hne
      simp only [List.find?_cons, hb]
      exact ih h.2 hm

theorem nsPairs_pyInsert_ns (l : List Rule) (i : Nat) (r : Rule) (h : r.kind = .ns) :
    nsPairs (pyInsert l i r) = nsPairs (l.take i) ++ (r.pre, r.uri) :: nsPairs (l.drop i) := by
  unfold pyInsert
  rw [nsPairs_append, show r :: l.drop i = [r] ++ l.drop i from rfl, nsPairs_append, nsPairs_single_ns h]
  rfl

theorem nsPairs_take_drop (l : List Rule) (i : Nat) : nsPairs l = nsPairs (l.take i) ++ nsPairs (l.drop i) := by
  rw [← nsPairs_append, List.take_append_drop]

/-- inserting a @namespace rule that the duplicate test let through: all pairs are different -/
theorem nsPairs_pyInsert_nodup {l : List Rule} (hns : NsClean l) (i : Nat) (r : Rule) (hk : r.kind = .ns)
    (hdup : ¬ ((nsDict l).hasKey r.pre = true ∧ (nsDict l).get? r.pre = some r.uri)) :
    (nsPairs (pyInsert l i r)).Nodup := by
  have hl : (nsPairs l).Nodup := nodup_of_map _ hns.1
  have hnew : (r.pre, r.uri) ∉ nsPairs l := by
    intro hm
    obtain ⟨x, hx, hxk, hxp⟩ := mem_nsPairs_iff.mp hm
    have hi := nsDict_hasItem hns hx hxk
    rw [dict_hasItem_iff] at hi
    have hp : x.pre = r.pre := (Prod.mk.inj hxp).1
    have hu : x.uri = r.uri := (Prod.mk.inj hxp).2
    rw [hp, hu] at hi
    apply hdup
    exact ⟨dict_hasKey_iff.mpr (List.mem_map.mpr ⟨_, hi, rfl⟩), dict_get_of_mem (nsDict_ok l).1 hi⟩
  rw [nsPairs_pyInsert_ns l i r hk]
  rw [nsPairs_take_drop l i] at hl hnew
  rw [List.nodup_append] at hl ⊢
  rw [List.mem_append, not_or] at hnew
  refine ⟨hl.1, ?_, ?_⟩
  · rw [List.nodup_cons]; exact ⟨hnew.2, hl.2.1⟩
  · intro a ha b hb
    rcases List.mem_cons.mp hb with hb | hb
    · rw [hb]; intro heq; rw [heq] at ha; exact hnew.1 ha
    · exact hl.2.2 a ha b hb

/-- **the clean-up after an insert leaves the namespaces clean** (when it does not raise) -/
theorem clean_after_insert {l : List Rule} (hns : NsClean l) (i : Nat) (r : Rule) (hk : r.kind = .ns)
    (hdup : ¬ ((nsDict l).hasKey r.pre = true ∧ (nsDict l).get? r.pre = some r.uri))
    (hok : (cleanNamespaces (pyInsert l i r)).2.2 = none) :
    NsClean (cleanNamespaces (pyInsert l i r)).1 := by
  have hsub := cleanNamespaces_sublist (pyInsert l i r)
  apply nsClean_of_items (nsDict_ok (pyInsert l i r))
  · exact (nsPairs_sublist hsub).nodup (nsPairs_pyInsert_nodup hns i r hk hdup)
  · intro pu hpu
    obtain ⟨x, hx, hxk, hxp⟩ := mem_nsPairs_iff.mp hpu
    unfold cleanNamespaces at hx hok
    rcases cleanLoop_kept _ _ _ _ hok x hx with h | h
    · cases h
    · rw [← hxp, ← dict_hasItem_iff]; exact h.2 hxk

/-! ## operations on the sheet's own list -/

/-- what `nsPairs` reads of a rule -/
def nsView (l : List Rule) : List (Kind × Cps × Cps) := l.map (fun r => (r.kind, r.pre, r.uri))

theorem nsPairs_of_view {l l' : List Rule} (h : nsView l' = nsView l) : nsPairs l' = nsPairs l := by
  unfold nsView at h
  unfold nsPairs
  induction l generalizing l' with
  | nil => cases l' <;> simp_all
  | cons a t ih =>
    cases l' with
    | nil => simp at h
    | cons b u =>
      simp only [List.map_cons, List.cons.injEq, Prod.mk.injEq] at h
      obtain ⟨⟨hk, hp, hu⟩, ht⟩ := h
      simp only [List.filter_cons, hk]
      split
      · simp only [List.map_cons, hp, hu, ih ht]
      · exact ih ht

theorem nsView_setEnc0 (e : Cps) (l : List Rule) : nsView (setEnc0 e l) = nsView l := by
  cases l <;> simp [setEnc0, nsView]

theorem nsView_adoptId (i : Nat) (l : List Rule) : nsView (adoptId i l) = nsView l := by
  simp only [nsView, adoptId, List.map_map]
  apply List.map_congr_left
  intro r _
  simp only [Function.comp]
  split <;> rfl

theorem nsPairs_pyInsert_other (l : List Rule) (i : Nat) (r : Rule) (h : r.kind ≠ .ns) :
    nsPairs (pyInsert l i r) = nsPairs l := by
  unfold pyInsert
  rw [nsPairs_append, show r :: l.drop i = [r] ++ l.drop i from rfl, nsPairs_append, nsPairs_single_other h,
    List.nil_append, ← nsPairs_append, List.take_append_drop]

theorem nsClean_sublist {l l' : List Rule} (h : NsClean l) (hs : l'.Sublist l) : NsClean l' :=
  ⟨((nsPairs_sublist hs).map _).nodup h.1, ((nsPairs_sublist hs).map _).nodup h.2⟩

theorem nsClean_of_pairs {l l' : List Rule} (h : NsClean l) (hp : nsPairs l' = nsPairs l) : NsClean l' := by
  unfold NsClean; rw [hp]; exact h

/-- `insertRule` proper (with the clean-up, the sheet's own `namespaces`) keeps the namespaces clean -/
theorem insertCore_nsClean (st : St) (r : Rule) (idx : Nat) (inOrder track : Bool) (h : NsClean st.rules) :
    NsClean (insertCore st (nsDict st.rules) r idx inOrder true track).1.rules := by
  unfold insertCore
  split
  · exact h
  · exact nsClean_of_pairs h (nsPairs_of_view (nsView_setEnc0 _ _))
  · rename_i i _
    split
    · rename_i hk
      split
      · exact h
      · rename_i hdup
        simp only [if_true]
        have hdup' : ¬ ((nsDict st.rules).hasKey r.pre = true ∧ (nsDict st.rules).get? r.pre = some r.uri) := by
          intro ⟨h1, h2⟩; apply hdup; simp [h1, h2]
        split
        · exact h
        · rename_i hnone
          have hc := clean_after_insert h i r hk hdup' hnone
          split
          · exact nsClean_of_pairs hc (nsPairs_of_view (nsView_adoptId _ _))
          · exact hc
    · rename_i hk
      exact nsClean_of_pairs h (nsPairs_pyInsert_other _ _ _ (by simpa using hk))

theorem insertRule_nsClean (st : St) (s : Spec) (index : Option Int) (inOrder viaStr track : Bool)
    (h : NsClean st.rules) : NsClean (insertRule st s index inOrder viaStr track).1.rules := by
  unfold insertRule
  dsimp only
  split
  · split
    · exact h
    · split
      · exact h
      · exact h
      · exact insertCore_nsClean { rules := st.rules, gone := st.gone, next := _, raising := st.raising } _ _ _ _ h
  · split
    · exact h
    · split
      · exact h
      · exact insertCore_nsClean { rules := st.rules, gone := st.gone, next := _, raising := st.raising } _ _ _ _ h

theorem deleteRule_nsClean (st : St) (i : Int) (h : NsClean st.rules) : NsClean (deleteRule st i).1.rules := by
  unfold deleteRule
  split
  · exact h
  · split
    · exact h
    · split
      · exact h
      · exact nsClean_sublist h (List.eraseIdx_sublist _ _)

theorem setEncoding_nsClean (st : St) (e : Cps) (valid : Bool) (h : NsClean st.rules) :
    NsClean (setEncoding st e valid).1.rules := by
  have hfresh : NsClean ((if e.isEmpty = true then (st, Outcome.none)
      else if (!valid) = true then (st, logError st.raising .syntaxErr)
      else ((insertRule st ⟨.charset, [], [], e, [], []⟩ (some 0) false false false).1,
        match (insertRule st ⟨.charset, [], [], e, [], []⟩ (some 0) false false false).2 with
        | .ok _ => Outcome.none
        | o => o)) : St × Outcome).1.rules := by
    split
    · exact h
    · split
      · exact h
      · exact insertRule_nsClean st _ _ false false false h
  unfold setEncoding
  dsimp only
  split
  · exact hfresh
  · rename_i r rest hr
    split
    · split
      · split
        · apply nsClean_of_pairs h
          apply nsPairs_of_view
          rw [hr]; simp [nsView]
        · exact h
      · exact deleteRule_nsClean st 0 h
    · exact hfresh

theorem nsSet_nsClean (st : St) (p u : Cps) (h : NsClean st.rules) : NsClean (nsSet st p u).1.rules := by
  unfold nsSet
  split
  · exact insertRule_nsClean st _ none true false false h
  · split
    · exact h
    · split <;> exact h

theorem nsDel_nsClean (st : St) (p : Cps) (h : NsClean st.rules) : NsClean (nsDel st p).1.rules := by
  unfold nsDel
  split
  · exact deleteRule_nsClean st _ h
  · exact h

/-! ## operations on nested lists do not touch the @namespace rules -/

theorem nsView_set_same (l : List Rule) (i : Nat) (c c0 : Rule) (h0 : l[i]? = some c0)
    (hk : c.kind = c0.kind) (hp : c.pre = c0.pre) (hu : c.uri = c0.uri) : nsView (l.set i c) = nsView l := by
  unfold nsView
  rw [List.map_set, hk, hp, hu]
  apply List.ext_getElem?
  intro j
  by_cases hj : i = j
  · subst hj
    rw [List.getElem?_set_self']
    simp [h0]
  · rw [List.getElem?_set_ne hj]

theorem nsView_setPath (rules : List Rule) (path : List Nat) (c c0 : Rule) (h0 : atPath rules path = some c0)
    (hk : c.kind = c0.kind) (hp : c.pre = c0.pre) (hu : c.uri = c0.uri) :
    nsView (setPath rules c path) = nsView rules := by
  match path with
  | [] => simp [atPath] at h0
  | [i] =>
    simp only [atPath] at h0
    simp only [setPath]
    exact nsView_set_same rules i c c0 h0 hk hp hu
  | i :: j :: p =>
    simp only [atPath] at h0
    simp only [setPath]
    split
    · rfl
    · rename_i r hr
      exact nsView_set_same rules i _ r hr rfl rfl rfl

theorem cInsert_view (raising : Bool) (c r : Rule) (index : Option Int) (viaStr : Bool) :
    (cInsert raising c r index viaStr).1.pre = c.pre ∧ (cInsert raising c r index viaStr).1.uri = c.uri := by
  unfold cInsert
  dsimp only
  split
  · exact ⟨rfl, rfl⟩
  · split <;> exact ⟨rfl, rfl⟩

theorem cDelete_view (c : Rule) (i : Int) : (cDelete c i).1.pre = c.pre ∧ (cDelete c i).1.uri = c.uri := by
  unfold cDelete
  split
  · exact ⟨rfl, rfl⟩
  · split <;> exact ⟨rfl, rfl⟩

theorem cSetText_view (raising : Bool) (d : Dict) (n : Nat) (c : Rule) (kids : List Spec) :
    (cSetText raising d n c kids).1.pre = c.pre ∧ (cSetText raising d n c kids).1.uri = c.uri := by
  unfold cSetText
  dsimp only
  split <;> exact ⟨rfl, rfl⟩

theorem nInsert_nsPairs (st : St) (path : List Nat) (s : Spec) (index : Option Int) (viaStr : Bool) :
    nsPairs (nInsert st path s index viaStr).1.rules = nsPairs st.rules := by
  unfold nInsert
  split
  · rfl
  · rename_i c hc
    split
    · rfl
    · split
      · split
        · rfl
        · split
          · rfl
          · rfl
          · exact nsPairs_of_view (nsView_setPath _ _ _ c hc (cInsert_kind _ _ _ _ _) (cInsert_view _ _ _ _ _).1
              (cInsert_view _ _ _ _ _).2)
      · exact nsPairs_of_view (nsView_setPath _ _ _ c hc (cInsert_kind _ _ _ _ _) (cInsert_view _ _ _ _ _).1
          (cInsert_view _ _ _ _ _).2)

theorem nDelete_nsPairs (st : St) (path : List Nat) (i : Int) :
    nsPairs (nDelete st path i).1.rules = nsPairs st.rules := by
  unfold nDelete
  split
  · rfl
  · rename_i c hc
    split
    · rfl
    · exact nsPairs_of_view (nsView_setPath _ _ _ c hc (cDelete_kind _ _) (cDelete_view _ _).1 (cDelete_view _ _).2)

theorem nSetText_nsPairs (st : St) (path : List Nat) (kids : List Spec) :
    nsPairs (nSetText st path kids).1.rules = nsPairs st.rules := by
  unfold nSetText
  split
  · rfl
  · rename_i c hc
    split
    · rfl
    · exact nsPairs_of_view (nsView_setPath _ _ _ c hc (cSetText_kind _ _ _ _ _) (cSetText_view _ _ _ _ _).1
        (cSetText_view _ _ _ _ _).2)

/-! ## the clean-up of a list whose @namespace prefixes are pairwise distinct (a freshly parsed text) -/

theorem uniqueByUri_covers (l : List Rule) (seen : List Cps) :
    ∀ x ∈ l, x.uri ∈ seen ∨ ∃ y ∈ uniqueByUri l seen, y.uri = x.uri := by
  induction l generalizing seen with
  | nil => intro x hx; cases hx
  | cons r rs ih =>
    intro x hx
    unfold uniqueByUri
    split
    · rename_i hr
      rcases List.mem_cons.mp hx with hx | hx
      · left; rw [hx]; simpa using hr
      · exact ih seen x hx
    · rcases List.mem_cons.mp hx with hx | hx
      · right; exact ⟨r, by simp, by rw [hx]⟩
      · rcases ih (r.uri :: seen) x hx with h | ⟨y, hy, hyu⟩
        · rcases List.mem_cons.mp h with h | h
          · right; exact ⟨r, by simp, h.symm⟩
          · exact Or.inl h
        · right; exact ⟨y, by simp [hy], hyu⟩

theorem nsUris_append (a b : List Rule) : nsUris (a ++ b) = nsUris a ++ nsUris b := by
  simp [nsUris]

theorem mem_nsUris_of {l : List Rule} {y : Rule} (hy : y ∈ l) (hk : y.kind = .ns) : y.uri ∈ nsUris l := by
  unfold nsUris
  exact List.mem_map.mpr ⟨y, List.mem_filter.mpr ⟨hy, by simpa using hk⟩, rfl⟩

/-- the loop does not raise when every rule it wants to drop has an effective twin (same URI, other prefix) -/
theorem cleanLoop_no_raise (items : Dict) (orig : List Rule)
    (H : ∀ x ∈ orig, x.kind = .ns → items.hasItem x.pre x.uri = false →
      ∃ y ∈ orig, y.kind = .ns ∧ y.uri = x.uri ∧ y.pre ≠ x.pre ∧ items.hasItem y.pre y.uri = true)
    (done todo removed : List Rule) (hsub : ∀ x ∈ todo, x ∈ orig)
    (hkeep : ∀ y ∈ orig, y.kind = .ns → items.hasItem y.pre y.uri = true → y ∈ done ++ todo) :
    (cleanLoop items done todo removed).2.2 = none := by
  induction todo generalizing done removed with
  | nil => simp [cleanLoop]
  | cons x rest ih =>
    unfold cleanLoop
    split
    · rename_i hc
      simp only [Bool.and_eq_true, decide_eq_true_eq, Bool.not_eq_true'] at hc
      obtain ⟨y, hy, hyk, hyu, hyp, hyi⟩ := H x (hsub x (by simp)) hc.1 hc.2
      have hyin := hkeep y hy hyk hyi
      have hyne : y ≠ x := fun h => hyp (by rw [h])
      have hcount : 2 ≤ (nsUris (done ++ x :: rest)).count x.uri := by
        have hx1 : nsUris (done ++ x :: rest) = nsUris done ++ x.uri :: nsUris rest := by
          rw [nsUris_append, show x :: rest = [x] ++ rest from rfl, nsUris_append]
          simp [nsUris, hc.1]
        rw [hx1, List.count_append, List.count_cons_self]
        rcases List.mem_append.mp hyin with h | h
        · have := List.count_pos_iff.mpr (hyu ▸ mem_nsUris_of h hyk)
          omega
        · rcases List.mem_cons.mp h with h | h
          · exact absurd h hyne
          · have := List.count_pos_iff.mpr (hyu ▸ mem_nsUris_of h hyk)
            omega
      have href : deleteRefused (done ++ x :: rest) x = false := by
        unfold deleteRefused
        have : ((nsUris (done ++ x :: rest)).count x.uri == 1) = false := by
          simp only [beq_eq_false_iff_ne, ne_eq]; omega
        simp [this]
      simp only [href, Bool.false_eq_true, if_false]
      apply ih
      · intro z hz; exact hsub z (by simp [hz])
      · intro z hz hzk hzi
        rcases List.mem_append.mp (hkeep z hz hzk hzi) with h | h
        · exact List.mem_append.mpr (Or.inl h)
        · rcases List.mem_cons.mp h with h | h
          · rw [h] at hzi; rw [hc.2] at hzi; cases hzi
          · exact List.mem_append.mpr (Or.inr h)
    · apply ih
      · intro z hz; exact hsub z (by simp [hz])
      · intro z hz hzk hzi
        have := hkeep z hz hzk hzi
        rcases List.mem_append.mp this with h | h
        · exact List.mem_append.mpr (Or.inl (List.mem_append.mpr (Or.inl h)))
        · rcases List.mem_cons.mp h with h | h
          · exact List.mem_append.mpr (Or.inl (List.mem_append.mpr (Or.inr (by simp [h]))))
          · exact List.mem_append.mpr (Or.inr h)

/-- with pairwise distinct prefixes `namespaces` lists exactly the last rule per URI -/
theorem nsDict_prefix_distinct {l : List Rule} (hp : ((nsPairs l).map (·.1)).Nodup) :
    nsDict l = (uniqueByUri (l.reverse.filter (fun r => decide (r.kind = .ns))) []).map (fun r => (r.pre, r.uri)) := by
  unfold nsDict
  have hsub := uniqueByUri_sub (l.reverse.filter (fun r => decide (r.kind = .ns))) []
  have hpre : ((l.reverse.filter (fun r => decide (r.kind = .ns))).map (·.pre)).Nodup := by
    unfold nsPairs at hp
    rw [List.map_map] at hp
    rw [List.filter_reverse, List.map_reverse]
    exact nodup_reverse' hp
  rw [foldl_set_fresh _ [] ((hsub.map _).nodup hpre) (by intro _ _; rfl)]
  simp

theorem clean_prefix_distinct {l : List Rule} (hp : ((nsPairs l).map (·.1)).Nodup) :
    (cleanNamespaces l).2.2 = none ∧ NsClean (cleanNamespaces l).1 := by
  have hno : (cleanNamespaces l).2.2 = none := by
    unfold cleanNamespaces
    apply cleanLoop_no_raise (nsDict l) l _ [] l [] (fun x hx => hx)
    · intro y hy _ _; simpa using hy
    · intro x hx hxk hxi
      have hxr : x ∈ l.reverse.filter (fun r => decide (r.kind = .ns)) :=
        List.mem_filter.mpr ⟨List.mem_reverse.mpr hx, by simpa using hxk⟩
      rcases uniqueByUri_covers _ [] x hxr with h | ⟨y, hy, hyu⟩
      · cases h
      · have hyl := (uniqueByUri_sub _ []).subset hy
        have hyl' := List.mem_filter.mp hyl
        have hyi : (nsDict l).hasItem y.pre y.uri = true := by
          rw [dict_hasItem_iff, nsDict_prefix_distinct hp]
          exact List.mem_map.mpr ⟨y, hy, rfl⟩
        refine ⟨y, List.mem_reverse.mp hyl'.1, by simpa using hyl'.2, hyu, ?_, hyi⟩
        intro hpe
        rw [hpe, hyu, hxi] at hyi; cases hyi
  refine ⟨hno, ?_⟩
  have hsub := cleanNamespaces_sublist l
  apply nsClean_of_items (nsDict_ok l)
  · exact (nsPairs_sublist hsub).nodup (nodup_of_map _ hp)
  · intro pu hpu
    obtain ⟨x, hx, hxk, hxp⟩ := mem_nsPairs_iff.mp hpu
    unfold cleanNamespaces at hx hno
    rcases cleanLoop_kept _ _ _ _ hno x hx with h | h
    · cases h
    · rw [← hxp, ← dict_hasItem_iff]; exact h.2 hxk

/-! ## a parsed text has pairwise distinct @namespace prefixes -/

/-- prefixes of the @namespace rules of the list being built are pairwise distinct and are keys of the prefix dict -/
def PreInv (p : PSt) : Prop :=
  ((nsPairs p.acc).map (·.1)).Nodup ∧ ∀ pu ∈ nsPairs p.acc, p.nd.hasKey pu.1 = true

theorem hasKey_set (d : Dict) (k v k' : Cps) : (d.set k v).hasKey k' = (d.hasKey k' || k == k') := by
  unfold Dict.set
  split
  · rename_i hk
    have h1 : Dict.hasKey (d.map (fun e => if e.1 == k then (k, v) else e)) k' = d.hasKey k' := by
      apply Bool.eq_iff_iff.mpr
      rw [dict_hasKey_iff, dict_hasKey_iff, map_replace_keys]
    rw [h1]
    by_cases hkk : k = k'
    · subst hkk; simp [hk]
    · have : (k == k') = false := by simpa using hkk
      simp [this]
  · exact dict_hasKey_append d k v k'

theorem nsPres_replaceUri (p u : Cps) (l : List Rule) :
    (nsPairs (replaceUri p u l)).map (·.1) = (nsPairs l).map (·.1) := by
  unfold nsPairs replaceUri
  induction l with
  | nil => rfl
  | cons r rs ih =>
    simp only [List.map_cons, List.filter_cons]
    by_cases hk : r.kind = .ns
    · by_cases hp : r.pre = p
      · simp only [hk, hp, and_self, if_true, decide_true, List.map_cons]
        rw [ih]
      · simp only [hk, hp, and_false, if_false, decide_true, if_true, List.map_cons]
        rw [ih]
    · simp only [hk, false_and, if_false, decide_false, Bool.false_eq_true]
      exact ih

theorem actOf_ins_ns {raising : Bool} {p : PSt} {s : Spec} {r : Rule} {nx : Nat} {nd' : Dict} {cl : Bool}
    (h : actOf raising p s = .ins r nx nd' cl) :
    (r.kind = .ns ∧ cl = false ∧ p.nd.hasKey r.pre = false ∧ nd' = p.nd.set r.pre r.uri) ∨
    (r.kind ≠ .ns ∧ nd' = p.nd) := by
  unfold actOf at h
  split at h
  · cases h
  · split at h
    · split at h
      · cases h
      · split at h
        · rename_i hkey
          injection h with h1 h2 h3 h4; subst h1; subst h3; subst h4
          exact Or.inl ⟨rfl, rfl, by simpa using hkey, rfl⟩
        · cases h
    · rename_i hns
      split at h
      · split at h
        · injection h with h1 h2 h3 h4; subst h1; subst h3
          exact Or.inr ⟨by simp, rfl⟩
        · cases h
      · split at h
        · split at h
          · cases h
          · injection h with h1 h2 h3 h4; subst h1; subst h3
            exact Or.inr ⟨by simp, rfl⟩
        · split at h
          · split at h
            · cases h
            · injection h with h1 h2 h3 h4; subst h1; subst h3
              exact Or.inr ⟨by simp, rfl⟩
          · injection h with h1 h2 h3 h4; subst h1; subst h3
            exact Or.inr ⟨hns, rfl⟩

theorem insertCore_pairs_other (st : St) (dict : Dict) (r : Rule) (idx : Nat) (inOrder clean track : Bool)
    (hk : r.kind ≠ .ns) : nsPairs (insertCore st dict r idx inOrder clean track).1.rules = nsPairs st.rules := by
  unfold insertCore
  split
  · rfl
  · exact nsPairs_of_view (nsView_setEnc0 _ _)
  · split
    · rename_i h; exact absurd h hk
    · exact nsPairs_pyInsert_other _ _ _ (by simpa using hk)

theorem insertCore_rules_ns_noclean (st : St) (dict : Dict) (r : Rule) (idx : Nat) (inOrder track : Bool)
    (hk : r.kind = .ns) :
    (insertCore st dict r idx inOrder false track).1.rules = st.rules ∨
    ∃ i, (insertCore st dict r idx inOrder false track).1.rules = pyInsert st.rules i r.adopt := by
  unfold insertCore
  split
  · exact Or.inl rfl
  · rename_i hp
    exfalso
    have := (mergesCharset_iff st r.kind idx inOrder).mp (by simp [mergesCharset, hp])
    rw [hk] at this; cases this.1
  · rename_i i _
    simp only [hk, if_true]
    split
    · exact Or.inl rfl
    · simp only [Bool.false_eq_true, if_false]
      exact Or.inr ⟨i, rfl⟩

theorem nodup_insert_middle {α} {a b : List α} {x : α} (h : (a ++ b).Nodup) (hx : x ∉ a ++ b) :
    (a ++ x :: b).Nodup := by
  rw [List.nodup_append] at h ⊢
  rw [List.mem_append, not_or] at hx
  refine ⟨h.1, by rw [List.nodup_cons]; exact ⟨hx.2, h.2.1⟩, ?_⟩
  intro p hp q hq
  rcases List.mem_cons.mp hq with hq | hq
  · rw [hq]; intro heq; rw [heq] at hp; exact hx.1 hp
  · exact h.2.2 p hp q hq

theorem parseOne_preInv {raising : Bool} {p q : PSt} {s : Spec} (h : parseOne raising p s = .ok q)
    (hp : PreInv p) : PreInv q := by
  unfold parseOne at h
  split at h
  · cases h
  · split at h
    · cases h
    · injection h with h; subst h
      split <;> exact hp
  · injection h with h; subst h
    refine ⟨by rw [nsPres_replaceUri]; exact hp.1, ?_⟩
    intro pu hpu
    have hmem : pu.1 ∈ (nsPairs p.acc).map (·.1) := by
      rw [← nsPres_replaceUri s.pre s.uri p.acc]; exact List.mem_map.mpr ⟨pu, hpu, rfl⟩
    obtain ⟨pu', hpu', hfst⟩ := List.mem_map.mp hmem
    show (p.nd.set s.pre s.uri).hasKey pu.1 = true
    rw [hasKey_set, ← hfst, hp.2 pu' hpu']; rfl
  · rename_i r nx nd' cl hact
    split at h
    · cases h
    · rename_i acc o _ hres
      injection h with h; subst h
      have hacc : acc = (pInsert raising p r cl).1 := by simp [hres]
      rcases actOf_ins_ns hact with ⟨hk, hcl, hkey, hnd⟩ | ⟨hk, hnd⟩
      · subst hcl; subst hnd
        unfold pInsert at hacc
        dsimp only at hacc
        have hnew : r.pre ∉ (nsPairs p.acc).map (·.1) := by
          intro hm
          obtain ⟨pu, hpu, hfst⟩ := List.mem_map.mp hm
          have := hp.2 pu hpu
          rw [hfst, hkey] at this; cases this
        rcases insertCore_rules_ns_noclean { rules := p.acc, gone := [], next := 0, raising := raising } p.nd r
          p.acc.length false false hk with h' | ⟨i, h'⟩
        · rw [h'] at hacc
          show PreInv { acc := acc, nd := p.nd.set r.pre r.uri, level := _, next := nx }
          rw [hacc]
          refine ⟨hp.1, ?_⟩
          intro pu hpu
          show (p.nd.set r.pre r.uri).hasKey pu.1 = true
          rw [hasKey_set, hp.2 pu hpu]; rfl
        · rw [h'] at hacc
          show PreInv { acc := acc, nd := p.nd.set r.pre r.uri, level := _, next := nx }
          rw [hacc]
          have hpairs : nsPairs (pyInsert p.acc i r.adopt) =
              nsPairs (p.acc.take i) ++ (r.pre, r.uri) :: nsPairs (p.acc.drop i) :=
            nsPairs_pyInsert_ns p.acc i r.adopt (by simpa using hk)
          refine ⟨?_, ?_⟩
          · show ((nsPairs (pyInsert p.acc i r.adopt)).map (·.1)).Nodup
            rw [hpairs, List.map_append, List.map_cons]
            apply nodup_insert_middle
            · rw [← List.map_append, ← nsPairs_take_drop]; exact hp.1
            · rw [← List.map_append, ← nsPairs_take_drop]; exact hnew
          · intro pu hpu
            show (p.nd.set r.pre r.uri).hasKey pu.1 = true
            have hpu' : pu ∈ nsPairs (pyInsert p.acc i r.adopt) := hpu
            rw [hpairs, List.mem_append, List.mem_cons] at hpu'
            rw [hasKey_set]
            rcases hpu' with h1 | h1 | h1
            · rw [hp.2 pu (by rw [nsPairs_take_drop p.acc i]; exact List.mem_append.mpr (Or.inl h1))]; rfl
            · rw [h1]; simp
            · rw [hp.2 pu (by rw [nsPairs_take_drop p.acc i]; exact List.mem_append.mpr (Or.inr h1))]; rfl
      · subst hnd
        have : nsPairs acc = nsPairs p.acc := by
          rw [hacc]; unfold pInsert; exact insertCore_pairs_other _ _ _ _ _ _ _ hk
        exact ⟨by show ((nsPairs acc).map (·.1)).Nodup; rw [this]; exact hp.1,
          by intro pu hpu; exact hp.2 pu (by rw [← this]; exact hpu)⟩

theorem parseTop_preInv {raising : Bool} {specs : List Spec} {p q : PSt} (h : parseTop raising p specs = .ok q)
    (hp : PreInv p) : PreInv q := by
  induction specs generalizing p with
  | nil => simp only [parseTop] at h; injection h with h; subst h; exact hp
  | cons s ss ih =>
    simp only [parseTop] at h
    split at h
    · cases h
    · rename_i p' hp'
      have hq : PreInv p' := parseOne_preInv hp' hp
      exact ih h hq

/-- `sheet.cssText = …` leaves the namespaces clean: refused → the old list; accepted → the final clean-up of a list
with pairwise distinct prefixes never raises and keeps one rule per prefix and per URI -/
theorem setText_nsClean (st : St) (specs : List Spec) (h : NsClean st.rules) :
    NsClean (setText st specs).1.rules := by
  unfold setText
  split
  · exact h
  · rename_i p hp
    have hpre := (parseTop_preInv hp ⟨by simp [nsPairs], by intro pu h; simp [nsPairs] at h⟩).1
    exact (clean_prefix_distinct hpre).2

/-- … and the final clean-up of `sheet.cssText = …` never raises: an accepted text never ends in an exception -/
theorem setText_outcome (st : St) (specs : List Spec) :
    (∃ e, (setText st specs).2 = .err e ∧ (setText st specs).1 = st) ∨ (setText st specs).2 = .none := by
  unfold setText
  split
  · rename_i e he; exact Or.inl ⟨e, rfl, rfl⟩
  · rename_i p hp
    have hpre := (parseTop_preInv hp ⟨by simp [nsPairs], by intro pu h; simp [nsPairs] at h⟩).1
    right
    simp [(clean_prefix_distinct hpre).1]

end CssVerif.SheetEdit
