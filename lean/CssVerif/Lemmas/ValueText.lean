import CssVerif.Model.ValueText
/-!
# Lemmas about `Model/ValueText.lean` (C13, wave 3)

`mainLoop_spec`: from every reachable state of `ProdParser.parse`'s loop on the value grammar the comment-free part
of the item list is the plain three-state reading (`specGo`) of the remaining tokens with comments and white
space deleted. The invariant `Inv` ties the flags of the loop (`defaultS`, the `_SorTokens` wrapper, `_sor`, the
pending second `yield`) to the state of the grammar.
-/
namespace CssVerif.ValueText
open CssVerif.Proto (Cps)

/-! ## small facts -/

theorem components_cons_gap {t : VTok} {r : List VTok} (h : t.isGap = true) : components (t :: r) = components r := by
  simp [components, List.filter_cons, h]

theorem components_cons_nongap {t : VTok} {r : List VTok} (h : t.isGap = false) :
    components (t :: r) = t :: components r := by
  simp [components, List.filter_cons, h]

@[simp] theorem components_nil : components [] = [] := rfl
@[simp] theorem components_s (r : List VTok) : components (.s :: r) = components r := components_cons_gap rfl
@[simp] theorem components_comment (c : Cps) (r : List VTok) : components (.comment c :: r) = components r :=
  components_cons_gap rfl
@[simp] theorem components_op (c : Nat) (r : List VTok) : components (.op c :: r) = .op c :: components r :=
  components_cons_nongap rfl
@[simp] theorem components_term (x : Term) (r : List VTok) : components (.term x :: r) = .term x :: components r :=
  components_cons_nongap rfl
@[simp] theorem components_semi (r : List VTok) : components (.semi :: r) = .semi :: components r :=
  components_cons_nongap rfl
@[simp] theorem components_invalid (r : List VTok) : components (.invalid :: r) = .invalid :: components r :=
  components_cons_nongap rfl
@[simp] theorem components_other (r : List VTok) : components (.other :: r) = .other :: components r :=
  components_cons_nongap rfl

theorem components_append (a b : List VTok) : components (a ++ b) = components a ++ components b := by
  simp [components]

theorem components_of_allGap {g : List VTok} (h : ∀ t ∈ g, t.isGap = true) : components g = [] := by
  simp only [components, List.filter_eq_nil_iff]
  intro t ht
  simp [h t ht]

theorem components_dropS (r : List VTok) : components (dropS r) = components r := by
  fun_induction dropS r with
  | case1 r ih => rw [ih, components_cons_gap (by rfl)]
  | case2 r h => rfl

theorem length_dropS (r : List VTok) : (dropS r).length ≤ r.length := by
  fun_induction dropS r with
  | case1 r ih => simp; omega
  | case2 r h => exact Nat.le_refl _

theorem dropS_head_ne_s (r : List VTok) (n : VTok) (r' : List VTok) (h : dropS r = n :: r') : n ≠ .s := by
  fun_induction dropS r with
  | case1 r ih => exact ih h
  | case2 r hne =>
    intro hn
    subst hn
    exact hne r' h

theorem noComments_cons (i : SItem) (seq : List SItem) :
    noComments (i :: seq) = if i.isComment then noComments seq else i :: noComments seq := by
  cases h : i.isComment <;> simp [noComments, List.filter_cons, h]

theorem noComments_reverse (seq : List SItem) : noComments seq.reverse = (noComments seq).reverse := by
  simp [noComments, List.filter_reverse]

theorem any_isTerm_noComments (seq : List SItem) : (noComments seq).any SItem.isTerm = seq.any SItem.isTerm := by
  induction seq with
  | nil => rfl
  | cons i r ih => cases i <;> simp [noComments_cons, SItem.isComment, SItem.isTerm, ih]

theorem all_wf_noComments (seq : List SItem) : (noComments seq).all SItem.wf = seq.all SItem.wf := by
  induction seq with
  | nil => rfl
  | cons i r ih => cases i <;> simp [noComments_cons, SItem.isComment, SItem.wf, ih]

theorem voCalls_noComments (seq : List SItem) : voCalls (noComments seq) = voCalls seq := by
  induction seq with
  | nil => rfl
  | cons i r ih => cases i <;> simp [noComments_cons, SItem.isComment, voCalls, ih]

/-! ## the token stream -/

/-- the tokens the stream will still deliver, before `_SorTokens` has looked at them -/
def Stream.rest (st : Stream) : List VTok := st.pending.toList ++ st.toks

/-- a token `_SorTokens` can hold back as `next_`: not S, not a comment, not `,` `/` -/
def VTok.plainTok : VTok → Bool
  | .s | .comment _ | .op _ => false
  | _ => true

def Stream.pendingOk (st : Stream) : Prop := ∀ x, st.pending = some x → x.plainTok = true

theorem plainTok_not_gap {x : VTok} (h : x.plainTok = true) : x.isGap = false := by
  cases x <;> simp_all [VTok.plainTok, VTok.isGap]

/-- what one `next(tokens)` does, as far as the components are concerned -/
theorem next_some {st st' : Stream} {t : VTok} (h : st.next = some (t, st')) (hp : st.pendingOk) :
    components st.rest = (if t.isGap then [] else [t]) ++ components st'.rest ∧
    st'.size < st.size ∧ st'.wrapped = st.wrapped ∧ st'.pendingOk ∧
    (st'.sor = true → st.sor = true) ∧
    (st.pending = none → st.wrapped = true → st.sor = true →
      (t = .s → st'.sor = true ∧ (st'.pending = none → st'.toks = [])) ∧
      (t.isGap = true → st'.sor = true) ∧
      (t ≠ .s → st'.pending = none)) ∧
    (¬ (st.wrapped = true ∧ st.sor = true) → st.pending = none → st'.pending = none) := by
  unfold Stream.next at h
  cases hpend : st.pending with
  | some x =>
    simp only [hpend] at h
    obtain ⟨rfl, rfl⟩ := Prod.mk.inj (Option.some.inj h)
    have hx := plainTok_not_gap (hp x hpend)
    refine ⟨?_, ?_, rfl, ?_, ?_, ?_, ?_⟩
    · simp [Stream.rest, hpend, hx, components_cons_nongap]
    · simp [Stream.size, hpend]
    · intro y hy; simp at hy
    · intro h; exact h
    · intro h; simp at h
    · intro _ h; simp at h
  | none =>
    simp only [hpend] at h
    cases htoks : st.toks with
    | nil => simp [htoks] at h
    | cons t0 r =>
      simp only [htoks] at h
      by_cases hws : (!st.wrapped || !st.sor) = true
      · simp only [hws, if_true] at h
        obtain ⟨rfl, rfl⟩ := Prod.mk.inj (Option.some.inj h)
        refine ⟨?_, ?_, rfl, ?_, ?_, ?_, ?_⟩
        · cases hg : t0.isGap <;> simp [Stream.rest, hpend, htoks, hg, components_cons_gap, components_cons_nongap]
        · simp [Stream.size, hpend, htoks]
        · intro y hy; simp [hpend] at hy
        · intro h; exact h
        · intro _ hw hs; simp [hw, hs] at hws
        · intro _ _; simpa using hpend
      · simp only [hws] at h
        have hw : st.wrapped = true := by
          cases hh : st.wrapped <;> simp_all
        have hs : st.sor = true := by
          cases hh : st.sor <;> simp_all
        cases t0 with
        | s =>
          simp only [Bool.false_eq_true, if_false] at h
          cases hd : dropS r with
          | nil =>
            simp only [hd] at h
            obtain ⟨rfl, rfl⟩ := Prod.mk.inj (Option.some.inj h)
            have hc : components r = [] := by rw [← components_dropS, hd]; rfl
            refine ⟨?_, ?_, rfl, ?_, ?_, ?_, ?_⟩
            · simp [Stream.rest, hpend, htoks, VTok.isGap, hc]
            · simp [Stream.size, hpend, htoks]
            · intro y hy; simp [hpend] at hy
            · intro _; exact hs
            · intro _ _ _
              exact ⟨fun _ => ⟨hs, fun _ => rfl⟩, fun _ => hs, fun hne => absurd rfl hne⟩
            · intro hn; exact absurd ⟨hw, hs⟩ hn
          | cons n r' =>
            simp only [hd] at h
            have hlen := length_dropS r
            rw [hd] at hlen
            simp at hlen
            have hc : components r = components (n :: r') := by rw [← components_dropS, hd]
            have hns := dropS_head_ne_s r n r' hd
            cases n with
            | s => exact absurd rfl hns
            | op c =>
              simp only at h
              obtain ⟨rfl, rfl⟩ := Prod.mk.inj (Option.some.inj h)
              refine ⟨?_, ?_, rfl, ?_, ?_, ?_, ?_⟩
              · simp [Stream.rest, hpend, htoks, VTok.isGap, hc]
              · simp [Stream.size, hpend, htoks]; omega
              · intro y hy; simp [hpend] at hy
              · intro _; exact hs
              · intro _ _ _
                exact ⟨(fun h => nomatch h), (fun h => by simp [VTok.isGap] at h), fun _ => (by simpa using hpend)⟩
              · intro hn; exact absurd ⟨hw, hs⟩ hn
            | comment c =>
              simp only at h
              obtain ⟨rfl, rfl⟩ := Prod.mk.inj (Option.some.inj h)
              refine ⟨?_, ?_, rfl, ?_, ?_, ?_, ?_⟩
              · simp [Stream.rest, hpend, htoks, VTok.isGap, hc]
              · simp [Stream.size, hpend, htoks]; omega
              · intro y hy; simp [hpend] at hy
              · intro _; exact hs
              · intro _ _ _
                exact ⟨(fun h => nomatch h), fun _ => hs, fun _ => (by simpa using hpend)⟩
              · intro hn; exact absurd ⟨hw, hs⟩ hn
            | term _ | semi | invalid | other =>
              simp only at h
              obtain ⟨rfl, rfl⟩ := Prod.mk.inj (Option.some.inj h)
              refine ⟨?_, ?_, rfl, ?_, ?_, ?_, ?_⟩
              · simp [Stream.rest, hpend, htoks, VTok.isGap, hc]
              · simp [Stream.size, hpend, htoks]; omega
              · intro y hy
                simp at hy
                subst hy
                rfl
              · intro _; exact hs
              · intro _ _ _
                exact ⟨fun _ => ⟨hs, (fun h => by simp at h)⟩, fun _ => hs, fun hne => absurd rfl hne⟩
              · intro hn; exact absurd ⟨hw, hs⟩ hn
        | comment c =>
          simp only [Bool.false_eq_true, if_false] at h
          obtain ⟨rfl, rfl⟩ := Prod.mk.inj (Option.some.inj h)
          refine ⟨?_, ?_, rfl, ?_, ?_, ?_, ?_⟩
          · simp [Stream.rest, hpend, htoks, VTok.isGap]
          · simp [Stream.size, hpend, htoks]
          · intro y hy; simp [hpend] at hy
          · intro _; exact hs
          · intro _ _ _
            exact ⟨(fun h => nomatch h), fun _ => hs, fun _ => (by simpa using hpend)⟩
          · intro hn; exact absurd ⟨hw, hs⟩ hn
        | op _ | term _ | semi | invalid | other =>
          simp only [Bool.false_eq_true, if_false] at h
          obtain ⟨rfl, rfl⟩ := Prod.mk.inj (Option.some.inj h)
          refine ⟨?_, ?_, rfl, ?_, ?_, ?_, ?_⟩
          · simp [Stream.rest, hpend, htoks, VTok.isGap]
          · simp [Stream.size, hpend, htoks]
          · intro y hy; simp [hpend] at hy
          · intro h; simp at h
          · intro _ _ _
            exact ⟨(fun h => nomatch h), (fun h => by simp [VTok.isGap] at h), fun _ => (by simpa using hpend)⟩
          · intro hn; exact absurd ⟨hw, hs⟩ hn

theorem next_none {st : Stream} (h : st.next = none) : components st.rest = [] := by
  unfold Stream.next at h
  cases hpend : st.pending with
  | some x => simp [hpend] at h
  | none =>
    cases htoks : st.toks with
    | nil => simp [Stream.rest, hpend, htoks, components]
    | cons t0 r =>
      simp only [hpend, htoks] at h
      split at h
      · simp at h
      · cases t0 with
        | s =>
          simp only at h
          split at h
          · simp at h
          · split at h <;> simp at h
        | _ => simp at h

theorem next_of_pending {st : Stream} {x : VTok} (h : st.pending = some x) :
    st.next = some (x, { st with pending := none }) := by
  simp [Stream.next, h]

theorem next_of_nil {st : Stream} (hp : st.pending = none) (ht : st.toks = []) : st.next = none := by
  simp [Stream.next, hp, ht]

/-- only the `yield token` of an S leaves a second `yield` behind -/
theorem next_pending_none {st st' : Stream} {t : VTok} (h : st.next = some (t, st')) (ht : t ≠ .s) :
    st'.pending = none := by
  unfold Stream.next at h
  cases hpend : st.pending with
  | some x =>
    simp only [hpend] at h
    obtain ⟨rfl, rfl⟩ := Prod.mk.inj (Option.some.inj h)
    rfl
  | none =>
    simp only [hpend] at h
    cases htoks : st.toks with
    | nil => simp [htoks] at h
    | cons t0 r =>
      simp only [htoks] at h
      split at h
      · obtain ⟨rfl, rfl⟩ := Prod.mk.inj (Option.some.inj h)
        simpa using hpend
      · cases t0 with
        | s =>
          simp only at h
          split at h
          · obtain ⟨rfl, rfl⟩ := Prod.mk.inj (Option.some.inj h)
            exact absurd rfl ht
          · split at h
            all_goals
              obtain ⟨rfl, rfl⟩ := Prod.mk.inj (Option.some.inj h)
              first | exact absurd rfl ht | (simpa using hpend)
        | _ =>
          simp only at h
          obtain ⟨rfl, rfl⟩ := Prod.mk.inj (Option.some.inj h)
          simpa using hpend

/-! ## the loop -/

/-- how the flags of the loop hang together with the state of the grammar -/
def Inv (st : Stream) (l : Loop) : Prop :=
  st.pendingOk ∧
  match l.ps with
  | .start => st.wrapped = false ∧ st.pending = none ∧ l.defaultS = true
  | .afterTerm => l.defaultS = false ∧ st.wrapped = true ∧ st.sor = true ∧ st.pending = none
  | .afterS => l.defaultS = true ∧ (st.pending = none → st.toks = [])
  | .afterOp => l.defaultS = true

theorem specGo_afterS (cs : List VTok) (acc : List SItem) (h : ∀ c, cs.head? ≠ some (.op c)) :
    specGo .afterS cs acc = specGo .afterTerm cs acc := by
  cases cs with
  | nil => simp [specGo, endOk]
  | cons x r => cases x <;> simp_all [specGo]

theorem specGo_nil (ps : PState) (acc : List SItem) :
    specGo ps [] acc = if endOk ps then some acc.reverse else none := by
  cases ps <;> simp [specGo]

theorem specGo_term (ps : PState) (x : Term) (r : List VTok) (acc : List SItem) :
    specGo ps (.term x :: r) acc = specGo .afterTerm r (.term x :: acc) := by
  cases ps <;> simp [specGo]

theorem specGo_invalid (ps : PState) (r : List VTok) (acc : List SItem) : specGo ps (.invalid :: r) acc = none := by
  cases ps <;> simp [specGo]

theorem specGo_other (ps : PState) (r : List VTok) (acc : List SItem) : specGo ps (.other :: r) acc = none := by
  cases ps <;> simp [specGo]

theorem specGo_semi (ps : PState) (r : List VTok) (acc : List SItem) :
    specGo ps (.semi :: r) acc = if ps = .start then none else some acc.reverse := by
  cases ps <;> simp [specGo]

theorem specGo_op (ps : PState) (c : Nat) (r : List VTok) (acc : List SItem) :
    specGo ps (.op c :: r) acc = if ps = .afterTerm then specGo .afterOp r (.op c :: acc) else none := by
  cases ps <;> simp [specGo]

theorem rest_wrap (st : Stream) : ({ st with wrapped := true, sor := true } : Stream).rest = st.rest := rfl
theorem size_wrap (st : Stream) : ({ st with wrapped := true, sor := true } : Stream).size = st.size := rfl

/-- after a term: the stream is wrapped, `_sor` set, default S handling off -/
theorem inv_afterTerm {st : Stream} (seq : List SItem) (hp : st.pendingOk) (hn : st.pending = none) :
    Inv { st with wrapped := true, sor := true } { ps := .afterTerm, defaultS := !true, seq := seq } := by
  refine ⟨?_, ?_⟩
  · intro x hx; exact hp x hx
  · exact ⟨rfl, rfl, rfl, hn⟩

theorem mainLoop_spec : ∀ (fuel : Nat) (st : Stream) (l : Loop), st.size < fuel → Inv st l →
    (mainLoop fuel st l).map noComments = specGo l.ps (components st.rest) (noComments l.seq)
  | 0, _, _, h, _ => absurd h (Nat.not_lt_zero _)
  | fuel + 1, st, l, hsz, hinv => by
    obtain ⟨hpok, hst⟩ := hinv
    unfold mainLoop
    cases hn : st.next with
    | none =>
      simp only []
      rw [next_none hn, specGo_nil]
      cases endOk l.ps <;> simp [noComments_reverse]
    | some p =>
      obtain ⟨t, st'⟩ := p
      obtain ⟨hcomp, hlt, hwr, hpok', hsor, hsf, hplain⟩ := next_some hn hpok
      have hpn := @next_pending_none st st' t hn
      have hsz' : st'.size < fuel := by omega
      simp only []
      rw [hcomp]
      cases hps : l.ps with
      | start =>
        simp only [hps] at hst
        obtain ⟨hw, hpend, hds⟩ := hst
        have hnw : ¬ (st.wrapped = true ∧ st.sor = true) := by simp [hw]
        have hpend' := hplain hnw hpend
        cases t with
        | comment c =>
          have ih := mainLoop_spec fuel st' { l with seq := .comment c :: l.seq } hsz'
            ⟨hpok', by simp only [hps]; exact ⟨hwr.trans hw, hpend', hds⟩⟩
          simpa [VTok.isGap, noComments_cons, SItem.isComment, hps] using ih
        | invalid => simp [VTok.isGap, specGo_invalid]
        | s =>
          have ih := mainLoop_spec fuel st' l hsz' ⟨hpok', by simp only [hps]; exact ⟨hwr.trans hw, hpend', hds⟩⟩
          simpa [VTok.isGap, hds, hps] using ih
        | term x =>
          have ih := mainLoop_spec fuel _ _ (by rw [size_wrap]; exact hsz')
            (inv_afterTerm (.term x :: l.seq) hpok' hpend')
          simpa [VTok.isGap, gstep, hps, specGo_term, noComments_cons, SItem.isComment, rest_wrap] using ih
        | op c => simp [VTok.isGap, gstep, hps, specGo_op]
        | semi => simp [VTok.isGap, gstep, hps, specGo_semi]
        | other => simp [VTok.isGap, gstep, hps, specGo_other]
      | afterTerm =>
        simp only [hps] at hst
        obtain ⟨hds, hw, hso, hpend⟩ := hst
        obtain ⟨hfs, hfg, hfn⟩ := hsf hpend hw hso
        cases t with
        | comment c =>
          have ih := mainLoop_spec fuel st' { l with seq := .comment c :: l.seq } hsz'
            ⟨hpok', by simp only [hps]; exact ⟨hds, hwr.trans hw, hfg rfl, hfn (by simp)⟩⟩
          simpa [VTok.isGap, noComments_cons, SItem.isComment, hps] using ih
        | invalid => simp [VTok.isGap, specGo_invalid]
        | s =>
          obtain ⟨hso', hpt⟩ := hfs rfl
          have ih := mainLoop_spec fuel st' { ps := .afterS, defaultS := !false, seq := l.seq } hsz'
            ⟨hpok', ⟨rfl, hpt⟩⟩
          have hhead : ∀ c, (components st'.rest).head? ≠ some (.op c) := by
            intro c
            cases hp' : st'.pending with
            | none => simp [Stream.rest, hp', hpt hp']
            | some x =>
              have hx := hpok' x hp'
              cases x <;> simp_all [Stream.rest, VTok.plainTok]
          rw [specGo_afterS _ _ hhead] at ih
          simpa [VTok.isGap, hds, gstep, hps] using ih
        | term x =>
          have ih := mainLoop_spec fuel _ _ (by rw [size_wrap]; exact hsz')
            (inv_afterTerm (.term x :: l.seq) hpok' (hfn (by simp)))
          simpa [VTok.isGap, gstep, hps, specGo_term, noComments_cons, SItem.isComment, rest_wrap] using ih
        | op c =>
          have ih := mainLoop_spec fuel st' { ps := .afterOp, defaultS := !false, seq := .op c :: l.seq } hsz'
            ⟨hpok', rfl⟩
          simpa [VTok.isGap, gstep, hps, specGo_op, noComments_cons, SItem.isComment] using ih
        | semi => simp [VTok.isGap, gstep, hps, specGo_semi, noComments_reverse]
        | other => simp [VTok.isGap, gstep, hps, specGo_other]
      | afterS =>
        simp only [hps] at hst
        obtain ⟨hds, hpt⟩ := hst
        cases hpend : st.pending with
        | none => rw [next_of_nil hpend (hpt hpend)] at hn; cases hn
        | some x =>
          rw [next_of_pending hpend] at hn
          obtain ⟨rfl, rfl⟩ := Prod.mk.inj (Option.some.inj hn)
          have hx := hpok _ hpend
          cases x with
          | s | comment _ | op _ => simp [VTok.plainTok] at hx
          | invalid => simp [VTok.isGap, specGo_invalid]
          | term x =>
            have ih := mainLoop_spec fuel _ _ (by rw [size_wrap]; exact hsz')
              (inv_afterTerm (.term x :: l.seq) hpok' rfl)
            simpa [VTok.isGap, gstep, hps, specGo_term, noComments_cons, SItem.isComment, Stream.rest] using ih
          | semi => simp [VTok.isGap, gstep, hps, specGo_semi, noComments_reverse]
          | other => simp [VTok.isGap, gstep, hps, specGo_other]
      | afterOp =>
        simp only [hps] at hst
        cases t with
        | comment c =>
          have ih := mainLoop_spec fuel st' { l with seq := .comment c :: l.seq } hsz'
            ⟨hpok', by simp only [hps]; exact hst⟩
          simpa [VTok.isGap, noComments_cons, SItem.isComment, hps] using ih
        | invalid => simp [VTok.isGap, specGo_invalid]
        | s =>
          have ih := mainLoop_spec fuel st' l hsz' ⟨hpok', by simp only [hps]; exact hst⟩
          simpa [VTok.isGap, hst, hps] using ih
        | term x =>
          have ih := mainLoop_spec fuel _ _ (by rw [size_wrap]; exact hsz')
            (inv_afterTerm (.term x :: l.seq) hpok' (hpn (by simp)))
          simpa [VTok.isGap, gstep, hps, specGo_term, noComments_cons, SItem.isComment, rest_wrap] using ih
        | op c => simp [VTok.isGap, gstep, hps, specGo_op]
        | semi => simp [VTok.isGap, gstep, hps, specGo_semi, noComments_reverse]
        | other => simp [VTok.isGap, gstep, hps, specGo_other]

/-! ## the value as a whole -/

theorem inv_start (ts : List VTok) : Inv { toks := ts } {} :=
  ⟨fun x hx => by simp at hx, rfl, rfl, rfl⟩

theorem parseValue_spec (ts : List VTok) : (parseValue ts).map noComments = specValue (components ts) := by
  have h := mainLoop_spec (ts.length + 1) { toks := ts } {} (by simp [Stream.size]) (inv_start ts)
  have h' : (mainLoop (ts.length + 1) { toks := ts } {}).map noComments = specGo .start (components ts) [] := by
    simpa [Stream.rest, noComments] using h
  unfold parseValue specValue
  rw [← h']
  cases mainLoop (ts.length + 1) { toks := ts } {} with
  | none => rfl
  | some seq =>
    simp only [Option.map_some, any_isTerm_noComments, all_wf_noComments]
    split <;> simp

theorem valueText_noComments (p : Out.Prefs) (lv : Nat) (seq : List SItem) :
    valueText p lv (noComments seq) = valueText p lv seq := by
  simp [valueText, any_isTerm_noComments, voCalls_noComments]

theorem propertyValue_spec (p : Out.Prefs) (lv : Nat) (ts : List VTok) :
    propertyValue p lv ts = (specValue (components ts)).map (valueText p lv) := by
  rw [← parseValue_spec]
  unfold propertyValue
  cases parseValue ts with
  | none => rfl
  | some seq => simp [valueText_noComments]

/-! ## fuel -/

theorem next_size {st st' : Stream} {t : VTok} (h : st.next = some (t, st')) : st'.size < st.size := by
  unfold Stream.next at h
  cases hpend : st.pending with
  | some x =>
    simp only [hpend] at h
    obtain ⟨rfl, rfl⟩ := Prod.mk.inj (Option.some.inj h)
    simp [Stream.size, hpend]
  | none =>
    simp only [hpend] at h
    cases htoks : st.toks with
    | nil => simp [htoks] at h
    | cons t0 r =>
      simp only [htoks] at h
      split at h
      · obtain ⟨rfl, rfl⟩ := Prod.mk.inj (Option.some.inj h)
        simp [Stream.size, hpend, htoks]
      · cases t0 with
        | s =>
          simp only at h
          have hlen := length_dropS r
          split at h
          · obtain ⟨rfl, rfl⟩ := Prod.mk.inj (Option.some.inj h)
            simp [Stream.size, hpend, htoks]
          · rename_i n r' hd
            rw [hd] at hlen
            simp at hlen
            split at h
            all_goals
              obtain ⟨rfl, rfl⟩ := Prod.mk.inj (Option.some.inj h)
              simp [Stream.size, hpend, htoks]
              try omega
        | _ =>
          simp only at h
          obtain ⟨rfl, rfl⟩ := Prod.mk.inj (Option.some.inj h)
          simp [Stream.size, hpend, htoks]

/-- one turn of the loop with the rest of the run as a parameter -/
def loopStep (k : Stream → Loop → Option (List SItem)) (st : Stream) (l : Loop) : Option (List SItem) :=
  match st.next with
  | none => if endOk l.ps then some l.seq.reverse else none
  | some (t, st) =>
    match t with
    | .comment c => k st { l with seq := .comment c :: l.seq }
    | .invalid => none
    | _ =>
      if t == .s && l.defaultS then k st l
      else match gstep l.ps t with
        | .fail => none
        | .stop => some l.seq.reverse
        | .cont ps e ns =>
          let seq := match e with | some i => i :: l.seq | none => l.seq
          let st := if ns then { st with wrapped := true, sor := true } else st
          k st { ps := ps, defaultS := !ns, seq := seq }

theorem mainLoop_succ (fuel : Nat) (st : Stream) (l : Loop) :
    mainLoop (fuel + 1) st l = loopStep (mainLoop fuel) st l := by
  rw [mainLoop]; rfl

theorem loopStep_congr (k₁ k₂ : Stream → Loop → Option (List SItem)) (st : Stream) (l : Loop)
    (h : ∀ st' l', st'.size < st.size → k₁ st' l' = k₂ st' l') : loopStep k₁ st l = loopStep k₂ st l := by
  unfold loopStep
  cases hn : st.next with
  | none => rfl
  | some p =>
    obtain ⟨t, st'⟩ := p
    have hlt := next_size hn
    simp only []
    cases t with
    | comment c => exact h _ _ hlt
    | invalid => rfl
    | s | op _ | term _ | semi | other =>
      simp only []
      split
      · exact h _ _ hlt
      · split
        · rfl
        · rfl
        · apply h
          split
          · exact hlt
          · exact hlt

/-- more fuel than tokens: one more unit changes nothing -/
theorem mainLoop_fuel_succ : ∀ (fuel : Nat) (st : Stream) (l : Loop), st.size < fuel →
    mainLoop (fuel + 1) st l = mainLoop fuel st l
  | 0, _, _, h => absurd h (Nat.not_lt_zero _)
  | fuel + 1, st, l, hsz => by
    rw [mainLoop_succ, mainLoop_succ fuel]
    apply loopStep_congr
    intro st' l' hlt
    exact mainLoop_fuel_succ fuel st' l' (by omega)

theorem mainLoop_fuel (f : Nat) (st : Stream) (l : Loop) (h : st.size < f) :
    ∀ k, mainLoop (f + k) st l = mainLoop f st l
  | 0 => rfl
  | k + 1 => by
    rw [← Nat.add_assoc, mainLoop_fuel_succ (f + k) st l (by omega)]
    exact mainLoop_fuel f st l h k

/-! ## two terms for the examples of `Props/C13.lean` -/
def exA : VTok := .term { ty := Proto.cps "Value", text := Proto.cps "a", wf := true }
def exB : VTok := .term { ty := Proto.cps "DIMENSION", text := Proto.cps "1px", wf := true }

end CssVerif.ValueText
