import CssVerif.Lemmas.SelFinish
/-! the commit of `Selector._setSelectorText` (`_getUsedNamespaces`) never raises -/
namespace CssVerif.Sel
open CssVerif.Gen.C16 CssVerif.Proto

theorem usedUris_ok (l : List Item) : ∃ us, usedUris l = .ok us := by
  induction l with
  | nil => exact ⟨[], rfl⟩
  | cons it t ih =>
    obtain ⟨us, hus⟩ := ih
    simp only [usedUris, hus, bind, Except.bind, pure, Except.pure]
    split
    · split
      · exact ⟨_, rfl⟩
      · exact ⟨_, rfl⟩
    · exact ⟨_, rfl⟩

theorem usedNamespaces_ok (ns : NsMap) (l : List Item) : ∃ used, usedNamespaces ns l = .ok used := by
  obtain ⟨us, hus⟩ := usedUris_ok l
  exact ⟨ns.filter fun pu => us.contains (.uri pu.2), by
    simp [usedNamespaces, hus, bind, Except.bind, pure, Except.pure]⟩

end CssVerif.Sel
