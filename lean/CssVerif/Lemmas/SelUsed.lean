import CssVerif.Lemmas.SelFinish
/-! the commit of `Selector._setSelectorText` (`_getUsedNamespaces`) never raises on the items of a written selector -/
namespace CssVerif.Sel
open CssVerif.Gen.C16 CssVerif.Proto

/-- `_getUsedUris` can take `val[0]` of this item -/
def usedOkItem (it : Item) : Bool :=
  !(endsWith it.typ sfxSelector) ||
    (match it.val with
     | .ns _ _ => true
     | .str (_ :: _) => true
     | _ => false)

def AllOk (rs : List Item) : Prop := ∀ it ∈ rs, usedOkItem it = true

theorem AllOk.cons {it : Item} {rs : List Item} (h : usedOkItem it = true) (hr : AllOk rs) : AllOk (it :: rs) := by
  intro x hx
  simp only [List.mem_cons] at hx
  rcases hx with rfl | hx
  · exact h
  · exact hr x hx

theorem AllOk.tail {it : Item} {rs : List Item} (h : AllOk (it :: rs)) : AllOk rs :=
  fun x hx => h x (by simp [hx])

theorem AllOk.nil : AllOk [] := by intro x hx; simp at hx

theorem usedUris_ok (l : List Item) (h : AllOk l) : ∃ us, usedUris l = .ok us := by
  induction l with
  | nil => exact ⟨[], rfl⟩
  | cons it t ih =>
    obtain ⟨us, hus⟩ := ih h.tail
    have hit := h it (by simp)
    obtain ⟨v, ty⟩ := it
    simp only [usedOkItem, Bool.or_eq_true, Bool.not_eq_true'] at hit
    by_cases hs : endsWith ty sfxSelector = true
    · rcases hit with hit | hit
      · rw [hs] at hit; cases hit
      · cases v with
        | ns u n => exact ⟨u :: us, by simp [usedUris, hus, hs, bind, Except.bind, pure, Except.pure]⟩
        | str x =>
          cases x with
          | nil => simp at hit
          | cons c r => exact ⟨.uri [c] :: us, by simp [usedUris, hus, hs, bind, Except.bind, pure, Except.pure]⟩
        | comment x => simp at hit
    · have hs' : endsWith ty sfxSelector = false := by simpa using hs
      by_cases hu : (ty == tyUniversal) = true
      · cases v with
        | ns u n => exact ⟨u :: us, by simp [usedUris, hus, hs', hu, bind, Except.bind, pure, Except.pure]⟩
        | str x => exact ⟨us, by simp [usedUris, hus, hs', hu, bind, Except.bind, pure, Except.pure]⟩
        | comment x => exact ⟨us, by simp [usedUris, hus, hs', hu, bind, Except.bind, pure, Except.pure]⟩
      · have hu' : (ty == tyUniversal) = false := by simpa using hu
        exact ⟨us, by simp [usedUris, hus, hs', hu', bind, Except.bind, pure, Except.pure]⟩

theorem usedNamespaces_ok (ns : NsMap) (l : List Item) (h : AllOk l) : ∃ used, usedNamespaces ns l = .ok used := by
  obtain ⟨us, hus⟩ := usedUris_ok l h
  exact ⟨ns.filter fun pu => us.contains (.uri pu.2), by
    simp [usedNamespaces, hus, bind, Except.bind, pure, Except.pure]⟩

/-- an item whose type does not end in `-selector` -/
theorem usedOk_plain (v : Val) (ty : Cps) (h : endsWith ty sfxSelector = false) : usedOkItem ⟨v, ty⟩ = true := by
  simp [usedOkItem, h]

theorem usedOk_ns (u : Uri) (n ty : Cps) : usedOkItem ⟨.ns u n, ty⟩ = true := by simp [usedOkItem]

theorem fillQuiet_allOk (rs : List Item) (f : List Fill) (h : AllOk rs) : AllOk (fillQuiet rs f) := by
  induction f generalizing rs with
  | nil => exact h
  | cons x t ih =>
    cases x with
    | ws v => exact ih _ h
    | cm v => exact ih _ (AllOk.cons (usedOk_plain _ _ (by simp)) h)

theorem fillDesc_allOk (rs : List Item) (f : List Fill) (h : AllOk rs) : AllOk (fillDesc rs f) := by
  induction f generalizing rs with
  | nil => exact h
  | cons x t ih =>
    cases x with
    | ws v => exact ih _ (AllOk.cons (usedOk_plain _ _ (by simp)) h)
    | cm v => exact ih _ (AllOk.cons (usedOk_plain _ _ (by simp)) h)

theorem cmPush_allOk (rs : List Item) (cs : List Cps) (h : AllOk rs) : AllOk (cmPush rs cs) := by
  induction cs generalizing rs with
  | nil => exact h
  | cons x t ih => exact ih _ (AllOk.cons (usedOk_plain _ _ (by simp)) h)

theorem typeSel_item_ok (ns : NsMap) (neg : Bool) (t : TypeSel) : usedOkItem (t.item ns neg) = true := by
  obtain ⟨pfx, name⟩ := t
  cases name <;> simp [TypeSel.item, usedOkItem]

theorem AttOp.item_ok (o : AttOp) : usedOkItem o.item = true := by
  cases o <;> exact usedOk_plain _ _ (by simp [AttOp.item, AttOp.tok])

theorem AttVal.item_ok (v : AttVal) : usedOkItem v.item = true := by
  cases v <;> exact usedOk_plain _ _ (by simp [AttVal.item])

theorem Attr.rpush_allOk (ns : NsMap) (a : Attr) (ha : a.ok ns = true) (rs : List Item) (h : AllOk rs) :
    AllOk (a.rpush ns rs) := by
  simp only [Attr.ok, Bool.and_eq_true] at ha
  have hname : usedOkItem (a.nameItem ns) = true := by
    have hne : a.name ≠ [] := by
      intro h0
      have := ha.1.1.2
      simp [nameOk, h0] at this
    cases hn : a.name with
    | nil => exact absurd hn hne
    | cons c r => cases hp : a.pfx <;> simp [Attr.nameItem, hp, hn, usedOkItem]
  have h1 : AllOk (fillQuiet (a.nameItem ns :: fillQuiet (⟨.str [91], tyAttrStart⟩ :: rs) a.f1) a.f2) :=
    fillQuiet_allOk _ _ (AllOk.cons hname (fillQuiet_allOk _ _ (AllOk.cons (usedOk_plain _ _ (by simp)) h)))
  simp only [Attr.rpush]
  cases hov : a.opv with
  | none => exact AllOk.cons (usedOk_plain _ _ (by simp)) h1
  | some q =>
    obtain ⟨o, f3, v, f4⟩ := q
    exact AllOk.cons (usedOk_plain _ _ (by simp))
      (fillQuiet_allOk _ _ (AllOk.cons (AttVal.item_ok v) (fillQuiet_allOk _ _ (AllOk.cons (AttOp.item_ok o) h1))))

theorem pseudoItem_ok (two : Bool) (n : Cps) : usedOkItem (pseudoItem two n) = true := by
  unfold pseudoItem
  split
  · exact usedOk_plain _ _ (by simp)
  · cases two <;> exact usedOk_plain _ _ (by simp [pseudoTT])

theorem argPush_allOk (rs : List Item) (args : List ArgTok) (h : AllOk rs) : AllOk (argPush rs args) := by
  induction args generalizing rs with
  | nil => exact h
  | cons a t ih =>
    rw [argPush_cons]
    apply ih
    cases a with
    | plus =>
      cases rs with
      | nil => exact AllOk.cons (usedOk_plain _ _ (by simp)) h
      | cons it r =>
        obtain ⟨v, ty⟩ := it
        cases v with
        | str s =>
          simp only [argPush]
          split
          · exact AllOk.cons (usedOk_plain _ _ (by simp)) h.tail
          · exact AllOk.cons (usedOk_plain _ _ (by simp)) h
        | comment s => exact AllOk.cons (usedOk_plain _ _ (by simp)) h
        | ns u n => exact AllOk.cons (usedOk_plain _ _ (by simp)) h
    | minus => exact AllOk.cons (usedOk_plain _ _ (by simp)) h
    | num v => exact AllOk.cons (usedOk_plain _ _ (by simp)) h
    | dim v => exact AllOk.cons (usedOk_plain _ _ (by simp)) h
    | str raw => exact AllOk.cons (usedOk_plain _ _ (by simp)) h
    | ident v => exact AllOk.cons (usedOk_plain _ _ (by simp)) h
    | ws v =>
      cases rs with
      | nil => exact h
      | cons it r =>
        simp only [argPush]
        split
        · exact h
        · exact AllOk.cons (usedOk_plain _ _ (by simp [sItem])) h
    | cm v => exact AllOk.cons (usedOk_plain _ _ (by simp [cmItem])) h

theorem funcPush_allOk (two : Bool) (f : Cps) (args : List ArgTok) (rs : List Item) (h : AllOk rs) :
    AllOk (funcPush two f args rs) := by
  refine AllOk.cons (usedOk_plain _ _ (by simp)) (argPush_allOk _ _ (AllOk.cons ?_ h))
  cases two <;> exact usedOk_plain _ _ (by simp [pseudoTT])

theorem NegArg.rpush_allOk (ns : NsMap) (x : NegArg) (hx : x.ok ns = true) (rs : List Item) (h : AllOk rs) :
    AllOk (x.rpush ns rs) := by
  cases x with
  | type t => exact AllOk.cons (typeSel_item_ok ns true t) h
  | id v => exact AllOk.cons (usedOk_plain _ _ (by simp)) h
  | cls n => exact AllOk.cons (usedOk_plain _ _ (by simp)) h
  | attr a => exact Attr.rpush_allOk ns a hx rs h
  | pseudo two n => exact AllOk.cons (pseudoItem_ok two n) h
  | func two f args => exact funcPush_allOk two f args rs h

theorem Simple.rpush_allOk (ns : NsMap) (s : Simple) (hs : s.ok ns = true) (rs : List Item) (h : AllOk rs) :
    AllOk (s.rpush ns rs) := by
  cases s with
  | id v => exact AllOk.cons (usedOk_plain _ _ (by simp)) h
  | cls n => exact AllOk.cons (usedOk_plain _ _ (by simp)) h
  | attr a => exact Attr.rpush_allOk ns a hs rs h
  | pseudo two n => exact AllOk.cons (pseudoItem_ok two n) h
  | func two f args => exact funcPush_allOk two f args rs h
  | not fv f1 x f2 =>
    simp only [Simple.ok, Bool.and_eq_true] at hs
    exact AllOk.cons (usedOk_plain _ _ (by simp))
      (fillQuiet_allOk _ _ (NegArg.rpush_allOk ns x hs.1.2 _
        (fillQuiet_allOk _ _ (AllOk.cons (usedOk_plain _ _ (by simp)) h))))

theorem restOk_parts (ns : NsMap) (cs : List Cps) (s : Simple) (t : List (List Cps × Simple))
    (hl : restOk ns ((cs, s) :: t) = true) : s.ok ns = true ∧ restOk ns t = true := by
  cases t with
  | nil => simp only [restOk, Bool.and_eq_true] at hl; exact ⟨hl.2, rfl⟩
  | cons y u => simp only [restOk, Bool.and_eq_true] at hl; exact ⟨hl.1.1.2, hl.2⟩

theorem restPush_allOk (ns : NsMap) (l : List (List Cps × Simple)) (hl : restOk ns l = true) (rs : List Item)
    (h : AllOk rs) : AllOk (restPush ns rs l) := by
  induction l generalizing rs with
  | nil => exact h
  | cons x t ih =>
    obtain ⟨cs, s⟩ := x
    obtain ⟨hs, ht⟩ := restOk_parts ns cs s t hl
    exact ih ht _ (Simple.rpush_allOk ns s hs _ (cmPush_allOk _ _ h))

theorem Compound.rpush_allOk (ns : NsMap) (c : Compound) (hc : c.ok ns = true) (rs : List Item) (h : AllOk rs) :
    AllOk (c.rpush ns rs) := by
  obtain ⟨head, rest⟩ := c
  simp only [Compound.ok, Bool.and_eq_true] at hc
  cases head with
  | some t => exact restPush_allOk ns rest hc.1.2 _ (AllOk.cons (typeSel_item_ok ns false t) h)
  | none => exact restPush_allOk ns rest hc.1.2 _ h

theorem Comb.item_ok (o : Comb) : usedOkItem o.item = true := by
  cases o <;> exact usedOk_plain _ _ (by simp)

theorem putComb_allOk (o : Comb) (rs : List Item) (h : AllOk rs) : AllOk (putComb o rs) := by
  unfold putComb
  split
  · split
    · exact AllOk.cons (Comb.item_ok o) h.tail
    · exact AllOk.cons (Comb.item_ok o) h
  · exact AllOk.cons (Comb.item_ok o) h

theorem Gap.rpush_allOk (g : Gap) (rs : List Item) (h : AllOk rs) : AllOk (g.rpush rs) := by
  obtain ⟨pre, op⟩ := g
  cases op with
  | none => exact fillDesc_allOk _ _ h
  | some q => exact fillQuiet_allOk _ _ (putComb_allOk _ _ (fillDesc_allOk _ _ h))

theorem morePush_allOk (ns : NsMap) (l : List (Gap × Compound)) (hl : l.all (fun gc => gc.1.ok && gc.2.ok ns) = true)
    (rs : List Item) (h : AllOk rs) : AllOk (morePush ns rs l) := by
  induction l generalizing rs with
  | nil => exact h
  | cons x t ih =>
    simp only [List.all_cons, Bool.and_eq_true] at hl
    exact ih hl.2 _ (Compound.rpush_allOk ns x.2 hl.1.2 _ (Gap.rpush_allOk x.1 _ h))

theorem dropBlank_allOk (rs : List Item) (h : AllOk rs) : AllOk (dropBlank rs) := by
  unfold dropBlank
  split
  · split
    · exact h.tail
    · exact h
  · exact h

theorem Sel.items_allOk (ns : NsMap) (s : Sel) (hs : s.ok ns = true) : AllOk (s.items ns) := by
  simp only [Sel.ok, Bool.and_eq_true] at hs
  have : AllOk (s.rpush ns) :=
    fillDesc_allOk _ _ (morePush_allOk ns _ hs.1.2 _ (Compound.rpush_allOk ns _ hs.1.1.2 _ (fillQuiet_allOk _ _ AllOk.nil)))
  intro it hit
  simp only [Sel.items, List.mem_reverse] at hit
  exact dropBlank_allOk _ this it hit

end CssVerif.Sel
