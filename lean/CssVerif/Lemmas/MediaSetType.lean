import CssVerif.Lemmas.Media
/-!
# Lemmas about the `MediaQuery.mediaType` setter (`Model/Media.lean`, `MQ.setMediaType`)
-/
namespace CssVerif.Media
open CssVerif.Proto

/-- the expressions of a query, in order -/
def QAst.exprs : QAst → List Expr
  | .typed _ _ tail => tail.map (·.2)
  | .untyped e0 tail => e0 :: tail.map (·.2)

/-- the `only` / `not` keyword of a query -/
def QAst.pre : QAst → Option Tok
  | .typed pre _ _ => pre
  | .untyped _ _ => none

def typeTok (mt : Cps) : Tok := { typ := .ident, val := mt }
def setterAndTok : Tok := { typ := .ident, val := Gen.C17Media.setterAndWord }

/-- the query with the media type `mt`: a typed query gets its type replaced; a query that starts with an
expression becomes `mt and <the same expressions>` -/
def QAst.withType (a : QAst) (mt : Cps) : QAst :=
  match a with
  | .typed pre _ tail => .typed pre (typeTok mt) tail
  | .untyped e0 tail => .typed none (typeTok mt) ((setterAndTok, e0) :: tail)

/-- tie of the two literals of the setter to the grammar's keyword tables (re-checked against the regenerated table) -/
theorem setterSkip_eq_prefix : Gen.C17Media.setterSkipWords = Gen.C17Media.prefixWords := by decide

theorem setterAnd_isAnd : isAndWord Gen.C17Media.setterAndWord = true := by decide

theorem isSetterSkipWord_eq (v : Cps) : isSetterSkipWord v = isPrefixWord v := by
  unfold isSetterSkipWord isPrefixWord; rw [setterSkip_eq_prefix]

theorem withType_exprs (a : QAst) (mt : Cps) : (a.withType mt).exprs = a.exprs := by
  cases a <;> simp [QAst.withType, QAst.exprs]

theorem withType_pre (a : QAst) (mt : Cps) : (a.withType mt).pre = a.pre := by
  cases a <;> simp [QAst.withType, QAst.pre]

theorem withType_valid (a : QAst) (mt : Cps) (ha : a.Valid) (hm : isMediaType mt = true) :
    (a.withType mt).Valid := by
  cases a with
  | typed pre ty tail =>
    obtain ⟨h1, _, _, h4⟩ := ha
    exact ⟨h1, rfl, hm, h4⟩
  | untyped e0 tail =>
    obtain ⟨h1, h2⟩ := ha
    show (QAst.typed none (typeTok mt) ((setterAndTok, e0) :: tail)).Valid
    refine ⟨fun p hp => (nomatch hp), rfl, hm, ?_⟩
    intro p hp
    simp only [List.mem_cons] at hp
    rcases hp with rfl | hp
    · exact ⟨rfl, setterAnd_isAnd, h1⟩
    · exact h2 p hp

theorem setTypeGo_typed (mt : Cps) (pre : Option Tok) (ty : Tok) (rest : List QItem)
    (hp : ∀ p, pre = some p → isPrefixWord p.val = true)
    (ht : ty.typ = .ident) (hm : isMediaType ty.val = true) :
    setTypeGo mt (pre.toList.map QItem.tok ++ [QItem.tok ty] ++ rest)
      = some (pre.toList.map QItem.tok ++ [QItem.tok (typeTok mt)] ++ rest) := by
  have hty : isSetterSkipWord ty.val = false := by
    rw [isSetterSkipWord_eq]; exact isPrefixWord_of_mediaType _ hm
  cases pre with
  | none => simp [setTypeGo, hty, ht, typeItem, typeTok]
  | some p =>
    have h := hp p rfl
    rw [← isSetterSkipWord_eq] at h
    simp [setTypeGo, hty, ht, h, typeItem, typeTok]

theorem open_not_skip : isSetterSkipWord cOpen = false := by decide

theorem setTypeGo_untyped (mt : Cps) (e0 : Expr) (rest : List QItem) :
    setTypeGo mt (e0.items ++ rest)
      = some (QItem.tok (typeTok mt) :: QItem.tok setterAndTok :: (e0.items ++ rest)) := by
  simp [Expr.items, setTypeGo, open_not_skip, openTok, typeItem, typeTok, setterAndItem, setterAndTok]

/-- items that are no IDENT tokens: comments, value objects, parentheses and colons -/
def keptItem : QItem → Bool
  | .tok t => t.typ != .ident
  | _ => true

theorem setTypeGo_keeps (mt : Cps) : ∀ (l r : List QItem), setTypeGo mt l = some r →
    r.filter keptItem = l.filter keptItem := by
  intro l
  induction l with
  | nil => intro r h; simp [setTypeGo] at h
  | cons x l ih =>
    intro r h
    cases x with
    | tok t =>
      simp only [setTypeGo] at h
      split at h
      · cases hg : setTypeGo mt l with
        | none => simp [hg] at h
        | some r' =>
          simp only [hg, Option.map_some, Option.some.injEq] at h
          subst h
          simp [List.filter_cons, ih r' hg]
      · split at h
        · rename_i hi
          simp only [Option.some.injEq] at h; subst h
          simp [keptItem, typeItem, hi]
        · rename_i hi
          simp only [Option.some.injEq] at h; subst h
          simp [List.filter_cons, keptItem, typeItem, setterAndItem]
    | comment t =>
      simp only [setTypeGo] at h
      cases hg : setTypeGo mt l with
      | none => simp [hg] at h
      | some r' =>
        simp only [hg, Option.map_some, Option.some.injEq] at h
        subst h
        simp [List.filter_cons, ih r' hg]
    | value k t =>
      simp only [setTypeGo] at h
      cases hg : setTypeGo mt l with
      | none => simp [hg] at h
      | some r' =>
        simp only [hg, Option.map_some, Option.some.injEq] at h
        subst h
        simp [List.filter_cons, ih r' hg]

theorem setMediaType_keeps (q : MQ) (raising : Bool) (mt : Cps) :
    (q.setMediaType raising mt).1.items.filter keptItem = q.items.filter keptItem := by
  unfold MQ.setMediaType
  split
  · cases hg : setTypeGo mt q.items with
    | none => simp [keptItem, typeItem]
    | some r => simpa using setTypeGo_keeps mt q.items r hg
  · rfl

theorem setMediaType_ast (a : QAst) (ha : a.Valid) (raising : Bool) (mt : Cps) (hm : isMediaType mt = true) :
    a.toMQ.setMediaType raising mt = ({ items := (a.withType mt).toMQ.items, mediaType := mt }, .ret ()) := by
  have hc : Gen.C17Media.mediaTypes.contains (normalize mt) = true := hm
  unfold MQ.setMediaType
  simp only [hc, if_true]
  cases a with
  | typed pre ty tail =>
    obtain ⟨h1, h2, h3, _⟩ := ha
    have := setTypeGo_typed mt pre ty (tailItems tail) (fun p hp => (h1 p hp).2) h2 h3
    simp only [QAst.toMQ, QAst.withType, this, Option.getD_some]
  | untyped e0 tail =>
    have := setTypeGo_untyped mt e0 (tailItems tail)
    simp only [QAst.toMQ, QAst.withType, this, Option.getD_some]
    simp [tailItems]

/-- items the loop of the setter passes over: comments, value objects, and the `only` / `not` keywords -/
def passedItem : QItem → Bool
  | .tok t => isSetterSkipWord t.val
  | _ => true

/-- exact effect of the loop on ANY sequence: everything before the first string item that is not `only` / `not`
and everything after it is untouched; that item is replaced when it is an IDENT, otherwise `type and` goes in front -/
theorem setTypeGo_spec (mt : Cps) : ∀ (l r : List QItem), setTypeGo mt l = some r →
    ∃ pre t post, l = pre ++ QItem.tok t :: post ∧ (∀ i ∈ pre, passedItem i = true) ∧ isSetterSkipWord t.val = false ∧
      r = pre ++ (if t.typ = .ident then [typeItem mt] else [typeItem mt, setterAndItem, QItem.tok t]) ++ post := by
  intro l
  induction l with
  | nil => intro r h; simp [setTypeGo] at h
  | cons x l ih =>
    intro r h
    have step : ∀ r', passedItem x = true → setTypeGo mt l = some r' → r = x :: r' →
        ∃ pre t post, x :: l = pre ++ QItem.tok t :: post ∧ (∀ i ∈ pre, passedItem i = true) ∧
          isSetterSkipWord t.val = false ∧
          r = pre ++ (if t.typ = .ident then [typeItem mt] else [typeItem mt, setterAndItem, QItem.tok t]) ++ post := by
      intro r' hx hg hr
      obtain ⟨pre, t, post, h1, h2, h3, h4⟩ := ih r' hg
      refine ⟨x :: pre, t, post, by rw [h1]; rfl, ?_, h3, by rw [hr, h4]; rfl⟩
      intro i hi
      simp only [List.mem_cons] at hi
      rcases hi with rfl | hi
      · exact hx
      · exact h2 i hi
    cases x with
    | tok t =>
      simp only [setTypeGo] at h
      by_cases hs : isSetterSkipWord t.val = true
      · simp only [hs, if_true] at h
        cases hg : setTypeGo mt l with
        | none => simp [hg] at h
        | some r' =>
          simp only [hg, Option.map_some, Option.some.injEq] at h
          exact step r' hs hg h.symm
      · have hs' : isSetterSkipWord t.val = false := by simpa using hs
        simp only [hs', Bool.false_eq_true, if_false] at h
        refine ⟨[], t, l, rfl, (fun i hi => nomatch hi), hs', ?_⟩
        by_cases hi : t.typ = .ident
        · simp only [hi, if_true, Option.some.injEq] at h; subst h; simp [hi]
        · simp only [hi, if_false, Option.some.injEq] at h; subst h; simp [hi]
    | comment t =>
      simp only [setTypeGo] at h
      cases hg : setTypeGo mt l with
      | none => simp [hg] at h
      | some r' =>
        simp only [hg, Option.map_some, Option.some.injEq] at h
        exact step r' rfl hg h.symm
    | value k t =>
      simp only [setTypeGo] at h
      cases hg : setTypeGo mt l with
      | none => simp [hg] at h
      | some r' =>
        simp only [hg, Option.map_some, Option.some.injEq] at h
        exact step r' rfl hg h.symm

theorem setTypeGo_none (mt : Cps) : ∀ (l : List QItem), setTypeGo mt l = none → ∀ i ∈ l, passedItem i = true := by
  intro l
  induction l with
  | nil => intro _ i hi; cases hi
  | cons x l ih =>
    intro h i hi
    have tail : setTypeGo mt l = none → passedItem x = true → passedItem i = true := by
      intro hg hx
      simp only [List.mem_cons] at hi
      rcases hi with rfl | hi
      · exact hx
      · exact ih hg i hi
    cases x with
    | tok t =>
      simp only [setTypeGo] at h
      by_cases hs : isSetterSkipWord t.val = true
      · simp only [hs, if_true, Option.map_eq_none_iff] at h
        exact tail h hs
      · have hs' : isSetterSkipWord t.val = false := by simpa using hs
        simp only [hs', Bool.false_eq_true, if_false] at h
        split at h <;> cases h
    | comment t =>
      simp only [setTypeGo, Option.map_eq_none_iff] at h
      exact tail h rfl
    | value k t =>
      simp only [setTypeGo, Option.map_eq_none_iff] at h
      exact tail h rfl

end CssVerif.Media
