import CssVerif.Model.CodecErr
import CssVerif.Lemmas.CodecChunk
import CssVerif.Lemmas.CodecInc
import CssVerif.Lemmas.CodecEnc
import CssVerif.Lemmas.CodecEncInner
import CssVerif.Lemmas.CodecStream
/-!
The incremental CSS decoder raises for some chunking iff one-shot decode raises (inner codecs of the model).
-/
namespace CssVerif.Codec

/-- an error met on a prefix of the data (non-final) is met on the whole data -/
theorem errAt_mono (E : Name) (a b : List Nat) (f : Bool) (h : errAt E a false = true) :
    errAt E (a ++ b) f = true := by
  unfold errAt at *
  cases hl : lookupName E with
  | none => simp [hl] at h
  | some c =>
    simp only [hl] at h ⊢
    unfold incOut at *
    obtain ⟨h1, _⟩ := ifeed_splits c c.init.mode a b f
    simp only [ifeed_init] at h1
    rw [h1]
    simp [Res.andThen, h]

/-- after the final call the machine has handed the whole data to the inner decoder of the one-shot encoding -/
theorem final_state (I : Inner) (given : Option Name) (force : Bool) (a em : List Nat) (s : DSt)
    (h : Inv I given force a em s) :
    (step I s [] true).1.raised true = errAt (finalEnc given force a) a true := by
  cases s with
  | waiting g f b =>
    obtain ⟨rfl, rfl, rfl, rfl⟩ := h
    have start : ∀ E, (stepDecoding I E [] [] (b ++ []) true).1.raised true = errAt E b true := by
      intro E
      unfold stepDecoding
      simp only []
      split <;> simp [DSt.raised]
    have detectPath : (g = none ∨ f = false) →
        (stepDetect I g f (b ++ []) true).1.raised true = errAt (finalEnc g f b) b true := by
      intro hgf
      unfold stepDetect
      have hd : detect (b ++ []) true = some (detectFinal b) := by simpa using detect_true b
      simp only [hd, start]
      congr 1
      unfold finalEnc
      rcases hgf with rfl | rfl
      · simp
      · cases g <;> simp
    cases g with
    | none => simpa [step] using detectPath (Or.inl rfl)
    | some gg =>
      cases f with
      | false => simpa [step] using detectPath (Or.inr rfl)
      | true => simp only [step, start]; rfl
  | decoding E c0 bufT =>
    obtain ⟨rfl, rfl, rfl, hE⟩ := h
    have hE0 : finalEnc given force c0 = E := by simpa using hE []
    simp only [step, hE0]
    unfold stepDecoding
    simp only []
    split <;> simp [DSt.raised]
  | streaming E c0 =>
    obtain ⟨rfl, hE, hfx⟩ := h
    have hE0 : finalEnc given force c0 = E := by simpa using hE []
    simp [step, DSt.raised, hE0]

/-- a state reached by a non-final step has handed exactly the bytes so far to the inner decoder of the
encoding one-shot decode will use, whatever follows -/
theorem raised_mono (I : Inner) (given : Option Name) (force : Bool) (a em : List Nat) (s : DSt)
    (h : Inv I given force a em s) (hr : s.raised false = true) (rest : List Nat) :
    errAt (finalEnc given force (a ++ rest)) (a ++ rest) true = true := by
  cases s with
  | waiting g f b => simp [DSt.raised] at hr
  | decoding E c bufT =>
    obtain ⟨rfl, _, _, hE⟩ := h
    rw [hE rest]
    exact errAt_mono E c rest true hr
  | streaming E c =>
    obtain ⟨rfl, hE, _⟩ := h
    rw [hE rest]
    exact errAt_mono E c rest true hr

theorem runChunksE_some (I : Inner) (s : DSt) (cs : List (List Nat)) (r : DSt × List Nat)
    (h : runChunksE I s cs = some r) : r = runChunks I s cs := by
  induction cs generalizing s r with
  | nil => simp [runChunksE] at h; simp [runChunks, h]
  | cons c cs ih =>
    simp only [runChunksE, stepE] at h
    split at h
    · cases h
    · rename_i r1 hr1
      split at hr1
      · cases hr1
      · simp only [Option.some.injEq] at hr1
        subst hr1
        split at h
        · cases h
        · rename_i r2 hr2
          simp only [Option.some.injEq] at h
          subst h
          have := ih _ _ hr2
          simp [runChunks, ← this]

theorem runChunksE_none (I : Inner) (given : Option Name) (force : Bool) (cs : List (List Nat)) :
    ∀ (a em : List Nat) (s : DSt), Inv I given force a em s → runChunksE I s cs = none →
      errAt (finalEnc given force (a ++ cs.flatten)) (a ++ cs.flatten) true = true := by
  induction cs with
  | nil => intro a em s _ h; simp [runChunksE] at h
  | cons c cs ih =>
    intro a em s hinv h
    have h1 := step_inv I given force a em c s hinv
    simp only [runChunksE, stepE] at h
    by_cases hr : (step I s c false).1.raised false = true
    · have := raised_mono I given force (a ++ c) _ _ h1 hr cs.flatten
      simpa [List.append_assoc] using this
    · have hr' : (step I s c false).1.raised false = false := by
        cases hx : (step I s c false).1.raised false with
        | true => exact absurd hx hr
        | false => rfl
      simp only [hr', Bool.false_eq_true, if_false] at h
      cases h2 : runChunksE I (step I s c false).1 cs with
      | none =>
        have := ih _ _ _ h1 h2
        simpa [List.append_assoc] using this
      | some r' => simp [h2] at h

/-- **chunking invariance with the exception**: some call of the incremental decoder raises iff one-shot
decode raises; otherwise the outputs are the one-shot result -/
theorem runAllE_eq (I : Inner) (given : Option Name) (force : Bool) (cs : List (List Nat)) :
    runAllE I given force cs = oneShotE I given force cs.flatten := by
  have h0 : Inv I given force [] [] (.waiting given force []) := ⟨rfl, rfl, rfl, rfl⟩
  unfold runAllE oneShotE
  cases hrc : runChunksE I (.waiting given force []) cs with
  | none =>
    have := runChunksE_none I given force cs [] [] _ h0 hrc
    simp only [List.nil_append] at this
    simp [this]
  | some r =>
    have hr := runChunksE_some I _ cs r hrc
    have h1 := runChunks_inv I given force cs [] [] _ h0
    simp only [List.nil_append] at h1
    rw [← hr] at h1
    have hfs := final_state I given force _ _ _ h1
    have hout := final_step I given force _ _ _ h1
    simp only [stepE, hfs]
    cases errAt (finalEnc given force cs.flatten) cs.flatten true with
    | true => simp
    | false => simp [hout]

/-- **the abstraction `Inner` is exact for the decoder objects**: after any history of chunks `xs` (no call
raised), the next call `decode(x, f)` of the decoder object — working on its buffer of pending bytes — raises
iff the data so far is ill-formed, and otherwise returns exactly `feedInner`: the text of everything so far minus
the text already returned -/
theorem istep_is_feedInner (c : CName) (E : Name) (hl : lookupName E = some c) (xs : List (List Nat))
    (x : List Nat) (f : Bool) (s : ISt) (t0 : List Nat) (h : irun c c.init xs = some (s, t0)) :
    (istep c s x f).map (·.2) =
      if errAt E (xs.flatten ++ x) f then none else some (feedInner cpyInner E xs.flatten x f) := by
  rw [irun_eq c c.init (stable_init c) xs] at h
  have e0 : c.init.buf = [] := by cases c <;> rfl
  rw [e0, List.nil_append] at h
  cases he : (ifeed c c.init.mode xs.flatten false).res.err with
  | true => simp [he] at h
  | false =>
    simp only [he, Bool.false_eq_true, if_false, Option.some.injEq, Prod.mk.injEq] at h
    obtain ⟨hs, _⟩ := h
    subst hs
    obtain ⟨h1, _⟩ := ifeed_splits c c.init.mode xs.flatten x f
    simp only [istep]
    unfold errAt feedInner
    simp only [hl, cpyInner, cpyOut, incOut]
    rw [← ifeed_init, ← ifeed_init c xs.flatten false, h1]
    simp only [Res.andThen, he, Bool.false_eq_true, if_false]
    cases (ifeed c (ifeed c c.init.mode xs.flatten false).mode
      ((ifeed c c.init.mode xs.flatten false).res.pend ++ x) f).res.err <;> simp

/-! ## encoder side -/

theorem encErrAt_mono (E : Name) (a b : List Nat) (h : encErrAt E a = true) : encErrAt E (a ++ b) = true := by
  unfold encErrAt at *
  cases hl : lookupName E with
  | none => simp [hl] at h
  | some c =>
    simp only [hl] at h ⊢
    rw [encScan_append]
    cases h2 : (encScan c.kind a).2 with
    | true => simp [h2] at h
    | false => simp

theorem encodeOneShotE_eq (I : InnerEnc) (given : Option Name) (whole : List Nat) :
    encodeOneShotE I given whole =
      if encErrAt (finalE given whole) (finalT given whole) then none else some (encodeOneShot I given whole) := by
  cases given <;> rfl

theorem efinal_state (I : InnerEnc) (given : Option Name) (a em : List Nat) (s : ESt)
    (h : EInv I given a em s) :
    (estep I s [] true).1.raised = encErrAt (finalE given a) (finalT given a) := by
  cases s with
  | waiting g buf =>
    obtain ⟨rfl, rfl, rfl⟩ := h
    cases g with
    | some g =>
      simp only [estep, List.append_nil, fix_true, ESt.raised, finalE, finalT]
      by_cases hs : isSig g = true
      · simp only [hs, if_true, fixFinal_idem buf g _ true (fix_true buf g) hs]
      · simp [hs]
    | none =>
      simp only [estep, List.append_nil, detU_true, ESt.raised, finalE, finalT]
  | encoding E c =>
    obtain ⟨rfl, hT⟩ := h
    obtain ⟨hE, hTT⟩ := hT []
    simp only [List.append_nil] at hE hTT
    simp [estep, ESt.raised, hE, hTT]

theorem eraised_mono (I : InnerEnc) (given : Option Name) (a em : List Nat) (s : ESt)
    (h : EInv I given a em s) (hr : s.raised = true) (rest : List Nat) :
    encErrAt (finalE given (a ++ rest)) (finalT given (a ++ rest)) = true := by
  cases s with
  | waiting g buf => simp [ESt.raised] at hr
  | encoding E c =>
    obtain ⟨_, hT⟩ := h
    obtain ⟨hE, hTT⟩ := hT rest
    rw [hE, hTT]
    exact encErrAt_mono E c rest hr

theorem erunChunksE_some (I : InnerEnc) (s : ESt) (cs : List (List Nat)) (r : ESt × List Nat)
    (h : erunChunksE I s cs = some r) : r = erunChunks I s cs := by
  induction cs generalizing s r with
  | nil => simp [erunChunksE] at h; simp [erunChunks, h]
  | cons c cs ih =>
    simp only [erunChunksE, estepE] at h
    split at h
    · cases h
    · rename_i r1 hr1
      split at hr1
      · cases hr1
      · simp only [Option.some.injEq] at hr1
        subst hr1
        split at h
        · cases h
        · rename_i r2 hr2
          simp only [Option.some.injEq] at h
          subst h
          have := ih _ _ hr2
          simp [erunChunks, ← this]

theorem erunChunksE_none (I : InnerEnc) (given : Option Name) (cs : List (List Nat)) :
    ∀ (a em : List Nat) (s : ESt), EInv I given a em s → erunChunksE I s cs = none →
      encErrAt (finalE given (a ++ cs.flatten)) (finalT given (a ++ cs.flatten)) = true := by
  induction cs with
  | nil => intro a em s _ h; simp [erunChunksE] at h
  | cons c cs ih =>
    intro a em s hinv h
    have h1 := estep_inv I given a em c s hinv
    simp only [erunChunksE, estepE] at h
    by_cases hr : (estep I s c false).1.raised = true
    · have := eraised_mono I given (a ++ c) _ _ h1 hr cs.flatten
      simpa [List.append_assoc] using this
    · have hr' : (estep I s c false).1.raised = false := by
        cases hx : (estep I s c false).1.raised with
        | true => exact absurd hx hr
        | false => rfl
      simp only [hr', Bool.false_eq_true, if_false] at h
      cases h2 : erunChunksE I (estep I s c false).1 cs with
      | none =>
        have := ih _ _ _ h1 h2
        simpa [List.append_assoc] using this
      | some r' => simp [h2] at h

/-- some call of the incremental encoder raises iff one-shot encode raises; otherwise the same bytes -/
theorem erunAllE_eq (I : InnerEnc) (given : Option Name) (cs : List (List Nat)) :
    erunAllE I given cs = encodeOneShotE I given cs.flatten := by
  have h0 : EInv I given [] [] (.waiting given []) := ⟨rfl, rfl, rfl⟩
  rw [encodeOneShotE_eq]
  unfold erunAllE
  cases hrc : erunChunksE I (.waiting given []) cs with
  | none =>
    have := erunChunksE_none I given cs [] [] _ h0 hrc
    simp only [List.nil_append] at this
    simp [this]
  | some r =>
    have hr := erunChunksE_some I _ cs r hrc
    have h1 := erunChunks_inv I given cs [] [] _ h0
    simp only [List.nil_append] at h1
    rw [← hr] at h1
    have hfs := efinal_state I given _ _ _ h1
    have hout := efinal_step I given _ _ _ h1
    simp only [estepE, hfs]
    cases encErrAt (finalE given cs.flatten) (finalT given cs.flatten) with
    | true => simp
    | false => simp [hout]

/-! ## stream reader with the exception -/

theorem rerr_mono (given : Option Name) (force : Bool) (a x : List Nat) (h : rerr given force a = true) :
    rerr given force (a ++ x) = true := by
  unfold rerr at *
  cases hc : readerEnc given force a with
  | none => simp [hc] at h
  | some E =>
    simp only [hc] at h
    simp only [readerEnc_stable given force a x E hc]
    exact errAt_mono E a x false h

/-- a turn of the `read()` loop raises iff the inner decoder of the chosen encoding raises on the data so far -/
theorem rstepE_none (I : Inner) (given : Option Name) (force : Bool) (a em x : List Nat) (s : RSt)
    (h : RInv I given force a em s) :
    (rstepE I force s x = none ↔ rerr given force (a ++ x) = true) ∧
    (∀ r, rstepE I force s x = some r → r = rstep I force s x) := by
  cases s with
  | waiting enc bb =>
    obtain ⟨rfl, _, hok, _⟩ := h
    simp only [rstepE, rerr, readerEnc_ok given force bb x enc hok]
    cases hc : readerEnc given force (bb ++ x) with
    | none => simp
    | some E =>
      cases he : errAt E (bb ++ x) false <;> simp
  | reading E c =>
    obtain ⟨rfl, hE, _⟩ := h
    simp only [rstepE, rerr, readerEnc_stable given force c x E hE]
    cases he : errAt E (c ++ x) false <;> simp

theorem rrunChunksE_spec (I : Inner) (given : Option Name) (force : Bool) (cs : List (List Nat)) :
    ∀ (a em : List Nat) (s : RSt), RInv I given force a em s →
      (cs ≠ [] → (rrunChunksE I force s cs = none ↔ rerr given force (a ++ cs.flatten) = true)) ∧
      (∀ r, rrunChunksE I force s cs = some r → r = rrunChunks I force s cs) := by
  induction cs with
  | nil =>
    intro a em s _
    exact ⟨fun h => absurd rfl h, fun r h => by simp [rrunChunksE] at h; simp [rrunChunks, h]⟩
  | cons c cs ih =>
    intro a em s hinv
    obtain ⟨hs1, hs2⟩ := rstepE_none I given force a em c s hinv
    have hinv1 := rstep_inv I given force a em c s hinv
    obtain ⟨ih1, ih2⟩ := ih _ _ _ hinv1
    have hfl : a ++ (c :: cs).flatten = (a ++ c) ++ cs.flatten := by simp
    constructor
    · intro _
      rw [hfl]
      cases hst : rstepE I force s c with
      | none =>
        simp only [rrunChunksE, hst]
        exact ⟨fun _ => rerr_mono given force (a ++ c) cs.flatten (hs1.mp hst), fun _ => trivial⟩
      | some r =>
        have hr := hs2 r hst
        subst hr
        have hne : ¬ rerr given force (a ++ c) = true := fun e => by
          have := hs1.mpr e; rw [hst] at this; cases this
        simp only [rrunChunksE, hst]
        by_cases hcs : cs = []
        · subst hcs
          simp only [rrunChunksE, List.flatten_nil, List.append_nil]
          exact ⟨fun h => (by cases h), fun h => absurd h hne⟩
        · have := ih1 hcs
          cases hrest : rrunChunksE I force (rstep I force s c).1 cs with
          | none => exact ⟨fun _ => this.mp hrest, fun _ => rfl⟩
          | some r' =>
            constructor
            · intro h; simp at h
            · intro h
              have := this.mpr h
              rw [hrest] at this; cases this
    · intro r h
      simp only [rrunChunksE] at h
      cases hst : rstepE I force s c with
      | none => simp [hst] at h
      | some r1 =>
        have hr := hs2 r1 hst
        subst hr
        simp only [hst] at h
        cases hrest : rrunChunksE I force (rstep I force s c).1 cs with
        | none => simp [hrest] at h
        | some r' =>
          simp only [hrest, Option.some.injEq] at h
          have := ih2 r' hrest
          subst h
          simp [rrunChunks, ← this]

theorem errAt_nil (E : Name) : errAt E [] false = false := by
  unfold errAt
  cases lookupName E with
  | none => rfl
  | some c => cases c <;> rfl

/-- `read()` of the CSS stream reader raises iff the inner decoder of the encoding it settles on raises on the whole
data read (as non-final data); otherwise it returns `readAll` -/
theorem readAllE_eq (I : Inner) (given : Option Name) (force : Bool) (cs : List (List Nat)) :
    readAllE I given force cs = if rerr given force cs.flatten then none else some (readAll I given force cs) := by
  unfold readAllE readAll
  obtain ⟨h1, h2⟩ := rrunChunksE_spec I given force cs [] [] _ (rinv_init I given force)
  simp only [List.nil_append] at h1
  by_cases hcs : cs = []
  · subst hcs
    have : rerr given force [] = false := by
      unfold rerr
      cases readerEnc given force [] with
      | none => rfl
      | some E => exact errAt_nil E
    simp [rrunChunksE, rrunChunks, this]
  · have h1 := h1 hcs
    cases hr : rrunChunksE I force (.waiting given []) cs with
    | none => simp [h1.mp hr]
    | some r =>
      have := h2 r hr
      have hne : rerr given force cs.flatten = false := by
        cases hx : rerr given force cs.flatten with
        | false => rfl
        | true => have := h1.mpr hx; rw [hr] at this; cases this
      simp [hne, this]

/-! ## stream writer with the exception -/

/-- the writer has started on the text `d` and its inner encoder refuses what it was handed -/
def werr (given : Option Name) (d : List Nat) : Prop :=
  ¬ WUnd given d ∧ encErrAt (finalE given d) (finalT given d) = true

theorem wund_stable (given : Option Name) (a x : List Nat) (h : ¬ WUnd given a) : ¬ WUnd given (a ++ x) := by
  cases given with
  | some g =>
    simp only [WUnd] at *
    cases hf : fixEncoding a g false with
    | none => exact absurd hf h
    | some r => rw [fix_stable a x g r false hf]; simp
  | none =>
    simp only [WUnd] at *
    cases hd : detectUnicode a false with
    | none => exact absurd hd h
    | some d => rw [detectUnicode_stable a x false d hd]; simp

/-- state and text agree on whether the writer has started -/
def WSt (given : Option Name) (a : List Nat) : ESt → Prop
  | .waiting _ _ => WUnd given a
  | .encoding _ _ => ¬ WUnd given a

theorem wst_step (I : InnerEnc) (given : Option Name) (a em x : List Nat) (s : ESt)
    (h : EInv I given a em s) (hw : WSt given a s) : WSt given (a ++ x) (estep I s x false).1 := by
  cases s with
  | waiting g buf =>
    obtain ⟨rfl, rfl, _⟩ := h
    cases g with
    | some g =>
      simp only [estep]
      cases hf : fixEncoding (buf ++ x) g false with
      | none => exact hf
      | some t => simp only [WSt, WUnd, hf]; simp
    | none =>
      simp only [estep, detU]
      cases hd : detectUnicode (buf ++ x) false with
      | none => exact hd
      | some d => simp only [WSt, WUnd, hd]; simp
  | encoding E c => exact wund_stable given a x hw

theorem wrunChunksE_spec (I : InnerEnc) (given : Option Name) (cs : List (List Nat)) :
    ∀ (a em : List Nat) (s : ESt), EInv I given a em s → WSt given a s →
      (cs ≠ [] → (wrunChunksE I s cs = none ↔ werr given (a ++ cs.flatten))) ∧
      (∀ r, wrunChunksE I s cs = some r → r = erunChunks I s cs) := by
  induction cs with
  | nil =>
    intro a em s _ _
    exact ⟨fun h => absurd rfl h, fun r h => by simp [wrunChunksE] at h; simp [erunChunks, h]⟩
  | cons c cs ih =>
    intro a em s hinv hw
    have hinv1 := estep_inv I given a em c s hinv
    have hw1 := wst_step I given a em c s hinv hw
    obtain ⟨ih1, ih2⟩ := ih _ _ _ hinv1 hw1
    have hfl : a ++ (c :: cs).flatten = (a ++ c) ++ cs.flatten := by simp
    -- what a raise of this step means for any continuation of the text
    have hraise : (estep I s c false).1.raised = true → ∀ rest, werr given ((a ++ c) ++ rest) := by
      intro hr rest
      refine ⟨?_, eraised_mono I given (a ++ c) _ _ hinv1 hr rest⟩
      cases hs : (estep I s c false).1 with
      | waiting g b => rw [hs] at hr; simp [ESt.raised] at hr
      | encoding E c1 => rw [hs] at hw1; exact wund_stable given _ rest hw1
    -- … and the converse for the text up to here
    have hconv : werr given (a ++ c) → (estep I s c false).1.raised = true := by
      intro ⟨hu, he⟩
      cases hs : (estep I s c false).1 with
      | waiting g b => rw [hs] at hw1; exact absurd hw1 hu
      | encoding E c1 =>
        rw [hs] at hinv1
        obtain ⟨_, hT⟩ := hinv1
        obtain ⟨hE, hTT⟩ := hT []
        simp only [List.append_nil] at hE hTT
        rw [hE, hTT] at he
        exact he
    constructor
    · intro _
      rw [hfl]
      simp only [wrunChunksE, estepE]
      by_cases hr : (estep I s c false).1.raised = true
      · simp only [hr, if_true]
        exact ⟨fun _ => hraise hr cs.flatten, fun _ => trivial⟩
      · have hr' : (estep I s c false).1.raised = false := by
          cases hx : (estep I s c false).1.raised with
          | true => exact absurd hx hr
          | false => rfl
        simp only [hr', Bool.false_eq_true, if_false]
        by_cases hcs : cs = []
        · subst hcs
          simp only [wrunChunksE, List.flatten_nil, List.append_nil]
          exact ⟨fun h => (by cases h), fun h => absurd (hconv h) hr⟩
        · have := ih1 hcs
          cases hrest : wrunChunksE I (estep I s c false).1 cs with
          | none => exact ⟨fun _ => this.mp hrest, fun _ => rfl⟩
          | some r' =>
            constructor
            · intro h; simp at h
            · intro h
              have := this.mpr h
              rw [hrest] at this; cases this
    · intro r h
      simp only [wrunChunksE, estepE] at h
      by_cases hr : (estep I s c false).1.raised = true
      · simp [hr] at h
      · have hr' : (estep I s c false).1.raised = false := by
          cases hx : (estep I s c false).1.raised with
          | true => exact absurd hx hr
          | false => rfl
        simp only [hr', Bool.false_eq_true, if_false] at h
        cases hrest : wrunChunksE I (estep I s c false).1 cs with
        | none => simp [hrest] at h
        | some r' =>
          simp only [hrest, Option.some.injEq] at h
          have := ih2 r' hrest
          subst h
          simp [erunChunks, ← this]

/-- `write(chunk)` … of the CSS stream writer raises iff the writer has started on the whole text and the inner
encoder refuses what it is handed; otherwise what was written is `writeAll` -/
theorem writeAllE_eq (I : InnerEnc) (given : Option Name) (cs : List (List Nat)) :
    (writeAllE I given cs = none ↔ (cs ≠ [] ∧ werr given cs.flatten)) ∧
    (∀ out, writeAllE I given cs = some out → out = writeAll I given cs) := by
  unfold writeAllE writeAll
  obtain ⟨h1, h2⟩ := wrunChunksE_spec I given cs [] [] (.waiting given []) (⟨rfl, rfl, rfl⟩ : EInv I given [] [] (.waiting given []))
    (wund_init given)
  simp only [List.nil_append] at h1
  constructor
  · by_cases hcs : cs = []
    · subst hcs; simp [wrunChunksE]
    · have := h1 hcs
      cases hr : wrunChunksE I (.waiting given []) cs with
      | none => simp [hcs, this.mp hr]
      | some r =>
        simp only [Option.map_some, reduceCtorEq, false_iff, not_and]
        intro _ hw
        have := this.mpr hw
        rw [hr] at this; cases this
  · intro out h
    cases hr : wrunChunksE I (.waiting given []) cs with
    | none => simp [hr] at h
    | some r =>
      simp only [hr, Option.map_some, Option.some.injEq] at h
      rw [← h, h2 r hr, wrunChunks_eq]

end CssVerif.Codec
