import CssVerif.Lemmas.TokLex2
import CssVerif.Lemmas.TokComment
import CssVerif.Lemmas.TokStrItems
import CssVerif.Lemmas.TokIdentDash
import CssVerif.Lemmas.TokUriQ
import CssVerif.Lemmas.TokIdentU
import CssVerif.Lemmas.TokURange
import CssVerif.Lemmas.TokNum
/-!
# Lexeme separation for all token classes (`Lex2`, `render2`, `expectedAll`)
-/
namespace CssVerif.Tok
open CssVerif CssVerif.Gen.C05

/-! ## lexeme separation for all classes -/

theorem stringValue_id : ∀ (s : Cps), (∀ c ∈ s, c ≠ 92) → stringValue s = s := by
  intro s
  induction s with
  | nil => intro _; rfl
  | cons c t ih =>
    intro h
    have hc : c ≠ 92 := h c (by simp)
    have : stringValue (c :: t) = c :: stringValue t := by
      show stringValueF (t.length + 1) (c :: t) = _
      simp only [stringValueF, hc, ne_eq, not_false_eq_true, if_true]
      rfl
    rw [this, ih (fun x hx => h x (List.mem_cons_of_mem _ hx))]

theorem valueOf_clean (s : Cps) (name : String) (found : Cps) (h1 : cleanTypes.contains name = true)
    (h : ∀ c ∈ found, c ≠ 92) : valueOf s name found = some ⟨name, found, found⟩ := by
  have hun : unescTypes.contains name = true := by
    have : ∀ t ∈ cleanTypes, unescTypes.contains t = true := by decide
    exact this _ (by simpa using h1)
  simp only [valueOf, hun, h1, subS_eq_stringValue, stringValue_id found h, if_true]

/-- one iteration of the loop when the scan hits `name` with the whole lexeme and the value is the text itself;
the item is yielded unless it is a comment and comments are off -/
theorem loop_step2 (doC : Bool) (fuel : Nat) (w stop : Cps) (line col : Nat) (name : String)
    (hw : w ≠ []) (hfast : ∀ c t, w = c :: t → fastChars.contains c = false)
    (hscan : scan false doC (w ++ stop) productions = .hit name w.length)
    (v : Cps) (hval : valueOf (w ++ stop) name w = some ⟨name, v, w⟩) :
    ∃ line' col', loop false doC (fuel + 1) (w ++ stop) line col =
      Res.cons ⟨name, v, line, col, w, w, doC || name != "COMMENT"⟩ (loop false doC fuel stop line' col') := by
  cases w with
  | nil => exact absurd rfl hw
  | cons c t =>
    have hf := hfast c t rfl
    refine ⟨(advance line col (c :: t)).1, (advance line col (c :: t)).2, ?_⟩
    have htake : List.take (c :: t).length (c :: t ++ stop) = c :: t := by
      rw [List.take_left']; rfl
    have hdrop : List.drop (c :: t).length (c :: t ++ stop) = stop := by
      rw [List.drop_left']; rfl
    simp only [List.cons_append] at hscan hval htake hdrop ⊢
    rw [loop]
    simp only [hf, Bool.false_eq_true, if_false, hscan, complete_false, htake, hval, hdrop]
    simp

inductive Lex2 where
  | old (t : Lex)                          -- the classes of `Lex`
  | str (q : Nat) (body : Cps)             -- STRING: quote, body without backslash / line break / the quote, quote
  | fn (c : Nat) (cs : Cps)                -- FUNCTION: plain identifier other than `and`, `(`
  | uri (u r l : Nat) (body : Cps)         -- URI: `url(` in any case, plain unquoted body, `)`
  | urange (u h : Nat) (hs : Cps)          -- UNICODE-RANGE: `U+`, 1-6 hex digits or `?`
  | cmt (body : Cps)                       -- COMMENT: `/*`, a body in which no `*/` ends, `*/`
  | cdc                                    -- CDC `-->`
  | strI (q : Nat) (its : List SItem)      -- STRING with escapes / line continuations: quote, items, quote
  | identD (n c : Nat) (cs : Cps)          -- IDENT that starts with one or two hyphens
  | uriQ (u r l : Nat) (w1 : Cps) (q : Nat) (its : List SItem) (w2 : Cps)   -- URI, quoted: url( ws? string ws? )
  | identU (u : Nat) (cs : Cps)            -- IDENT that starts with `u` / `U`
  | numF (sg ip : Cps) (d : Nat) (ds : Cps)   -- NUMBER with a fraction: sign? digits* `.` digits+
  | numS (sg : Cps) (d : Nat) (ds : Cps)   -- NUMBER, integer with optional sign
  | pctG (sg : Cps) (b : NumBody)          -- PERCENTAGE with optional sign / fraction
  | dimG (sg : Cps) (b : NumBody) (c : Nat) (cs : Cps)   -- DIMENSION with optional sign / fraction, plain unit
  | urangeI (u h : Nat) (hs : Cps) (h2 : Nat) (hs2 : Cps)   -- UNICODE-RANGE interval `U+0-7F`

def Lex2.text : Lex2 → Cps
  | .old t => t.text
  | .str q body => q :: body ++ [q]
  | .fn c cs => c :: cs ++ [40]
  | .uri u r l body => u :: r :: l :: 40 :: (body ++ [41])
  | .urange u h hs => u :: 43 :: h :: hs
  | .cmt body => 47 :: 42 :: body ++ [42, 47]
  | .cdc => cdcText
  | .strI q its => q :: flat its ++ [q]
  | .identD n c cs => dashes n ++ c :: cs
  | .identU u cs => u :: cs
  | .numF sg ip d ds => sg ++ (ip ++ 46 :: d :: ds)
  | .numS sg d ds => sg ++ d :: ds
  | .pctG sg b => sg ++ (b.text ++ [37])
  | .dimG sg b c cs => sg ++ (b.text ++ c :: cs)
  | .urangeI u h hs h2 hs2 => u :: 43 :: (h :: hs ++ 45 :: h2 :: hs2)
  | .uriQ u r l w1 q its w2 => u :: r :: l :: 40 :: (w1 ++ (q :: (flat its ++ q :: (w2 ++ [41]))))

def Lex2.typ : Lex2 → String
  | .old t => t.typ
  | .str _ _ => "STRING"
  | .fn _ _ => "FUNCTION"
  | .uri _ _ _ _ => "URI"
  | .urange _ _ _ => "UNICODE-RANGE"
  | .cmt _ => "COMMENT"
  | .cdc => "CDC"
  | .strI _ _ => "STRING"
  | .identD _ _ _ => "IDENT"
  | .identU _ _ => "IDENT"
  | .numF _ _ _ _ => "NUMBER"
  | .numS _ _ _ => "NUMBER"
  | .pctG _ _ => "PERCENTAGE"
  | .dimG _ _ _ _ => "DIMENSION"
  | .urangeI _ _ _ _ _ => "UNICODE-RANGE"
  | .uriQ _ _ _ _ _ _ _ => "URI"

/-- the expected token value: the text itself, except for strings with escapes (one-pass decoding) -/
def Lex2.value : Lex2 → Cps
  | .strI q its => stringValue (q :: flat its ++ [q])
  | .uriQ u r l w1 q its w2 => stringValue (u :: r :: l :: 40 :: (w1 ++ (q :: (flat its ++ q :: (w2 ++ [41])))))
  | t => t.text

def Lex2.WF : Lex2 → Prop
  | .old t => t.WF
  | .str q body => (q = 34 ∨ q = 39) ∧ ∀ x ∈ body, ordinary q x = true
  | .fn c cs => inR identStart c = true ∧ (∀ x ∈ cs, inR identRest x = true) ∧ pyLower (c :: cs) ≠ andWord
  | .uri u r l body => IsU u ∧ IsR r ∧ IsL l ∧ ∀ x ∈ body, inR uriPlain x = true
  | .urange u h hs => IsU u ∧ (∀ x ∈ h :: hs, inR hexq x = true) ∧ (h :: hs).length ≤ 6
  | .cmt body => firstClose (body ++ [42]) = none
  | .cdc => True
  | .strI q its => (q = 34 ∨ q = 39) ∧ ∀ i ∈ its, i.WF q
  | .identD n c cs => (n = 1 ∨ n = 2) ∧ inR nameStart c = true ∧ ∀ x ∈ cs, inR identRest x = true
  | .identU u cs => IsU u ∧ ∀ x ∈ cs, inR identRest x = true
  | .numF sg ip d ds => IsSign sg ∧ (∀ c ∈ ip, isDigit c = true) ∧ ∀ c ∈ d :: ds, isDigit c = true
  | .numS sg d ds => IsSign sg ∧ ∀ c ∈ d :: ds, isDigit c = true
  | .pctG sg b => IsSign sg ∧ b.WF
  | .dimG sg b c cs => IsSign sg ∧ b.WF ∧ inR identStart c = true ∧ ∀ x ∈ cs, inR identRest x = true
  | .urangeI u h hs h2 hs2 => IsU u ∧ (∀ x ∈ h :: hs, inR hexq x = true) ∧ (h :: hs).length ≤ 6 ∧
      (∀ x ∈ h2 :: hs2, inR hexOnly x = true) ∧ (h2 :: hs2).length ≤ 6
  | .uriQ u r l w1 q its w2 => IsU u ∧ IsR r ∧ IsL l ∧ (∀ x ∈ w1, isWsC x = true) ∧ (q = 34 ∨ q = 39) ∧
      (∀ i ∈ its, i.WF q) ∧ ∀ x ∈ w2, isWsC x = true

/-- the lexemes joined by single spaces -/
def render2 : List Lex2 → Cps
  | [] => []
  | [t] => t.text
  | t :: u :: ts => t.text ++ 32 :: render2 (u :: ts)

/-- all (type, value) pairs, comments included: the tokens with an S token between neighbours -/
def expectedAll : List Lex2 → List (String × Cps)
  | [] => []
  | [t] => [(t.typ, t.value)]
  | t :: u :: ts => (t.typ, t.value) :: ("S", [32]) :: expectedAll (u :: ts)

theorem Lex.typ_ne_comment (t : Lex) (h : t.WF) : (t.typ != "COMMENT") = true := by
  cases t with
  | num d ds => show (_ != "COMMENT") = true; simp only [Lex.typ]; decide
  | ident c cs => show (_ != "COMMENT") = true; simp only [Lex.typ]; decide
  | fixed name w k =>
    have hmem : (name, w, k) ∈ fixedLexemes := h
    have htab : ∀ e ∈ fixedLexemes, (e.1 != "COMMENT") = true := by decide
    exact htab _ hmem
  | fast c => show (_ != "COMMENT") = true; simp only [Lex.typ]; decide
  | pct d ds => show (_ != "COMMENT") = true; simp only [Lex.typ]; decide
  | dim d ds c cs => show (_ != "COMMENT") = true; simp only [Lex.typ]; decide
  | hash n ns => show (_ != "COMMENT") = true; simp only [Lex.typ]; decide
  | atkw c cs => exact atType_not_comment _

theorem ordinary_ne92 (q x : Nat) (h : ordinary q x = true) : x ≠ 92 := by
  intro e; subst e; simp [ordinary] at h

theorem ne92_of_inR (cs : List (Nat × Nat)) (hcs : clsFails false [(92, 92)] cs = true) (x : Nat)
    (h : inR cs x = true) : x ≠ 92 := by
  intro e
  have := clsFails_sound false _ cs x hcs h
  rw [e] at this; revert this; decide

theorem not_fast_pt (c : Nat) (h : (fastChars.all fun f => f != c) = true) : fastChars.contains c = false := by
  apply Bool.eq_false_iff.mpr
  intro hf
  have hmem : c ∈ fastChars := by simpa using hf
  have := List.all_eq_true.mp h c hmem
  simp at this

theorem lex2_step (doC : Bool) (t : Lex2) (h : t.WF) (stop : Cps) (hs : Sep stop) (fuel line col : Nat) :
    ∃ line' col', loop false doC (fuel + 1) (t.text ++ stop) line col =
      Res.cons ⟨t.typ, t.value, line, col, t.text, t.text, doC || t.typ != "COMMENT"⟩
        (loop false doC fuel stop line' col') := by
  cases t with
  | old t =>
    obtain ⟨l', c', hstep⟩ := lex_step doC t h stop hs fuel line col
    refine ⟨l', c', ?_⟩
    have : (doC || t.typ != "COMMENT") = true := by rw [Lex.typ_ne_comment t h]; simp
    simp only [Lex2.text, Lex2.typ, Lex2.value, this]
    exact hstep
  | str q body =>
    obtain ⟨hq, hb⟩ := h
    have hq92 : q ≠ 92 := by rcases hq with rfl | rfl <;> decide
    apply loop_step2 doC fuel (q :: body ++ [q]) stop line col "STRING" (by simp)
    · intro c t e; simp only [List.cons_append, List.cons.injEq] at e; obtain ⟨rfl, _⟩ := e
      rcases hq with rfl | rfl <;> decide
    · have := scan_string_plain doC q hq body stop hb
      simpa [List.append_assoc] using this
    · apply valueOf_clean _ _ _ (by decide)
      intro x hx
      simp only [List.cons_append, List.mem_cons, List.mem_append, List.mem_nil_iff, or_false] at hx
      rcases hx with rfl | hx | rfl
      · exact hq92
      · exact ordinary_ne92 q x (hb x hx)
      · exact hq92
  | fn c cs =>
    obtain ⟨hc, hcs, hand⟩ := h
    apply loop_step2 doC fuel (c :: cs ++ [40]) stop line col "FUNCTION" (by simp)
    · intro c' t e; simp only [List.cons_append, List.cons.injEq] at e; obtain ⟨rfl, _⟩ := e
      exact not_fast_of_ranges identStart (by decide) _ hc
    · have := scan_function doC c cs stop hc hcs hand
      simpa [List.append_assoc] using this
    · apply valueOf_unesc _ _ _ (by decide) (by decide)
      intro x hx
      simp only [List.cons_append, List.mem_cons, List.mem_append, List.mem_nil_iff, or_false] at hx
      rcases hx with rfl | hx | rfl
      · exact ne92_of_inR identStart (by decide) _ hc
      · exact ne92_of_inR identRest (by decide) _ (hcs x hx)
      · decide
  | uri u r l body =>
    obtain ⟨hu, hr, hl, hb⟩ := h
    apply loop_step2 doC fuel (u :: r :: l :: 40 :: (body ++ [41])) stop line col "URI" (by simp)
    · intro c t e; simp only [List.cons.injEq] at e; obtain ⟨rfl, _⟩ := e
      rcases hu with rfl | rfl <;> decide
    · have := scan_uri_plain doC u r l hu hr hl body stop hb
      simpa [List.append_assoc] using this
    · apply valueOf_clean _ _ _ (by decide)
      intro x hx
      simp only [List.mem_cons, List.mem_append, List.mem_nil_iff, or_false] at hx
      rcases hx with rfl | rfl | rfl | rfl | hx | rfl
      · rcases hu with rfl | rfl <;> decide
      · rcases hr with rfl | rfl <;> decide
      · rcases hl with rfl | rfl <;> decide
      · decide
      · exact ne92_of_inR uriPlain (by decide) _ (hb x hx)
      · decide
  | urange u h0 hs0 =>
    obtain ⟨hu, hh, hlen⟩ := h
    apply loop_step2 doC fuel (u :: 43 :: h0 :: hs0) stop line col "UNICODE-RANGE" (by simp)
    · intro c t e; simp only [List.cons.injEq] at e; obtain ⟨rfl, _⟩ := e
      rcases hu with rfl | rfl <;> decide
    · have := scan_urange doC u h0 hs0 stop hu hh hlen hs
      simpa using this
    · apply valueOf_unesc _ _ _ (by decide) (by decide)
      intro x hx
      simp only [List.mem_cons] at hx
      rcases hx with rfl | rfl | hx
      · rcases hu with rfl | rfl <;> decide
      · decide
      · exact ne92_of_inR hexq (by decide) _ (hh x (by simpa using hx))
  | cmt body =>
    apply loop_step2 doC fuel (47 :: 42 :: body ++ [42, 47]) stop line col "COMMENT" (by simp)
    · intro c t e; simp only [List.cons_append, List.cons.injEq] at e; obtain ⟨rfl, _⟩ := e; decide
    · have := scan_comment_general doC body stop h
      simpa [List.append_assoc] using this
    · exact valueOf_plain _ _ _ (by decide) (by decide)
  | cdc =>
    apply loop_step2 doC fuel cdcText stop line col "CDC" (by decide)
    · intro c t e; simp only [cdcText, List.cons.injEq] at e; obtain ⟨rfl, _⟩ := e; decide
    · exact scan_cdc doC stop
    · exact valueOf_plain _ _ _ (by decide) (by decide)
  | strI q its =>
    obtain ⟨hq, hi⟩ := h
    apply loop_step2 doC fuel (q :: flat its ++ [q]) stop line col "STRING" (by simp)
    · intro c t e; simp only [List.cons_append, List.cons.injEq] at e; obtain ⟨rfl, _⟩ := e
      rcases hq with rfl | rfl <;> decide
    · have := scan_string_items doC q hq its hi stop
      simpa [List.append_assoc] using this
    · have hu : unescTypes.contains "STRING" = true := by decide
      have hc : cleanTypes.contains "STRING" = true := by decide
      simp only [valueOf, hu, hc, if_true, subS_eq_stringValue, Lex2.value]
  | uriQ u r l w1 q its w2 =>
    obtain ⟨hu, hr, hl, hw1, hq, hi, hw2⟩ := h
    apply loop_step2 doC fuel (u :: r :: l :: 40 :: (w1 ++ (q :: (flat its ++ q :: (w2 ++ [41]))))) stop line col
      "URI" (by simp)
    · intro c t e; simp only [List.cons.injEq] at e; obtain ⟨rfl, _⟩ := e
      rcases hu with rfl | rfl <;> decide
    · have := scan_uri_quoted doC u r l hu hr hl w1 w2 q hq its hw1 hw2 hi stop
      have hlen : (u :: r :: l :: 40 :: (w1 ++ (q :: (flat its ++ q :: (w2 ++ [41]))))).length =
          4 + (w1.length + (((flat its).length + 2) + (w2.length + 1))) := by
        simp only [List.length_cons, List.length_append, List.length_nil]; omega
      rw [hlen]
      simpa [List.append_assoc] using this
    · have hu' : unescTypes.contains "URI" = true := by decide
      have hc : cleanTypes.contains "URI" = true := by decide
      simp only [valueOf, hu', hc, if_true, subS_eq_stringValue, Lex2.value]
  | urangeI u h0 hs0 h2 hs2 =>
    obtain ⟨hu, hh, hlen, hh2, hlen2⟩ := h
    apply loop_step2 doC fuel (u :: 43 :: (h0 :: hs0 ++ 45 :: h2 :: hs2)) stop line col "UNICODE-RANGE" (by simp)
    · intro c t e; simp only [List.cons.injEq] at e; obtain ⟨rfl, _⟩ := e
      rcases hu with rfl | rfl <;> decide
    · have := scan_urange_interval doC u h0 hs0 h2 hs2 stop hu hh hlen hh2 hlen2 hs
      have hl : (u :: 43 :: (h0 :: hs0 ++ 45 :: h2 :: hs2)).length =
          (h0 :: hs0).length + 2 + (1 + (h2 :: hs2).length) := by
        simp only [List.length_cons, List.length_append]; omega
      rw [hl]
      simpa [List.append_assoc] using this
    · apply valueOf_unesc _ _ _ (by decide) (by decide)
      intro x hx
      simp only [List.mem_cons, List.mem_append] at hx
      rcases hx with rfl | rfl | (rfl | hx) | rfl | rfl | hx
      · rcases hu with rfl | rfl <;> decide
      · decide
      · exact ne92_of_inR hexq (by decide) _ (hh _ (by simp))
      · exact ne92_of_inR hexq (by decide) _ (hh x (List.mem_cons_of_mem _ hx))
      · decide
      · exact ne92_of_inR hexOnly (by decide) _ (hh2 _ (by simp))
      · exact ne92_of_inR hexOnly (by decide) _ (hh2 x (List.mem_cons_of_mem _ hx))
  | pctG sg b =>
    obtain ⟨hsg, hb⟩ := h
    obtain ⟨_, hsgc⟩ := isSign_len sg hsg
    obtain ⟨hchars, c0, b', hb0, hc0⟩ := numBody_chars b hb
    have hne : sg ++ (b.text ++ [37]) ≠ [] := by rw [hb0]; simp
    apply loop_step2 doC fuel (sg ++ (b.text ++ [37])) stop line col "PERCENTAGE" hne
    · intro c t e
      have hin : inR numChars c = true := by
        cases sg with
        | nil => rw [hb0] at e; simp only [List.nil_append, List.cons_append, List.cons.injEq] at e
                 rw [← e.1]; exact dotDigit_numChars c0 hc0
        | cons a r => simp only [List.cons_append, List.cons.injEq] at e; rw [← e.1]; exact hsgc a (by simp)
      exact not_fast_of_ranges numChars (by decide) c hin
    · have := scan_percentage_gen doC sg b stop hsg hb
      have hl : (sg ++ (b.text ++ [37])).length = sg.length + b.text.length + 1 := by
        simp only [List.length_append, List.length_cons, List.length_nil]; omega
      rw [hl]
      simpa [List.append_assoc] using this
    · exact valueOf_plain _ _ _ (by decide) (by decide)
  | dimG sg b c cs =>
    obtain ⟨hsg, hb, hc, hcs⟩ := h
    obtain ⟨_, hsgc⟩ := isSign_len sg hsg
    obtain ⟨hchars, c0, b', hb0, hc0⟩ := numBody_chars b hb
    have hne : sg ++ (b.text ++ c :: cs) ≠ [] := by rw [hb0]; simp
    apply loop_step2 doC fuel (sg ++ (b.text ++ c :: cs)) stop line col "DIMENSION" hne
    · intro c' t e
      have hin : inR numChars c' = true := by
        cases sg with
        | nil => rw [hb0] at e; simp only [List.nil_append, List.cons_append, List.cons.injEq] at e
                 rw [← e.1]; exact dotDigit_numChars c0 hc0
        | cons a r => simp only [List.cons_append, List.cons.injEq] at e; rw [← e.1]; exact hsgc a (by simp)
      exact not_fast_of_ranges numChars (by decide) c' hin
    · have := scan_dimension_gen doC sg b c cs stop hsg hb hc hcs hs
      have hl : (sg ++ (b.text ++ c :: cs)).length = sg.length + b.text.length + (c :: cs).length := by
        simp only [List.length_append, List.length_cons]; omega
      rw [hl]
      simpa [List.append_assoc] using this
    · apply valueOf_unesc _ _ _ (by decide) (by decide)
      intro x hx
      simp only [List.mem_append, List.mem_cons] at hx
      rcases hx with hx | hx | rfl | hx
      · exact ne92_of_inR numChars (by decide) _ (hsgc x hx)
      · exact ne92_of_inR dotDigit (by decide) _ (hchars x hx)
      · exact ne92_of_inR identStart (by decide) _ hc
      · exact ne92_of_inR identRest (by decide) _ (hcs x hx)
  | numS sg d ds =>
    obtain ⟨hsg, hd⟩ := h
    obtain ⟨_, hsgc⟩ := isSign_len sg hsg
    have hne : sg ++ d :: ds ≠ [] := by simp
    have hchars : ∀ x ∈ sg ++ d :: ds, inR numChars x = true := by
      intro x hx
      rcases List.mem_append.mp hx with hx | hx
      · exact hsgc x hx
      · have hy := hd x hx
        simp only [isDigit, Bool.and_eq_true, decide_eq_true_eq] at hy
        simp [inR, numChars]; omega
    apply loop_step2 doC fuel (sg ++ d :: ds) stop line col "NUMBER" hne
    · intro c t e
      exact not_fast_of_ranges numChars (by decide) c (hchars c (by rw [e]; simp))
    · have := scan_number_int doC sg d ds stop hsg hd hs
      have hl : (sg ++ d :: ds).length = sg.length + (d :: ds).length := by simp
      rw [hl]
      simpa [List.append_assoc] using this
    · exact valueOf_plain _ _ _ (by decide) (by decide)
  | numF sg ip d ds =>
    obtain ⟨hsg, hip, hd⟩ := h
    obtain ⟨_, hsgc⟩ := isSign_len sg hsg
    have hne : sg ++ (ip ++ 46 :: d :: ds) ≠ [] := by simp
    have hchars : ∀ x ∈ sg ++ (ip ++ 46 :: d :: ds), inR numChars x = true := by
      intro x hx
      have hdig : ∀ y, isDigit y = true → inR numChars y = true := by
        intro y hy
        simp only [isDigit, Bool.and_eq_true, decide_eq_true_eq] at hy
        simp [inR, numChars]; omega
      simp only [List.mem_append, List.mem_cons] at hx
      rcases hx with hx | hx | rfl | rfl | hx
      · exact hsgc x hx
      · exact hdig x (hip x hx)
      · decide
      · exact hdig _ (hd _ (by simp))
      · exact hdig x (hd x (List.mem_cons_of_mem _ hx))
    apply loop_step2 doC fuel (sg ++ (ip ++ 46 :: d :: ds)) stop line col "NUMBER" hne
    · intro c t e
      have := hchars c (by rw [e]; simp)
      exact not_fast_of_ranges numChars (by decide) c this
    · have := scan_number_frac doC sg ip d ds stop hsg hip hd hs
      have hl : (sg ++ (ip ++ 46 :: d :: ds)).length = sg.length + (ip.length + (1 + (1 + ds.length))) := by
        simp only [List.length_append, List.length_cons]; omega
      rw [hl]
      simpa [List.append_assoc] using this
    · exact valueOf_plain _ _ _ (by decide) (by decide)
  | identU u cs =>
    obtain ⟨hu, hcs⟩ := h
    apply loop_step2 doC fuel (u :: cs) stop line col "IDENT" (by simp)
    · intro c t e; simp only [List.cons.injEq] at e; obtain ⟨rfl, _⟩ := e
      rcases hu with rfl | rfl <;> decide
    · exact scan_ident_u doC u hu cs stop hcs hs
    · apply valueOf_ident
      intro x hx
      rcases List.mem_cons.mp hx with rfl | hx
      · rcases hu with rfl | rfl <;> decide
      · exact ne92_of_inR identRest (by decide) _ (hcs x hx)
  | identD n c cs =>
    obtain ⟨hn, hc, hcs⟩ := h
    have hd45 : ∀ x ∈ dashes n, x = 45 := by
      rcases hn with rfl | rfl <;> simp [dashes]
    have hne : dashes n ++ c :: cs ≠ [] := by simp
    apply loop_step2 doC fuel (dashes n ++ c :: cs) stop line col "IDENT" hne
    · intro c' t e
      have : c' = 45 := by
        rcases hn with rfl | rfl <;> simp [dashes] at e <;> exact e.1.symm
      rw [this]; decide
    · have := scan_ident_dash doC n hn c cs stop hc hcs hs
      simpa [List.append_assoc, dashes_length] using this
    · apply valueOf_ident
      intro x hx
      simp only [List.mem_append, List.mem_cons] at hx
      rcases hx with hx | rfl | hx
      · rw [hd45 x hx]; decide
      · exact ne92_of_inR nameStart (by decide) _ hc
      · exact ne92_of_inR identRest (by decide) _ (hcs x hx)

theorem lex2_head (t : Lex2) (h : t.WF) : ∃ c w, t.text = c :: w ∧ inR lexHeads c = true := by
  cases t with
  | old t => exact lex_head t h
  | str q body =>
    refine ⟨q, body ++ [q], rfl, ?_⟩
    rcases h.1 with rfl | rfl <;> decide
  | fn c cs =>
    refine ⟨c, cs ++ [40], rfl, ?_⟩
    have := h.1
    simp only [inR, identStart, List.any_cons, List.any_nil, Bool.or_false, Bool.or_eq_true, Bool.and_eq_true,
      decide_eq_true_eq] at this
    simp [inR, lexHeads]; omega
  | uri u r l body =>
    refine ⟨u, r :: l :: 40 :: (body ++ [41]), rfl, ?_⟩
    rcases h.1 with rfl | rfl <;> decide
  | urange u h0 hs0 =>
    refine ⟨u, 43 :: h0 :: hs0, rfl, ?_⟩
    rcases h.1 with rfl | rfl <;> decide
  | cmt body => exact ⟨47, 42 :: body ++ [42, 47], rfl, by decide⟩
  | cdc => exact ⟨45, [45, 62], rfl, by decide⟩
  | strI q its =>
    refine ⟨q, flat its ++ [q], rfl, ?_⟩
    rcases h.1 with rfl | rfl <;> decide
  | uriQ u r l w1 q its w2 =>
    refine ⟨u, r :: l :: 40 :: (w1 ++ (q :: (flat its ++ q :: (w2 ++ [41])))), rfl, ?_⟩
    rcases h.1 with rfl | rfl <;> decide
  | identU u cs =>
    refine ⟨u, cs, rfl, ?_⟩
    rcases h.1 with rfl | rfl <;> decide
  | pctG sg b =>
    obtain ⟨hsg, hb⟩ := h
    obtain ⟨_, c0, b', hb0, hc0⟩ := numBody_chars b hb
    have h0 : inR lexHeads c0 = true := by
      simp only [inR, dotDigit, List.any_cons, List.any_nil, Bool.or_false, Bool.or_eq_true, Bool.and_eq_true,
        decide_eq_true_eq] at hc0
      simp [inR, lexHeads]; omega
    rcases hsg with rfl | rfl | rfl
    · exact ⟨c0, b' ++ [37], by simp [Lex2.text, hb0], h0⟩
    · exact ⟨43, b.text ++ [37], rfl, by decide⟩
    · exact ⟨45, b.text ++ [37], rfl, by decide⟩
  | dimG sg b c cs =>
    obtain ⟨hsg, hb, _, _⟩ := h
    obtain ⟨_, c0, b', hb0, hc0⟩ := numBody_chars b hb
    have h0 : inR lexHeads c0 = true := by
      simp only [inR, dotDigit, List.any_cons, List.any_nil, Bool.or_false, Bool.or_eq_true, Bool.and_eq_true,
        decide_eq_true_eq] at hc0
      simp [inR, lexHeads]; omega
    rcases hsg with rfl | rfl | rfl
    · exact ⟨c0, b' ++ c :: cs, by simp [Lex2.text, hb0], h0⟩
    · exact ⟨43, b.text ++ c :: cs, rfl, by decide⟩
    · exact ⟨45, b.text ++ c :: cs, rfl, by decide⟩
  | numS sg d ds =>
    obtain ⟨hsg, hd⟩ := h
    have hd0 := hd d (by simp)
    simp only [isDigit, Bool.and_eq_true, decide_eq_true_eq] at hd0
    rcases hsg with rfl | rfl | rfl
    · exact ⟨d, ds, rfl, by simp [inR, lexHeads]; omega⟩
    · exact ⟨43, d :: ds, rfl, by decide⟩
    · exact ⟨45, d :: ds, rfl, by decide⟩
  | numF sg ip d ds =>
    obtain ⟨hsg, hip, hd⟩ := h
    have hdig : ∀ y, isDigit y = true → inR lexHeads y = true := by
      intro y hy
      simp only [isDigit, Bool.and_eq_true, decide_eq_true_eq] at hy
      simp [inR, lexHeads]; omega
    rcases hsg with rfl | rfl | rfl
    · cases ip with
      | nil => exact ⟨46, d :: ds, rfl, by decide⟩
      | cons c t => exact ⟨c, t ++ 46 :: d :: ds, rfl, hdig c (hip c (by simp))⟩
    · exact ⟨43, ip ++ 46 :: d :: ds, rfl, by decide⟩
    · exact ⟨45, ip ++ 46 :: d :: ds, rfl, by decide⟩
  | urangeI u h0 hs0 h2 hs2 =>
    refine ⟨u, 43 :: (h0 :: hs0 ++ 45 :: h2 :: hs2), rfl, ?_⟩
    rcases h.1 with rfl | rfl <;> decide
  | identD n c cs =>
    rcases h.1 with rfl | rfl
    · exact ⟨45, c :: cs, rfl, by decide⟩
    · exact ⟨45, 45 :: c :: cs, rfl, by decide⟩

theorem render2_head (t : Lex2) (ts : List Lex2) (h : t.WF) :
    ∃ c w, render2 (t :: ts) = c :: w ∧ inR lexHeads c = true := by
  obtain ⟨c, w, hw, hc⟩ := lex2_head t h
  cases ts with
  | nil => exact ⟨c, w, hw, hc⟩
  | cons u us => exact ⟨c, w ++ 32 :: render2 (u :: us), by simp [render2, hw], hc⟩

theorem lex2_found_value (t : Lex2) : t.typ = "FUNCTION" → t.text = t.value := by
  intro h
  cases t <;> first | rfl | exact absurd h (by simp only [Lex2.typ]; decide)

/-- every item is yielded unless it is a comment and comments are off -/
def EmitOK (doC : Bool) (it : Item) : Prop := it.emit = (doC || it.typ != "COMMENT")

theorem loop_lexemes2 (doC : Bool) : ∀ (ts : List Lex2), (∀ t ∈ ts, t.WF) → ∀ (fuel line col : Nat),
    (render2 ts).length < fuel →
      (loop false doC fuel (render2 ts) line col).items.map proj = expectedAll ts ∧
      ∀ it ∈ (loop false doC fuel (render2 ts) line col).items,
        EmitOK doC it ∧ (it.typ = "FUNCTION" → it.found = it.value) := by
  intro ts
  induction ts with
  | nil =>
    intro _ fuel line col _
    simp [render2, loop_nil_items, expectedAll]
  | cons t ts ih =>
    intro hwf fuel line col hf
    have ht : t.WF := hwf t (by simp)
    have hts : ∀ u ∈ ts, u.WF := fun u hu => hwf u (List.mem_cons_of_mem _ hu)
    obtain ⟨k, rfl⟩ : ∃ k, fuel = k + 1 := ⟨fuel - 1, by omega⟩
    cases ts with
    | nil =>
      obtain ⟨l', c', hstep⟩ := lex2_step doC t ht [] (Or.inl rfl) k line col
      simp only [List.append_nil] at hstep
      simp only [render2, hstep, Res.cons, loop_nil_items, expectedAll]
      simp [proj, EmitOK]
      exact lex2_found_value t
    | cons u us =>
      have hu : u.WF := hts u (by simp)
      obtain ⟨l1, c1, hstep⟩ := lex2_step doC t ht (32 :: render2 (u :: us)) (Or.inr ⟨_, rfl⟩) k line col
      obtain ⟨hc, hw, hhead, hin⟩ := render2_head u us hu
      have hlen : (render2 (u :: us)).length + 1 < k := by
        obtain ⟨c0, w0, hw0, _⟩ := lex2_head t ht
        simp only [render2, List.length_append, List.length_cons, hw0] at hf
        omega
      obtain ⟨k', rfl⟩ : ∃ k', k = k' + 1 := ⟨k - 1, by omega⟩
      obtain ⟨l2, c2, hsp⟩ := space_step doC (render2 (u :: us)) (Or.inr ⟨hc, hw, hhead, hin⟩) k' l1 c1
      have := ih hts k' l2 c2 (by omega)
      simp only [render2, hstep, hsp, Res.cons, expectedAll, List.map_cons, List.mem_cons]
      refine ⟨by simp [proj, this.1], ?_⟩
      intro it hit
      rcases hit with rfl | rfl | hit
      · exact ⟨rfl, lex2_found_value t⟩
      · exact ⟨by simp [EmitOK], fun _ => rfl⟩
      · exact this.2 it hit

/-- **a rendered lexeme list followed by a space is a closed prefix**: whatever text follows the space, the loop
yields the lexemes' tokens and continues on the tail (`tail` = nothing, or a space and ANY text) -/
theorem loop_lexemes2_tail (doC : Bool) : ∀ (ts : List Lex2), ts ≠ [] → (∀ t ∈ ts, t.WF) → ∀ (tail : Cps), Sep tail →
    ∀ (fuel line col : Nat), (render2 ts ++ tail).length < fuel →
    ∃ pre fuel' line' col', tail.length < fuel' ∧
      (loop false doC fuel (render2 ts ++ tail) line col).items =
        pre ++ (loop false doC fuel' tail line' col').items ∧
      pre.map proj = expectedAll ts ∧ spans pre = render2 ts ∧ ∀ it ∈ pre, EmitOK doC it := by
  intro ts
  induction ts with
  | nil => intro h; exact absurd rfl h
  | cons t ts ih =>
    intro _ hwf tail htail fuel line col hf
    have ht : t.WF := hwf t (by simp)
    have hts : ∀ u ∈ ts, u.WF := fun u hu => hwf u (List.mem_cons_of_mem _ hu)
    obtain ⟨k, rfl⟩ : ∃ k, fuel = k + 1 := ⟨fuel - 1, by omega⟩
    obtain ⟨c0, w0, hw0, _⟩ := lex2_head t ht
    cases ts with
    | nil =>
      obtain ⟨l', c', hstep⟩ := lex2_step doC t ht tail htail k line col
      refine ⟨[⟨t.typ, t.value, line, col, t.text, t.text, doC || t.typ != "COMMENT"⟩], k, l', c', ?_, ?_, ?_, ?_, ?_⟩
      · simp only [render2, List.length_append, hw0, List.length_cons] at hf; omega
      · simp only [render2, hstep, Res.cons]; rfl
      · simp [expectedAll, proj]
      · simp [render2]
      · intro it hit; simp only [List.mem_singleton] at hit; rw [hit]; rfl
    | cons u us =>
      have hu : u.WF := hts u (by simp)
      have htext : render2 (t :: u :: us) ++ tail = t.text ++ 32 :: (render2 (u :: us) ++ tail) := by
        simp [render2, List.append_assoc]
      rw [htext] at hf ⊢
      obtain ⟨l1, c1, hstep⟩ := lex2_step doC t ht (32 :: (render2 (u :: us) ++ tail)) (Or.inr ⟨_, rfl⟩) k line col
      obtain ⟨hc, hw, hhead, hin⟩ := render2_head u us hu
      have hlen : (render2 (u :: us) ++ tail).length + 1 < k := by
        simp only [List.length_append, List.length_cons, hw0] at hf ⊢
        omega
      obtain ⟨k', rfl⟩ : ∃ k', k = k' + 1 := ⟨k - 1, by omega⟩
      obtain ⟨l2, c2, hsp⟩ := space_step doC (render2 (u :: us) ++ tail)
        (Or.inr ⟨hc, hw ++ tail, by rw [hhead]; rfl, hin⟩) k' l1 c1
      obtain ⟨pre', fuel', l', c', hf', hitems, hmap, hspans, hemit⟩ :=
        ih (by simp) hts tail htail k' l2 c2 (by omega)
      refine ⟨⟨t.typ, t.value, line, col, t.text, t.text, doC || t.typ != "COMMENT"⟩ ::
        ⟨"S", [32], l1, c1, [32], [32], true⟩ :: pre', fuel', l', c', hf', ?_, ?_, ?_, ?_⟩
      · simp only [hstep, hsp, Res.cons, hitems, List.cons_append]
      · simp [expectedAll, proj, hmap]
      · simp [render2, hspans]
      · intro it hit
        simp only [List.mem_cons] at hit
        rcases hit with rfl | rfl | hit
        · rfl
        · simp [EmitOK]
        · exact hemit it hit

theorem tokensAt_lexemes_tail (doC : Bool) (ts : List Lex2) (hne : ts ≠ []) (h : ∀ t ∈ ts, t.WF) (tail : Cps)
    (htail : Sep tail) (line col : Nat) :
    ∃ pre line' col', tokensAt doC (render2 ts ++ tail) line col = pre ++ tokensAt doC tail line' col' ∧
      pre.map proj = expectedAll ts ∧ spans pre = render2 ts ∧ ∀ it ∈ pre, EmitOK doC it := by
  obtain ⟨pre, fuel', l', c', hf', hitems, hmap, hspans, hemit⟩ :=
    loop_lexemes2_tail doC ts hne h tail htail ((render2 ts ++ tail).length + 1) line col (Nat.lt_succ_self _)
  refine ⟨pre, l', c', ?_, hmap, hspans, hemit⟩
  unfold tokensAt
  rw [hitems, loop_fuel false doC fuel' tail l' c' (tail.length + 1) hf' (Nat.lt_succ_self _)]

theorem filter_emit_proj (doC : Bool) : ∀ (items : List Item), (∀ it ∈ items, EmitOK doC it) →
    (items.filter (·.emit)).map proj = (items.map proj).filter (fun p => doC || p.1 != "COMMENT") := by
  intro items
  induction items with
  | nil => intro _; rfl
  | cons it rest ih =>
    intro h
    have hit : it.emit = (doC || it.typ != "COMMENT") := h it (by simp)
    have ih' := ih (fun x hx => h x (List.mem_cons_of_mem _ hx))
    simp only [List.filter_cons, List.map_cons, proj, hit]
    cases hb : (doC || it.typ != "COMMENT")
    · simpa [proj] using ih'
    · simpa [proj] using ih'

theorem render2_start (ts : List Lex2) (h : ∀ t ∈ ts, t.WF) :
    HeadIn (fun c => inR lexHeads c = true) (render2 ts) := by
  cases ts with
  | nil => left; rfl
  | cons t us =>
    obtain ⟨c, w, hw, hc⟩ := render2_head t us (h t (by simp))
    right; exact ⟨c, w, hw, hc⟩

theorem tokenize_lexemes2 (doC : Bool) (ts : List Lex2) (h : ∀ t ∈ ts, t.WF)
    (hcs : hasAt (render2 ts) charsetStart = false) :
    (tokenize (render2 ts) false doC).tokens.map proj =
      (expectedAll ts).filter (fun p => doC || p.1 != "COMMENT") := by
  have hstart := render2_start ts h
  have hbom : bomRe.first (render2 ts) = none := by
    apply first_none_of_ms_nil
    exact ms_nil_of_headIn (cs := lexHeads) (by decide) (by decide) hstart
  obtain ⟨hmap, hemit⟩ := loop_lexemes2 doC ts h ((render2 ts).length + 1) 1 1 (Nat.lt_succ_self _)
  simp only [Res.tokens, tokenize_plain doC _ hbom hcs, tokensAt]
  rw [filter_emit_proj doC _ (fun it h => (hemit it h).1), hmap]

/-! ## the well-formedness predicates are decidable (the driver evaluates them on generated lexeme lists) -/

instance lexWFDecidable (t : Lex) : Decidable t.WF := by
  cases t <;> simp only [Lex.WF] <;> infer_instance

instance lex2WFDecidable (t : Lex2) : Decidable t.WF := by
  cases t <;> simp only [Lex2.WF, IsU, IsR, IsL, IsSign] <;> infer_instance

end CssVerif.Tok
