import CssVerif.Model.Out
/-!
# Lemmas about the Python string operations of `Model/Out.lean`
-/
namespace CssVerif.Out
open CssVerif.Proto (Cps)

theorem stripWs_append (a b : Cps) : stripWs (a ++ b) = stripWs a ++ stripWs b := by
  simp [stripWs]

theorem stripWs_nil : stripWs [] = [] := rfl

theorem stripWs_of_allWs {s : Cps} (h : allWs s = true) : stripWs s = [] := by
  unfold stripWs allWs at *
  rw [List.filter_eq_nil_iff]
  intro a ha
  simp [List.all_eq_true.mp h a ha]

theorem allWs_iff_stripWs (s : Cps) : allWs s = true ↔ stripWs s = [] := by
  constructor
  · exact stripWs_of_allWs
  · intro h
    unfold stripWs at h
    unfold allWs
    rw [List.all_eq_true]
    intro a ha
    have := (List.filter_eq_nil_iff.mp h) a ha
    simpa using this

theorem stripWs_flatten (l : List Cps) : stripWs l.flatten = (l.map stripWs).flatten := by
  induction l with
  | nil => rfl
  | cons x t ih => simp [stripWs_append, ih]

theorem stripWs_idem (s : Cps) : stripWs (stripWs s) = stripWs s := by
  simp [stripWs]

theorem allWs_nil : allWs [] = true := rfl

theorem allWs_append (a b : Cps) : allWs (a ++ b) = (allWs a && allWs b) := by
  simp [allWs]

theorem allWs_space : allWs [32] = true := by decide

/-- `rep n s` of a whitespace string is whitespace -/
theorem allWs_rep (n : Nat) {s : Cps} (h : allWs s = true) : allWs (rep n s) = true := by
  induction n with
  | zero => rfl
  | succ k ih =>
    simp only [rep, List.replicate_succ, List.flatten_cons] at *
    rw [allWs_append, h, ih]; rfl

/-! ### `split` / `join` -/

theorem stripWs_joinWith {sep : Cps} (h : allWs sep = true) (l : List Cps) :
    stripWs (joinWith sep l) = (l.map stripWs).flatten := by
  induction l with
  | nil => rfl
  | cons x t ih =>
    cases t with
    | nil => simp [joinWith]
    | cons y t' =>
      simp only [joinWith, stripWs_append, stripWs_of_allWs h, List.map_cons, List.flatten_cons] at *
      rw [ih]; simp

/-- the fields of a split on a whitespace separator, with their white space deleted, are the text with its white
space deleted — for every state of the scanner whose pending skip covers white space only -/
theorem stripWs_splitGo (sep : Cps) (hne : sep ≠ []) (hs : allWs sep = true) :
    ∀ (s : Cps) (skip : Nat) (cur : Cps), allWs (s.take skip) = true →
      ((splitGo sep s skip cur).map stripWs).flatten = stripWs (cur.reverse ++ s)
  | [], skip, cur, _ => by simp [splitGo]
  | c :: t, skip + 1, cur, h => by
    have hc : isWs c = true := by
      have := h; simp [allWs] at this; exact this.1
    have ht : allWs (t.take skip) = true := by
      have := h; simp [allWs] at this; simp [allWs]; exact this.2
    rw [splitGo, stripWs_splitGo sep hne hs t skip cur ht]
    simp [stripWs, hc]
  | c :: t, 0, cur, _ => by
    rw [splitGo]
    split
    · rename_i hp
      -- `sep` is a prefix of `c :: t`: its characters, all white space, are what gets skipped
      obtain ⟨rest, hrest⟩ := List.isPrefixOf_iff_prefix.mp hp
      cases sep with
      | nil => exact absurd rfl hne
      | cons d sep' =>
        have hd : d = c := by simp at hrest; exact hrest.1
        have ht : t = sep' ++ rest := by simp at hrest; exact hrest.2.symm
        subst hd
        have hws : isWs d = true ∧ allWs sep' = true := by
          have := hs; simp [allWs] at this; simp [allWs]; exact this
        have hk : allWs (t.take (sep'.length + 1 - 1)) = true := by
          simp [ht, hws.2]
        simp only [List.map_cons, List.flatten_cons, List.length_cons]
        rw [stripWs_splitGo (d :: sep') hne hs t (sep'.length + 1 - 1) [] hk]
        simp [stripWs, hws.1]
    · rw [stripWs_splitGo sep hne hs t 0 (c :: cur) (by simp [allWs])]
      simp

theorem stripWs_splitOn (sep : Cps) (hne : sep ≠ []) (hs : allWs sep = true) (s : Cps) :
    ((splitOn sep s).map stripWs).flatten = stripWs s := by
  have := stripWs_splitGo sep hne hs s 0 [] (by simp [allWs])
  simpa [splitOn] using this

end CssVerif.Out
