import CssVerif.Lemmas.Validate
import CssVerif.Model.Css21Types
/-!
Templates: the language of a pattern built from small positive fold-closed classes, `*` of such a class,
concatenation, alternation and bounded repetition is a finite union of templates (`Css21.Template`), and the
match lengths of the pattern are exactly the prefixes matching one of them (`templates_spec`, `templatesE_spec`).
This generalises `Re.words_spec` (a word is a template of singleton `one` segments) by the atom `[class]*`.
-/
namespace CssVerif
open CssVerif.Validate CssVerif.Css21

namespace Css21

theorem tmatch_nil (s : Str) : tmatch [] s = true ↔ s = [] := by
  rw [tmatch]; simp

theorem tmatch_one_cons (ms : List Nat) (t : Template) (s : Str) :
    tmatch (.one ms :: t) s = true ↔ ∃ x r, s = x :: r ∧ ms.contains (foldc x) = true ∧ tmatch t r = true := by
  cases s with
  | nil => rw [tmatch]; simp
  | cons x r =>
    rw [tmatch, Bool.and_eq_true]
    constructor
    · rintro ⟨a, b⟩; exact ⟨x, r, rfl, a, b⟩
    · rintro ⟨x', r', e, a, b⟩; cases e; exact ⟨a, b⟩

theorem tmatch_many_nil (ms : List Nat) (t : Template) : tmatch (.many ms :: t) [] = tmatch t [] := by
  rw [tmatch]

theorem tmatch_many_cons (ms : List Nat) (t : Template) (x : Nat) (s : Str) :
    tmatch (.many ms :: t) (x :: s) =
      (tmatch t (x :: s) || (ms.contains (foldc x) && tmatch (.many ms :: t) s)) := by
  rw [tmatch]

/-- a template matches a concatenation iff the string splits accordingly -/
theorem tmatch_append : ∀ (t1 t2 : Template) (w : Str),
    tmatch (t1 ++ t2) w = true ↔ ∃ x y, w = x ++ y ∧ tmatch t1 x = true ∧ tmatch t2 y = true := by
  intro t1
  induction t1 with
  | nil =>
    intro t2 w
    simp only [List.nil_append]
    constructor
    · intro h; exact ⟨[], w, rfl, (tmatch_nil []).2 rfl, h⟩
    · rintro ⟨x, y, rfl, hx, hy⟩
      rw [(tmatch_nil x).1 hx]; exact hy
  | cons seg t ih =>
    intro t2 w
    cases seg with
    | one ms =>
      simp only [List.cons_append, tmatch_one_cons]
      constructor
      · rintro ⟨c, r, rfl, hc, hr⟩
        obtain ⟨x, y, rfl, hx, hy⟩ := (ih t2 r).1 hr
        exact ⟨c :: x, y, rfl, ⟨c, x, rfl, hc, hx⟩, hy⟩
      · rintro ⟨x, y, rfl, ⟨c, r, rfl, hc, hr⟩, hy⟩
        exact ⟨c, r ++ y, rfl, hc, (ih t2 (r ++ y)).2 ⟨r, y, rfl, hr, hy⟩⟩
    | many ms =>
      simp only [List.cons_append]
      induction w with
      | nil =>
        rw [tmatch_many_nil, ih t2 []]
        constructor
        · rintro ⟨x, y, e, hx, hy⟩
          have hx0 : x = [] := by cases x <;> simp_all
          subst hx0
          exact ⟨[], y, e, by rw [tmatch_many_nil]; exact hx, hy⟩
        · rintro ⟨x, y, e, hx, hy⟩
          have hx0 : x = [] := by cases x <;> simp_all
          subst hx0
          rw [tmatch_many_nil] at hx
          exact ⟨[], y, e, hx, hy⟩
      | cons c s ihw =>
        rw [tmatch_many_cons, Bool.or_eq_true, Bool.and_eq_true, ih t2 (c :: s), ihw]
        constructor
        · rintro (⟨x, y, e, hx, hy⟩ | ⟨hc, x, y, rfl, hx, hy⟩)
          · cases x with
            | nil => exact ⟨[], y, e, by rw [tmatch_many_nil]; exact hx, hy⟩
            | cons a x' =>
              simp only [List.cons_append, List.cons.injEq] at e
              obtain ⟨rfl, rfl⟩ := e
              exact ⟨c :: x', y, rfl, by rw [tmatch_many_cons, hx]; rfl, hy⟩
          · exact ⟨c :: x, y, rfl, by rw [tmatch_many_cons, hc, hx]; simp, hy⟩
        · rintro ⟨x, y, e, hx, hy⟩
          cases x with
          | nil =>
            rw [tmatch_many_nil] at hx
            exact Or.inl ⟨[], y, e, hx, hy⟩
          | cons a x' =>
            simp only [List.cons_append, List.cons.injEq] at e
            obtain ⟨rfl, rfl⟩ := e
            rw [tmatch_many_cons, Bool.or_eq_true, Bool.and_eq_true] at hx
            rcases hx with hx | ⟨hc, hx⟩
            · exact Or.inl ⟨c :: x', y, rfl, hx, hy⟩
            · exact Or.inr ⟨hc, x', y, rfl, hx, hy⟩

theorem tmatch_many_all (ms : List Nat) : ∀ w : Str,
    tmatch [.many ms] w = true ↔ ∀ x ∈ w, ms.contains (foldc x) = true := by
  intro w
  induction w with
  | nil => rw [tmatch_many_nil, tmatch_nil]; simp
  | cons c s ih =>
    rw [tmatch_many_cons, Bool.or_eq_true, Bool.and_eq_true, ih, tmatch_nil]
    simp only [List.mem_cons, forall_eq_or_imp]
    constructor
    · rintro (h | h)
      · simp at h
      · exact h
    · intro h; exact Or.inr h

end Css21

namespace Re

/-- the ASCII-lower-case members of a class -/
def foldedMembers (rs : List (Nat × Nat)) : List Nat := (members rs).filter fun c => foldc c == c

def okCls (neg : Bool) (rs : List (Nat × Nat)) : Bool :=
  !neg && foldClosedCls rs && decide ((members rs).length ≤ 64)

theorem foldedMembers_contains (rs : List (Nat × Nat)) (h : foldClosedCls rs = true) (x : Nat) :
    (foldedMembers rs).contains (foldc x) = inCls false rs x := by
  have e : inCls false rs (foldc x) = inCls false rs x := inCls_foldc false rs h x
  cases hx : inCls false rs x with
  | true =>
    rw [hx] at e
    simp only [foldedMembers, List.contains_iff_mem, List.mem_filter, mem_members, beq_iff_eq]
    exact ⟨e, foldc_idem x⟩
  | false =>
    rw [hx] at e
    apply Bool.eq_false_iff.2
    intro hc
    simp only [foldedMembers, List.contains_iff_mem, List.mem_filter, mem_members] at hc
    rw [e] at hc; exact absurd hc.1 (by simp)

def tprod (A B : List Template) : List Template := A.flatMap fun a => B.map fun b => a ++ b

theorem mem_tprod (A B : List Template) (t : Template) : t ∈ tprod A B ↔ ∃ a ∈ A, ∃ b ∈ B, t = a ++ b := by
  simp only [tprod, List.mem_flatMap, List.mem_map]
  constructor
  · rintro ⟨a, ha, b, hb, rfl⟩; exact ⟨a, ha, b, hb, rfl⟩
  · rintro ⟨a, ha, b, hb, rfl⟩; exact ⟨a, ha, b, hb, rfl⟩

def repT (W : List Template) : Nat → Nat → List Template
  | m, 0 => if m = 0 then [[]] else []
  | m, n + 1 => tprod W (repT W (m - 1) n) ++ (if m = 0 then [[]] else [])

/-- templates of a pattern; `none` when it is not of the supported shape -/
def templates : Re → Option (List Template)
  | .eps => some [[]]
  | .cls neg rs => if okCls neg rs then some [[.one (foldedMembers rs)]] else none
  | .seq a b => match a.templates, b.templates with
    | some A, some B => some (tprod A B)
    | _, _ => none
  | .alt a b => match a.templates, b.templates with
    | some A, some B => some (A ++ B)
    | _, _ => none
  | .star (.cls neg rs) _ => if okCls neg rs then some [[.many (foldedMembers rs)]] else none
  | .star _ _ => none
  | .rep a m n _ => match a.templates with
    | some A => some (repT A m n)
    | none => none
  | .eol => none

def TplOf (f : Str → List Nat) (T : List Template) : Prop :=
  ∀ s l, l ∈ f s ↔ (l ≤ s.length ∧ ∃ t ∈ T, tmatch t (s.take l) = true)

theorem split_take (s x y : Str) (l : Nat) (hl : l ≤ s.length) (e : s.take l = x ++ y) :
    s.take x.length = x ∧ (s.drop x.length).take y.length = y ∧ l = x.length + y.length := by
  have hlen : l = x.length + y.length := by
    have := congrArg List.length e
    simp only [List.length_take, List.length_append] at this
    omega
  have hs : s = x ++ (y ++ s.drop l) := by
    rw [← List.append_assoc, ← e, List.take_append_drop]
  refine ⟨?_, ?_, hlen⟩
  · conv => lhs; rw [hs]
    simp
  · conv => lhs; rw [hs]
    simp

theorem tplOf_eps : TplOf (fun _ => [0]) [[]] := by
  intro s l
  simp only [List.mem_singleton, exists_eq_left, tmatch_nil]
  constructor
  · rintro rfl; simp
  · rintro ⟨h1, h2⟩
    have := congrArg List.length h2
    simp only [List.length_take, List.length_nil] at this
    omega

theorem tplOf_seq {f g : Str → List Nat} {A B : List Template} (hf : TplOf f A) (hg : TplOf g B) :
    TplOf (fun s => (f s).flatMap fun l1 => (g (s.drop l1)).map (l1 + ·)) (tprod A B) := by
  intro s l
  simp only [List.mem_flatMap, List.mem_map]
  constructor
  · rintro ⟨l1, h1, l2, h2, rfl⟩
    obtain ⟨h1a, a, ha, hma⟩ := (hf s l1).1 h1
    obtain ⟨h2a, b, hb, hmb⟩ := (hg _ l2).1 h2
    simp only [List.length_drop] at h2a
    refine ⟨by omega, a ++ b, (mem_tprod A B _).2 ⟨a, ha, b, hb, rfl⟩, ?_⟩
    rw [tmatch_append]
    exact ⟨_, _, List.take_add, hma, hmb⟩
  · rintro ⟨hl, t, ht, hm⟩
    obtain ⟨a, ha, b, hb, rfl⟩ := (mem_tprod A B t).1 ht
    obtain ⟨x, y, e, hx, hy⟩ := (tmatch_append a b _).1 hm
    obtain ⟨ex, ey, hlen⟩ := split_take s x y l hl e
    refine ⟨x.length, (hf s _).2 ⟨by omega, a, ha, by rw [ex]; exact hx⟩, y.length,
      (hg _ _).2 ⟨by simp only [List.length_drop]; omega, b, hb, by rw [ey]; exact hy⟩, by omega⟩

theorem tpl_union (s : Str) (l : Nat) (A B : List Template) :
    (l ≤ s.length ∧ ∃ t ∈ A ++ B, tmatch t (s.take l) = true) ↔
      ((l ≤ s.length ∧ ∃ t ∈ A, tmatch t (s.take l) = true) ∨
       (l ≤ s.length ∧ ∃ t ∈ B, tmatch t (s.take l) = true)) := by
  constructor
  · rintro ⟨h1, t, ht, hm⟩
    rcases List.mem_append.1 ht with ht | ht
    · exact Or.inl ⟨h1, t, ht, hm⟩
    · exact Or.inr ⟨h1, t, ht, hm⟩
  · rintro (⟨h1, t, ht, hm⟩ | ⟨h1, t, ht, hm⟩)
    · exact ⟨h1, t, List.mem_append.2 (Or.inl ht), hm⟩
    · exact ⟨h1, t, List.mem_append.2 (Or.inr ht), hm⟩

theorem tplOf_alt {f g : Str → List Nat} {A B : List Template} (hf : TplOf f A) (hg : TplOf g B) :
    TplOf (fun s => f s ++ g s) (A ++ B) := by
  intro s l
  rw [tpl_union, List.mem_append, hf s l, hg s l]

theorem tplOf_rep {f : Str → List Nat} {A : List Template} (hf : TplOf f A) (g : Bool) :
    ∀ n m, TplOf (repMs f g m n) (repT A m n) := by
  intro n
  induction n with
  | zero =>
    intro m s l
    simp only [repMs, repT]
    split
    · exact tplOf_eps s l
    · simp
  | succ n ih =>
    intro m s l
    have key := tplOf_seq hf (ih (m - 1)) s l
    have nilc : l = 0 ↔ (l ≤ s.length ∧ ∃ t ∈ [([] : Template)], tmatch t (s.take l) = true) := by
      rw [← List.mem_singleton]; exact tplOf_eps s l
    simp only [repMs, repT]
    by_cases hm : m = 0
    · subst hm
      simp only [if_true]
      rw [tpl_union, ← key, ← nilc]
      cases g
      · simp only [Bool.false_eq_true, if_false, List.mem_cons]
        constructor
        · rintro (h | h); exact Or.inr h; exact Or.inl h
        · rintro (h | h); exact Or.inr h; exact Or.inl h
      · simp only [if_true, List.mem_append, List.mem_singleton]
    · simp only [hm, if_false, List.append_nil]
      exact key

theorem tplOf_cls (rs : List (Nat × Nat)) (h : foldClosedCls rs = true) :
    TplOf (Re.cls false rs).ms [[.one (foldedMembers rs)]] := by
  intro s l
  simp only [List.mem_singleton, exists_eq_left, tmatch_one_cons, tmatch_nil,
    foldedMembers_contains rs h]
  cases s with
  | nil =>
    simp only [ms, List.not_mem_nil, false_iff, List.take_nil]
    rintro ⟨_, x, r, e, _⟩
    simp at e
  | cons c t =>
    simp only [ms]
    constructor
    · intro hl
      split at hl
      · rename_i hin
        simp only [List.mem_singleton] at hl
        subst hl
        exact ⟨by simp, c, [], by simp, hin, rfl⟩
      · simp at hl
    · rintro ⟨hl, x, r, e, hx, rfl⟩
      have hlen := congrArg List.length e
      simp only [List.length_take, List.length_cons, List.length_nil] at hlen
      have hl1 : l = 1 := by simp only [List.length_cons] at hl; omega
      subst hl1
      simp only [List.take_succ_cons, List.take_zero, List.cons.injEq, and_true] at e
      subst e
      simp [hx]

theorem star_cls (rs : List (Nat × Nat)) (g : Bool) : ∀ (fuel : Nat) (s : Str) (l : Nat), s.length < fuel →
    (l ∈ starMs (Re.cls false rs).ms g fuel s ↔
      (l ≤ s.length ∧ ∀ x ∈ s.take l, inCls false rs x = true)) := by
  intro fuel
  induction fuel with
  | zero => intro s l h; omega
  | succ n ih =>
    intro s l hlt
    have step : l ∈ (((Re.cls false rs).ms s).filter (· > 0)).flatMap
          (fun l1 => (starMs (Re.cls false rs).ms g n (s.drop l1)).map (l1 + ·)) ↔
        ∃ c t, s = c :: t ∧ inCls false rs c = true ∧ ∃ l2, l = 1 + l2 ∧ l2 ≤ t.length ∧
          ∀ x ∈ t.take l2, inCls false rs x = true := by
      cases s with
      | nil =>
        have e1 : (Re.cls false rs).ms [] = [] := by simp [ms]
        rw [e1]
        simp
      | cons c t =>
        have ht : t.length < n := by simp only [List.length_cons] at hlt; omega
        by_cases hc : inCls false rs c = true
        · have e1 : (Re.cls false rs).ms (c :: t) = [1] := by simp [ms, hc]
          have e2 : ([1] : List Nat).filter (· > 0) = [1] := by decide
          rw [e1, e2]
          simp only [List.flatMap_cons, List.flatMap_nil, List.append_nil, List.mem_map, List.drop_succ_cons,
            List.drop_zero]
          constructor
          · rintro ⟨l2, h2, rfl⟩
            obtain ⟨h2a, h2b⟩ := (ih t l2 ht).1 h2
            exact ⟨c, t, rfl, hc, l2, rfl, h2a, h2b⟩
          · rintro ⟨c', t', e, _, l2, rfl, h2a, h2b⟩
            cases e
            exact ⟨l2, (ih _ l2 ht).2 ⟨h2a, h2b⟩, rfl⟩
        · have hc' : inCls false rs c = false := by simpa using hc
          have e1 : (Re.cls false rs).ms (c :: t) = [] := by simp [ms, hc']
          rw [e1]
          simp only [List.filter_nil, List.flatMap_nil, List.not_mem_nil, false_iff]
          rintro ⟨c', t', e, hin, _⟩
          cases e
          rw [hc'] at hin; simp at hin
    have zero_case : l = 0 ↔ (l = 0 ∧ l ≤ s.length ∧ ∀ x ∈ s.take l, inCls false rs x = true) := by
      constructor
      · rintro rfl; simp
      · exact fun h => h.1
    have final : (l = 0 ∨ ∃ c t, s = c :: t ∧ inCls false rs c = true ∧ ∃ l2, l = 1 + l2 ∧ l2 ≤ t.length ∧
          ∀ x ∈ t.take l2, inCls false rs x = true) ↔
        (l ≤ s.length ∧ ∀ x ∈ s.take l, inCls false rs x = true) := by
      constructor
      · rintro (rfl | ⟨c, t, rfl, hc, l2, rfl, h2a, h2b⟩)
        · simp
        · refine ⟨by simp only [List.length_cons]; omega, ?_⟩
          intro x hx
          rw [Nat.add_comm, List.take_succ_cons, List.mem_cons] at hx
          rcases hx with rfl | hx
          · exact hc
          · exact h2b x hx
      · rintro ⟨h1, h2⟩
        cases l with
        | zero => exact Or.inl rfl
        | succ k =>
          right
          cases s with
          | nil => simp at h1
          | cons c t =>
            refine ⟨c, t, rfl, h2 c (by simp), k, by omega, by simp only [List.length_cons] at h1; omega, ?_⟩
            intro x hx
            exact h2 x (by rw [List.take_succ_cons]; exact List.mem_cons_of_mem _ hx)
    simp only [starMs]
    cases g
    · simp only [Bool.false_eq_true, if_false, List.mem_cons, step]
      exact final
    · simp only [if_true, List.mem_append, List.mem_singleton, step]
      rw [← final]
      constructor
      · rintro (h | h); exact Or.inr h; exact Or.inl h
      · rintro (h | h); exact Or.inr h; exact Or.inl h

theorem tplOf_star_cls (rs : List (Nat × Nat)) (g : Bool) (h : foldClosedCls rs = true) :
    TplOf (Re.star (Re.cls false rs) g).ms [[.many (foldedMembers rs)]] := by
  intro s l
  simp only [ms, List.mem_singleton, exists_eq_left, tmatch_many_all, foldedMembers_contains rs h]
  exact star_cls rs g _ s l (by omega)

/-- general lemma: when `templates r = some T`, the match lengths of `r` on `s` are exactly the lengths of the
prefixes of `s` that match one of the templates -/
theorem templates_spec : ∀ (r : Re) (T : List Template), r.templates = some T → TplOf r.ms T := by
  intro r
  induction r with
  | eps =>
    intro T h
    simp only [templates, Option.some.injEq] at h
    subst h
    exact tplOf_eps
  | cls neg rs =>
    intro T h
    simp only [templates] at h
    split at h
    · rename_i hc
      simp only [okCls, Bool.and_eq_true, Bool.not_eq_true', decide_eq_true_eq] at hc
      obtain ⟨⟨hneg, hfc⟩, _⟩ := hc
      subst hneg
      simp only [Option.some.injEq] at h
      subst h
      exact tplOf_cls rs hfc
    · simp at h
  | seq a b iha ihb =>
    intro T h
    simp only [templates] at h
    split at h
    · rename_i A B ha hb
      simp only [Option.some.injEq] at h
      subst h
      exact tplOf_seq (iha A ha) (ihb B hb)
    · simp at h
  | alt a b iha ihb =>
    intro T h
    simp only [templates] at h
    split at h
    · rename_i A B ha hb
      simp only [Option.some.injEq] at h
      subst h
      exact tplOf_alt (iha A ha) (ihb B hb)
    · simp at h
  | star a g _ =>
    intro T h
    cases a with
    | cls neg rs =>
      simp only [templates] at h
      split at h
      · rename_i hc
        simp only [okCls, Bool.and_eq_true, Bool.not_eq_true', decide_eq_true_eq] at hc
        obtain ⟨⟨hneg, hfc⟩, _⟩ := hc
        subst hneg
        simp only [Option.some.injEq] at h
        subst h
        exact tplOf_star_cls rs g hfc
      · simp at h
    | eps => simp [templates] at h
    | seq _ _ => simp [templates] at h
    | alt _ _ => simp [templates] at h
    | star _ _ => simp [templates] at h
    | rep _ _ _ _ => simp [templates] at h
    | eol => simp [templates] at h
  | rep a m n g iha =>
    intro T h
    simp only [templates] at h
    split at h
    · rename_i A ha
      simp only [Option.some.injEq] at h
      subst h
      exact tplOf_rep (iha A ha) g n m
    · simp at h
  | eol => intro T h; simp [templates] at h

/-- a `seq`-spine of template patterns closed by `$` -/
def templatesE : Re → Option (List Template)
  | .eol => some [[]]
  | .seq a b => match a.templates, b.templatesE with
    | some A, some B => some (tprod A B)
    | _, _ => none
  | _ => none

theorem templatesE_ms : ∀ (r : Re) (T : List Template), r.templatesE = some T →
    ∀ s l, l ∈ r.ms s ↔ (l ≤ s.length ∧ (∃ t ∈ T, tmatch t (s.take l) = true) ∧ atEnd (s.drop l)) := by
  intro r
  induction r with
  | eol =>
    intro T h s l
    simp only [templatesE, Option.some.injEq] at h
    subst h
    simp only [ms, List.mem_singleton, exists_eq_left, tmatch_nil, atEnd]
    constructor
    · intro hl
      split at hl
      · simp only [List.mem_singleton] at hl
        subst hl
        simpa using ‹s = [] ∨ s = [10]›
      · simp at hl
    · rintro ⟨h1, h2, h3⟩
      have := congrArg List.length h2
      simp only [List.length_take, List.length_nil] at this
      have hl : l = 0 := by omega
      subst hl
      simp only [List.drop_zero] at h3
      simp [h3]
  | seq a b _ ihb =>
    intro T h s l
    simp only [templatesE] at h
    split at h
    · rename_i A B ha hb
      simp only [Option.some.injEq] at h
      subst h
      have hA := templates_spec a A ha
      have hB := ihb B hb
      simp only [ms, List.mem_flatMap, List.mem_map]
      constructor
      · rintro ⟨l1, h1, l2, h2, rfl⟩
        obtain ⟨h1a, ta, hta, hma⟩ := (hA s l1).1 h1
        obtain ⟨h2a, ⟨tb, htb, hmb⟩, h2c⟩ := (hB _ l2).1 h2
        simp only [List.length_drop] at h2a
        refine ⟨by omega, ⟨ta ++ tb, (mem_tprod A B _).2 ⟨ta, hta, tb, htb, rfl⟩, ?_⟩, ?_⟩
        · rw [tmatch_append]; exact ⟨_, _, List.take_add, hma, hmb⟩
        · rw [List.drop_drop] at h2c; exact h2c
      · rintro ⟨hl, ⟨t, ht, hm⟩, hend⟩
        obtain ⟨ta, hta, tb, htb, rfl⟩ := (mem_tprod A B t).1 ht
        obtain ⟨x, y, e, hx, hy⟩ := (tmatch_append ta tb _).1 hm
        obtain ⟨ex, ey, hlen⟩ := split_take s x y l hl e
        refine ⟨x.length, (hA s _).2 ⟨by omega, ta, hta, by rw [ex]; exact hx⟩, y.length,
          (hB _ _).2 ⟨by simp only [List.length_drop]; omega, ⟨tb, htb, by rw [ey]; exact hy⟩, ?_⟩, by omega⟩
        rw [List.drop_drop, ← hlen]
        exact hend
    · simp at h
  | eps => intro T h; simp [templatesE] at h
  | cls _ _ => intro T h; simp [templatesE] at h
  | alt _ _ _ _ => intro T h; simp [templatesE] at h
  | star _ _ _ => intro T h; simp [templatesE] at h
  | rep _ _ _ _ _ => intro T h; simp [templatesE] at h

/-- a pattern with templates `T` accepts a value that does not end in a line feed iff the value matches one of
the templates -/
theorem templatesE_spec_noLF (r : Re) (T : List Template) (h : r.templatesE = some T) (s : Str)
    (hs : s.getLast? ≠ some 10) : accepts r s = true ↔ member T s = true := by
  have key := templatesE_ms r T h s
  simp only [accepts, Bool.not_eq_true', List.isEmpty_eq_false_iff_exists_mem, member, List.any_eq_true]
  constructor
  · rintro ⟨l, hl⟩
    obtain ⟨h1, ⟨t, ht, hm⟩, h3⟩ := (key l).1 hl
    rcases h3 with h3 | h3
    · have : s.take l = s := by
        have := List.take_append_drop l s
        rw [h3, List.append_nil] at this; exact this
      rw [this] at hm; exact ⟨t, ht, hm⟩
    · exfalso
      have := List.take_append_drop l s
      rw [h3] at this
      rw [← this] at hs
      simp at hs
  · rintro ⟨t, ht, hm⟩
    exact ⟨s.length, (key _).2 ⟨Nat.le_refl _, ⟨t, ht, by simpa using hm⟩, by simp [atEnd]⟩⟩

end Re
end CssVerif
