import CssVerif.Lemmas.Encutils
import CssVerif.Model.EncutilsDoc
/-!
# Lemmas for `Model/EncutilsDoc.lean`: documents as `str` / `bytes`, the HTML meta stage

Spec-side definitions (`attrValue`, `isContentTypeMeta`, `metaContent`, `decides`, `specMetaScan`, `AsciiTransparent`,
`utf8`) are typed by hand from the documentation; the literals of the model side come from the source.
-/
set_option linter.unusedSimpArgs false
set_option linter.unusedVariables false

namespace CssVerif.Encutils
open CssVerif CssVerif.Proto CssVerif.Gen

/-! ## bridge to the first layer -/

/-- the second layer is the first one applied to the decoded document and to what the meta stage finds in it -/
theorem getEncodingInfoD_eq (L : Lib) (r : Option RespD) (text : Option Doc) (t : Option Cps) :
    getEncodingInfoD L r text t =
      getEncodingInfo (r.map RespD.head) (text.map Doc.asText)
        (metaRawOf L (match effDoc r text with | .ok d => d.asText | .error _ => [])) t := by
  cases text with
  | some d => cases r <;> rfl
  | none =>
    cases r with
    | none => rfl
    | some r =>
      obtain ⟨mt, cs, body⟩ := r
      cases body <;> rfl

/-- every codec name of the five bytes guards is latin-1 (regenerated table) -/
theorem decodeCodecs_latin1 : ∀ c ∈ C20.decodeCodecs, c = cps "latin-1" := by decide

/-! ## windows: how much of the document the sniffers look at -/

theorem specSniff_take (t : Cps) (incl : Bool) : specSniff (t.take 2048) incl = specSniff t incl := by
  match t with
  | [] => rfl
  | [_] => rfl
  | [_, _] => rfl
  | [_, _, _] => rfl
  | b1 :: b2 :: b3 :: b4 :: t' =>
    have h : (b1 :: b2 :: b3 :: b4 :: t').take 2048 = b1 :: b2 :: b3 :: b4 :: t'.take 2044 := by
      simp [List.take_succ_cons]
    have h2 : (b1 :: b2 :: b3 :: b4 :: t'.take 2044).take 2048 = b1 :: b2 :: b3 :: b4 :: t'.take 2044 := by
      rw [← h, List.take_take]; simp
    rw [h]
    simp only [specSniff, h2, h]

theorem detectXML_take (t : Cps) (incl : Bool) : detectXML (t.take 2048) incl = detectXML t incl := by
  by_cases hl : t.length < 4
  · rw [List.take_of_length_le (by omega)]
  · match t, hl with
    | b1 :: b2 :: b3 :: b4 :: t', _ =>
      have h : (b1 :: b2 :: b3 :: b4 :: t').take 2048 = b1 :: b2 :: b3 :: b4 :: t'.take 2044 := by
        simp [List.take_succ_cons]
      rw [h, detectXML_long, detectXML_long, ← h, specSniff_take]
    | [], hl => simp at hl
    | [_], hl => simp at hl
    | [_, _], hl => simp at hl
    | [_, _, _], hl => simp at hl

theorem textTypeOfText_take (t : Cps) : textTypeOfText (t.take 30) = textTypeOfText t := by
  have e : C20.sniffWindow = 30 := by decide
  simp [textTypeOfText, e, List.take_take]

theorem take_le_of_take {α : Type} (a b : List α) (n m : Nat) (hnm : n ≤ m) (h : a.take m = b.take m) :
    a.take n = b.take n := by
  have : (a.take m).take n = (b.take m).take n := by rw [h]
  simpa [List.take_take, Nat.min_eq_left hnm] using this

theorem detectXML_window (t u : Cps) (incl : Bool) (h : t.take 2048 = u.take 2048) :
    detectXML t incl = detectXML u incl := by
  rw [← detectXML_take t, ← detectXML_take u, h]

theorem textTypeOfText_window (t u : Cps) (h : t.take 2048 = u.take 2048) : textTypeOfText t = textTypeOfText u := by
  rw [← textTypeOfText_take t, ← textTypeOfText_take u, take_le_of_take t u 30 2048 (by omega) h]

/-- `getEncodingInfo` looks at the first 2048 characters of the document only, as long as the meta stage is not consulted -/
theorem getEncodingInfo_window (resp : Option Resp) (t1 t2 : Cps) (m1 m2 : MetaRaw) (tr : Option Cps)
    (h : t1.take 2048 = t2.take 2048) (hh : docClass resp t1 ≠ .html) (ht : docClass resp t1 ≠ .text) :
    getEncodingInfo resp (some t1) m1 tr = getEncodingInfo resp (some t2) m2 tr := by
  have hty : typeOf resp t2 = typeOf resp t1 := by
    cases resp with
    | none => exact (textTypeOfText_window t1 t2 h).symm
    | some r => rfl
  have hs : ∀ b, specSniff t2 b = specSniff t1 b := fun b => by
    rw [← specSniff_take t2, ← specSniff_take t1, h]
  simp only [getEncodingInfo, effText, hty]
  rw [typeOf_spec resp t1, xmlOf_spec, xmlOf_spec, metaOf_spec, metaOf_spec]
  cases hc : docClass resp t1 <;> simp [hs] <;> first | exact absurd hc hh | exact absurd hc ht

/-! ## ASCII-transparent encodings -/

def IsAscii (a : Cps) : Prop := ∀ c ∈ a, c < 128

/-- an encoding of text into bytes that writes an ASCII prefix as itself (UTF-8, latin-1, ASCII, the ISO-8859 and
windows-125x families; not UTF-16/32, not an encoding that prepends a BOM) -/
structure AsciiTransparent (enc : Cps → List UInt8) : Prop where
  prefix_kept : ∀ a t, IsAscii a → latin1 (enc (a ++ t)) = a ++ latin1 (enc t)
  empty : enc [] = []

/-- UTF-8 of one code point (no check of surrogates or the upper limit: the encoder is only an example) -/
def utf8Char (c : Nat) : List UInt8 :=
  if c < 0x80 then [c.toUInt8]
  else if c < 0x800 then [(0xC0 + c / 64).toUInt8, (0x80 + c % 64).toUInt8]
  else if c < 0x10000 then [(0xE0 + c / 4096).toUInt8, (0x80 + c / 64 % 64).toUInt8, (0x80 + c % 64).toUInt8]
  else [(0xF0 + c / 262144).toUInt8, (0x80 + c / 4096 % 64).toUInt8, (0x80 + c / 64 % 64).toUInt8,
    (0x80 + c % 64).toUInt8]

def utf8 (s : Cps) : List UInt8 := s.flatMap utf8Char

/-- `s.encode('latin-1')` for code points below 256 -/
def latin1Enc (s : Cps) : List UInt8 := s.map Nat.toUInt8

theorem latin1_append (a b : List UInt8) : latin1 (a ++ b) = latin1 a ++ latin1 b := by simp [latin1]

theorem toUInt8_toNat_small (c : Nat) (h : c < 256) : c.toUInt8.toNat = c := by
  simp [Nat.toUInt8, UInt8.toNat_ofNat', Nat.mod_eq_of_lt h]

theorem latin1_utf8_ascii (a : Cps) (h : IsAscii a) : latin1 (utf8 a) = a := by
  induction a with
  | nil => rfl
  | cons c t ih =>
    have hc : c < 128 := h c (by simp)
    have ht : IsAscii t := fun x hx => h x (by simp [hx])
    have e : utf8 (c :: t) = c.toUInt8 :: utf8 t := by simp [utf8, utf8Char, hc]
    rw [e]
    simp only [latin1, List.map_cons]
    rw [toUInt8_toNat_small c (by omega)]
    exact congrArg _ (ih ht)

theorem utf8_transparent : AsciiTransparent utf8 where
  prefix_kept a t h := by
    have : utf8 (a ++ t) = utf8 a ++ utf8 t := by simp [utf8]
    rw [this, latin1_append, latin1_utf8_ascii a h]
  empty := rfl

/-- latin-1 round trip on the whole range: decoding the latin-1 bytes of a text below 256 gives the text back -/
theorem latin1_latin1Enc (s : Cps) (h : ∀ c ∈ s, c < 256) : latin1 (latin1Enc s) = s := by
  induction s with
  | nil => rfl
  | cons c r ih =>
    have e : latin1 (latin1Enc (c :: r)) = c.toUInt8.toNat :: latin1 (latin1Enc r) := rfl
    rw [e, toUInt8_toNat_small c (h c (by simp)), ih (fun x hx => h x (by simp [hx]))]

theorem latin1Enc_transparent : AsciiTransparent latin1Enc where
  prefix_kept a t h := by
    have : latin1Enc (a ++ t) = latin1Enc a ++ latin1Enc t := by simp [latin1Enc]
    rw [this, latin1_append, latin1_latin1Enc a (fun c hc => by have := h c hc; omega)]
  empty := rfl

theorem take_of_prefix (a rest x : Cps) (n : Nat) (h : n ≤ a.length) : (a ++ rest).take n = (a ++ x).take n := by
  rw [List.take_append_of_le_length h, List.take_append_of_le_length h]

/-! ## the HTML meta stage -/

/-- the value that an attribute list gives to the name `k`: that of the LAST attribute whose lower-cased name is `k`,
lower-cased, a missing value (`<meta charset>`) counting as the empty string; `none` if there is no such attribute -/
def attrValue (k : Cps) (attrs : List (Cps × Option Cps)) : Option Cps :=
  (attrs.reverse.find? (fun p => lower p.1 == k)).map fun p => lower (p.2.getD [])

/-- a `<meta>` start tag whose `http-equiv`, stripped and lower-cased, is `content-type` -/
def isContentTypeMeta (e : StartTag) : Bool :=
  e.tag == cps "meta" && strip ((attrValue (cps "http-equiv") e.attrs).getD []) == cps "content-type"

/-- its `content`, lower-cased (`none`: no such attribute) -/
def metaContent (e : StartTag) : Option Cps := attrValue (cps "content") e.attrs

/-- the start tag settles the matter: a Content-Type meta with a non-empty `content` -/
def decides (e : StartTag) : Bool := isContentTypeMeta e && truthy (metaContent e)

/-- documented decision: the content of the FIRST Content-Type `<meta>` that has one -/
def specMetaScan (evs : List StartTag) : Option Cps := (evs.find? decides).bind metaContent

/-- what `getMetaInfo` uses of `p.content_type` (`if p.content_type:`) -/
def used (ct : Option Cps) : Option Cps := if truthy ct then ct else none

theorem dictGet_attsOf (k : Cps) (attrs : List (Cps × Option Cps)) :
    dictGet k (attsOf attrs) = attrValue k attrs := by
  induction attrs with
  | nil => rfl
  | cons p t ih =>
    have e : attsOf (p :: t) = (lower p.1, lower (p.2.getD [])) :: attsOf t := rfl
    rw [e, dictGet, ih]
    simp only [attrValue, List.reverse_cons, List.find?_append]
    cases h : t.reverse.find? (fun p => lower p.1 == k) with
    | some v => simp
    | none =>
      simp only [Option.map_none, Option.none_or, List.find?_cons, List.find?_nil]
      cases hk : (lower p.1 == k) <;> simp [hk]

theorem handleStartTag_spec (ct : Option Cps) (e : StartTag) :
    handleStartTag ct e = if truthy ct then ct else if isContentTypeMeta e then metaContent e else ct := by
  have e1 : C20.metaTag = cps "meta" := by decide
  have e2 : C20.metaEquivKey = cps "http-equiv" := by decide
  have e3 : C20.metaEquivValue = cps "content-type" := by decide
  have e4 : C20.metaContentKey = cps "content" := by decide
  simp only [handleStartTag, e1, e2, e3, e4, dictGet_attsOf, isContentTypeMeta, metaContent]
  by_cases ht : truthy ct = true <;> by_cases hm : (e.tag == cps "meta") = true <;> simp [ht, hm]

theorem foldl_handle_truthy (ct : Option Cps) (h : truthy ct = true) (evs : List StartTag) :
    evs.foldl handleStartTag ct = ct := by
  induction evs with
  | nil => rfl
  | cons e t ih => rw [List.foldl_cons, handleStartTag_spec, if_pos h, ih]

theorem used_foldl (evs : List StartTag) : ∀ ct, truthy ct = false →
    used (evs.foldl handleStartTag ct) = specMetaScan evs := by
  induction evs with
  | nil => intro ct h; simp [used, h, specMetaScan]
  | cons e t ih =>
    intro ct h
    rw [List.foldl_cons, handleStartTag_spec]
    simp only [h, Bool.false_eq_true, if_false]
    by_cases hc : isContentTypeMeta e = true
    · simp only [hc, if_true]
      by_cases ht : truthy (metaContent e) = true
      · rw [foldl_handle_truthy _ ht]
        have hd : decides e = true := by simp [decides, hc, ht]
        simp [used, ht, specMetaScan, List.find?_cons, hd]
      · have ht' : truthy (metaContent e) = false := by simpa using ht
        have hd : decides e = false := by simp [decides, ht']
        rw [ih _ ht']
        simp [specMetaScan, List.find?_cons, hd]
    · have hc' : isContentTypeMeta e = false := by simpa using hc
      have hd : decides e = false := by simp [decides, hc']
      simp only [hc', Bool.false_eq_true, if_false]
      rw [ih _ h]
      simp [specMetaScan, List.find?_cons, hd]

theorem used_metaScan (evs : List StartTag) : used (metaScan evs) = specMetaScan evs :=
  used_foldl evs none rfl

theorem specMetaScan_truthy (evs : List StartTag) (c : Cps) (h : specMetaScan evs = some c) : c ≠ [] := by
  unfold specMetaScan at h
  cases hf : evs.find? decides with
  | none => simp [hf] at h
  | some e =>
    have hd := List.find?_some hf
    simp only [hf, Option.bind_some] at h
    simp only [decides, Bool.and_eq_true] at hd
    rw [h] at hd
    intro hn; subst hn
    simp [truthy] at hd

/-- the front of `getMetaInfo` by the documented decision -/
theorem metaRawOf_spec (L : Lib) (text : Cps) :
    metaRawOf L text =
      match L.html text with
      | .error _ => .raises
      | .ok evs =>
        match specMetaScan evs with
        | none => .absent
        | some c =>
          match L.msg c with
          | .error _ => .raises
          | .ok (mt, p) => .found mt p := by
  unfold metaRawOf
  cases L.html text with
  | error e => rfl
  | ok evs =>
    simp only
    rw [← used_metaScan]
    cases hm : metaScan evs with
    | none => simp [used, truthy]
    | some c =>
      cases c with
      | nil => simp [used, truthy]
      | cons a l =>
        simp [used, truthy]
        rcases L.msg (a :: l) with e | ⟨mt, p⟩ <;> rfl

/-! ## totality -/

theorem xmlOf_ok (tt : Nat) (txt : Cps) : ∃ x, xmlOf tt txt = .ok x := by
  unfold xmlOf
  by_cases h1 : (tt == C20.XML_APPLICATION_TYPE) = true <;> by_cases h2 : (tt == C20.HTML_TEXT_TYPE) = true <;>
    by_cases h3 : 4 ≤ txt.length <;> simp [h1, h2, h3, sniffCaught_spec]

theorem getMetaInfo_ok_of_not_raises (m : MetaRaw) (h : m ≠ .raises) : ∃ p, getMetaInfo m = .ok p := by
  cases m with
  | raises => exact absurd rfl h
  | absent => exact ⟨_, rfl⟩
  | found mt p => cases p <;> exact ⟨_, rfl⟩

/-- `getEncodingInfo` returns whenever there is a document or a response to read it from and the meta stage does not
raise -/
theorem getEncodingInfo_total (resp : Option Resp) (text : Option Cps) (m : MetaRaw) (t : Option Cps)
    (hgiven : text ≠ none ∨ resp ≠ none) (hm : m ≠ .raises) : ∃ i, getEncodingInfo resp text m t = .ok i := by
  have he : ∃ txt, effText resp text = .ok txt := by
    cases text with
    | some x => exact ⟨x, rfl⟩
    | none =>
      cases resp with
      | some r => exact ⟨_, rfl⟩
      | none => rcases hgiven with h | h <;> exact absurd rfl h
  obtain ⟨txt, he⟩ := he
  obtain ⟨x, hx⟩ := xmlOf_ok (typeOf resp txt) txt
  have hmo : ∃ p, metaOf (typeOf resp txt) m = .ok p := by
    unfold metaOf
    split
    · exact getMetaInfo_ok_of_not_raises m hm
    · exact ⟨_, rfl⟩
  obtain ⟨p, hp⟩ := hmo
  exact ⟨assemble (typeOf resp txt) (httpOf resp) x p t, by simp only [getEncodingInfo, he, hx, hp]⟩

theorem metaRawOf_not_raises (L : Lib) (text : Cps) (h1 : ∀ e, L.html text ≠ .error e)
    (h2 : ∀ evs c e, L.html text = .ok evs → specMetaScan evs = some c → L.msg c ≠ .error e) :
    metaRawOf L text ≠ .raises := by
  rw [metaRawOf_spec]
  cases hh : L.html text with
  | error e => exact absurd hh (h1 e)
  | ok evs =>
    simp only
    cases hs : specMetaScan evs with
    | none => simp
    | some c =>
      simp only
      cases hm : L.msg c with
      | error e => exact absurd hm (h2 evs c e hh hs)
      | ok p => obtain ⟨mt, pp⟩ := p; simp

end CssVerif.Encutils
