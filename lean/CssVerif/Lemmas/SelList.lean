import CssVerif.Model.Sel
/-! SelectorList: the comma splitter, the parse loop as "chunks in order, all or nothing", append semantics -/
namespace CssVerif.Sel
open CssVerif.Gen.C16 CssVerif.Proto

/-! ## `_tokensupto2(listseponly=True)` -/

theorem uptoComma_spec (br bk pa : Int) (acc toks : List Tok) :
    ∃ pre, (uptoComma br bk pa acc toks).1 = acc.reverse ++ pre ∧ toks = pre ++ (uptoComma br bk pa acc toks).2 ∧
      (toks ≠ [] → pre ≠ []) := by
  induction toks generalizing br bk pa acc with
  | nil => exact ⟨[], by simp [uptoComma], by simp [uptoComma], fun h => absurd rfl h⟩
  | cons t ts ih =>
    simp only [uptoComma]
    split
    · exact ⟨[t], by simp, by simp, fun _ => by simp⟩
    · split
      · exact ⟨[t], by simp, by simp, fun _ => by simp⟩
      · obtain ⟨pre, h1, h2, _⟩ := ih (cntBrace br t.val) (cntBracket bk t.val) (cntParant pa t) (t :: acc)
        refine ⟨t :: pre, ?_, ?_, fun _ => by simp⟩
        · rw [h1]; simp
        · simp only [List.cons_append, List.cons.injEq, true_and]; exact h2

theorem uptoComma_nil_iff (toks : List Tok) : (uptoComma 0 0 0 [] toks).1 = [] ↔ toks = [] := by
  obtain ⟨pre, h1, _, h3⟩ := uptoComma_spec 0 0 0 [] toks
  constructor
  · intro h
    by_cases ht : toks = []
    · exact ht
    · have := h3 ht
      rw [h1] at h
      simp at h
      exact absurd h this
  · intro h; subst h; rfl

theorem uptoComma_rest_lt (toks : List Tok) (h : toks ≠ []) :
    (uptoComma 0 0 0 [] toks).2.length < toks.length := by
  obtain ⟨pre, _, h2, h3⟩ := uptoComma_spec 0 0 0 [] toks
  have hp := h3 h
  have hlen : toks.length = pre.length + (uptoComma 0 0 0 [] toks).2.length := by
    conv => lhs; rw [h2]
    simp
  have : 0 < pre.length := List.length_pos_iff.mpr hp
  omega

/-! ## the parse loop -/

/-- the chunks `SelectorList._setSelectorText` hands to `Selector`, in order, each with the flag
"a comma followed" -/
def chunks : Nat → List Tok → List (List Tok × Bool)
  | 0, _ => []
  | fuel + 1, toks =>
    match uptoComma 0 0 0 [] toks with
    | ([], _) => []
    | (chunk, rest) =>
      (if lastIsComma chunk then chunk.dropLast else chunk, lastIsComma chunk) :: chunks fuel rest

def lastExp (e : ListExp) (chs : List (List Tok × Bool)) : ListExp :=
  match chs.getLast? with
  | none => e
  | some ch => if ch.2 then .comma else .none

theorem lastExp_cons (e : ListExp) (ch : List Tok × Bool) (t : List (List Tok × Bool)) :
    lastExp e (ch :: t) = lastExp (if ch.2 then .comma else .none) t := by
  cases t with
  | nil => simp [lastExp]
  | cons a b =>
    simp only [lastExp, List.getLast?_cons_cons]
    cases h : (a :: b).getLast? with
    | none => simp at h
    | some x => rfl

/-- the `while True` loop is: parse the chunks in order (an exception of one parse ends everything);
`wellformed` stays true only if every chunk parsed; the selectors are collected in order -/
theorem listLoop_eq (ns : NsMap) (fuel : Nat) (toks : List Tok) (e : ListExp) (wf : Bool) (acc : List SelRec) :
    listLoop ns fuel toks e wf acc =
      ((chunks fuel toks).mapM (fun ch => parseSel ns ch.1) >>= fun rs =>
        pure (lastExp e (chunks fuel toks), wf && rs.all Option.isSome, acc.reverse ++ rs.filterMap id)) := by
  induction fuel generalizing toks e wf acc with
  | zero => simp [listLoop, chunks, lastExp]
  | succ n ih =>
    simp only [listLoop, chunks]
    split
    · rename_i h; simp [h, lastExp]
    · rename_i chunk rest hne heq
      rw [heq]
      cases chunk with
      | nil => first | exact (hne rest rfl).elim | exact (hne rfl).elim
      | cons c cs =>
        simp only [List.mapM_cons, bind_assoc, lastExp_cons]
        cases hp : parseSel ns (if lastIsComma (c :: cs) = true then (c :: cs).dropLast else c :: cs) with
        | error err => simp [bind, Except.bind]
        | ok r =>
          cases r with
          | some s =>
            simp only [bind, Except.bind, pure, Except.pure] at ih ⊢
            rw [ih]
            cases hm : List.mapM (fun ch => parseSel ns ch.1) (chunks n rest) with
            | error err => simp
            | ok rs => simp
          | none =>
            simp only [bind, Except.bind, pure, Except.pure] at ih ⊢
            rw [ih]
            cases hm : List.mapM (fun ch => parseSel ns ch.1) (chunks n rest) with
            | error err => simp
            | ok rs => simp

/-- enough fuel: more changes nothing -/
theorem chunks_fuel (n : Nat) (toks : List Tok) (h : toks.length < n) : chunks n toks = chunks (n + 1) toks := by
  induction n generalizing toks with
  | zero => omega
  | succ k ih =>
    by_cases ht : toks = []
    · subst ht; simp [chunks, uptoComma]
    · have hlt := uptoComma_rest_lt toks ht
      have hne : (uptoComma 0 0 0 [] toks).1 ≠ [] := fun h => ht ((uptoComma_nil_iff toks).mp h)
      rw [chunks, chunks]
      cases hu : uptoComma 0 0 0 [] toks with
      | mk chunk rest =>
        rw [hu] at hlt hne
        cases chunk with
        | nil => exact absurd rfl hne
        | cons c cs =>
          simp only []
          rw [ih rest (by simp at hlt; omega)]

theorem chunks_fuel_ge (toks : List Tok) (n : Nat) (h : toks.length < n) : chunks n toks = chunks (toks.length + 1) toks := by
  induction n with
  | zero => omega
  | succ k ih =>
    by_cases hk : toks.length < k
    · rw [← chunks_fuel k toks hk]; exact ih hk
    · have : k = toks.length := by omega
      subst this; rfl

/-- the chunks of a token list (fuel-free) -/
def chunksOf (toks : List Tok) : List (List Tok × Bool) := chunks (toks.length + 1) toks

/-- **noFuel**: `listLoop` with any fuel above the token count is the fuel-free description -/
theorem listLoop_noFuel (ns : NsMap) (fuel : Nat) (toks : List Tok) (hf : toks.length < fuel) (e : ListExp)
    (wf : Bool) (acc : List SelRec) :
    listLoop ns fuel toks e wf acc =
      ((chunksOf toks).mapM (fun ch => parseSel ns ch.1) >>= fun rs =>
        pure (lastExp e (chunksOf toks), wf && rs.all Option.isSome, acc.reverse ++ rs.filterMap id)) := by
  rw [listLoop_eq, chunks_fuel_ge toks fuel hf]; rfl

/-- `SelectorList._setSelectorText` -/
theorem parseList_eq (ns : NsMap) (toks : List Tok) :
    parseList ns toks =
      ((chunksOf toks).mapM (fun ch => parseSel ns ch.1) >>= fun rs =>
        pure (if lastExp .initial (chunksOf toks) = .none ∧ rs.all Option.isSome = true then some (rs.filterMap id)
              else none)) := by
  simp only [parseList]
  rw [listLoop_noFuel ns _ toks (by omega)]
  cases hm : List.mapM (fun ch => parseSel ns ch.1) (chunksOf toks) with
  | error err => simp [bind, Except.bind]
  | ok rs =>
    simp only [bind, Except.bind, pure, Except.pure, List.reverse_nil, List.nil_append, Bool.true_and]
    cases hl : lastExp .initial (chunksOf toks) <;> cases ha : rs.all Option.isSome <;> simp

theorem filterMap_id_of_all_some {α : Type} (rs : List (Option α)) (h : rs.all Option.isSome = true) :
    (rs.filterMap id).map some = rs := by
  induction rs with
  | nil => rfl
  | cons r t ih =>
    simp only [List.all_cons, Bool.and_eq_true] at h
    cases r with
    | none => simp at h
    | some x => simp [ih h.2]

/-! ## append -/

theorem appendSel_some (l : List SelRec) (ns : NsMap) (toks : List Tok) (s : SelRec)
    (h : parseSel (dictUpdate (listNamespaces l) ns) toks = .ok (some s)) :
    appendSel l ns toks = .ok (l.filter (fun x => x.text != s.text) ++ [s]) := by
  simp [appendSel, h, bind, Except.bind, pure, Except.pure]

theorem appendSel_none (l : List SelRec) (ns : NsMap) (toks : List Tok)
    (h : parseSel (dictUpdate (listNamespaces l) ns) toks = .ok none) :
    appendSel l ns toks = .ok l := by
  simp [appendSel, h, bind, Except.bind, pure, Except.pure]

end CssVerif.Sel
