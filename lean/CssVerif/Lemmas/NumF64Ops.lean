import CssVerif.Lemmas.Num
import CssVerif.Lemmas.NumF64
/-!
C18, binary64 bridge: the predicates of `do_css_Value` evaluated on the double agree with the exact layer inside the
window (non-zero literal, at most six fraction digits, value below 2^33).
-/
namespace CssVerif.Num
open CssVerif.Proto

theorem natOfDigits_lt_pow {ds : Cps} (hd : Digits ds) : natOfDigits ds < 10 ^ ds.length := by
  induction ds with
  | nil => simp [natOfDigits]
  | cons c t ih =>
    have hc : isDigit c = true := hd c (by simp)
    have ht : Digits t := fun x hx => hd x (by simp [hx])
    have := ih ht
    rw [natOfDigits_cons]
    have hc9 : c - cZero ≤ 9 := by
      simp only [isDigit, Bool.and_eq_true, decide_eq_true_eq] at hc
      simp only [cZero]; omega
    have : (c - cZero) * 10 ^ t.length ≤ 9 * 10 ^ t.length := Nat.mul_le_mul_right _ hc9
    simp only [List.length_cons, Nat.pow_succ]
    omega

/-- a double `m / 2^j`, `j ≥ 20`, within half an ulp of `n / 10^k`, `k ≤ 6`, is an integer only if `n / 10^k` is -/
theorem window_not_integral (n k m j : Nat) (hk : k ≤ 6) (hj : 20 ≤ j)
    (a1 : 2 * (m * 10 ^ k - n * 2 ^ j) ≤ 10 ^ k) (a2 : 2 * (n * 2 ^ j - m * 10 ^ k) ≤ 10 ^ k)
    (hfr : n % 10 ^ k ≠ 0) : m % 2 ^ j ≠ 0 := by
  intro hm
  have hT : 10 ^ k ≤ 10 ^ 6 := Nat.pow_le_pow_right (by decide) hk
  have hJ : 2 ^ 20 ≤ 2 ^ j := Nat.pow_le_pow_right (by decide) hj
  have e6 : (10 : Nat) ^ 6 = 1000000 := by decide
  have e20 : (2 : Nat) ^ 20 = 1048576 := by decide
  obtain ⟨c, hc⟩ : ∃ c, m = c * 2 ^ j := ⟨m / 2 ^ j, by
    have := Nat.div_add_mod m (2 ^ j); rw [hm] at this; rw [Nat.mul_comm]; omega⟩
  subst hc
  have e : c * 2 ^ j * 10 ^ k = c * 10 ^ k * 2 ^ j := by ac_rfl
  rw [e, ← Nat.sub_mul] at a1
  rw [e, ← Nat.sub_mul] at a2
  -- both differences are multiples of 2^j ≥ 2^20 > 10^k / 2: they vanish
  have z1 : c * 10 ^ k - n = 0 := by
    apply Classical.byContradiction; intro hne
    have : 1 * 2 ^ j ≤ (c * 10 ^ k - n) * 2 ^ j := Nat.mul_le_mul_right _ (by omega)
    omega
  have z2 : n - c * 10 ^ k = 0 := by
    apply Classical.byContradiction; intro hne
    have : 1 * 2 ^ j ≤ (n - c * 10 ^ k) * 2 ^ j := Nat.mul_le_mul_right _ (by omega)
    omega
  have : n = c * 10 ^ k := by omega
  rw [this, Nat.mul_mod_left] at hfr
  exact hfr rfl

/-- … and it is below one exactly when `n / 10^k` is -/
theorem window_lt_one (n k m j : Nat) (hk : k ≤ 6) (hj : 20 ≤ j)
    (a1 : 2 * (m * 10 ^ k - n * 2 ^ j) ≤ 10 ^ k) (a2 : 2 * (n * 2 ^ j - m * 10 ^ k) ≤ 10 ^ k) :
    m < 2 ^ j ↔ n < 10 ^ k := by
  have hT : 10 ^ k ≤ 10 ^ 6 := Nat.pow_le_pow_right (by decide) hk
  have hT0 : 0 < 10 ^ k := Nat.pow_pos (by decide)
  have hJ : 2 ^ 20 ≤ 2 ^ j := Nat.pow_le_pow_right (by decide) hj
  have e6 : (10 : Nat) ^ 6 = 1000000 := by decide
  have e20 : (2 : Nat) ^ 20 = 1048576 := by decide
  have ec : 10 ^ k * 2 ^ j = 2 ^ j * 10 ^ k := Nat.mul_comm _ _
  constructor
  · intro hm
    apply Classical.byContradiction; intro hn
    have h1 : (m + 1) * 10 ^ k ≤ 2 ^ j * 10 ^ k := Nat.mul_le_mul_right _ hm
    have h2 : 10 ^ k * 2 ^ j ≤ n * 2 ^ j := Nat.mul_le_mul_right _ (by omega)
    rw [Nat.add_mul] at h1
    omega
  · intro hn
    apply Classical.byContradiction; intro hm
    have h1 : 2 ^ j * 10 ^ k ≤ m * 10 ^ k := Nat.mul_le_mul_right _ (by omega)
    have h2 : (n + 1) * 2 ^ j ≤ 10 ^ k * 2 ^ j := Nat.mul_le_mul_right _ hn
    rw [Nat.add_mul] at h2
    omega

/-- what `float()` of the model returns inside the window, with everything the other lemmas need -/
theorem toF64_window_facts (sign ip fp : Cps) (hk : fp.length ≤ 6) (hn0 : natOfDigits (ip ++ fp) ≠ 0)
    (hn : natOfDigits (ip ++ fp) < 2 ^ 33 * 10 ^ fp.length) :
    ∃ m j : Nat, toF64 sign ip fp = some { neg := sign == [cMinus], m := m, e := -(j : Int) } ∧ 20 ≤ j ∧ 2 ^ 52 ≤ m ∧
      2 * (m * 10 ^ fp.length - natOfDigits (ip ++ fp) * 2 ^ j) ≤ 10 ^ fp.length ∧
      2 * (natOfDigits (ip ++ fp) * 2 ^ j - m * 10 ^ fp.length) ≤ 10 ^ fp.length := by
  have hpos : 0 < 10 ^ fp.length := Nat.pow_pos (by decide)
  have hsm : 10 ^ fp.length < 2 ^ 20 :=
    Nat.lt_of_le_of_lt (Nat.pow_le_pow_right (by decide) hk) (by decide)
  obtain ⟨m, j, h, hj, hm⟩ := nearestF64_window _ _ (Nat.pos_of_ne_zero hn0) hpos hn hsm
  obtain ⟨a1, a2⟩ := nearestF64_half_ulp _ _ hpos m j h hj
  refine ⟨m, j, ?_, window_exponent _ _ m j hk hj hm hn h, hm, a1, a2⟩
  unfold toF64
  simp only [hn0, if_false, h]

/-- **the predicates of `do_css_Value` on the double** (`== 0`, `-1 < x < 1`, and `== int(x)` for a literal with a
non-zero fraction) agree with the exact layer for every non-zero literal in the window -/
theorem f64Ops_predicates_window (v : DimVal) (f : Cps) (hfp : v.fp = some f) (hip : Digits v.ip) (hf : Digits f)
    (hk : f.length ≤ 6) (hn0 : natOfDigits (v.ip ++ f) ≠ 0) (hn : natOfDigits (v.ip ++ f) < 2 ^ 33 * 10 ^ f.length) :
    f64Ops.isZero v = exactOps.isZero v ∧ f64Ops.absLtOne v = exactOps.absLtOne v ∧
      (E.allZero f = false → f64Ops.isIntegral v = exactOps.isIntegral v) := by
  obtain ⟨m, j, hx, hj, hm, a1, a2⟩ := toF64_window_facts v.sign v.ip f hk hn0 hn
  have hof : f64Of v = some { neg := v.sign == [cMinus], m := m, e := -(j : Int) } := by
    simp only [f64Of, hfp, hx]
  have happ := natOfDigits_append v.ip f
  have hflt := natOfDigits_lt_pow hf
  have hneg : ¬ (-(j : Int) ≥ 0) := by omega
  have hab : (-(j : Int)).natAbs = j := by omega
  refine ⟨?_, ?_, ?_⟩
  · -- == 0: both false
    have hz : E.isZero v = false := by
      cases hzz : E.isZero v with
      | false => rfl
      | true =>
        simp only [E.isZero, hfp, Option.getD_some, Bool.and_eq_true] at hzz
        rw [happ, natOfDigits_allZero hzz.1, natOfDigits_allZero hzz.2] at hn0
        exact absurd (by simp) hn0
    have hm0 : (m == 0) = false := by
      have : m ≠ 0 := by have : 0 < 2 ^ 52 := Nat.pow_pos (by decide); omega
      simpa using this
    simp only [f64Ops, exactOps, hof, F.isZero, hz, hm0]
  · -- -1 < x < 1
    have hiff := window_lt_one _ _ m j hk hj a1 a2
    simp only [f64Ops, exactOps, hof, F.absLtOne, hneg, if_false, hab, E.absLtOne]
    cases hz : E.allZero v.ip with
    | true =>
      have : natOfDigits (v.ip ++ f) < 10 ^ f.length := by
        rw [happ, natOfDigits_allZero hz]; simpa using hflt
      simpa using hiff.mpr this
    | false =>
      have hi : natOfDigits v.ip ≠ 0 := fun h0 => by
        rw [allZero_of_natOfDigits hip h0] at hz; cases hz
      have : ¬ natOfDigits (v.ip ++ f) < 10 ^ f.length := by
        rw [happ]
        have : 1 * 10 ^ f.length ≤ natOfDigits v.ip * 10 ^ f.length := Nat.mul_le_mul_right _ (by omega)
        omega
      simpa using fun h => this (hiff.mp h)
  · intro hfz
    have hfr : natOfDigits (v.ip ++ f) % 10 ^ f.length ≠ 0 := by
      rw [happ, Nat.mul_comm, Nat.mul_add_mod, Nat.mod_eq_of_lt hflt]
      intro h0; rw [allZero_of_natOfDigits hf h0] at hfz; cases hfz
    have := window_not_integral _ _ m j hk hj a1 a2 hfr
    simp only [f64Ops, exactOps, hof, F.isIntegral, hneg, decide_false, Bool.false_or, hab, E.isIntegral, hfp,
      Option.getD_some, hfz]
    simpa using this

/-! ## `str(n)` of the model spells the digits -/

theorem digit_roundtrip {c : Nat} (h : isDigit c = true) : cZero + (c - cZero) = c ∧ c - cZero < 10 := by
  simp only [isDigit, Bool.and_eq_true, decide_eq_true_eq] at h
  simp only [cZero]; omega

theorem natOfDigits_snoc (init : Cps) (c : Nat) : natOfDigits (init ++ [c]) = natOfDigits init * 10 + (c - cZero) := by
  rw [natOfDigits_append]; simp [natOfDigits_cons, natOfDigits]

/-- with enough fuel `natToDigitsAux` returns the digit string of a number written without leading zero -/
theorem natToDigitsAux_spell : ∀ (k : Nat) (ds : Cps), ds.length = k + 1 → Digits ds →
    (k = 0 ∨ ds.head? ≠ some cZero) → ∀ fuel, k ≤ fuel → natToDigitsAux fuel (natOfDigits ds) = ds
  | 0, ds, hl, hd, _, fuel, _ => by
    match ds, hl with
    | [c], _ =>
      have hc := digit_roundtrip (hd c (by simp))
      have e : natOfDigits [c] = c - cZero := by simp [natOfDigits_cons, natOfDigits]
      rw [e]
      cases fuel with
      | zero => simp [natToDigitsAux, Nat.mod_eq_of_lt hc.2, hc.1]
      | succ f => simp [natToDigitsAux, hc.2, hc.1]
  | k + 1, ds, hl, hd, hh, fuel, hf => by
    have hne : ds ≠ [] := by intro e; subst e; simp at hl
    obtain ⟨init, c, rfl⟩ : ∃ init c, ds = init ++ [c] :=
      ⟨ds.dropLast, ds.getLast hne, (List.dropLast_concat_getLast hne).symm⟩
    have hli : init.length = k + 1 := by simp at hl; omega
    have hdi : Digits init := fun x hx => hd x (by simp [hx])
    have hc := digit_roundtrip (hd c (by simp))
    have hhead : init.head? ≠ some cZero := by
      rcases hh with h0 | h0
      · omega
      · cases init with
        | nil => simp at hli
        | cons a t => simpa using h0
    -- natOfDigits init ≥ 1
    have hpos : 1 ≤ natOfDigits init := by
      cases init with
      | nil => simp at hli
      | cons a t =>
        have ha : isDigit a = true := hdi a (by simp)
        have hz : a ≠ cZero := by simpa using hhead
        have := pow_le_natOfDigits (t := t) ha hz
        have : 0 < 10 ^ t.length := Nat.pow_pos (by decide)
        omega
    rw [natOfDigits_snoc]
    obtain ⟨f, rfl⟩ : ∃ f, fuel = f + 1 := ⟨fuel - 1, by omega⟩
    have hge : ¬ (natOfDigits init * 10 + (c - cZero) < 10) := by omega
    have hdiv : (natOfDigits init * 10 + (c - cZero)) / 10 = natOfDigits init := by omega
    have hmod : (natOfDigits init * 10 + (c - cZero)) % 10 = c - cZero := by omega
    simp only [natToDigitsAux, hge, if_false, hdiv, hmod, hc.1]
    rw [natToDigitsAux_spell k init hli hdi (Or.inr hhead) f (by omega)]

theorem stripLZ_head (ds : Cps) : (E.stripLZ ds).head? ≠ some cZero := by
  induction ds with
  | nil => simp [E.stripLZ]
  | cons c t ih =>
    unfold E.stripLZ at *
    by_cases hc : c = cZero
    · simpa [List.dropWhile_cons, hc] using ih
    · simp [List.dropWhile_cons, hc]

/-- `str(n)` for `n` given by a digit string: the string without its leading zeros, `0` if nothing is left -/
theorem natToDigits_spell {ds : Cps} (hd : Digits ds) :
    natToDigits (natOfDigits ds) = if (E.stripLZ ds).isEmpty then [cZero] else E.stripLZ ds := by
  rw [← natOfDigits_stripLZ ds]
  have hs := stripLZ_digits hd
  have hh := stripLZ_head ds
  generalize E.stripLZ ds = s at *
  cases s with
  | nil => decide
  | cons a t =>
    have ha : isDigit a = true := hs a (by simp)
    have hz : a ≠ cZero := by simpa using hh
    have hpow := pow_le_natOfDigits (t := t) ha hz
    have h2 : 2 ^ t.length ≤ 10 ^ t.length := Nat.pow_le_pow_left (by decide) _
    have hn0 : natOfDigits (a :: t) ≠ 0 := by
      have : 0 < 10 ^ t.length := Nat.pow_pos (by decide)
      omega
    have hlog : t.length ≤ Nat.log2 (natOfDigits (a :: t)) := (Nat.le_log2 hn0).mpr (Nat.le_trans h2 hpow)
    simp only [List.isEmpty_cons, Bool.false_eq_true, if_false]
    unfold natToDigits
    exact natToDigitsAux_spell t.length (a :: t) (by simp) hs (Or.inr (by simpa using hh)) _ (by omega)

theorem stripLZ_decomp (ds : Cps) :
    ds = List.replicate (ds.length - (E.stripLZ ds).length) cZero ++ E.stripLZ ds ∧ (E.stripLZ ds).length ≤ ds.length := by
  induction ds with
  | nil => simp [E.stripLZ]
  | cons c t ih =>
    unfold E.stripLZ at *
    by_cases hc : c = cZero
    · subst hc
      simp only [List.dropWhile_cons, beq_self_eq_true, if_true, List.length_cons]
      obtain ⟨h1, h2⟩ := ih
      refine ⟨?_, by omega⟩
      have : t.length + 1 - (List.dropWhile (fun x => x == cZero) t).length
          = (t.length - (List.dropWhile (fun x => x == cZero) t).length) + 1 := by omega
      rw [this, List.replicate_succ, List.cons_append, ← h1]
    · simp [List.dropWhile_cons, hc]

/-- zero padding on the left to the width of the digit string gives the digit string back -/
theorem pad_spell {g : Cps} (hd : Digits g) (hne : g ≠ []) :
    List.replicate (g.length - (natToDigits (natOfDigits g)).length) cZero ++ natToDigits (natOfDigits g) = g := by
  rw [natToDigits_spell hd]
  obtain ⟨h1, h2⟩ := stripLZ_decomp g
  by_cases he : (E.stripLZ g).isEmpty = true
  · have hs : E.stripLZ g = [] := List.isEmpty_iff.mp he
    simp only [he, if_true, List.length_singleton]
    rw [hs] at h1
    simp only [List.length_nil, Nat.sub_zero, List.append_nil] at h1
    have hl : 1 ≤ g.length := by
      cases g with
      | nil => exact absurd rfl hne
      | cons _ _ => simp
    conv => rhs; rw [h1]
    have : g.length = (g.length - 1) + 1 := by omega
    conv => rhs; rw [this, List.replicate_succ']
  · simp only [he, Bool.false_eq_true, if_false]
    exact h1.symm

/-- **`'%f'` on the double = `'%f'` of the exact layer, as texts**, for every non-zero literal in the window -/
theorem pctF_eq_window (v : DimVal) (f : Cps) (hfp : v.fp = some f) (hip : Digits v.ip) (hf : Digits f)
    (hk : f.length ≤ 6) (hn0 : natOfDigits (v.ip ++ f) ≠ 0) (hn : natOfDigits (v.ip ++ f) < 2 ^ 33 * 10 ^ f.length) :
    f64Ops.pctF v = exactOps.pctF v := by
  obtain ⟨x, hx, hp⟩ := toF64_pctF_window v.sign v.ip f hk hn0 hn
  have hof : f64Of v = some x := by simp only [f64Of, hfp, hx]
  have hz : E.isZero v = false := by
    have := (f64Ops_predicates_window v f hfp hip hf hk hn0 hn).1
    obtain ⟨m, j, hx', _, hm, _, _⟩ := toF64_window_facts v.sign v.ip f hk hn0 hn
    have hof' : f64Of v = some { neg := v.sign == [cMinus], m := m, e := -(j : Int) } := by
      simp only [f64Of, hfp, hx']
    simp only [f64Ops, exactOps, hof', F.isZero] at this
    have hm0 : (m == 0) = false := by
      have : m ≠ 0 := by have : 0 < 2 ^ 52 := Nat.pow_pos (by decide); omega
      simpa using this
    rw [hm0] at this; exact this.symm
  have happ := natOfDigits_append v.ip f
  have hflt := natOfDigits_lt_pow hf
  have e6 : (10 : Nat) ^ 6 = 10 ^ f.length * 10 ^ (6 - f.length) := by rw [← Nat.pow_add]; congr 1; omega
  have hc : 0 < 10 ^ (6 - f.length) := Nat.pow_pos (by decide)
  -- the two halves of n · 10^(6-k)
  have hN : natOfDigits (v.ip ++ f) * 10 ^ (6 - f.length)
      = natOfDigits v.ip * 10 ^ 6 + natOfDigits f * 10 ^ (6 - f.length) := by
    rw [happ, Nat.add_mul, Nat.mul_assoc, ← e6]
  have hlow : natOfDigits f * 10 ^ (6 - f.length) < 10 ^ 6 := by
    rw [e6]; exact (Nat.mul_lt_mul_right hc).mpr hflt
  have hdiv : natOfDigits (v.ip ++ f) * 10 ^ (6 - f.length) / 10 ^ 6 = natOfDigits v.ip := by
    rw [hN, Nat.mul_comm (natOfDigits v.ip), Nat.mul_add_div (Nat.pow_pos (by decide)), Nat.div_eq_of_lt hlow]; simp
  have hmod : natOfDigits (v.ip ++ f) * 10 ^ (6 - f.length) % 10 ^ 6 = natOfDigits (E.pad6 f) := by
    rw [hN, Nat.mul_comm (natOfDigits v.ip), Nat.mul_add_mod, Nat.mod_eq_of_lt hlow, pad6_eq hk,
      natOfDigits_append_zeros]
  have hpd : Digits (E.pad6 f) := by
    rw [pad6_eq hk]
    intro c hc'
    rcases List.mem_append.mp hc' with h | h
    · exact hf c h
    · rw [List.eq_of_mem_replicate h]; decide
  have hplen : (E.pad6 f).length = 6 := by rw [pad6_eq hk]; simp; omega
  have hpne : E.pad6 f ≠ [] := by intro e; rw [e] at hplen; simp at hplen
  have hpad := pad_spell hpd hpne
  rw [hplen] at hpad
  simp only [f64Ops, exactOps, hof, hp, hdiv, hmod, hpad, natToDigits_spell hip, E.pctF, E.isNeg, hz, hfp,
    Option.getD_some, Bool.not_false, Bool.and_true]

/-- the number text of `do_css_Value` is the same on both layers for a literal with a non-zero fraction inside the
window (the `'%f'` branches; `str(int(x))` is not evaluated) -/
theorem numText_eq_window (p : Prefs) (v : DimVal) (f : Cps) (hfp : v.fp = some f) (hip : Digits v.ip) (hf : Digits f)
    (hk : f.length ≤ 6) (hfz : E.allZero f = false) (hn : natOfDigits (v.ip ++ f) < 2 ^ 33 * 10 ^ f.length) :
    numText f64Ops p v = numText exactOps p v := by
  have hf0 : natOfDigits f ≠ 0 := fun h0 => by rw [allZero_of_natOfDigits hf h0] at hfz; cases hfz
  have hn0 : natOfDigits (v.ip ++ f) ≠ 0 := by rw [natOfDigits_append]; omega
  obtain ⟨h1, h2, h3⟩ := f64Ops_predicates_window v f hfp hip hf hk hn0 hn
  have h3' := h3 hfz
  have h4 := pctF_eq_window v f hfp hip hf hk hn0 hn
  have hint : exactOps.isIntegral v = false := by simp [exactOps, E.isIntegral, hfp, hfz]
  unfold numText
  simp only [h1, h2, h3', h4, hint, Bool.false_eq_true, if_false]

/-- **`f64_bridge`, fraction half**: for every well-formed literal with a non-zero fraction of at most six digits and
an integer part below `2^33`, what CPython's float arithmetic writes (binary64 layer) is what the exact layer writes -/
theorem roundTripF64_eq_fraction {l : Lit} (h : l.Wf) (p : Prefs) (typ : NumType) (f : Cps) (hfp : l.fp = some f)
    (hk : f.length ≤ 6) (hfz : E.allZero f = false) (hwin : natOfDigits l.ip < 2 ^ 33) (hov : l.tooLarge = false) :
    roundTripF64 p typ l.text = roundTrip p typ l.text := by
  have hpd := parseDim_text h typ hov
  obtain ⟨hfd, _⟩ := h.fp f hfp
  have hn : natOfDigits (l.ip ++ f) < 2 ^ 33 * 10 ^ f.length := by
    rw [natOfDigits_append]
    have := natOfDigits_lt_pow hfd
    have : (natOfDigits l.ip + 1) * 10 ^ f.length ≤ 2 ^ 33 * 10 ^ f.length := Nat.mul_le_mul_right _ hwin
    rw [Nat.add_mul] at this
    omega
  have key := numText_eq_window p { sign := l.sign, ip := l.ip, fp := l.fp, dim := l.unit.map lowerAscii, typ := typ }
    f hfp h.ip hfd hk hfz hn
  unfold roundTripF64 roundTrip
  rw [hpd]
  show fmtNum f64Ops p _ = fmtNum exactOps p _
  unfold fmtNum
  rw [key]

/-! ## the integral and the zero literals with a point -/

/-- the conversion of an integer `0 < I < 2^51` written with `k ≤ 6` zero fraction digits is exact: `I · 2^t · 2^-t` -/
theorem toF64_integral_window (sign ip f : Cps) (hk : f.length ≤ 6) (hfz : natOfDigits f = 0)
    (hi0 : natOfDigits ip ≠ 0) (hwin : natOfDigits ip < 2 ^ 51) :
    ∃ t : Nat, toF64 sign ip f = some { neg := sign == [cMinus], m := natOfDigits ip * 2 ^ t, e := -(t : Int) } ∧
      0 < t ∧ 2 ^ 52 ≤ natOfDigits ip * 2 ^ t := by
  have hpos : 0 < 10 ^ f.length := Nat.pow_pos (by decide)
  have hsm : 10 ^ f.length < 2 ^ 20 :=
    Nat.lt_of_le_of_lt (Nat.pow_le_pow_right (by decide) hk) (by decide)
  have hn : natOfDigits (ip ++ f) = natOfDigits ip * 10 ^ f.length := by rw [natOfDigits_append, hfz]; simp
  have hn0 : natOfDigits (ip ++ f) ≠ 0 := by
    rw [hn]; exact Nat.mul_ne_zero hi0 (by omega)
  have hw : natOfDigits (ip ++ f) < 2 ^ 51 * 10 ^ f.length := by
    rw [hn]; exact (Nat.mul_lt_mul_right hpos).mpr hwin
  obtain ⟨t, ht, _, h19, hq1, hq2⟩ := chooseExp_window_gen 51 (by decide) _ _ (Nat.pos_of_ne_zero hn0) hpos hw hsm
  have hq : natOfDigits (ip ++ f) * 2 ^ t / 10 ^ f.length = natOfDigits ip * 2 ^ t := by
    rw [hn, Nat.mul_right_comm, Nat.mul_div_cancel _ hpos]
  have hr : natOfDigits (ip ++ f) * 2 ^ t % 10 ^ f.length = 0 := by
    rw [hn, Nat.mul_right_comm, Nat.mul_mod_left]
  rw [hq] at hq1 hq2
  refine ⟨t, ?_, by omega, hq1⟩
  unfold toF64 nearestF64 roundAt
  have hrnd : roundHE (natOfDigits ip * 2 ^ t) 0 (10 ^ f.length) = natOfDigits ip * 2 ^ t := by
    unfold roundHE; simp [hpos]
  have hne : natOfDigits ip * 2 ^ t ≠ 2 ^ 53 := by omega
  have hno : ¬ (-(t : Int) + 52 ≥ 1024) := by omega
  simp only [hn0, if_false, ht, scaledDiv_neg _ _ t (by omega), hq, hr, hrnd, hne, hno]

/-- the number text is the same on both layers for an integral non-zero literal with a point below `2^51`
(`str(int(x))` branch) and for a zero literal with a point -/
theorem numText_eq_integral (p : Prefs) (v : DimVal) (f : Cps) (hfp : v.fp = some f) (hip : Digits v.ip) (hf : Digits f)
    (hk : f.length ≤ 6) (hfz : E.allZero f = true) (hwin : natOfDigits v.ip < 2 ^ 51) :
    numText f64Ops p v = numText exactOps p v := by
  have hf0 : natOfDigits f = 0 := natOfDigits_allZero hfz
  by_cases hi0 : natOfDigits v.ip = 0
  · -- the zero literal: only `== 0` is evaluated
    have hn0 : natOfDigits (v.ip ++ f) = 0 := by rw [natOfDigits_append, hi0, hf0]; simp
    have hof : f64Of v = some { neg := v.sign == [cMinus], m := 0, e := 0 } := by
      simp only [f64Of, hfp, toF64, hn0, if_true]
    have hz : E.isZero v = true := by
      simp only [E.isZero, hfp, Option.getD_some, allZero_of_natOfDigits hip hi0, hfz, Bool.and_self]
    have h1 : f64Ops.isZero v = true := by simp [f64Ops, hof, F.isZero]
    have h2 : exactOps.isZero v = true := by simp [exactOps, hz]
    unfold numText
    simp only [h1, h2, if_true]
  · obtain ⟨t, hx, ht, hm⟩ := toF64_integral_window v.sign v.ip f hk hf0 hi0 hwin
    have hof : f64Of v = some { neg := v.sign == [cMinus], m := natOfDigits v.ip * 2 ^ t, e := -(t : Int) } := by
      simp only [f64Of, hfp, hx]
    have hneg : ¬ (-(t : Int) ≥ 0) := by omega
    have hab : (-(t : Int)).natAbs = t := by omega
    have h2t : 0 < 2 ^ t := Nat.pow_pos (by decide)
    have hipz : E.allZero v.ip = false := by
      cases hz : E.allZero v.ip with
      | false => rfl
      | true => exact absurd (natOfDigits_allZero hz) hi0
    have hz : E.isZero v = false := by simp [E.isZero, hipz]
    have hm0 : (natOfDigits v.ip * 2 ^ t == 0) = false := by
      have : natOfDigits v.ip * 2 ^ t ≠ 0 := by omega
      simpa using this
    have h1 : f64Ops.isZero v = false := by simp only [f64Ops, hof, F.isZero, hm0]
    have h1' : exactOps.isZero v = false := by simp [exactOps, hz]
    have h2 : f64Ops.isIntegral v = true := by
      simp only [f64Ops, hof, F.isIntegral, hneg, decide_false, Bool.false_or, hab, Nat.mul_mod_left, beq_self_eq_true]
    have h2' : exactOps.isIntegral v = true := by simp [exactOps, E.isIntegral, hfp, hfz]
    have h3 : f64Ops.strInt v = exactOps.strInt v := by
      have htr : F.truncNat { neg := v.sign == [cMinus], m := natOfDigits v.ip * 2 ^ t, e := -(t : Int) }
          = natOfDigits v.ip := by
        simp only [F.truncNat, hneg, if_false, hab, Nat.mul_div_cancel _ h2t]
      have hne : (natOfDigits v.ip != 0) = true := by simpa using hi0
      simp only [f64Ops, exactOps, hof, F.strInt, htr, hne, Bool.and_true, natToDigits_spell hip, E.strInt, E.isNeg, hz,
        Bool.not_false]
    unfold numText
    simp only [h1, h1', h2, h2', h3, Bool.false_eq_true, if_false, if_true]

/-- **`f64_bridge` below `2^33` (below `2^51` for an all-zero fraction)**: for every well-formed literal with at most six
fraction digits (zero, integral or not) and such an integer part, the binary64 layer writes what the exact layer writes -/
theorem roundTripF64_eq_window {l : Lit} (h : l.Wf) (p : Prefs) (typ : NumType)
    (h6 : (l.fp.getD []).length ≤ 6)
    (hwin : natOfDigits l.ip < (if E.allZero (l.fp.getD []) then 2 ^ 51 else 2 ^ 33)) (hov : l.tooLarge = false) :
    roundTripF64 p typ l.text = roundTrip p typ l.text := by
  have hpd := parseDim_text h typ hov
  unfold roundTripF64 roundTrip
  rw [hpd]
  show fmtNum f64Ops p _ = fmtNum exactOps p _
  unfold fmtNum
  cases hfp : l.fp with
  | none =>
    -- a Python int: the binary64 layer defers to the exact operations
    have : numText f64Ops p { sign := l.sign, ip := l.ip, fp := none, dim := l.unit.map lowerAscii, typ := typ }
        = numText exactOps p { sign := l.sign, ip := l.ip, fp := none, dim := l.unit.map lowerAscii, typ := typ } := by
      unfold numText
      simp [f64Ops, f64Of, exactOps]
    rw [this]
  | some f =>
    obtain ⟨hfd, _⟩ := h.fp f hfp
    have hk : f.length ≤ 6 := by simpa [hfp] using h6
    have key : numText f64Ops p { sign := l.sign, ip := l.ip, fp := some f, dim := l.unit.map lowerAscii, typ := typ }
        = numText exactOps p { sign := l.sign, ip := l.ip, fp := some f, dim := l.unit.map lowerAscii, typ := typ } := by
      cases hfz : E.allZero f with
      | true =>
        have hw : natOfDigits l.ip < 2 ^ 51 := by simpa [hfp, hfz] using hwin
        exact numText_eq_integral p _ f rfl h.ip hfd hk hfz hw
      | false =>
        have hwin : natOfDigits l.ip < 2 ^ 33 := by simpa [hfp, hfz] using hwin
        have hn : natOfDigits (l.ip ++ f) < 2 ^ 33 * 10 ^ f.length := by
          rw [natOfDigits_append]
          have := natOfDigits_lt_pow hfd
          have : (natOfDigits l.ip + 1) * 10 ^ f.length ≤ 2 ^ 33 * 10 ^ f.length := Nat.mul_le_mul_right _ hwin
          rw [Nat.add_mul] at this
          omega
        exact numText_eq_window p _ f rfl h.ip hfd hk hfz hn
    rw [key]

end CssVerif.Num
