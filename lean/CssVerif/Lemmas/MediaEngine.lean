import CssVerif.Model.ProdEngine
import CssVerif.Gen.C17Grammar
/-!
# Tie obligation for the engine model (C17)

The `match` callbacks of the captured productions are opaque to the translator; `ProdEngine.Matcher.test` is their
hand-written counterpart, keyed by the production name. The translator records the verdict of every captured
production on a probe battery (`Gen.C17Grammar.probes`, regenerated on every run); this theorem re-checks the
hand-written predicates against those verdicts.
-/
namespace CssVerif.C17Engine
open CssVerif.ProdEngine CssVerif.Gen.C17Grammar

/-- (a finite check over the probe battery — a test of the hand-written predicates, not a property theorem) -/
theorem matchers_agree_with_probes : probes.all (fun p => p.1.test p.2.1 == p.2.2) = true := by decide +kernel

/-- the captured media grammars have no `nextSor` (and no `stopAndKeep`) production: `ProdParser._SorTokens` is never
wrapped around their token stream, and the engine model never answers `unsupported` because of a flag -/
theorem media_grammars_never_reach_SorTokens :
    mediaList.plain = true ∧ mediaQueryPartof.plain = true ∧ mediaQueryAlone.plain = true := by decide

end CssVerif.C17Engine
