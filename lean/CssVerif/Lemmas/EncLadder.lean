import CssVerif.Model.EncLadder
import CssVerif.Lemmas.Codec
/-! helper lemmas for `Props/C08.lean` about `Model/EncLadder.lean` -/
namespace CssVerif.EncLadder
open CssVerif.Codec

theorem truthy_some_getD (o : Option (List Nat)) (h : truthy o = true) : o = some (o.getD []) := by
  cases o with
  | none => simp [truthy] at h
  | some l => simp

end CssVerif.EncLadder
