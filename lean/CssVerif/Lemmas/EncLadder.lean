import CssVerif.Model.EncLadder
import CssVerif.Lemmas.Codec
/-! helper lemmas for `Props/C08.lean` about `Model/EncLadder.lean` -/
namespace CssVerif.EncLadder
open CssVerif.Codec

theorem truthy_some_getD (o : Option (List Nat)) (h : truthy o = true) : o = some (o.getD []) := by
  cases o with
  | none => simp [truthy] at h
  | some l => simp

theorem truthy_some_iff (e : List Nat) : truthy (some e) = true ↔ e ≠ [] := by
  cases e <;> simp [truthy]

/-- with `final` the `@charset` rewriter always answers -/
theorem fix_final (t enc : List Nat) : fixEncoding t enc true ≠ none := by
  unfold fixEncoding
  split
  · split
    · cases findQuote (t.drop 10) <;> simp
    · simp
  · simp

theorem fixFinal_eq (t enc r : List Nat) (h : fixEncoding t enc true = some r) : fixFinal t enc = r := by
  simp [fixFinal, h]

/-! ## `_readUrl` -/

theorem choose_override (override http parent : Option Name) (c : Content) (h : truthy override = true) :
    choose override http parent c = ⟨override.getD [], 0⟩ := by
  simp [choose, h]

theorem readUrl_some (w : World) (r : FetchRes) (override parent : Option Name) (x : ReadOk)
    (hr : readUrl w r override parent = some x) :
    ∃ http c, r = .pair http c ∧ (⟨x.encoding, x.enctype⟩ : Choice) = choose override http parent c ∧
      decodeContent w c x.encoding = x.text := by
  cases r with
  | none => simp [readUrl] at hr
  | badLen => simp [readUrl] at hr
  | noContent h => simp [readUrl] at hr
  | pair http c =>
    refine ⟨http, c, rfl, ?_⟩
    simp only [readUrl, Option.some.injEq] at hr
    subst hr
    exact ⟨rfl, rfl⟩

theorem readUrl_override (w : World) (r : FetchRes) (override parent : Option Name) (x : ReadOk)
    (h : truthy override = true) (hr : readUrl w r override parent = some x) :
    x.encoding = override.getD [] ∧ x.enctype = 0 := by
  obtain ⟨http, c, _, hch, _⟩ := readUrl_some w r override parent x hr
  rw [choose_override override http parent c h] at hch
  simp only [Choice.mk.injEq] at hch
  exact hch

theorem choose_enctype_ne0 (override http parent : Option Name) (c : Content) (h : truthy override = false) :
    (choose override http parent c).enctype ≠ 0 := by
  unfold choose
  rw [if_neg (by simp [h])]
  split
  · simp
  · split
    · simp
    · split <;> simp

theorem finishEO_out (w : World) (st st' : PState) (eo en : Option Name) (h : finishEO w st eo en = .ok st') :
    st'.out = st.out := by
  unfold finishEO at h
  by_cases h1 : truthy eo = true
  · rw [if_pos h1] at h
    cases hs : setEncodingRule w st.sheet.rules (st.sheet.override.getD []) with
    | error e => rw [hs] at h; cases h
    | ok rs => rw [hs] at h; simp only [Except.ok.injEq] at h; subst h; rfl
  · rw [if_neg h1] at h
    by_cases h2 : truthy en = true
    · rw [if_pos h2] at h
      cases hs : setEncodingRule w st.sheet.rules (en.getD []) with
      | error e => rw [hs] at h; cases h
      | ok rs => rw [hs] at h; simp only [Except.ok.injEq] at h; subst h; rfl
    · rw [if_neg h2] at h
      simp only [Except.ok.injEq] at h; subst h; rfl

/-! ## the token loop keeps everything of the sheet but its rules -/

/-- the part of a sheet the token loop never touches -/
def sameFixed (a b : Sheet) : Prop :=
  a.href = b.href ∧ a.ancestors = b.ancestors ∧ a.override = b.override ∧ a.newEnc = b.newEnc

theorem sameFixed_refl (a : Sheet) : sameFixed a a := ⟨rfl, rfl, rfl, rfl⟩

theorem sameFixed_trans {a b c : Sheet} (h1 : sameFixed a b) (h2 : sameFixed b c) : sameFixed a c :=
  ⟨h1.1.trans h2.1, h1.2.1.trans h2.2.1, h1.2.2.1.trans h2.2.2.1, h1.2.2.2.trans h2.2.2.2⟩

theorem sameFixed_rules (s : Sheet) (rs : List RuleK) : sameFixed s { s with rules := rs } := ⟨rfl, rfl, rfl, rfl⟩

/-- general invariant of the token loop: a property `Q` of the sheet that does not depend on its rules is kept, and a
property `P` of records holds of all records if the child loader establishes it whenever `Q` holds -/
theorem parseItems_all (w : World) (child : ChildLoader) (P : Rec → Prop) (Q : Sheet → Prop)
    (hQ : ∀ s rs, Q s → Q { s with rules := rs })
    (hchild : ∀ s u r, Q s → child s u = .ok r → ∀ x ∈ r.out.recs, P x) :
    ∀ items exp st st', parseItems w child items exp st = .ok st' → Q st.sheet → (∀ x ∈ st.out.recs, P x) →
      Q st'.sheet ∧ ∀ x ∈ st'.out.recs, P x := by
  intro items
  induction items with
  | nil =>
    intro exp st st' h hq hp
    simp only [parseItems, Except.ok.injEq] at h; subst h; exact ⟨hq, hp⟩
  | cons it t ih =>
    intro exp st st' h hq hp
    cases it with
    | charset n =>
      simp only [parseItems] at h
      split at h
      · exact ih _ _ _ h hq hp
      · split at h
        · exact ih _ _ _ h (hQ _ _ hq) hp
        · exact ih _ _ _ h hq hp
    | ws => simp only [parseItems] at h; exact ih _ _ _ h hq hp
    | comment => simp only [parseItems] at h; exact ih _ _ _ h (hQ _ _ hq) hp
    | other => simp only [parseItems] at h; exact ih _ _ _ h (hQ _ _ hq) hp
    | imp u =>
      simp only [parseItems] at h
      split at h
      · cases h
      · rename_i r1 h1
        have p1 := hchild _ _ _ hq h1
        split at h
        · exact ih _ _ _ h hq hp
        · split at h
          · exact ih _ _ _ h hq hp
          · refine ih _ _ _ h (hQ _ _ hq) ?_
            intro x hx
            simp only [List.mem_append] at hx
            rcases hx with hx | hx
            · exact hp x hx
            · exact p1 x hx

/-! ## T8.2: an override reaches every nested import -/

/-- what an override `e` means for one record -/
def OvRec (w : World) (e : Name) (x : Rec) : Prop :=
  x.found = true → x.enctype = 0 ∧ x.used = e ∧ (validName w e = true → x.reported = lower e)

theorem setEncodingRule_reported (w : World) (rules rs : List RuleK) (e : Name) (hv : validName w e = true)
    (h : setEncodingRule w rules e = .ok rs) : reported rs = lower e := by
  unfold setEncodingRule at h
  split at h
  · simp only [hv, if_true, Except.ok.injEq] at h; subst h; rfl
  · simp only [hv, if_true, Except.ok.injEq] at h; subst h; rfl

theorem beginEO_override (s : Sheet) (eo : Option Name) (h : truthy eo = true) :
    (beginEO s eo none).override = eo := by
  simp only [beginEO, h, if_true, show truthy (none : Option (List Nat)) = false from rfl, Bool.false_eq_true, if_false]

theorem loadChild_override (w : World) (e : Name) (he : e ≠ []) :
    ∀ fuel d s u r, s.override = some e → loadChild w fuel d s u = .ok r → ∀ x ∈ r.out.recs, OvRec w e x := by
  have hte : truthy (some e) = true := (truthy_some_iff e).mpr he
  intro fuel
  induction fuel with
  | zero => intro d s u r _ h; simp [loadChild] at h
  | succ f ih =>
    intro d s u r hs h
    simp only [loadChild] at h
    have failed : ∀ x ∈ [failedRec d u (parentEncodingOf s)], OvRec w e x := by
      intro x hx
      simp only [List.mem_singleton] at hx
      subst hx
      intro hf; simp [failedRec] at hf
    split at h
    · simp only [Except.ok.injEq] at h; subst h; exact failed
    · split at h
      · simp only [Except.ok.injEq] at h; subst h; exact failed
      · split at h
        · simp only [Except.ok.injEq] at h; subst h; exact failed
        · rename_i rd hrd
          rw [hs] at hrd
          obtain ⟨henc, hty⟩ := readUrl_override w _ _ _ rd hte hrd
          simp only [Option.getD_some] at henc
          split at h
          · simp only [Except.ok.injEq] at h; subst h; exact failed
          · rename_i t _
            have heo : (if rd.enctype = 0 then some rd.encoding else none : Option Name) = some e := by
              simp [hty, henc]
            have hen : (if 0 < rd.enctype ∧ rd.enctype < 5 then some rd.encoding else none : Option Name) = none := by
              simp [hty]
            rw [heo, hen] at h
            split at h
            · cases h
            · rename_i st hst
              split at h
              · cases h
              · rename_i st' hfin
                simp only [Except.ok.injEq] at h
                subst h
                have hq0 : (beginEO ⟨some u, s.href :: s.ancestors, none, none, []⟩ (some e) none).override = some e :=
                  beginEO_override _ _ hte
                obtain ⟨hq, hall⟩ := parseItems_all w (loadChild w f (d + 1)) (OvRec w e) (fun s => s.override = some e)
                  (fun s rs h => h) (fun s u r hq hr => ih (d + 1) s u r hq hr) _ _ _ _ hst hq0
                  (by intro x hx; simp at hx)
                -- the final `encoding = override`
                unfold finishEO at hfin
                simp only [hte, if_true] at hfin
                split at hfin
                · cases hfin
                · rename_i rs hrs
                  simp only [Except.ok.injEq] at hfin
                  subst hfin
                  intro x hx
                  simp only [List.mem_cons] at hx
                  rcases hx with hx | hx
                  · subst hx
                    intro _
                    refine ⟨hty, henc, ?_⟩
                    intro hv
                    rw [hq] at hrs
                    exact setEncodingRule_reported w _ _ _ hv hrs
                  · exact hall x hx

/-! ## without an override: every import is read by the ladder with its own HTTP, its own content and the
`parentEncoding` that was handed down -/

def LadderRec (w : World) (x : Rec) : Prop :=
  x.found = true → ∃ http c, w.fetch x.url = .pair http c ∧
    choose none http x.parentArg c = ⟨x.used, x.enctype⟩ ∧ decodeContent w c x.used = some x.text

theorem beginEO_no_override (s : Sheet) (eo en : Option Name) (hs : s.override = none) (h : truthy eo = false) :
    (beginEO s eo en).override = none := by
  unfold beginEO
  simp only [h, Bool.false_eq_true, if_false]
  split <;> simp [hs]

theorem loadChild_ladder (w : World) :
    ∀ fuel d s u r, s.override = none → loadChild w fuel d s u = .ok r → ∀ x ∈ r.out.recs, LadderRec w x := by
  intro fuel
  induction fuel with
  | zero => intro d s u r _ h; simp [loadChild] at h
  | succ f ih =>
    intro d s u r hs h
    simp only [loadChild] at h
    have failed : ∀ x ∈ [failedRec d u (parentEncodingOf s)], LadderRec w x := by
      intro x hx
      simp only [List.mem_singleton] at hx
      subst hx
      intro hf; simp [failedRec] at hf
    split at h
    · simp only [Except.ok.injEq] at h; subst h; exact failed
    · split at h
      · simp only [Except.ok.injEq] at h; subst h; exact failed
      · split at h
        · simp only [Except.ok.injEq] at h; subst h; exact failed
        · rename_i rd hrd
          rw [hs] at hrd
          obtain ⟨http, c, hf, hch, hdec⟩ := readUrl_some w _ _ _ rd hrd
          have hty : rd.enctype ≠ 0 := by
            have := congrArg Choice.enctype hch
            simp only at this
            rw [this]
            exact choose_enctype_ne0 none http (parentEncodingOf s) c rfl
          split at h
          · simp only [Except.ok.injEq] at h; subst h; exact failed
          · rename_i t ht
            have heo : (if rd.enctype = 0 then some rd.encoding else none : Option Name) = none := by
              simp [hty]
            rw [heo] at h
            split at h
            · cases h
            · rename_i st hst
              split at h
              · cases h
              · rename_i st' hfin
                simp only [Except.ok.injEq] at h
                subst h
                have hq0 : (beginEO ⟨some u, s.href :: s.ancestors, none, none, []⟩ none
                    (if 0 < rd.enctype ∧ rd.enctype < 5 then some rd.encoding else none)).override = none :=
                  beginEO_no_override _ _ _ rfl rfl
                obtain ⟨_, hall⟩ := parseItems_all w (loadChild w f (d + 1)) (LadderRec w) (fun s => s.override = none)
                  (fun s rs h => h) (fun s u r hq hr => ih (d + 1) s u r hq hr) _ _ _ _ hst hq0
                  (by intro x hx; simp at hx)
                have hout : st'.out = st.out := finishEO_out w st st' _ _ hfin
                intro x hx
                simp only [List.mem_cons] at hx
                rcases hx with hx | hx
                · subst hx
                  intro _
                  refine ⟨http, c, hf, hch.symm, ?_⟩
                  simp only
                  rw [hdec, ht]
                · rw [hout] at hx; exact hall x hx

/-! ## what is handed down: the `parentEncoding` of a direct child is the referring sheet's encoding -/

/-- of a record at depth ≥ `d`: if it is at depth `d` exactly, it was read with `parentEncoding = pa` -/
def Handed (d : Nat) (pa : Option Name) (x : Rec) : Prop := d ≤ x.depth ∧ (x.depth = d → x.parentArg = pa)

theorem parentEncodingOf_append (s : Sheet) (k : RuleK) (h : s.rules ≠ [] ∨ ∀ e, k ≠ .charset e) :
    parentEncodingOf { s with rules := s.rules ++ [k] } = parentEncodingOf s := by
  unfold parentEncodingOf
  cases hn : s.newEnc with
  | some e => simp
  | none =>
    simp only
    cases hr : s.rules with
    | nil =>
      rcases h with h | h
      · exact absurd hr h
      · cases k with
        | charset e => exact absurd rfl (h e)
        | comment => simp
        | imp => simp
        | other => simp
    | cons a t => cases a <;> simp

/-- every record a child loader at depth `d` returns is at depth ≥ `d`, and those at depth `d` got the
`parentEncoding` of the sheet the loader was called on -/
def ChildHands (child : ChildLoader) (d : Nat) : Prop :=
  ∀ s u r, child s u = .ok r → ∀ x ∈ r.out.recs, Handed d (parentEncodingOf s) x

theorem parseItems_handed (w : World) (child : ChildLoader) (d : Nat) (hchild : ChildHands child d) :
    ∀ items exp st st', parseItems w child items exp st = .ok st' →
      (exp = 0 → st.sheet.rules = [] ∧ st.out.recs = []) →
      (∀ x ∈ st.out.recs, Handed d (parentEncodingOf st.sheet) x) →
      ∀ x ∈ st'.out.recs, Handed d (parentEncodingOf st'.sheet) x := by
  intro items
  induction items with
  | nil =>
    intro exp st st' h _ hp
    simp only [parseItems, Except.ok.injEq] at h; subst h; exact hp
  | cons it t ih =>
    intro exp st st' h hinv hp
    have one : ∀ n : Nat, (max 1 n = 0 → st.sheet.rules = [] ∧ st.out.recs = []) := by
      intro n hn; have : 1 ≤ max 1 n := Nat.le_max_left 1 n; omega
    -- appending a rule that is not `@charset`, or appending to a non-empty list, hands the same encoding down
    have keep : ∀ k, (∀ e, k ≠ RuleK.charset e) → ∀ x ∈ st.out.recs,
        Handed d (parentEncodingOf { st.sheet with rules := st.sheet.rules ++ [k] }) x := by
      intro k hk x hx
      rw [parentEncodingOf_append st.sheet k (Or.inr hk)]; exact hp x hx
    cases it with
    | charset n =>
      simp only [parseItems] at h
      split at h
      · rename_i hexp
        exact ih _ _ _ h (by intro h0; omega) hp
      · rename_i hexp
        have h0 : exp = 0 := by omega
        obtain ⟨hr, hrec⟩ := hinv h0
        split at h
        · refine ih _ _ _ h (by intro h1; cases h1) ?_
          intro x hx
          simp only [hrec] at hx; cases hx
        · exact ih _ _ _ h (by intro h1; cases h1) hp
    | ws => simp only [parseItems] at h; exact ih _ _ _ h (by intro hm; exact absurd hm (by have := Nat.le_max_left 1 exp; omega)) hp
    | comment =>
      simp only [parseItems] at h
      exact ih _ _ _ h (by intro hm; exact absurd hm (by have := Nat.le_max_left 1 exp; omega))
        (keep .comment (by intro e; simp))
    | other =>
      simp only [parseItems] at h
      exact ih _ _ _ h (by intro hm; cases hm) (keep .other (by intro e; simp))
    | imp u =>
      simp only [parseItems] at h
      split at h
      · cases h
      · rename_i r1 h1
        have p1 := hchild _ _ _ h1
        split at h
        · rename_i hexp
          exact ih _ _ _ h (by intro h0; omega) hp
        · split at h
          · exact ih _ _ _ h (by intro h0; cases h0) hp
          · refine ih _ _ _ h (by intro h0; cases h0) ?_
            intro x hx
            simp only [List.mem_append] at hx
            rw [parentEncodingOf_append st.sheet .imp (Or.inr (by intro e; simp))]
            rcases hx with hx | hx
            · exact hp x hx
            · exact p1 x hx

theorem loadChild_depth (w : World) : ∀ fuel d, ChildHands (loadChild w fuel d) d := by
  intro fuel
  induction fuel with
  | zero => intro d s u r h; simp [loadChild] at h
  | succ f ih =>
    intro d s u r h
    simp only [loadChild] at h
    have failed : ∀ x ∈ [failedRec d u (parentEncodingOf s)], Handed d (parentEncodingOf s) x := by
      intro x hx
      simp only [List.mem_singleton] at hx
      subst hx
      exact ⟨Nat.le_refl _, fun _ => rfl⟩
    split at h
    · simp only [Except.ok.injEq] at h; subst h; exact failed
    · split at h
      · simp only [Except.ok.injEq] at h; subst h; exact failed
      · split at h
        · simp only [Except.ok.injEq] at h; subst h; exact failed
        · split at h
          · simp only [Except.ok.injEq] at h; subst h; exact failed
          · split at h
            · cases h
            · rename_i st hst
              split at h
              · cases h
              · rename_i st' hfin
                simp only [Except.ok.injEq] at h
                subst h
                have hall := parseItems_handed w (loadChild w f (d + 1)) (d + 1) (ih (d + 1)) _ _ _ _ hst
                  (by intro _; exact ⟨by simp [beginEO], rfl⟩) (by intro x hx; simp at hx)
                have hout : st'.out = st.out := finishEO_out w st st' _ _ hfin
                intro x hx
                simp only [List.mem_cons] at hx
                rcases hx with hx | hx
                · subst hx; exact ⟨Nat.le_refl _, fun _ => rfl⟩
                · rw [hout] at hx
                  have := (hall x hx).1
                  exact ⟨by omega, fun e => by omega⟩

/-! ## more fuel never changes a result -/

theorem parseItems_mono (w : World) (c1 c2 : ChildLoader)
    (hc : ∀ s u r, c1 s u = .ok r → c2 s u = .ok r) :
    ∀ items exp st st', parseItems w c1 items exp st = .ok st' → parseItems w c2 items exp st = .ok st' := by
  intro items
  induction items with
  | nil => intro exp st st' h; simpa [parseItems] using h
  | cons it t ih =>
    intro exp st st' h
    cases it with
    | charset n =>
      simp only [parseItems] at h ⊢
      split
      · rename_i hx; rw [if_pos hx] at h; exact ih _ _ _ h
      · rename_i hx; rw [if_neg hx] at h
        split
        · rename_i hy; rw [if_pos hy] at h; exact ih _ _ _ h
        · rename_i hy; rw [if_neg hy] at h; exact ih _ _ _ h
    | ws => simp only [parseItems] at h ⊢; exact ih _ _ _ h
    | comment => simp only [parseItems] at h ⊢; exact ih _ _ _ h
    | other => simp only [parseItems] at h ⊢; exact ih _ _ _ h
    | imp u =>
      simp only [parseItems] at h ⊢
      cases h1 : c1 st.sheet u with
      | error e => rw [h1] at h; cases h
      | ok r1 =>
        rw [h1] at h
        rw [hc _ _ _ h1]
        simp only at h ⊢
        split
        · rename_i hx; rw [if_pos hx] at h; exact ih _ _ _ h
        · rename_i hx; rw [if_neg hx] at h
          split
          · rename_i hy; rw [if_pos hy] at h; exact ih _ _ _ h
          · rename_i hy; rw [if_neg hy] at h
            exact ih _ _ _ h

theorem loadChild_fuel_succ (w : World) :
    ∀ fuel d s u r, loadChild w fuel d s u = .ok r → loadChild w (fuel + 1) d s u = .ok r := by
  intro fuel
  induction fuel with
  | zero => intro d s u r h; simp [loadChild] at h
  | succ f ih =>
    intro d s u r h
    rw [loadChild] at h ⊢
    simp only at h ⊢
    split
    · rename_i hx; rw [if_pos hx] at h; exact h
    · rename_i hx; rw [if_neg hx] at h
      split
      · rename_i hy; rw [if_pos hy] at h; exact h
      · rename_i hy; rw [if_neg hy] at h
        cases hr : readUrl w (w.fetch u) s.override (parentEncodingOf s) with
        | none => rw [hr] at h; exact h
        | some rd =>
          rw [hr] at h
          simp only at h ⊢
          (cases ht : rd.text with
            | none => rw [ht] at h; exact h
            | some t =>
              rw [ht] at h
              simp only at h ⊢
              cases hp : parseItems w (loadChild w f (d + 1)) (w.view t) 0
                  ⟨beginEO ⟨some u, s.href :: s.ancestors, none, none, []⟩
                    (if rd.enctype = 0 then some rd.encoding else none)
                    (if 0 < rd.enctype ∧ rd.enctype < 5 then some rd.encoding else none), ⟨[], []⟩⟩ with
              | error e => rw [hp] at h; cases h
              | ok st =>
                rw [hp] at h
                rw [parseItems_mono w (loadChild w f (d + 1)) (loadChild w (f + 1) (d + 1))
                  (fun s u r hr => ih (d + 1) s u r hr) _ _ _ _ hp]
                exact h)

theorem loadChild_fuel_mono (w : World) (k : Nat) :
    ∀ fuel d s u r, loadChild w fuel d s u = .ok r → loadChild w (fuel + k) d s u = .ok r := by
  induction k with
  | zero => intro fuel d s u r h; exact h
  | succ j ih => intro fuel d s u r h; exact loadChild_fuel_succ w (fuel + j) d s u r (ih fuel d s u r h)

/-! ## the reported encoding of an imported sheet is the encoding it was read in -/

def RepRec (w : World) (x : Rec) : Prop :=
  x.found = true →
    (x.enctype < 5 → x.used ≠ [] → validName w x.used = true → x.reported = lower x.used) ∧
    (x.enctype = 5 → x.reported = x.ownCharset.getD utf8N)

theorem reported_ownCharset (rules : List RuleK) : reported rules = (ownCharsetOf rules).getD utf8N := by
  cases rules with
  | nil => rfl
  | cons a t => cases a <;> rfl

theorem beginEO_override_eq (s : Sheet) (eo en : Option Name) (h : truthy eo = true) :
    (beginEO s eo en).override = eo := by
  unfold beginEO
  simp only [h, if_true]
  split <;> rfl

theorem loadChild_reported (w : World) :
    ∀ fuel d s u r, loadChild w fuel d s u = .ok r → ∀ x ∈ r.out.recs, RepRec w x := by
  intro fuel
  induction fuel with
  | zero => intro d s u r h; simp [loadChild] at h
  | succ f ih =>
    intro d s u r h
    simp only [loadChild] at h
    have failed : ∀ x ∈ [failedRec d u (parentEncodingOf s)], RepRec w x := by
      intro x hx
      simp only [List.mem_singleton] at hx
      subst hx
      intro hf; simp [failedRec] at hf
    split at h
    · simp only [Except.ok.injEq] at h; subst h; exact failed
    · split at h
      · simp only [Except.ok.injEq] at h; subst h; exact failed
      · split at h
        · simp only [Except.ok.injEq] at h; subst h; exact failed
        · rename_i rd hrd
          split at h
          · simp only [Except.ok.injEq] at h; subst h; exact failed
          · rename_i t ht
            split at h
            · cases h
            · rename_i st hst
              split at h
              · cases h
              · rename_i st' hfin
                simp only [Except.ok.injEq] at h
                subst h
                obtain ⟨_, hall⟩ := parseItems_all w (loadChild w f (d + 1)) (RepRec w) (fun _ => True)
                  (fun _ _ _ => trivial) (fun s u r _ hr => ih (d + 1) s u r hr) _ _ _ _ hst trivial
                  (by intro x hx; simp at hx)
                have hout : st'.out = st.out := finishEO_out w st st' _ _ hfin
                intro x hx
                simp only [List.mem_cons] at hx
                rcases hx with hx | hx
                · subst hx
                  intro _
                  simp only
                  constructor
                  · intro hlt hne hv
                    have htr : truthy (some rd.encoding) = true := (truthy_some_iff _).mpr hne
                    unfold finishEO at hfin
                    by_cases h0 : rd.enctype = 0
                    · -- read with an override
                      simp only [h0, if_true, htr] at hfin hst
                      have hov := (parseItems_all w (loadChild w f (d + 1)) (fun _ => True)
                        (fun s' => s'.override = some rd.encoding) (fun s rs h => h) (fun _ _ _ _ _ _ _ => trivial)
                        _ _ _ _ hst (beginEO_override_eq _ _ _ htr) (by intro x hx; simp at hx)).1
                      rw [hov] at hfin
                      cases hs : setEncodingRule w st.sheet.rules ((some rd.encoding).getD []) with
                      | error e => rw [hs] at hfin; cases hfin
                      | ok rs =>
                        rw [hs] at hfin
                        simp only [Except.ok.injEq] at hfin; subst hfin
                        exact setEncodingRule_reported w _ _ _ hv hs
                    · have hr : 0 < rd.enctype ∧ rd.enctype < 5 := ⟨by omega, hlt⟩
                      simp only [h0, if_false, show truthy (none : Option (List Nat)) = false from rfl,
                        Bool.false_eq_true, hr, and_self, if_true, htr] at hfin
                      cases hs : setEncodingRule w st.sheet.rules ((some rd.encoding).getD []) with
                      | error e => rw [hs] at hfin; cases hfin
                      | ok rs =>
                        rw [hs] at hfin
                        simp only [Except.ok.injEq] at hfin; subst hfin
                        exact setEncodingRule_reported w _ _ _ hv hs
                  · intro h5
                    unfold finishEO at hfin
                    have h0 : rd.enctype ≠ 0 := by omega
                    have hr : ¬ (0 < rd.enctype ∧ rd.enctype < 5) := by omega
                    simp only [h0, if_false, hr, show truthy (none : Option (List Nat)) = false from rfl,
                      Bool.false_eq_true, Except.ok.injEq] at hfin
                    subst hfin
                    exact reported_ownCharset _
                · rw [hout] at hx; exact hall x hx

end CssVerif.EncLadder

namespace CssVerif.EncLadder
open CssVerif.Codec

/-! ## `_readUrl` asks the detector without `final`: where that differs from the complete-data answer -/

/-- the explicit answer in a result of the decision ladder, before any `@charset` scan -/
def exCore : Core → Option Enc
  | .ans e true => some e
  | _ => none

/-- what a detector answer declares explicitly -/
def exAns : Option (Enc × Bool) → Option Enc
  | some (e, true) => some e
  | _ => none

theorem exAns_detect_short (l : List Nat) (f : Bool) (hs : core l f ≠ .scan) :
    exAns (detect l f) = exCore (core l f) := by
  unfold detect
  cases hc : core l f with
  | dflt => cases f <;> simp [exAns, exCore]
  | ans e x => cases x <;> simp [exAns, exCore]
  | scan => exact absurd hc hs

theorem short_table0 : ∀ f, core [] f ≠ .scan ∧ exCore (core [] true) = exCore (core [] false) := by decide
theorem short_table1 : ∀ i : Fin 11, ∀ f, core [val i] f ≠ .scan ∧
    exCore (core [val i] true) = exCore (core [val i] false) := by decide +kernel
theorem short_table2 : ∀ i j : Fin 11, ∀ f, core [val i, val j] f ≠ .scan ∧
    (exCore (core [val i, val j] true) = exCore (core [val i, val j] false) ∨ (val i = 0xFF ∧ val j = 0xFE)) := by
  decide +kernel
theorem short_table3 : ∀ i j k : Fin 11, ∀ f, core [val i, val j, val k] f ≠ .scan ∧
    (exCore (core [val i, val j, val k] true) = exCore (core [val i, val j, val k] false) ∨
      (val i = 0xFF ∧ val j = 0xFE)) := by
  decide +kernel

theorem norm_eq_const (a K : Nat) (hK : consts.contains K = true) (h : norm a = K) : a = K := by
  have := norm_beq a K hK
  rw [h] at this
  simp at this
  exact this.symm ▸ rfl

/-- for data shorter than four bytes the explicit answers with and without `final` agree unless the data starts
with `FF FE` -/
theorem explicit_short (l : List Nat) (hl : l.length < 4) :
    exAns (detect l true) = exAns (detect l false) ∨ l.take 2 = [0xFF, 0xFE] := by
  have key : ∀ f, core l f ≠ .scan ∧ (exCore (core l true) = exCore (core l false) ∨ l.take 2 = [0xFF, 0xFE]) := by
    intro f
    match l, hl with
    | [], _ => exact ⟨(short_table0 f).1, Or.inl (short_table0 f).2⟩
    | [a], _ =>
      obtain ⟨i, hi⟩ := norm_mem a
      have := short_table1 i f
      rw [← hi] at this
      have e : ∀ g, core [norm a] g = core [a] g := fun g => core_norm [a] g
      simp only [e] at this
      exact ⟨this.1, Or.inl this.2⟩
    | [a, b], _ =>
      obtain ⟨i, hi⟩ := norm_mem a; obtain ⟨j, hj⟩ := norm_mem b
      have := short_table2 i j f
      rw [← hi, ← hj] at this
      have e : ∀ g, core [norm a, norm b] g = core [a, b] g := fun g => core_norm [a, b] g
      simp only [e] at this
      refine ⟨this.1, ?_⟩
      rcases this.2 with h | ⟨h1, h2⟩
      · exact Or.inl h
      · right
        rw [norm_eq_const a 0xFF (by decide) h1, norm_eq_const b 0xFE (by decide) h2]; rfl
    | [a, b, c], _ =>
      obtain ⟨i, hi⟩ := norm_mem a; obtain ⟨j, hj⟩ := norm_mem b; obtain ⟨k, hk⟩ := norm_mem c
      have := short_table3 i j k f
      rw [← hi, ← hj, ← hk] at this
      have e : ∀ g, core [norm a, norm b, norm c] g = core [a, b, c] g := fun g => core_norm [a, b, c] g
      simp only [e] at this
      refine ⟨this.1, ?_⟩
      rcases this.2 with h | ⟨h1, h2⟩
      · exact Or.inl h
      · right
        rw [norm_eq_const a 0xFF (by decide) h1, norm_eq_const b 0xFE (by decide) h2]; rfl
  rw [exAns_detect_short l true (key true).1, exAns_detect_short l false (key false).1]
  exact (key true).2

end CssVerif.EncLadder

namespace CssVerif.EncLadder

/-! ## loading never raises (the only error of the model is its own fuel bound) -/

theorem setEncodingRule_ok (w : World) (rules : List RuleK) (e : Name) :
    ∃ rs, setEncodingRule w rules e = .ok rs := by
  unfold setEncodingRule
  split <;> split <;> exact ⟨_, rfl⟩

theorem finishEO_ok (w : World) (st : PState) (eo en : Option Name) : ∃ st', finishEO w st eo en = .ok st' := by
  unfold finishEO
  split
  · obtain ⟨rs, h⟩ := setEncodingRule_ok w st.sheet.rules (st.sheet.override.getD [])
    rw [h]; exact ⟨_, rfl⟩
  · split
    · obtain ⟨rs, h⟩ := setEncodingRule_ok w st.sheet.rules (en.getD [])
      rw [h]; exact ⟨_, rfl⟩
    · exact ⟨_, rfl⟩

theorem parseItems_err (w : World) (child : ChildLoader)
    (hc : ∀ s u e, child s u = .error e → e = .outOfFuel) :
    ∀ items exp st e, parseItems w child items exp st = .error e → e = .outOfFuel := by
  intro items
  induction items with
  | nil => intro exp st e h; simp [parseItems] at h
  | cons it t ih =>
    intro exp st e h
    cases it with
    | charset n =>
      simp only [parseItems] at h
      split at h
      · exact ih _ _ _ h
      · split at h <;> exact ih _ _ _ h
    | ws => simp only [parseItems] at h; exact ih _ _ _ h
    | comment => simp only [parseItems] at h; exact ih _ _ _ h
    | other => simp only [parseItems] at h; exact ih _ _ _ h
    | imp u =>
      simp only [parseItems] at h
      split at h
      · rename_i e1 h1
        simp only [Except.error.injEq] at h; subst h
        exact hc _ _ _ h1
      · split at h
        · exact ih _ _ _ h
        · split at h
          · exact ih _ _ _ h
          · exact ih _ _ _ h

theorem loadChild_err (w : World) :
    ∀ fuel d s u e, loadChild w fuel d s u = .error e → e = .outOfFuel := by
  intro fuel
  induction fuel with
  | zero => intro d s u e h; simp only [loadChild, Except.error.injEq] at h; exact h.symm
  | succ f ih =>
    intro d s u e h
    simp only [loadChild] at h
    split at h
    · cases h
    · split at h
      · cases h
      · split at h
        · cases h
        · split at h
          · cases h
          · split at h
            · rename_i e1 h1
              simp only [Except.error.injEq] at h; subst h
              exact parseItems_err w _ (fun s u e he => ih (d + 1) s u e he) _ _ _ _ h1
            · rename_i st hst
              obtain ⟨st', hf⟩ := finishEO_ok w st _ _
              rw [hf] at h
              cases h

end CssVerif.EncLadder
