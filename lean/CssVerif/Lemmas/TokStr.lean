import CssVerif.Lemmas.Tok
/-!
# STRING / INVALID values: the code's decode-then-clean equals the one-pass reading outside the region of
known finding C05-clean-decoded-newline (`safe`)
-/
namespace CssVerif.Tok
open CssVerif CssVerif.Gen.C05

/-! ## equations of `unescape` and `stripCont` -/

theorem unescape_cons_plain (c : Nat) (t : Cps) (h : c ≠ 92) : unescape (c :: t) = c :: unescape t := by
  show unescapeF (t.length + 1) (c :: t) = _
  simp only [unescapeF, h, ne_eq, not_false_eq_true, if_true]
  rfl

theorem unescape_cons_pair (t : Cps) : unescape (92 :: 92 :: t) = 92 :: 92 :: unescape t := by
  show unescapeF (t.length + 1 + 1) (92 :: 92 :: t) = _
  simp only [unescapeF, ne_eq, not_true_eq_false, if_false, if_true]
  rw [unescapeF_fuel _ _ (Nat.le_succ _)]

theorem unescape_cons_simple (d : Nat) (u : Cps) (h1 : d ≠ 92) (h2 : isHex d = false) :
    unescape (92 :: d :: u) = 92 :: unescape (d :: u) := by
  show unescapeF ((d :: u).length + 1) (92 :: d :: u) = 92 :: unescapeF (d :: u).length (d :: u)
  rw [unescapeF]
  simp [h1, h2]

theorem unescape_cons_hex (d : Nat) (u : Cps) (h : isHex d = true) :
    unescape (92 :: d :: u) =
      decodeHex ((d :: u).take (runLen isHex (d :: u) 6))
          (92 :: (d :: u).take (runLen isHex (d :: u) 6 + wsLen ((d :: u).drop (runLen isHex (d :: u) 6))))
        ++ unescape ((d :: u).drop (runLen isHex (d :: u) 6 + wsLen ((d :: u).drop (runLen isHex (d :: u) 6)))) := by
  have hd : d ≠ 92 := by intro e; subst e; revert h; decide
  show unescapeF (u.length + 1 + 1) (92 :: d :: u) = _
  simp only [unescapeF, ne_eq, not_true_eq_false, if_false, hd, h, if_true]
  rw [unescapeF_fuel]
  have : 1 ≤ runLen isHex (d :: u) 6 := by simp [runLen, h]
  simp only [List.length_drop, List.length_cons]; omega

theorem stripCont_none (c : Nat) (t : Cps) (h : contLen (c :: t) = none) : stripCont (c :: t) = c :: stripCont t := by
  show stripContF (t.length + 1) (c :: t) = _
  simp only [stripContF, h]
  rfl

theorem stripCont_some (c : Nat) (t : Cps) (l : Nat) (h : contLen (c :: t) = some l) :
    stripCont (c :: t) = stripCont ((c :: t).drop l) := by
  show stripContF (t.length + 1) (c :: t) = _
  simp only [stripContF, h]
  apply stripContF_fuel
  have := contLen_pos _ _ h
  simp only [List.length_drop, List.length_cons]; omega

theorem stripCont_nil : stripCont [] = [] := rfl

theorem stripCont_append_no92 : ∀ (a u : Cps), (∀ x ∈ a, x ≠ 92) → stripCont (a ++ u) = a ++ stripCont u := by
  intro a
  induction a with
  | nil => intro u _; rfl
  | cons c t ih =>
    intro u h
    have hc : c ≠ 92 := h c (by simp)
    rw [List.cons_append, stripCont_none _ _ (by simp [contLen, hc]), ih u (fun x hx => h x (List.mem_cons_of_mem _ hx))]
    rfl

/-! ## the guard and the equivalence -/

theorem isNl_iff (c : Nat) : isNl c = true ↔ c = 10 ∨ c = 13 ∨ c = 12 := by
  simp [isNl, or_assoc]

theorem push (p : Prev) (x : Nat) (u : Cps) (hx : okAfter p x = true) (h92 : x ≠ 92) :
    stripCont (pend p ++ x :: u) = outp p ++ x :: stripCont u := by
  cases p with
  | plain => simp [pend, outp, stripCont_none x u (by simp [contLen, h92])]
  | bs =>
    have hnl : isNl x = false := by simpa [okAfter] using hx
    have hx13 : ¬ (x = 13 ∧ u.head? = some 10) := by
      intro h; rw [h.1] at hnl; revert hnl; decide
    have h1 : contLen (92 :: x :: u) = none := by simp [contLen, hx13, hnl]
    have h2 : contLen (x :: u) = none := by simp [contLen, h92]
    simp [pend, outp, stripCont_none _ _ h1, stripCont_none _ _ h2]
  | contCR =>
    have hx10 : x ≠ 10 := by simpa [okAfter] using hx
    have h1 : contLen (92 :: 13 :: x :: u) = some 2 := by simp [contLen, hx10, isNl]
    have h2 : contLen (x :: u) = none := by simp [contLen, h92]
    simp [pend, outp, stripCont_some _ _ _ h1, stripCont_none _ _ h2]

theorem push92 (p : Prev) (u : Cps) : stripCont (pend p ++ 92 :: u) = outp p ++ stripCont (92 :: u) := by
  cases p with
  | plain => simp [pend, outp]
  | bs =>
    have h1 : contLen (92 :: 92 :: u) = none := by simp [contLen, isNl]
    simp [pend, outp, stripCont_none _ _ h1]
  | contCR =>
    have h1 : contLen (92 :: 13 :: 92 :: u) = some 2 := by simp [contLen, isNl]
    simp [pend, outp, stripCont_some _ _ _ h1]

theorem flush (p : Prev) : stripCont (pend p) = outp p := by
  cases p <;> decide

theorem hexws_no92 (t : Cps) : ∀ x ∈ t.take (runLen isHex t 6 + wsLen (t.drop (runLen isHex t 6))), x ≠ 92 := by
  intro x hx
  rw [List.take_add] at hx
  rcases List.mem_append.mp hx with h | h
  · have := all_take_runLen isHex t 6 x h
    intro e; subst e; revert this; decide
  · have := take_wsLen _ x h
    intro e; subst e; revert this; decide

theorem okAfter_92 (p : Prev) : okAfter p 92 = true := by cases p <;> decide

/-- the two readings of a string value agree wherever `safeF` says so -/
theorem twoPass_eq_onePass : ∀ (f : Nat) (p : Prev) (s : Cps), s.length ≤ f → safeF f p s = true →
    stripCont (pend p ++ unescape s) = outp p ++ stringValueF f s := by
  intro f
  induction f with
  | zero =>
    intro p s hl _
    have : s = [] := List.length_eq_zero_iff.mp (by omega)
    subst this
    simp [unescape, unescapeF, stringValueF, flush]
  | succ f ih =>
    intro p s hl hs
    rcases s with _ | ⟨c, t⟩
    · simp [unescape, unescapeF, stringValueF, flush]
    · have ht : t.length ≤ f := by simp at hl; omega
      by_cases hc : c = 92
      · subst hc
        rcases t with _ | ⟨d, u⟩
        · -- lone trailing backslash
          have : unescape [92] = [92] := by decide
          rw [this, push92]
          simp only [stringValueF, ne_eq, not_true_eq_false, if_false]
          have : stripCont [92] = [92] := by decide
          rw [this]
        · have hu : u.length ≤ f := by simp at ht; omega
          by_cases hd : d = 92
          · -- escaped backslash
            subst hd
            simp only [safeF, ne_eq, not_true_eq_false, if_false, if_true] at hs
            rw [unescape_cons_pair, push92]
            have h1 : contLen (92 :: 92 :: unescape u) = none := by simp [contLen, isNl]
            rw [stripCont_none _ _ h1]
            have := ih .bs u hu hs
            simp only [pend, List.cons_append, List.nil_append] at this
            rw [this]
            simp [stringValueF, outp]
          · by_cases hcrlf : d = 13 ∧ u.head? = some 10
            · -- continuation backslash CR LF
              obtain ⟨rfl, hhead⟩ := hcrlf
              rcases u with _ | ⟨e, v⟩
              · simp at hhead
              · simp only [List.head?_cons, Option.some.injEq] at hhead
                subst hhead
                simp only [safeF, ne_eq, not_true_eq_false, if_false, hd, List.head?_cons, and_self, if_true,
                  List.drop_succ_cons, List.drop_zero] at hs
                have hv : v.length ≤ f := by simp at hu; omega
                rw [unescape_cons_simple 13 _ (by decide) (by decide), unescape_cons_plain 13 _ (by decide),
                  unescape_cons_plain 10 _ (by decide), push92]
                have h1 : contLen (92 :: 13 :: 10 :: unescape v) = some 3 := by simp [contLen]
                rw [stripCont_some _ _ _ h1]
                have := ih .plain v hv hs
                simp only [pend, outp, List.nil_append] at this
                simp only [List.drop_succ_cons, List.drop_zero]
                rw [this]
                simp [stringValueF]
            · by_cases hnl : isNl d = true
              · -- continuation with a single newline code point
                have hd92 : d ≠ 92 := hd
                have hdhex : isHex d = false := by
                  rcases (isNl_iff d).mp hnl with rfl | rfl | rfl <;> decide
                simp only [safeF, ne_eq, not_true_eq_false, if_false, hd, hcrlf, hnl, if_true] at hs
                rw [unescape_cons_simple d _ hd92 hdhex, unescape_cons_plain d _ hd92, push92]
                by_cases h13 : d = 13
                · subst h13
                  simp only [if_true] at hs
                  have := ih .contCR u hu hs
                  simp only [pend, outp, List.cons_append, List.nil_append] at this
                  rw [this]
                  have hu10 : ¬ u.head? = some 10 := fun h => hcrlf ⟨rfl, h⟩
                  simp [stringValueF, hu10, isNl]
                · simp only [h13, if_false] at hs
                  have h1 : contLen (92 :: d :: unescape u) = some 2 := by
                    simp [contLen, h13, hnl]
                  rw [stripCont_some _ _ _ h1]
                  have := ih .plain u hu hs
                  simp only [pend, outp, List.nil_append] at this
                  simp only [List.drop_succ_cons, List.drop_zero]
                  rw [this]
                  simp [stringValueF, hd, hcrlf, hnl]
              · by_cases hh : isHex d = true
                · -- hex escape
                  simp only [safeF, ne_eq, not_true_eq_false, if_false, hd, hcrlf, hnl, hh, if_true,
                    Bool.false_eq_true] at hs
                  have hrest : (List.drop (runLen isHex (d :: u) 6 + wsLen (List.drop (runLen isHex (d :: u) 6) (d :: u)))
                      (d :: u)).length ≤ f := by
                    have : 1 ≤ runLen isHex (d :: u) 6 := by simp [runLen, hh]
                    simp only [List.length_drop, List.length_cons]; simp at ht; omega
                  rw [unescape_cons_hex d u hh]
                  simp only [stringValueF, ne_eq, not_true_eq_false, if_false, hd, hcrlf, hnl, hh, if_true,
                    Bool.false_eq_true]
                  unfold decodeHex
                  by_cases h5c : hexNum (List.take (runLen isHex (d :: u) 6) (d :: u)) = 0x5C
                  · simp only [h5c, if_true] at hs ⊢
                    have := ih .bs _ hrest hs
                    simp only [pend, List.cons_append, List.nil_append] at this
                    rw [List.cons_append, List.cons_append, List.nil_append, push92]
                    have h1 : ∀ U, contLen (92 :: 92 :: U) = none := by intro U; simp [contLen, isNl]
                    rw [stripCont_none _ _ (h1 _), this]
                    simp [outp]
                  · simp only [h5c, if_false] at hs ⊢
                    by_cases hmax : hexNum (List.take (runLen isHex (d :: u) 6) (d :: u)) ≤ 0x10FFFF
                    · simp only [hmax, if_true, Bool.and_eq_true] at hs ⊢
                      have := ih .plain _ hrest hs.2
                      simp only [pend, outp, List.nil_append] at this
                      rw [List.cons_append, List.nil_append, push p _ _ hs.1 h5c, this]
                      simp
                    · simp only [hmax, if_false] at hs ⊢
                      have := ih .plain _ hrest hs
                      simp only [pend, outp, List.nil_append] at this
                      rw [List.cons_append, push92]
                      -- as written: backslash, hex digits, terminator — none of them a backslash, the first a hex digit
                      have hno := hexws_no92 (d :: u)
                      have hpos : 1 ≤ runLen isHex (d :: u) 6 := by simp [runLen, hh]
                      obtain ⟨k, hk⟩ : ∃ k, runLen isHex (d :: u) 6 + wsLen (List.drop (runLen isHex (d :: u) 6) (d :: u)) = k + 1 :=
                        ⟨runLen isHex (d :: u) 6 + wsLen (List.drop (runLen isHex (d :: u) 6) (d :: u)) - 1, by omega⟩
                      rw [hk] at hno ⊢
                      simp only [List.take_succ_cons, List.cons_append] at hno ⊢
                      have hd13 : d ≠ 13 := by intro e; subst e; exact hnl (by decide)
                      have h1 : ∀ U, contLen (92 :: d :: U) = none := by
                        intro U; simp [contLen, hd13, hnl]
                      rw [stripCont_none _ _ (h1 _), ← List.cons_append, stripCont_append_no92 _ _ hno]
                      rw [hk] at this
                      rw [this]
                      simp
                · -- simple escape: the backslash is copied, the next code point is looked at again
                  have hhf : isHex d = false := by simpa using hh
                  simp only [safeF, ne_eq, not_true_eq_false, if_false, hd, hcrlf, hnl, hh, if_true,
                    Bool.false_eq_true] at hs
                  rw [unescape_cons_simple d u hd hhf, push92, unescape_cons_plain d u hd]
                  have hd13 : d ≠ 13 := by intro e; subst e; exact hnl (by decide)
                  have h1 : contLen (92 :: d :: unescape u) = none := by simp [contLen, hd13, hnl]
                  rw [stripCont_none _ _ h1, ← unescape_cons_plain d u hd]
                  have := ih .plain (d :: u) ht hs
                  simp only [pend, outp, List.nil_append] at this
                  rw [this]
                  simp [stringValueF, hd, hcrlf, hnl, hh]
      · -- ordinary code point
        simp only [safeF, ne_eq, hc, not_false_eq_true, if_true, Bool.and_eq_true] at hs
        rw [unescape_cons_plain c t hc, push p c _ hs.1 hc]
        have := ih .plain t ht hs.2
        simp only [pend, outp, List.nil_append] at this
        rw [this]
        simp [stringValueF, hc]

theorem safe_stringValue (s : Cps) (h : safe s = true) : stripCont (unescape s) = stringValue s := by
  have := twoPass_eq_onePass s.length .plain s (Nat.le_refl _) h
  simpa [pend, outp, stringValue] using this

end CssVerif.Tok
