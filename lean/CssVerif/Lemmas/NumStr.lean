import CssVerif.Lemmas.NumColor
/-!
Helper lemmas for C18 (strings and URLs): what `helper.string` / `helper.uri` write for a content without backslash
denotes that content.
-/
namespace CssVerif.Num
open CssVerif.Proto

theorem escStringChars_length_pos (r : Cps) : r.length ≤ (escStringChars r).length := by
  induction r with
  | nil => simp [escStringChars]
  | cons c t ih =>
    simp only [escStringChars, List.length_append, List.length_cons]
    split <;> (try split) <;> (try split) <;> (try split) <;> simp [cps] <;> omega

/-- reading back what `helper.string` writes for a content without backslash -/
theorem stringBody_esc (r : Cps) (hr : ∀ c ∈ r, c ≠ cBackslash) :
    ∀ fuel, (escStringChars r).length + 1 ≤ fuel →
      stringBodyDenote cQuote fuel (escStringChars r ++ [cQuote]) = some r := by
  induction r with
  | nil =>
    intro fuel hf
    cases fuel with
    | zero => simp at hf
    | succ f => simp [escStringChars, stringBodyDenote]
  | cons c t ih =>
    intro fuel hf
    have hc : c ≠ cBackslash := hr c (by simp)
    have ht : ∀ x ∈ t, x ≠ cBackslash := fun x hx => hr x (by simp [hx])
    cases fuel with
    | zero => simp at hf
    | succ f =>
      by_cases h1 : c = 0x0A
      · subst h1
        have hl : (escStringChars t).length + 1 ≤ f := by
          simp [escStringChars, cps] at hf; omega
        have := ih ht f hl
        simp [escStringChars, cps, stringBodyDenote, cQuote, cBackslash, isHexDigit, takeHex, hexDigitVal,
          skipEscSpace, isCssSpace] at this ⊢
        exact this
      · by_cases h2 : c = 0x0D
        · subst h2
          have hl : (escStringChars t).length + 1 ≤ f := by
            simp [escStringChars, cps] at hf; omega
          have := ih ht f hl
          simp [escStringChars, cps, stringBodyDenote, cQuote, cBackslash, isHexDigit, takeHex, hexDigitVal,
            skipEscSpace, isCssSpace] at this ⊢
          exact this
        · by_cases h3 : c = 0x0C
          · subst h3
            have hl : (escStringChars t).length + 1 ≤ f := by
              simp [escStringChars, cps] at hf; omega
            have := ih ht f hl
            simp [escStringChars, cps, stringBodyDenote, cQuote, cBackslash, isHexDigit, takeHex, hexDigitVal,
              skipEscSpace, isCssSpace] at this ⊢
            exact this
          · by_cases h4 : c = cQuote
            · subst h4
              have hl : (escStringChars t).length + 1 ≤ f := by
                simp [escStringChars, cQuote] at hf; omega
              have := ih ht f hl
              simp [escStringChars, stringBodyDenote, cQuote, cBackslash, isHexDigit] at this ⊢
              exact this
            · have hl : (escStringChars t).length + 1 ≤ f := by
                simp [escStringChars, h1, h2, h3, h4] at hf; omega
              have := ih ht f hl
              simp only [escStringChars, h1, h2, h3, h4, if_false, List.singleton_append, List.cons_append,
                stringBodyDenote, hc, false_or, List.nil_append]
              rw [this]; rfl


theorem escStringChars_getLast (r : Cps) (hr : ∀ c ∈ r, c ≠ cBackslash) :
    (escStringChars r).getLast? ≠ some cBackslash := by
  induction r with
  | nil => simp [escStringChars]
  | cons c t ih =>
    have hc : c ≠ cBackslash := hr c (by simp)
    have ht : ∀ x ∈ t, x ≠ cBackslash := fun x hx => hr x (by simp [hx])
    have iht := ih ht
    simp only [escStringChars]
    cases he : escStringChars t with
    | nil =>
      simp only [List.append_nil]
      split
      · simp [cps, cBackslash]
      · split
        · simp [cps, cBackslash]
        · split
          · simp [cps, cBackslash]
          · split
            · simp [cQuote, cBackslash]
            · simp [hc]
    | cons x xs =>
      rw [he] at iht
      rw [List.getLast?_append]
      cases hg : (x :: xs).getLast? with
      | none => simp [List.getLast?_cons] at hg
      | some y => rw [hg] at iht; simpa using iht

/-- a text that does not end in a backslash has an empty trailing run of backslashes -/
theorem trailingRun_nil (l : Cps) (h : l.getLast? ≠ some cBackslash) :
    l.reverse.takeWhile (· = cBackslash) = [] := by
  cases hl : l.reverse with
  | nil => rfl
  | cons x t =>
    have : l.getLast? = some x := by
      rw [← List.head?_reverse, hl]; rfl
    rw [this] at h
    have hx : x ≠ cBackslash := fun e => h (by rw [e])
    simp [List.takeWhile, hx]

/-- **strings**: for every content without a backslash (quotes, line breaks, parentheses, white space, non-ASCII …)
the text `helper.string` writes is one complete CSS string that denotes exactly that content -/
theorem helperString_denotes (r : Cps) (hr : ∀ c ∈ r, c ≠ cBackslash) :
    cssStringDenote (helperString r) = some r := by
  have hl := escStringChars_getLast r hr
  have e : helperString r = cQuote :: (escStringChars r ++ [cQuote]) := by
    unfold helperString
    simp [trailingRun_nil _ hl]
  rw [e]
  unfold cssStringDenote
  simp only [true_or, if_true]
  exact stringBody_esc r hr _ (by simp)


theorem storedDenote_plain (r : Cps) (hr : ∀ c ∈ r, c ≠ cBackslash) : storedDenote r = r := by
  induction r with
  | nil => rfl
  | cons c t ih =>
    cases t with
    | nil => rfl
    | cons d t' =>
      have hc : c ≠ cBackslash := hr c (by simp)
      simp only [storedDenote, hc, if_false]
      rw [ih (fun x hx => hr x (by simp [hx]))]

/-- every character is legal in an unquoted `url()` or makes `helper.uri` quote the URL -/
theorem urlChar_or_forbidden (c : Nat) : isUrlChar c = true ∨ forbiddenInUri c = true := by
  by_cases h : c < 0x80
  · have : ∀ k : Fin 0x80, isUrlChar k.val = true ∨ forbiddenInUri k.val = true := by decide
    exact this ⟨c, h⟩
  · left; simp [isUrlChar]; omega

/-- **URLs**: for every URL without a backslash the written `url(...)` — quoted or not, as `helper.uri` decides —
is readable and denotes exactly that URL -/
theorem helperUri_denotes (r : Cps) (hr : ∀ c ∈ r, c ≠ cBackslash) :
    writtenUrlDenote (helperUri r) = some r := by
  have hc : ∀ c ∈ r, isUrlChar c = true ∨ forbiddenInUri c = true := fun c _ => urlChar_or_forbidden c
  unfold helperUri writtenUrlDenote
  by_cases hf : r.any forbiddenInUri = true
  · -- quoted
    simp only [hf, if_true]
    have hs := helperString_denotes r hr
    have e : helperString r = cQuote :: (escStringChars r ++ [cQuote]) := by
      unfold helperString
      simp [trailingRun_nil _ (escStringChars_getLast r hr)]
    have pre : (cps "url(").isPrefixOf (cps "url(" ++ helperString r ++ [0x29]) = true := by
      simp [cps, List.isPrefixOf]
    have lst : (cps "url(" ++ helperString r ++ [0x29]).getLast? = some 0x29 := by simp
    have inner : ((cps "url(" ++ helperString r ++ [0x29]).drop 4).dropLast = helperString r := by
      simp [cps]
    simp only [pre, lst, and_self, if_true, inner]
    rw [e] at hs ⊢
    simp only [if_true]
    exact hs
  · -- unquoted
    simp only [hf, Bool.false_eq_true, if_false]
    have pre : (cps "url(").isPrefixOf (cps "url(" ++ r ++ [0x29]) = true := by
      simp [cps, List.isPrefixOf]
    have lst : (cps "url(" ++ r ++ [0x29]).getLast? = some 0x29 := by simp
    have inner : ((cps "url(" ++ r ++ [0x29]).drop 4).dropLast = r := by simp [cps]
    simp only [pre, lst, and_self, if_true, inner]
    have hnf : ∀ c ∈ r, forbiddenInUri c = false := by
      intro c hcm
      cases h : forbiddenInUri c with
      | false => rfl
      | true => exact absurd (List.any_eq_true.mpr ⟨c, hcm, h⟩) hf
    cases r with
    | nil => rfl
    | cons q t =>
      have hq : q ≠ cQuote := by
        intro e; have := hnf q (by simp); rw [e] at this; revert this; decide
      have hall : (q :: t).all isUrlChar = true := by
        apply List.all_eq_true.mpr
        intro c hcm
        rcases hc c hcm with h | h
        · exact h
        · rw [hnf c hcm] at h; cases h
      simp only [hq, if_false, hall, if_true]
      rw [storedDenote_plain _ hr]

end CssVerif.Num
