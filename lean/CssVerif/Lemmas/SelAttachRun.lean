import CssVerif.Lemmas.SelAttachSpec
import CssVerif.Lemmas.SelUsed
/-!
# The two item invariants of `serItems_filter` hold along every run of the `New` state machine
-/
namespace CssVerif.Sel
open CssVerif.Proto CssVerif.Gen.C16

/-- the callbacks hand `New.append` a string or a comment, never a `(namespaceURI, name)` pair -/
def Val.notNs : Val → Prop
  | .ns _ _ => False
  | _ => True

theorem good_of_notNs (ns : NsMap) (v : Val) (typ : Cps) (h : v.notNs) : Good ns ⟨v, typ⟩ := by
  intro u n e
  cases v with
  | ns _ _ => exact absurd h (by simp [Val.notNs])
  | str _ => cases e
  | comment _ => cases e

theorem resolveNs_none (ns : NsMap) (p : Option Cps) (h : resolveNs ns p = some .none) : nsGet ns [] = none := by
  unfold resolveNs at h
  cases p with
  | none =>
    simp only at h
    cases hd : nsGet ns [] with
    | none => rfl
    | some u => rw [hd] at h; simp at h
  | some q =>
    simp only at h
    split at h
    · simp at h
    · split at h
      · simp at h
      · cases hq : nsGet ns q with
        | none => rw [hq] at h; simp at h
        | some u => rw [hq] at h; simp at h

theorem needsNs_typ (typ : Cps) (p : Option Cps) (h : needsNs typ p = true) :
    (endsWith typ sfxSelector || typ == tyUniversal) = true := by
  simp only [needsNs, Bool.and_eq_true] at h
  exact h.1

theorem takePrefix_notNs (pfx : Option Cps) (v : Val) (typ : Cps) (pv : Option Cps × Val) (hv : v.notNs)
    (h : takePrefix pfx v typ = .ok pv) : pv.2.notNs := by
  unfold takePrefix at h
  cases pfx with
  | some p => simp only [pure, Except.pure, Except.ok.injEq] at h; rw [← h]; exact hv
  | none =>
    simp only at h
    cases v with
    | ns _ _ => exact absurd hv (by simp [Val.notNs])
    | comment s => simp only [pure, Except.pure, Except.ok.injEq] at h; rw [← h]; trivial
    | str s =>
      simp only at h
      split at h
      · split at h
        · simp only [pure, Except.pure, Except.ok.injEq] at h; rw [← h]; trivial
        · cases h
      · simp only [pure, Except.pure, Except.ok.injEq] at h; rw [← h]; trivial

/-- `New.append` keeps the invariant; `st'` is any state with the `seq` of the result -/
theorem append_good (ns : NsMap) (st st1 : St) (v : Val) (typ : Cps) (ha : append ns st v typ = .ok st1)
    (hinv : AllGood ns st.rseq) (hv : v.notNs) (rs : List Item) (hrs : rs = st1.rseq) : AllGood ns rs := by
  subst hrs
  unfold append at ha
  cases hc : st.ctx with
  | nil => simp [top, hc, bind, Except.bind] at ha
  | cons c r =>
    simp only [top, hc, bind, Except.bind, pure, Except.pure] at ha
    split at ha
    · split at ha
      · cases ha; exact hinv
      · cases ha
    · split at ha
      · cases ha; exact allGood_cons (good_of_notNs ns v typ hv) hinv
      · cases hp : takePrefix st.pfx v typ with
        | error e => simp [hp] at ha
        | ok pv =>
          have hpv := takePrefix_notNs _ _ _ _ hv hp
          simp only [hp] at ha
          split at ha
          · rename_i hneeds
            split at ha
            · rename_i name hname
              split at ha
              · rename_i u hu
                cases ha
                refine allGood_cons ?_ hinv
                intro u' n' e
                simp only [Val.ns.injEq] at e
                refine ⟨needsNs_typ typ pv.1 hneeds, fun hnone => ?_⟩
                rw [← e.1] at hnone
                exact resolveNs_none ns pv.1 (by rw [hu, hnone])
              · cases ha; exact hinv
            · cases ha
              exact allGood_cons (good_of_notNs ns _ typ hpv) hinv
          · cases ha
            exact allGood_cons (good_of_notNs ns _ typ hpv) hinv

theorem append_good3 (ns : NsMap) {st st1 : St} {v : Val} {typ : Cps} (ha : append ns st v typ = .ok st1)
    (hinv : AllGood ns st.rseq) (hv : v.notNs) : AllGood ns st1.rseq :=
  append_good ns st st1 v typ ha hinv hv _ rfl

theorem replaceLast_good (ns : NsMap) (st : St) (s typ : Cps) (hinv : AllGood ns st.rseq) :
    AllGood ns (replaceLast st ⟨.str s, typ⟩).rseq := by
  unfold replaceLast
  exact allGood_cons (good_str ns s typ) (fun it hit => hinv it (List.mem_of_mem_drop hit))

theorem cb_good (ns : NsMap) (cb : Cb) (st st' : St) (t : Tok) (hinv : AllGood ns st.rseq)
    (h : runCb cb ns st t = .ok st') : AllGood ns st'.rseq := by
  cases cb
  case char =>
    simp only [runCb, cbChar, fail, bind, Except.bind, pure, Except.pure] at h
    repeat' split at h
    all_goals first
      | (cases h; exact hinv)
      | (exact hinv)
      | (cases h; exact replaceLast_good ns st _ _ hinv)
      | (cases h
         dsimp only
         apply append_good3 ns
         · assumption
         · exact hinv
         · trivial)
      | (dsimp only
         apply append_good3 ns
         · assumption
         · exact hinv
         · trivial)
      | (exact append_good3 ns h hinv trivial)
      | (cases h)
  case cls =>
    simp only [runCb, cbClass, fail, bind, Except.bind, pure, Except.pure] at h
    repeat' split at h
    all_goals first
      | (cases h; exact hinv)
      | (exact hinv)
      | (cases h; exact replaceLast_good ns st _ _ hinv)
      | (cases h
         dsimp only
         apply append_good3 ns
         · assumption
         · exact hinv
         · trivial)
      | (dsimp only
         apply append_good3 ns
         · assumption
         · exact hinv
         · trivial)
      | (exact append_good3 ns h hinv trivial)
      | (cases h)
  case hash =>
    simp only [runCb, cbHash, fail, bind, Except.bind, pure, Except.pure] at h
    repeat' split at h
    all_goals first
      | (cases h; exact hinv)
      | (exact hinv)
      | (cases h; exact replaceLast_good ns st _ _ hinv)
      | (cases h
         dsimp only
         apply append_good3 ns
         · assumption
         · exact hinv
         · trivial)
      | (dsimp only
         apply append_good3 ns
         · assumption
         · exact hinv
         · trivial)
      | (exact append_good3 ns h hinv trivial)
      | (cases h)
  case string =>
    simp only [runCb, cbString, fail, bind, Except.bind, pure, Except.pure] at h
    repeat' split at h
    all_goals first
      | (cases h; exact hinv)
      | (exact hinv)
      | (cases h; exact replaceLast_good ns st _ _ hinv)
      | (cases h
         dsimp only
         apply append_good3 ns
         · assumption
         · exact hinv
         · trivial)
      | (dsimp only
         apply append_good3 ns
         · assumption
         · exact hinv
         · trivial)
      | (exact append_good3 ns h hinv trivial)
      | (cases h)
  case ident =>
    simp only [runCb, cbIdent, fail, bind, Except.bind, pure, Except.pure] at h
    repeat' split at h
    all_goals first
      | (cases h; exact hinv)
      | (exact hinv)
      | (cases h; exact replaceLast_good ns st _ _ hinv)
      | (cases h
         dsimp only
         apply append_good3 ns
         · assumption
         · exact hinv
         · trivial)
      | (dsimp only
         apply append_good3 ns
         · assumption
         · exact hinv
         · trivial)
      | (exact append_good3 ns h hinv trivial)
      | (cases h)
  case nsPrefix =>
    simp only [runCb, cbNsPrefix, fail, bind, Except.bind, pure, Except.pure] at h
    repeat' split at h
    all_goals first
      | (cases h; exact hinv)
      | (exact hinv)
      | (cases h; exact replaceLast_good ns st _ _ hinv)
      | (cases h
         dsimp only
         apply append_good3 ns
         · assumption
         · exact hinv
         · trivial)
      | (dsimp only
         apply append_good3 ns
         · assumption
         · exact hinv
         · trivial)
      | (exact append_good3 ns h hinv trivial)
      | (cases h)
  case pseudo =>
    simp only [runCb, cbPseudo, fail, bind, Except.bind, pure, Except.pure] at h
    repeat' split at h
    all_goals first
      | (cases h; exact hinv)
      | (exact hinv)
      | (cases h; exact replaceLast_good ns st _ _ hinv)
      | (cases h
         dsimp only
         apply append_good3 ns
         · assumption
         · exact hinv
         · trivial)
      | (dsimp only
         apply append_good3 ns
         · assumption
         · exact hinv
         · trivial)
      | (exact append_good3 ns h hinv trivial)
      | (cases h)
  case universal =>
    simp only [runCb, cbUniversal, fail, bind, Except.bind, pure, Except.pure] at h
    repeat' split at h
    all_goals first
      | (cases h; exact hinv)
      | (exact hinv)
      | (cases h; exact replaceLast_good ns st _ _ hinv)
      | (cases h
         dsimp only
         apply append_good3 ns
         · assumption
         · exact hinv
         · trivial)
      | (dsimp only
         apply append_good3 ns
         · assumption
         · exact hinv
         · trivial)
      | (exact append_good3 ns h hinv trivial)
      | (cases h)
  case expression =>
    simp only [runCb, cbExpression, fail, bind, Except.bind, pure, Except.pure] at h
    repeat' split at h
    all_goals first
      | (cases h; exact hinv)
      | (exact hinv)
      | (cases h; exact replaceLast_good ns st _ _ hinv)
      | (cases h
         dsimp only
         apply append_good3 ns
         · assumption
         · exact hinv
         · trivial)
      | (dsimp only
         apply append_good3 ns
         · assumption
         · exact hinv
         · trivial)
      | (exact append_good3 ns h hinv trivial)
      | (cases h)
  case attcombinator =>
    simp only [runCb, cbAttcombinator, fail, bind, Except.bind, pure, Except.pure] at h
    repeat' split at h
    all_goals first
      | (cases h; exact hinv)
      | (exact hinv)
      | (cases h; exact replaceLast_good ns st _ _ hinv)
      | (cases h
         dsimp only
         apply append_good3 ns
         · assumption
         · exact hinv
         · trivial)
      | (dsimp only
         apply append_good3 ns
         · assumption
         · exact hinv
         · trivial)
      | (exact append_good3 ns h hinv trivial)
      | (cases h)
  case s =>
    simp only [runCb, cbS, fail, bind, Except.bind, pure, Except.pure] at h
    repeat' split at h
    all_goals first
      | (cases h; exact hinv)
      | (exact hinv)
      | (cases h; exact replaceLast_good ns st _ _ hinv)
      | (cases h
         dsimp only
         apply append_good3 ns
         · assumption
         · exact hinv
         · trivial)
      | (dsimp only
         apply append_good3 ns
         · assumption
         · exact hinv
         · trivial)
      | (exact append_good3 ns h hinv trivial)
      | (cases h)
  case negation =>
    simp only [runCb, cbNegation, fail, bind, Except.bind, pure, Except.pure] at h
    repeat' split at h
    all_goals first
      | (cases h; exact hinv)
      | (exact hinv)
      | (cases h; exact replaceLast_good ns st _ _ hinv)
      | (cases h
         dsimp only
         apply append_good3 ns
         · assumption
         · exact hinv
         · trivial)
      | (dsimp only
         apply append_good3 ns
         · assumption
         · exact hinv
         · trivial)
      | (exact append_good3 ns h hinv trivial)
      | (cases h)
  case comment =>
    simp only [runCb, cbCOMMENT, fail, bind, Except.bind, pure, Except.pure] at h
    repeat' split at h
    all_goals first
      | (cases h; exact hinv)
      | (exact hinv)
      | (cases h; exact replaceLast_good ns st _ _ hinv)
      | (cases h
         dsimp only
         apply append_good3 ns
         · assumption
         · exact hinv
         · trivial)
      | (dsimp only
         apply append_good3 ns
         · assumption
         · exact hinv
         · trivial)
      | (exact append_good3 ns h hinv trivial)
      | (cases h)
  case atkeyword =>
    simp only [runCb, cbAtkeyword, fail, bind, Except.bind, pure, Except.pure] at h
    repeat' split at h
    all_goals first
      | (cases h; exact hinv)
      | (exact hinv)
      | (cases h; exact replaceLast_good ns st _ _ hinv)
      | (cases h
         dsimp only
         apply append_good3 ns
         · assumption
         · exact hinv
         · trivial)
      | (dsimp only
         apply append_good3 ns
         · assumption
         · exact hinv
         · trivial)
      | (exact append_good3 ns h hinv trivial)
      | (cases h)

theorem step_good (ns : NsMap) (st st' : St) (t : Tok) (hinv : AllGood ns st.rseq) (h : step ns st t = .ok st') :
    AllGood ns st'.rseq := by
  unfold step at h
  split at h
  · exact cb_good ns _ st st' t hinv h
  · split at h
    · cases h; exact hinv
    · simp only [fail, pure, Except.pure] at h
      cases h; exact hinv

theorem run_good (ns : NsMap) (toks : List Tok) (st st' : St) (hinv : AllGood ns st.rseq) (h : run ns st toks = .ok st') :
    AllGood ns st'.rseq := by
  induction toks generalizing st with
  | nil => simp [run, pure, Except.pure] at h; subst h; exact hinv
  | cons t ts ih =>
    simp only [run, bind, Except.bind] at h
    cases hs : step ns st t with
    | error e => simp [hs] at h
    | ok st1 =>
      simp only [hs] at h
      exact ih st1 (step_good ns st st1 t hinv hs) h

/-- the items of every committed selector are good -/
theorem parseSel_good (ns : NsMap) (toks : List Tok) (r : SelRec) (h : parseSel ns toks = .ok (some r)) :
    AllGood ns r.seq ∧ ∃ uris, usedUris r.seq = .ok uris ∧ r.nsUsed = ns.filter fun pu => uris.contains (.uri pu.2) := by
  unfold parseSel at h
  split at h
  · cases h
  · simp only [parseCore, bind, Except.bind] at h
    cases hr : run ns {} (prepare toks) with
    | error e => simp [hr] at h
    | ok st =>
      simp only [hr, pure, Except.pure] at h
      have hgood := run_good ns (prepare toks) {} st (fun it hit => by simp at hit) hr
      cases hf : finishCore st with
      | none => simp [hf, commit, pure, Except.pure] at h
      | some core =>
        simp only [hf, commit, usedNamespaces, bind, Except.bind] at h
        obtain ⟨uris, hu⟩ := usedUris_ok core.seq
        simp only [hu, pure, Except.pure, Except.ok.injEq, Option.some.injEq] at h
        subst h
        refine ⟨?_, uris, hu, rfl⟩
        -- `core.seq` is `st.rseq` (possibly without its head) reversed
        have hsub : ∀ it ∈ core.seq, it ∈ st.rseq := by
          unfold finishCore at hf
          simp only [Option.ite_none_right_eq_some] at hf
          obtain ⟨_, hc⟩ := hf
          simp only [Option.some.injEq] at hc
          rw [← hc]
          intro it hit
          simp only [List.mem_reverse] at hit
          split at hit
          · rename_i it0 r0 hrs
            split at hit
            · split at hit
              · rw [hrs]; exact List.mem_cons_of_mem _ hit
              · exact hit
            · exact hit
          · simp at hit
        exact fun it hit => hgood it (hsub it hit)

end CssVerif.Sel
