import CssVerif.Lemmas.MacroHist
/-!
# Lemmas for C14 — the fuel is no part of what a history computes

Two configurations with the same base macros and fuels above the ranks: every operation returns the same registry
and the same outcome, as long as the macros respect the rank function (`Good`, `RankedOp`).
-/
namespace CssVerif.Profiles

theorem expandValue_fuel_eq {rk : Str → Nat} {m : Dict Str} (hm : RankedAll rk m) {f g : Nat} (hf : Bounded rk f)
    (hg : Bounded rk g) (v : Str) : expandValue m f v = expandValue m g v := by
  have h1 := expandValue_terminates rk m hm.rankedBy f v (depth_le_of_bounded hf v)
  have h2 := expandValue_terminates rk m hm.rankedBy g v (depth_le_of_bounded hg v)
  by_cases hfg : f ≤ g
  · exact (expandValue_stable m f g v hfg h1).symm
  · exact expandValue_stable m g f v (by omega) h2

theorem expandDict_fuel_eq {rk : Str → Nat} {m : Dict Str} (hm : RankedAll rk m) {f g : Nat} (hf : Bounded rk f)
    (hg : Bounded rk g) (d : Dict PVal) : expandDict f m d = expandDict g m d := by
  induction d with
  | nil => rfl
  | cons x t ih =>
    obtain ⟨k, pv⟩ := x
    cases pv with
    | fn i => simp only [expandDict, ih]
    | pat s => simp only [expandDict, ih, expandValue_fuel_eq hm hf hg s]

theorem rebuild_fuel_eq {rk : Str → Nat} {m : Dict Str} (hm : RankedAll rk m) {f g : Nat} (hf : Bounded rk f)
    (hg : Bounded rk g) (raw : Dict Raw) (acc : Dict (Dict CVal)) (names : List Str) :
    rebuild f raw m acc names = rebuild g raw m acc names := by
  induction names generalizing acc with
  | nil => rfl
  | cons p ps ih =>
    simp only [rebuild]
    cases dget raw p with
    | none => rfl
    | some e =>
      simp only
      cases e.props with
      | none => rfl
      | some props =>
        simp only [expandDict_fuel_eq hm hf hg props]
        cases expandDict g m props with
        | error x => rfl
        | ok ex => exact ih _

/-- two configurations that differ in the fuel only -/
structure SameBase (c₁ c₂ : Cfg) : Prop where
  base : c₁.base = c₂.base

variable {rk : Str → Nat} {c₁ c₂ : Cfg}

theorem resetProperties_fuel_eq (hb : SameBase c₁ c₂) (h₁ : Bounded rk c₁.fuel) (h₂ : Bounded rk c₂.fuel) {r : Reg}
    (hg : Good rk c₁ r) (nm : Option (Dict Str)) (hnm : optRanked rk nm) :
    resetProperties c₁ r nm = resetProperties c₂ r nm := by
  unfold resetProperties
  rw [← hb.base]
  cases hgm : gatherMacros r.raw c₁.base r.names with
  | error e => rfl
  | ok m0 =>
    have hm0 := gatherMacros_ranked r.raw hg.raw c₁.base hg.base r.names m0 hgm
    have hm : RankedAll rk (if truthy nm then dupdate m0 (nm.getD []) else m0) := by
      split
      · exact rankedAll_dupdate hm0 hnm
      · exact hm0
    simp only [rebuild_fuel_eq hm h₁ h₂]

theorem good_sameBase (hb : SameBase c₁ c₂) {r : Reg} (hg : Good rk c₁ r) : Good rk c₂ r :=
  ⟨hb.base ▸ hg.base, hg.used, hg.raw⟩

theorem addMacros_fuel_eq (hb : SameBase c₁ c₂) (h₁ : Bounded rk c₁.fuel) (h₂ : Bounded rk c₂.fuel) {r : Reg}
    (hg : Good rk c₁ r) (p : Str) (ms : Option (Dict Str)) (hms : optRanked rk ms) :
    addMacros c₁ r p ms = addMacros c₂ r p ms := by
  unfold addMacros
  split
  · simp only
    split
    · rw [resetProperties_fuel_eq hb h₁ h₂ hg (some (ms.getD [])) hms]
    · rfl
  · rfl

theorem addStore_fuel_eq (h₁ : Bounded rk c₁.fuel) (h₂ : Bounded rk c₂.fuel) {r : Reg}
    (hg : Good rk c₁ r) (p : Str) (ps : Dict PVal) (ms : Dict Str) :
    addStore c₁ r p ps ms = addStore c₂ r p ps ms := by
  unfold addStore
  simp only [expandDict_fuel_eq hg.used h₁ h₂ ps]

theorem addProfileRaw_fuel_eq (hb : SameBase c₁ c₂) (h₁ : Bounded rk c₁.fuel) (h₂ : Bounded rk c₂.fuel) {r : Reg}
    (hg : Good rk c₁ r) (p : Str) (ps : Dict PVal) (ms : Option (Dict Str)) (hms : optRanked rk ms) :
    addProfileRaw c₁ r p ps ms = addProfileRaw c₂ r p ps ms := by
  unfold addProfileRaw
  split
  · unfold addReplace
    have hg2 : Good rk c₁ { r with
        names := if p ∈ r.names then r.names else r.names ++ [p],
        raw := dset r.raw p { props := some ps, macros := ms.getD [] } } :=
      ⟨hg.base, hg.used, raw_dset_good r.raw hg.raw p _ hms⟩
    simp only [resetProperties_fuel_eq hb h₁ h₂ hg2 none (rankedAll_nil rk)]
  · unfold addPlain
    simp only [addMacros_fuel_eq hb h₁ h₂ hg p ms hms]
    obtain ⟨g1, _⟩ := addMacros_good hg p ms hms
    rw [addMacros_fuel_eq hb h₁ h₂ hg p ms hms] at g1
    split
    · rfl
    · exact addStore_fuel_eq h₁ h₂ g1 p ps _

theorem addProfile_fuel_eq (hb : SameBase c₁ c₂) (h₁ : Bounded rk c₁.fuel) (h₂ : Bounded rk c₂.fuel) {r : Reg}
    (hg : Good rk c₁ r) (p : Str) (ps : Dict PVal) (ms : Option (Dict Str)) (hms : optRanked rk ms) :
    addProfile c₁ r p ps ms = addProfile c₂ r p ps ms := by
  unfold addProfile atomic
  simp only [addProfileRaw_fuel_eq hb h₁ h₂ hg p ps ms hms]

theorem addEach_fuel_eq (hb : SameBase c₁ c₂) (h₁ : Bounded rk c₁.fuel) (h₂ : Bounded rk c₂.fuel) {r : Reg}
    (hg : Good rk c₁ r) (l : List ProfileDef) : addEach c₁ r l = addEach c₂ r l := by
  induction l generalizing r with
  | nil => rfl
  | cons d ds ih =>
    simp only [addEach]
    have he := addProfile_fuel_eq hb h₁ h₂ hg d.name d.props none (rankedAll_nil rk)
    have hg' := addProfile_good hg d.name d.props none (rankedAll_nil rk)
    rw [← he]
    split
    · rfl
    · exact ih hg'

theorem addProfiles_fuel_eq (hb : SameBase c₁ c₂) (h₁ : Bounded rk c₁.fuel) (h₂ : Bounded rk c₂.fuel) {r : Reg}
    (hg : Good rk c₁ r) (l : List ProfileDef) (hl : ∀ d ∈ l, optRanked rk d.macros) :
    addProfiles c₁ r l = addProfiles c₂ r l := by
  have h0 := preload_good hg l hl
  have h1 := addEach_good h0 l
  have : addProfilesRaw c₁ r l = addProfilesRaw c₂ r l := by
    unfold addProfilesRaw
    simp only [← addEach_fuel_eq hb h₁ h₂ h0 l,
      ← resetProperties_fuel_eq hb h₁ h₂ h1 none (rankedAll_nil rk)]
  unfold addProfiles atomic
  simp only [this]

theorem removeProfileRaw_fuel_eq (hb : SameBase c₁ c₂) (h₁ : Bounded rk c₁.fuel) (h₂ : Bounded rk c₂.fuel) {r : Reg}
    (hg : Good rk c₁ r) (q : Option Str) : removeProfileRaw c₁ r q = removeProfileRaw c₂ r q := by
  unfold removeProfileRaw
  cases q with
  | none => rfl
  | some p =>
    simp only
    cases dget r.raw p with
    | none => rfl
    | some e =>
      simp only
      cases dget r.compiled p with
      | none => rfl
      | some c =>
        simp only
        have hg2 : Good rk c₁ { r with compiled := derase r.compiled p, raw := derase r.raw p,
                                        names := r.names.erase p } := ⟨hg.base, hg.used, raw_derase_good r.raw hg.raw p⟩
        simp only [resetProperties_fuel_eq hb h₁ h₂ hg2 none (rankedAll_nil rk)]

theorem step_fuel_eq (hb : SameBase c₁ c₂) (h₁ : Bounded rk c₁.fuel) (h₂ : Bounded rk c₂.fuel) {r : Reg}
    (hg : Good rk c₁ r) (op : Op) (hop : RankedOp rk op) : step c₁ r op = step c₂ r op := by
  cases op with
  | add n ps ms => exact addProfile_fuel_eq hb h₁ h₂ hg n ps ms hop
  | addMany l => exact addProfiles_fuel_eq hb h₁ h₂ hg l hop
  | remove q =>
    show removeProfile c₁ r q = removeProfile c₂ r q
    unfold removeProfile atomic
    simp only [removeProfileRaw_fuel_eq hb h₁ h₂ hg q]
  | removeAll =>
    show (removeAll c₁ r, none) = (removeAll c₂ r, none)
    unfold removeAll
    rw [hb.base]
  | setDefault d => rfl

theorem run_fuel_eq (hb : SameBase c₁ c₂) (h₁ : Bounded rk c₁.fuel) (h₂ : Bounded rk c₂.fuel) (r : Reg)
    (hg : Good rk c₁ r) (ops : List Op) (hops : ∀ op ∈ ops, RankedOp rk op) : run c₁ r ops = run c₂ r ops := by
  induction ops generalizing r with
  | nil => rfl
  | cons o t ih =>
    simp only [run]
    have he := step_fuel_eq hb h₁ h₂ hg o (hops o (by simp))
    have hg' := step_good hg o (hops o (by simp))
    rw [← he]
    exact ih _ hg' (fun x hx => hops x (by simp [hx]))

theorem init_fuel_eq (hb : SameBase c₁ c₂) (h₁ : Bounded rk c₁.fuel) (h₂ : Bounded rk c₂.fuel)
    (hbase : RankedAll rk c₁.base) (l : List ProfileDef) (hl : ∀ d ∈ l, optRanked rk d.macros) :
    init c₁ l = init c₂ l := by
  unfold init
  have : empty c₁ = empty c₂ := by unfold empty; rw [hb.base]
  rw [← this, addProfiles_fuel_eq hb h₁ h₂ (good_empty hbase) l hl]

end CssVerif.Profiles
